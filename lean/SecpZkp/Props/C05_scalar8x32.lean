import SecpZkp.Proofs.ScalarKernel32
import SecpZkp.Gen.K_scalar8x32
/-
  C05 (scalar part, 32-bit limbs): the 8×32-limb scalar arithmetic of the C library (`src/scalar_8x32_impl.h`) is
  exact for ALL limb values.

  Object of the theorems: the MiniC IR `Gen.scalar8x32.*` that `tools/c2lean_k.py` regenerates from the C sources
  (callees and the macros `muladd`, `muladd_fast`, `sumadd`, `sumadd_fast`, `extract`, `extract_fast` inlined).
  Semantics: `execL`, i.e. C's WRAP-AROUND arithmetic (uint32 mod 2^32, uint64 mod 2^64).  The code uses the
  add-with-carry idiom (`c0 += tl; th += (c0 < tl); c1 += th; c2 += (c1 < th)`) on purpose, so the interval checker
  of `Props/C05_field.lean` does not apply; the proofs reason about `execL` directly.

  THIS FILE IS GENERATED (by small Python scripts that read `Gen/K_scalar8x32.lean`, recognise the macro expansions
  and print one rule application per macro); it is regular on purpose.  Method (`Proofs/ScalarKernel32.lean`):
  * The three variables `(c0, c1, c2)` are read as the 96-bit accumulator `c0 + c1·2^32 + c2·2^64`.  Every macro
    expansion is consumed by ONE Hoare-style rule (`muladd_rule`, `muladd_fast_rule`, `sumadd_rule`,
    `sumadd_fast_rule`, `extract*_rule`, ...), proved once for arbitrary variable names: the new limbs are in range
    and the accumulator has grown by exactly the added term, PROVIDED the numeric bound carried along for the
    accumulator leaves room (a closed inequality, `by decide`: this is what makes the `_fast` variants and the
    32-bit `c2` safe); the rest of the program continues in a fresh memory about which only the frame condition is
    known.  Every step has constant cost.
  * The equations of a column are summed (`colsumN`), and the cumulative equation
      `Σ out_j·2^(32j) + acc·2^(32k) = Σ (column terms)_j·2^(32j)`
    is extended column by column (`combine`); for `scalar_mul_512` its final form is literally the school-book
    expansion of `val8x32 a * val8x32 b` (`val8x32_mul`, by `ring`).
  * The long programs are cut into pieces (`…_run_pK`, theorems about suffixes `body.drop n` of the program), each
    piece ends by calling the next one.
  * The last stage of `scalar_reduce_512`, `scalar_add`, `scalar_negate`, `scalar_half`, `scalar_cadd_bit` are short
    and are executed with the tactics of `Proofs/ScalarKernel.lean` (`steps`, `vstep`); their arithmetic is in
    `Proofs/ScalarKernel32.lean` (`add_chain_arith32`, `check_overflow_spec32`, `final_reduce_arith32`, ...).

  A change of the C code that breaks the arithmetic (a dropped `muladd`, a swapped index, a wrong constant, a
  `_fast` macro where the accumulator may overflow) makes the corresponding step or the final identity fail.
  No axioms beyond propext / Classical.choice / Quot.sound.
-/

set_option linter.unusedVariables false
set_option linter.unusedSimpArgs false

namespace SecpZkp
namespace C05sc32
open MiniC ScalarKernel ScalarKernel32

/-! ### reading scalars from memory -/

/-- the eight cells `x[0..7]` hold 32-bit values -/
def Limbs32 (env : Env) (x : String) : Prop :=
  env.get x 0 < 2 ^ 32 ∧ env.get x 1 < 2 ^ 32 ∧ env.get x 2 < 2 ^ 32 ∧ env.get x 3 < 2 ^ 32 ∧
  env.get x 4 < 2 ^ 32 ∧ env.get x 5 < 2 ^ 32 ∧ env.get x 6 < 2 ^ 32 ∧ env.get x 7 < 2 ^ 32

instance (env : Env) (x : String) : Decidable (Limbs32 env x) := by unfold Limbs32; infer_instance

/-- the sixteen cells `x[0..15]` hold 32-bit values -/
def Limbs32x16 (env : Env) (x : String) : Prop :=
  env.get x 0 < 2 ^ 32 ∧ env.get x 1 < 2 ^ 32 ∧ env.get x 2 < 2 ^ 32 ∧ env.get x 3 < 2 ^ 32 ∧
  env.get x 4 < 2 ^ 32 ∧ env.get x 5 < 2 ^ 32 ∧ env.get x 6 < 2 ^ 32 ∧ env.get x 7 < 2 ^ 32 ∧
  env.get x 8 < 2 ^ 32 ∧ env.get x 9 < 2 ^ 32 ∧ env.get x 10 < 2 ^ 32 ∧ env.get x 11 < 2 ^ 32 ∧
  env.get x 12 < 2 ^ 32 ∧ env.get x 13 < 2 ^ 32 ∧ env.get x 14 < 2 ^ 32 ∧ env.get x 15 < 2 ^ 32

instance (env : Env) (x : String) : Decidable (Limbs32x16 env x) := by unfold Limbs32x16; infer_instance

/-- the number held by the 8-limb array `x` (`secp256k1_scalar.d`) -/
def sval (env : Env) (x : String) : Nat :=
  val8x32 (env.get x 0) (env.get x 1) (env.get x 2) (env.get x 3) (env.get x 4) (env.get x 5) (env.get x 6) (env.get x 7)

/-- the number held by the 16-limb array `x` -/
def lval16 (env : Env) (x : String) : Nat :=
  val16x32 (env.get x 0) (env.get x 1) (env.get x 2) (env.get x 3) (env.get x 4) (env.get x 5) (env.get x 6)
    (env.get x 7) (env.get x 8) (env.get x 9) (env.get x 10) (env.get x 11) (env.get x 12) (env.get x 13)
    (env.get x 14) (env.get x 15)

/-- a memory with the scalars `a` and `b` (limbs little-endian) -/
def abEnv (a0 a1 a2 a3 a4 a5 a6 a7 b0 b1 b2 b3 b4 b5 b6 b7 : Nat) : Env :=
  [(("a.d", 0), a0), (("a.d", 1), a1), (("a.d", 2), a2), (("a.d", 3), a3), (("a.d", 4), a4), (("a.d", 5), a5),
   (("a.d", 6), a6), (("a.d", 7), a7),
   (("b.d", 0), b0), (("b.d", 1), b1), (("b.d", 2), b2), (("b.d", 3), b3), (("b.d", 4), b4), (("b.d", 5), b5),
   (("b.d", 6), b6), (("b.d", 7), b7)]

/-- `a = b = 2^256 - 1` (all limbs all-ones; NOT reduced modulo `N`) -/
def onesEnv : Env :=
  abEnv 4294967295 4294967295 4294967295 4294967295 4294967295 4294967295 4294967295 4294967295
        4294967295 4294967295 4294967295 4294967295 4294967295 4294967295 4294967295 4294967295

/-- `a = b = N - 1` -/
def nm1Env : Env :=
  abEnv 3493216576 3218235020 2940772411 3132021990 4294967294 4294967295 4294967295 4294967295
        3493216576 3218235020 2940772411 3132021990 4294967294 4294967295 4294967295 4294967295

/-- the constants `SECP256K1_N_C_0 .. 3` as the C code spells them (`~N_0 + 1`, `~N_1`, `~N_2`, `~N_3`) -/
theorem nc0_eq32 : binWrap .add 32 (2 ^ 32 - 1 - 3493216577 % 2 ^ 32) 1 = 801750719 := by decide
theorem nc1_eq32 : 2 ^ 32 - 1 - 3218235020 % 2 ^ 32 = 1076732275 := by decide
theorem nc2_eq32 : 2 ^ 32 - 1 - 2940772411 % 2 ^ 32 = 1354194884 := by decide
theorem nc3_eq32 : 2 ^ 32 - 1 - 3132021990 % 2 ^ 32 = 1162945305 := by decide

/-- the scratch variables of the accumulator macros (in `scalar_mul_512` / `scalar_reduce_512` themselves, and
    in their inlined copies inside `scalar_mul`) -/
def accS : List String := ["t", "th", "tl", "c0", "c1", "c2", "over"]
def accSm : List String := ["scalar_mul_512_3.t", "scalar_mul_512_3.th", "scalar_mul_512_3.tl", "scalar_mul_512_3.c0",
  "scalar_mul_512_3.c1", "scalar_mul_512_3.c2", "scalar_mul_512_3.over"]
def accSr : List String := ["scalar_reduce_512_4.t", "scalar_reduce_512_4.th", "scalar_reduce_512_4.tl",
  "scalar_reduce_512_4.c0", "scalar_reduce_512_4.c1", "scalar_reduce_512_4.c2", "scalar_reduce_512_4.over"]


/-! ### 1. `secp256k1_scalar_add` -/

/-- post-condition of `secp256k1_scalar_add(r, a, b)` in terms of the input limbs -/
def AddPost (a0 a1 a2 a3 a4 a5 a6 a7 b0 b1 b2 b3 b4 b5 b6 b7 : Nat) (out : Env × Option Nat) : Prop :=
  val8x32 (out.1.get "r.d" 0) (out.1.get "r.d" 1) (out.1.get "r.d" 2) (out.1.get "r.d" 3) (out.1.get "r.d" 4) (out.1.get "r.d" 5) (out.1.get "r.d" 6) (out.1.get "r.d" 7) =
    (val8x32 a0 a1 a2 a3 a4 a5 a6 a7 + val8x32 b0 b1 b2 b3 b4 b5 b6 b7) % N ∧
  out.2 = some (if N ≤ val8x32 a0 a1 a2 a3 a4 a5 a6 a7 + val8x32 b0 b1 b2 b3 b4 b5 b6 b7 then 1 else 0) ∧
  out.1.get "r.d" 0 < 2 ^ 32 ∧ out.1.get "r.d" 1 < 2 ^ 32 ∧ out.1.get "r.d" 2 < 2 ^ 32 ∧ out.1.get "r.d" 3 < 2 ^ 32 ∧ out.1.get "r.d" 4 < 2 ^ 32 ∧ out.1.get "r.d" 5 < 2 ^ 32 ∧ out.1.get "r.d" 6 < 2 ^ 32 ∧ out.1.get "r.d" 7 < 2 ^ 32

set_option maxRecDepth 100000 in
set_option maxHeartbeats 4000000 in
theorem scalar_add_run (env : Env) (a0 a1 a2 a3 a4 a5 a6 a7 b0 b1 b2 b3 b4 b5 b6 b7 : Nat)
    (h0 : env.get "a.d" 0 = a0) (h1 : env.get "a.d" 1 = a1) (h2 : env.get "a.d" 2 = a2) (h3 : env.get "a.d" 3 = a3) (h4 : env.get "a.d" 4 = a4) (h5 : env.get "a.d" 5 = a5) (h6 : env.get "a.d" 6 = a6) (h7 : env.get "a.d" 7 = a7)
    (g0 : env.get "b.d" 0 = b0) (g1 : env.get "b.d" 1 = b1) (g2 : env.get "b.d" 2 = b2) (g3 : env.get "b.d" 3 = b3) (g4 : env.get "b.d" 4 = b4) (g5 : env.get "b.d" 5 = b5) (g6 : env.get "b.d" 6 = b6) (g7 : env.get "b.d" 7 = b7)
    (A0 : a0 < 2 ^ 32) (A1 : a1 < 2 ^ 32) (A2 : a2 < 2 ^ 32) (A3 : a3 < 2 ^ 32) (A4 : a4 < 2 ^ 32) (A5 : a5 < 2 ^ 32) (A6 : a6 < 2 ^ 32) (A7 : a7 < 2 ^ 32)
    (B0 : b0 < 2 ^ 32) (B1 : b1 < 2 ^ 32) (B2 : b2 < 2 ^ 32) (B3 : b3 < 2 ^ 32) (B4 : b4 < 2 ^ 32) (B5 : b5 < 2 ^ 32) (B6 : b6 < 2 ^ 32) (B7 : b7 < 2 ^ 32)
    (hA : val8x32 a0 a1 a2 a3 a4 a5 a6 a7 < N) (hB : val8x32 b0 b1 b2 b3 b4 b5 b6 b7 < N) :
    AddPost a0 a1 a2 a3 a4 a5 a6 a7 b0 b1 b2 b3 b4 b5 b6 b7 (runR env Gen.scalar8x32.scalar_add.body) := by
  simp only [Gen.scalar8x32.scalar_add]
  steps 1 [h0, h1, h2, h3, h4, h5, h6, h7, g0, g1, g2, g3, g4, g5, g6, g7, nc0_eq32, nc1_eq32, nc2_eq32, nc3_eq32]
  vstep r0 [h0, h1, h2, h3, h4, h5, h6, h7, g0, g1, g2, g3, g4, g5, g6, g7, nc0_eq32, nc1_eq32, nc2_eq32, nc3_eq32]
  vstep t1 [h0, h1, h2, h3, h4, h5, h6, h7, g0, g1, g2, g3, g4, g5, g6, g7, nc0_eq32, nc1_eq32, nc2_eq32, nc3_eq32]
  steps 1 [h0, h1, h2, h3, h4, h5, h6, h7, g0, g1, g2, g3, g4, g5, g6, g7, nc0_eq32, nc1_eq32, nc2_eq32, nc3_eq32]
  vstep r1 [h0, h1, h2, h3, h4, h5, h6, h7, g0, g1, g2, g3, g4, g5, g6, g7, nc0_eq32, nc1_eq32, nc2_eq32, nc3_eq32]
  vstep t2 [h0, h1, h2, h3, h4, h5, h6, h7, g0, g1, g2, g3, g4, g5, g6, g7, nc0_eq32, nc1_eq32, nc2_eq32, nc3_eq32]
  steps 1 [h0, h1, h2, h3, h4, h5, h6, h7, g0, g1, g2, g3, g4, g5, g6, g7, nc0_eq32, nc1_eq32, nc2_eq32, nc3_eq32]
  vstep r2 [h0, h1, h2, h3, h4, h5, h6, h7, g0, g1, g2, g3, g4, g5, g6, g7, nc0_eq32, nc1_eq32, nc2_eq32, nc3_eq32]
  vstep t3 [h0, h1, h2, h3, h4, h5, h6, h7, g0, g1, g2, g3, g4, g5, g6, g7, nc0_eq32, nc1_eq32, nc2_eq32, nc3_eq32]
  steps 1 [h0, h1, h2, h3, h4, h5, h6, h7, g0, g1, g2, g3, g4, g5, g6, g7, nc0_eq32, nc1_eq32, nc2_eq32, nc3_eq32]
  vstep r3 [h0, h1, h2, h3, h4, h5, h6, h7, g0, g1, g2, g3, g4, g5, g6, g7, nc0_eq32, nc1_eq32, nc2_eq32, nc3_eq32]
  vstep t4 [h0, h1, h2, h3, h4, h5, h6, h7, g0, g1, g2, g3, g4, g5, g6, g7, nc0_eq32, nc1_eq32, nc2_eq32, nc3_eq32]
  steps 1 [h0, h1, h2, h3, h4, h5, h6, h7, g0, g1, g2, g3, g4, g5, g6, g7, nc0_eq32, nc1_eq32, nc2_eq32, nc3_eq32]
  vstep r4 [h0, h1, h2, h3, h4, h5, h6, h7, g0, g1, g2, g3, g4, g5, g6, g7, nc0_eq32, nc1_eq32, nc2_eq32, nc3_eq32]
  vstep t5 [h0, h1, h2, h3, h4, h5, h6, h7, g0, g1, g2, g3, g4, g5, g6, g7, nc0_eq32, nc1_eq32, nc2_eq32, nc3_eq32]
  steps 1 [h0, h1, h2, h3, h4, h5, h6, h7, g0, g1, g2, g3, g4, g5, g6, g7, nc0_eq32, nc1_eq32, nc2_eq32, nc3_eq32]
  vstep r5 [h0, h1, h2, h3, h4, h5, h6, h7, g0, g1, g2, g3, g4, g5, g6, g7, nc0_eq32, nc1_eq32, nc2_eq32, nc3_eq32]
  vstep t6 [h0, h1, h2, h3, h4, h5, h6, h7, g0, g1, g2, g3, g4, g5, g6, g7, nc0_eq32, nc1_eq32, nc2_eq32, nc3_eq32]
  steps 1 [h0, h1, h2, h3, h4, h5, h6, h7, g0, g1, g2, g3, g4, g5, g6, g7, nc0_eq32, nc1_eq32, nc2_eq32, nc3_eq32]
  vstep r6 [h0, h1, h2, h3, h4, h5, h6, h7, g0, g1, g2, g3, g4, g5, g6, g7, nc0_eq32, nc1_eq32, nc2_eq32, nc3_eq32]
  vstep t7 [h0, h1, h2, h3, h4, h5, h6, h7, g0, g1, g2, g3, g4, g5, g6, g7, nc0_eq32, nc1_eq32, nc2_eq32, nc3_eq32]
  steps 1 [h0, h1, h2, h3, h4, h5, h6, h7, g0, g1, g2, g3, g4, g5, g6, g7, nc0_eq32, nc1_eq32, nc2_eq32, nc3_eq32]
  vstep r7 [h0, h1, h2, h3, h4, h5, h6, h7, g0, g1, g2, g3, g4, g5, g6, g7, nc0_eq32, nc1_eq32, nc2_eq32, nc3_eq32]
  vstep cc [h0, h1, h2, h3, h4, h5, h6, h7, g0, g1, g2, g3, g4, g5, g6, g7, nc0_eq32, nc1_eq32, nc2_eq32, nc3_eq32]
  steps 2 [h0, h1, h2, h3, h4, h5, h6, h7, g0, g1, g2, g3, g4, g5, g6, g7, nc0_eq32, nc1_eq32, nc2_eq32, nc3_eq32]
  vstep n1 [h0, h1, h2, h3, h4, h5, h6, h7, g0, g1, g2, g3, g4, g5, g6, g7, nc0_eq32, nc1_eq32, nc2_eq32, nc3_eq32]
  vstep n2 [h0, h1, h2, h3, h4, h5, h6, h7, g0, g1, g2, g3, g4, g5, g6, g7, nc0_eq32, nc1_eq32, nc2_eq32, nc3_eq32]
  vstep n3 [h0, h1, h2, h3, h4, h5, h6, h7, g0, g1, g2, g3, g4, g5, g6, g7, nc0_eq32, nc1_eq32, nc2_eq32, nc3_eq32]
  vstep n4 [h0, h1, h2, h3, h4, h5, h6, h7, g0, g1, g2, g3, g4, g5, g6, g7, nc0_eq32, nc1_eq32, nc2_eq32, nc3_eq32]
  vstep y1 [h0, h1, h2, h3, h4, h5, h6, h7, g0, g1, g2, g3, g4, g5, g6, g7, nc0_eq32, nc1_eq32, nc2_eq32, nc3_eq32]
  vstep n5 [h0, h1, h2, h3, h4, h5, h6, h7, g0, g1, g2, g3, g4, g5, g6, g7, nc0_eq32, nc1_eq32, nc2_eq32, nc3_eq32]
  vstep y2 [h0, h1, h2, h3, h4, h5, h6, h7, g0, g1, g2, g3, g4, g5, g6, g7, nc0_eq32, nc1_eq32, nc2_eq32, nc3_eq32]
  vstep n6 [h0, h1, h2, h3, h4, h5, h6, h7, g0, g1, g2, g3, g4, g5, g6, g7, nc0_eq32, nc1_eq32, nc2_eq32, nc3_eq32]
  vstep y3 [h0, h1, h2, h3, h4, h5, h6, h7, g0, g1, g2, g3, g4, g5, g6, g7, nc0_eq32, nc1_eq32, nc2_eq32, nc3_eq32]
  vstep n7 [h0, h1, h2, h3, h4, h5, h6, h7, g0, g1, g2, g3, g4, g5, g6, g7, nc0_eq32, nc1_eq32, nc2_eq32, nc3_eq32]
  vstep y4 [h0, h1, h2, h3, h4, h5, h6, h7, g0, g1, g2, g3, g4, g5, g6, g7, nc0_eq32, nc1_eq32, nc2_eq32, nc3_eq32]
  vstep y5 [h0, h1, h2, h3, h4, h5, h6, h7, g0, g1, g2, g3, g4, g5, g6, g7, nc0_eq32, nc1_eq32, nc2_eq32, nc3_eq32]
  steps 1 [h0, h1, h2, h3, h4, h5, h6, h7, g0, g1, g2, g3, g4, g5, g6, g7, nc0_eq32, nc1_eq32, nc2_eq32, nc3_eq32]
  vstep ov [h0, h1, h2, h3, h4, h5, h6, h7, g0, g1, g2, g3, g4, g5, g6, g7, nc0_eq32, nc1_eq32, nc2_eq32, nc3_eq32]
  steps 1 [h0, h1, h2, h3, h4, h5, h6, h7, g0, g1, g2, g3, g4, g5, g6, g7, nc0_eq32, nc1_eq32, nc2_eq32, nc3_eq32]
  steps 1 [h0, h1, h2, h3, h4, h5, h6, h7, g0, g1, g2, g3, g4, g5, g6, g7, nc0_eq32, nc1_eq32, nc2_eq32, nc3_eq32]
  vstep q0 [h0, h1, h2, h3, h4, h5, h6, h7, g0, g1, g2, g3, g4, g5, g6, g7, nc0_eq32, nc1_eq32, nc2_eq32, nc3_eq32]
  vstep u1 [h0, h1, h2, h3, h4, h5, h6, h7, g0, g1, g2, g3, g4, g5, g6, g7, nc0_eq32, nc1_eq32, nc2_eq32, nc3_eq32]
  steps 1 [h0, h1, h2, h3, h4, h5, h6, h7, g0, g1, g2, g3, g4, g5, g6, g7, nc0_eq32, nc1_eq32, nc2_eq32, nc3_eq32]
  vstep q1 [h0, h1, h2, h3, h4, h5, h6, h7, g0, g1, g2, g3, g4, g5, g6, g7, nc0_eq32, nc1_eq32, nc2_eq32, nc3_eq32]
  vstep u2 [h0, h1, h2, h3, h4, h5, h6, h7, g0, g1, g2, g3, g4, g5, g6, g7, nc0_eq32, nc1_eq32, nc2_eq32, nc3_eq32]
  steps 1 [h0, h1, h2, h3, h4, h5, h6, h7, g0, g1, g2, g3, g4, g5, g6, g7, nc0_eq32, nc1_eq32, nc2_eq32, nc3_eq32]
  vstep q2 [h0, h1, h2, h3, h4, h5, h6, h7, g0, g1, g2, g3, g4, g5, g6, g7, nc0_eq32, nc1_eq32, nc2_eq32, nc3_eq32]
  vstep u3 [h0, h1, h2, h3, h4, h5, h6, h7, g0, g1, g2, g3, g4, g5, g6, g7, nc0_eq32, nc1_eq32, nc2_eq32, nc3_eq32]
  steps 1 [h0, h1, h2, h3, h4, h5, h6, h7, g0, g1, g2, g3, g4, g5, g6, g7, nc0_eq32, nc1_eq32, nc2_eq32, nc3_eq32]
  vstep q3 [h0, h1, h2, h3, h4, h5, h6, h7, g0, g1, g2, g3, g4, g5, g6, g7, nc0_eq32, nc1_eq32, nc2_eq32, nc3_eq32]
  vstep u4 [h0, h1, h2, h3, h4, h5, h6, h7, g0, g1, g2, g3, g4, g5, g6, g7, nc0_eq32, nc1_eq32, nc2_eq32, nc3_eq32]
  steps 1 [h0, h1, h2, h3, h4, h5, h6, h7, g0, g1, g2, g3, g4, g5, g6, g7, nc0_eq32, nc1_eq32, nc2_eq32, nc3_eq32]
  vstep q4 [h0, h1, h2, h3, h4, h5, h6, h7, g0, g1, g2, g3, g4, g5, g6, g7, nc0_eq32, nc1_eq32, nc2_eq32, nc3_eq32]
  vstep u5 [h0, h1, h2, h3, h4, h5, h6, h7, g0, g1, g2, g3, g4, g5, g6, g7, nc0_eq32, nc1_eq32, nc2_eq32, nc3_eq32]
  steps 1 [h0, h1, h2, h3, h4, h5, h6, h7, g0, g1, g2, g3, g4, g5, g6, g7, nc0_eq32, nc1_eq32, nc2_eq32, nc3_eq32]
  vstep q5 [h0, h1, h2, h3, h4, h5, h6, h7, g0, g1, g2, g3, g4, g5, g6, g7, nc0_eq32, nc1_eq32, nc2_eq32, nc3_eq32]
  vstep u6 [h0, h1, h2, h3, h4, h5, h6, h7, g0, g1, g2, g3, g4, g5, g6, g7, nc0_eq32, nc1_eq32, nc2_eq32, nc3_eq32]
  steps 1 [h0, h1, h2, h3, h4, h5, h6, h7, g0, g1, g2, g3, g4, g5, g6, g7, nc0_eq32, nc1_eq32, nc2_eq32, nc3_eq32]
  vstep q6 [h0, h1, h2, h3, h4, h5, h6, h7, g0, g1, g2, g3, g4, g5, g6, g7, nc0_eq32, nc1_eq32, nc2_eq32, nc3_eq32]
  vstep u7 [h0, h1, h2, h3, h4, h5, h6, h7, g0, g1, g2, g3, g4, g5, g6, g7, nc0_eq32, nc1_eq32, nc2_eq32, nc3_eq32]
  steps 1 [h0, h1, h2, h3, h4, h5, h6, h7, g0, g1, g2, g3, g4, g5, g6, g7, nc0_eq32, nc1_eq32, nc2_eq32, nc3_eq32]
  vstep q7 [h0, h1, h2, h3, h4, h5, h6, h7, g0, g1, g2, g3, g4, g5, g6, g7, nc0_eq32, nc1_eq32, nc2_eq32, nc3_eq32]
  steps 2 [h0, h1, h2, h3, h4, h5, h6, h7, g0, g1, g2, g3, g4, g5, g6, g7, nc0_eq32, nc1_eq32, nc2_eq32, nc3_eq32]
  reads [AddPost]
  obtain ⟨hr0, hr1, hr2, hr3, hr4, hr5, hr6, hr7, hcc, hSum⟩ := add_chain_arith32 a0 a1 a2 a3 a4 a5 a6 a7 b0 b1 b2 b3 b4 b5 b6 b7 r0 t1 r1 t2 r2 t3 r3 t4 r4 t5 r5 t6 r6 t7 r7 cc
    A0 A1 A2 A3 A4 A5 A6 A7 B0 B1 B2 B3 B4 B5 B6 B7
    r0_def t1_def r1_def t2_def r2_def t3_def r3_def t4_def r4_def t5_def r5_def t6_def r6_def t7_def r7_def cc_def
  have yes_def := check_overflow_spec32 r0 r1 r2 r3 r4 r5 r6 r7 n1 n2 n3 n4 y1 n5 y2 n6 y3 n7 y4 y5 hr0 hr1 hr2 hr3 hr4 hr5 hr6 hr7 n1_def n2_def n3_def n4_def y1_def n5_def y2_def n6_def y3_def n7_def y4_def y5_def
  have hlt : val8x32 r0 r1 r2 r3 r4 r5 r6 r7 + cc * 2 ^ 256 < 2 * N := by
    rw [hSum]; omega
  obtain ⟨hov1, hov0, hFe, hFlt, hq0, hq1, hq2, hq3, hq4, hq5, hq6, hq7⟩ := final_reduce_arith32 r0 r1 r2 r3 r4 r5 r6 r7 cc y5 ov q0 u1 q1 u2 q2 u3 q3 u4 q4 u5 q5 u6 q6 u7 q7
    hr0 hr1 hr2 hr3 hr4 hr5 hr6 hr7 hcc hlt yes_def ov_def q0_def u1_def q1_def u2_def q2_def u3_def q3_def u4_def q4_def u5_def q5_def u6_def q6_def u7_def q7_def
  rw [hSum] at hov1 hov0 hFe
  refine ⟨eq_mod_of_eq_add_mul hFe hFlt, ?_, hq0, hq1, hq2, hq3, hq4, hq5, hq6, hq7⟩
  by_cases hN : N ≤ val8x32 a0 a1 a2 a3 a4 a5 a6 a7 + val8x32 b0 b1 b2 b3 b4 b5 b6 b7
  · rw [if_pos hN, hov1 hN]
  · rw [if_neg hN, hov0 (by omega)]


/-- **`secp256k1_scalar_add` (8×32) is exact.**  For EVERY memory in which `a` and `b` are reduced scalars (32-bit
    limbs, value `< N`), running the translated C function with wrap-around semantics leaves in `r` the limbs of
    `(a + b) mod N`, and the function returns `1` if `a + b ≥ N` and `0` otherwise. -/
theorem scalar_add_correct (env : Env) (ha : Limbs32 env "a.d") (hb : Limbs32 env "b.d")
    (hA : sval env "a.d" < N) (hB : sval env "b.d" < N) :
    sval (execL env Gen.scalar8x32.scalar_add.body).env "r.d" = (sval env "a.d" + sval env "b.d") % N ∧
    (execL env Gen.scalar8x32.scalar_add.body).ret = some (if N ≤ sval env "a.d" + sval env "b.d" then 1 else 0) ∧
    Limbs32 (execL env Gen.scalar8x32.scalar_add.body).env "r.d" := by
  obtain ⟨A0, A1, A2, A3, A4, A5, A6, A7⟩ := ha
  obtain ⟨B0, B1, B2, B3, B4, B5, B6, B7⟩ := hb
  exact scalar_add_run env _ _ _ _ _ _ _ _ _ _ _ _ _ _ _ _ rfl rfl rfl rfl rfl rfl rfl rfl rfl rfl rfl rfl rfl rfl rfl rfl
    A0 A1 A2 A3 A4 A5 A6 A7 B0 B1 B2 B3 B4 B5 B6 B7 hA hB

/-- Non-vacuity: `a = b = N - 1` satisfies the hypotheses; the theorem then says `r = N - 2` and the flag is `1`. -/
example : Limbs32 nm1Env "a.d" ∧ Limbs32 nm1Env "b.d" ∧ sval nm1Env "a.d" < N ∧ sval nm1Env "b.d" < N ∧
    sval (execL nm1Env Gen.scalar8x32.scalar_add.body).env "r.d" = N - 2 ∧
    (execL nm1Env Gen.scalar8x32.scalar_add.body).ret = some 1 := by
  have ha : Limbs32 nm1Env "a.d" := by decide +kernel
  have hb : Limbs32 nm1Env "b.d" := by decide +kernel
  have hA : sval nm1Env "a.d" < N := by decide +kernel
  have hB : sval nm1Env "b.d" < N := by decide +kernel
  obtain ⟨h1, h2, _⟩ := scalar_add_correct nm1Env ha hb hA hB
  have e1 : (sval nm1Env "a.d" + sval nm1Env "b.d") % N = N - 2 := by decide +kernel
  have e2 : (if N ≤ sval nm1Env "a.d" + sval nm1Env "b.d" then 1 else 0) = 1 := by decide +kernel
  rw [e1] at h1; rw [e2] at h2
  exact ⟨ha, hb, hA, hB, h1, h2⟩

/-! ### 2. `secp256k1_scalar_negate` -/

/-- post-condition of `secp256k1_scalar_negate(r, a)` -/
def NegPost (a0 a1 a2 a3 a4 a5 a6 a7 : Nat) (out : Env × Option Nat) : Prop :=
  val8x32 (out.1.get "r.d" 0) (out.1.get "r.d" 1) (out.1.get "r.d" 2) (out.1.get "r.d" 3) (out.1.get "r.d" 4) (out.1.get "r.d" 5) (out.1.get "r.d" 6) (out.1.get "r.d" 7) = (N - val8x32 a0 a1 a2 a3 a4 a5 a6 a7) % N ∧
  out.1.get "r.d" 0 < 2 ^ 32 ∧ out.1.get "r.d" 1 < 2 ^ 32 ∧ out.1.get "r.d" 2 < 2 ^ 32 ∧ out.1.get "r.d" 3 < 2 ^ 32 ∧ out.1.get "r.d" 4 < 2 ^ 32 ∧ out.1.get "r.d" 5 < 2 ^ 32 ∧ out.1.get "r.d" 6 < 2 ^ 32 ∧ out.1.get "r.d" 7 < 2 ^ 32

set_option maxRecDepth 100000 in
set_option maxHeartbeats 4000000 in
theorem scalar_negate_run (env : Env) (a0 a1 a2 a3 a4 a5 a6 a7 : Nat)
    (h0 : env.get "a.d" 0 = a0) (h1 : env.get "a.d" 1 = a1) (h2 : env.get "a.d" 2 = a2) (h3 : env.get "a.d" 3 = a3) (h4 : env.get "a.d" 4 = a4) (h5 : env.get "a.d" 5 = a5) (h6 : env.get "a.d" 6 = a6) (h7 : env.get "a.d" 7 = a7)
    (A0 : a0 < 2 ^ 32) (A1 : a1 < 2 ^ 32) (A2 : a2 < 2 ^ 32) (A3 : a3 < 2 ^ 32) (A4 : a4 < 2 ^ 32) (A5 : a5 < 2 ^ 32) (A6 : a6 < 2 ^ 32) (A7 : a7 < 2 ^ 32)
    (hA : val8x32 a0 a1 a2 a3 a4 a5 a6 a7 < N) :
    NegPost a0 a1 a2 a3 a4 a5 a6 a7 (runR env Gen.scalar8x32.scalar_negate.body) := by
  simp only [Gen.scalar8x32.scalar_negate]
  vstep z [h0, h1, h2, h3, h4, h5, h6, h7]
  vstep nz [h0, h1, h2, h3, h4, h5, h6, h7]
  steps 1 [h0, h1, h2, h3, h4, h5, h6, h7]
  vstep r0 [h0, h1, h2, h3, h4, h5, h6, h7]
  vstep t1 [h0, h1, h2, h3, h4, h5, h6, h7]
  steps 1 [h0, h1, h2, h3, h4, h5, h6, h7]
  vstep r1 [h0, h1, h2, h3, h4, h5, h6, h7]
  vstep t2 [h0, h1, h2, h3, h4, h5, h6, h7]
  steps 1 [h0, h1, h2, h3, h4, h5, h6, h7]
  vstep r2 [h0, h1, h2, h3, h4, h5, h6, h7]
  vstep t3 [h0, h1, h2, h3, h4, h5, h6, h7]
  steps 1 [h0, h1, h2, h3, h4, h5, h6, h7]
  vstep r3 [h0, h1, h2, h3, h4, h5, h6, h7]
  vstep t4 [h0, h1, h2, h3, h4, h5, h6, h7]
  steps 1 [h0, h1, h2, h3, h4, h5, h6, h7]
  vstep r4 [h0, h1, h2, h3, h4, h5, h6, h7]
  vstep t5 [h0, h1, h2, h3, h4, h5, h6, h7]
  steps 1 [h0, h1, h2, h3, h4, h5, h6, h7]
  vstep r5 [h0, h1, h2, h3, h4, h5, h6, h7]
  vstep t6 [h0, h1, h2, h3, h4, h5, h6, h7]
  steps 1 [h0, h1, h2, h3, h4, h5, h6, h7]
  vstep r6 [h0, h1, h2, h3, h4, h5, h6, h7]
  vstep t7 [h0, h1, h2, h3, h4, h5, h6, h7]
  steps 1 [h0, h1, h2, h3, h4, h5, h6, h7]
  vstep r7 [h0, h1, h2, h3, h4, h5, h6, h7]
  reads [NegPost]
  exact negate_arith32 a0 a1 a2 a3 a4 a5 a6 a7 nz r0 t1 r1 t2 r2 t3 r3 t4 r4 t5 r5 t6 r6 t7 r7 A0 A1 A2 A3 A4 A5 A6 A7 hA
    (nonzero_mask32 a0 a1 a2 a3 a4 a5 a6 a7 z nz z_def nz_def)
    r0_def t1_def r1_def t2_def r2_def t3_def r3_def t4_def r4_def t5_def r5_def t6_def r6_def t7_def r7_def


/-- **`secp256k1_scalar_negate` (8×32) is exact.**  For every memory in which `a` is a reduced scalar, the translated
    C function leaves in `r` the limbs of `(N - a) mod N` (so `0` for `a = 0`, via the `nonzero` mask). -/
theorem scalar_negate_correct (env : Env) (ha : Limbs32 env "a.d") (hA : sval env "a.d" < N) :
    sval (execL env Gen.scalar8x32.scalar_negate.body).env "r.d" = (N - sval env "a.d") % N ∧
    Limbs32 (execL env Gen.scalar8x32.scalar_negate.body).env "r.d" := by
  obtain ⟨A0, A1, A2, A3, A4, A5, A6, A7⟩ := ha
  exact scalar_negate_run env _ _ _ _ _ _ _ _ rfl rfl rfl rfl rfl rfl rfl rfl A0 A1 A2 A3 A4 A5 A6 A7 hA

/-- post-condition of `scalar_negate` on memories, as a decidable predicate (for closed evaluation) -/
def NegPostEnv (env out : Env) : Prop :=
  sval out "r.d" = (N - sval env "a.d") % N ∧ Limbs32 out "r.d"

instance (env out : Env) : Decidable (NegPostEnv env out) := by unfold NegPostEnv; infer_instance

/-- Non-vacuity: `a = N - 1` satisfies the hypotheses, and the conclusion, evaluated by running the wrap-around
    interpreter in the kernel, holds (with `r = 1`); so does `a = 0` (`r = 0`, the masked case). -/
example : Limbs32 nm1Env "a.d" ∧ sval nm1Env "a.d" < N ∧
    (NegPostEnv nm1Env (execL nm1Env Gen.scalar8x32.scalar_negate.body).env ∧
     sval (execL nm1Env Gen.scalar8x32.scalar_negate.body).env "r.d" = 1) :=
  ⟨by decide +kernel, by decide +kernel,
   of_decide_eq_true (FieldKernel.checkRun_sound
     (post := fun out => decide (NegPostEnv nm1Env out ∧ sval out "r.d" = 1)) (by decide +kernel))⟩

example : Limbs32 [] "a.d" ∧ sval [] "a.d" < N ∧
    sval (execL [] Gen.scalar8x32.scalar_negate.body).env "r.d" = 0 :=
  ⟨by decide +kernel, by decide +kernel,
   of_decide_eq_true (FieldKernel.checkRun_sound (post := fun out => decide (sval out "r.d" = 0)) (by decide +kernel))⟩

/-! ### 3. `secp256k1_scalar_mul_512` -/

/-- post-condition of `secp256k1_scalar_mul_512(l, a, b)` (output array `ln`) -/
def Mul512Post (ln : String) (a0 a1 a2 a3 a4 a5 a6 a7 b0 b1 b2 b3 b4 b5 b6 b7 : Nat) (out : Env × Option Nat) : Prop :=
  out.2 = none ∧
  val16x32 (out.1.get ln 0) (out.1.get ln 1) (out.1.get ln 2) (out.1.get ln 3) (out.1.get ln 4) (out.1.get ln 5)
    (out.1.get ln 6) (out.1.get ln 7) (out.1.get ln 8) (out.1.get ln 9) (out.1.get ln 10) (out.1.get ln 11)
    (out.1.get ln 12) (out.1.get ln 13) (out.1.get ln 14) (out.1.get ln 15) =
    val8x32 a0 a1 a2 a3 a4 a5 a6 a7 * val8x32 b0 b1 b2 b3 b4 b5 b6 b7 ∧
  out.1.get ln 0 < 2 ^ 32 ∧ out.1.get ln 1 < 2 ^ 32 ∧ out.1.get ln 2 < 2 ^ 32 ∧ out.1.get ln 3 < 2 ^ 32 ∧
  out.1.get ln 4 < 2 ^ 32 ∧ out.1.get ln 5 < 2 ^ 32 ∧ out.1.get ln 6 < 2 ^ 32 ∧ out.1.get ln 7 < 2 ^ 32 ∧
  out.1.get ln 8 < 2 ^ 32 ∧ out.1.get ln 9 < 2 ^ 32 ∧ out.1.get ln 10 < 2 ^ 32 ∧ out.1.get ln 11 < 2 ^ 32 ∧
  out.1.get ln 12 < 2 ^ 32 ∧ out.1.get ln 13 < 2 ^ 32 ∧ out.1.get ln 14 < 2 ^ 32 ∧ out.1.get ln 15 < 2 ^ 32


set_option maxRecDepth 100000 in
set_option maxHeartbeats 4000000 in
theorem scalar_mul_512_run_p5 (env : Env) (a0 a1 a2 a3 a4 a5 a6 a7 b0 b1 b2 b3 b4 b5 b6 b7 : Nat) (v5_0 v5_1 v5_2 v5_3 v5_4 v5_5 v5_6 v5_7 v5_8 v5_9 v5_10 v5_11 v5_12 v5_13 v5_14 : Nat) (A0 : a0 < 2 ^ 32) (A1 : a1 < 2 ^ 32) (A2 : a2 < 2 ^ 32) (A3 : a3 < 2 ^ 32) (A4 : a4 < 2 ^ 32) (A5 : a5 < 2 ^ 32) (A6 : a6 < 2 ^ 32) (A7 : a7 < 2 ^ 32) (B0 : b0 < 2 ^ 32) (B1 : b1 < 2 ^ 32) (B2 : b2 < 2 ^ 32) (B3 : b3 < 2 ^ 32) (B4 : b4 < 2 ^ 32) (B5 : b5 < 2 ^ 32) (B6 : b6 < 2 ^ 32) (B7 : b7 < 2 ^ 32) 
    (h_a_d_6 : env.get "a.d" 6 = a6)
    (h_b_d_6 : env.get "b.d" 6 = b6)
    (h_a_d_7 : env.get "a.d" 7 = a7)
    (h_b_d_7 : env.get "b.d" 7 = b7)
    (h_l_0 : env.get "l" 0 = v5_0)
    (h_l_1 : env.get "l" 1 = v5_1)
    (h_l_2 : env.get "l" 2 = v5_2)
    (h_l_3 : env.get "l" 3 = v5_3)
    (h_l_4 : env.get "l" 4 = v5_4)
    (h_l_5 : env.get "l" 5 = v5_5)
    (h_l_6 : env.get "l" 6 = v5_6)
    (h_l_7 : env.get "l" 7 = v5_7)
    (h_l_8 : env.get "l" 8 = v5_8)
    (h_l_9 : env.get "l" 9 = v5_9)
    (h_l_10 : env.get "l" 10 = v5_10)
    (h_l_11 : env.get "l" 11 = v5_11)
    (h_l_12 : env.get "l" 12 = v5_12)
    (L_v5_0 : v5_0 < 2 ^ 32)
    (L_v5_1 : v5_1 < 2 ^ 32)
    (L_v5_2 : v5_2 < 2 ^ 32)
    (L_v5_3 : v5_3 < 2 ^ 32)
    (L_v5_4 : v5_4 < 2 ^ 32)
    (L_v5_5 : v5_5 < 2 ^ 32)
    (L_v5_6 : v5_6 < 2 ^ 32)
    (L_v5_7 : v5_7 < 2 ^ 32)
    (L_v5_8 : v5_8 < 2 ^ 32)
    (L_v5_9 : v5_9 < 2 ^ 32)
    (L_v5_10 : v5_10 < 2 ^ 32)
    (L_v5_11 : v5_11 < 2 ^ 32)
    (L_v5_12 : v5_12 < 2 ^ 32)
    (L_v5_13 : v5_13 < 2 ^ 32)
    (L_v5_14 : v5_14 < 2 ^ 32)
    (hc0 : env.get "c0" 0 = v5_13)
    (hc1 : env.get "c1" 0 = v5_14)
    (hc2 : env.get "c2" 0 = 0)
    (hB : v5_13 + v5_14 * 2 ^ 32 + 0 * 2 ^ 64 ≤ 12884901885)
    (hcum : v5_0 + v5_1 * 2 ^ 32 + v5_2 * 2 ^ 64 + v5_3 * 2 ^ 96 + v5_4 * 2 ^ 128 + v5_5 * 2 ^ 160 + v5_6 * 2 ^ 192 + v5_7 * 2 ^ 224 + v5_8 * 2 ^ 256 + v5_9 * 2 ^ 288 + v5_10 * 2 ^ 320 + v5_11 * 2 ^ 352 + v5_12 * 2 ^ 384 + (v5_13 + v5_14 * 2 ^ 32) * 2 ^ 416 = (a0 * b0) + (a0 * b1 + a1 * b0) * 2 ^ 32 + (a0 * b2 + a1 * b1 + a2 * b0) * 2 ^ 64 + (a0 * b3 + a1 * b2 + a2 * b1 + a3 * b0) * 2 ^ 96 + (a0 * b4 + a1 * b3 + a2 * b2 + a3 * b1 + a4 * b0) * 2 ^ 128 + (a0 * b5 + a1 * b4 + a2 * b3 + a3 * b2 + a4 * b1 + a5 * b0) * 2 ^ 160 + (a0 * b6 + a1 * b5 + a2 * b4 + a3 * b3 + a4 * b2 + a5 * b1 + a6 * b0) * 2 ^ 192 + (a0 * b7 + a1 * b6 + a2 * b5 + a3 * b4 + a4 * b3 + a5 * b2 + a6 * b1 + a7 * b0) * 2 ^ 224 + (a1 * b7 + a2 * b6 + a3 * b5 + a4 * b4 + a5 * b3 + a6 * b2 + a7 * b1) * 2 ^ 256 + (a2 * b7 + a3 * b6 + a4 * b5 + a5 * b4 + a6 * b3 + a7 * b2) * 2 ^ 288 + (a3 * b7 + a4 * b6 + a5 * b5 + a6 * b4 + a7 * b3) * 2 ^ 320 + (a4 * b7 + a5 * b6 + a6 * b5 + a7 * b4) * 2 ^ 352 + (a5 * b7 + a6 * b6 + a7 * b5) * 2 ^ 384) :
    Mul512Post "l" a0 a1 a2 a3 a4 a5 a6 a7 b0 b1 b2 b3 b4 b5 b6 b7 (runR env (Gen.scalar8x32.scalar_mul_512.body.drop 480)) := by
  simp only [Gen.scalar8x32.scalar_mul_512, List.drop_succ_cons, List.drop_zero]
  refine muladd_rule accS v5_13 v5_14 0 a6 b7 4294967295 4294967295 _ (by decide) (by decide) hc0 hc1 hc2 (ev_idx_of (Frame.refl accS env) (by decide) h_a_d_6) (ev_idx_of (Frame.refl accS env) (by decide) h_b_d_7) L_v5_13 L_v5_14 (le_of_lt32 A6) (le_of_lt32 B7) (by decide) (by decide) hB (by decide) ?_
  intro es1 s1_0 s1_1 s1_2 s1_F s1_c0 s1_c1 s1_c2 s1_lt0 s1_lt1 s1_lt2 s1_A s1_B
  replace s1_A := s1_A.trans (z3_xy0 _ _ _)
  conv at s1_B => rhs; simp only [Nat.reducePow, Nat.reduceSub, Nat.reduceMul, Nat.reduceAdd]
  clear hc0 hc1 hc2 hB L_v5_13 L_v5_14
  refine muladd_rule accS s1_0 s1_1 s1_2 a7 b6 4294967295 4294967295 _ (by decide) (by decide) s1_c0 s1_c1 s1_c2 (ev_idx_of s1_F (by decide) h_a_d_7) (ev_idx_of s1_F (by decide) h_b_d_6) s1_lt0 s1_lt1 (le_of_lt32 A7) (le_of_lt32 B6) (by decide) (by decide) s1_B (by decide) ?_
  intro es2 s2_0 s2_1 s2_2 s2_F s2_c0 s2_c1 s2_c2 s2_lt0 s2_lt1 s2_lt2 s2_A s2_B
  conv at s2_B => rhs; simp only [Nat.reducePow, Nat.reduceSub, Nat.reduceMul, Nat.reduceAdd]
  have Fs2 := s1_F.trans s2_F
  clear s1_F s2_F s1_c0 s1_c1 s1_c2 s1_B s1_lt0 s1_lt1 s1_lt2
  clear es1
  have hcols1 : s2_0 + (s2_1 + s2_2 * 2 ^ 32) * 2 ^ 32 = v5_13 + v5_14 * 2 ^ 32 + (a6 * b7 + a7 * b6) := (reshape3 s2_0 s2_1 s2_2).trans (colsum2 s1_A s2_A)
  clear s1_A s2_A
  have cums1 := combine 448 hcum hcols1 rfl
  clear hcum hcols1
  refine extract_store_rule accS s2_0 s2_1 s2_2 (by decide) (by decide) s2_c0 s2_c1 s2_c2 ?_
  intro es3 s3_Fx s3_o s3_c0 s3_c1 s3_c2
  have fs1_a_d_7 := transport s3_Fx Fs2 (by decide) (by decide) h_a_d_7
  have fs1_b_d_7 := transport s3_Fx Fs2 (by decide) (by decide) h_b_d_7
  have fs1_l_0 := transport s3_Fx Fs2 (by decide) (by decide) h_l_0
  have fs1_l_1 := transport s3_Fx Fs2 (by decide) (by decide) h_l_1
  have fs1_l_2 := transport s3_Fx Fs2 (by decide) (by decide) h_l_2
  have fs1_l_3 := transport s3_Fx Fs2 (by decide) (by decide) h_l_3
  have fs1_l_4 := transport s3_Fx Fs2 (by decide) (by decide) h_l_4
  have fs1_l_5 := transport s3_Fx Fs2 (by decide) (by decide) h_l_5
  have fs1_l_6 := transport s3_Fx Fs2 (by decide) (by decide) h_l_6
  have fs1_l_7 := transport s3_Fx Fs2 (by decide) (by decide) h_l_7
  have fs1_l_8 := transport s3_Fx Fs2 (by decide) (by decide) h_l_8
  have fs1_l_9 := transport s3_Fx Fs2 (by decide) (by decide) h_l_9
  have fs1_l_10 := transport s3_Fx Fs2 (by decide) (by decide) h_l_10
  have fs1_l_11 := transport s3_Fx Fs2 (by decide) (by decide) h_l_11
  have fs1_l_12 := transport s3_Fx Fs2 (by decide) (by decide) h_l_12
  have s3_B := extract_bound32 s2_B
  conv at s3_B => rhs; simp only [Nat.reducePow, Nat.reduceDiv]
  clear h_a_d_6 h_b_d_6 h_a_d_7 h_b_d_7 h_l_0 h_l_1 h_l_2 h_l_3 h_l_4 h_l_5 h_l_6 h_l_7 h_l_8 h_l_9 h_l_10 h_l_11 h_l_12 s2_c0 s2_c1 s2_c2 s2_B s3_Fx Fs2
  clear es2 env
  refine muladd_fast_rule accS "c2" s2_1 s2_2 0 a7 b7 4294967295 4294967295 _ (by decide) (by decide) s3_c0 s3_c1 s3_c2 (ev_idx_of (Frame.refl accS es3) (by decide) fs1_a_d_7) (ev_idx_of (Frame.refl accS es3) (by decide) fs1_b_d_7) s2_lt1 s2_lt2 (le_of_lt32 A7) (le_of_lt32 B7) (by decide) (by decide) (acc_drop2 s3_B) (by decide) ?_
  intro es4 s4_0 s4_1 s4_F s4_c0 s4_c1 s4_c2 s4_lt0 s4_lt1 s4_A s4_B
  conv at s4_B => rhs; simp only [Nat.reducePow, Nat.reduceSub, Nat.reduceMul, Nat.reduceAdd]
  clear s3_c0 s3_c1 s3_c2 s3_B s2_lt1 s2_lt2
  have hcols2 : s4_0 + s4_1 * 2 ^ 32 = s2_1 + s2_2 * 2 ^ 32 + (a7 * b7) := colsum1 s4_A
  clear s4_A
  have cums2 := combine 480 cums1 hcols2 rfl
  clear cums1 hcols2
  refine extract_fast_store_rule accS "c2" s4_0 s4_1 0 (by decide) (by decide) s4_c0 s4_c1 s4_c2 ?_
  intro es5 s5_Fx s5_o s5_c0 s5_c1 s5_c2
  have fs2_l_0 := transport s5_Fx s4_F (by decide) (by decide) fs1_l_0
  have fs2_l_1 := transport s5_Fx s4_F (by decide) (by decide) fs1_l_1
  have fs2_l_2 := transport s5_Fx s4_F (by decide) (by decide) fs1_l_2
  have fs2_l_3 := transport s5_Fx s4_F (by decide) (by decide) fs1_l_3
  have fs2_l_4 := transport s5_Fx s4_F (by decide) (by decide) fs1_l_4
  have fs2_l_5 := transport s5_Fx s4_F (by decide) (by decide) fs1_l_5
  have fs2_l_6 := transport s5_Fx s4_F (by decide) (by decide) fs1_l_6
  have fs2_l_7 := transport s5_Fx s4_F (by decide) (by decide) fs1_l_7
  have fs2_l_8 := transport s5_Fx s4_F (by decide) (by decide) fs1_l_8
  have fs2_l_9 := transport s5_Fx s4_F (by decide) (by decide) fs1_l_9
  have fs2_l_10 := transport s5_Fx s4_F (by decide) (by decide) fs1_l_10
  have fs2_l_11 := transport s5_Fx s4_F (by decide) (by decide) fs1_l_11
  have fs2_l_12 := transport s5_Fx s4_F (by decide) (by decide) fs1_l_12
  have fs2_l_13 := transport s5_Fx s4_F (by decide) (by decide) s3_o
  have s5_B := extract_bound32' s4_B
  conv at s5_B => rhs; simp only [Nat.reducePow, Nat.reduceDiv]
  clear fs1_a_d_7 fs1_b_d_7 fs1_l_0 fs1_l_1 fs1_l_2 fs1_l_3 fs1_l_4 fs1_l_5 fs1_l_6 fs1_l_7 fs1_l_8 fs1_l_9 fs1_l_10 fs1_l_11 fs1_l_12 s3_o s4_c0 s4_c1 s4_c2 s4_B s5_Fx s4_F
  clear es4 es3
  refine store_rule accS s4_1 ((ev_var _ _).trans s5_c0) ?_
  intro es6 s6_Fx s6_o
  have fs3_l_0 := transport s6_Fx (Frame.refl accS es5) (by decide) (by decide) fs2_l_0
  have fs3_l_1 := transport s6_Fx (Frame.refl accS es5) (by decide) (by decide) fs2_l_1
  have fs3_l_2 := transport s6_Fx (Frame.refl accS es5) (by decide) (by decide) fs2_l_2
  have fs3_l_3 := transport s6_Fx (Frame.refl accS es5) (by decide) (by decide) fs2_l_3
  have fs3_l_4 := transport s6_Fx (Frame.refl accS es5) (by decide) (by decide) fs2_l_4
  have fs3_l_5 := transport s6_Fx (Frame.refl accS es5) (by decide) (by decide) fs2_l_5
  have fs3_l_6 := transport s6_Fx (Frame.refl accS es5) (by decide) (by decide) fs2_l_6
  have fs3_l_7 := transport s6_Fx (Frame.refl accS es5) (by decide) (by decide) fs2_l_7
  have fs3_l_8 := transport s6_Fx (Frame.refl accS es5) (by decide) (by decide) fs2_l_8
  have fs3_l_9 := transport s6_Fx (Frame.refl accS es5) (by decide) (by decide) fs2_l_9
  have fs3_l_10 := transport s6_Fx (Frame.refl accS es5) (by decide) (by decide) fs2_l_10
  have fs3_l_11 := transport s6_Fx (Frame.refl accS es5) (by decide) (by decide) fs2_l_11
  have fs3_l_12 := transport s6_Fx (Frame.refl accS es5) (by decide) (by decide) fs2_l_12
  have fs3_l_13 := transport s6_Fx (Frame.refl accS es5) (by decide) (by decide) fs2_l_13
  have fs3_l_14 := transport s6_Fx (Frame.refl accS es5) (by decide) (by decide) s5_o
  clear fs2_l_0 fs2_l_1 fs2_l_2 fs2_l_3 fs2_l_4 fs2_l_5 fs2_l_6 fs2_l_7 fs2_l_8 fs2_l_9 fs2_l_10 fs2_l_11 fs2_l_12 fs2_l_13 s5_o s6_Fx s5_c0 s5_c1 s5_c2 s5_B
  clear es5
  refine nil_rule ?_
  have hval : val16x32 v5_0 v5_1 v5_2 v5_3 v5_4 v5_5 v5_6 v5_7 v5_8 v5_9 v5_10 v5_11 v5_12 s2_0 s4_0 s4_1 = val8x32 a0 a1 a2 a3 a4 a5 a6 a7 * val8x32 b0 b1 b2 b3 b4 b5 b6 b7 := by
    rw [val8x32_mul]; unfold val16x32
    exact cums2
  simp only [Mul512Post, fs3_l_0, fs3_l_1, fs3_l_2, fs3_l_3, fs3_l_4, fs3_l_5, fs3_l_6, fs3_l_7, fs3_l_8, fs3_l_9, fs3_l_10, fs3_l_11, fs3_l_12, fs3_l_13, fs3_l_14, s6_o]
  exact ⟨trivial, hval, L_v5_0, L_v5_1, L_v5_2, L_v5_3, L_v5_4, L_v5_5, L_v5_6, L_v5_7, L_v5_8, L_v5_9, L_v5_10, L_v5_11, L_v5_12, s2_lt0, s4_lt0, s4_lt1⟩

set_option maxRecDepth 100000 in
set_option maxHeartbeats 4000000 in
theorem scalar_mul_512_run_p4 (env : Env) (a0 a1 a2 a3 a4 a5 a6 a7 b0 b1 b2 b3 b4 b5 b6 b7 : Nat) (v4_0 v4_1 v4_2 v4_3 v4_4 v4_5 v4_6 v4_7 v4_8 v4_9 v4_10 v4_11 : Nat) (A0 : a0 < 2 ^ 32) (A1 : a1 < 2 ^ 32) (A2 : a2 < 2 ^ 32) (A3 : a3 < 2 ^ 32) (A4 : a4 < 2 ^ 32) (A5 : a5 < 2 ^ 32) (A6 : a6 < 2 ^ 32) (A7 : a7 < 2 ^ 32) (B0 : b0 < 2 ^ 32) (B1 : b1 < 2 ^ 32) (B2 : b2 < 2 ^ 32) (B3 : b3 < 2 ^ 32) (B4 : b4 < 2 ^ 32) (B5 : b5 < 2 ^ 32) (B6 : b6 < 2 ^ 32) (B7 : b7 < 2 ^ 32) 
    (h_a_d_3 : env.get "a.d" 3 = a3)
    (h_b_d_3 : env.get "b.d" 3 = b3)
    (h_a_d_4 : env.get "a.d" 4 = a4)
    (h_b_d_4 : env.get "b.d" 4 = b4)
    (h_a_d_5 : env.get "a.d" 5 = a5)
    (h_b_d_5 : env.get "b.d" 5 = b5)
    (h_a_d_6 : env.get "a.d" 6 = a6)
    (h_b_d_6 : env.get "b.d" 6 = b6)
    (h_a_d_7 : env.get "a.d" 7 = a7)
    (h_b_d_7 : env.get "b.d" 7 = b7)
    (h_l_0 : env.get "l" 0 = v4_0)
    (h_l_1 : env.get "l" 1 = v4_1)
    (h_l_2 : env.get "l" 2 = v4_2)
    (h_l_3 : env.get "l" 3 = v4_3)
    (h_l_4 : env.get "l" 4 = v4_4)
    (h_l_5 : env.get "l" 5 = v4_5)
    (h_l_6 : env.get "l" 6 = v4_6)
    (h_l_7 : env.get "l" 7 = v4_7)
    (h_l_8 : env.get "l" 8 = v4_8)
    (h_l_9 : env.get "l" 9 = v4_9)
    (L_v4_0 : v4_0 < 2 ^ 32)
    (L_v4_1 : v4_1 < 2 ^ 32)
    (L_v4_2 : v4_2 < 2 ^ 32)
    (L_v4_3 : v4_3 < 2 ^ 32)
    (L_v4_4 : v4_4 < 2 ^ 32)
    (L_v4_5 : v4_5 < 2 ^ 32)
    (L_v4_6 : v4_6 < 2 ^ 32)
    (L_v4_7 : v4_7 < 2 ^ 32)
    (L_v4_8 : v4_8 < 2 ^ 32)
    (L_v4_9 : v4_9 < 2 ^ 32)
    (L_v4_10 : v4_10 < 2 ^ 32)
    (L_v4_11 : v4_11 < 2 ^ 32)
    (hc0 : env.get "c0" 0 = v4_10)
    (hc1 : env.get "c1" 0 = v4_11)
    (hc2 : env.get "c2" 0 = 0)
    (hB : v4_10 + v4_11 * 2 ^ 32 + 0 * 2 ^ 64 ≤ 25769803770)
    (hcum : v4_0 + v4_1 * 2 ^ 32 + v4_2 * 2 ^ 64 + v4_3 * 2 ^ 96 + v4_4 * 2 ^ 128 + v4_5 * 2 ^ 160 + v4_6 * 2 ^ 192 + v4_7 * 2 ^ 224 + v4_8 * 2 ^ 256 + v4_9 * 2 ^ 288 + (v4_10 + v4_11 * 2 ^ 32) * 2 ^ 320 = (a0 * b0) + (a0 * b1 + a1 * b0) * 2 ^ 32 + (a0 * b2 + a1 * b1 + a2 * b0) * 2 ^ 64 + (a0 * b3 + a1 * b2 + a2 * b1 + a3 * b0) * 2 ^ 96 + (a0 * b4 + a1 * b3 + a2 * b2 + a3 * b1 + a4 * b0) * 2 ^ 128 + (a0 * b5 + a1 * b4 + a2 * b3 + a3 * b2 + a4 * b1 + a5 * b0) * 2 ^ 160 + (a0 * b6 + a1 * b5 + a2 * b4 + a3 * b3 + a4 * b2 + a5 * b1 + a6 * b0) * 2 ^ 192 + (a0 * b7 + a1 * b6 + a2 * b5 + a3 * b4 + a4 * b3 + a5 * b2 + a6 * b1 + a7 * b0) * 2 ^ 224 + (a1 * b7 + a2 * b6 + a3 * b5 + a4 * b4 + a5 * b3 + a6 * b2 + a7 * b1) * 2 ^ 256 + (a2 * b7 + a3 * b6 + a4 * b5 + a5 * b4 + a6 * b3 + a7 * b2) * 2 ^ 288) :
    Mul512Post "l" a0 a1 a2 a3 a4 a5 a6 a7 b0 b1 b2 b3 b4 b5 b6 b7 (runR env (Gen.scalar8x32.scalar_mul_512.body.drop 384)) := by
  simp only [Gen.scalar8x32.scalar_mul_512, List.drop_succ_cons, List.drop_zero]
  refine muladd_rule accS v4_10 v4_11 0 a3 b7 4294967295 4294967295 _ (by decide) (by decide) hc0 hc1 hc2 (ev_idx_of (Frame.refl accS env) (by decide) h_a_d_3) (ev_idx_of (Frame.refl accS env) (by decide) h_b_d_7) L_v4_10 L_v4_11 (le_of_lt32 A3) (le_of_lt32 B7) (by decide) (by decide) hB (by decide) ?_
  intro es1 s1_0 s1_1 s1_2 s1_F s1_c0 s1_c1 s1_c2 s1_lt0 s1_lt1 s1_lt2 s1_A s1_B
  replace s1_A := s1_A.trans (z3_xy0 _ _ _)
  conv at s1_B => rhs; simp only [Nat.reducePow, Nat.reduceSub, Nat.reduceMul, Nat.reduceAdd]
  clear hc0 hc1 hc2 hB L_v4_10 L_v4_11
  refine muladd_rule accS s1_0 s1_1 s1_2 a4 b6 4294967295 4294967295 _ (by decide) (by decide) s1_c0 s1_c1 s1_c2 (ev_idx_of s1_F (by decide) h_a_d_4) (ev_idx_of s1_F (by decide) h_b_d_6) s1_lt0 s1_lt1 (le_of_lt32 A4) (le_of_lt32 B6) (by decide) (by decide) s1_B (by decide) ?_
  intro es2 s2_0 s2_1 s2_2 s2_F s2_c0 s2_c1 s2_c2 s2_lt0 s2_lt1 s2_lt2 s2_A s2_B
  conv at s2_B => rhs; simp only [Nat.reducePow, Nat.reduceSub, Nat.reduceMul, Nat.reduceAdd]
  have Fs2 := s1_F.trans s2_F
  clear s1_F s2_F s1_c0 s1_c1 s1_c2 s1_B s1_lt0 s1_lt1 s1_lt2
  clear es1
  refine muladd_rule accS s2_0 s2_1 s2_2 a5 b5 4294967295 4294967295 _ (by decide) (by decide) s2_c0 s2_c1 s2_c2 (ev_idx_of Fs2 (by decide) h_a_d_5) (ev_idx_of Fs2 (by decide) h_b_d_5) s2_lt0 s2_lt1 (le_of_lt32 A5) (le_of_lt32 B5) (by decide) (by decide) s2_B (by decide) ?_
  intro es3 s3_0 s3_1 s3_2 s3_F s3_c0 s3_c1 s3_c2 s3_lt0 s3_lt1 s3_lt2 s3_A s3_B
  conv at s3_B => rhs; simp only [Nat.reducePow, Nat.reduceSub, Nat.reduceMul, Nat.reduceAdd]
  have Fs3 := Fs2.trans s3_F
  clear Fs2 s3_F s2_c0 s2_c1 s2_c2 s2_B s2_lt0 s2_lt1 s2_lt2
  clear es2
  refine muladd_rule accS s3_0 s3_1 s3_2 a6 b4 4294967295 4294967295 _ (by decide) (by decide) s3_c0 s3_c1 s3_c2 (ev_idx_of Fs3 (by decide) h_a_d_6) (ev_idx_of Fs3 (by decide) h_b_d_4) s3_lt0 s3_lt1 (le_of_lt32 A6) (le_of_lt32 B4) (by decide) (by decide) s3_B (by decide) ?_
  intro es4 s4_0 s4_1 s4_2 s4_F s4_c0 s4_c1 s4_c2 s4_lt0 s4_lt1 s4_lt2 s4_A s4_B
  conv at s4_B => rhs; simp only [Nat.reducePow, Nat.reduceSub, Nat.reduceMul, Nat.reduceAdd]
  have Fs4 := Fs3.trans s4_F
  clear Fs3 s4_F s3_c0 s3_c1 s3_c2 s3_B s3_lt0 s3_lt1 s3_lt2
  clear es3
  refine muladd_rule accS s4_0 s4_1 s4_2 a7 b3 4294967295 4294967295 _ (by decide) (by decide) s4_c0 s4_c1 s4_c2 (ev_idx_of Fs4 (by decide) h_a_d_7) (ev_idx_of Fs4 (by decide) h_b_d_3) s4_lt0 s4_lt1 (le_of_lt32 A7) (le_of_lt32 B3) (by decide) (by decide) s4_B (by decide) ?_
  intro es5 s5_0 s5_1 s5_2 s5_F s5_c0 s5_c1 s5_c2 s5_lt0 s5_lt1 s5_lt2 s5_A s5_B
  conv at s5_B => rhs; simp only [Nat.reducePow, Nat.reduceSub, Nat.reduceMul, Nat.reduceAdd]
  have Fs5 := Fs4.trans s5_F
  clear Fs4 s5_F s4_c0 s4_c1 s4_c2 s4_B s4_lt0 s4_lt1 s4_lt2
  clear es4
  have hcols1 : s5_0 + (s5_1 + s5_2 * 2 ^ 32) * 2 ^ 32 = v4_10 + v4_11 * 2 ^ 32 + (a3 * b7 + a4 * b6 + a5 * b5 + a6 * b4 + a7 * b3) := (reshape3 s5_0 s5_1 s5_2).trans (colsum5 s1_A s2_A s3_A s4_A s5_A)
  clear s1_A s2_A s3_A s4_A s5_A
  have cums1 := combine 352 hcum hcols1 rfl
  clear hcum hcols1
  refine extract_store_rule accS s5_0 s5_1 s5_2 (by decide) (by decide) s5_c0 s5_c1 s5_c2 ?_
  intro es6 s6_Fx s6_o s6_c0 s6_c1 s6_c2
  have fs1_a_d_4 := transport s6_Fx Fs5 (by decide) (by decide) h_a_d_4
  have fs1_b_d_4 := transport s6_Fx Fs5 (by decide) (by decide) h_b_d_4
  have fs1_a_d_5 := transport s6_Fx Fs5 (by decide) (by decide) h_a_d_5
  have fs1_b_d_5 := transport s6_Fx Fs5 (by decide) (by decide) h_b_d_5
  have fs1_a_d_6 := transport s6_Fx Fs5 (by decide) (by decide) h_a_d_6
  have fs1_b_d_6 := transport s6_Fx Fs5 (by decide) (by decide) h_b_d_6
  have fs1_a_d_7 := transport s6_Fx Fs5 (by decide) (by decide) h_a_d_7
  have fs1_b_d_7 := transport s6_Fx Fs5 (by decide) (by decide) h_b_d_7
  have fs1_l_0 := transport s6_Fx Fs5 (by decide) (by decide) h_l_0
  have fs1_l_1 := transport s6_Fx Fs5 (by decide) (by decide) h_l_1
  have fs1_l_2 := transport s6_Fx Fs5 (by decide) (by decide) h_l_2
  have fs1_l_3 := transport s6_Fx Fs5 (by decide) (by decide) h_l_3
  have fs1_l_4 := transport s6_Fx Fs5 (by decide) (by decide) h_l_4
  have fs1_l_5 := transport s6_Fx Fs5 (by decide) (by decide) h_l_5
  have fs1_l_6 := transport s6_Fx Fs5 (by decide) (by decide) h_l_6
  have fs1_l_7 := transport s6_Fx Fs5 (by decide) (by decide) h_l_7
  have fs1_l_8 := transport s6_Fx Fs5 (by decide) (by decide) h_l_8
  have fs1_l_9 := transport s6_Fx Fs5 (by decide) (by decide) h_l_9
  have s6_B := extract_bound32 s5_B
  conv at s6_B => rhs; simp only [Nat.reducePow, Nat.reduceDiv]
  clear h_a_d_3 h_b_d_3 h_a_d_4 h_b_d_4 h_a_d_5 h_b_d_5 h_a_d_6 h_b_d_6 h_a_d_7 h_b_d_7 h_l_0 h_l_1 h_l_2 h_l_3 h_l_4 h_l_5 h_l_6 h_l_7 h_l_8 h_l_9 s5_c0 s5_c1 s5_c2 s5_B s6_Fx Fs5
  clear es5 env
  refine muladd_rule accS s5_1 s5_2 0 a4 b7 4294967295 4294967295 _ (by decide) (by decide) s6_c0 s6_c1 s6_c2 (ev_idx_of (Frame.refl accS es6) (by decide) fs1_a_d_4) (ev_idx_of (Frame.refl accS es6) (by decide) fs1_b_d_7) s5_lt1 s5_lt2 (le_of_lt32 A4) (le_of_lt32 B7) (by decide) (by decide) s6_B (by decide) ?_
  intro es7 s7_0 s7_1 s7_2 s7_F s7_c0 s7_c1 s7_c2 s7_lt0 s7_lt1 s7_lt2 s7_A s7_B
  replace s7_A := s7_A.trans (z3_xy0 _ _ _)
  conv at s7_B => rhs; simp only [Nat.reducePow, Nat.reduceSub, Nat.reduceMul, Nat.reduceAdd]
  clear s6_c0 s6_c1 s6_c2 s6_B s5_lt1 s5_lt2
  refine muladd_rule accS s7_0 s7_1 s7_2 a5 b6 4294967295 4294967295 _ (by decide) (by decide) s7_c0 s7_c1 s7_c2 (ev_idx_of s7_F (by decide) fs1_a_d_5) (ev_idx_of s7_F (by decide) fs1_b_d_6) s7_lt0 s7_lt1 (le_of_lt32 A5) (le_of_lt32 B6) (by decide) (by decide) s7_B (by decide) ?_
  intro es8 s8_0 s8_1 s8_2 s8_F s8_c0 s8_c1 s8_c2 s8_lt0 s8_lt1 s8_lt2 s8_A s8_B
  conv at s8_B => rhs; simp only [Nat.reducePow, Nat.reduceSub, Nat.reduceMul, Nat.reduceAdd]
  have Fs8 := s7_F.trans s8_F
  clear s7_F s8_F s7_c0 s7_c1 s7_c2 s7_B s7_lt0 s7_lt1 s7_lt2
  clear es7
  refine muladd_rule accS s8_0 s8_1 s8_2 a6 b5 4294967295 4294967295 _ (by decide) (by decide) s8_c0 s8_c1 s8_c2 (ev_idx_of Fs8 (by decide) fs1_a_d_6) (ev_idx_of Fs8 (by decide) fs1_b_d_5) s8_lt0 s8_lt1 (le_of_lt32 A6) (le_of_lt32 B5) (by decide) (by decide) s8_B (by decide) ?_
  intro es9 s9_0 s9_1 s9_2 s9_F s9_c0 s9_c1 s9_c2 s9_lt0 s9_lt1 s9_lt2 s9_A s9_B
  conv at s9_B => rhs; simp only [Nat.reducePow, Nat.reduceSub, Nat.reduceMul, Nat.reduceAdd]
  have Fs9 := Fs8.trans s9_F
  clear Fs8 s9_F s8_c0 s8_c1 s8_c2 s8_B s8_lt0 s8_lt1 s8_lt2
  clear es8
  refine muladd_rule accS s9_0 s9_1 s9_2 a7 b4 4294967295 4294967295 _ (by decide) (by decide) s9_c0 s9_c1 s9_c2 (ev_idx_of Fs9 (by decide) fs1_a_d_7) (ev_idx_of Fs9 (by decide) fs1_b_d_4) s9_lt0 s9_lt1 (le_of_lt32 A7) (le_of_lt32 B4) (by decide) (by decide) s9_B (by decide) ?_
  intro es10 s10_0 s10_1 s10_2 s10_F s10_c0 s10_c1 s10_c2 s10_lt0 s10_lt1 s10_lt2 s10_A s10_B
  conv at s10_B => rhs; simp only [Nat.reducePow, Nat.reduceSub, Nat.reduceMul, Nat.reduceAdd]
  have Fs10 := Fs9.trans s10_F
  clear Fs9 s10_F s9_c0 s9_c1 s9_c2 s9_B s9_lt0 s9_lt1 s9_lt2
  clear es9
  have hcols2 : s10_0 + (s10_1 + s10_2 * 2 ^ 32) * 2 ^ 32 = s5_1 + s5_2 * 2 ^ 32 + (a4 * b7 + a5 * b6 + a6 * b5 + a7 * b4) := (reshape3 s10_0 s10_1 s10_2).trans (colsum4 s7_A s8_A s9_A s10_A)
  clear s7_A s8_A s9_A s10_A
  have cums2 := combine 384 cums1 hcols2 rfl
  clear cums1 hcols2
  refine extract_store_rule accS s10_0 s10_1 s10_2 (by decide) (by decide) s10_c0 s10_c1 s10_c2 ?_
  intro es11 s11_Fx s11_o s11_c0 s11_c1 s11_c2
  have fs2_a_d_5 := transport s11_Fx Fs10 (by decide) (by decide) fs1_a_d_5
  have fs2_b_d_5 := transport s11_Fx Fs10 (by decide) (by decide) fs1_b_d_5
  have fs2_a_d_6 := transport s11_Fx Fs10 (by decide) (by decide) fs1_a_d_6
  have fs2_b_d_6 := transport s11_Fx Fs10 (by decide) (by decide) fs1_b_d_6
  have fs2_a_d_7 := transport s11_Fx Fs10 (by decide) (by decide) fs1_a_d_7
  have fs2_b_d_7 := transport s11_Fx Fs10 (by decide) (by decide) fs1_b_d_7
  have fs2_l_0 := transport s11_Fx Fs10 (by decide) (by decide) fs1_l_0
  have fs2_l_1 := transport s11_Fx Fs10 (by decide) (by decide) fs1_l_1
  have fs2_l_2 := transport s11_Fx Fs10 (by decide) (by decide) fs1_l_2
  have fs2_l_3 := transport s11_Fx Fs10 (by decide) (by decide) fs1_l_3
  have fs2_l_4 := transport s11_Fx Fs10 (by decide) (by decide) fs1_l_4
  have fs2_l_5 := transport s11_Fx Fs10 (by decide) (by decide) fs1_l_5
  have fs2_l_6 := transport s11_Fx Fs10 (by decide) (by decide) fs1_l_6
  have fs2_l_7 := transport s11_Fx Fs10 (by decide) (by decide) fs1_l_7
  have fs2_l_8 := transport s11_Fx Fs10 (by decide) (by decide) fs1_l_8
  have fs2_l_9 := transport s11_Fx Fs10 (by decide) (by decide) fs1_l_9
  have fs2_l_10 := transport s11_Fx Fs10 (by decide) (by decide) s6_o
  have s11_B := extract_bound32 s10_B
  conv at s11_B => rhs; simp only [Nat.reducePow, Nat.reduceDiv]
  clear fs1_a_d_4 fs1_b_d_4 fs1_a_d_5 fs1_b_d_5 fs1_a_d_6 fs1_b_d_6 fs1_a_d_7 fs1_b_d_7 fs1_l_0 fs1_l_1 fs1_l_2 fs1_l_3 fs1_l_4 fs1_l_5 fs1_l_6 fs1_l_7 fs1_l_8 fs1_l_9 s6_o s10_c0 s10_c1 s10_c2 s10_B s11_Fx Fs10
  clear es10 es6
  refine muladd_rule accS s10_1 s10_2 0 a5 b7 4294967295 4294967295 _ (by decide) (by decide) s11_c0 s11_c1 s11_c2 (ev_idx_of (Frame.refl accS es11) (by decide) fs2_a_d_5) (ev_idx_of (Frame.refl accS es11) (by decide) fs2_b_d_7) s10_lt1 s10_lt2 (le_of_lt32 A5) (le_of_lt32 B7) (by decide) (by decide) s11_B (by decide) ?_
  intro es12 s12_0 s12_1 s12_2 s12_F s12_c0 s12_c1 s12_c2 s12_lt0 s12_lt1 s12_lt2 s12_A s12_B
  replace s12_A := s12_A.trans (z3_xy0 _ _ _)
  conv at s12_B => rhs; simp only [Nat.reducePow, Nat.reduceSub, Nat.reduceMul, Nat.reduceAdd]
  clear s11_c0 s11_c1 s11_c2 s11_B s10_lt1 s10_lt2
  refine muladd_rule accS s12_0 s12_1 s12_2 a6 b6 4294967295 4294967295 _ (by decide) (by decide) s12_c0 s12_c1 s12_c2 (ev_idx_of s12_F (by decide) fs2_a_d_6) (ev_idx_of s12_F (by decide) fs2_b_d_6) s12_lt0 s12_lt1 (le_of_lt32 A6) (le_of_lt32 B6) (by decide) (by decide) s12_B (by decide) ?_
  intro es13 s13_0 s13_1 s13_2 s13_F s13_c0 s13_c1 s13_c2 s13_lt0 s13_lt1 s13_lt2 s13_A s13_B
  conv at s13_B => rhs; simp only [Nat.reducePow, Nat.reduceSub, Nat.reduceMul, Nat.reduceAdd]
  have Fs13 := s12_F.trans s13_F
  clear s12_F s13_F s12_c0 s12_c1 s12_c2 s12_B s12_lt0 s12_lt1 s12_lt2
  clear es12
  refine muladd_rule accS s13_0 s13_1 s13_2 a7 b5 4294967295 4294967295 _ (by decide) (by decide) s13_c0 s13_c1 s13_c2 (ev_idx_of Fs13 (by decide) fs2_a_d_7) (ev_idx_of Fs13 (by decide) fs2_b_d_5) s13_lt0 s13_lt1 (le_of_lt32 A7) (le_of_lt32 B5) (by decide) (by decide) s13_B (by decide) ?_
  intro es14 s14_0 s14_1 s14_2 s14_F s14_c0 s14_c1 s14_c2 s14_lt0 s14_lt1 s14_lt2 s14_A s14_B
  conv at s14_B => rhs; simp only [Nat.reducePow, Nat.reduceSub, Nat.reduceMul, Nat.reduceAdd]
  have Fs14 := Fs13.trans s14_F
  clear Fs13 s14_F s13_c0 s13_c1 s13_c2 s13_B s13_lt0 s13_lt1 s13_lt2
  clear es13
  have hcols3 : s14_0 + (s14_1 + s14_2 * 2 ^ 32) * 2 ^ 32 = s10_1 + s10_2 * 2 ^ 32 + (a5 * b7 + a6 * b6 + a7 * b5) := (reshape3 s14_0 s14_1 s14_2).trans (colsum3 s12_A s13_A s14_A)
  clear s12_A s13_A s14_A
  have cums3 := combine 416 cums2 hcols3 rfl
  clear cums2 hcols3
  refine extract_store_rule accS s14_0 s14_1 s14_2 (by decide) (by decide) s14_c0 s14_c1 s14_c2 ?_
  intro es15 s15_Fx s15_o s15_c0 s15_c1 s15_c2
  have fs3_a_d_6 := transport s15_Fx Fs14 (by decide) (by decide) fs2_a_d_6
  have fs3_b_d_6 := transport s15_Fx Fs14 (by decide) (by decide) fs2_b_d_6
  have fs3_a_d_7 := transport s15_Fx Fs14 (by decide) (by decide) fs2_a_d_7
  have fs3_b_d_7 := transport s15_Fx Fs14 (by decide) (by decide) fs2_b_d_7
  have fs3_l_0 := transport s15_Fx Fs14 (by decide) (by decide) fs2_l_0
  have fs3_l_1 := transport s15_Fx Fs14 (by decide) (by decide) fs2_l_1
  have fs3_l_2 := transport s15_Fx Fs14 (by decide) (by decide) fs2_l_2
  have fs3_l_3 := transport s15_Fx Fs14 (by decide) (by decide) fs2_l_3
  have fs3_l_4 := transport s15_Fx Fs14 (by decide) (by decide) fs2_l_4
  have fs3_l_5 := transport s15_Fx Fs14 (by decide) (by decide) fs2_l_5
  have fs3_l_6 := transport s15_Fx Fs14 (by decide) (by decide) fs2_l_6
  have fs3_l_7 := transport s15_Fx Fs14 (by decide) (by decide) fs2_l_7
  have fs3_l_8 := transport s15_Fx Fs14 (by decide) (by decide) fs2_l_8
  have fs3_l_9 := transport s15_Fx Fs14 (by decide) (by decide) fs2_l_9
  have fs3_l_10 := transport s15_Fx Fs14 (by decide) (by decide) fs2_l_10
  have fs3_l_11 := transport s15_Fx Fs14 (by decide) (by decide) s11_o
  have s15_B := extract_bound32 s14_B
  conv at s15_B => rhs; simp only [Nat.reducePow, Nat.reduceDiv]
  clear fs2_a_d_5 fs2_b_d_5 fs2_a_d_6 fs2_b_d_6 fs2_a_d_7 fs2_b_d_7 fs2_l_0 fs2_l_1 fs2_l_2 fs2_l_3 fs2_l_4 fs2_l_5 fs2_l_6 fs2_l_7 fs2_l_8 fs2_l_9 fs2_l_10 s11_o s14_c0 s14_c1 s14_c2 s14_B s15_Fx Fs14
  clear es14 es11
  exact scalar_mul_512_run_p5 es15 a0 a1 a2 a3 a4 a5 a6 a7 b0 b1 b2 b3 b4 b5 b6 b7 v4_0 v4_1 v4_2 v4_3 v4_4 v4_5 v4_6 v4_7 v4_8 v4_9 s5_0 s10_0 s14_0 s14_1 s14_2 A0 A1 A2 A3 A4 A5 A6 A7 B0 B1 B2 B3 B4 B5 B6 B7 fs3_a_d_6 fs3_b_d_6 fs3_a_d_7 fs3_b_d_7 fs3_l_0 fs3_l_1 fs3_l_2 fs3_l_3 fs3_l_4 fs3_l_5 fs3_l_6 fs3_l_7 fs3_l_8 fs3_l_9 fs3_l_10 fs3_l_11 s15_o L_v4_0 L_v4_1 L_v4_2 L_v4_3 L_v4_4 L_v4_5 L_v4_6 L_v4_7 L_v4_8 L_v4_9 s5_lt0 s10_lt0 s14_lt0 s14_lt1 s14_lt2 s15_c0 s15_c1 s15_c2 s15_B cums3

set_option maxRecDepth 100000 in
set_option maxHeartbeats 4000000 in
theorem scalar_mul_512_run_p3 (env : Env) (a0 a1 a2 a3 a4 a5 a6 a7 b0 b1 b2 b3 b4 b5 b6 b7 : Nat) (v3_0 v3_1 v3_2 v3_3 v3_4 v3_5 v3_6 v3_7 v3_8 v3_9 : Nat) (A0 : a0 < 2 ^ 32) (A1 : a1 < 2 ^ 32) (A2 : a2 < 2 ^ 32) (A3 : a3 < 2 ^ 32) (A4 : a4 < 2 ^ 32) (A5 : a5 < 2 ^ 32) (A6 : a6 < 2 ^ 32) (A7 : a7 < 2 ^ 32) (B0 : b0 < 2 ^ 32) (B1 : b1 < 2 ^ 32) (B2 : b2 < 2 ^ 32) (B3 : b3 < 2 ^ 32) (B4 : b4 < 2 ^ 32) (B5 : b5 < 2 ^ 32) (B6 : b6 < 2 ^ 32) (B7 : b7 < 2 ^ 32) 
    (h_a_d_1 : env.get "a.d" 1 = a1)
    (h_b_d_1 : env.get "b.d" 1 = b1)
    (h_a_d_2 : env.get "a.d" 2 = a2)
    (h_b_d_2 : env.get "b.d" 2 = b2)
    (h_a_d_3 : env.get "a.d" 3 = a3)
    (h_b_d_3 : env.get "b.d" 3 = b3)
    (h_a_d_4 : env.get "a.d" 4 = a4)
    (h_b_d_4 : env.get "b.d" 4 = b4)
    (h_a_d_5 : env.get "a.d" 5 = a5)
    (h_b_d_5 : env.get "b.d" 5 = b5)
    (h_a_d_6 : env.get "a.d" 6 = a6)
    (h_b_d_6 : env.get "b.d" 6 = b6)
    (h_a_d_7 : env.get "a.d" 7 = a7)
    (h_b_d_7 : env.get "b.d" 7 = b7)
    (h_l_0 : env.get "l" 0 = v3_0)
    (h_l_1 : env.get "l" 1 = v3_1)
    (h_l_2 : env.get "l" 2 = v3_2)
    (h_l_3 : env.get "l" 3 = v3_3)
    (h_l_4 : env.get "l" 4 = v3_4)
    (h_l_5 : env.get "l" 5 = v3_5)
    (h_l_6 : env.get "l" 6 = v3_6)
    (h_l_7 : env.get "l" 7 = v3_7)
    (L_v3_0 : v3_0 < 2 ^ 32)
    (L_v3_1 : v3_1 < 2 ^ 32)
    (L_v3_2 : v3_2 < 2 ^ 32)
    (L_v3_3 : v3_3 < 2 ^ 32)
    (L_v3_4 : v3_4 < 2 ^ 32)
    (L_v3_5 : v3_5 < 2 ^ 32)
    (L_v3_6 : v3_6 < 2 ^ 32)
    (L_v3_7 : v3_7 < 2 ^ 32)
    (L_v3_8 : v3_8 < 2 ^ 32)
    (L_v3_9 : v3_9 < 2 ^ 32)
    (hc0 : env.get "c0" 0 = v3_8)
    (hc1 : env.get "c1" 0 = v3_9)
    (hc2 : env.get "c2" 0 = 0)
    (hB : v3_8 + v3_9 * 2 ^ 32 + 0 * 2 ^ 64 ≤ 34359738359)
    (hcum : v3_0 + v3_1 * 2 ^ 32 + v3_2 * 2 ^ 64 + v3_3 * 2 ^ 96 + v3_4 * 2 ^ 128 + v3_5 * 2 ^ 160 + v3_6 * 2 ^ 192 + v3_7 * 2 ^ 224 + (v3_8 + v3_9 * 2 ^ 32) * 2 ^ 256 = (a0 * b0) + (a0 * b1 + a1 * b0) * 2 ^ 32 + (a0 * b2 + a1 * b1 + a2 * b0) * 2 ^ 64 + (a0 * b3 + a1 * b2 + a2 * b1 + a3 * b0) * 2 ^ 96 + (a0 * b4 + a1 * b3 + a2 * b2 + a3 * b1 + a4 * b0) * 2 ^ 128 + (a0 * b5 + a1 * b4 + a2 * b3 + a3 * b2 + a4 * b1 + a5 * b0) * 2 ^ 160 + (a0 * b6 + a1 * b5 + a2 * b4 + a3 * b3 + a4 * b2 + a5 * b1 + a6 * b0) * 2 ^ 192 + (a0 * b7 + a1 * b6 + a2 * b5 + a3 * b4 + a4 * b3 + a5 * b2 + a6 * b1 + a7 * b0) * 2 ^ 224) :
    Mul512Post "l" a0 a1 a2 a3 a4 a5 a6 a7 b0 b1 b2 b3 b4 b5 b6 b7 (runR env (Gen.scalar8x32.scalar_mul_512.body.drop 285)) := by
  simp only [Gen.scalar8x32.scalar_mul_512, List.drop_succ_cons, List.drop_zero]
  refine muladd_rule accS v3_8 v3_9 0 a1 b7 4294967295 4294967295 _ (by decide) (by decide) hc0 hc1 hc2 (ev_idx_of (Frame.refl accS env) (by decide) h_a_d_1) (ev_idx_of (Frame.refl accS env) (by decide) h_b_d_7) L_v3_8 L_v3_9 (le_of_lt32 A1) (le_of_lt32 B7) (by decide) (by decide) hB (by decide) ?_
  intro es1 s1_0 s1_1 s1_2 s1_F s1_c0 s1_c1 s1_c2 s1_lt0 s1_lt1 s1_lt2 s1_A s1_B
  replace s1_A := s1_A.trans (z3_xy0 _ _ _)
  conv at s1_B => rhs; simp only [Nat.reducePow, Nat.reduceSub, Nat.reduceMul, Nat.reduceAdd]
  clear hc0 hc1 hc2 hB L_v3_8 L_v3_9
  refine muladd_rule accS s1_0 s1_1 s1_2 a2 b6 4294967295 4294967295 _ (by decide) (by decide) s1_c0 s1_c1 s1_c2 (ev_idx_of s1_F (by decide) h_a_d_2) (ev_idx_of s1_F (by decide) h_b_d_6) s1_lt0 s1_lt1 (le_of_lt32 A2) (le_of_lt32 B6) (by decide) (by decide) s1_B (by decide) ?_
  intro es2 s2_0 s2_1 s2_2 s2_F s2_c0 s2_c1 s2_c2 s2_lt0 s2_lt1 s2_lt2 s2_A s2_B
  conv at s2_B => rhs; simp only [Nat.reducePow, Nat.reduceSub, Nat.reduceMul, Nat.reduceAdd]
  have Fs2 := s1_F.trans s2_F
  clear s1_F s2_F s1_c0 s1_c1 s1_c2 s1_B s1_lt0 s1_lt1 s1_lt2
  clear es1
  refine muladd_rule accS s2_0 s2_1 s2_2 a3 b5 4294967295 4294967295 _ (by decide) (by decide) s2_c0 s2_c1 s2_c2 (ev_idx_of Fs2 (by decide) h_a_d_3) (ev_idx_of Fs2 (by decide) h_b_d_5) s2_lt0 s2_lt1 (le_of_lt32 A3) (le_of_lt32 B5) (by decide) (by decide) s2_B (by decide) ?_
  intro es3 s3_0 s3_1 s3_2 s3_F s3_c0 s3_c1 s3_c2 s3_lt0 s3_lt1 s3_lt2 s3_A s3_B
  conv at s3_B => rhs; simp only [Nat.reducePow, Nat.reduceSub, Nat.reduceMul, Nat.reduceAdd]
  have Fs3 := Fs2.trans s3_F
  clear Fs2 s3_F s2_c0 s2_c1 s2_c2 s2_B s2_lt0 s2_lt1 s2_lt2
  clear es2
  refine muladd_rule accS s3_0 s3_1 s3_2 a4 b4 4294967295 4294967295 _ (by decide) (by decide) s3_c0 s3_c1 s3_c2 (ev_idx_of Fs3 (by decide) h_a_d_4) (ev_idx_of Fs3 (by decide) h_b_d_4) s3_lt0 s3_lt1 (le_of_lt32 A4) (le_of_lt32 B4) (by decide) (by decide) s3_B (by decide) ?_
  intro es4 s4_0 s4_1 s4_2 s4_F s4_c0 s4_c1 s4_c2 s4_lt0 s4_lt1 s4_lt2 s4_A s4_B
  conv at s4_B => rhs; simp only [Nat.reducePow, Nat.reduceSub, Nat.reduceMul, Nat.reduceAdd]
  have Fs4 := Fs3.trans s4_F
  clear Fs3 s4_F s3_c0 s3_c1 s3_c2 s3_B s3_lt0 s3_lt1 s3_lt2
  clear es3
  refine muladd_rule accS s4_0 s4_1 s4_2 a5 b3 4294967295 4294967295 _ (by decide) (by decide) s4_c0 s4_c1 s4_c2 (ev_idx_of Fs4 (by decide) h_a_d_5) (ev_idx_of Fs4 (by decide) h_b_d_3) s4_lt0 s4_lt1 (le_of_lt32 A5) (le_of_lt32 B3) (by decide) (by decide) s4_B (by decide) ?_
  intro es5 s5_0 s5_1 s5_2 s5_F s5_c0 s5_c1 s5_c2 s5_lt0 s5_lt1 s5_lt2 s5_A s5_B
  conv at s5_B => rhs; simp only [Nat.reducePow, Nat.reduceSub, Nat.reduceMul, Nat.reduceAdd]
  have Fs5 := Fs4.trans s5_F
  clear Fs4 s5_F s4_c0 s4_c1 s4_c2 s4_B s4_lt0 s4_lt1 s4_lt2
  clear es4
  refine muladd_rule accS s5_0 s5_1 s5_2 a6 b2 4294967295 4294967295 _ (by decide) (by decide) s5_c0 s5_c1 s5_c2 (ev_idx_of Fs5 (by decide) h_a_d_6) (ev_idx_of Fs5 (by decide) h_b_d_2) s5_lt0 s5_lt1 (le_of_lt32 A6) (le_of_lt32 B2) (by decide) (by decide) s5_B (by decide) ?_
  intro es6 s6_0 s6_1 s6_2 s6_F s6_c0 s6_c1 s6_c2 s6_lt0 s6_lt1 s6_lt2 s6_A s6_B
  conv at s6_B => rhs; simp only [Nat.reducePow, Nat.reduceSub, Nat.reduceMul, Nat.reduceAdd]
  have Fs6 := Fs5.trans s6_F
  clear Fs5 s6_F s5_c0 s5_c1 s5_c2 s5_B s5_lt0 s5_lt1 s5_lt2
  clear es5
  refine muladd_rule accS s6_0 s6_1 s6_2 a7 b1 4294967295 4294967295 _ (by decide) (by decide) s6_c0 s6_c1 s6_c2 (ev_idx_of Fs6 (by decide) h_a_d_7) (ev_idx_of Fs6 (by decide) h_b_d_1) s6_lt0 s6_lt1 (le_of_lt32 A7) (le_of_lt32 B1) (by decide) (by decide) s6_B (by decide) ?_
  intro es7 s7_0 s7_1 s7_2 s7_F s7_c0 s7_c1 s7_c2 s7_lt0 s7_lt1 s7_lt2 s7_A s7_B
  conv at s7_B => rhs; simp only [Nat.reducePow, Nat.reduceSub, Nat.reduceMul, Nat.reduceAdd]
  have Fs7 := Fs6.trans s7_F
  clear Fs6 s7_F s6_c0 s6_c1 s6_c2 s6_B s6_lt0 s6_lt1 s6_lt2
  clear es6
  have hcols1 : s7_0 + (s7_1 + s7_2 * 2 ^ 32) * 2 ^ 32 = v3_8 + v3_9 * 2 ^ 32 + (a1 * b7 + a2 * b6 + a3 * b5 + a4 * b4 + a5 * b3 + a6 * b2 + a7 * b1) := (reshape3 s7_0 s7_1 s7_2).trans (colsum7 s1_A s2_A s3_A s4_A s5_A s6_A s7_A)
  clear s1_A s2_A s3_A s4_A s5_A s6_A s7_A
  have cums1 := combine 288 hcum hcols1 rfl
  clear hcum hcols1
  refine extract_store_rule accS s7_0 s7_1 s7_2 (by decide) (by decide) s7_c0 s7_c1 s7_c2 ?_
  intro es8 s8_Fx s8_o s8_c0 s8_c1 s8_c2
  have fs1_a_d_2 := transport s8_Fx Fs7 (by decide) (by decide) h_a_d_2
  have fs1_b_d_2 := transport s8_Fx Fs7 (by decide) (by decide) h_b_d_2
  have fs1_a_d_3 := transport s8_Fx Fs7 (by decide) (by decide) h_a_d_3
  have fs1_b_d_3 := transport s8_Fx Fs7 (by decide) (by decide) h_b_d_3
  have fs1_a_d_4 := transport s8_Fx Fs7 (by decide) (by decide) h_a_d_4
  have fs1_b_d_4 := transport s8_Fx Fs7 (by decide) (by decide) h_b_d_4
  have fs1_a_d_5 := transport s8_Fx Fs7 (by decide) (by decide) h_a_d_5
  have fs1_b_d_5 := transport s8_Fx Fs7 (by decide) (by decide) h_b_d_5
  have fs1_a_d_6 := transport s8_Fx Fs7 (by decide) (by decide) h_a_d_6
  have fs1_b_d_6 := transport s8_Fx Fs7 (by decide) (by decide) h_b_d_6
  have fs1_a_d_7 := transport s8_Fx Fs7 (by decide) (by decide) h_a_d_7
  have fs1_b_d_7 := transport s8_Fx Fs7 (by decide) (by decide) h_b_d_7
  have fs1_l_0 := transport s8_Fx Fs7 (by decide) (by decide) h_l_0
  have fs1_l_1 := transport s8_Fx Fs7 (by decide) (by decide) h_l_1
  have fs1_l_2 := transport s8_Fx Fs7 (by decide) (by decide) h_l_2
  have fs1_l_3 := transport s8_Fx Fs7 (by decide) (by decide) h_l_3
  have fs1_l_4 := transport s8_Fx Fs7 (by decide) (by decide) h_l_4
  have fs1_l_5 := transport s8_Fx Fs7 (by decide) (by decide) h_l_5
  have fs1_l_6 := transport s8_Fx Fs7 (by decide) (by decide) h_l_6
  have fs1_l_7 := transport s8_Fx Fs7 (by decide) (by decide) h_l_7
  have s8_B := extract_bound32 s7_B
  conv at s8_B => rhs; simp only [Nat.reducePow, Nat.reduceDiv]
  clear h_a_d_1 h_b_d_1 h_a_d_2 h_b_d_2 h_a_d_3 h_b_d_3 h_a_d_4 h_b_d_4 h_a_d_5 h_b_d_5 h_a_d_6 h_b_d_6 h_a_d_7 h_b_d_7 h_l_0 h_l_1 h_l_2 h_l_3 h_l_4 h_l_5 h_l_6 h_l_7 s7_c0 s7_c1 s7_c2 s7_B s8_Fx Fs7
  clear es7 env
  refine muladd_rule accS s7_1 s7_2 0 a2 b7 4294967295 4294967295 _ (by decide) (by decide) s8_c0 s8_c1 s8_c2 (ev_idx_of (Frame.refl accS es8) (by decide) fs1_a_d_2) (ev_idx_of (Frame.refl accS es8) (by decide) fs1_b_d_7) s7_lt1 s7_lt2 (le_of_lt32 A2) (le_of_lt32 B7) (by decide) (by decide) s8_B (by decide) ?_
  intro es9 s9_0 s9_1 s9_2 s9_F s9_c0 s9_c1 s9_c2 s9_lt0 s9_lt1 s9_lt2 s9_A s9_B
  replace s9_A := s9_A.trans (z3_xy0 _ _ _)
  conv at s9_B => rhs; simp only [Nat.reducePow, Nat.reduceSub, Nat.reduceMul, Nat.reduceAdd]
  clear s8_c0 s8_c1 s8_c2 s8_B s7_lt1 s7_lt2
  refine muladd_rule accS s9_0 s9_1 s9_2 a3 b6 4294967295 4294967295 _ (by decide) (by decide) s9_c0 s9_c1 s9_c2 (ev_idx_of s9_F (by decide) fs1_a_d_3) (ev_idx_of s9_F (by decide) fs1_b_d_6) s9_lt0 s9_lt1 (le_of_lt32 A3) (le_of_lt32 B6) (by decide) (by decide) s9_B (by decide) ?_
  intro es10 s10_0 s10_1 s10_2 s10_F s10_c0 s10_c1 s10_c2 s10_lt0 s10_lt1 s10_lt2 s10_A s10_B
  conv at s10_B => rhs; simp only [Nat.reducePow, Nat.reduceSub, Nat.reduceMul, Nat.reduceAdd]
  have Fs10 := s9_F.trans s10_F
  clear s9_F s10_F s9_c0 s9_c1 s9_c2 s9_B s9_lt0 s9_lt1 s9_lt2
  clear es9
  refine muladd_rule accS s10_0 s10_1 s10_2 a4 b5 4294967295 4294967295 _ (by decide) (by decide) s10_c0 s10_c1 s10_c2 (ev_idx_of Fs10 (by decide) fs1_a_d_4) (ev_idx_of Fs10 (by decide) fs1_b_d_5) s10_lt0 s10_lt1 (le_of_lt32 A4) (le_of_lt32 B5) (by decide) (by decide) s10_B (by decide) ?_
  intro es11 s11_0 s11_1 s11_2 s11_F s11_c0 s11_c1 s11_c2 s11_lt0 s11_lt1 s11_lt2 s11_A s11_B
  conv at s11_B => rhs; simp only [Nat.reducePow, Nat.reduceSub, Nat.reduceMul, Nat.reduceAdd]
  have Fs11 := Fs10.trans s11_F
  clear Fs10 s11_F s10_c0 s10_c1 s10_c2 s10_B s10_lt0 s10_lt1 s10_lt2
  clear es10
  refine muladd_rule accS s11_0 s11_1 s11_2 a5 b4 4294967295 4294967295 _ (by decide) (by decide) s11_c0 s11_c1 s11_c2 (ev_idx_of Fs11 (by decide) fs1_a_d_5) (ev_idx_of Fs11 (by decide) fs1_b_d_4) s11_lt0 s11_lt1 (le_of_lt32 A5) (le_of_lt32 B4) (by decide) (by decide) s11_B (by decide) ?_
  intro es12 s12_0 s12_1 s12_2 s12_F s12_c0 s12_c1 s12_c2 s12_lt0 s12_lt1 s12_lt2 s12_A s12_B
  conv at s12_B => rhs; simp only [Nat.reducePow, Nat.reduceSub, Nat.reduceMul, Nat.reduceAdd]
  have Fs12 := Fs11.trans s12_F
  clear Fs11 s12_F s11_c0 s11_c1 s11_c2 s11_B s11_lt0 s11_lt1 s11_lt2
  clear es11
  refine muladd_rule accS s12_0 s12_1 s12_2 a6 b3 4294967295 4294967295 _ (by decide) (by decide) s12_c0 s12_c1 s12_c2 (ev_idx_of Fs12 (by decide) fs1_a_d_6) (ev_idx_of Fs12 (by decide) fs1_b_d_3) s12_lt0 s12_lt1 (le_of_lt32 A6) (le_of_lt32 B3) (by decide) (by decide) s12_B (by decide) ?_
  intro es13 s13_0 s13_1 s13_2 s13_F s13_c0 s13_c1 s13_c2 s13_lt0 s13_lt1 s13_lt2 s13_A s13_B
  conv at s13_B => rhs; simp only [Nat.reducePow, Nat.reduceSub, Nat.reduceMul, Nat.reduceAdd]
  have Fs13 := Fs12.trans s13_F
  clear Fs12 s13_F s12_c0 s12_c1 s12_c2 s12_B s12_lt0 s12_lt1 s12_lt2
  clear es12
  refine muladd_rule accS s13_0 s13_1 s13_2 a7 b2 4294967295 4294967295 _ (by decide) (by decide) s13_c0 s13_c1 s13_c2 (ev_idx_of Fs13 (by decide) fs1_a_d_7) (ev_idx_of Fs13 (by decide) fs1_b_d_2) s13_lt0 s13_lt1 (le_of_lt32 A7) (le_of_lt32 B2) (by decide) (by decide) s13_B (by decide) ?_
  intro es14 s14_0 s14_1 s14_2 s14_F s14_c0 s14_c1 s14_c2 s14_lt0 s14_lt1 s14_lt2 s14_A s14_B
  conv at s14_B => rhs; simp only [Nat.reducePow, Nat.reduceSub, Nat.reduceMul, Nat.reduceAdd]
  have Fs14 := Fs13.trans s14_F
  clear Fs13 s14_F s13_c0 s13_c1 s13_c2 s13_B s13_lt0 s13_lt1 s13_lt2
  clear es13
  have hcols2 : s14_0 + (s14_1 + s14_2 * 2 ^ 32) * 2 ^ 32 = s7_1 + s7_2 * 2 ^ 32 + (a2 * b7 + a3 * b6 + a4 * b5 + a5 * b4 + a6 * b3 + a7 * b2) := (reshape3 s14_0 s14_1 s14_2).trans (colsum6 s9_A s10_A s11_A s12_A s13_A s14_A)
  clear s9_A s10_A s11_A s12_A s13_A s14_A
  have cums2 := combine 320 cums1 hcols2 rfl
  clear cums1 hcols2
  refine extract_store_rule accS s14_0 s14_1 s14_2 (by decide) (by decide) s14_c0 s14_c1 s14_c2 ?_
  intro es15 s15_Fx s15_o s15_c0 s15_c1 s15_c2
  have fs2_a_d_3 := transport s15_Fx Fs14 (by decide) (by decide) fs1_a_d_3
  have fs2_b_d_3 := transport s15_Fx Fs14 (by decide) (by decide) fs1_b_d_3
  have fs2_a_d_4 := transport s15_Fx Fs14 (by decide) (by decide) fs1_a_d_4
  have fs2_b_d_4 := transport s15_Fx Fs14 (by decide) (by decide) fs1_b_d_4
  have fs2_a_d_5 := transport s15_Fx Fs14 (by decide) (by decide) fs1_a_d_5
  have fs2_b_d_5 := transport s15_Fx Fs14 (by decide) (by decide) fs1_b_d_5
  have fs2_a_d_6 := transport s15_Fx Fs14 (by decide) (by decide) fs1_a_d_6
  have fs2_b_d_6 := transport s15_Fx Fs14 (by decide) (by decide) fs1_b_d_6
  have fs2_a_d_7 := transport s15_Fx Fs14 (by decide) (by decide) fs1_a_d_7
  have fs2_b_d_7 := transport s15_Fx Fs14 (by decide) (by decide) fs1_b_d_7
  have fs2_l_0 := transport s15_Fx Fs14 (by decide) (by decide) fs1_l_0
  have fs2_l_1 := transport s15_Fx Fs14 (by decide) (by decide) fs1_l_1
  have fs2_l_2 := transport s15_Fx Fs14 (by decide) (by decide) fs1_l_2
  have fs2_l_3 := transport s15_Fx Fs14 (by decide) (by decide) fs1_l_3
  have fs2_l_4 := transport s15_Fx Fs14 (by decide) (by decide) fs1_l_4
  have fs2_l_5 := transport s15_Fx Fs14 (by decide) (by decide) fs1_l_5
  have fs2_l_6 := transport s15_Fx Fs14 (by decide) (by decide) fs1_l_6
  have fs2_l_7 := transport s15_Fx Fs14 (by decide) (by decide) fs1_l_7
  have fs2_l_8 := transport s15_Fx Fs14 (by decide) (by decide) s8_o
  have s15_B := extract_bound32 s14_B
  conv at s15_B => rhs; simp only [Nat.reducePow, Nat.reduceDiv]
  clear fs1_a_d_2 fs1_b_d_2 fs1_a_d_3 fs1_b_d_3 fs1_a_d_4 fs1_b_d_4 fs1_a_d_5 fs1_b_d_5 fs1_a_d_6 fs1_b_d_6 fs1_a_d_7 fs1_b_d_7 fs1_l_0 fs1_l_1 fs1_l_2 fs1_l_3 fs1_l_4 fs1_l_5 fs1_l_6 fs1_l_7 s8_o s14_c0 s14_c1 s14_c2 s14_B s15_Fx Fs14
  clear es14 es8
  exact scalar_mul_512_run_p4 es15 a0 a1 a2 a3 a4 a5 a6 a7 b0 b1 b2 b3 b4 b5 b6 b7 v3_0 v3_1 v3_2 v3_3 v3_4 v3_5 v3_6 v3_7 s7_0 s14_0 s14_1 s14_2 A0 A1 A2 A3 A4 A5 A6 A7 B0 B1 B2 B3 B4 B5 B6 B7 fs2_a_d_3 fs2_b_d_3 fs2_a_d_4 fs2_b_d_4 fs2_a_d_5 fs2_b_d_5 fs2_a_d_6 fs2_b_d_6 fs2_a_d_7 fs2_b_d_7 fs2_l_0 fs2_l_1 fs2_l_2 fs2_l_3 fs2_l_4 fs2_l_5 fs2_l_6 fs2_l_7 fs2_l_8 s15_o L_v3_0 L_v3_1 L_v3_2 L_v3_3 L_v3_4 L_v3_5 L_v3_6 L_v3_7 s7_lt0 s14_lt0 s14_lt1 s14_lt2 s15_c0 s15_c1 s15_c2 s15_B cums2

set_option maxRecDepth 100000 in
set_option maxHeartbeats 4000000 in
theorem scalar_mul_512_run_p2 (env : Env) (a0 a1 a2 a3 a4 a5 a6 a7 b0 b1 b2 b3 b4 b5 b6 b7 : Nat) (v2_0 v2_1 v2_2 v2_3 v2_4 v2_5 v2_6 v2_7 : Nat) (A0 : a0 < 2 ^ 32) (A1 : a1 < 2 ^ 32) (A2 : a2 < 2 ^ 32) (A3 : a3 < 2 ^ 32) (A4 : a4 < 2 ^ 32) (A5 : a5 < 2 ^ 32) (A6 : a6 < 2 ^ 32) (A7 : a7 < 2 ^ 32) (B0 : b0 < 2 ^ 32) (B1 : b1 < 2 ^ 32) (B2 : b2 < 2 ^ 32) (B3 : b3 < 2 ^ 32) (B4 : b4 < 2 ^ 32) (B5 : b5 < 2 ^ 32) (B6 : b6 < 2 ^ 32) (B7 : b7 < 2 ^ 32) 
    (h_a_d_0 : env.get "a.d" 0 = a0)
    (h_b_d_0 : env.get "b.d" 0 = b0)
    (h_a_d_1 : env.get "a.d" 1 = a1)
    (h_b_d_1 : env.get "b.d" 1 = b1)
    (h_a_d_2 : env.get "a.d" 2 = a2)
    (h_b_d_2 : env.get "b.d" 2 = b2)
    (h_a_d_3 : env.get "a.d" 3 = a3)
    (h_b_d_3 : env.get "b.d" 3 = b3)
    (h_a_d_4 : env.get "a.d" 4 = a4)
    (h_b_d_4 : env.get "b.d" 4 = b4)
    (h_a_d_5 : env.get "a.d" 5 = a5)
    (h_b_d_5 : env.get "b.d" 5 = b5)
    (h_a_d_6 : env.get "a.d" 6 = a6)
    (h_b_d_6 : env.get "b.d" 6 = b6)
    (h_a_d_7 : env.get "a.d" 7 = a7)
    (h_b_d_7 : env.get "b.d" 7 = b7)
    (h_l_0 : env.get "l" 0 = v2_0)
    (h_l_1 : env.get "l" 1 = v2_1)
    (h_l_2 : env.get "l" 2 = v2_2)
    (h_l_3 : env.get "l" 3 = v2_3)
    (h_l_4 : env.get "l" 4 = v2_4)
    (h_l_5 : env.get "l" 5 = v2_5)
    (L_v2_0 : v2_0 < 2 ^ 32)
    (L_v2_1 : v2_1 < 2 ^ 32)
    (L_v2_2 : v2_2 < 2 ^ 32)
    (L_v2_3 : v2_3 < 2 ^ 32)
    (L_v2_4 : v2_4 < 2 ^ 32)
    (L_v2_5 : v2_5 < 2 ^ 32)
    (L_v2_6 : v2_6 < 2 ^ 32)
    (L_v2_7 : v2_7 < 2 ^ 32)
    (hc0 : env.get "c0" 0 = v2_6)
    (hc1 : env.get "c1" 0 = v2_7)
    (hc2 : env.get "c2" 0 = 0)
    (hB : v2_6 + v2_7 * 2 ^ 32 + 0 * 2 ^ 64 ≤ 25769803769)
    (hcum : v2_0 + v2_1 * 2 ^ 32 + v2_2 * 2 ^ 64 + v2_3 * 2 ^ 96 + v2_4 * 2 ^ 128 + v2_5 * 2 ^ 160 + (v2_6 + v2_7 * 2 ^ 32) * 2 ^ 192 = (a0 * b0) + (a0 * b1 + a1 * b0) * 2 ^ 32 + (a0 * b2 + a1 * b1 + a2 * b0) * 2 ^ 64 + (a0 * b3 + a1 * b2 + a2 * b1 + a3 * b0) * 2 ^ 96 + (a0 * b4 + a1 * b3 + a2 * b2 + a3 * b1 + a4 * b0) * 2 ^ 128 + (a0 * b5 + a1 * b4 + a2 * b3 + a3 * b2 + a4 * b1 + a5 * b0) * 2 ^ 160) :
    Mul512Post "l" a0 a1 a2 a3 a4 a5 a6 a7 b0 b1 b2 b3 b4 b5 b6 b7 (runR env (Gen.scalar8x32.scalar_mul_512.body.drop 172)) := by
  simp only [Gen.scalar8x32.scalar_mul_512, List.drop_succ_cons, List.drop_zero]
  refine muladd_rule accS v2_6 v2_7 0 a0 b6 4294967295 4294967295 _ (by decide) (by decide) hc0 hc1 hc2 (ev_idx_of (Frame.refl accS env) (by decide) h_a_d_0) (ev_idx_of (Frame.refl accS env) (by decide) h_b_d_6) L_v2_6 L_v2_7 (le_of_lt32 A0) (le_of_lt32 B6) (by decide) (by decide) hB (by decide) ?_
  intro es1 s1_0 s1_1 s1_2 s1_F s1_c0 s1_c1 s1_c2 s1_lt0 s1_lt1 s1_lt2 s1_A s1_B
  replace s1_A := s1_A.trans (z3_xy0 _ _ _)
  conv at s1_B => rhs; simp only [Nat.reducePow, Nat.reduceSub, Nat.reduceMul, Nat.reduceAdd]
  clear hc0 hc1 hc2 hB L_v2_6 L_v2_7
  refine muladd_rule accS s1_0 s1_1 s1_2 a1 b5 4294967295 4294967295 _ (by decide) (by decide) s1_c0 s1_c1 s1_c2 (ev_idx_of s1_F (by decide) h_a_d_1) (ev_idx_of s1_F (by decide) h_b_d_5) s1_lt0 s1_lt1 (le_of_lt32 A1) (le_of_lt32 B5) (by decide) (by decide) s1_B (by decide) ?_
  intro es2 s2_0 s2_1 s2_2 s2_F s2_c0 s2_c1 s2_c2 s2_lt0 s2_lt1 s2_lt2 s2_A s2_B
  conv at s2_B => rhs; simp only [Nat.reducePow, Nat.reduceSub, Nat.reduceMul, Nat.reduceAdd]
  have Fs2 := s1_F.trans s2_F
  clear s1_F s2_F s1_c0 s1_c1 s1_c2 s1_B s1_lt0 s1_lt1 s1_lt2
  clear es1
  refine muladd_rule accS s2_0 s2_1 s2_2 a2 b4 4294967295 4294967295 _ (by decide) (by decide) s2_c0 s2_c1 s2_c2 (ev_idx_of Fs2 (by decide) h_a_d_2) (ev_idx_of Fs2 (by decide) h_b_d_4) s2_lt0 s2_lt1 (le_of_lt32 A2) (le_of_lt32 B4) (by decide) (by decide) s2_B (by decide) ?_
  intro es3 s3_0 s3_1 s3_2 s3_F s3_c0 s3_c1 s3_c2 s3_lt0 s3_lt1 s3_lt2 s3_A s3_B
  conv at s3_B => rhs; simp only [Nat.reducePow, Nat.reduceSub, Nat.reduceMul, Nat.reduceAdd]
  have Fs3 := Fs2.trans s3_F
  clear Fs2 s3_F s2_c0 s2_c1 s2_c2 s2_B s2_lt0 s2_lt1 s2_lt2
  clear es2
  refine muladd_rule accS s3_0 s3_1 s3_2 a3 b3 4294967295 4294967295 _ (by decide) (by decide) s3_c0 s3_c1 s3_c2 (ev_idx_of Fs3 (by decide) h_a_d_3) (ev_idx_of Fs3 (by decide) h_b_d_3) s3_lt0 s3_lt1 (le_of_lt32 A3) (le_of_lt32 B3) (by decide) (by decide) s3_B (by decide) ?_
  intro es4 s4_0 s4_1 s4_2 s4_F s4_c0 s4_c1 s4_c2 s4_lt0 s4_lt1 s4_lt2 s4_A s4_B
  conv at s4_B => rhs; simp only [Nat.reducePow, Nat.reduceSub, Nat.reduceMul, Nat.reduceAdd]
  have Fs4 := Fs3.trans s4_F
  clear Fs3 s4_F s3_c0 s3_c1 s3_c2 s3_B s3_lt0 s3_lt1 s3_lt2
  clear es3
  refine muladd_rule accS s4_0 s4_1 s4_2 a4 b2 4294967295 4294967295 _ (by decide) (by decide) s4_c0 s4_c1 s4_c2 (ev_idx_of Fs4 (by decide) h_a_d_4) (ev_idx_of Fs4 (by decide) h_b_d_2) s4_lt0 s4_lt1 (le_of_lt32 A4) (le_of_lt32 B2) (by decide) (by decide) s4_B (by decide) ?_
  intro es5 s5_0 s5_1 s5_2 s5_F s5_c0 s5_c1 s5_c2 s5_lt0 s5_lt1 s5_lt2 s5_A s5_B
  conv at s5_B => rhs; simp only [Nat.reducePow, Nat.reduceSub, Nat.reduceMul, Nat.reduceAdd]
  have Fs5 := Fs4.trans s5_F
  clear Fs4 s5_F s4_c0 s4_c1 s4_c2 s4_B s4_lt0 s4_lt1 s4_lt2
  clear es4
  refine muladd_rule accS s5_0 s5_1 s5_2 a5 b1 4294967295 4294967295 _ (by decide) (by decide) s5_c0 s5_c1 s5_c2 (ev_idx_of Fs5 (by decide) h_a_d_5) (ev_idx_of Fs5 (by decide) h_b_d_1) s5_lt0 s5_lt1 (le_of_lt32 A5) (le_of_lt32 B1) (by decide) (by decide) s5_B (by decide) ?_
  intro es6 s6_0 s6_1 s6_2 s6_F s6_c0 s6_c1 s6_c2 s6_lt0 s6_lt1 s6_lt2 s6_A s6_B
  conv at s6_B => rhs; simp only [Nat.reducePow, Nat.reduceSub, Nat.reduceMul, Nat.reduceAdd]
  have Fs6 := Fs5.trans s6_F
  clear Fs5 s6_F s5_c0 s5_c1 s5_c2 s5_B s5_lt0 s5_lt1 s5_lt2
  clear es5
  refine muladd_rule accS s6_0 s6_1 s6_2 a6 b0 4294967295 4294967295 _ (by decide) (by decide) s6_c0 s6_c1 s6_c2 (ev_idx_of Fs6 (by decide) h_a_d_6) (ev_idx_of Fs6 (by decide) h_b_d_0) s6_lt0 s6_lt1 (le_of_lt32 A6) (le_of_lt32 B0) (by decide) (by decide) s6_B (by decide) ?_
  intro es7 s7_0 s7_1 s7_2 s7_F s7_c0 s7_c1 s7_c2 s7_lt0 s7_lt1 s7_lt2 s7_A s7_B
  conv at s7_B => rhs; simp only [Nat.reducePow, Nat.reduceSub, Nat.reduceMul, Nat.reduceAdd]
  have Fs7 := Fs6.trans s7_F
  clear Fs6 s7_F s6_c0 s6_c1 s6_c2 s6_B s6_lt0 s6_lt1 s6_lt2
  clear es6
  have hcols1 : s7_0 + (s7_1 + s7_2 * 2 ^ 32) * 2 ^ 32 = v2_6 + v2_7 * 2 ^ 32 + (a0 * b6 + a1 * b5 + a2 * b4 + a3 * b3 + a4 * b2 + a5 * b1 + a6 * b0) := (reshape3 s7_0 s7_1 s7_2).trans (colsum7 s1_A s2_A s3_A s4_A s5_A s6_A s7_A)
  clear s1_A s2_A s3_A s4_A s5_A s6_A s7_A
  have cums1 := combine 224 hcum hcols1 rfl
  clear hcum hcols1
  refine extract_store_rule accS s7_0 s7_1 s7_2 (by decide) (by decide) s7_c0 s7_c1 s7_c2 ?_
  intro es8 s8_Fx s8_o s8_c0 s8_c1 s8_c2
  have fs1_a_d_0 := transport s8_Fx Fs7 (by decide) (by decide) h_a_d_0
  have fs1_b_d_0 := transport s8_Fx Fs7 (by decide) (by decide) h_b_d_0
  have fs1_a_d_1 := transport s8_Fx Fs7 (by decide) (by decide) h_a_d_1
  have fs1_b_d_1 := transport s8_Fx Fs7 (by decide) (by decide) h_b_d_1
  have fs1_a_d_2 := transport s8_Fx Fs7 (by decide) (by decide) h_a_d_2
  have fs1_b_d_2 := transport s8_Fx Fs7 (by decide) (by decide) h_b_d_2
  have fs1_a_d_3 := transport s8_Fx Fs7 (by decide) (by decide) h_a_d_3
  have fs1_b_d_3 := transport s8_Fx Fs7 (by decide) (by decide) h_b_d_3
  have fs1_a_d_4 := transport s8_Fx Fs7 (by decide) (by decide) h_a_d_4
  have fs1_b_d_4 := transport s8_Fx Fs7 (by decide) (by decide) h_b_d_4
  have fs1_a_d_5 := transport s8_Fx Fs7 (by decide) (by decide) h_a_d_5
  have fs1_b_d_5 := transport s8_Fx Fs7 (by decide) (by decide) h_b_d_5
  have fs1_a_d_6 := transport s8_Fx Fs7 (by decide) (by decide) h_a_d_6
  have fs1_b_d_6 := transport s8_Fx Fs7 (by decide) (by decide) h_b_d_6
  have fs1_a_d_7 := transport s8_Fx Fs7 (by decide) (by decide) h_a_d_7
  have fs1_b_d_7 := transport s8_Fx Fs7 (by decide) (by decide) h_b_d_7
  have fs1_l_0 := transport s8_Fx Fs7 (by decide) (by decide) h_l_0
  have fs1_l_1 := transport s8_Fx Fs7 (by decide) (by decide) h_l_1
  have fs1_l_2 := transport s8_Fx Fs7 (by decide) (by decide) h_l_2
  have fs1_l_3 := transport s8_Fx Fs7 (by decide) (by decide) h_l_3
  have fs1_l_4 := transport s8_Fx Fs7 (by decide) (by decide) h_l_4
  have fs1_l_5 := transport s8_Fx Fs7 (by decide) (by decide) h_l_5
  have s8_B := extract_bound32 s7_B
  conv at s8_B => rhs; simp only [Nat.reducePow, Nat.reduceDiv]
  clear h_a_d_0 h_b_d_0 h_a_d_1 h_b_d_1 h_a_d_2 h_b_d_2 h_a_d_3 h_b_d_3 h_a_d_4 h_b_d_4 h_a_d_5 h_b_d_5 h_a_d_6 h_b_d_6 h_a_d_7 h_b_d_7 h_l_0 h_l_1 h_l_2 h_l_3 h_l_4 h_l_5 s7_c0 s7_c1 s7_c2 s7_B s8_Fx Fs7
  clear es7 env
  refine muladd_rule accS s7_1 s7_2 0 a0 b7 4294967295 4294967295 _ (by decide) (by decide) s8_c0 s8_c1 s8_c2 (ev_idx_of (Frame.refl accS es8) (by decide) fs1_a_d_0) (ev_idx_of (Frame.refl accS es8) (by decide) fs1_b_d_7) s7_lt1 s7_lt2 (le_of_lt32 A0) (le_of_lt32 B7) (by decide) (by decide) s8_B (by decide) ?_
  intro es9 s9_0 s9_1 s9_2 s9_F s9_c0 s9_c1 s9_c2 s9_lt0 s9_lt1 s9_lt2 s9_A s9_B
  replace s9_A := s9_A.trans (z3_xy0 _ _ _)
  conv at s9_B => rhs; simp only [Nat.reducePow, Nat.reduceSub, Nat.reduceMul, Nat.reduceAdd]
  clear s8_c0 s8_c1 s8_c2 s8_B s7_lt1 s7_lt2
  refine muladd_rule accS s9_0 s9_1 s9_2 a1 b6 4294967295 4294967295 _ (by decide) (by decide) s9_c0 s9_c1 s9_c2 (ev_idx_of s9_F (by decide) fs1_a_d_1) (ev_idx_of s9_F (by decide) fs1_b_d_6) s9_lt0 s9_lt1 (le_of_lt32 A1) (le_of_lt32 B6) (by decide) (by decide) s9_B (by decide) ?_
  intro es10 s10_0 s10_1 s10_2 s10_F s10_c0 s10_c1 s10_c2 s10_lt0 s10_lt1 s10_lt2 s10_A s10_B
  conv at s10_B => rhs; simp only [Nat.reducePow, Nat.reduceSub, Nat.reduceMul, Nat.reduceAdd]
  have Fs10 := s9_F.trans s10_F
  clear s9_F s10_F s9_c0 s9_c1 s9_c2 s9_B s9_lt0 s9_lt1 s9_lt2
  clear es9
  refine muladd_rule accS s10_0 s10_1 s10_2 a2 b5 4294967295 4294967295 _ (by decide) (by decide) s10_c0 s10_c1 s10_c2 (ev_idx_of Fs10 (by decide) fs1_a_d_2) (ev_idx_of Fs10 (by decide) fs1_b_d_5) s10_lt0 s10_lt1 (le_of_lt32 A2) (le_of_lt32 B5) (by decide) (by decide) s10_B (by decide) ?_
  intro es11 s11_0 s11_1 s11_2 s11_F s11_c0 s11_c1 s11_c2 s11_lt0 s11_lt1 s11_lt2 s11_A s11_B
  conv at s11_B => rhs; simp only [Nat.reducePow, Nat.reduceSub, Nat.reduceMul, Nat.reduceAdd]
  have Fs11 := Fs10.trans s11_F
  clear Fs10 s11_F s10_c0 s10_c1 s10_c2 s10_B s10_lt0 s10_lt1 s10_lt2
  clear es10
  refine muladd_rule accS s11_0 s11_1 s11_2 a3 b4 4294967295 4294967295 _ (by decide) (by decide) s11_c0 s11_c1 s11_c2 (ev_idx_of Fs11 (by decide) fs1_a_d_3) (ev_idx_of Fs11 (by decide) fs1_b_d_4) s11_lt0 s11_lt1 (le_of_lt32 A3) (le_of_lt32 B4) (by decide) (by decide) s11_B (by decide) ?_
  intro es12 s12_0 s12_1 s12_2 s12_F s12_c0 s12_c1 s12_c2 s12_lt0 s12_lt1 s12_lt2 s12_A s12_B
  conv at s12_B => rhs; simp only [Nat.reducePow, Nat.reduceSub, Nat.reduceMul, Nat.reduceAdd]
  have Fs12 := Fs11.trans s12_F
  clear Fs11 s12_F s11_c0 s11_c1 s11_c2 s11_B s11_lt0 s11_lt1 s11_lt2
  clear es11
  refine muladd_rule accS s12_0 s12_1 s12_2 a4 b3 4294967295 4294967295 _ (by decide) (by decide) s12_c0 s12_c1 s12_c2 (ev_idx_of Fs12 (by decide) fs1_a_d_4) (ev_idx_of Fs12 (by decide) fs1_b_d_3) s12_lt0 s12_lt1 (le_of_lt32 A4) (le_of_lt32 B3) (by decide) (by decide) s12_B (by decide) ?_
  intro es13 s13_0 s13_1 s13_2 s13_F s13_c0 s13_c1 s13_c2 s13_lt0 s13_lt1 s13_lt2 s13_A s13_B
  conv at s13_B => rhs; simp only [Nat.reducePow, Nat.reduceSub, Nat.reduceMul, Nat.reduceAdd]
  have Fs13 := Fs12.trans s13_F
  clear Fs12 s13_F s12_c0 s12_c1 s12_c2 s12_B s12_lt0 s12_lt1 s12_lt2
  clear es12
  refine muladd_rule accS s13_0 s13_1 s13_2 a5 b2 4294967295 4294967295 _ (by decide) (by decide) s13_c0 s13_c1 s13_c2 (ev_idx_of Fs13 (by decide) fs1_a_d_5) (ev_idx_of Fs13 (by decide) fs1_b_d_2) s13_lt0 s13_lt1 (le_of_lt32 A5) (le_of_lt32 B2) (by decide) (by decide) s13_B (by decide) ?_
  intro es14 s14_0 s14_1 s14_2 s14_F s14_c0 s14_c1 s14_c2 s14_lt0 s14_lt1 s14_lt2 s14_A s14_B
  conv at s14_B => rhs; simp only [Nat.reducePow, Nat.reduceSub, Nat.reduceMul, Nat.reduceAdd]
  have Fs14 := Fs13.trans s14_F
  clear Fs13 s14_F s13_c0 s13_c1 s13_c2 s13_B s13_lt0 s13_lt1 s13_lt2
  clear es13
  refine muladd_rule accS s14_0 s14_1 s14_2 a6 b1 4294967295 4294967295 _ (by decide) (by decide) s14_c0 s14_c1 s14_c2 (ev_idx_of Fs14 (by decide) fs1_a_d_6) (ev_idx_of Fs14 (by decide) fs1_b_d_1) s14_lt0 s14_lt1 (le_of_lt32 A6) (le_of_lt32 B1) (by decide) (by decide) s14_B (by decide) ?_
  intro es15 s15_0 s15_1 s15_2 s15_F s15_c0 s15_c1 s15_c2 s15_lt0 s15_lt1 s15_lt2 s15_A s15_B
  conv at s15_B => rhs; simp only [Nat.reducePow, Nat.reduceSub, Nat.reduceMul, Nat.reduceAdd]
  have Fs15 := Fs14.trans s15_F
  clear Fs14 s15_F s14_c0 s14_c1 s14_c2 s14_B s14_lt0 s14_lt1 s14_lt2
  clear es14
  refine muladd_rule accS s15_0 s15_1 s15_2 a7 b0 4294967295 4294967295 _ (by decide) (by decide) s15_c0 s15_c1 s15_c2 (ev_idx_of Fs15 (by decide) fs1_a_d_7) (ev_idx_of Fs15 (by decide) fs1_b_d_0) s15_lt0 s15_lt1 (le_of_lt32 A7) (le_of_lt32 B0) (by decide) (by decide) s15_B (by decide) ?_
  intro es16 s16_0 s16_1 s16_2 s16_F s16_c0 s16_c1 s16_c2 s16_lt0 s16_lt1 s16_lt2 s16_A s16_B
  conv at s16_B => rhs; simp only [Nat.reducePow, Nat.reduceSub, Nat.reduceMul, Nat.reduceAdd]
  have Fs16 := Fs15.trans s16_F
  clear Fs15 s16_F s15_c0 s15_c1 s15_c2 s15_B s15_lt0 s15_lt1 s15_lt2
  clear es15
  have hcols2 : s16_0 + (s16_1 + s16_2 * 2 ^ 32) * 2 ^ 32 = s7_1 + s7_2 * 2 ^ 32 + (a0 * b7 + a1 * b6 + a2 * b5 + a3 * b4 + a4 * b3 + a5 * b2 + a6 * b1 + a7 * b0) := (reshape3 s16_0 s16_1 s16_2).trans (colsum8 s9_A s10_A s11_A s12_A s13_A s14_A s15_A s16_A)
  clear s9_A s10_A s11_A s12_A s13_A s14_A s15_A s16_A
  have cums2 := combine 256 cums1 hcols2 rfl
  clear cums1 hcols2
  refine extract_store_rule accS s16_0 s16_1 s16_2 (by decide) (by decide) s16_c0 s16_c1 s16_c2 ?_
  intro es17 s17_Fx s17_o s17_c0 s17_c1 s17_c2
  have fs2_a_d_1 := transport s17_Fx Fs16 (by decide) (by decide) fs1_a_d_1
  have fs2_b_d_1 := transport s17_Fx Fs16 (by decide) (by decide) fs1_b_d_1
  have fs2_a_d_2 := transport s17_Fx Fs16 (by decide) (by decide) fs1_a_d_2
  have fs2_b_d_2 := transport s17_Fx Fs16 (by decide) (by decide) fs1_b_d_2
  have fs2_a_d_3 := transport s17_Fx Fs16 (by decide) (by decide) fs1_a_d_3
  have fs2_b_d_3 := transport s17_Fx Fs16 (by decide) (by decide) fs1_b_d_3
  have fs2_a_d_4 := transport s17_Fx Fs16 (by decide) (by decide) fs1_a_d_4
  have fs2_b_d_4 := transport s17_Fx Fs16 (by decide) (by decide) fs1_b_d_4
  have fs2_a_d_5 := transport s17_Fx Fs16 (by decide) (by decide) fs1_a_d_5
  have fs2_b_d_5 := transport s17_Fx Fs16 (by decide) (by decide) fs1_b_d_5
  have fs2_a_d_6 := transport s17_Fx Fs16 (by decide) (by decide) fs1_a_d_6
  have fs2_b_d_6 := transport s17_Fx Fs16 (by decide) (by decide) fs1_b_d_6
  have fs2_a_d_7 := transport s17_Fx Fs16 (by decide) (by decide) fs1_a_d_7
  have fs2_b_d_7 := transport s17_Fx Fs16 (by decide) (by decide) fs1_b_d_7
  have fs2_l_0 := transport s17_Fx Fs16 (by decide) (by decide) fs1_l_0
  have fs2_l_1 := transport s17_Fx Fs16 (by decide) (by decide) fs1_l_1
  have fs2_l_2 := transport s17_Fx Fs16 (by decide) (by decide) fs1_l_2
  have fs2_l_3 := transport s17_Fx Fs16 (by decide) (by decide) fs1_l_3
  have fs2_l_4 := transport s17_Fx Fs16 (by decide) (by decide) fs1_l_4
  have fs2_l_5 := transport s17_Fx Fs16 (by decide) (by decide) fs1_l_5
  have fs2_l_6 := transport s17_Fx Fs16 (by decide) (by decide) s8_o
  have s17_B := extract_bound32 s16_B
  conv at s17_B => rhs; simp only [Nat.reducePow, Nat.reduceDiv]
  clear fs1_a_d_0 fs1_b_d_0 fs1_a_d_1 fs1_b_d_1 fs1_a_d_2 fs1_b_d_2 fs1_a_d_3 fs1_b_d_3 fs1_a_d_4 fs1_b_d_4 fs1_a_d_5 fs1_b_d_5 fs1_a_d_6 fs1_b_d_6 fs1_a_d_7 fs1_b_d_7 fs1_l_0 fs1_l_1 fs1_l_2 fs1_l_3 fs1_l_4 fs1_l_5 s8_o s16_c0 s16_c1 s16_c2 s16_B s17_Fx Fs16
  clear es16 es8
  exact scalar_mul_512_run_p3 es17 a0 a1 a2 a3 a4 a5 a6 a7 b0 b1 b2 b3 b4 b5 b6 b7 v2_0 v2_1 v2_2 v2_3 v2_4 v2_5 s7_0 s16_0 s16_1 s16_2 A0 A1 A2 A3 A4 A5 A6 A7 B0 B1 B2 B3 B4 B5 B6 B7 fs2_a_d_1 fs2_b_d_1 fs2_a_d_2 fs2_b_d_2 fs2_a_d_3 fs2_b_d_3 fs2_a_d_4 fs2_b_d_4 fs2_a_d_5 fs2_b_d_5 fs2_a_d_6 fs2_b_d_6 fs2_a_d_7 fs2_b_d_7 fs2_l_0 fs2_l_1 fs2_l_2 fs2_l_3 fs2_l_4 fs2_l_5 fs2_l_6 s17_o L_v2_0 L_v2_1 L_v2_2 L_v2_3 L_v2_4 L_v2_5 s7_lt0 s16_lt0 s16_lt1 s16_lt2 s17_c0 s17_c1 s17_c2 s17_B cums2

set_option maxRecDepth 100000 in
set_option maxHeartbeats 4000000 in
theorem scalar_mul_512_run_p1 (env : Env) (a0 a1 a2 a3 a4 a5 a6 a7 b0 b1 b2 b3 b4 b5 b6 b7 : Nat) (v1_0 v1_1 v1_2 v1_3 v1_4 v1_5 : Nat) (A0 : a0 < 2 ^ 32) (A1 : a1 < 2 ^ 32) (A2 : a2 < 2 ^ 32) (A3 : a3 < 2 ^ 32) (A4 : a4 < 2 ^ 32) (A5 : a5 < 2 ^ 32) (A6 : a6 < 2 ^ 32) (A7 : a7 < 2 ^ 32) (B0 : b0 < 2 ^ 32) (B1 : b1 < 2 ^ 32) (B2 : b2 < 2 ^ 32) (B3 : b3 < 2 ^ 32) (B4 : b4 < 2 ^ 32) (B5 : b5 < 2 ^ 32) (B6 : b6 < 2 ^ 32) (B7 : b7 < 2 ^ 32) 
    (h_a_d_0 : env.get "a.d" 0 = a0)
    (h_b_d_0 : env.get "b.d" 0 = b0)
    (h_a_d_1 : env.get "a.d" 1 = a1)
    (h_b_d_1 : env.get "b.d" 1 = b1)
    (h_a_d_2 : env.get "a.d" 2 = a2)
    (h_b_d_2 : env.get "b.d" 2 = b2)
    (h_a_d_3 : env.get "a.d" 3 = a3)
    (h_b_d_3 : env.get "b.d" 3 = b3)
    (h_a_d_4 : env.get "a.d" 4 = a4)
    (h_b_d_4 : env.get "b.d" 4 = b4)
    (h_a_d_5 : env.get "a.d" 5 = a5)
    (h_b_d_5 : env.get "b.d" 5 = b5)
    (h_a_d_6 : env.get "a.d" 6 = a6)
    (h_b_d_6 : env.get "b.d" 6 = b6)
    (h_a_d_7 : env.get "a.d" 7 = a7)
    (h_b_d_7 : env.get "b.d" 7 = b7)
    (h_l_0 : env.get "l" 0 = v1_0)
    (h_l_1 : env.get "l" 1 = v1_1)
    (h_l_2 : env.get "l" 2 = v1_2)
    (h_l_3 : env.get "l" 3 = v1_3)
    (L_v1_0 : v1_0 < 2 ^ 32)
    (L_v1_1 : v1_1 < 2 ^ 32)
    (L_v1_2 : v1_2 < 2 ^ 32)
    (L_v1_3 : v1_3 < 2 ^ 32)
    (L_v1_4 : v1_4 < 2 ^ 32)
    (L_v1_5 : v1_5 < 2 ^ 32)
    (hc0 : env.get "c0" 0 = v1_4)
    (hc1 : env.get "c1" 0 = v1_5)
    (hc2 : env.get "c2" 0 = 0)
    (hB : v1_4 + v1_5 * 2 ^ 32 + 0 * 2 ^ 64 ≤ 17179869179)
    (hcum : v1_0 + v1_1 * 2 ^ 32 + v1_2 * 2 ^ 64 + v1_3 * 2 ^ 96 + (v1_4 + v1_5 * 2 ^ 32) * 2 ^ 128 = (a0 * b0) + (a0 * b1 + a1 * b0) * 2 ^ 32 + (a0 * b2 + a1 * b1 + a2 * b0) * 2 ^ 64 + (a0 * b3 + a1 * b2 + a2 * b1 + a3 * b0) * 2 ^ 96) :
    Mul512Post "l" a0 a1 a2 a3 a4 a5 a6 a7 b0 b1 b2 b3 b4 b5 b6 b7 (runR env (Gen.scalar8x32.scalar_mul_512.body.drop 87)) := by
  simp only [Gen.scalar8x32.scalar_mul_512, List.drop_succ_cons, List.drop_zero]
  refine muladd_rule accS v1_4 v1_5 0 a0 b4 4294967295 4294967295 _ (by decide) (by decide) hc0 hc1 hc2 (ev_idx_of (Frame.refl accS env) (by decide) h_a_d_0) (ev_idx_of (Frame.refl accS env) (by decide) h_b_d_4) L_v1_4 L_v1_5 (le_of_lt32 A0) (le_of_lt32 B4) (by decide) (by decide) hB (by decide) ?_
  intro es1 s1_0 s1_1 s1_2 s1_F s1_c0 s1_c1 s1_c2 s1_lt0 s1_lt1 s1_lt2 s1_A s1_B
  replace s1_A := s1_A.trans (z3_xy0 _ _ _)
  conv at s1_B => rhs; simp only [Nat.reducePow, Nat.reduceSub, Nat.reduceMul, Nat.reduceAdd]
  clear hc0 hc1 hc2 hB L_v1_4 L_v1_5
  refine muladd_rule accS s1_0 s1_1 s1_2 a1 b3 4294967295 4294967295 _ (by decide) (by decide) s1_c0 s1_c1 s1_c2 (ev_idx_of s1_F (by decide) h_a_d_1) (ev_idx_of s1_F (by decide) h_b_d_3) s1_lt0 s1_lt1 (le_of_lt32 A1) (le_of_lt32 B3) (by decide) (by decide) s1_B (by decide) ?_
  intro es2 s2_0 s2_1 s2_2 s2_F s2_c0 s2_c1 s2_c2 s2_lt0 s2_lt1 s2_lt2 s2_A s2_B
  conv at s2_B => rhs; simp only [Nat.reducePow, Nat.reduceSub, Nat.reduceMul, Nat.reduceAdd]
  have Fs2 := s1_F.trans s2_F
  clear s1_F s2_F s1_c0 s1_c1 s1_c2 s1_B s1_lt0 s1_lt1 s1_lt2
  clear es1
  refine muladd_rule accS s2_0 s2_1 s2_2 a2 b2 4294967295 4294967295 _ (by decide) (by decide) s2_c0 s2_c1 s2_c2 (ev_idx_of Fs2 (by decide) h_a_d_2) (ev_idx_of Fs2 (by decide) h_b_d_2) s2_lt0 s2_lt1 (le_of_lt32 A2) (le_of_lt32 B2) (by decide) (by decide) s2_B (by decide) ?_
  intro es3 s3_0 s3_1 s3_2 s3_F s3_c0 s3_c1 s3_c2 s3_lt0 s3_lt1 s3_lt2 s3_A s3_B
  conv at s3_B => rhs; simp only [Nat.reducePow, Nat.reduceSub, Nat.reduceMul, Nat.reduceAdd]
  have Fs3 := Fs2.trans s3_F
  clear Fs2 s3_F s2_c0 s2_c1 s2_c2 s2_B s2_lt0 s2_lt1 s2_lt2
  clear es2
  refine muladd_rule accS s3_0 s3_1 s3_2 a3 b1 4294967295 4294967295 _ (by decide) (by decide) s3_c0 s3_c1 s3_c2 (ev_idx_of Fs3 (by decide) h_a_d_3) (ev_idx_of Fs3 (by decide) h_b_d_1) s3_lt0 s3_lt1 (le_of_lt32 A3) (le_of_lt32 B1) (by decide) (by decide) s3_B (by decide) ?_
  intro es4 s4_0 s4_1 s4_2 s4_F s4_c0 s4_c1 s4_c2 s4_lt0 s4_lt1 s4_lt2 s4_A s4_B
  conv at s4_B => rhs; simp only [Nat.reducePow, Nat.reduceSub, Nat.reduceMul, Nat.reduceAdd]
  have Fs4 := Fs3.trans s4_F
  clear Fs3 s4_F s3_c0 s3_c1 s3_c2 s3_B s3_lt0 s3_lt1 s3_lt2
  clear es3
  refine muladd_rule accS s4_0 s4_1 s4_2 a4 b0 4294967295 4294967295 _ (by decide) (by decide) s4_c0 s4_c1 s4_c2 (ev_idx_of Fs4 (by decide) h_a_d_4) (ev_idx_of Fs4 (by decide) h_b_d_0) s4_lt0 s4_lt1 (le_of_lt32 A4) (le_of_lt32 B0) (by decide) (by decide) s4_B (by decide) ?_
  intro es5 s5_0 s5_1 s5_2 s5_F s5_c0 s5_c1 s5_c2 s5_lt0 s5_lt1 s5_lt2 s5_A s5_B
  conv at s5_B => rhs; simp only [Nat.reducePow, Nat.reduceSub, Nat.reduceMul, Nat.reduceAdd]
  have Fs5 := Fs4.trans s5_F
  clear Fs4 s5_F s4_c0 s4_c1 s4_c2 s4_B s4_lt0 s4_lt1 s4_lt2
  clear es4
  have hcols1 : s5_0 + (s5_1 + s5_2 * 2 ^ 32) * 2 ^ 32 = v1_4 + v1_5 * 2 ^ 32 + (a0 * b4 + a1 * b3 + a2 * b2 + a3 * b1 + a4 * b0) := (reshape3 s5_0 s5_1 s5_2).trans (colsum5 s1_A s2_A s3_A s4_A s5_A)
  clear s1_A s2_A s3_A s4_A s5_A
  have cums1 := combine 160 hcum hcols1 rfl
  clear hcum hcols1
  refine extract_store_rule accS s5_0 s5_1 s5_2 (by decide) (by decide) s5_c0 s5_c1 s5_c2 ?_
  intro es6 s6_Fx s6_o s6_c0 s6_c1 s6_c2
  have fs1_a_d_0 := transport s6_Fx Fs5 (by decide) (by decide) h_a_d_0
  have fs1_b_d_0 := transport s6_Fx Fs5 (by decide) (by decide) h_b_d_0
  have fs1_a_d_1 := transport s6_Fx Fs5 (by decide) (by decide) h_a_d_1
  have fs1_b_d_1 := transport s6_Fx Fs5 (by decide) (by decide) h_b_d_1
  have fs1_a_d_2 := transport s6_Fx Fs5 (by decide) (by decide) h_a_d_2
  have fs1_b_d_2 := transport s6_Fx Fs5 (by decide) (by decide) h_b_d_2
  have fs1_a_d_3 := transport s6_Fx Fs5 (by decide) (by decide) h_a_d_3
  have fs1_b_d_3 := transport s6_Fx Fs5 (by decide) (by decide) h_b_d_3
  have fs1_a_d_4 := transport s6_Fx Fs5 (by decide) (by decide) h_a_d_4
  have fs1_b_d_4 := transport s6_Fx Fs5 (by decide) (by decide) h_b_d_4
  have fs1_a_d_5 := transport s6_Fx Fs5 (by decide) (by decide) h_a_d_5
  have fs1_b_d_5 := transport s6_Fx Fs5 (by decide) (by decide) h_b_d_5
  have fs1_a_d_6 := transport s6_Fx Fs5 (by decide) (by decide) h_a_d_6
  have fs1_b_d_6 := transport s6_Fx Fs5 (by decide) (by decide) h_b_d_6
  have fs1_a_d_7 := transport s6_Fx Fs5 (by decide) (by decide) h_a_d_7
  have fs1_b_d_7 := transport s6_Fx Fs5 (by decide) (by decide) h_b_d_7
  have fs1_l_0 := transport s6_Fx Fs5 (by decide) (by decide) h_l_0
  have fs1_l_1 := transport s6_Fx Fs5 (by decide) (by decide) h_l_1
  have fs1_l_2 := transport s6_Fx Fs5 (by decide) (by decide) h_l_2
  have fs1_l_3 := transport s6_Fx Fs5 (by decide) (by decide) h_l_3
  have s6_B := extract_bound32 s5_B
  conv at s6_B => rhs; simp only [Nat.reducePow, Nat.reduceDiv]
  clear h_a_d_0 h_b_d_0 h_a_d_1 h_b_d_1 h_a_d_2 h_b_d_2 h_a_d_3 h_b_d_3 h_a_d_4 h_b_d_4 h_a_d_5 h_b_d_5 h_a_d_6 h_b_d_6 h_a_d_7 h_b_d_7 h_l_0 h_l_1 h_l_2 h_l_3 s5_c0 s5_c1 s5_c2 s5_B s6_Fx Fs5
  clear es5 env
  refine muladd_rule accS s5_1 s5_2 0 a0 b5 4294967295 4294967295 _ (by decide) (by decide) s6_c0 s6_c1 s6_c2 (ev_idx_of (Frame.refl accS es6) (by decide) fs1_a_d_0) (ev_idx_of (Frame.refl accS es6) (by decide) fs1_b_d_5) s5_lt1 s5_lt2 (le_of_lt32 A0) (le_of_lt32 B5) (by decide) (by decide) s6_B (by decide) ?_
  intro es7 s7_0 s7_1 s7_2 s7_F s7_c0 s7_c1 s7_c2 s7_lt0 s7_lt1 s7_lt2 s7_A s7_B
  replace s7_A := s7_A.trans (z3_xy0 _ _ _)
  conv at s7_B => rhs; simp only [Nat.reducePow, Nat.reduceSub, Nat.reduceMul, Nat.reduceAdd]
  clear s6_c0 s6_c1 s6_c2 s6_B s5_lt1 s5_lt2
  refine muladd_rule accS s7_0 s7_1 s7_2 a1 b4 4294967295 4294967295 _ (by decide) (by decide) s7_c0 s7_c1 s7_c2 (ev_idx_of s7_F (by decide) fs1_a_d_1) (ev_idx_of s7_F (by decide) fs1_b_d_4) s7_lt0 s7_lt1 (le_of_lt32 A1) (le_of_lt32 B4) (by decide) (by decide) s7_B (by decide) ?_
  intro es8 s8_0 s8_1 s8_2 s8_F s8_c0 s8_c1 s8_c2 s8_lt0 s8_lt1 s8_lt2 s8_A s8_B
  conv at s8_B => rhs; simp only [Nat.reducePow, Nat.reduceSub, Nat.reduceMul, Nat.reduceAdd]
  have Fs8 := s7_F.trans s8_F
  clear s7_F s8_F s7_c0 s7_c1 s7_c2 s7_B s7_lt0 s7_lt1 s7_lt2
  clear es7
  refine muladd_rule accS s8_0 s8_1 s8_2 a2 b3 4294967295 4294967295 _ (by decide) (by decide) s8_c0 s8_c1 s8_c2 (ev_idx_of Fs8 (by decide) fs1_a_d_2) (ev_idx_of Fs8 (by decide) fs1_b_d_3) s8_lt0 s8_lt1 (le_of_lt32 A2) (le_of_lt32 B3) (by decide) (by decide) s8_B (by decide) ?_
  intro es9 s9_0 s9_1 s9_2 s9_F s9_c0 s9_c1 s9_c2 s9_lt0 s9_lt1 s9_lt2 s9_A s9_B
  conv at s9_B => rhs; simp only [Nat.reducePow, Nat.reduceSub, Nat.reduceMul, Nat.reduceAdd]
  have Fs9 := Fs8.trans s9_F
  clear Fs8 s9_F s8_c0 s8_c1 s8_c2 s8_B s8_lt0 s8_lt1 s8_lt2
  clear es8
  refine muladd_rule accS s9_0 s9_1 s9_2 a3 b2 4294967295 4294967295 _ (by decide) (by decide) s9_c0 s9_c1 s9_c2 (ev_idx_of Fs9 (by decide) fs1_a_d_3) (ev_idx_of Fs9 (by decide) fs1_b_d_2) s9_lt0 s9_lt1 (le_of_lt32 A3) (le_of_lt32 B2) (by decide) (by decide) s9_B (by decide) ?_
  intro es10 s10_0 s10_1 s10_2 s10_F s10_c0 s10_c1 s10_c2 s10_lt0 s10_lt1 s10_lt2 s10_A s10_B
  conv at s10_B => rhs; simp only [Nat.reducePow, Nat.reduceSub, Nat.reduceMul, Nat.reduceAdd]
  have Fs10 := Fs9.trans s10_F
  clear Fs9 s10_F s9_c0 s9_c1 s9_c2 s9_B s9_lt0 s9_lt1 s9_lt2
  clear es9
  refine muladd_rule accS s10_0 s10_1 s10_2 a4 b1 4294967295 4294967295 _ (by decide) (by decide) s10_c0 s10_c1 s10_c2 (ev_idx_of Fs10 (by decide) fs1_a_d_4) (ev_idx_of Fs10 (by decide) fs1_b_d_1) s10_lt0 s10_lt1 (le_of_lt32 A4) (le_of_lt32 B1) (by decide) (by decide) s10_B (by decide) ?_
  intro es11 s11_0 s11_1 s11_2 s11_F s11_c0 s11_c1 s11_c2 s11_lt0 s11_lt1 s11_lt2 s11_A s11_B
  conv at s11_B => rhs; simp only [Nat.reducePow, Nat.reduceSub, Nat.reduceMul, Nat.reduceAdd]
  have Fs11 := Fs10.trans s11_F
  clear Fs10 s11_F s10_c0 s10_c1 s10_c2 s10_B s10_lt0 s10_lt1 s10_lt2
  clear es10
  refine muladd_rule accS s11_0 s11_1 s11_2 a5 b0 4294967295 4294967295 _ (by decide) (by decide) s11_c0 s11_c1 s11_c2 (ev_idx_of Fs11 (by decide) fs1_a_d_5) (ev_idx_of Fs11 (by decide) fs1_b_d_0) s11_lt0 s11_lt1 (le_of_lt32 A5) (le_of_lt32 B0) (by decide) (by decide) s11_B (by decide) ?_
  intro es12 s12_0 s12_1 s12_2 s12_F s12_c0 s12_c1 s12_c2 s12_lt0 s12_lt1 s12_lt2 s12_A s12_B
  conv at s12_B => rhs; simp only [Nat.reducePow, Nat.reduceSub, Nat.reduceMul, Nat.reduceAdd]
  have Fs12 := Fs11.trans s12_F
  clear Fs11 s12_F s11_c0 s11_c1 s11_c2 s11_B s11_lt0 s11_lt1 s11_lt2
  clear es11
  have hcols2 : s12_0 + (s12_1 + s12_2 * 2 ^ 32) * 2 ^ 32 = s5_1 + s5_2 * 2 ^ 32 + (a0 * b5 + a1 * b4 + a2 * b3 + a3 * b2 + a4 * b1 + a5 * b0) := (reshape3 s12_0 s12_1 s12_2).trans (colsum6 s7_A s8_A s9_A s10_A s11_A s12_A)
  clear s7_A s8_A s9_A s10_A s11_A s12_A
  have cums2 := combine 192 cums1 hcols2 rfl
  clear cums1 hcols2
  refine extract_store_rule accS s12_0 s12_1 s12_2 (by decide) (by decide) s12_c0 s12_c1 s12_c2 ?_
  intro es13 s13_Fx s13_o s13_c0 s13_c1 s13_c2
  have fs2_a_d_0 := transport s13_Fx Fs12 (by decide) (by decide) fs1_a_d_0
  have fs2_b_d_0 := transport s13_Fx Fs12 (by decide) (by decide) fs1_b_d_0
  have fs2_a_d_1 := transport s13_Fx Fs12 (by decide) (by decide) fs1_a_d_1
  have fs2_b_d_1 := transport s13_Fx Fs12 (by decide) (by decide) fs1_b_d_1
  have fs2_a_d_2 := transport s13_Fx Fs12 (by decide) (by decide) fs1_a_d_2
  have fs2_b_d_2 := transport s13_Fx Fs12 (by decide) (by decide) fs1_b_d_2
  have fs2_a_d_3 := transport s13_Fx Fs12 (by decide) (by decide) fs1_a_d_3
  have fs2_b_d_3 := transport s13_Fx Fs12 (by decide) (by decide) fs1_b_d_3
  have fs2_a_d_4 := transport s13_Fx Fs12 (by decide) (by decide) fs1_a_d_4
  have fs2_b_d_4 := transport s13_Fx Fs12 (by decide) (by decide) fs1_b_d_4
  have fs2_a_d_5 := transport s13_Fx Fs12 (by decide) (by decide) fs1_a_d_5
  have fs2_b_d_5 := transport s13_Fx Fs12 (by decide) (by decide) fs1_b_d_5
  have fs2_a_d_6 := transport s13_Fx Fs12 (by decide) (by decide) fs1_a_d_6
  have fs2_b_d_6 := transport s13_Fx Fs12 (by decide) (by decide) fs1_b_d_6
  have fs2_a_d_7 := transport s13_Fx Fs12 (by decide) (by decide) fs1_a_d_7
  have fs2_b_d_7 := transport s13_Fx Fs12 (by decide) (by decide) fs1_b_d_7
  have fs2_l_0 := transport s13_Fx Fs12 (by decide) (by decide) fs1_l_0
  have fs2_l_1 := transport s13_Fx Fs12 (by decide) (by decide) fs1_l_1
  have fs2_l_2 := transport s13_Fx Fs12 (by decide) (by decide) fs1_l_2
  have fs2_l_3 := transport s13_Fx Fs12 (by decide) (by decide) fs1_l_3
  have fs2_l_4 := transport s13_Fx Fs12 (by decide) (by decide) s6_o
  have s13_B := extract_bound32 s12_B
  conv at s13_B => rhs; simp only [Nat.reducePow, Nat.reduceDiv]
  clear fs1_a_d_0 fs1_b_d_0 fs1_a_d_1 fs1_b_d_1 fs1_a_d_2 fs1_b_d_2 fs1_a_d_3 fs1_b_d_3 fs1_a_d_4 fs1_b_d_4 fs1_a_d_5 fs1_b_d_5 fs1_a_d_6 fs1_b_d_6 fs1_a_d_7 fs1_b_d_7 fs1_l_0 fs1_l_1 fs1_l_2 fs1_l_3 s6_o s12_c0 s12_c1 s12_c2 s12_B s13_Fx Fs12
  clear es12 es6
  exact scalar_mul_512_run_p2 es13 a0 a1 a2 a3 a4 a5 a6 a7 b0 b1 b2 b3 b4 b5 b6 b7 v1_0 v1_1 v1_2 v1_3 s5_0 s12_0 s12_1 s12_2 A0 A1 A2 A3 A4 A5 A6 A7 B0 B1 B2 B3 B4 B5 B6 B7 fs2_a_d_0 fs2_b_d_0 fs2_a_d_1 fs2_b_d_1 fs2_a_d_2 fs2_b_d_2 fs2_a_d_3 fs2_b_d_3 fs2_a_d_4 fs2_b_d_4 fs2_a_d_5 fs2_b_d_5 fs2_a_d_6 fs2_b_d_6 fs2_a_d_7 fs2_b_d_7 fs2_l_0 fs2_l_1 fs2_l_2 fs2_l_3 fs2_l_4 s13_o L_v1_0 L_v1_1 L_v1_2 L_v1_3 s5_lt0 s12_lt0 s12_lt1 s12_lt2 s13_c0 s13_c1 s13_c2 s13_B cums2

set_option maxRecDepth 100000 in
set_option maxHeartbeats 4000000 in
theorem scalar_mul_512_run (env : Env) (a0 a1 a2 a3 a4 a5 a6 a7 b0 b1 b2 b3 b4 b5 b6 b7 : Nat)  (A0 : a0 < 2 ^ 32) (A1 : a1 < 2 ^ 32) (A2 : a2 < 2 ^ 32) (A3 : a3 < 2 ^ 32) (A4 : a4 < 2 ^ 32) (A5 : a5 < 2 ^ 32) (A6 : a6 < 2 ^ 32) (A7 : a7 < 2 ^ 32) (B0 : b0 < 2 ^ 32) (B1 : b1 < 2 ^ 32) (B2 : b2 < 2 ^ 32) (B3 : b3 < 2 ^ 32) (B4 : b4 < 2 ^ 32) (B5 : b5 < 2 ^ 32) (B6 : b6 < 2 ^ 32) (B7 : b7 < 2 ^ 32)
    (ha0 : env.get "a.d" 0 = a0) (ha1 : env.get "a.d" 1 = a1) (ha2 : env.get "a.d" 2 = a2) (ha3 : env.get "a.d" 3 = a3) (ha4 : env.get "a.d" 4 = a4) (ha5 : env.get "a.d" 5 = a5) (ha6 : env.get "a.d" 6 = a6) (ha7 : env.get "a.d" 7 = a7)
    (hb0 : env.get "b.d" 0 = b0) (hb1 : env.get "b.d" 1 = b1) (hb2 : env.get "b.d" 2 = b2) (hb3 : env.get "b.d" 3 = b3) (hb4 : env.get "b.d" 4 = b4) (hb5 : env.get "b.d" 5 = b5) (hb6 : env.get "b.d" 6 = b6) (hb7 : env.get "b.d" 7 = b7) :
    Mul512Post "l" a0 a1 a2 a3 a4 a5 a6 a7 b0 b1 b2 b3 b4 b5 b6 b7 (runR env Gen.scalar8x32.scalar_mul_512.body) := by
  simp only [Gen.scalar8x32.scalar_mul_512]
  refine init_rule accS 0 (by decide) (by decide) (ev_lit _ _) ?_
  intro es1 s1_F s1_c0 s1_c1 s1_c2
  have s1_B : (0 : Nat) + 0 * 2 ^ 32 ≤ 0 := by decide
  refine muladd_fast_rule accS "c2" 0 0 0 a0 b0 4294967295 4294967295 _ (by decide) (by decide) s1_c0 s1_c1 s1_c2 (ev_idx_of s1_F (by decide) ha0) (ev_idx_of s1_F (by decide) hb0) zero_lt32 zero_lt32 (le_of_lt32 A0) (le_of_lt32 B0) (by decide) (by decide) s1_B (by decide) ?_
  intro es2 s2_0 s2_1 s2_F s2_c0 s2_c1 s2_c2 s2_lt0 s2_lt1 s2_A s2_B
  replace s2_A := s2_A.trans (z2_00 _)
  conv at s2_B => rhs; simp only [Nat.reducePow, Nat.reduceSub, Nat.reduceMul, Nat.reduceAdd]
  have Fs2 := s1_F.trans s2_F
  clear s1_F s2_F s1_c0 s1_c1 s1_c2 s1_B
  clear es1
  have hcols1 : s2_0 + s2_1 * 2 ^ 32 = (a0 * b0) := colsumz1 s2_A
  clear s2_A
  have cums1 := hcols1
  clear hcols1
  refine extract_fast_store_rule accS "c2" s2_0 s2_1 0 (by decide) (by decide) s2_c0 s2_c1 s2_c2 ?_
  intro es3 s3_Fx s3_o s3_c0 s3_c1 s3_c2
  have fs1_a_d_0 := transport s3_Fx Fs2 (by decide) (by decide) ha0
  have fs1_b_d_0 := transport s3_Fx Fs2 (by decide) (by decide) hb0
  have fs1_a_d_1 := transport s3_Fx Fs2 (by decide) (by decide) ha1
  have fs1_b_d_1 := transport s3_Fx Fs2 (by decide) (by decide) hb1
  have fs1_a_d_2 := transport s3_Fx Fs2 (by decide) (by decide) ha2
  have fs1_b_d_2 := transport s3_Fx Fs2 (by decide) (by decide) hb2
  have fs1_a_d_3 := transport s3_Fx Fs2 (by decide) (by decide) ha3
  have fs1_b_d_3 := transport s3_Fx Fs2 (by decide) (by decide) hb3
  have fs1_a_d_4 := transport s3_Fx Fs2 (by decide) (by decide) ha4
  have fs1_b_d_4 := transport s3_Fx Fs2 (by decide) (by decide) hb4
  have fs1_a_d_5 := transport s3_Fx Fs2 (by decide) (by decide) ha5
  have fs1_b_d_5 := transport s3_Fx Fs2 (by decide) (by decide) hb5
  have fs1_a_d_6 := transport s3_Fx Fs2 (by decide) (by decide) ha6
  have fs1_b_d_6 := transport s3_Fx Fs2 (by decide) (by decide) hb6
  have fs1_a_d_7 := transport s3_Fx Fs2 (by decide) (by decide) ha7
  have fs1_b_d_7 := transport s3_Fx Fs2 (by decide) (by decide) hb7
  have s3_B := extract_bound32' s2_B
  conv at s3_B => rhs; simp only [Nat.reducePow, Nat.reduceDiv]
  clear ha0 hb0 ha1 hb1 ha2 hb2 ha3 hb3 ha4 hb4 ha5 hb5 ha6 hb6 ha7 hb7 s2_c0 s2_c1 s2_c2 s2_B s3_Fx Fs2
  clear es2 env
  refine muladd_rule accS s2_1 0 0 a0 b1 4294967295 4294967295 _ (by decide) (by decide) s3_c0 s3_c1 s3_c2 (ev_idx_of (Frame.refl accS es3) (by decide) fs1_a_d_0) (ev_idx_of (Frame.refl accS es3) (by decide) fs1_b_d_1) s2_lt1 zero_lt32 (le_of_lt32 A0) (le_of_lt32 B1) (by decide) (by decide) (acc_zero2 s3_B) (by decide) ?_
  intro es4 s4_0 s4_1 s4_2 s4_F s4_c0 s4_c1 s4_c2 s4_lt0 s4_lt1 s4_lt2 s4_A s4_B
  replace s4_A := s4_A.trans (z3_x00 _ _)
  conv at s4_B => rhs; simp only [Nat.reducePow, Nat.reduceSub, Nat.reduceMul, Nat.reduceAdd]
  clear s3_c0 s3_c1 s3_c2 s3_B s2_lt1
  refine muladd_rule accS s4_0 s4_1 s4_2 a1 b0 4294967295 4294967295 _ (by decide) (by decide) s4_c0 s4_c1 s4_c2 (ev_idx_of s4_F (by decide) fs1_a_d_1) (ev_idx_of s4_F (by decide) fs1_b_d_0) s4_lt0 s4_lt1 (le_of_lt32 A1) (le_of_lt32 B0) (by decide) (by decide) s4_B (by decide) ?_
  intro es5 s5_0 s5_1 s5_2 s5_F s5_c0 s5_c1 s5_c2 s5_lt0 s5_lt1 s5_lt2 s5_A s5_B
  conv at s5_B => rhs; simp only [Nat.reducePow, Nat.reduceSub, Nat.reduceMul, Nat.reduceAdd]
  have Fs5 := s4_F.trans s5_F
  clear s4_F s5_F s4_c0 s4_c1 s4_c2 s4_B s4_lt0 s4_lt1 s4_lt2
  clear es4
  have hcols2 : s5_0 + (s5_1 + s5_2 * 2 ^ 32) * 2 ^ 32 = s2_1 + (a0 * b1 + a1 * b0) := (reshape3 s5_0 s5_1 s5_2).trans (colsum2 s4_A s5_A)
  clear s4_A s5_A
  have cums2 := combine 64 cums1 hcols2 rfl
  clear cums1 hcols2
  refine extract_store_rule accS s5_0 s5_1 s5_2 (by decide) (by decide) s5_c0 s5_c1 s5_c2 ?_
  intro es6 s6_Fx s6_o s6_c0 s6_c1 s6_c2
  have fs2_a_d_0 := transport s6_Fx Fs5 (by decide) (by decide) fs1_a_d_0
  have fs2_b_d_0 := transport s6_Fx Fs5 (by decide) (by decide) fs1_b_d_0
  have fs2_a_d_1 := transport s6_Fx Fs5 (by decide) (by decide) fs1_a_d_1
  have fs2_b_d_1 := transport s6_Fx Fs5 (by decide) (by decide) fs1_b_d_1
  have fs2_a_d_2 := transport s6_Fx Fs5 (by decide) (by decide) fs1_a_d_2
  have fs2_b_d_2 := transport s6_Fx Fs5 (by decide) (by decide) fs1_b_d_2
  have fs2_a_d_3 := transport s6_Fx Fs5 (by decide) (by decide) fs1_a_d_3
  have fs2_b_d_3 := transport s6_Fx Fs5 (by decide) (by decide) fs1_b_d_3
  have fs2_a_d_4 := transport s6_Fx Fs5 (by decide) (by decide) fs1_a_d_4
  have fs2_b_d_4 := transport s6_Fx Fs5 (by decide) (by decide) fs1_b_d_4
  have fs2_a_d_5 := transport s6_Fx Fs5 (by decide) (by decide) fs1_a_d_5
  have fs2_b_d_5 := transport s6_Fx Fs5 (by decide) (by decide) fs1_b_d_5
  have fs2_a_d_6 := transport s6_Fx Fs5 (by decide) (by decide) fs1_a_d_6
  have fs2_b_d_6 := transport s6_Fx Fs5 (by decide) (by decide) fs1_b_d_6
  have fs2_a_d_7 := transport s6_Fx Fs5 (by decide) (by decide) fs1_a_d_7
  have fs2_b_d_7 := transport s6_Fx Fs5 (by decide) (by decide) fs1_b_d_7
  have fs2_l_0 := transport s6_Fx Fs5 (by decide) (by decide) s3_o
  have s6_B := extract_bound32 s5_B
  conv at s6_B => rhs; simp only [Nat.reducePow, Nat.reduceDiv]
  clear fs1_a_d_0 fs1_b_d_0 fs1_a_d_1 fs1_b_d_1 fs1_a_d_2 fs1_b_d_2 fs1_a_d_3 fs1_b_d_3 fs1_a_d_4 fs1_b_d_4 fs1_a_d_5 fs1_b_d_5 fs1_a_d_6 fs1_b_d_6 fs1_a_d_7 fs1_b_d_7 s3_o s5_c0 s5_c1 s5_c2 s5_B s6_Fx Fs5
  clear es5 es3
  refine muladd_rule accS s5_1 s5_2 0 a0 b2 4294967295 4294967295 _ (by decide) (by decide) s6_c0 s6_c1 s6_c2 (ev_idx_of (Frame.refl accS es6) (by decide) fs2_a_d_0) (ev_idx_of (Frame.refl accS es6) (by decide) fs2_b_d_2) s5_lt1 s5_lt2 (le_of_lt32 A0) (le_of_lt32 B2) (by decide) (by decide) s6_B (by decide) ?_
  intro es7 s7_0 s7_1 s7_2 s7_F s7_c0 s7_c1 s7_c2 s7_lt0 s7_lt1 s7_lt2 s7_A s7_B
  replace s7_A := s7_A.trans (z3_xy0 _ _ _)
  conv at s7_B => rhs; simp only [Nat.reducePow, Nat.reduceSub, Nat.reduceMul, Nat.reduceAdd]
  clear s6_c0 s6_c1 s6_c2 s6_B s5_lt1 s5_lt2
  refine muladd_rule accS s7_0 s7_1 s7_2 a1 b1 4294967295 4294967295 _ (by decide) (by decide) s7_c0 s7_c1 s7_c2 (ev_idx_of s7_F (by decide) fs2_a_d_1) (ev_idx_of s7_F (by decide) fs2_b_d_1) s7_lt0 s7_lt1 (le_of_lt32 A1) (le_of_lt32 B1) (by decide) (by decide) s7_B (by decide) ?_
  intro es8 s8_0 s8_1 s8_2 s8_F s8_c0 s8_c1 s8_c2 s8_lt0 s8_lt1 s8_lt2 s8_A s8_B
  conv at s8_B => rhs; simp only [Nat.reducePow, Nat.reduceSub, Nat.reduceMul, Nat.reduceAdd]
  have Fs8 := s7_F.trans s8_F
  clear s7_F s8_F s7_c0 s7_c1 s7_c2 s7_B s7_lt0 s7_lt1 s7_lt2
  clear es7
  refine muladd_rule accS s8_0 s8_1 s8_2 a2 b0 4294967295 4294967295 _ (by decide) (by decide) s8_c0 s8_c1 s8_c2 (ev_idx_of Fs8 (by decide) fs2_a_d_2) (ev_idx_of Fs8 (by decide) fs2_b_d_0) s8_lt0 s8_lt1 (le_of_lt32 A2) (le_of_lt32 B0) (by decide) (by decide) s8_B (by decide) ?_
  intro es9 s9_0 s9_1 s9_2 s9_F s9_c0 s9_c1 s9_c2 s9_lt0 s9_lt1 s9_lt2 s9_A s9_B
  conv at s9_B => rhs; simp only [Nat.reducePow, Nat.reduceSub, Nat.reduceMul, Nat.reduceAdd]
  have Fs9 := Fs8.trans s9_F
  clear Fs8 s9_F s8_c0 s8_c1 s8_c2 s8_B s8_lt0 s8_lt1 s8_lt2
  clear es8
  have hcols3 : s9_0 + (s9_1 + s9_2 * 2 ^ 32) * 2 ^ 32 = s5_1 + s5_2 * 2 ^ 32 + (a0 * b2 + a1 * b1 + a2 * b0) := (reshape3 s9_0 s9_1 s9_2).trans (colsum3 s7_A s8_A s9_A)
  clear s7_A s8_A s9_A
  have cums3 := combine 96 cums2 hcols3 rfl
  clear cums2 hcols3
  refine extract_store_rule accS s9_0 s9_1 s9_2 (by decide) (by decide) s9_c0 s9_c1 s9_c2 ?_
  intro es10 s10_Fx s10_o s10_c0 s10_c1 s10_c2
  have fs3_a_d_0 := transport s10_Fx Fs9 (by decide) (by decide) fs2_a_d_0
  have fs3_b_d_0 := transport s10_Fx Fs9 (by decide) (by decide) fs2_b_d_0
  have fs3_a_d_1 := transport s10_Fx Fs9 (by decide) (by decide) fs2_a_d_1
  have fs3_b_d_1 := transport s10_Fx Fs9 (by decide) (by decide) fs2_b_d_1
  have fs3_a_d_2 := transport s10_Fx Fs9 (by decide) (by decide) fs2_a_d_2
  have fs3_b_d_2 := transport s10_Fx Fs9 (by decide) (by decide) fs2_b_d_2
  have fs3_a_d_3 := transport s10_Fx Fs9 (by decide) (by decide) fs2_a_d_3
  have fs3_b_d_3 := transport s10_Fx Fs9 (by decide) (by decide) fs2_b_d_3
  have fs3_a_d_4 := transport s10_Fx Fs9 (by decide) (by decide) fs2_a_d_4
  have fs3_b_d_4 := transport s10_Fx Fs9 (by decide) (by decide) fs2_b_d_4
  have fs3_a_d_5 := transport s10_Fx Fs9 (by decide) (by decide) fs2_a_d_5
  have fs3_b_d_5 := transport s10_Fx Fs9 (by decide) (by decide) fs2_b_d_5
  have fs3_a_d_6 := transport s10_Fx Fs9 (by decide) (by decide) fs2_a_d_6
  have fs3_b_d_6 := transport s10_Fx Fs9 (by decide) (by decide) fs2_b_d_6
  have fs3_a_d_7 := transport s10_Fx Fs9 (by decide) (by decide) fs2_a_d_7
  have fs3_b_d_7 := transport s10_Fx Fs9 (by decide) (by decide) fs2_b_d_7
  have fs3_l_0 := transport s10_Fx Fs9 (by decide) (by decide) fs2_l_0
  have fs3_l_1 := transport s10_Fx Fs9 (by decide) (by decide) s6_o
  have s10_B := extract_bound32 s9_B
  conv at s10_B => rhs; simp only [Nat.reducePow, Nat.reduceDiv]
  clear fs2_a_d_0 fs2_b_d_0 fs2_a_d_1 fs2_b_d_1 fs2_a_d_2 fs2_b_d_2 fs2_a_d_3 fs2_b_d_3 fs2_a_d_4 fs2_b_d_4 fs2_a_d_5 fs2_b_d_5 fs2_a_d_6 fs2_b_d_6 fs2_a_d_7 fs2_b_d_7 fs2_l_0 s6_o s9_c0 s9_c1 s9_c2 s9_B s10_Fx Fs9
  clear es9 es6
  refine muladd_rule accS s9_1 s9_2 0 a0 b3 4294967295 4294967295 _ (by decide) (by decide) s10_c0 s10_c1 s10_c2 (ev_idx_of (Frame.refl accS es10) (by decide) fs3_a_d_0) (ev_idx_of (Frame.refl accS es10) (by decide) fs3_b_d_3) s9_lt1 s9_lt2 (le_of_lt32 A0) (le_of_lt32 B3) (by decide) (by decide) s10_B (by decide) ?_
  intro es11 s11_0 s11_1 s11_2 s11_F s11_c0 s11_c1 s11_c2 s11_lt0 s11_lt1 s11_lt2 s11_A s11_B
  replace s11_A := s11_A.trans (z3_xy0 _ _ _)
  conv at s11_B => rhs; simp only [Nat.reducePow, Nat.reduceSub, Nat.reduceMul, Nat.reduceAdd]
  clear s10_c0 s10_c1 s10_c2 s10_B s9_lt1 s9_lt2
  refine muladd_rule accS s11_0 s11_1 s11_2 a1 b2 4294967295 4294967295 _ (by decide) (by decide) s11_c0 s11_c1 s11_c2 (ev_idx_of s11_F (by decide) fs3_a_d_1) (ev_idx_of s11_F (by decide) fs3_b_d_2) s11_lt0 s11_lt1 (le_of_lt32 A1) (le_of_lt32 B2) (by decide) (by decide) s11_B (by decide) ?_
  intro es12 s12_0 s12_1 s12_2 s12_F s12_c0 s12_c1 s12_c2 s12_lt0 s12_lt1 s12_lt2 s12_A s12_B
  conv at s12_B => rhs; simp only [Nat.reducePow, Nat.reduceSub, Nat.reduceMul, Nat.reduceAdd]
  have Fs12 := s11_F.trans s12_F
  clear s11_F s12_F s11_c0 s11_c1 s11_c2 s11_B s11_lt0 s11_lt1 s11_lt2
  clear es11
  refine muladd_rule accS s12_0 s12_1 s12_2 a2 b1 4294967295 4294967295 _ (by decide) (by decide) s12_c0 s12_c1 s12_c2 (ev_idx_of Fs12 (by decide) fs3_a_d_2) (ev_idx_of Fs12 (by decide) fs3_b_d_1) s12_lt0 s12_lt1 (le_of_lt32 A2) (le_of_lt32 B1) (by decide) (by decide) s12_B (by decide) ?_
  intro es13 s13_0 s13_1 s13_2 s13_F s13_c0 s13_c1 s13_c2 s13_lt0 s13_lt1 s13_lt2 s13_A s13_B
  conv at s13_B => rhs; simp only [Nat.reducePow, Nat.reduceSub, Nat.reduceMul, Nat.reduceAdd]
  have Fs13 := Fs12.trans s13_F
  clear Fs12 s13_F s12_c0 s12_c1 s12_c2 s12_B s12_lt0 s12_lt1 s12_lt2
  clear es12
  refine muladd_rule accS s13_0 s13_1 s13_2 a3 b0 4294967295 4294967295 _ (by decide) (by decide) s13_c0 s13_c1 s13_c2 (ev_idx_of Fs13 (by decide) fs3_a_d_3) (ev_idx_of Fs13 (by decide) fs3_b_d_0) s13_lt0 s13_lt1 (le_of_lt32 A3) (le_of_lt32 B0) (by decide) (by decide) s13_B (by decide) ?_
  intro es14 s14_0 s14_1 s14_2 s14_F s14_c0 s14_c1 s14_c2 s14_lt0 s14_lt1 s14_lt2 s14_A s14_B
  conv at s14_B => rhs; simp only [Nat.reducePow, Nat.reduceSub, Nat.reduceMul, Nat.reduceAdd]
  have Fs14 := Fs13.trans s14_F
  clear Fs13 s14_F s13_c0 s13_c1 s13_c2 s13_B s13_lt0 s13_lt1 s13_lt2
  clear es13
  have hcols4 : s14_0 + (s14_1 + s14_2 * 2 ^ 32) * 2 ^ 32 = s9_1 + s9_2 * 2 ^ 32 + (a0 * b3 + a1 * b2 + a2 * b1 + a3 * b0) := (reshape3 s14_0 s14_1 s14_2).trans (colsum4 s11_A s12_A s13_A s14_A)
  clear s11_A s12_A s13_A s14_A
  have cums4 := combine 128 cums3 hcols4 rfl
  clear cums3 hcols4
  refine extract_store_rule accS s14_0 s14_1 s14_2 (by decide) (by decide) s14_c0 s14_c1 s14_c2 ?_
  intro es15 s15_Fx s15_o s15_c0 s15_c1 s15_c2
  have fs4_a_d_0 := transport s15_Fx Fs14 (by decide) (by decide) fs3_a_d_0
  have fs4_b_d_0 := transport s15_Fx Fs14 (by decide) (by decide) fs3_b_d_0
  have fs4_a_d_1 := transport s15_Fx Fs14 (by decide) (by decide) fs3_a_d_1
  have fs4_b_d_1 := transport s15_Fx Fs14 (by decide) (by decide) fs3_b_d_1
  have fs4_a_d_2 := transport s15_Fx Fs14 (by decide) (by decide) fs3_a_d_2
  have fs4_b_d_2 := transport s15_Fx Fs14 (by decide) (by decide) fs3_b_d_2
  have fs4_a_d_3 := transport s15_Fx Fs14 (by decide) (by decide) fs3_a_d_3
  have fs4_b_d_3 := transport s15_Fx Fs14 (by decide) (by decide) fs3_b_d_3
  have fs4_a_d_4 := transport s15_Fx Fs14 (by decide) (by decide) fs3_a_d_4
  have fs4_b_d_4 := transport s15_Fx Fs14 (by decide) (by decide) fs3_b_d_4
  have fs4_a_d_5 := transport s15_Fx Fs14 (by decide) (by decide) fs3_a_d_5
  have fs4_b_d_5 := transport s15_Fx Fs14 (by decide) (by decide) fs3_b_d_5
  have fs4_a_d_6 := transport s15_Fx Fs14 (by decide) (by decide) fs3_a_d_6
  have fs4_b_d_6 := transport s15_Fx Fs14 (by decide) (by decide) fs3_b_d_6
  have fs4_a_d_7 := transport s15_Fx Fs14 (by decide) (by decide) fs3_a_d_7
  have fs4_b_d_7 := transport s15_Fx Fs14 (by decide) (by decide) fs3_b_d_7
  have fs4_l_0 := transport s15_Fx Fs14 (by decide) (by decide) fs3_l_0
  have fs4_l_1 := transport s15_Fx Fs14 (by decide) (by decide) fs3_l_1
  have fs4_l_2 := transport s15_Fx Fs14 (by decide) (by decide) s10_o
  have s15_B := extract_bound32 s14_B
  conv at s15_B => rhs; simp only [Nat.reducePow, Nat.reduceDiv]
  clear fs3_a_d_0 fs3_b_d_0 fs3_a_d_1 fs3_b_d_1 fs3_a_d_2 fs3_b_d_2 fs3_a_d_3 fs3_b_d_3 fs3_a_d_4 fs3_b_d_4 fs3_a_d_5 fs3_b_d_5 fs3_a_d_6 fs3_b_d_6 fs3_a_d_7 fs3_b_d_7 fs3_l_0 fs3_l_1 s10_o s14_c0 s14_c1 s14_c2 s14_B s15_Fx Fs14
  clear es14 es10
  exact scalar_mul_512_run_p1 es15 a0 a1 a2 a3 a4 a5 a6 a7 b0 b1 b2 b3 b4 b5 b6 b7 s2_0 s5_0 s9_0 s14_0 s14_1 s14_2 A0 A1 A2 A3 A4 A5 A6 A7 B0 B1 B2 B3 B4 B5 B6 B7 fs4_a_d_0 fs4_b_d_0 fs4_a_d_1 fs4_b_d_1 fs4_a_d_2 fs4_b_d_2 fs4_a_d_3 fs4_b_d_3 fs4_a_d_4 fs4_b_d_4 fs4_a_d_5 fs4_b_d_5 fs4_a_d_6 fs4_b_d_6 fs4_a_d_7 fs4_b_d_7 fs4_l_0 fs4_l_1 fs4_l_2 s15_o s2_lt0 s5_lt0 s9_lt0 s14_lt0 s14_lt1 s14_lt2 s15_c0 s15_c1 s15_c2 s15_B cums4


/-- **`secp256k1_scalar_mul_512` (8×32) is exact.**  For ALL 32-bit limb values of `a` and `b` (no reduction
    assumed), the sixteen output limbs `l[0..15]` are 32-bit values representing the full 512-bit product `a · b`. -/
theorem scalar_mul_512_correct (env : Env) (ha : Limbs32 env "a.d") (hb : Limbs32 env "b.d") :
    lval16 (execL env Gen.scalar8x32.scalar_mul_512.body).env "l" = sval env "a.d" * sval env "b.d" ∧
    Limbs32x16 (execL env Gen.scalar8x32.scalar_mul_512.body).env "l" := by
  obtain ⟨A0, A1, A2, A3, A4, A5, A6, A7⟩ := ha
  obtain ⟨B0, B1, B2, B3, B4, B5, B6, B7⟩ := hb
  exact (scalar_mul_512_run env _ _ _ _ _ _ _ _ _ _ _ _ _ _ _ _ A0 A1 A2 A3 A4 A5 A6 A7 B0 B1 B2 B3 B4 B5 B6 B7
    rfl rfl rfl rfl rfl rfl rfl rfl rfl rfl rfl rfl rfl rfl rfl rfl).2

/-- Non-vacuity: the all-ones operands `a = b = 2^256 - 1` satisfy the hypotheses; the theorem then gives the
    512-bit value `(2^256 - 1)^2` for `l`. -/
example : Limbs32 onesEnv "a.d" ∧ Limbs32 onesEnv "b.d" ∧
    lval16 (execL onesEnv Gen.scalar8x32.scalar_mul_512.body).env "l" = (2 ^ 256 - 1) * (2 ^ 256 - 1) := by
  have ha : Limbs32 onesEnv "a.d" := by decide +kernel
  have hb : Limbs32 onesEnv "b.d" := by decide +kernel
  obtain ⟨h, _⟩ := scalar_mul_512_correct onesEnv ha hb
  have e : sval onesEnv "a.d" * sval onesEnv "b.d" = (2 ^ 256 - 1) * (2 ^ 256 - 1) := by decide +kernel
  exact ⟨ha, hb, e ▸ h⟩

/-! ### 4. `secp256k1_scalar_reduce_512` -/

/-- post-condition of the reduction: the 8 limbs of `r` are 32-bit values representing `v mod N` -/
def RedPost (v : Nat) (out : Env × Option Nat) : Prop :=
  val8x32 (out.1.get "r.d" 0) (out.1.get "r.d" 1) (out.1.get "r.d" 2) (out.1.get "r.d" 3) (out.1.get "r.d" 4)
    (out.1.get "r.d" 5) (out.1.get "r.d" 6) (out.1.get "r.d" 7) = v % N ∧
  out.1.get "r.d" 0 < 2 ^ 32 ∧ out.1.get "r.d" 1 < 2 ^ 32 ∧ out.1.get "r.d" 2 < 2 ^ 32 ∧ out.1.get "r.d" 3 < 2 ^ 32 ∧
  out.1.get "r.d" 4 < 2 ^ 32 ∧ out.1.get "r.d" 5 < 2 ^ 32 ∧ out.1.get "r.d" 6 < 2 ^ 32 ∧ out.1.get "r.d" 7 < 2 ^ 32


/-- the two folding stages of `scalar_reduce_512` combined: every stage replaces `2^256` by `N_C = 2^256 - N`,
    i.e. subtracts a multiple of `N` (the equations `hS1`, `hS2` are the cumulative column equations of the two
    stages, literally as the rule chain produces them) -/
theorem red_combine32 (l0 l1 l2 l3 l4 l5 l6 l7 l8 l9 l10 l11 l12 l13 l14 l15 m0 m1 m2 m3 m4 m5 m6 m7 m8 m9 m10 m11 m12 p0 p1 p2 p3 p4 p5 p6 p7 s8_1 v : Nat)
    (hS1 : m0 + m1 * 2 ^ 32 + m2 * 2 ^ 64 + m3 * 2 ^ 96 + m4 * 2 ^ 128 + m5 * 2 ^ 160 + m6 * 2 ^ 192 + m7 * 2 ^ 224 + m8 * 2 ^ 256 + m9 * 2 ^ 288 + m10 * 2 ^ 320 + m11 * 2 ^ 352 + m12 * 2 ^ 384 = l0 + (l8 * 801750719) + (l1 + l9 * 801750719 + l8 * 1076732275) * 2 ^ 32 + (l2 + l10 * 801750719 + l9 * 1076732275 + l8 * 1354194884) * 2 ^ 64 + (l3 + l11 * 801750719 + l10 * 1076732275 + l9 * 1354194884 + l8 * 1162945305) * 2 ^ 96 + (l4 + l12 * 801750719 + l11 * 1076732275 + l10 * 1354194884 + l9 * 1162945305 + l8) * 2 ^ 128 + (l5 + l13 * 801750719 + l12 * 1076732275 + l11 * 1354194884 + l10 * 1162945305 + l9) * 2 ^ 160 + (l6 + l14 * 801750719 + l13 * 1076732275 + l12 * 1354194884 + l11 * 1162945305 + l10) * 2 ^ 192 + (l7 + l15 * 801750719 + l14 * 1076732275 + l13 * 1354194884 + l12 * 1162945305 + l11) * 2 ^ 224 + (l15 * 1076732275 + l14 * 1354194884 + l13 * 1162945305 + l12) * 2 ^ 256 + (l15 * 1354194884 + l14 * 1162945305 + l13) * 2 ^ 288 + (l15 * 1162945305 + l14) * 2 ^ 320 + (l15) * 2 ^ 352)
    (hS2 : p0 + p1 * 2 ^ 32 + p2 * 2 ^ 64 + p3 * 2 ^ 96 + p4 * 2 ^ 128 + p5 * 2 ^ 160 + p6 * 2 ^ 192 + p7 * 2 ^ 224 + p8 * 2 ^ 256 = m0 + (m8 * 801750719) + (m1 + m9 * 801750719 + m8 * 1076732275) * 2 ^ 32 + (m2 + m10 * 801750719 + m9 * 1076732275 + m8 * 1354194884) * 2 ^ 64 + (m3 + m11 * 801750719 + m10 * 1076732275 + m9 * 1354194884 + m8 * 1162945305) * 2 ^ 96 + (m4 + m12 * 801750719 + m11 * 1076732275 + m10 * 1354194884 + m9 * 1162945305 + m8) * 2 ^ 128 + (m5 + m12 * 1076732275 + m11 * 1354194884 + m10 * 1162945305 + m9) * 2 ^ 160 + (m6 + m12 * 1354194884 + m11 * 1162945305 + m10) * 2 ^ 192 + (m7 + m12 * 1162945305 + m11) * 2 ^ 224 + m12 * 2 ^ 256)
    (hv : val16x32 l0 l1 l2 l3 l4 l5 l6 l7 l8 l9 l10 l11 l12 l13 l14 l15 = v) :
    val8x32 p0 p1 p2 p3 p4 p5 p6 p7 + p8 * 2 ^ 256 +
      N * (val8x32 l8 l9 l10 l11 l12 l13 l14 l15 + (m8 + m9 * 2 ^ 32 + m10 * 2 ^ 64 + m11 * 2 ^ 96 + m12 * 2 ^ 128)) = v := by
  unfold val16x32 at hv
  unfold val8x32
  simp only [N]
  omega

set_option maxRecDepth 100000 in
set_option maxHeartbeats 4000000 in
theorem red_final_r (env : Env) (p0 p1 p2 p3 p4 p5 p6 p7 p8 q v : Nat)
    (hp0 : env.get "p0" 0 = p0) (hp1 : env.get "p1" 0 = p1) (hp2 : env.get "p2" 0 = p2) (hp3 : env.get "p3" 0 = p3) (hp4 : env.get "p4" 0 = p4) (hp5 : env.get "p5" 0 = p5) (hp6 : env.get "p6" 0 = p6) (hp7 : env.get "p7" 0 = p7) (hp8 : env.get "p8" 0 = p8)
    (P0 : p0 < 2 ^ 32) (P1 : p1 < 2 ^ 32) (P2 : p2 < 2 ^ 32) (P3 : p3 < 2 ^ 32) (P4 : p4 < 2 ^ 32) (P5 : p5 < 2 ^ 32) (P6 : p6 < 2 ^ 32) (P7 : p7 < 2 ^ 32) (P8 : p8 ≤ 3)
    (hq : val8x32 p0 p1 p2 p3 p4 p5 p6 p7 + p8 * 2 ^ 256 + N * q = v) :
    RedPost v (runR env (Gen.scalar8x32.scalar_reduce_512.body.drop 547)) := by
  simp only [Gen.scalar8x32.scalar_reduce_512, List.drop_succ_cons, List.drop_zero]
  steps 1 [hp0, hp1, hp2, hp3, hp4, hp5, hp6, hp7, hp8, nc0_eq32, nc1_eq32, nc2_eq32, nc3_eq32]
  vstep r0 [hp0, hp1, hp2, hp3, hp4, hp5, hp6, hp7, hp8, nc0_eq32, nc1_eq32, nc2_eq32, nc3_eq32]
  vstep t1 [hp0, hp1, hp2, hp3, hp4, hp5, hp6, hp7, hp8, nc0_eq32, nc1_eq32, nc2_eq32, nc3_eq32]
  steps 1 [hp0, hp1, hp2, hp3, hp4, hp5, hp6, hp7, hp8, nc0_eq32, nc1_eq32, nc2_eq32, nc3_eq32]
  vstep r1 [hp0, hp1, hp2, hp3, hp4, hp5, hp6, hp7, hp8, nc0_eq32, nc1_eq32, nc2_eq32, nc3_eq32]
  vstep t2 [hp0, hp1, hp2, hp3, hp4, hp5, hp6, hp7, hp8, nc0_eq32, nc1_eq32, nc2_eq32, nc3_eq32]
  steps 1 [hp0, hp1, hp2, hp3, hp4, hp5, hp6, hp7, hp8, nc0_eq32, nc1_eq32, nc2_eq32, nc3_eq32]
  vstep r2 [hp0, hp1, hp2, hp3, hp4, hp5, hp6, hp7, hp8, nc0_eq32, nc1_eq32, nc2_eq32, nc3_eq32]
  vstep t3 [hp0, hp1, hp2, hp3, hp4, hp5, hp6, hp7, hp8, nc0_eq32, nc1_eq32, nc2_eq32, nc3_eq32]
  steps 1 [hp0, hp1, hp2, hp3, hp4, hp5, hp6, hp7, hp8, nc0_eq32, nc1_eq32, nc2_eq32, nc3_eq32]
  vstep r3 [hp0, hp1, hp2, hp3, hp4, hp5, hp6, hp7, hp8, nc0_eq32, nc1_eq32, nc2_eq32, nc3_eq32]
  vstep t4 [hp0, hp1, hp2, hp3, hp4, hp5, hp6, hp7, hp8, nc0_eq32, nc1_eq32, nc2_eq32, nc3_eq32]
  steps 1 [hp0, hp1, hp2, hp3, hp4, hp5, hp6, hp7, hp8, nc0_eq32, nc1_eq32, nc2_eq32, nc3_eq32]
  vstep r4 [hp0, hp1, hp2, hp3, hp4, hp5, hp6, hp7, hp8, nc0_eq32, nc1_eq32, nc2_eq32, nc3_eq32]
  vstep t5 [hp0, hp1, hp2, hp3, hp4, hp5, hp6, hp7, hp8, nc0_eq32, nc1_eq32, nc2_eq32, nc3_eq32]
  steps 1 [hp0, hp1, hp2, hp3, hp4, hp5, hp6, hp7, hp8, nc0_eq32, nc1_eq32, nc2_eq32, nc3_eq32]
  vstep r5 [hp0, hp1, hp2, hp3, hp4, hp5, hp6, hp7, hp8, nc0_eq32, nc1_eq32, nc2_eq32, nc3_eq32]
  vstep t6 [hp0, hp1, hp2, hp3, hp4, hp5, hp6, hp7, hp8, nc0_eq32, nc1_eq32, nc2_eq32, nc3_eq32]
  steps 1 [hp0, hp1, hp2, hp3, hp4, hp5, hp6, hp7, hp8, nc0_eq32, nc1_eq32, nc2_eq32, nc3_eq32]
  vstep r6 [hp0, hp1, hp2, hp3, hp4, hp5, hp6, hp7, hp8, nc0_eq32, nc1_eq32, nc2_eq32, nc3_eq32]
  vstep t7 [hp0, hp1, hp2, hp3, hp4, hp5, hp6, hp7, hp8, nc0_eq32, nc1_eq32, nc2_eq32, nc3_eq32]
  steps 1 [hp0, hp1, hp2, hp3, hp4, hp5, hp6, hp7, hp8, nc0_eq32, nc1_eq32, nc2_eq32, nc3_eq32]
  vstep r7 [hp0, hp1, hp2, hp3, hp4, hp5, hp6, hp7, hp8, nc0_eq32, nc1_eq32, nc2_eq32, nc3_eq32]
  vstep cc [hp0, hp1, hp2, hp3, hp4, hp5, hp6, hp7, hp8, nc0_eq32, nc1_eq32, nc2_eq32, nc3_eq32]
  steps 2 [hp0, hp1, hp2, hp3, hp4, hp5, hp6, hp7, hp8, nc0_eq32, nc1_eq32, nc2_eq32, nc3_eq32]
  vstep n1 [hp0, hp1, hp2, hp3, hp4, hp5, hp6, hp7, hp8, nc0_eq32, nc1_eq32, nc2_eq32, nc3_eq32]
  vstep n2 [hp0, hp1, hp2, hp3, hp4, hp5, hp6, hp7, hp8, nc0_eq32, nc1_eq32, nc2_eq32, nc3_eq32]
  vstep n3 [hp0, hp1, hp2, hp3, hp4, hp5, hp6, hp7, hp8, nc0_eq32, nc1_eq32, nc2_eq32, nc3_eq32]
  vstep n4 [hp0, hp1, hp2, hp3, hp4, hp5, hp6, hp7, hp8, nc0_eq32, nc1_eq32, nc2_eq32, nc3_eq32]
  vstep y1 [hp0, hp1, hp2, hp3, hp4, hp5, hp6, hp7, hp8, nc0_eq32, nc1_eq32, nc2_eq32, nc3_eq32]
  vstep n5 [hp0, hp1, hp2, hp3, hp4, hp5, hp6, hp7, hp8, nc0_eq32, nc1_eq32, nc2_eq32, nc3_eq32]
  vstep y2 [hp0, hp1, hp2, hp3, hp4, hp5, hp6, hp7, hp8, nc0_eq32, nc1_eq32, nc2_eq32, nc3_eq32]
  vstep n6 [hp0, hp1, hp2, hp3, hp4, hp5, hp6, hp7, hp8, nc0_eq32, nc1_eq32, nc2_eq32, nc3_eq32]
  vstep y3 [hp0, hp1, hp2, hp3, hp4, hp5, hp6, hp7, hp8, nc0_eq32, nc1_eq32, nc2_eq32, nc3_eq32]
  vstep n7 [hp0, hp1, hp2, hp3, hp4, hp5, hp6, hp7, hp8, nc0_eq32, nc1_eq32, nc2_eq32, nc3_eq32]
  vstep y4 [hp0, hp1, hp2, hp3, hp4, hp5, hp6, hp7, hp8, nc0_eq32, nc1_eq32, nc2_eq32, nc3_eq32]
  vstep y5 [hp0, hp1, hp2, hp3, hp4, hp5, hp6, hp7, hp8, nc0_eq32, nc1_eq32, nc2_eq32, nc3_eq32]
  steps 1 [hp0, hp1, hp2, hp3, hp4, hp5, hp6, hp7, hp8, nc0_eq32, nc1_eq32, nc2_eq32, nc3_eq32]
  vstep ov [hp0, hp1, hp2, hp3, hp4, hp5, hp6, hp7, hp8, nc0_eq32, nc1_eq32, nc2_eq32, nc3_eq32]
  steps 1 [hp0, hp1, hp2, hp3, hp4, hp5, hp6, hp7, hp8, nc0_eq32, nc1_eq32, nc2_eq32, nc3_eq32]
  vstep q0 [hp0, hp1, hp2, hp3, hp4, hp5, hp6, hp7, hp8, nc0_eq32, nc1_eq32, nc2_eq32, nc3_eq32]
  vstep u1 [hp0, hp1, hp2, hp3, hp4, hp5, hp6, hp7, hp8, nc0_eq32, nc1_eq32, nc2_eq32, nc3_eq32]
  steps 1 [hp0, hp1, hp2, hp3, hp4, hp5, hp6, hp7, hp8, nc0_eq32, nc1_eq32, nc2_eq32, nc3_eq32]
  vstep q1 [hp0, hp1, hp2, hp3, hp4, hp5, hp6, hp7, hp8, nc0_eq32, nc1_eq32, nc2_eq32, nc3_eq32]
  vstep u2 [hp0, hp1, hp2, hp3, hp4, hp5, hp6, hp7, hp8, nc0_eq32, nc1_eq32, nc2_eq32, nc3_eq32]
  steps 1 [hp0, hp1, hp2, hp3, hp4, hp5, hp6, hp7, hp8, nc0_eq32, nc1_eq32, nc2_eq32, nc3_eq32]
  vstep q2 [hp0, hp1, hp2, hp3, hp4, hp5, hp6, hp7, hp8, nc0_eq32, nc1_eq32, nc2_eq32, nc3_eq32]
  vstep u3 [hp0, hp1, hp2, hp3, hp4, hp5, hp6, hp7, hp8, nc0_eq32, nc1_eq32, nc2_eq32, nc3_eq32]
  steps 1 [hp0, hp1, hp2, hp3, hp4, hp5, hp6, hp7, hp8, nc0_eq32, nc1_eq32, nc2_eq32, nc3_eq32]
  vstep q3 [hp0, hp1, hp2, hp3, hp4, hp5, hp6, hp7, hp8, nc0_eq32, nc1_eq32, nc2_eq32, nc3_eq32]
  vstep u4 [hp0, hp1, hp2, hp3, hp4, hp5, hp6, hp7, hp8, nc0_eq32, nc1_eq32, nc2_eq32, nc3_eq32]
  steps 1 [hp0, hp1, hp2, hp3, hp4, hp5, hp6, hp7, hp8, nc0_eq32, nc1_eq32, nc2_eq32, nc3_eq32]
  vstep q4 [hp0, hp1, hp2, hp3, hp4, hp5, hp6, hp7, hp8, nc0_eq32, nc1_eq32, nc2_eq32, nc3_eq32]
  vstep u5 [hp0, hp1, hp2, hp3, hp4, hp5, hp6, hp7, hp8, nc0_eq32, nc1_eq32, nc2_eq32, nc3_eq32]
  steps 1 [hp0, hp1, hp2, hp3, hp4, hp5, hp6, hp7, hp8, nc0_eq32, nc1_eq32, nc2_eq32, nc3_eq32]
  vstep q5 [hp0, hp1, hp2, hp3, hp4, hp5, hp6, hp7, hp8, nc0_eq32, nc1_eq32, nc2_eq32, nc3_eq32]
  vstep u6 [hp0, hp1, hp2, hp3, hp4, hp5, hp6, hp7, hp8, nc0_eq32, nc1_eq32, nc2_eq32, nc3_eq32]
  steps 1 [hp0, hp1, hp2, hp3, hp4, hp5, hp6, hp7, hp8, nc0_eq32, nc1_eq32, nc2_eq32, nc3_eq32]
  vstep q6 [hp0, hp1, hp2, hp3, hp4, hp5, hp6, hp7, hp8, nc0_eq32, nc1_eq32, nc2_eq32, nc3_eq32]
  vstep u7 [hp0, hp1, hp2, hp3, hp4, hp5, hp6, hp7, hp8, nc0_eq32, nc1_eq32, nc2_eq32, nc3_eq32]
  steps 1 [hp0, hp1, hp2, hp3, hp4, hp5, hp6, hp7, hp8, nc0_eq32, nc1_eq32, nc2_eq32, nc3_eq32]
  vstep q7 [hp0, hp1, hp2, hp3, hp4, hp5, hp6, hp7, hp8, nc0_eq32, nc1_eq32, nc2_eq32, nc3_eq32]
  steps 1 [hp0, hp1, hp2, hp3, hp4, hp5, hp6, hp7, hp8, nc0_eq32, nc1_eq32, nc2_eq32, nc3_eq32]
  reads [RedPost]
  obtain ⟨hr0, hr1, hr2, hr3, hr4, hr5, hr6, hr7, hcc, hVe⟩ := red_stage3_arith32 p0 p1 p2 p3 p4 p5 p6 p7 p8 r0 t1 r1 t2 r2 t3 r3 t4 r4 t5 r5 t6 r6 t7 r7 cc
    P0 P1 P2 P3 P4 P5 P6 P7 P8
    r0_def t1_def r1_def t2_def r2_def t3_def r3_def t4_def r4_def t5_def r5_def t6_def r6_def t7_def r7_def cc_def
  have yes_def := check_overflow_spec32 r0 r1 r2 r3 r4 r5 r6 r7 n1 n2 n3 n4 y1 n5 y2 n6 y3 n7 y4 y5 hr0 hr1 hr2 hr3 hr4 hr5 hr6 hr7 n1_def n2_def n3_def n4_def y1_def n5_def y2_def n6_def y3_def n7_def y4_def y5_def
  have hPlt : val8x32 p0 p1 p2 p3 p4 p5 p6 p7 < 2 ^ 256 := val8x32_lt P0 P1 P2 P3 P4 P5 P6 P7
  have hlt : val8x32 r0 r1 r2 r3 r4 r5 r6 r7 + cc * 2 ^ 256 < 2 * N := by
    rw [hVe]; clear * - hPlt P8; simp only [N]; omega
  obtain ⟨_, _, hFe, hFlt, hq0, hq1, hq2, hq3, hq4, hq5, hq6, hq7⟩ := final_reduce_arith32 r0 r1 r2 r3 r4 r5 r6 r7 cc y5 ov q0 u1 q1 u2 q2 u3 q3 u4 q4 u5 q5 u6 q6 u7 q7
    hr0 hr1 hr2 hr3 hr4 hr5 hr6 hr7 hcc hlt yes_def ov_def q0_def u1_def q1_def u2_def q2_def u3_def q3_def u4_def q4_def u5_def q5_def u6_def q6_def u7_def q7_def
  refine ⟨?_, hq0, hq1, hq2, hq3, hq4, hq5, hq6, hq7⟩
  refine eq_mod_of_eq_add_mul (q := q + p8 + ov) ?_ hFlt
  rw [hVe] at hFe
  clear * - hFe hq
  generalize val8x32 q0 q1 q2 q3 q4 q5 q6 q7 = Q at *
  generalize val8x32 p0 p1 p2 p3 p4 p5 p6 p7 = P at *
  simp only [N] at hFe hq ⊢
  omega

set_option maxRecDepth 100000 in
set_option maxHeartbeats 4000000 in
theorem scalar_reduce_512_run_p7 (env : Env) (l0 l1 l2 l3 l4 l5 l6 l7 l8 l9 l10 l11 l12 l13 l14 l15 v : Nat) (v7_0 v7_1 v7_2 v7_3 v7_4 v7_5 v7_6 v7_7 v7_8 v7_9 v7_10 v7_11 v7_12 v7_13 v7_14 v7_15 v7_16 v7_17 v7_18 v7_19 v7_20 : Nat) (L0 : l0 < 2 ^ 32) (L1 : l1 < 2 ^ 32) (L2 : l2 < 2 ^ 32) (L3 : l3 < 2 ^ 32) (L4 : l4 < 2 ^ 32) (L5 : l5 < 2 ^ 32) (L6 : l6 < 2 ^ 32) (L7 : l7 < 2 ^ 32) (L8 : l8 < 2 ^ 32) (L9 : l9 < 2 ^ 32) (L10 : l10 < 2 ^ 32) (L11 : l11 < 2 ^ 32) (L12 : l12 < 2 ^ 32) (L13 : l13 < 2 ^ 32) (L14 : l14 < 2 ^ 32) (L15 : l15 < 2 ^ 32) (hv : val16x32 l0 l1 l2 l3 l4 l5 l6 l7 l8 l9 l10 l11 l12 l13 l14 l15 = v) 
    (h_m6_0 : env.get "m6" 0 = v7_0)
    (h_m7_0 : env.get "m7" 0 = v7_1)
    (h_m10_0 : env.get "m10" 0 = v7_2)
    (h_m11_0 : env.get "m11" 0 = v7_3)
    (h_m12_0 : env.get "m12" 0 = v7_4)
    (h_p0_0 : env.get "p0" 0 = v7_5)
    (h_p1_0 : env.get "p1" 0 = v7_6)
    (h_p2_0 : env.get "p2" 0 = v7_7)
    (h_p3_0 : env.get "p3" 0 = v7_8)
    (h_p4_0 : env.get "p4" 0 = v7_9)
    (h_p5_0 : env.get "p5" 0 = v7_10)
    (L_v7_0 : v7_0 < 2 ^ 32)
    (L_v7_1 : v7_1 < 2 ^ 32)
    (L_v7_2 : v7_2 < 2 ^ 32)
    (L_v7_3 : v7_3 < 2 ^ 32)
    (L_v7_4 : v7_4 < 2 ^ 32)
    (U_v7_4 : v7_4 ≤ 1)
    (L_v7_5 : v7_5 < 2 ^ 32)
    (L_v7_6 : v7_6 < 2 ^ 32)
    (L_v7_7 : v7_7 < 2 ^ 32)
    (L_v7_8 : v7_8 < 2 ^ 32)
    (L_v7_9 : v7_9 < 2 ^ 32)
    (L_v7_10 : v7_10 < 2 ^ 32)
    (L_v7_11 : v7_11 < 2 ^ 32)
    (L_v7_12 : v7_12 < 2 ^ 32)
    (hc0 : env.get "c0" 0 = v7_11)
    (hc1 : env.get "c1" 0 = v7_12)
    (hc2 : env.get "c2" 0 = 0)
    (hB : v7_11 + v7_12 * 2 ^ 32 + 0 * 2 ^ 64 ≤ 2517140191)
    (hcum : v7_5 + v7_6 * 2 ^ 32 + v7_7 * 2 ^ 64 + v7_8 * 2 ^ 96 + v7_9 * 2 ^ 128 + v7_10 * 2 ^ 160 + (v7_11 + v7_12 * 2 ^ 32) * 2 ^ 192 = v7_13 + (v7_14 * 801750719) + (v7_15 + v7_16 * 801750719 + v7_14 * 1076732275) * 2 ^ 32 + (v7_17 + v7_2 * 801750719 + v7_16 * 1076732275 + v7_14 * 1354194884) * 2 ^ 64 + (v7_18 + v7_3 * 801750719 + v7_2 * 1076732275 + v7_16 * 1354194884 + v7_14 * 1162945305) * 2 ^ 96 + (v7_19 + v7_4 * 801750719 + v7_3 * 1076732275 + v7_2 * 1354194884 + v7_16 * 1162945305 + v7_14) * 2 ^ 128 + (v7_20 + v7_4 * 1076732275 + v7_3 * 1354194884 + v7_2 * 1162945305 + v7_16) * 2 ^ 160)
    (hS0 : v7_13 + v7_15 * 2 ^ 32 + v7_17 * 2 ^ 64 + v7_18 * 2 ^ 96 + v7_19 * 2 ^ 128 + v7_20 * 2 ^ 160 + v7_0 * 2 ^ 192 + v7_1 * 2 ^ 224 + v7_14 * 2 ^ 256 + v7_16 * 2 ^ 288 + v7_2 * 2 ^ 320 + v7_3 * 2 ^ 352 + v7_4 * 2 ^ 384 = l0 + (l8 * 801750719) + (l1 + l9 * 801750719 + l8 * 1076732275) * 2 ^ 32 + (l2 + l10 * 801750719 + l9 * 1076732275 + l8 * 1354194884) * 2 ^ 64 + (l3 + l11 * 801750719 + l10 * 1076732275 + l9 * 1354194884 + l8 * 1162945305) * 2 ^ 96 + (l4 + l12 * 801750719 + l11 * 1076732275 + l10 * 1354194884 + l9 * 1162945305 + l8) * 2 ^ 128 + (l5 + l13 * 801750719 + l12 * 1076732275 + l11 * 1354194884 + l10 * 1162945305 + l9) * 2 ^ 160 + (l6 + l14 * 801750719 + l13 * 1076732275 + l12 * 1354194884 + l11 * 1162945305 + l10) * 2 ^ 192 + (l7 + l15 * 801750719 + l14 * 1076732275 + l13 * 1354194884 + l12 * 1162945305 + l11) * 2 ^ 224 + (l15 * 1076732275 + l14 * 1354194884 + l13 * 1162945305 + l12) * 2 ^ 256 + (l15 * 1354194884 + l14 * 1162945305 + l13) * 2 ^ 288 + (l15 * 1162945305 + l14) * 2 ^ 320 + (l15) * 2 ^ 352) :
    RedPost v (runR env (Gen.scalar8x32.scalar_reduce_512.body.drop 507)) := by
  simp only [Gen.scalar8x32.scalar_reduce_512, List.drop_succ_cons, List.drop_zero]
  refine sumadd_rule accS "m6" 0 v7_11 v7_12 0 v7_0 _ (by decide) (by decide) (Reads_var _) (by decide) hc0 hc1 hc2 (transportF (Frame.refl accS env) (by decide) h_m6_0) L_v7_11 L_v7_12 L_v7_0 hB (by decide) ?_
  intro es1 s1_0 s1_1 s1_2 s1_F s1_c0 s1_c1 s1_c2 s1_lt0 s1_lt1 s1_lt2 s1_A s1_B
  replace s1_A := s1_A.trans (z3_xy0 _ _ _)
  conv at s1_B => rhs; simp only [Nat.reducePow, Nat.reduceSub, Nat.reduceMul, Nat.reduceAdd]
  clear hc0 hc1 hc2 hB L_v7_11 L_v7_12
  refine muladd_rule accS s1_0 s1_1 s1_2 v7_4 1354194884 1 1354194884 _ (by decide) (by decide) s1_c0 s1_c1 s1_c2 (ev_var_of s1_F (by decide) h_m12_0) (ev_nc2 _) s1_lt0 s1_lt1 U_v7_4 (Nat.le_refl _) (by decide) (by decide) s1_B (by decide) ?_
  intro es2 s2_0 s2_1 s2_2 s2_F s2_c0 s2_c1 s2_c2 s2_lt0 s2_lt1 s2_lt2 s2_A s2_B
  conv at s2_B => rhs; simp only [Nat.reducePow, Nat.reduceSub, Nat.reduceMul, Nat.reduceAdd]
  have Fs2 := s1_F.trans s2_F
  clear s1_F s2_F s1_c0 s1_c1 s1_c2 s1_B s1_lt0 s1_lt1 s1_lt2
  clear es1
  refine muladd_rule accS s2_0 s2_1 s2_2 v7_3 1162945305 4294967295 1162945305 _ (by decide) (by decide) s2_c0 s2_c1 s2_c2 (ev_var_of Fs2 (by decide) h_m11_0) (ev_nc3 _) s2_lt0 s2_lt1 (le_of_lt32 L_v7_3) (Nat.le_refl _) (by decide) (by decide) s2_B (by decide) ?_
  intro es3 s3_0 s3_1 s3_2 s3_F s3_c0 s3_c1 s3_c2 s3_lt0 s3_lt1 s3_lt2 s3_A s3_B
  conv at s3_B => rhs; simp only [Nat.reducePow, Nat.reduceSub, Nat.reduceMul, Nat.reduceAdd]
  have Fs3 := Fs2.trans s3_F
  clear Fs2 s3_F s2_c0 s2_c1 s2_c2 s2_B s2_lt0 s2_lt1 s2_lt2
  clear es2
  refine sumadd_rule accS "m10" 0 s3_0 s3_1 s3_2 v7_2 _ (by decide) (by decide) (Reads_var _) (by decide) s3_c0 s3_c1 s3_c2 (transportF Fs3 (by decide) h_m10_0) s3_lt0 s3_lt1 L_v7_2 s3_B (by decide) ?_
  intro es4 s4_0 s4_1 s4_2 s4_F s4_c0 s4_c1 s4_c2 s4_lt0 s4_lt1 s4_lt2 s4_A s4_B
  conv at s4_B => rhs; simp only [Nat.reducePow, Nat.reduceSub, Nat.reduceMul, Nat.reduceAdd]
  have Fs4 := Fs3.trans s4_F
  clear Fs3 s4_F s3_c0 s3_c1 s3_c2 s3_B s3_lt0 s3_lt1 s3_lt2
  clear es3
  have hcols1 : s4_0 + (s4_1 + s4_2 * 2 ^ 32) * 2 ^ 32 = v7_11 + v7_12 * 2 ^ 32 + (v7_0 + v7_4 * 1354194884 + v7_3 * 1162945305 + v7_2) := (reshape3 s4_0 s4_1 s4_2).trans (colsum4 s1_A s2_A s3_A s4_A)
  clear s1_A s2_A s3_A s4_A
  have cums1 := combine 224 hcum hcols1 rfl
  clear hcum hcols1
  refine extract_rule accS s4_0 s4_1 s4_2 (by decide) (by decide) s4_c0 s4_c1 s4_c2 ?_
  intro es5 s5_Fx s5_o s5_c0 s5_c1 s5_c2
  have fs1_m7_0 := transport s5_Fx Fs4 (by decide) (by decide) h_m7_0
  have fs1_m11_0 := transport s5_Fx Fs4 (by decide) (by decide) h_m11_0
  have fs1_m12_0 := transport s5_Fx Fs4 (by decide) (by decide) h_m12_0
  have fs1_p0_0 := transport s5_Fx Fs4 (by decide) (by decide) h_p0_0
  have fs1_p1_0 := transport s5_Fx Fs4 (by decide) (by decide) h_p1_0
  have fs1_p2_0 := transport s5_Fx Fs4 (by decide) (by decide) h_p2_0
  have fs1_p3_0 := transport s5_Fx Fs4 (by decide) (by decide) h_p3_0
  have fs1_p4_0 := transport s5_Fx Fs4 (by decide) (by decide) h_p4_0
  have fs1_p5_0 := transport s5_Fx Fs4 (by decide) (by decide) h_p5_0
  have s5_B := extract_bound32 s4_B
  conv at s5_B => rhs; simp only [Nat.reducePow, Nat.reduceDiv]
  clear h_m6_0 h_m7_0 h_m10_0 h_m11_0 h_m12_0 h_p0_0 h_p1_0 h_p2_0 h_p3_0 h_p4_0 h_p5_0 s4_c0 s4_c1 s4_c2 s4_B s5_Fx Fs4
  clear es4 env
  refine sumadd_fast_rule accS "c2" "m7" 0 s4_1 s4_2 0 v7_1 _ (by decide) (by decide) (Reads_var _) (by decide) s5_c0 s5_c1 s5_c2 (transportF (Frame.refl accS es5) (by decide) fs1_m7_0) s4_lt1 s4_lt2 L_v7_1 (acc_drop2 s5_B) (by decide) ?_
  intro es6 s6_0 s6_1 s6_F s6_c0 s6_c1 s6_c2 s6_lt0 s6_lt1 s6_A s6_B
  conv at s6_B => rhs; simp only [Nat.reducePow, Nat.reduceSub, Nat.reduceMul, Nat.reduceAdd]
  clear s5_c0 s5_c1 s5_c2 s5_B s4_lt1 s4_lt2
  refine muladd_fast_rule accS "c2" s6_0 s6_1 0 v7_4 1162945305 1 1162945305 _ (by decide) (by decide) s6_c0 s6_c1 s6_c2 (ev_var_of s6_F (by decide) fs1_m12_0) (ev_nc3 _) s6_lt0 s6_lt1 U_v7_4 (Nat.le_refl _) (by decide) (by decide) s6_B (by decide) ?_
  intro es7 s7_0 s7_1 s7_F s7_c0 s7_c1 s7_c2 s7_lt0 s7_lt1 s7_A s7_B
  conv at s7_B => rhs; simp only [Nat.reducePow, Nat.reduceSub, Nat.reduceMul, Nat.reduceAdd]
  have Fs7 := s6_F.trans s7_F
  clear s6_F s7_F s6_c0 s6_c1 s6_c2 s6_B s6_lt0 s6_lt1
  clear es6
  refine sumadd_fast_rule accS "c2" "m11" 0 s7_0 s7_1 0 v7_3 _ (by decide) (by decide) (Reads_var _) (by decide) s7_c0 s7_c1 s7_c2 (transportF Fs7 (by decide) fs1_m11_0) s7_lt0 s7_lt1 L_v7_3 s7_B (by decide) ?_
  intro es8 s8_0 s8_1 s8_F s8_c0 s8_c1 s8_c2 s8_lt0 s8_lt1 s8_A s8_B
  conv at s8_B => rhs; simp only [Nat.reducePow, Nat.reduceSub, Nat.reduceMul, Nat.reduceAdd]
  have Fs8 := Fs7.trans s8_F
  clear Fs7 s8_F s7_c0 s7_c1 s7_c2 s7_B s7_lt0 s7_lt1
  clear es7
  have hcols2 : s8_0 + s8_1 * 2 ^ 32 = s4_1 + s4_2 * 2 ^ 32 + (v7_1 + v7_4 * 1162945305 + v7_3) := colsum3 s6_A s7_A s8_A
  clear s6_A s7_A s8_A
  have cums2 := combine 256 cums1 hcols2 rfl
  clear cums1 hcols2
  refine extract_fast_rule accS "c2" s8_0 s8_1 0 (by decide) (by decide) s8_c0 s8_c1 s8_c2 ?_
  intro es9 s9_Fx s9_o s9_c0 s9_c1 s9_c2
  have fs2_m12_0 := transport s9_Fx Fs8 (by decide) (by decide) fs1_m12_0
  have fs2_p0_0 := transport s9_Fx Fs8 (by decide) (by decide) fs1_p0_0
  have fs2_p1_0 := transport s9_Fx Fs8 (by decide) (by decide) fs1_p1_0
  have fs2_p2_0 := transport s9_Fx Fs8 (by decide) (by decide) fs1_p2_0
  have fs2_p3_0 := transport s9_Fx Fs8 (by decide) (by decide) fs1_p3_0
  have fs2_p4_0 := transport s9_Fx Fs8 (by decide) (by decide) fs1_p4_0
  have fs2_p5_0 := transport s9_Fx Fs8 (by decide) (by decide) fs1_p5_0
  have fs2_p6_0 := transport s9_Fx Fs8 (by decide) (by decide) s5_o
  have s9_B := extract_bound32' s8_B
  conv at s9_B => rhs; simp only [Nat.reducePow, Nat.reduceDiv]
  clear fs1_m7_0 fs1_m11_0 fs1_m12_0 fs1_p0_0 fs1_p1_0 fs1_p2_0 fs1_p3_0 fs1_p4_0 fs1_p5_0 s5_o s8_c0 s8_c1 s8_c2 s8_B s9_Fx Fs8
  clear es8 es5
  have cums3b := combine_add v7_4 cums2
  clear cums2
  refine assign_rule accS (binWrap .add 32 s8_1 v7_4) (by rw [ev_bin, (ev_var _ _).trans s9_c0, (ev_var_of (Frame.refl accS es9) (by decide) fs2_m12_0)]) ?_
  intro es10 s10_Fx s10_o
  have s10_e : binWrap .add 32 s8_1 v7_4 = s8_1 + v7_4 := add32_small (top_le2 s9_B) U_v7_4 (by decide)
  rw [s10_e] at s10_o
  have s10_U : s8_1 + v7_4 ≤ 3 := Nat.add_le_add (top_le2 s9_B) U_v7_4
  clear s10_e
  have fs3_p0_0 := transport s10_Fx (Frame.refl accS es9) (by decide) (by decide) fs2_p0_0
  have fs3_p1_0 := transport s10_Fx (Frame.refl accS es9) (by decide) (by decide) fs2_p1_0
  have fs3_p2_0 := transport s10_Fx (Frame.refl accS es9) (by decide) (by decide) fs2_p2_0
  have fs3_p3_0 := transport s10_Fx (Frame.refl accS es9) (by decide) (by decide) fs2_p3_0
  have fs3_p4_0 := transport s10_Fx (Frame.refl accS es9) (by decide) (by decide) fs2_p4_0
  have fs3_p5_0 := transport s10_Fx (Frame.refl accS es9) (by decide) (by decide) fs2_p5_0
  have fs3_p6_0 := transport s10_Fx (Frame.refl accS es9) (by decide) (by decide) fs2_p6_0
  have fs3_p7_0 := transport s10_Fx (Frame.refl accS es9) (by decide) (by decide) s9_o
  clear fs2_m12_0 fs2_p0_0 fs2_p1_0 fs2_p2_0 fs2_p3_0 fs2_p4_0 fs2_p5_0 fs2_p6_0 s9_o s10_Fx s9_c0 s9_c1 s9_c2 s9_B
  clear es9
  have hq := red_combine32 l0 l1 l2 l3 l4 l5 l6 l7 l8 l9 l10 l11 l12 l13 l14 l15 v7_13 v7_15 v7_17 v7_18 v7_19 v7_20 v7_0 v7_1 v7_14 v7_16 v7_2 v7_3 v7_4 v7_5 v7_6 v7_7 v7_8 v7_9 v7_10 s4_0 s8_0 (s8_1 + v7_4) v hS0 cums3b hv
  exact red_final_r es10 v7_5 v7_6 v7_7 v7_8 v7_9 v7_10 s4_0 s8_0 (s8_1 + v7_4) (val8x32 l8 l9 l10 l11 l12 l13 l14 l15 + (v7_14 + v7_16 * 2 ^ 32 + v7_2 * 2 ^ 64 + v7_3 * 2 ^ 96 + v7_4 * 2 ^ 128)) v fs3_p0_0 fs3_p1_0 fs3_p2_0 fs3_p3_0 fs3_p4_0 fs3_p5_0 fs3_p6_0 fs3_p7_0 s10_o L_v7_5 L_v7_6 L_v7_7 L_v7_8 L_v7_9 L_v7_10 s4_lt0 s8_lt0 s10_U hq

set_option maxRecDepth 100000 in
set_option maxHeartbeats 4000000 in
theorem scalar_reduce_512_run_p6 (env : Env) (l0 l1 l2 l3 l4 l5 l6 l7 l8 l9 l10 l11 l12 l13 l14 l15 v : Nat) (v6_0 v6_1 v6_2 v6_3 v6_4 v6_5 v6_6 v6_7 v6_8 v6_9 v6_10 v6_11 v6_12 v6_13 v6_14 v6_15 v6_16 v6_17 v6_18 : Nat) (L0 : l0 < 2 ^ 32) (L1 : l1 < 2 ^ 32) (L2 : l2 < 2 ^ 32) (L3 : l3 < 2 ^ 32) (L4 : l4 < 2 ^ 32) (L5 : l5 < 2 ^ 32) (L6 : l6 < 2 ^ 32) (L7 : l7 < 2 ^ 32) (L8 : l8 < 2 ^ 32) (L9 : l9 < 2 ^ 32) (L10 : l10 < 2 ^ 32) (L11 : l11 < 2 ^ 32) (L12 : l12 < 2 ^ 32) (L13 : l13 < 2 ^ 32) (L14 : l14 < 2 ^ 32) (L15 : l15 < 2 ^ 32) (hv : val16x32 l0 l1 l2 l3 l4 l5 l6 l7 l8 l9 l10 l11 l12 l13 l14 l15 = v) 
    (h_m4_0 : env.get "m4" 0 = v6_0)
    (h_m5_0 : env.get "m5" 0 = v6_1)
    (h_m6_0 : env.get "m6" 0 = v6_2)
    (h_m7_0 : env.get "m7" 0 = v6_3)
    (h_m8_0 : env.get "m8" 0 = v6_4)
    (h_m9_0 : env.get "m9" 0 = v6_5)
    (h_m10_0 : env.get "m10" 0 = v6_6)
    (h_m11_0 : env.get "m11" 0 = v6_7)
    (h_m12_0 : env.get "m12" 0 = v6_8)
    (h_p0_0 : env.get "p0" 0 = v6_9)
    (h_p1_0 : env.get "p1" 0 = v6_10)
    (h_p2_0 : env.get "p2" 0 = v6_11)
    (h_p3_0 : env.get "p3" 0 = v6_12)
    (L_v6_0 : v6_0 < 2 ^ 32)
    (L_v6_1 : v6_1 < 2 ^ 32)
    (L_v6_2 : v6_2 < 2 ^ 32)
    (L_v6_3 : v6_3 < 2 ^ 32)
    (L_v6_4 : v6_4 < 2 ^ 32)
    (L_v6_5 : v6_5 < 2 ^ 32)
    (L_v6_6 : v6_6 < 2 ^ 32)
    (L_v6_7 : v6_7 < 2 ^ 32)
    (L_v6_8 : v6_8 < 2 ^ 32)
    (U_v6_8 : v6_8 ≤ 1)
    (L_v6_9 : v6_9 < 2 ^ 32)
    (L_v6_10 : v6_10 < 2 ^ 32)
    (L_v6_11 : v6_11 < 2 ^ 32)
    (L_v6_12 : v6_12 < 2 ^ 32)
    (L_v6_13 : v6_13 < 2 ^ 32)
    (L_v6_14 : v6_14 < 2 ^ 32)
    (hc0 : env.get "c0" 0 = v6_13)
    (hc1 : env.get "c1" 0 = v6_14)
    (hc2 : env.get "c2" 0 = 0)
    (hB : v6_13 + v6_14 * 2 ^ 32 + 0 * 2 ^ 64 ≤ 4395623183)
    (hcum : v6_9 + v6_10 * 2 ^ 32 + v6_11 * 2 ^ 64 + v6_12 * 2 ^ 96 + (v6_13 + v6_14 * 2 ^ 32) * 2 ^ 128 = v6_15 + (v6_4 * 801750719) + (v6_16 + v6_5 * 801750719 + v6_4 * 1076732275) * 2 ^ 32 + (v6_17 + v6_6 * 801750719 + v6_5 * 1076732275 + v6_4 * 1354194884) * 2 ^ 64 + (v6_18 + v6_7 * 801750719 + v6_6 * 1076732275 + v6_5 * 1354194884 + v6_4 * 1162945305) * 2 ^ 96)
    (hS0 : v6_15 + v6_16 * 2 ^ 32 + v6_17 * 2 ^ 64 + v6_18 * 2 ^ 96 + v6_0 * 2 ^ 128 + v6_1 * 2 ^ 160 + v6_2 * 2 ^ 192 + v6_3 * 2 ^ 224 + v6_4 * 2 ^ 256 + v6_5 * 2 ^ 288 + v6_6 * 2 ^ 320 + v6_7 * 2 ^ 352 + v6_8 * 2 ^ 384 = l0 + (l8 * 801750719) + (l1 + l9 * 801750719 + l8 * 1076732275) * 2 ^ 32 + (l2 + l10 * 801750719 + l9 * 1076732275 + l8 * 1354194884) * 2 ^ 64 + (l3 + l11 * 801750719 + l10 * 1076732275 + l9 * 1354194884 + l8 * 1162945305) * 2 ^ 96 + (l4 + l12 * 801750719 + l11 * 1076732275 + l10 * 1354194884 + l9 * 1162945305 + l8) * 2 ^ 128 + (l5 + l13 * 801750719 + l12 * 1076732275 + l11 * 1354194884 + l10 * 1162945305 + l9) * 2 ^ 160 + (l6 + l14 * 801750719 + l13 * 1076732275 + l12 * 1354194884 + l11 * 1162945305 + l10) * 2 ^ 192 + (l7 + l15 * 801750719 + l14 * 1076732275 + l13 * 1354194884 + l12 * 1162945305 + l11) * 2 ^ 224 + (l15 * 1076732275 + l14 * 1354194884 + l13 * 1162945305 + l12) * 2 ^ 256 + (l15 * 1354194884 + l14 * 1162945305 + l13) * 2 ^ 288 + (l15 * 1162945305 + l14) * 2 ^ 320 + (l15) * 2 ^ 352) :
    RedPost v (runR env (Gen.scalar8x32.scalar_reduce_512.body.drop 434)) := by
  simp only [Gen.scalar8x32.scalar_reduce_512, List.drop_succ_cons, List.drop_zero]
  refine sumadd_rule accS "m4" 0 v6_13 v6_14 0 v6_0 _ (by decide) (by decide) (Reads_var _) (by decide) hc0 hc1 hc2 (transportF (Frame.refl accS env) (by decide) h_m4_0) L_v6_13 L_v6_14 L_v6_0 hB (by decide) ?_
  intro es1 s1_0 s1_1 s1_2 s1_F s1_c0 s1_c1 s1_c2 s1_lt0 s1_lt1 s1_lt2 s1_A s1_B
  replace s1_A := s1_A.trans (z3_xy0 _ _ _)
  conv at s1_B => rhs; simp only [Nat.reducePow, Nat.reduceSub, Nat.reduceMul, Nat.reduceAdd]
  clear hc0 hc1 hc2 hB L_v6_13 L_v6_14
  refine muladd_rule accS s1_0 s1_1 s1_2 v6_8 801750719 1 801750719 _ (by decide) (by decide) s1_c0 s1_c1 s1_c2 (ev_var_of s1_F (by decide) h_m12_0) (ev_nc0 _) s1_lt0 s1_lt1 U_v6_8 (Nat.le_refl _) (by decide) (by decide) s1_B (by decide) ?_
  intro es2 s2_0 s2_1 s2_2 s2_F s2_c0 s2_c1 s2_c2 s2_lt0 s2_lt1 s2_lt2 s2_A s2_B
  conv at s2_B => rhs; simp only [Nat.reducePow, Nat.reduceSub, Nat.reduceMul, Nat.reduceAdd]
  have Fs2 := s1_F.trans s2_F
  clear s1_F s2_F s1_c0 s1_c1 s1_c2 s1_B s1_lt0 s1_lt1 s1_lt2
  clear es1
  refine muladd_rule accS s2_0 s2_1 s2_2 v6_7 1076732275 4294967295 1076732275 _ (by decide) (by decide) s2_c0 s2_c1 s2_c2 (ev_var_of Fs2 (by decide) h_m11_0) (ev_nc1 _) s2_lt0 s2_lt1 (le_of_lt32 L_v6_7) (Nat.le_refl _) (by decide) (by decide) s2_B (by decide) ?_
  intro es3 s3_0 s3_1 s3_2 s3_F s3_c0 s3_c1 s3_c2 s3_lt0 s3_lt1 s3_lt2 s3_A s3_B
  conv at s3_B => rhs; simp only [Nat.reducePow, Nat.reduceSub, Nat.reduceMul, Nat.reduceAdd]
  have Fs3 := Fs2.trans s3_F
  clear Fs2 s3_F s2_c0 s2_c1 s2_c2 s2_B s2_lt0 s2_lt1 s2_lt2
  clear es2
  refine muladd_rule accS s3_0 s3_1 s3_2 v6_6 1354194884 4294967295 1354194884 _ (by decide) (by decide) s3_c0 s3_c1 s3_c2 (ev_var_of Fs3 (by decide) h_m10_0) (ev_nc2 _) s3_lt0 s3_lt1 (le_of_lt32 L_v6_6) (Nat.le_refl _) (by decide) (by decide) s3_B (by decide) ?_
  intro es4 s4_0 s4_1 s4_2 s4_F s4_c0 s4_c1 s4_c2 s4_lt0 s4_lt1 s4_lt2 s4_A s4_B
  conv at s4_B => rhs; simp only [Nat.reducePow, Nat.reduceSub, Nat.reduceMul, Nat.reduceAdd]
  have Fs4 := Fs3.trans s4_F
  clear Fs3 s4_F s3_c0 s3_c1 s3_c2 s3_B s3_lt0 s3_lt1 s3_lt2
  clear es3
  refine muladd_rule accS s4_0 s4_1 s4_2 v6_5 1162945305 4294967295 1162945305 _ (by decide) (by decide) s4_c0 s4_c1 s4_c2 (ev_var_of Fs4 (by decide) h_m9_0) (ev_nc3 _) s4_lt0 s4_lt1 (le_of_lt32 L_v6_5) (Nat.le_refl _) (by decide) (by decide) s4_B (by decide) ?_
  intro es5 s5_0 s5_1 s5_2 s5_F s5_c0 s5_c1 s5_c2 s5_lt0 s5_lt1 s5_lt2 s5_A s5_B
  conv at s5_B => rhs; simp only [Nat.reducePow, Nat.reduceSub, Nat.reduceMul, Nat.reduceAdd]
  have Fs5 := Fs4.trans s5_F
  clear Fs4 s5_F s4_c0 s4_c1 s4_c2 s4_B s4_lt0 s4_lt1 s4_lt2
  clear es4
  refine sumadd_rule accS "m8" 0 s5_0 s5_1 s5_2 v6_4 _ (by decide) (by decide) (Reads_var _) (by decide) s5_c0 s5_c1 s5_c2 (transportF Fs5 (by decide) h_m8_0) s5_lt0 s5_lt1 L_v6_4 s5_B (by decide) ?_
  intro es6 s6_0 s6_1 s6_2 s6_F s6_c0 s6_c1 s6_c2 s6_lt0 s6_lt1 s6_lt2 s6_A s6_B
  conv at s6_B => rhs; simp only [Nat.reducePow, Nat.reduceSub, Nat.reduceMul, Nat.reduceAdd]
  have Fs6 := Fs5.trans s6_F
  clear Fs5 s6_F s5_c0 s5_c1 s5_c2 s5_B s5_lt0 s5_lt1 s5_lt2
  clear es5
  have hcols1 : s6_0 + (s6_1 + s6_2 * 2 ^ 32) * 2 ^ 32 = v6_13 + v6_14 * 2 ^ 32 + (v6_0 + v6_8 * 801750719 + v6_7 * 1076732275 + v6_6 * 1354194884 + v6_5 * 1162945305 + v6_4) := (reshape3 s6_0 s6_1 s6_2).trans (colsum6 s1_A s2_A s3_A s4_A s5_A s6_A)
  clear s1_A s2_A s3_A s4_A s5_A s6_A
  have cums1 := combine 160 hcum hcols1 rfl
  clear hcum hcols1
  refine extract_rule accS s6_0 s6_1 s6_2 (by decide) (by decide) s6_c0 s6_c1 s6_c2 ?_
  intro es7 s7_Fx s7_o s7_c0 s7_c1 s7_c2
  have fs1_m5_0 := transport s7_Fx Fs6 (by decide) (by decide) h_m5_0
  have fs1_m6_0 := transport s7_Fx Fs6 (by decide) (by decide) h_m6_0
  have fs1_m7_0 := transport s7_Fx Fs6 (by decide) (by decide) h_m7_0
  have fs1_m9_0 := transport s7_Fx Fs6 (by decide) (by decide) h_m9_0
  have fs1_m10_0 := transport s7_Fx Fs6 (by decide) (by decide) h_m10_0
  have fs1_m11_0 := transport s7_Fx Fs6 (by decide) (by decide) h_m11_0
  have fs1_m12_0 := transport s7_Fx Fs6 (by decide) (by decide) h_m12_0
  have fs1_p0_0 := transport s7_Fx Fs6 (by decide) (by decide) h_p0_0
  have fs1_p1_0 := transport s7_Fx Fs6 (by decide) (by decide) h_p1_0
  have fs1_p2_0 := transport s7_Fx Fs6 (by decide) (by decide) h_p2_0
  have fs1_p3_0 := transport s7_Fx Fs6 (by decide) (by decide) h_p3_0
  have s7_B := extract_bound32 s6_B
  conv at s7_B => rhs; simp only [Nat.reducePow, Nat.reduceDiv]
  clear h_m4_0 h_m5_0 h_m6_0 h_m7_0 h_m8_0 h_m9_0 h_m10_0 h_m11_0 h_m12_0 h_p0_0 h_p1_0 h_p2_0 h_p3_0 s6_c0 s6_c1 s6_c2 s6_B s7_Fx Fs6
  clear es6 env
  refine sumadd_rule accS "m5" 0 s6_1 s6_2 0 v6_1 _ (by decide) (by decide) (Reads_var _) (by decide) s7_c0 s7_c1 s7_c2 (transportF (Frame.refl accS es7) (by decide) fs1_m5_0) s6_lt1 s6_lt2 L_v6_1 s7_B (by decide) ?_
  intro es8 s8_0 s8_1 s8_2 s8_F s8_c0 s8_c1 s8_c2 s8_lt0 s8_lt1 s8_lt2 s8_A s8_B
  replace s8_A := s8_A.trans (z3_xy0 _ _ _)
  conv at s8_B => rhs; simp only [Nat.reducePow, Nat.reduceSub, Nat.reduceMul, Nat.reduceAdd]
  clear s7_c0 s7_c1 s7_c2 s7_B s6_lt1 s6_lt2
  refine muladd_rule accS s8_0 s8_1 s8_2 v6_8 1076732275 1 1076732275 _ (by decide) (by decide) s8_c0 s8_c1 s8_c2 (ev_var_of s8_F (by decide) fs1_m12_0) (ev_nc1 _) s8_lt0 s8_lt1 U_v6_8 (Nat.le_refl _) (by decide) (by decide) s8_B (by decide) ?_
  intro es9 s9_0 s9_1 s9_2 s9_F s9_c0 s9_c1 s9_c2 s9_lt0 s9_lt1 s9_lt2 s9_A s9_B
  conv at s9_B => rhs; simp only [Nat.reducePow, Nat.reduceSub, Nat.reduceMul, Nat.reduceAdd]
  have Fs9 := s8_F.trans s9_F
  clear s8_F s9_F s8_c0 s8_c1 s8_c2 s8_B s8_lt0 s8_lt1 s8_lt2
  clear es8
  refine muladd_rule accS s9_0 s9_1 s9_2 v6_7 1354194884 4294967295 1354194884 _ (by decide) (by decide) s9_c0 s9_c1 s9_c2 (ev_var_of Fs9 (by decide) fs1_m11_0) (ev_nc2 _) s9_lt0 s9_lt1 (le_of_lt32 L_v6_7) (Nat.le_refl _) (by decide) (by decide) s9_B (by decide) ?_
  intro es10 s10_0 s10_1 s10_2 s10_F s10_c0 s10_c1 s10_c2 s10_lt0 s10_lt1 s10_lt2 s10_A s10_B
  conv at s10_B => rhs; simp only [Nat.reducePow, Nat.reduceSub, Nat.reduceMul, Nat.reduceAdd]
  have Fs10 := Fs9.trans s10_F
  clear Fs9 s10_F s9_c0 s9_c1 s9_c2 s9_B s9_lt0 s9_lt1 s9_lt2
  clear es9
  refine muladd_rule accS s10_0 s10_1 s10_2 v6_6 1162945305 4294967295 1162945305 _ (by decide) (by decide) s10_c0 s10_c1 s10_c2 (ev_var_of Fs10 (by decide) fs1_m10_0) (ev_nc3 _) s10_lt0 s10_lt1 (le_of_lt32 L_v6_6) (Nat.le_refl _) (by decide) (by decide) s10_B (by decide) ?_
  intro es11 s11_0 s11_1 s11_2 s11_F s11_c0 s11_c1 s11_c2 s11_lt0 s11_lt1 s11_lt2 s11_A s11_B
  conv at s11_B => rhs; simp only [Nat.reducePow, Nat.reduceSub, Nat.reduceMul, Nat.reduceAdd]
  have Fs11 := Fs10.trans s11_F
  clear Fs10 s11_F s10_c0 s10_c1 s10_c2 s10_B s10_lt0 s10_lt1 s10_lt2
  clear es10
  refine sumadd_rule accS "m9" 0 s11_0 s11_1 s11_2 v6_5 _ (by decide) (by decide) (Reads_var _) (by decide) s11_c0 s11_c1 s11_c2 (transportF Fs11 (by decide) fs1_m9_0) s11_lt0 s11_lt1 L_v6_5 s11_B (by decide) ?_
  intro es12 s12_0 s12_1 s12_2 s12_F s12_c0 s12_c1 s12_c2 s12_lt0 s12_lt1 s12_lt2 s12_A s12_B
  conv at s12_B => rhs; simp only [Nat.reducePow, Nat.reduceSub, Nat.reduceMul, Nat.reduceAdd]
  have Fs12 := Fs11.trans s12_F
  clear Fs11 s12_F s11_c0 s11_c1 s11_c2 s11_B s11_lt0 s11_lt1 s11_lt2
  clear es11
  have hcols2 : s12_0 + (s12_1 + s12_2 * 2 ^ 32) * 2 ^ 32 = s6_1 + s6_2 * 2 ^ 32 + (v6_1 + v6_8 * 1076732275 + v6_7 * 1354194884 + v6_6 * 1162945305 + v6_5) := (reshape3 s12_0 s12_1 s12_2).trans (colsum5 s8_A s9_A s10_A s11_A s12_A)
  clear s8_A s9_A s10_A s11_A s12_A
  have cums2 := combine 192 cums1 hcols2 rfl
  clear cums1 hcols2
  refine extract_rule accS s12_0 s12_1 s12_2 (by decide) (by decide) s12_c0 s12_c1 s12_c2 ?_
  intro es13 s13_Fx s13_o s13_c0 s13_c1 s13_c2
  have fs2_m6_0 := transport s13_Fx Fs12 (by decide) (by decide) fs1_m6_0
  have fs2_m7_0 := transport s13_Fx Fs12 (by decide) (by decide) fs1_m7_0
  have fs2_m10_0 := transport s13_Fx Fs12 (by decide) (by decide) fs1_m10_0
  have fs2_m11_0 := transport s13_Fx Fs12 (by decide) (by decide) fs1_m11_0
  have fs2_m12_0 := transport s13_Fx Fs12 (by decide) (by decide) fs1_m12_0
  have fs2_p0_0 := transport s13_Fx Fs12 (by decide) (by decide) fs1_p0_0
  have fs2_p1_0 := transport s13_Fx Fs12 (by decide) (by decide) fs1_p1_0
  have fs2_p2_0 := transport s13_Fx Fs12 (by decide) (by decide) fs1_p2_0
  have fs2_p3_0 := transport s13_Fx Fs12 (by decide) (by decide) fs1_p3_0
  have fs2_p4_0 := transport s13_Fx Fs12 (by decide) (by decide) s7_o
  have s13_B := extract_bound32 s12_B
  conv at s13_B => rhs; simp only [Nat.reducePow, Nat.reduceDiv]
  clear fs1_m5_0 fs1_m6_0 fs1_m7_0 fs1_m9_0 fs1_m10_0 fs1_m11_0 fs1_m12_0 fs1_p0_0 fs1_p1_0 fs1_p2_0 fs1_p3_0 s7_o s12_c0 s12_c1 s12_c2 s12_B s13_Fx Fs12
  clear es12 es7
  exact scalar_reduce_512_run_p7 es13 l0 l1 l2 l3 l4 l5 l6 l7 l8 l9 l10 l11 l12 l13 l14 l15 v v6_2 v6_3 v6_6 v6_7 v6_8 v6_9 v6_10 v6_11 v6_12 s6_0 s12_0 s12_1 s12_2 v6_15 v6_4 v6_16 v6_5 v6_17 v6_18 v6_0 v6_1 L0 L1 L2 L3 L4 L5 L6 L7 L8 L9 L10 L11 L12 L13 L14 L15 hv fs2_m6_0 fs2_m7_0 fs2_m10_0 fs2_m11_0 fs2_m12_0 fs2_p0_0 fs2_p1_0 fs2_p2_0 fs2_p3_0 fs2_p4_0 s13_o L_v6_2 L_v6_3 L_v6_6 L_v6_7 L_v6_8 U_v6_8 L_v6_9 L_v6_10 L_v6_11 L_v6_12 s6_lt0 s12_lt0 s12_lt1 s12_lt2 s13_c0 s13_c1 s13_c2 s13_B cums2 hS0

set_option maxRecDepth 100000 in
set_option maxHeartbeats 4000000 in
theorem scalar_reduce_512_run_p5 (env : Env) (l0 l1 l2 l3 l4 l5 l6 l7 l8 l9 l10 l11 l12 l13 l14 l15 v : Nat) (v5_0 v5_1 v5_2 v5_3 v5_4 v5_5 v5_6 v5_7 v5_8 v5_9 v5_10 v5_11 v5_12 v5_13 v5_14 : Nat) (L0 : l0 < 2 ^ 32) (L1 : l1 < 2 ^ 32) (L2 : l2 < 2 ^ 32) (L3 : l3 < 2 ^ 32) (L4 : l4 < 2 ^ 32) (L5 : l5 < 2 ^ 32) (L6 : l6 < 2 ^ 32) (L7 : l7 < 2 ^ 32) (L8 : l8 < 2 ^ 32) (L9 : l9 < 2 ^ 32) (L10 : l10 < 2 ^ 32) (L11 : l11 < 2 ^ 32) (L12 : l12 < 2 ^ 32) (L13 : l13 < 2 ^ 32) (L14 : l14 < 2 ^ 32) (L15 : l15 < 2 ^ 32) (hv : val16x32 l0 l1 l2 l3 l4 l5 l6 l7 l8 l9 l10 l11 l12 l13 l14 l15 = v) 
    (h_m1_0 : env.get "m1" 0 = v5_0)
    (h_m2_0 : env.get "m2" 0 = v5_1)
    (h_m3_0 : env.get "m3" 0 = v5_2)
    (h_m4_0 : env.get "m4" 0 = v5_3)
    (h_m5_0 : env.get "m5" 0 = v5_4)
    (h_m6_0 : env.get "m6" 0 = v5_5)
    (h_m7_0 : env.get "m7" 0 = v5_6)
    (h_m8_0 : env.get "m8" 0 = v5_7)
    (h_m9_0 : env.get "m9" 0 = v5_8)
    (h_m10_0 : env.get "m10" 0 = v5_9)
    (h_m11_0 : env.get "m11" 0 = v5_10)
    (h_m12_0 : env.get "m12" 0 = v5_11)
    (h_p0_0 : env.get "p0" 0 = v5_12)
    (L_v5_0 : v5_0 < 2 ^ 32)
    (L_v5_1 : v5_1 < 2 ^ 32)
    (L_v5_2 : v5_2 < 2 ^ 32)
    (L_v5_3 : v5_3 < 2 ^ 32)
    (L_v5_4 : v5_4 < 2 ^ 32)
    (L_v5_5 : v5_5 < 2 ^ 32)
    (L_v5_6 : v5_6 < 2 ^ 32)
    (L_v5_7 : v5_7 < 2 ^ 32)
    (L_v5_8 : v5_8 < 2 ^ 32)
    (L_v5_9 : v5_9 < 2 ^ 32)
    (L_v5_10 : v5_10 < 2 ^ 32)
    (L_v5_11 : v5_11 < 2 ^ 32)
    (U_v5_11 : v5_11 ≤ 1)
    (L_v5_12 : v5_12 < 2 ^ 32)
    (L_v5_13 : v5_13 < 2 ^ 32)
    (hc0 : env.get "c0" 0 = v5_13)
    (hc1 : env.get "c1" 0 = 0)
    (hc2 : env.get "c2" 0 = 0)
    (hB : v5_13 + 0 * 2 ^ 32 ≤ 801750719)
    (hcum : v5_12 + v5_13 * 2 ^ 32 = v5_14 + (v5_7 * 801750719))
    (hS0 : v5_14 + v5_0 * 2 ^ 32 + v5_1 * 2 ^ 64 + v5_2 * 2 ^ 96 + v5_3 * 2 ^ 128 + v5_4 * 2 ^ 160 + v5_5 * 2 ^ 192 + v5_6 * 2 ^ 224 + v5_7 * 2 ^ 256 + v5_8 * 2 ^ 288 + v5_9 * 2 ^ 320 + v5_10 * 2 ^ 352 + v5_11 * 2 ^ 384 = l0 + (l8 * 801750719) + (l1 + l9 * 801750719 + l8 * 1076732275) * 2 ^ 32 + (l2 + l10 * 801750719 + l9 * 1076732275 + l8 * 1354194884) * 2 ^ 64 + (l3 + l11 * 801750719 + l10 * 1076732275 + l9 * 1354194884 + l8 * 1162945305) * 2 ^ 96 + (l4 + l12 * 801750719 + l11 * 1076732275 + l10 * 1354194884 + l9 * 1162945305 + l8) * 2 ^ 128 + (l5 + l13 * 801750719 + l12 * 1076732275 + l11 * 1354194884 + l10 * 1162945305 + l9) * 2 ^ 160 + (l6 + l14 * 801750719 + l13 * 1076732275 + l12 * 1354194884 + l11 * 1162945305 + l10) * 2 ^ 192 + (l7 + l15 * 801750719 + l14 * 1076732275 + l13 * 1354194884 + l12 * 1162945305 + l11) * 2 ^ 224 + (l15 * 1076732275 + l14 * 1354194884 + l13 * 1162945305 + l12) * 2 ^ 256 + (l15 * 1354194884 + l14 * 1162945305 + l13) * 2 ^ 288 + (l15 * 1162945305 + l14) * 2 ^ 320 + (l15) * 2 ^ 352) :
    RedPost v (runR env (Gen.scalar8x32.scalar_reduce_512.body.drop 349)) := by
  simp only [Gen.scalar8x32.scalar_reduce_512, List.drop_succ_cons, List.drop_zero]
  refine sumadd_fast_rule accS "c2" "m1" 0 v5_13 0 0 v5_0 _ (by decide) (by decide) (Reads_var _) (by decide) hc0 hc1 hc2 (transportF (Frame.refl accS env) (by decide) h_m1_0) L_v5_13 zero_lt32 L_v5_0 hB (by decide) ?_
  intro es1 s1_0 s1_1 s1_F s1_c0 s1_c1 s1_c2 s1_lt0 s1_lt1 s1_A s1_B
  replace s1_A := s1_A.trans (z2_x0 _ _)
  conv at s1_B => rhs; simp only [Nat.reducePow, Nat.reduceSub, Nat.reduceMul, Nat.reduceAdd]
  clear hc0 hc1 hc2 hB L_v5_13
  refine muladd_rule accS s1_0 s1_1 0 v5_8 801750719 4294967295 801750719 _ (by decide) (by decide) s1_c0 s1_c1 s1_c2 (ev_var_of s1_F (by decide) h_m9_0) (ev_nc0 _) s1_lt0 s1_lt1 (le_of_lt32 L_v5_8) (Nat.le_refl _) (by decide) (by decide) (acc_zero2 s1_B) (by decide) ?_
  intro es2 s2_0 s2_1 s2_2 s2_F s2_c0 s2_c1 s2_c2 s2_lt0 s2_lt1 s2_lt2 s2_A s2_B
  replace s2_A := s2_A.trans (z3_xy0 _ _ _)
  conv at s2_B => rhs; simp only [Nat.reducePow, Nat.reduceSub, Nat.reduceMul, Nat.reduceAdd]
  have Fs2 := s1_F.trans s2_F
  clear s1_F s2_F s1_c0 s1_c1 s1_c2 s1_B s1_lt0 s1_lt1
  clear es1
  refine muladd_rule accS s2_0 s2_1 s2_2 v5_7 1076732275 4294967295 1076732275 _ (by decide) (by decide) s2_c0 s2_c1 s2_c2 (ev_var_of Fs2 (by decide) h_m8_0) (ev_nc1 _) s2_lt0 s2_lt1 (le_of_lt32 L_v5_7) (Nat.le_refl _) (by decide) (by decide) s2_B (by decide) ?_
  intro es3 s3_0 s3_1 s3_2 s3_F s3_c0 s3_c1 s3_c2 s3_lt0 s3_lt1 s3_lt2 s3_A s3_B
  conv at s3_B => rhs; simp only [Nat.reducePow, Nat.reduceSub, Nat.reduceMul, Nat.reduceAdd]
  have Fs3 := Fs2.trans s3_F
  clear Fs2 s3_F s2_c0 s2_c1 s2_c2 s2_B s2_lt0 s2_lt1 s2_lt2
  clear es2
  have hcols1 : s3_0 + (s3_1 + s3_2 * 2 ^ 32) * 2 ^ 32 = v5_13 + (v5_0 + v5_8 * 801750719 + v5_7 * 1076732275) := (reshape3 s3_0 s3_1 s3_2).trans (colsum3 s1_A s2_A s3_A)
  clear s1_A s2_A s3_A
  have cums1 := combine 64 hcum hcols1 rfl
  clear hcum hcols1
  refine extract_rule accS s3_0 s3_1 s3_2 (by decide) (by decide) s3_c0 s3_c1 s3_c2 ?_
  intro es4 s4_Fx s4_o s4_c0 s4_c1 s4_c2
  have fs1_m2_0 := transport s4_Fx Fs3 (by decide) (by decide) h_m2_0
  have fs1_m3_0 := transport s4_Fx Fs3 (by decide) (by decide) h_m3_0
  have fs1_m4_0 := transport s4_Fx Fs3 (by decide) (by decide) h_m4_0
  have fs1_m5_0 := transport s4_Fx Fs3 (by decide) (by decide) h_m5_0
  have fs1_m6_0 := transport s4_Fx Fs3 (by decide) (by decide) h_m6_0
  have fs1_m7_0 := transport s4_Fx Fs3 (by decide) (by decide) h_m7_0
  have fs1_m8_0 := transport s4_Fx Fs3 (by decide) (by decide) h_m8_0
  have fs1_m9_0 := transport s4_Fx Fs3 (by decide) (by decide) h_m9_0
  have fs1_m10_0 := transport s4_Fx Fs3 (by decide) (by decide) h_m10_0
  have fs1_m11_0 := transport s4_Fx Fs3 (by decide) (by decide) h_m11_0
  have fs1_m12_0 := transport s4_Fx Fs3 (by decide) (by decide) h_m12_0
  have fs1_p0_0 := transport s4_Fx Fs3 (by decide) (by decide) h_p0_0
  have s4_B := extract_bound32 s3_B
  conv at s4_B => rhs; simp only [Nat.reducePow, Nat.reduceDiv]
  clear h_m1_0 h_m2_0 h_m3_0 h_m4_0 h_m5_0 h_m6_0 h_m7_0 h_m8_0 h_m9_0 h_m10_0 h_m11_0 h_m12_0 h_p0_0 s3_c0 s3_c1 s3_c2 s3_B s4_Fx Fs3
  clear es3 env
  refine sumadd_rule accS "m2" 0 s3_1 s3_2 0 v5_1 _ (by decide) (by decide) (Reads_var _) (by decide) s4_c0 s4_c1 s4_c2 (transportF (Frame.refl accS es4) (by decide) fs1_m2_0) s3_lt1 s3_lt2 L_v5_1 s4_B (by decide) ?_
  intro es5 s5_0 s5_1 s5_2 s5_F s5_c0 s5_c1 s5_c2 s5_lt0 s5_lt1 s5_lt2 s5_A s5_B
  replace s5_A := s5_A.trans (z3_xy0 _ _ _)
  conv at s5_B => rhs; simp only [Nat.reducePow, Nat.reduceSub, Nat.reduceMul, Nat.reduceAdd]
  clear s4_c0 s4_c1 s4_c2 s4_B s3_lt1 s3_lt2
  refine muladd_rule accS s5_0 s5_1 s5_2 v5_9 801750719 4294967295 801750719 _ (by decide) (by decide) s5_c0 s5_c1 s5_c2 (ev_var_of s5_F (by decide) fs1_m10_0) (ev_nc0 _) s5_lt0 s5_lt1 (le_of_lt32 L_v5_9) (Nat.le_refl _) (by decide) (by decide) s5_B (by decide) ?_
  intro es6 s6_0 s6_1 s6_2 s6_F s6_c0 s6_c1 s6_c2 s6_lt0 s6_lt1 s6_lt2 s6_A s6_B
  conv at s6_B => rhs; simp only [Nat.reducePow, Nat.reduceSub, Nat.reduceMul, Nat.reduceAdd]
  have Fs6 := s5_F.trans s6_F
  clear s5_F s6_F s5_c0 s5_c1 s5_c2 s5_B s5_lt0 s5_lt1 s5_lt2
  clear es5
  refine muladd_rule accS s6_0 s6_1 s6_2 v5_8 1076732275 4294967295 1076732275 _ (by decide) (by decide) s6_c0 s6_c1 s6_c2 (ev_var_of Fs6 (by decide) fs1_m9_0) (ev_nc1 _) s6_lt0 s6_lt1 (le_of_lt32 L_v5_8) (Nat.le_refl _) (by decide) (by decide) s6_B (by decide) ?_
  intro es7 s7_0 s7_1 s7_2 s7_F s7_c0 s7_c1 s7_c2 s7_lt0 s7_lt1 s7_lt2 s7_A s7_B
  conv at s7_B => rhs; simp only [Nat.reducePow, Nat.reduceSub, Nat.reduceMul, Nat.reduceAdd]
  have Fs7 := Fs6.trans s7_F
  clear Fs6 s7_F s6_c0 s6_c1 s6_c2 s6_B s6_lt0 s6_lt1 s6_lt2
  clear es6
  refine muladd_rule accS s7_0 s7_1 s7_2 v5_7 1354194884 4294967295 1354194884 _ (by decide) (by decide) s7_c0 s7_c1 s7_c2 (ev_var_of Fs7 (by decide) fs1_m8_0) (ev_nc2 _) s7_lt0 s7_lt1 (le_of_lt32 L_v5_7) (Nat.le_refl _) (by decide) (by decide) s7_B (by decide) ?_
  intro es8 s8_0 s8_1 s8_2 s8_F s8_c0 s8_c1 s8_c2 s8_lt0 s8_lt1 s8_lt2 s8_A s8_B
  conv at s8_B => rhs; simp only [Nat.reducePow, Nat.reduceSub, Nat.reduceMul, Nat.reduceAdd]
  have Fs8 := Fs7.trans s8_F
  clear Fs7 s8_F s7_c0 s7_c1 s7_c2 s7_B s7_lt0 s7_lt1 s7_lt2
  clear es7
  have hcols2 : s8_0 + (s8_1 + s8_2 * 2 ^ 32) * 2 ^ 32 = s3_1 + s3_2 * 2 ^ 32 + (v5_1 + v5_9 * 801750719 + v5_8 * 1076732275 + v5_7 * 1354194884) := (reshape3 s8_0 s8_1 s8_2).trans (colsum4 s5_A s6_A s7_A s8_A)
  clear s5_A s6_A s7_A s8_A
  have cums2 := combine 96 cums1 hcols2 rfl
  clear cums1 hcols2
  refine extract_rule accS s8_0 s8_1 s8_2 (by decide) (by decide) s8_c0 s8_c1 s8_c2 ?_
  intro es9 s9_Fx s9_o s9_c0 s9_c1 s9_c2
  have fs2_m3_0 := transport s9_Fx Fs8 (by decide) (by decide) fs1_m3_0
  have fs2_m4_0 := transport s9_Fx Fs8 (by decide) (by decide) fs1_m4_0
  have fs2_m5_0 := transport s9_Fx Fs8 (by decide) (by decide) fs1_m5_0
  have fs2_m6_0 := transport s9_Fx Fs8 (by decide) (by decide) fs1_m6_0
  have fs2_m7_0 := transport s9_Fx Fs8 (by decide) (by decide) fs1_m7_0
  have fs2_m8_0 := transport s9_Fx Fs8 (by decide) (by decide) fs1_m8_0
  have fs2_m9_0 := transport s9_Fx Fs8 (by decide) (by decide) fs1_m9_0
  have fs2_m10_0 := transport s9_Fx Fs8 (by decide) (by decide) fs1_m10_0
  have fs2_m11_0 := transport s9_Fx Fs8 (by decide) (by decide) fs1_m11_0
  have fs2_m12_0 := transport s9_Fx Fs8 (by decide) (by decide) fs1_m12_0
  have fs2_p0_0 := transport s9_Fx Fs8 (by decide) (by decide) fs1_p0_0
  have fs2_p1_0 := transport s9_Fx Fs8 (by decide) (by decide) s4_o
  have s9_B := extract_bound32 s8_B
  conv at s9_B => rhs; simp only [Nat.reducePow, Nat.reduceDiv]
  clear fs1_m2_0 fs1_m3_0 fs1_m4_0 fs1_m5_0 fs1_m6_0 fs1_m7_0 fs1_m8_0 fs1_m9_0 fs1_m10_0 fs1_m11_0 fs1_m12_0 fs1_p0_0 s4_o s8_c0 s8_c1 s8_c2 s8_B s9_Fx Fs8
  clear es8 es4
  refine sumadd_rule accS "m3" 0 s8_1 s8_2 0 v5_2 _ (by decide) (by decide) (Reads_var _) (by decide) s9_c0 s9_c1 s9_c2 (transportF (Frame.refl accS es9) (by decide) fs2_m3_0) s8_lt1 s8_lt2 L_v5_2 s9_B (by decide) ?_
  intro es10 s10_0 s10_1 s10_2 s10_F s10_c0 s10_c1 s10_c2 s10_lt0 s10_lt1 s10_lt2 s10_A s10_B
  replace s10_A := s10_A.trans (z3_xy0 _ _ _)
  conv at s10_B => rhs; simp only [Nat.reducePow, Nat.reduceSub, Nat.reduceMul, Nat.reduceAdd]
  clear s9_c0 s9_c1 s9_c2 s9_B s8_lt1 s8_lt2
  refine muladd_rule accS s10_0 s10_1 s10_2 v5_10 801750719 4294967295 801750719 _ (by decide) (by decide) s10_c0 s10_c1 s10_c2 (ev_var_of s10_F (by decide) fs2_m11_0) (ev_nc0 _) s10_lt0 s10_lt1 (le_of_lt32 L_v5_10) (Nat.le_refl _) (by decide) (by decide) s10_B (by decide) ?_
  intro es11 s11_0 s11_1 s11_2 s11_F s11_c0 s11_c1 s11_c2 s11_lt0 s11_lt1 s11_lt2 s11_A s11_B
  conv at s11_B => rhs; simp only [Nat.reducePow, Nat.reduceSub, Nat.reduceMul, Nat.reduceAdd]
  have Fs11 := s10_F.trans s11_F
  clear s10_F s11_F s10_c0 s10_c1 s10_c2 s10_B s10_lt0 s10_lt1 s10_lt2
  clear es10
  refine muladd_rule accS s11_0 s11_1 s11_2 v5_9 1076732275 4294967295 1076732275 _ (by decide) (by decide) s11_c0 s11_c1 s11_c2 (ev_var_of Fs11 (by decide) fs2_m10_0) (ev_nc1 _) s11_lt0 s11_lt1 (le_of_lt32 L_v5_9) (Nat.le_refl _) (by decide) (by decide) s11_B (by decide) ?_
  intro es12 s12_0 s12_1 s12_2 s12_F s12_c0 s12_c1 s12_c2 s12_lt0 s12_lt1 s12_lt2 s12_A s12_B
  conv at s12_B => rhs; simp only [Nat.reducePow, Nat.reduceSub, Nat.reduceMul, Nat.reduceAdd]
  have Fs12 := Fs11.trans s12_F
  clear Fs11 s12_F s11_c0 s11_c1 s11_c2 s11_B s11_lt0 s11_lt1 s11_lt2
  clear es11
  refine muladd_rule accS s12_0 s12_1 s12_2 v5_8 1354194884 4294967295 1354194884 _ (by decide) (by decide) s12_c0 s12_c1 s12_c2 (ev_var_of Fs12 (by decide) fs2_m9_0) (ev_nc2 _) s12_lt0 s12_lt1 (le_of_lt32 L_v5_8) (Nat.le_refl _) (by decide) (by decide) s12_B (by decide) ?_
  intro es13 s13_0 s13_1 s13_2 s13_F s13_c0 s13_c1 s13_c2 s13_lt0 s13_lt1 s13_lt2 s13_A s13_B
  conv at s13_B => rhs; simp only [Nat.reducePow, Nat.reduceSub, Nat.reduceMul, Nat.reduceAdd]
  have Fs13 := Fs12.trans s13_F
  clear Fs12 s13_F s12_c0 s12_c1 s12_c2 s12_B s12_lt0 s12_lt1 s12_lt2
  clear es12
  refine muladd_rule accS s13_0 s13_1 s13_2 v5_7 1162945305 4294967295 1162945305 _ (by decide) (by decide) s13_c0 s13_c1 s13_c2 (ev_var_of Fs13 (by decide) fs2_m8_0) (ev_nc3 _) s13_lt0 s13_lt1 (le_of_lt32 L_v5_7) (Nat.le_refl _) (by decide) (by decide) s13_B (by decide) ?_
  intro es14 s14_0 s14_1 s14_2 s14_F s14_c0 s14_c1 s14_c2 s14_lt0 s14_lt1 s14_lt2 s14_A s14_B
  conv at s14_B => rhs; simp only [Nat.reducePow, Nat.reduceSub, Nat.reduceMul, Nat.reduceAdd]
  have Fs14 := Fs13.trans s14_F
  clear Fs13 s14_F s13_c0 s13_c1 s13_c2 s13_B s13_lt0 s13_lt1 s13_lt2
  clear es13
  have hcols3 : s14_0 + (s14_1 + s14_2 * 2 ^ 32) * 2 ^ 32 = s8_1 + s8_2 * 2 ^ 32 + (v5_2 + v5_10 * 801750719 + v5_9 * 1076732275 + v5_8 * 1354194884 + v5_7 * 1162945305) := (reshape3 s14_0 s14_1 s14_2).trans (colsum5 s10_A s11_A s12_A s13_A s14_A)
  clear s10_A s11_A s12_A s13_A s14_A
  have cums3 := combine 128 cums2 hcols3 rfl
  clear cums2 hcols3
  refine extract_rule accS s14_0 s14_1 s14_2 (by decide) (by decide) s14_c0 s14_c1 s14_c2 ?_
  intro es15 s15_Fx s15_o s15_c0 s15_c1 s15_c2
  have fs3_m4_0 := transport s15_Fx Fs14 (by decide) (by decide) fs2_m4_0
  have fs3_m5_0 := transport s15_Fx Fs14 (by decide) (by decide) fs2_m5_0
  have fs3_m6_0 := transport s15_Fx Fs14 (by decide) (by decide) fs2_m6_0
  have fs3_m7_0 := transport s15_Fx Fs14 (by decide) (by decide) fs2_m7_0
  have fs3_m8_0 := transport s15_Fx Fs14 (by decide) (by decide) fs2_m8_0
  have fs3_m9_0 := transport s15_Fx Fs14 (by decide) (by decide) fs2_m9_0
  have fs3_m10_0 := transport s15_Fx Fs14 (by decide) (by decide) fs2_m10_0
  have fs3_m11_0 := transport s15_Fx Fs14 (by decide) (by decide) fs2_m11_0
  have fs3_m12_0 := transport s15_Fx Fs14 (by decide) (by decide) fs2_m12_0
  have fs3_p0_0 := transport s15_Fx Fs14 (by decide) (by decide) fs2_p0_0
  have fs3_p1_0 := transport s15_Fx Fs14 (by decide) (by decide) fs2_p1_0
  have fs3_p2_0 := transport s15_Fx Fs14 (by decide) (by decide) s9_o
  have s15_B := extract_bound32 s14_B
  conv at s15_B => rhs; simp only [Nat.reducePow, Nat.reduceDiv]
  clear fs2_m3_0 fs2_m4_0 fs2_m5_0 fs2_m6_0 fs2_m7_0 fs2_m8_0 fs2_m9_0 fs2_m10_0 fs2_m11_0 fs2_m12_0 fs2_p0_0 fs2_p1_0 s9_o s14_c0 s14_c1 s14_c2 s14_B s15_Fx Fs14
  clear es14 es9
  exact scalar_reduce_512_run_p6 es15 l0 l1 l2 l3 l4 l5 l6 l7 l8 l9 l10 l11 l12 l13 l14 l15 v v5_3 v5_4 v5_5 v5_6 v5_7 v5_8 v5_9 v5_10 v5_11 v5_12 s3_0 s8_0 s14_0 s14_1 s14_2 v5_14 v5_0 v5_1 v5_2 L0 L1 L2 L3 L4 L5 L6 L7 L8 L9 L10 L11 L12 L13 L14 L15 hv fs3_m4_0 fs3_m5_0 fs3_m6_0 fs3_m7_0 fs3_m8_0 fs3_m9_0 fs3_m10_0 fs3_m11_0 fs3_m12_0 fs3_p0_0 fs3_p1_0 fs3_p2_0 s15_o L_v5_3 L_v5_4 L_v5_5 L_v5_6 L_v5_7 L_v5_8 L_v5_9 L_v5_10 L_v5_11 U_v5_11 L_v5_12 s3_lt0 s8_lt0 s14_lt0 s14_lt1 s14_lt2 s15_c0 s15_c1 s15_c2 s15_B cums3 hS0

set_option maxRecDepth 100000 in
set_option maxHeartbeats 4000000 in
theorem scalar_reduce_512_run_p4 (env : Env) (l0 l1 l2 l3 l4 l5 l6 l7 l8 l9 l10 l11 l12 l13 l14 l15 v : Nat) (v4_0 v4_1 v4_2 v4_3 v4_4 v4_5 v4_6 v4_7 v4_8 v4_9 v4_10 : Nat) (L0 : l0 < 2 ^ 32) (L1 : l1 < 2 ^ 32) (L2 : l2 < 2 ^ 32) (L3 : l3 < 2 ^ 32) (L4 : l4 < 2 ^ 32) (L5 : l5 < 2 ^ 32) (L6 : l6 < 2 ^ 32) (L7 : l7 < 2 ^ 32) (L8 : l8 < 2 ^ 32) (L9 : l9 < 2 ^ 32) (L10 : l10 < 2 ^ 32) (L11 : l11 < 2 ^ 32) (L12 : l12 < 2 ^ 32) (L13 : l13 < 2 ^ 32) (L14 : l14 < 2 ^ 32) (L15 : l15 < 2 ^ 32) (hv : val16x32 l0 l1 l2 l3 l4 l5 l6 l7 l8 l9 l10 l11 l12 l13 l14 l15 = v) 
    (h_n5_0 : env.get "n5" 0 = l13)
    (h_n6_0 : env.get "n6" 0 = l14)
    (h_n7_0 : env.get "n7" 0 = l15)
    (h_m0_0 : env.get "m0" 0 = v4_0)
    (h_m1_0 : env.get "m1" 0 = v4_1)
    (h_m2_0 : env.get "m2" 0 = v4_2)
    (h_m3_0 : env.get "m3" 0 = v4_3)
    (h_m4_0 : env.get "m4" 0 = v4_4)
    (h_m5_0 : env.get "m5" 0 = v4_5)
    (h_m6_0 : env.get "m6" 0 = v4_6)
    (h_m7_0 : env.get "m7" 0 = v4_7)
    (h_m8_0 : env.get "m8" 0 = v4_8)
    (L_v4_0 : v4_0 < 2 ^ 32)
    (L_v4_1 : v4_1 < 2 ^ 32)
    (L_v4_2 : v4_2 < 2 ^ 32)
    (L_v4_3 : v4_3 < 2 ^ 32)
    (L_v4_4 : v4_4 < 2 ^ 32)
    (L_v4_5 : v4_5 < 2 ^ 32)
    (L_v4_6 : v4_6 < 2 ^ 32)
    (L_v4_7 : v4_7 < 2 ^ 32)
    (L_v4_8 : v4_8 < 2 ^ 32)
    (L_v4_9 : v4_9 < 2 ^ 32)
    (L_v4_10 : v4_10 < 2 ^ 32)
    (hc0 : env.get "c0" 0 = v4_9)
    (hc1 : env.get "c1" 0 = v4_10)
    (hc2 : env.get "c2" 0 = 0)
    (hB : v4_9 + v4_10 * 2 ^ 32 + 0 * 2 ^ 64 ≤ 3593872465)
    (hcum : v4_0 + v4_1 * 2 ^ 32 + v4_2 * 2 ^ 64 + v4_3 * 2 ^ 96 + v4_4 * 2 ^ 128 + v4_5 * 2 ^ 160 + v4_6 * 2 ^ 192 + v4_7 * 2 ^ 224 + v4_8 * 2 ^ 256 + (v4_9 + v4_10 * 2 ^ 32) * 2 ^ 288 = l0 + (l8 * 801750719) + (l1 + l9 * 801750719 + l8 * 1076732275) * 2 ^ 32 + (l2 + l10 * 801750719 + l9 * 1076732275 + l8 * 1354194884) * 2 ^ 64 + (l3 + l11 * 801750719 + l10 * 1076732275 + l9 * 1354194884 + l8 * 1162945305) * 2 ^ 96 + (l4 + l12 * 801750719 + l11 * 1076732275 + l10 * 1354194884 + l9 * 1162945305 + l8) * 2 ^ 128 + (l5 + l13 * 801750719 + l12 * 1076732275 + l11 * 1354194884 + l10 * 1162945305 + l9) * 2 ^ 160 + (l6 + l14 * 801750719 + l13 * 1076732275 + l12 * 1354194884 + l11 * 1162945305 + l10) * 2 ^ 192 + (l7 + l15 * 801750719 + l14 * 1076732275 + l13 * 1354194884 + l12 * 1162945305 + l11) * 2 ^ 224 + (l15 * 1076732275 + l14 * 1354194884 + l13 * 1162945305 + l12) * 2 ^ 256) :
    RedPost v (runR env (Gen.scalar8x32.scalar_reduce_512.body.drop 294)) := by
  simp only [Gen.scalar8x32.scalar_reduce_512, List.drop_succ_cons, List.drop_zero]
  refine muladd_rule accS v4_9 v4_10 0 l15 1354194884 4294967295 1354194884 _ (by decide) (by decide) hc0 hc1 hc2 (ev_var_of (Frame.refl accS env) (by decide) h_n7_0) (ev_nc2 _) L_v4_9 L_v4_10 (le_of_lt32 L15) (Nat.le_refl _) (by decide) (by decide) hB (by decide) ?_
  intro es1 s1_0 s1_1 s1_2 s1_F s1_c0 s1_c1 s1_c2 s1_lt0 s1_lt1 s1_lt2 s1_A s1_B
  replace s1_A := s1_A.trans (z3_xy0 _ _ _)
  conv at s1_B => rhs; simp only [Nat.reducePow, Nat.reduceSub, Nat.reduceMul, Nat.reduceAdd]
  clear hc0 hc1 hc2 hB L_v4_9 L_v4_10
  refine muladd_rule accS s1_0 s1_1 s1_2 l14 1162945305 4294967295 1162945305 _ (by decide) (by decide) s1_c0 s1_c1 s1_c2 (ev_var_of s1_F (by decide) h_n6_0) (ev_nc3 _) s1_lt0 s1_lt1 (le_of_lt32 L14) (Nat.le_refl _) (by decide) (by decide) s1_B (by decide) ?_
  intro es2 s2_0 s2_1 s2_2 s2_F s2_c0 s2_c1 s2_c2 s2_lt0 s2_lt1 s2_lt2 s2_A s2_B
  conv at s2_B => rhs; simp only [Nat.reducePow, Nat.reduceSub, Nat.reduceMul, Nat.reduceAdd]
  have Fs2 := s1_F.trans s2_F
  clear s1_F s2_F s1_c0 s1_c1 s1_c2 s1_B s1_lt0 s1_lt1 s1_lt2
  clear es1
  refine sumadd_rule accS "n5" 0 s2_0 s2_1 s2_2 l13 _ (by decide) (by decide) (Reads_var _) (by decide) s2_c0 s2_c1 s2_c2 (transportF Fs2 (by decide) h_n5_0) s2_lt0 s2_lt1 L13 s2_B (by decide) ?_
  intro es3 s3_0 s3_1 s3_2 s3_F s3_c0 s3_c1 s3_c2 s3_lt0 s3_lt1 s3_lt2 s3_A s3_B
  conv at s3_B => rhs; simp only [Nat.reducePow, Nat.reduceSub, Nat.reduceMul, Nat.reduceAdd]
  have Fs3 := Fs2.trans s3_F
  clear Fs2 s3_F s2_c0 s2_c1 s2_c2 s2_B s2_lt0 s2_lt1 s2_lt2
  clear es2
  have hcols1 : s3_0 + (s3_1 + s3_2 * 2 ^ 32) * 2 ^ 32 = v4_9 + v4_10 * 2 ^ 32 + (l15 * 1354194884 + l14 * 1162945305 + l13) := (reshape3 s3_0 s3_1 s3_2).trans (colsum3 s1_A s2_A s3_A)
  clear s1_A s2_A s3_A
  have cums1 := combine 320 hcum hcols1 rfl
  clear hcum hcols1
  refine extract_rule accS s3_0 s3_1 s3_2 (by decide) (by decide) s3_c0 s3_c1 s3_c2 ?_
  intro es4 s4_Fx s4_o s4_c0 s4_c1 s4_c2
  have fs1_n6_0 := transport s4_Fx Fs3 (by decide) (by decide) h_n6_0
  have fs1_n7_0 := transport s4_Fx Fs3 (by decide) (by decide) h_n7_0
  have fs1_m0_0 := transport s4_Fx Fs3 (by decide) (by decide) h_m0_0
  have fs1_m1_0 := transport s4_Fx Fs3 (by decide) (by decide) h_m1_0
  have fs1_m2_0 := transport s4_Fx Fs3 (by decide) (by decide) h_m2_0
  have fs1_m3_0 := transport s4_Fx Fs3 (by decide) (by decide) h_m3_0
  have fs1_m4_0 := transport s4_Fx Fs3 (by decide) (by decide) h_m4_0
  have fs1_m5_0 := transport s4_Fx Fs3 (by decide) (by decide) h_m5_0
  have fs1_m6_0 := transport s4_Fx Fs3 (by decide) (by decide) h_m6_0
  have fs1_m7_0 := transport s4_Fx Fs3 (by decide) (by decide) h_m7_0
  have fs1_m8_0 := transport s4_Fx Fs3 (by decide) (by decide) h_m8_0
  have s4_B := extract_bound32 s3_B
  conv at s4_B => rhs; simp only [Nat.reducePow, Nat.reduceDiv]
  clear h_n5_0 h_n6_0 h_n7_0 h_m0_0 h_m1_0 h_m2_0 h_m3_0 h_m4_0 h_m5_0 h_m6_0 h_m7_0 h_m8_0 s3_c0 s3_c1 s3_c2 s3_B s4_Fx Fs3
  clear es3 env
  refine muladd_rule accS s3_1 s3_2 0 l15 1162945305 4294967295 1162945305 _ (by decide) (by decide) s4_c0 s4_c1 s4_c2 (ev_var_of (Frame.refl accS es4) (by decide) fs1_n7_0) (ev_nc3 _) s3_lt1 s3_lt2 (le_of_lt32 L15) (Nat.le_refl _) (by decide) (by decide) s4_B (by decide) ?_
  intro es5 s5_0 s5_1 s5_2 s5_F s5_c0 s5_c1 s5_c2 s5_lt0 s5_lt1 s5_lt2 s5_A s5_B
  replace s5_A := s5_A.trans (z3_xy0 _ _ _)
  conv at s5_B => rhs; simp only [Nat.reducePow, Nat.reduceSub, Nat.reduceMul, Nat.reduceAdd]
  clear s4_c0 s4_c1 s4_c2 s4_B s3_lt1 s3_lt2
  refine sumadd_rule accS "n6" 0 s5_0 s5_1 s5_2 l14 _ (by decide) (by decide) (Reads_var _) (by decide) s5_c0 s5_c1 s5_c2 (transportF s5_F (by decide) fs1_n6_0) s5_lt0 s5_lt1 L14 s5_B (by decide) ?_
  intro es6 s6_0 s6_1 s6_2 s6_F s6_c0 s6_c1 s6_c2 s6_lt0 s6_lt1 s6_lt2 s6_A s6_B
  conv at s6_B => rhs; simp only [Nat.reducePow, Nat.reduceSub, Nat.reduceMul, Nat.reduceAdd]
  have Fs6 := s5_F.trans s6_F
  clear s5_F s6_F s5_c0 s5_c1 s5_c2 s5_B s5_lt0 s5_lt1 s5_lt2
  clear es5
  have hcols2 : s6_0 + (s6_1 + s6_2 * 2 ^ 32) * 2 ^ 32 = s3_1 + s3_2 * 2 ^ 32 + (l15 * 1162945305 + l14) := (reshape3 s6_0 s6_1 s6_2).trans (colsum2 s5_A s6_A)
  clear s5_A s6_A
  have cums2 := combine 352 cums1 hcols2 rfl
  clear cums1 hcols2
  refine extract_rule accS s6_0 s6_1 s6_2 (by decide) (by decide) s6_c0 s6_c1 s6_c2 ?_
  intro es7 s7_Fx s7_o s7_c0 s7_c1 s7_c2
  have fs2_n7_0 := transport s7_Fx Fs6 (by decide) (by decide) fs1_n7_0
  have fs2_m0_0 := transport s7_Fx Fs6 (by decide) (by decide) fs1_m0_0
  have fs2_m1_0 := transport s7_Fx Fs6 (by decide) (by decide) fs1_m1_0
  have fs2_m2_0 := transport s7_Fx Fs6 (by decide) (by decide) fs1_m2_0
  have fs2_m3_0 := transport s7_Fx Fs6 (by decide) (by decide) fs1_m3_0
  have fs2_m4_0 := transport s7_Fx Fs6 (by decide) (by decide) fs1_m4_0
  have fs2_m5_0 := transport s7_Fx Fs6 (by decide) (by decide) fs1_m5_0
  have fs2_m6_0 := transport s7_Fx Fs6 (by decide) (by decide) fs1_m6_0
  have fs2_m7_0 := transport s7_Fx Fs6 (by decide) (by decide) fs1_m7_0
  have fs2_m8_0 := transport s7_Fx Fs6 (by decide) (by decide) fs1_m8_0
  have fs2_m9_0 := transport s7_Fx Fs6 (by decide) (by decide) s4_o
  have s7_B := extract_bound32 s6_B
  conv at s7_B => rhs; simp only [Nat.reducePow, Nat.reduceDiv]
  clear fs1_n6_0 fs1_n7_0 fs1_m0_0 fs1_m1_0 fs1_m2_0 fs1_m3_0 fs1_m4_0 fs1_m5_0 fs1_m6_0 fs1_m7_0 fs1_m8_0 s4_o s6_c0 s6_c1 s6_c2 s6_B s7_Fx Fs6
  clear es6 es4
  refine sumadd_fast_rule accS "c2" "n7" 0 s6_1 s6_2 0 l15 _ (by decide) (by decide) (Reads_var _) (by decide) s7_c0 s7_c1 s7_c2 (transportF (Frame.refl accS es7) (by decide) fs2_n7_0) s6_lt1 s6_lt2 L15 (acc_drop2 s7_B) (by decide) ?_
  intro es8 s8_0 s8_1 s8_F s8_c0 s8_c1 s8_c2 s8_lt0 s8_lt1 s8_A s8_B
  conv at s8_B => rhs; simp only [Nat.reducePow, Nat.reduceSub, Nat.reduceMul, Nat.reduceAdd]
  clear s7_c0 s7_c1 s7_c2 s7_B s6_lt1 s6_lt2
  have hcols3 : s8_0 + s8_1 * 2 ^ 32 = s6_1 + s6_2 * 2 ^ 32 + (l15) := colsum1 s8_A
  clear s8_A
  have cums3 := combine 384 cums2 hcols3 rfl
  clear cums2 hcols3
  refine extract_fast_rule accS "c2" s8_0 s8_1 0 (by decide) (by decide) s8_c0 s8_c1 s8_c2 ?_
  intro es9 s9_Fx s9_o s9_c0 s9_c1 s9_c2
  have fs3_m0_0 := transport s9_Fx s8_F (by decide) (by decide) fs2_m0_0
  have fs3_m1_0 := transport s9_Fx s8_F (by decide) (by decide) fs2_m1_0
  have fs3_m2_0 := transport s9_Fx s8_F (by decide) (by decide) fs2_m2_0
  have fs3_m3_0 := transport s9_Fx s8_F (by decide) (by decide) fs2_m3_0
  have fs3_m4_0 := transport s9_Fx s8_F (by decide) (by decide) fs2_m4_0
  have fs3_m5_0 := transport s9_Fx s8_F (by decide) (by decide) fs2_m5_0
  have fs3_m6_0 := transport s9_Fx s8_F (by decide) (by decide) fs2_m6_0
  have fs3_m7_0 := transport s9_Fx s8_F (by decide) (by decide) fs2_m7_0
  have fs3_m8_0 := transport s9_Fx s8_F (by decide) (by decide) fs2_m8_0
  have fs3_m9_0 := transport s9_Fx s8_F (by decide) (by decide) fs2_m9_0
  have fs3_m10_0 := transport s9_Fx s8_F (by decide) (by decide) s7_o
  have s9_B := extract_bound32' s8_B
  conv at s9_B => rhs; simp only [Nat.reducePow, Nat.reduceDiv]
  clear fs2_n7_0 fs2_m0_0 fs2_m1_0 fs2_m2_0 fs2_m3_0 fs2_m4_0 fs2_m5_0 fs2_m6_0 fs2_m7_0 fs2_m8_0 fs2_m9_0 s7_o s8_c0 s8_c1 s8_c2 s8_B s9_Fx s8_F
  clear es8 es7
  refine assign_rule accS s8_1 ((ev_var _ _).trans s9_c0) ?_
  intro es10 s10_Fx s10_o
  have s10_U : s8_1 ≤ 1 := top_le2 s9_B
  have fs4_m0_0 := transport s10_Fx (Frame.refl accS es9) (by decide) (by decide) fs3_m0_0
  have fs4_m1_0 := transport s10_Fx (Frame.refl accS es9) (by decide) (by decide) fs3_m1_0
  have fs4_m2_0 := transport s10_Fx (Frame.refl accS es9) (by decide) (by decide) fs3_m2_0
  have fs4_m3_0 := transport s10_Fx (Frame.refl accS es9) (by decide) (by decide) fs3_m3_0
  have fs4_m4_0 := transport s10_Fx (Frame.refl accS es9) (by decide) (by decide) fs3_m4_0
  have fs4_m5_0 := transport s10_Fx (Frame.refl accS es9) (by decide) (by decide) fs3_m5_0
  have fs4_m6_0 := transport s10_Fx (Frame.refl accS es9) (by decide) (by decide) fs3_m6_0
  have fs4_m7_0 := transport s10_Fx (Frame.refl accS es9) (by decide) (by decide) fs3_m7_0
  have fs4_m8_0 := transport s10_Fx (Frame.refl accS es9) (by decide) (by decide) fs3_m8_0
  have fs4_m9_0 := transport s10_Fx (Frame.refl accS es9) (by decide) (by decide) fs3_m9_0
  have fs4_m10_0 := transport s10_Fx (Frame.refl accS es9) (by decide) (by decide) fs3_m10_0
  have fs4_m11_0 := transport s10_Fx (Frame.refl accS es9) (by decide) (by decide) s9_o
  clear fs3_m0_0 fs3_m1_0 fs3_m2_0 fs3_m3_0 fs3_m4_0 fs3_m5_0 fs3_m6_0 fs3_m7_0 fs3_m8_0 fs3_m9_0 fs3_m10_0 s9_o s10_Fx s9_c0 s9_c1 s9_c2 s9_B
  clear es9
  refine init_rule accS v4_0 (by decide) (by decide) (ev_var_of (Frame.refl accS es10) (by decide) fs4_m0_0) ?_
  intro es11 s11_F s11_c0 s11_c1 s11_c2
  have s11_B := init_bound32 L_v4_0
  refine muladd_fast_rule accS "c2" v4_0 0 0 v4_8 801750719 4294967295 801750719 _ (by decide) (by decide) s11_c0 s11_c1 s11_c2 (ev_var_of s11_F (by decide) fs4_m8_0) (ev_nc0 _) L_v4_0 zero_lt32 (le_of_lt32 L_v4_8) (Nat.le_refl _) (by decide) (by decide) s11_B (by decide) ?_
  intro es12 s12_0 s12_1 s12_F s12_c0 s12_c1 s12_c2 s12_lt0 s12_lt1 s12_A s12_B
  replace s12_A := s12_A.trans (z2_x0 _ _)
  conv at s12_B => rhs; simp only [Nat.reducePow, Nat.reduceSub, Nat.reduceMul, Nat.reduceAdd]
  have Fs12 := s11_F.trans s12_F
  clear s11_F s12_F s11_c0 s11_c1 s11_c2 s11_B
  clear es11
  have hcols5 : s12_0 + s12_1 * 2 ^ 32 = v4_0 + (v4_8 * 801750719) := colsum1 s12_A
  clear s12_A
  have cums5 := hcols5
  clear hcols5
  refine extract_fast_rule accS "c2" s12_0 s12_1 0 (by decide) (by decide) s12_c0 s12_c1 s12_c2 ?_
  intro es13 s13_Fx s13_o s13_c0 s13_c1 s13_c2
  have fs5_m1_0 := transport s13_Fx Fs12 (by decide) (by decide) fs4_m1_0
  have fs5_m2_0 := transport s13_Fx Fs12 (by decide) (by decide) fs4_m2_0
  have fs5_m3_0 := transport s13_Fx Fs12 (by decide) (by decide) fs4_m3_0
  have fs5_m4_0 := transport s13_Fx Fs12 (by decide) (by decide) fs4_m4_0
  have fs5_m5_0 := transport s13_Fx Fs12 (by decide) (by decide) fs4_m5_0
  have fs5_m6_0 := transport s13_Fx Fs12 (by decide) (by decide) fs4_m6_0
  have fs5_m7_0 := transport s13_Fx Fs12 (by decide) (by decide) fs4_m7_0
  have fs5_m8_0 := transport s13_Fx Fs12 (by decide) (by decide) fs4_m8_0
  have fs5_m9_0 := transport s13_Fx Fs12 (by decide) (by decide) fs4_m9_0
  have fs5_m10_0 := transport s13_Fx Fs12 (by decide) (by decide) fs4_m10_0
  have fs5_m11_0 := transport s13_Fx Fs12 (by decide) (by decide) fs4_m11_0
  have fs5_m12_0 := transport s13_Fx Fs12 (by decide) (by decide) s10_o
  have s13_B := extract_bound32' s12_B
  conv at s13_B => rhs; simp only [Nat.reducePow, Nat.reduceDiv]
  clear fs4_m0_0 fs4_m1_0 fs4_m2_0 fs4_m3_0 fs4_m4_0 fs4_m5_0 fs4_m6_0 fs4_m7_0 fs4_m8_0 fs4_m9_0 fs4_m10_0 fs4_m11_0 s10_o s12_c0 s12_c1 s12_c2 s12_B s13_Fx Fs12
  clear es12 es10
  exact scalar_reduce_512_run_p5 es13 l0 l1 l2 l3 l4 l5 l6 l7 l8 l9 l10 l11 l12 l13 l14 l15 v v4_1 v4_2 v4_3 v4_4 v4_5 v4_6 v4_7 v4_8 s3_0 s6_0 s8_0 s8_1 s12_0 s12_1 v4_0 L0 L1 L2 L3 L4 L5 L6 L7 L8 L9 L10 L11 L12 L13 L14 L15 hv fs5_m1_0 fs5_m2_0 fs5_m3_0 fs5_m4_0 fs5_m5_0 fs5_m6_0 fs5_m7_0 fs5_m8_0 fs5_m9_0 fs5_m10_0 fs5_m11_0 fs5_m12_0 s13_o L_v4_1 L_v4_2 L_v4_3 L_v4_4 L_v4_5 L_v4_6 L_v4_7 L_v4_8 s3_lt0 s6_lt0 s8_lt0 s8_lt1 s10_U s12_lt0 s12_lt1 s13_c0 s13_c1 s13_c2 s13_B cums5 cums3

set_option maxRecDepth 100000 in
set_option maxHeartbeats 4000000 in
theorem scalar_reduce_512_run_p3 (env : Env) (l0 l1 l2 l3 l4 l5 l6 l7 l8 l9 l10 l11 l12 l13 l14 l15 v : Nat) (v3_0 v3_1 v3_2 v3_3 v3_4 v3_5 v3_6 v3_7 v3_8 : Nat) (L0 : l0 < 2 ^ 32) (L1 : l1 < 2 ^ 32) (L2 : l2 < 2 ^ 32) (L3 : l3 < 2 ^ 32) (L4 : l4 < 2 ^ 32) (L5 : l5 < 2 ^ 32) (L6 : l6 < 2 ^ 32) (L7 : l7 < 2 ^ 32) (L8 : l8 < 2 ^ 32) (L9 : l9 < 2 ^ 32) (L10 : l10 < 2 ^ 32) (L11 : l11 < 2 ^ 32) (L12 : l12 < 2 ^ 32) (L13 : l13 < 2 ^ 32) (L14 : l14 < 2 ^ 32) (L15 : l15 < 2 ^ 32) (hv : val16x32 l0 l1 l2 l3 l4 l5 l6 l7 l8 l9 l10 l11 l12 l13 l14 l15 = v) 
    (h_l_7 : env.get "l" 7 = l7)
    (h_n3_0 : env.get "n3" 0 = l11)
    (h_n4_0 : env.get "n4" 0 = l12)
    (h_n5_0 : env.get "n5" 0 = l13)
    (h_n6_0 : env.get "n6" 0 = l14)
    (h_n7_0 : env.get "n7" 0 = l15)
    (h_m0_0 : env.get "m0" 0 = v3_0)
    (h_m1_0 : env.get "m1" 0 = v3_1)
    (h_m2_0 : env.get "m2" 0 = v3_2)
    (h_m3_0 : env.get "m3" 0 = v3_3)
    (h_m4_0 : env.get "m4" 0 = v3_4)
    (h_m5_0 : env.get "m5" 0 = v3_5)
    (h_m6_0 : env.get "m6" 0 = v3_6)
    (L_v3_0 : v3_0 < 2 ^ 32)
    (L_v3_1 : v3_1 < 2 ^ 32)
    (L_v3_2 : v3_2 < 2 ^ 32)
    (L_v3_3 : v3_3 < 2 ^ 32)
    (L_v3_4 : v3_4 < 2 ^ 32)
    (L_v3_5 : v3_5 < 2 ^ 32)
    (L_v3_6 : v3_6 < 2 ^ 32)
    (L_v3_7 : v3_7 < 2 ^ 32)
    (L_v3_8 : v3_8 < 2 ^ 32)
    (hc0 : env.get "c0" 0 = v3_7)
    (hc1 : env.get "c1" 0 = v3_8)
    (hc2 : env.get "c2" 0 = 0)
    (hB : v3_7 + v3_8 * 2 ^ 32 + 0 * 2 ^ 64 ≤ 4395623184)
    (hcum : v3_0 + v3_1 * 2 ^ 32 + v3_2 * 2 ^ 64 + v3_3 * 2 ^ 96 + v3_4 * 2 ^ 128 + v3_5 * 2 ^ 160 + v3_6 * 2 ^ 192 + (v3_7 + v3_8 * 2 ^ 32) * 2 ^ 224 = l0 + (l8 * 801750719) + (l1 + l9 * 801750719 + l8 * 1076732275) * 2 ^ 32 + (l2 + l10 * 801750719 + l9 * 1076732275 + l8 * 1354194884) * 2 ^ 64 + (l3 + l11 * 801750719 + l10 * 1076732275 + l9 * 1354194884 + l8 * 1162945305) * 2 ^ 96 + (l4 + l12 * 801750719 + l11 * 1076732275 + l10 * 1354194884 + l9 * 1162945305 + l8) * 2 ^ 128 + (l5 + l13 * 801750719 + l12 * 1076732275 + l11 * 1354194884 + l10 * 1162945305 + l9) * 2 ^ 160 + (l6 + l14 * 801750719 + l13 * 1076732275 + l12 * 1354194884 + l11 * 1162945305 + l10) * 2 ^ 192) :
    RedPost v (runR env (Gen.scalar8x32.scalar_reduce_512.body.drop 225)) := by
  simp only [Gen.scalar8x32.scalar_reduce_512, List.drop_succ_cons, List.drop_zero]
  refine sumadd_rule accS "l" 7 v3_7 v3_8 0 l7 _ (by decide) (by decide) (Reads_idx _ _) (by decide) hc0 hc1 hc2 (transportF (Frame.refl accS env) (by decide) h_l_7) L_v3_7 L_v3_8 L7 hB (by decide) ?_
  intro es1 s1_0 s1_1 s1_2 s1_F s1_c0 s1_c1 s1_c2 s1_lt0 s1_lt1 s1_lt2 s1_A s1_B
  replace s1_A := s1_A.trans (z3_xy0 _ _ _)
  conv at s1_B => rhs; simp only [Nat.reducePow, Nat.reduceSub, Nat.reduceMul, Nat.reduceAdd]
  clear hc0 hc1 hc2 hB L_v3_7 L_v3_8
  refine muladd_rule accS s1_0 s1_1 s1_2 l15 801750719 4294967295 801750719 _ (by decide) (by decide) s1_c0 s1_c1 s1_c2 (ev_var_of s1_F (by decide) h_n7_0) (ev_nc0 _) s1_lt0 s1_lt1 (le_of_lt32 L15) (Nat.le_refl _) (by decide) (by decide) s1_B (by decide) ?_
  intro es2 s2_0 s2_1 s2_2 s2_F s2_c0 s2_c1 s2_c2 s2_lt0 s2_lt1 s2_lt2 s2_A s2_B
  conv at s2_B => rhs; simp only [Nat.reducePow, Nat.reduceSub, Nat.reduceMul, Nat.reduceAdd]
  have Fs2 := s1_F.trans s2_F
  clear s1_F s2_F s1_c0 s1_c1 s1_c2 s1_B s1_lt0 s1_lt1 s1_lt2
  clear es1
  refine muladd_rule accS s2_0 s2_1 s2_2 l14 1076732275 4294967295 1076732275 _ (by decide) (by decide) s2_c0 s2_c1 s2_c2 (ev_var_of Fs2 (by decide) h_n6_0) (ev_nc1 _) s2_lt0 s2_lt1 (le_of_lt32 L14) (Nat.le_refl _) (by decide) (by decide) s2_B (by decide) ?_
  intro es3 s3_0 s3_1 s3_2 s3_F s3_c0 s3_c1 s3_c2 s3_lt0 s3_lt1 s3_lt2 s3_A s3_B
  conv at s3_B => rhs; simp only [Nat.reducePow, Nat.reduceSub, Nat.reduceMul, Nat.reduceAdd]
  have Fs3 := Fs2.trans s3_F
  clear Fs2 s3_F s2_c0 s2_c1 s2_c2 s2_B s2_lt0 s2_lt1 s2_lt2
  clear es2
  refine muladd_rule accS s3_0 s3_1 s3_2 l13 1354194884 4294967295 1354194884 _ (by decide) (by decide) s3_c0 s3_c1 s3_c2 (ev_var_of Fs3 (by decide) h_n5_0) (ev_nc2 _) s3_lt0 s3_lt1 (le_of_lt32 L13) (Nat.le_refl _) (by decide) (by decide) s3_B (by decide) ?_
  intro es4 s4_0 s4_1 s4_2 s4_F s4_c0 s4_c1 s4_c2 s4_lt0 s4_lt1 s4_lt2 s4_A s4_B
  conv at s4_B => rhs; simp only [Nat.reducePow, Nat.reduceSub, Nat.reduceMul, Nat.reduceAdd]
  have Fs4 := Fs3.trans s4_F
  clear Fs3 s4_F s3_c0 s3_c1 s3_c2 s3_B s3_lt0 s3_lt1 s3_lt2
  clear es3
  refine muladd_rule accS s4_0 s4_1 s4_2 l12 1162945305 4294967295 1162945305 _ (by decide) (by decide) s4_c0 s4_c1 s4_c2 (ev_var_of Fs4 (by decide) h_n4_0) (ev_nc3 _) s4_lt0 s4_lt1 (le_of_lt32 L12) (Nat.le_refl _) (by decide) (by decide) s4_B (by decide) ?_
  intro es5 s5_0 s5_1 s5_2 s5_F s5_c0 s5_c1 s5_c2 s5_lt0 s5_lt1 s5_lt2 s5_A s5_B
  conv at s5_B => rhs; simp only [Nat.reducePow, Nat.reduceSub, Nat.reduceMul, Nat.reduceAdd]
  have Fs5 := Fs4.trans s5_F
  clear Fs4 s5_F s4_c0 s4_c1 s4_c2 s4_B s4_lt0 s4_lt1 s4_lt2
  clear es4
  refine sumadd_rule accS "n3" 0 s5_0 s5_1 s5_2 l11 _ (by decide) (by decide) (Reads_var _) (by decide) s5_c0 s5_c1 s5_c2 (transportF Fs5 (by decide) h_n3_0) s5_lt0 s5_lt1 L11 s5_B (by decide) ?_
  intro es6 s6_0 s6_1 s6_2 s6_F s6_c0 s6_c1 s6_c2 s6_lt0 s6_lt1 s6_lt2 s6_A s6_B
  conv at s6_B => rhs; simp only [Nat.reducePow, Nat.reduceSub, Nat.reduceMul, Nat.reduceAdd]
  have Fs6 := Fs5.trans s6_F
  clear Fs5 s6_F s5_c0 s5_c1 s5_c2 s5_B s5_lt0 s5_lt1 s5_lt2
  clear es5
  have hcols1 : s6_0 + (s6_1 + s6_2 * 2 ^ 32) * 2 ^ 32 = v3_7 + v3_8 * 2 ^ 32 + (l7 + l15 * 801750719 + l14 * 1076732275 + l13 * 1354194884 + l12 * 1162945305 + l11) := (reshape3 s6_0 s6_1 s6_2).trans (colsum6 s1_A s2_A s3_A s4_A s5_A s6_A)
  clear s1_A s2_A s3_A s4_A s5_A s6_A
  have cums1 := combine 256 hcum hcols1 rfl
  clear hcum hcols1
  refine extract_rule accS s6_0 s6_1 s6_2 (by decide) (by decide) s6_c0 s6_c1 s6_c2 ?_
  intro es7 s7_Fx s7_o s7_c0 s7_c1 s7_c2
  have fs1_n4_0 := transport s7_Fx Fs6 (by decide) (by decide) h_n4_0
  have fs1_n5_0 := transport s7_Fx Fs6 (by decide) (by decide) h_n5_0
  have fs1_n6_0 := transport s7_Fx Fs6 (by decide) (by decide) h_n6_0
  have fs1_n7_0 := transport s7_Fx Fs6 (by decide) (by decide) h_n7_0
  have fs1_m0_0 := transport s7_Fx Fs6 (by decide) (by decide) h_m0_0
  have fs1_m1_0 := transport s7_Fx Fs6 (by decide) (by decide) h_m1_0
  have fs1_m2_0 := transport s7_Fx Fs6 (by decide) (by decide) h_m2_0
  have fs1_m3_0 := transport s7_Fx Fs6 (by decide) (by decide) h_m3_0
  have fs1_m4_0 := transport s7_Fx Fs6 (by decide) (by decide) h_m4_0
  have fs1_m5_0 := transport s7_Fx Fs6 (by decide) (by decide) h_m5_0
  have fs1_m6_0 := transport s7_Fx Fs6 (by decide) (by decide) h_m6_0
  have s7_B := extract_bound32 s6_B
  conv at s7_B => rhs; simp only [Nat.reducePow, Nat.reduceDiv]
  clear h_l_7 h_n3_0 h_n4_0 h_n5_0 h_n6_0 h_n7_0 h_m0_0 h_m1_0 h_m2_0 h_m3_0 h_m4_0 h_m5_0 h_m6_0 s6_c0 s6_c1 s6_c2 s6_B s7_Fx Fs6
  clear es6 env
  refine muladd_rule accS s6_1 s6_2 0 l15 1076732275 4294967295 1076732275 _ (by decide) (by decide) s7_c0 s7_c1 s7_c2 (ev_var_of (Frame.refl accS es7) (by decide) fs1_n7_0) (ev_nc1 _) s6_lt1 s6_lt2 (le_of_lt32 L15) (Nat.le_refl _) (by decide) (by decide) s7_B (by decide) ?_
  intro es8 s8_0 s8_1 s8_2 s8_F s8_c0 s8_c1 s8_c2 s8_lt0 s8_lt1 s8_lt2 s8_A s8_B
  replace s8_A := s8_A.trans (z3_xy0 _ _ _)
  conv at s8_B => rhs; simp only [Nat.reducePow, Nat.reduceSub, Nat.reduceMul, Nat.reduceAdd]
  clear s7_c0 s7_c1 s7_c2 s7_B s6_lt1 s6_lt2
  refine muladd_rule accS s8_0 s8_1 s8_2 l14 1354194884 4294967295 1354194884 _ (by decide) (by decide) s8_c0 s8_c1 s8_c2 (ev_var_of s8_F (by decide) fs1_n6_0) (ev_nc2 _) s8_lt0 s8_lt1 (le_of_lt32 L14) (Nat.le_refl _) (by decide) (by decide) s8_B (by decide) ?_
  intro es9 s9_0 s9_1 s9_2 s9_F s9_c0 s9_c1 s9_c2 s9_lt0 s9_lt1 s9_lt2 s9_A s9_B
  conv at s9_B => rhs; simp only [Nat.reducePow, Nat.reduceSub, Nat.reduceMul, Nat.reduceAdd]
  have Fs9 := s8_F.trans s9_F
  clear s8_F s9_F s8_c0 s8_c1 s8_c2 s8_B s8_lt0 s8_lt1 s8_lt2
  clear es8
  refine muladd_rule accS s9_0 s9_1 s9_2 l13 1162945305 4294967295 1162945305 _ (by decide) (by decide) s9_c0 s9_c1 s9_c2 (ev_var_of Fs9 (by decide) fs1_n5_0) (ev_nc3 _) s9_lt0 s9_lt1 (le_of_lt32 L13) (Nat.le_refl _) (by decide) (by decide) s9_B (by decide) ?_
  intro es10 s10_0 s10_1 s10_2 s10_F s10_c0 s10_c1 s10_c2 s10_lt0 s10_lt1 s10_lt2 s10_A s10_B
  conv at s10_B => rhs; simp only [Nat.reducePow, Nat.reduceSub, Nat.reduceMul, Nat.reduceAdd]
  have Fs10 := Fs9.trans s10_F
  clear Fs9 s10_F s9_c0 s9_c1 s9_c2 s9_B s9_lt0 s9_lt1 s9_lt2
  clear es9
  refine sumadd_rule accS "n4" 0 s10_0 s10_1 s10_2 l12 _ (by decide) (by decide) (Reads_var _) (by decide) s10_c0 s10_c1 s10_c2 (transportF Fs10 (by decide) fs1_n4_0) s10_lt0 s10_lt1 L12 s10_B (by decide) ?_
  intro es11 s11_0 s11_1 s11_2 s11_F s11_c0 s11_c1 s11_c2 s11_lt0 s11_lt1 s11_lt2 s11_A s11_B
  conv at s11_B => rhs; simp only [Nat.reducePow, Nat.reduceSub, Nat.reduceMul, Nat.reduceAdd]
  have Fs11 := Fs10.trans s11_F
  clear Fs10 s11_F s10_c0 s10_c1 s10_c2 s10_B s10_lt0 s10_lt1 s10_lt2
  clear es10
  have hcols2 : s11_0 + (s11_1 + s11_2 * 2 ^ 32) * 2 ^ 32 = s6_1 + s6_2 * 2 ^ 32 + (l15 * 1076732275 + l14 * 1354194884 + l13 * 1162945305 + l12) := (reshape3 s11_0 s11_1 s11_2).trans (colsum4 s8_A s9_A s10_A s11_A)
  clear s8_A s9_A s10_A s11_A
  have cums2 := combine 288 cums1 hcols2 rfl
  clear cums1 hcols2
  refine extract_rule accS s11_0 s11_1 s11_2 (by decide) (by decide) s11_c0 s11_c1 s11_c2 ?_
  intro es12 s12_Fx s12_o s12_c0 s12_c1 s12_c2
  have fs2_n5_0 := transport s12_Fx Fs11 (by decide) (by decide) fs1_n5_0
  have fs2_n6_0 := transport s12_Fx Fs11 (by decide) (by decide) fs1_n6_0
  have fs2_n7_0 := transport s12_Fx Fs11 (by decide) (by decide) fs1_n7_0
  have fs2_m0_0 := transport s12_Fx Fs11 (by decide) (by decide) fs1_m0_0
  have fs2_m1_0 := transport s12_Fx Fs11 (by decide) (by decide) fs1_m1_0
  have fs2_m2_0 := transport s12_Fx Fs11 (by decide) (by decide) fs1_m2_0
  have fs2_m3_0 := transport s12_Fx Fs11 (by decide) (by decide) fs1_m3_0
  have fs2_m4_0 := transport s12_Fx Fs11 (by decide) (by decide) fs1_m4_0
  have fs2_m5_0 := transport s12_Fx Fs11 (by decide) (by decide) fs1_m5_0
  have fs2_m6_0 := transport s12_Fx Fs11 (by decide) (by decide) fs1_m6_0
  have fs2_m7_0 := transport s12_Fx Fs11 (by decide) (by decide) s7_o
  have s12_B := extract_bound32 s11_B
  conv at s12_B => rhs; simp only [Nat.reducePow, Nat.reduceDiv]
  clear fs1_n4_0 fs1_n5_0 fs1_n6_0 fs1_n7_0 fs1_m0_0 fs1_m1_0 fs1_m2_0 fs1_m3_0 fs1_m4_0 fs1_m5_0 fs1_m6_0 s7_o s11_c0 s11_c1 s11_c2 s11_B s12_Fx Fs11
  clear es11 es7
  exact scalar_reduce_512_run_p4 es12 l0 l1 l2 l3 l4 l5 l6 l7 l8 l9 l10 l11 l12 l13 l14 l15 v v3_0 v3_1 v3_2 v3_3 v3_4 v3_5 v3_6 s6_0 s11_0 s11_1 s11_2 L0 L1 L2 L3 L4 L5 L6 L7 L8 L9 L10 L11 L12 L13 L14 L15 hv fs2_n5_0 fs2_n6_0 fs2_n7_0 fs2_m0_0 fs2_m1_0 fs2_m2_0 fs2_m3_0 fs2_m4_0 fs2_m5_0 fs2_m6_0 fs2_m7_0 s12_o L_v3_0 L_v3_1 L_v3_2 L_v3_3 L_v3_4 L_v3_5 L_v3_6 s6_lt0 s11_lt0 s11_lt1 s11_lt2 s12_c0 s12_c1 s12_c2 s12_B cums2

set_option maxRecDepth 100000 in
set_option maxHeartbeats 4000000 in
theorem scalar_reduce_512_run_p2 (env : Env) (l0 l1 l2 l3 l4 l5 l6 l7 l8 l9 l10 l11 l12 l13 l14 l15 v : Nat) (v2_0 v2_1 v2_2 v2_3 v2_4 v2_5 v2_6 : Nat) (L0 : l0 < 2 ^ 32) (L1 : l1 < 2 ^ 32) (L2 : l2 < 2 ^ 32) (L3 : l3 < 2 ^ 32) (L4 : l4 < 2 ^ 32) (L5 : l5 < 2 ^ 32) (L6 : l6 < 2 ^ 32) (L7 : l7 < 2 ^ 32) (L8 : l8 < 2 ^ 32) (L9 : l9 < 2 ^ 32) (L10 : l10 < 2 ^ 32) (L11 : l11 < 2 ^ 32) (L12 : l12 < 2 ^ 32) (L13 : l13 < 2 ^ 32) (L14 : l14 < 2 ^ 32) (L15 : l15 < 2 ^ 32) (hv : val16x32 l0 l1 l2 l3 l4 l5 l6 l7 l8 l9 l10 l11 l12 l13 l14 l15 = v) 
    (h_l_5 : env.get "l" 5 = l5)
    (h_l_6 : env.get "l" 6 = l6)
    (h_l_7 : env.get "l" 7 = l7)
    (h_n1_0 : env.get "n1" 0 = l9)
    (h_n2_0 : env.get "n2" 0 = l10)
    (h_n3_0 : env.get "n3" 0 = l11)
    (h_n4_0 : env.get "n4" 0 = l12)
    (h_n5_0 : env.get "n5" 0 = l13)
    (h_n6_0 : env.get "n6" 0 = l14)
    (h_n7_0 : env.get "n7" 0 = l15)
    (h_m0_0 : env.get "m0" 0 = v2_0)
    (h_m1_0 : env.get "m1" 0 = v2_1)
    (h_m2_0 : env.get "m2" 0 = v2_2)
    (h_m3_0 : env.get "m3" 0 = v2_3)
    (h_m4_0 : env.get "m4" 0 = v2_4)
    (L_v2_0 : v2_0 < 2 ^ 32)
    (L_v2_1 : v2_1 < 2 ^ 32)
    (L_v2_2 : v2_2 < 2 ^ 32)
    (L_v2_3 : v2_3 < 2 ^ 32)
    (L_v2_4 : v2_4 < 2 ^ 32)
    (L_v2_5 : v2_5 < 2 ^ 32)
    (L_v2_6 : v2_6 < 2 ^ 32)
    (hc0 : env.get "c0" 0 = v2_5)
    (hc1 : env.get "c1" 0 = v2_6)
    (hc2 : env.get "c2" 0 = 0)
    (hB : v2_5 + v2_6 * 2 ^ 32 + 0 * 2 ^ 64 ≤ 4395623184)
    (hcum : v2_0 + v2_1 * 2 ^ 32 + v2_2 * 2 ^ 64 + v2_3 * 2 ^ 96 + v2_4 * 2 ^ 128 + (v2_5 + v2_6 * 2 ^ 32) * 2 ^ 160 = l0 + (l8 * 801750719) + (l1 + l9 * 801750719 + l8 * 1076732275) * 2 ^ 32 + (l2 + l10 * 801750719 + l9 * 1076732275 + l8 * 1354194884) * 2 ^ 64 + (l3 + l11 * 801750719 + l10 * 1076732275 + l9 * 1354194884 + l8 * 1162945305) * 2 ^ 96 + (l4 + l12 * 801750719 + l11 * 1076732275 + l10 * 1354194884 + l9 * 1162945305 + l8) * 2 ^ 128) :
    RedPost v (runR env (Gen.scalar8x32.scalar_reduce_512.body.drop 145)) := by
  simp only [Gen.scalar8x32.scalar_reduce_512, List.drop_succ_cons, List.drop_zero]
  refine sumadd_rule accS "l" 5 v2_5 v2_6 0 l5 _ (by decide) (by decide) (Reads_idx _ _) (by decide) hc0 hc1 hc2 (transportF (Frame.refl accS env) (by decide) h_l_5) L_v2_5 L_v2_6 L5 hB (by decide) ?_
  intro es1 s1_0 s1_1 s1_2 s1_F s1_c0 s1_c1 s1_c2 s1_lt0 s1_lt1 s1_lt2 s1_A s1_B
  replace s1_A := s1_A.trans (z3_xy0 _ _ _)
  conv at s1_B => rhs; simp only [Nat.reducePow, Nat.reduceSub, Nat.reduceMul, Nat.reduceAdd]
  clear hc0 hc1 hc2 hB L_v2_5 L_v2_6
  refine muladd_rule accS s1_0 s1_1 s1_2 l13 801750719 4294967295 801750719 _ (by decide) (by decide) s1_c0 s1_c1 s1_c2 (ev_var_of s1_F (by decide) h_n5_0) (ev_nc0 _) s1_lt0 s1_lt1 (le_of_lt32 L13) (Nat.le_refl _) (by decide) (by decide) s1_B (by decide) ?_
  intro es2 s2_0 s2_1 s2_2 s2_F s2_c0 s2_c1 s2_c2 s2_lt0 s2_lt1 s2_lt2 s2_A s2_B
  conv at s2_B => rhs; simp only [Nat.reducePow, Nat.reduceSub, Nat.reduceMul, Nat.reduceAdd]
  have Fs2 := s1_F.trans s2_F
  clear s1_F s2_F s1_c0 s1_c1 s1_c2 s1_B s1_lt0 s1_lt1 s1_lt2
  clear es1
  refine muladd_rule accS s2_0 s2_1 s2_2 l12 1076732275 4294967295 1076732275 _ (by decide) (by decide) s2_c0 s2_c1 s2_c2 (ev_var_of Fs2 (by decide) h_n4_0) (ev_nc1 _) s2_lt0 s2_lt1 (le_of_lt32 L12) (Nat.le_refl _) (by decide) (by decide) s2_B (by decide) ?_
  intro es3 s3_0 s3_1 s3_2 s3_F s3_c0 s3_c1 s3_c2 s3_lt0 s3_lt1 s3_lt2 s3_A s3_B
  conv at s3_B => rhs; simp only [Nat.reducePow, Nat.reduceSub, Nat.reduceMul, Nat.reduceAdd]
  have Fs3 := Fs2.trans s3_F
  clear Fs2 s3_F s2_c0 s2_c1 s2_c2 s2_B s2_lt0 s2_lt1 s2_lt2
  clear es2
  refine muladd_rule accS s3_0 s3_1 s3_2 l11 1354194884 4294967295 1354194884 _ (by decide) (by decide) s3_c0 s3_c1 s3_c2 (ev_var_of Fs3 (by decide) h_n3_0) (ev_nc2 _) s3_lt0 s3_lt1 (le_of_lt32 L11) (Nat.le_refl _) (by decide) (by decide) s3_B (by decide) ?_
  intro es4 s4_0 s4_1 s4_2 s4_F s4_c0 s4_c1 s4_c2 s4_lt0 s4_lt1 s4_lt2 s4_A s4_B
  conv at s4_B => rhs; simp only [Nat.reducePow, Nat.reduceSub, Nat.reduceMul, Nat.reduceAdd]
  have Fs4 := Fs3.trans s4_F
  clear Fs3 s4_F s3_c0 s3_c1 s3_c2 s3_B s3_lt0 s3_lt1 s3_lt2
  clear es3
  refine muladd_rule accS s4_0 s4_1 s4_2 l10 1162945305 4294967295 1162945305 _ (by decide) (by decide) s4_c0 s4_c1 s4_c2 (ev_var_of Fs4 (by decide) h_n2_0) (ev_nc3 _) s4_lt0 s4_lt1 (le_of_lt32 L10) (Nat.le_refl _) (by decide) (by decide) s4_B (by decide) ?_
  intro es5 s5_0 s5_1 s5_2 s5_F s5_c0 s5_c1 s5_c2 s5_lt0 s5_lt1 s5_lt2 s5_A s5_B
  conv at s5_B => rhs; simp only [Nat.reducePow, Nat.reduceSub, Nat.reduceMul, Nat.reduceAdd]
  have Fs5 := Fs4.trans s5_F
  clear Fs4 s5_F s4_c0 s4_c1 s4_c2 s4_B s4_lt0 s4_lt1 s4_lt2
  clear es4
  refine sumadd_rule accS "n1" 0 s5_0 s5_1 s5_2 l9 _ (by decide) (by decide) (Reads_var _) (by decide) s5_c0 s5_c1 s5_c2 (transportF Fs5 (by decide) h_n1_0) s5_lt0 s5_lt1 L9 s5_B (by decide) ?_
  intro es6 s6_0 s6_1 s6_2 s6_F s6_c0 s6_c1 s6_c2 s6_lt0 s6_lt1 s6_lt2 s6_A s6_B
  conv at s6_B => rhs; simp only [Nat.reducePow, Nat.reduceSub, Nat.reduceMul, Nat.reduceAdd]
  have Fs6 := Fs5.trans s6_F
  clear Fs5 s6_F s5_c0 s5_c1 s5_c2 s5_B s5_lt0 s5_lt1 s5_lt2
  clear es5
  have hcols1 : s6_0 + (s6_1 + s6_2 * 2 ^ 32) * 2 ^ 32 = v2_5 + v2_6 * 2 ^ 32 + (l5 + l13 * 801750719 + l12 * 1076732275 + l11 * 1354194884 + l10 * 1162945305 + l9) := (reshape3 s6_0 s6_1 s6_2).trans (colsum6 s1_A s2_A s3_A s4_A s5_A s6_A)
  clear s1_A s2_A s3_A s4_A s5_A s6_A
  have cums1 := combine 192 hcum hcols1 rfl
  clear hcum hcols1
  refine extract_rule accS s6_0 s6_1 s6_2 (by decide) (by decide) s6_c0 s6_c1 s6_c2 ?_
  intro es7 s7_Fx s7_o s7_c0 s7_c1 s7_c2
  have fs1_l_6 := transport s7_Fx Fs6 (by decide) (by decide) h_l_6
  have fs1_l_7 := transport s7_Fx Fs6 (by decide) (by decide) h_l_7
  have fs1_n2_0 := transport s7_Fx Fs6 (by decide) (by decide) h_n2_0
  have fs1_n3_0 := transport s7_Fx Fs6 (by decide) (by decide) h_n3_0
  have fs1_n4_0 := transport s7_Fx Fs6 (by decide) (by decide) h_n4_0
  have fs1_n5_0 := transport s7_Fx Fs6 (by decide) (by decide) h_n5_0
  have fs1_n6_0 := transport s7_Fx Fs6 (by decide) (by decide) h_n6_0
  have fs1_n7_0 := transport s7_Fx Fs6 (by decide) (by decide) h_n7_0
  have fs1_m0_0 := transport s7_Fx Fs6 (by decide) (by decide) h_m0_0
  have fs1_m1_0 := transport s7_Fx Fs6 (by decide) (by decide) h_m1_0
  have fs1_m2_0 := transport s7_Fx Fs6 (by decide) (by decide) h_m2_0
  have fs1_m3_0 := transport s7_Fx Fs6 (by decide) (by decide) h_m3_0
  have fs1_m4_0 := transport s7_Fx Fs6 (by decide) (by decide) h_m4_0
  have s7_B := extract_bound32 s6_B
  conv at s7_B => rhs; simp only [Nat.reducePow, Nat.reduceDiv]
  clear h_l_5 h_l_6 h_l_7 h_n1_0 h_n2_0 h_n3_0 h_n4_0 h_n5_0 h_n6_0 h_n7_0 h_m0_0 h_m1_0 h_m2_0 h_m3_0 h_m4_0 s6_c0 s6_c1 s6_c2 s6_B s7_Fx Fs6
  clear es6 env
  refine sumadd_rule accS "l" 6 s6_1 s6_2 0 l6 _ (by decide) (by decide) (Reads_idx _ _) (by decide) s7_c0 s7_c1 s7_c2 (transportF (Frame.refl accS es7) (by decide) fs1_l_6) s6_lt1 s6_lt2 L6 s7_B (by decide) ?_
  intro es8 s8_0 s8_1 s8_2 s8_F s8_c0 s8_c1 s8_c2 s8_lt0 s8_lt1 s8_lt2 s8_A s8_B
  replace s8_A := s8_A.trans (z3_xy0 _ _ _)
  conv at s8_B => rhs; simp only [Nat.reducePow, Nat.reduceSub, Nat.reduceMul, Nat.reduceAdd]
  clear s7_c0 s7_c1 s7_c2 s7_B s6_lt1 s6_lt2
  refine muladd_rule accS s8_0 s8_1 s8_2 l14 801750719 4294967295 801750719 _ (by decide) (by decide) s8_c0 s8_c1 s8_c2 (ev_var_of s8_F (by decide) fs1_n6_0) (ev_nc0 _) s8_lt0 s8_lt1 (le_of_lt32 L14) (Nat.le_refl _) (by decide) (by decide) s8_B (by decide) ?_
  intro es9 s9_0 s9_1 s9_2 s9_F s9_c0 s9_c1 s9_c2 s9_lt0 s9_lt1 s9_lt2 s9_A s9_B
  conv at s9_B => rhs; simp only [Nat.reducePow, Nat.reduceSub, Nat.reduceMul, Nat.reduceAdd]
  have Fs9 := s8_F.trans s9_F
  clear s8_F s9_F s8_c0 s8_c1 s8_c2 s8_B s8_lt0 s8_lt1 s8_lt2
  clear es8
  refine muladd_rule accS s9_0 s9_1 s9_2 l13 1076732275 4294967295 1076732275 _ (by decide) (by decide) s9_c0 s9_c1 s9_c2 (ev_var_of Fs9 (by decide) fs1_n5_0) (ev_nc1 _) s9_lt0 s9_lt1 (le_of_lt32 L13) (Nat.le_refl _) (by decide) (by decide) s9_B (by decide) ?_
  intro es10 s10_0 s10_1 s10_2 s10_F s10_c0 s10_c1 s10_c2 s10_lt0 s10_lt1 s10_lt2 s10_A s10_B
  conv at s10_B => rhs; simp only [Nat.reducePow, Nat.reduceSub, Nat.reduceMul, Nat.reduceAdd]
  have Fs10 := Fs9.trans s10_F
  clear Fs9 s10_F s9_c0 s9_c1 s9_c2 s9_B s9_lt0 s9_lt1 s9_lt2
  clear es9
  refine muladd_rule accS s10_0 s10_1 s10_2 l12 1354194884 4294967295 1354194884 _ (by decide) (by decide) s10_c0 s10_c1 s10_c2 (ev_var_of Fs10 (by decide) fs1_n4_0) (ev_nc2 _) s10_lt0 s10_lt1 (le_of_lt32 L12) (Nat.le_refl _) (by decide) (by decide) s10_B (by decide) ?_
  intro es11 s11_0 s11_1 s11_2 s11_F s11_c0 s11_c1 s11_c2 s11_lt0 s11_lt1 s11_lt2 s11_A s11_B
  conv at s11_B => rhs; simp only [Nat.reducePow, Nat.reduceSub, Nat.reduceMul, Nat.reduceAdd]
  have Fs11 := Fs10.trans s11_F
  clear Fs10 s11_F s10_c0 s10_c1 s10_c2 s10_B s10_lt0 s10_lt1 s10_lt2
  clear es10
  refine muladd_rule accS s11_0 s11_1 s11_2 l11 1162945305 4294967295 1162945305 _ (by decide) (by decide) s11_c0 s11_c1 s11_c2 (ev_var_of Fs11 (by decide) fs1_n3_0) (ev_nc3 _) s11_lt0 s11_lt1 (le_of_lt32 L11) (Nat.le_refl _) (by decide) (by decide) s11_B (by decide) ?_
  intro es12 s12_0 s12_1 s12_2 s12_F s12_c0 s12_c1 s12_c2 s12_lt0 s12_lt1 s12_lt2 s12_A s12_B
  conv at s12_B => rhs; simp only [Nat.reducePow, Nat.reduceSub, Nat.reduceMul, Nat.reduceAdd]
  have Fs12 := Fs11.trans s12_F
  clear Fs11 s12_F s11_c0 s11_c1 s11_c2 s11_B s11_lt0 s11_lt1 s11_lt2
  clear es11
  refine sumadd_rule accS "n2" 0 s12_0 s12_1 s12_2 l10 _ (by decide) (by decide) (Reads_var _) (by decide) s12_c0 s12_c1 s12_c2 (transportF Fs12 (by decide) fs1_n2_0) s12_lt0 s12_lt1 L10 s12_B (by decide) ?_
  intro es13 s13_0 s13_1 s13_2 s13_F s13_c0 s13_c1 s13_c2 s13_lt0 s13_lt1 s13_lt2 s13_A s13_B
  conv at s13_B => rhs; simp only [Nat.reducePow, Nat.reduceSub, Nat.reduceMul, Nat.reduceAdd]
  have Fs13 := Fs12.trans s13_F
  clear Fs12 s13_F s12_c0 s12_c1 s12_c2 s12_B s12_lt0 s12_lt1 s12_lt2
  clear es12
  have hcols2 : s13_0 + (s13_1 + s13_2 * 2 ^ 32) * 2 ^ 32 = s6_1 + s6_2 * 2 ^ 32 + (l6 + l14 * 801750719 + l13 * 1076732275 + l12 * 1354194884 + l11 * 1162945305 + l10) := (reshape3 s13_0 s13_1 s13_2).trans (colsum6 s8_A s9_A s10_A s11_A s12_A s13_A)
  clear s8_A s9_A s10_A s11_A s12_A s13_A
  have cums2 := combine 224 cums1 hcols2 rfl
  clear cums1 hcols2
  refine extract_rule accS s13_0 s13_1 s13_2 (by decide) (by decide) s13_c0 s13_c1 s13_c2 ?_
  intro es14 s14_Fx s14_o s14_c0 s14_c1 s14_c2
  have fs2_l_7 := transport s14_Fx Fs13 (by decide) (by decide) fs1_l_7
  have fs2_n3_0 := transport s14_Fx Fs13 (by decide) (by decide) fs1_n3_0
  have fs2_n4_0 := transport s14_Fx Fs13 (by decide) (by decide) fs1_n4_0
  have fs2_n5_0 := transport s14_Fx Fs13 (by decide) (by decide) fs1_n5_0
  have fs2_n6_0 := transport s14_Fx Fs13 (by decide) (by decide) fs1_n6_0
  have fs2_n7_0 := transport s14_Fx Fs13 (by decide) (by decide) fs1_n7_0
  have fs2_m0_0 := transport s14_Fx Fs13 (by decide) (by decide) fs1_m0_0
  have fs2_m1_0 := transport s14_Fx Fs13 (by decide) (by decide) fs1_m1_0
  have fs2_m2_0 := transport s14_Fx Fs13 (by decide) (by decide) fs1_m2_0
  have fs2_m3_0 := transport s14_Fx Fs13 (by decide) (by decide) fs1_m3_0
  have fs2_m4_0 := transport s14_Fx Fs13 (by decide) (by decide) fs1_m4_0
  have fs2_m5_0 := transport s14_Fx Fs13 (by decide) (by decide) s7_o
  have s14_B := extract_bound32 s13_B
  conv at s14_B => rhs; simp only [Nat.reducePow, Nat.reduceDiv]
  clear fs1_l_6 fs1_l_7 fs1_n2_0 fs1_n3_0 fs1_n4_0 fs1_n5_0 fs1_n6_0 fs1_n7_0 fs1_m0_0 fs1_m1_0 fs1_m2_0 fs1_m3_0 fs1_m4_0 s7_o s13_c0 s13_c1 s13_c2 s13_B s14_Fx Fs13
  clear es13 es7
  exact scalar_reduce_512_run_p3 es14 l0 l1 l2 l3 l4 l5 l6 l7 l8 l9 l10 l11 l12 l13 l14 l15 v v2_0 v2_1 v2_2 v2_3 v2_4 s6_0 s13_0 s13_1 s13_2 L0 L1 L2 L3 L4 L5 L6 L7 L8 L9 L10 L11 L12 L13 L14 L15 hv fs2_l_7 fs2_n3_0 fs2_n4_0 fs2_n5_0 fs2_n6_0 fs2_n7_0 fs2_m0_0 fs2_m1_0 fs2_m2_0 fs2_m3_0 fs2_m4_0 fs2_m5_0 s14_o L_v2_0 L_v2_1 L_v2_2 L_v2_3 L_v2_4 s6_lt0 s13_lt0 s13_lt1 s13_lt2 s14_c0 s14_c1 s14_c2 s14_B cums2

set_option maxRecDepth 100000 in
set_option maxHeartbeats 4000000 in
theorem scalar_reduce_512_run_p1 (env : Env) (l0 l1 l2 l3 l4 l5 l6 l7 l8 l9 l10 l11 l12 l13 l14 l15 v : Nat) (v1_0 v1_1 v1_2 v1_3 : Nat) (L0 : l0 < 2 ^ 32) (L1 : l1 < 2 ^ 32) (L2 : l2 < 2 ^ 32) (L3 : l3 < 2 ^ 32) (L4 : l4 < 2 ^ 32) (L5 : l5 < 2 ^ 32) (L6 : l6 < 2 ^ 32) (L7 : l7 < 2 ^ 32) (L8 : l8 < 2 ^ 32) (L9 : l9 < 2 ^ 32) (L10 : l10 < 2 ^ 32) (L11 : l11 < 2 ^ 32) (L12 : l12 < 2 ^ 32) (L13 : l13 < 2 ^ 32) (L14 : l14 < 2 ^ 32) (L15 : l15 < 2 ^ 32) (hv : val16x32 l0 l1 l2 l3 l4 l5 l6 l7 l8 l9 l10 l11 l12 l13 l14 l15 = v) 
    (h_l_2 : env.get "l" 2 = l2)
    (h_l_3 : env.get "l" 3 = l3)
    (h_l_4 : env.get "l" 4 = l4)
    (h_l_5 : env.get "l" 5 = l5)
    (h_l_6 : env.get "l" 6 = l6)
    (h_l_7 : env.get "l" 7 = l7)
    (h_n0_0 : env.get "n0" 0 = l8)
    (h_n1_0 : env.get "n1" 0 = l9)
    (h_n2_0 : env.get "n2" 0 = l10)
    (h_n3_0 : env.get "n3" 0 = l11)
    (h_n4_0 : env.get "n4" 0 = l12)
    (h_n5_0 : env.get "n5" 0 = l13)
    (h_n6_0 : env.get "n6" 0 = l14)
    (h_n7_0 : env.get "n7" 0 = l15)
    (h_m0_0 : env.get "m0" 0 = v1_0)
    (h_m1_0 : env.get "m1" 0 = v1_1)
    (L_v1_0 : v1_0 < 2 ^ 32)
    (L_v1_1 : v1_1 < 2 ^ 32)
    (L_v1_2 : v1_2 < 2 ^ 32)
    (L_v1_3 : v1_3 < 2 ^ 32)
    (hc0 : env.get "c0" 0 = v1_2)
    (hc1 : env.get "c1" 0 = v1_3)
    (hc2 : env.get "c2" 0 = 0)
    (hB : v1_2 + v1_3 * 2 ^ 32 + 0 * 2 ^ 64 ≤ 1878482994)
    (hcum : v1_0 + v1_1 * 2 ^ 32 + (v1_2 + v1_3 * 2 ^ 32) * 2 ^ 64 = l0 + (l8 * 801750719) + (l1 + l9 * 801750719 + l8 * 1076732275) * 2 ^ 32) :
    RedPost v (runR env (Gen.scalar8x32.scalar_reduce_512.body.drop 40)) := by
  simp only [Gen.scalar8x32.scalar_reduce_512, List.drop_succ_cons, List.drop_zero]
  refine sumadd_rule accS "l" 2 v1_2 v1_3 0 l2 _ (by decide) (by decide) (Reads_idx _ _) (by decide) hc0 hc1 hc2 (transportF (Frame.refl accS env) (by decide) h_l_2) L_v1_2 L_v1_3 L2 hB (by decide) ?_
  intro es1 s1_0 s1_1 s1_2 s1_F s1_c0 s1_c1 s1_c2 s1_lt0 s1_lt1 s1_lt2 s1_A s1_B
  replace s1_A := s1_A.trans (z3_xy0 _ _ _)
  conv at s1_B => rhs; simp only [Nat.reducePow, Nat.reduceSub, Nat.reduceMul, Nat.reduceAdd]
  clear hc0 hc1 hc2 hB L_v1_2 L_v1_3
  refine muladd_rule accS s1_0 s1_1 s1_2 l10 801750719 4294967295 801750719 _ (by decide) (by decide) s1_c0 s1_c1 s1_c2 (ev_var_of s1_F (by decide) h_n2_0) (ev_nc0 _) s1_lt0 s1_lt1 (le_of_lt32 L10) (Nat.le_refl _) (by decide) (by decide) s1_B (by decide) ?_
  intro es2 s2_0 s2_1 s2_2 s2_F s2_c0 s2_c1 s2_c2 s2_lt0 s2_lt1 s2_lt2 s2_A s2_B
  conv at s2_B => rhs; simp only [Nat.reducePow, Nat.reduceSub, Nat.reduceMul, Nat.reduceAdd]
  have Fs2 := s1_F.trans s2_F
  clear s1_F s2_F s1_c0 s1_c1 s1_c2 s1_B s1_lt0 s1_lt1 s1_lt2
  clear es1
  refine muladd_rule accS s2_0 s2_1 s2_2 l9 1076732275 4294967295 1076732275 _ (by decide) (by decide) s2_c0 s2_c1 s2_c2 (ev_var_of Fs2 (by decide) h_n1_0) (ev_nc1 _) s2_lt0 s2_lt1 (le_of_lt32 L9) (Nat.le_refl _) (by decide) (by decide) s2_B (by decide) ?_
  intro es3 s3_0 s3_1 s3_2 s3_F s3_c0 s3_c1 s3_c2 s3_lt0 s3_lt1 s3_lt2 s3_A s3_B
  conv at s3_B => rhs; simp only [Nat.reducePow, Nat.reduceSub, Nat.reduceMul, Nat.reduceAdd]
  have Fs3 := Fs2.trans s3_F
  clear Fs2 s3_F s2_c0 s2_c1 s2_c2 s2_B s2_lt0 s2_lt1 s2_lt2
  clear es2
  refine muladd_rule accS s3_0 s3_1 s3_2 l8 1354194884 4294967295 1354194884 _ (by decide) (by decide) s3_c0 s3_c1 s3_c2 (ev_var_of Fs3 (by decide) h_n0_0) (ev_nc2 _) s3_lt0 s3_lt1 (le_of_lt32 L8) (Nat.le_refl _) (by decide) (by decide) s3_B (by decide) ?_
  intro es4 s4_0 s4_1 s4_2 s4_F s4_c0 s4_c1 s4_c2 s4_lt0 s4_lt1 s4_lt2 s4_A s4_B
  conv at s4_B => rhs; simp only [Nat.reducePow, Nat.reduceSub, Nat.reduceMul, Nat.reduceAdd]
  have Fs4 := Fs3.trans s4_F
  clear Fs3 s4_F s3_c0 s3_c1 s3_c2 s3_B s3_lt0 s3_lt1 s3_lt2
  clear es3
  have hcols1 : s4_0 + (s4_1 + s4_2 * 2 ^ 32) * 2 ^ 32 = v1_2 + v1_3 * 2 ^ 32 + (l2 + l10 * 801750719 + l9 * 1076732275 + l8 * 1354194884) := (reshape3 s4_0 s4_1 s4_2).trans (colsum4 s1_A s2_A s3_A s4_A)
  clear s1_A s2_A s3_A s4_A
  have cums1 := combine 96 hcum hcols1 rfl
  clear hcum hcols1
  refine extract_rule accS s4_0 s4_1 s4_2 (by decide) (by decide) s4_c0 s4_c1 s4_c2 ?_
  intro es5 s5_Fx s5_o s5_c0 s5_c1 s5_c2
  have fs1_l_3 := transport s5_Fx Fs4 (by decide) (by decide) h_l_3
  have fs1_l_4 := transport s5_Fx Fs4 (by decide) (by decide) h_l_4
  have fs1_l_5 := transport s5_Fx Fs4 (by decide) (by decide) h_l_5
  have fs1_l_6 := transport s5_Fx Fs4 (by decide) (by decide) h_l_6
  have fs1_l_7 := transport s5_Fx Fs4 (by decide) (by decide) h_l_7
  have fs1_n0_0 := transport s5_Fx Fs4 (by decide) (by decide) h_n0_0
  have fs1_n1_0 := transport s5_Fx Fs4 (by decide) (by decide) h_n1_0
  have fs1_n2_0 := transport s5_Fx Fs4 (by decide) (by decide) h_n2_0
  have fs1_n3_0 := transport s5_Fx Fs4 (by decide) (by decide) h_n3_0
  have fs1_n4_0 := transport s5_Fx Fs4 (by decide) (by decide) h_n4_0
  have fs1_n5_0 := transport s5_Fx Fs4 (by decide) (by decide) h_n5_0
  have fs1_n6_0 := transport s5_Fx Fs4 (by decide) (by decide) h_n6_0
  have fs1_n7_0 := transport s5_Fx Fs4 (by decide) (by decide) h_n7_0
  have fs1_m0_0 := transport s5_Fx Fs4 (by decide) (by decide) h_m0_0
  have fs1_m1_0 := transport s5_Fx Fs4 (by decide) (by decide) h_m1_0
  have s5_B := extract_bound32 s4_B
  conv at s5_B => rhs; simp only [Nat.reducePow, Nat.reduceDiv]
  clear h_l_2 h_l_3 h_l_4 h_l_5 h_l_6 h_l_7 h_n0_0 h_n1_0 h_n2_0 h_n3_0 h_n4_0 h_n5_0 h_n6_0 h_n7_0 h_m0_0 h_m1_0 s4_c0 s4_c1 s4_c2 s4_B s5_Fx Fs4
  clear es4 env
  refine sumadd_rule accS "l" 3 s4_1 s4_2 0 l3 _ (by decide) (by decide) (Reads_idx _ _) (by decide) s5_c0 s5_c1 s5_c2 (transportF (Frame.refl accS es5) (by decide) fs1_l_3) s4_lt1 s4_lt2 L3 s5_B (by decide) ?_
  intro es6 s6_0 s6_1 s6_2 s6_F s6_c0 s6_c1 s6_c2 s6_lt0 s6_lt1 s6_lt2 s6_A s6_B
  replace s6_A := s6_A.trans (z3_xy0 _ _ _)
  conv at s6_B => rhs; simp only [Nat.reducePow, Nat.reduceSub, Nat.reduceMul, Nat.reduceAdd]
  clear s5_c0 s5_c1 s5_c2 s5_B s4_lt1 s4_lt2
  refine muladd_rule accS s6_0 s6_1 s6_2 l11 801750719 4294967295 801750719 _ (by decide) (by decide) s6_c0 s6_c1 s6_c2 (ev_var_of s6_F (by decide) fs1_n3_0) (ev_nc0 _) s6_lt0 s6_lt1 (le_of_lt32 L11) (Nat.le_refl _) (by decide) (by decide) s6_B (by decide) ?_
  intro es7 s7_0 s7_1 s7_2 s7_F s7_c0 s7_c1 s7_c2 s7_lt0 s7_lt1 s7_lt2 s7_A s7_B
  conv at s7_B => rhs; simp only [Nat.reducePow, Nat.reduceSub, Nat.reduceMul, Nat.reduceAdd]
  have Fs7 := s6_F.trans s7_F
  clear s6_F s7_F s6_c0 s6_c1 s6_c2 s6_B s6_lt0 s6_lt1 s6_lt2
  clear es6
  refine muladd_rule accS s7_0 s7_1 s7_2 l10 1076732275 4294967295 1076732275 _ (by decide) (by decide) s7_c0 s7_c1 s7_c2 (ev_var_of Fs7 (by decide) fs1_n2_0) (ev_nc1 _) s7_lt0 s7_lt1 (le_of_lt32 L10) (Nat.le_refl _) (by decide) (by decide) s7_B (by decide) ?_
  intro es8 s8_0 s8_1 s8_2 s8_F s8_c0 s8_c1 s8_c2 s8_lt0 s8_lt1 s8_lt2 s8_A s8_B
  conv at s8_B => rhs; simp only [Nat.reducePow, Nat.reduceSub, Nat.reduceMul, Nat.reduceAdd]
  have Fs8 := Fs7.trans s8_F
  clear Fs7 s8_F s7_c0 s7_c1 s7_c2 s7_B s7_lt0 s7_lt1 s7_lt2
  clear es7
  refine muladd_rule accS s8_0 s8_1 s8_2 l9 1354194884 4294967295 1354194884 _ (by decide) (by decide) s8_c0 s8_c1 s8_c2 (ev_var_of Fs8 (by decide) fs1_n1_0) (ev_nc2 _) s8_lt0 s8_lt1 (le_of_lt32 L9) (Nat.le_refl _) (by decide) (by decide) s8_B (by decide) ?_
  intro es9 s9_0 s9_1 s9_2 s9_F s9_c0 s9_c1 s9_c2 s9_lt0 s9_lt1 s9_lt2 s9_A s9_B
  conv at s9_B => rhs; simp only [Nat.reducePow, Nat.reduceSub, Nat.reduceMul, Nat.reduceAdd]
  have Fs9 := Fs8.trans s9_F
  clear Fs8 s9_F s8_c0 s8_c1 s8_c2 s8_B s8_lt0 s8_lt1 s8_lt2
  clear es8
  refine muladd_rule accS s9_0 s9_1 s9_2 l8 1162945305 4294967295 1162945305 _ (by decide) (by decide) s9_c0 s9_c1 s9_c2 (ev_var_of Fs9 (by decide) fs1_n0_0) (ev_nc3 _) s9_lt0 s9_lt1 (le_of_lt32 L8) (Nat.le_refl _) (by decide) (by decide) s9_B (by decide) ?_
  intro es10 s10_0 s10_1 s10_2 s10_F s10_c0 s10_c1 s10_c2 s10_lt0 s10_lt1 s10_lt2 s10_A s10_B
  conv at s10_B => rhs; simp only [Nat.reducePow, Nat.reduceSub, Nat.reduceMul, Nat.reduceAdd]
  have Fs10 := Fs9.trans s10_F
  clear Fs9 s10_F s9_c0 s9_c1 s9_c2 s9_B s9_lt0 s9_lt1 s9_lt2
  clear es9
  have hcols2 : s10_0 + (s10_1 + s10_2 * 2 ^ 32) * 2 ^ 32 = s4_1 + s4_2 * 2 ^ 32 + (l3 + l11 * 801750719 + l10 * 1076732275 + l9 * 1354194884 + l8 * 1162945305) := (reshape3 s10_0 s10_1 s10_2).trans (colsum5 s6_A s7_A s8_A s9_A s10_A)
  clear s6_A s7_A s8_A s9_A s10_A
  have cums2 := combine 128 cums1 hcols2 rfl
  clear cums1 hcols2
  refine extract_rule accS s10_0 s10_1 s10_2 (by decide) (by decide) s10_c0 s10_c1 s10_c2 ?_
  intro es11 s11_Fx s11_o s11_c0 s11_c1 s11_c2
  have fs2_l_4 := transport s11_Fx Fs10 (by decide) (by decide) fs1_l_4
  have fs2_l_5 := transport s11_Fx Fs10 (by decide) (by decide) fs1_l_5
  have fs2_l_6 := transport s11_Fx Fs10 (by decide) (by decide) fs1_l_6
  have fs2_l_7 := transport s11_Fx Fs10 (by decide) (by decide) fs1_l_7
  have fs2_n0_0 := transport s11_Fx Fs10 (by decide) (by decide) fs1_n0_0
  have fs2_n1_0 := transport s11_Fx Fs10 (by decide) (by decide) fs1_n1_0
  have fs2_n2_0 := transport s11_Fx Fs10 (by decide) (by decide) fs1_n2_0
  have fs2_n3_0 := transport s11_Fx Fs10 (by decide) (by decide) fs1_n3_0
  have fs2_n4_0 := transport s11_Fx Fs10 (by decide) (by decide) fs1_n4_0
  have fs2_n5_0 := transport s11_Fx Fs10 (by decide) (by decide) fs1_n5_0
  have fs2_n6_0 := transport s11_Fx Fs10 (by decide) (by decide) fs1_n6_0
  have fs2_n7_0 := transport s11_Fx Fs10 (by decide) (by decide) fs1_n7_0
  have fs2_m0_0 := transport s11_Fx Fs10 (by decide) (by decide) fs1_m0_0
  have fs2_m1_0 := transport s11_Fx Fs10 (by decide) (by decide) fs1_m1_0
  have fs2_m2_0 := transport s11_Fx Fs10 (by decide) (by decide) s5_o
  have s11_B := extract_bound32 s10_B
  conv at s11_B => rhs; simp only [Nat.reducePow, Nat.reduceDiv]
  clear fs1_l_3 fs1_l_4 fs1_l_5 fs1_l_6 fs1_l_7 fs1_n0_0 fs1_n1_0 fs1_n2_0 fs1_n3_0 fs1_n4_0 fs1_n5_0 fs1_n6_0 fs1_n7_0 fs1_m0_0 fs1_m1_0 s5_o s10_c0 s10_c1 s10_c2 s10_B s11_Fx Fs10
  clear es10 es5
  refine sumadd_rule accS "l" 4 s10_1 s10_2 0 l4 _ (by decide) (by decide) (Reads_idx _ _) (by decide) s11_c0 s11_c1 s11_c2 (transportF (Frame.refl accS es11) (by decide) fs2_l_4) s10_lt1 s10_lt2 L4 s11_B (by decide) ?_
  intro es12 s12_0 s12_1 s12_2 s12_F s12_c0 s12_c1 s12_c2 s12_lt0 s12_lt1 s12_lt2 s12_A s12_B
  replace s12_A := s12_A.trans (z3_xy0 _ _ _)
  conv at s12_B => rhs; simp only [Nat.reducePow, Nat.reduceSub, Nat.reduceMul, Nat.reduceAdd]
  clear s11_c0 s11_c1 s11_c2 s11_B s10_lt1 s10_lt2
  refine muladd_rule accS s12_0 s12_1 s12_2 l12 801750719 4294967295 801750719 _ (by decide) (by decide) s12_c0 s12_c1 s12_c2 (ev_var_of s12_F (by decide) fs2_n4_0) (ev_nc0 _) s12_lt0 s12_lt1 (le_of_lt32 L12) (Nat.le_refl _) (by decide) (by decide) s12_B (by decide) ?_
  intro es13 s13_0 s13_1 s13_2 s13_F s13_c0 s13_c1 s13_c2 s13_lt0 s13_lt1 s13_lt2 s13_A s13_B
  conv at s13_B => rhs; simp only [Nat.reducePow, Nat.reduceSub, Nat.reduceMul, Nat.reduceAdd]
  have Fs13 := s12_F.trans s13_F
  clear s12_F s13_F s12_c0 s12_c1 s12_c2 s12_B s12_lt0 s12_lt1 s12_lt2
  clear es12
  refine muladd_rule accS s13_0 s13_1 s13_2 l11 1076732275 4294967295 1076732275 _ (by decide) (by decide) s13_c0 s13_c1 s13_c2 (ev_var_of Fs13 (by decide) fs2_n3_0) (ev_nc1 _) s13_lt0 s13_lt1 (le_of_lt32 L11) (Nat.le_refl _) (by decide) (by decide) s13_B (by decide) ?_
  intro es14 s14_0 s14_1 s14_2 s14_F s14_c0 s14_c1 s14_c2 s14_lt0 s14_lt1 s14_lt2 s14_A s14_B
  conv at s14_B => rhs; simp only [Nat.reducePow, Nat.reduceSub, Nat.reduceMul, Nat.reduceAdd]
  have Fs14 := Fs13.trans s14_F
  clear Fs13 s14_F s13_c0 s13_c1 s13_c2 s13_B s13_lt0 s13_lt1 s13_lt2
  clear es13
  refine muladd_rule accS s14_0 s14_1 s14_2 l10 1354194884 4294967295 1354194884 _ (by decide) (by decide) s14_c0 s14_c1 s14_c2 (ev_var_of Fs14 (by decide) fs2_n2_0) (ev_nc2 _) s14_lt0 s14_lt1 (le_of_lt32 L10) (Nat.le_refl _) (by decide) (by decide) s14_B (by decide) ?_
  intro es15 s15_0 s15_1 s15_2 s15_F s15_c0 s15_c1 s15_c2 s15_lt0 s15_lt1 s15_lt2 s15_A s15_B
  conv at s15_B => rhs; simp only [Nat.reducePow, Nat.reduceSub, Nat.reduceMul, Nat.reduceAdd]
  have Fs15 := Fs14.trans s15_F
  clear Fs14 s15_F s14_c0 s14_c1 s14_c2 s14_B s14_lt0 s14_lt1 s14_lt2
  clear es14
  refine muladd_rule accS s15_0 s15_1 s15_2 l9 1162945305 4294967295 1162945305 _ (by decide) (by decide) s15_c0 s15_c1 s15_c2 (ev_var_of Fs15 (by decide) fs2_n1_0) (ev_nc3 _) s15_lt0 s15_lt1 (le_of_lt32 L9) (Nat.le_refl _) (by decide) (by decide) s15_B (by decide) ?_
  intro es16 s16_0 s16_1 s16_2 s16_F s16_c0 s16_c1 s16_c2 s16_lt0 s16_lt1 s16_lt2 s16_A s16_B
  conv at s16_B => rhs; simp only [Nat.reducePow, Nat.reduceSub, Nat.reduceMul, Nat.reduceAdd]
  have Fs16 := Fs15.trans s16_F
  clear Fs15 s16_F s15_c0 s15_c1 s15_c2 s15_B s15_lt0 s15_lt1 s15_lt2
  clear es15
  refine sumadd_rule accS "n0" 0 s16_0 s16_1 s16_2 l8 _ (by decide) (by decide) (Reads_var _) (by decide) s16_c0 s16_c1 s16_c2 (transportF Fs16 (by decide) fs2_n0_0) s16_lt0 s16_lt1 L8 s16_B (by decide) ?_
  intro es17 s17_0 s17_1 s17_2 s17_F s17_c0 s17_c1 s17_c2 s17_lt0 s17_lt1 s17_lt2 s17_A s17_B
  conv at s17_B => rhs; simp only [Nat.reducePow, Nat.reduceSub, Nat.reduceMul, Nat.reduceAdd]
  have Fs17 := Fs16.trans s17_F
  clear Fs16 s17_F s16_c0 s16_c1 s16_c2 s16_B s16_lt0 s16_lt1 s16_lt2
  clear es16
  have hcols3 : s17_0 + (s17_1 + s17_2 * 2 ^ 32) * 2 ^ 32 = s10_1 + s10_2 * 2 ^ 32 + (l4 + l12 * 801750719 + l11 * 1076732275 + l10 * 1354194884 + l9 * 1162945305 + l8) := (reshape3 s17_0 s17_1 s17_2).trans (colsum6 s12_A s13_A s14_A s15_A s16_A s17_A)
  clear s12_A s13_A s14_A s15_A s16_A s17_A
  have cums3 := combine 160 cums2 hcols3 rfl
  clear cums2 hcols3
  refine extract_rule accS s17_0 s17_1 s17_2 (by decide) (by decide) s17_c0 s17_c1 s17_c2 ?_
  intro es18 s18_Fx s18_o s18_c0 s18_c1 s18_c2
  have fs3_l_5 := transport s18_Fx Fs17 (by decide) (by decide) fs2_l_5
  have fs3_l_6 := transport s18_Fx Fs17 (by decide) (by decide) fs2_l_6
  have fs3_l_7 := transport s18_Fx Fs17 (by decide) (by decide) fs2_l_7
  have fs3_n1_0 := transport s18_Fx Fs17 (by decide) (by decide) fs2_n1_0
  have fs3_n2_0 := transport s18_Fx Fs17 (by decide) (by decide) fs2_n2_0
  have fs3_n3_0 := transport s18_Fx Fs17 (by decide) (by decide) fs2_n3_0
  have fs3_n4_0 := transport s18_Fx Fs17 (by decide) (by decide) fs2_n4_0
  have fs3_n5_0 := transport s18_Fx Fs17 (by decide) (by decide) fs2_n5_0
  have fs3_n6_0 := transport s18_Fx Fs17 (by decide) (by decide) fs2_n6_0
  have fs3_n7_0 := transport s18_Fx Fs17 (by decide) (by decide) fs2_n7_0
  have fs3_m0_0 := transport s18_Fx Fs17 (by decide) (by decide) fs2_m0_0
  have fs3_m1_0 := transport s18_Fx Fs17 (by decide) (by decide) fs2_m1_0
  have fs3_m2_0 := transport s18_Fx Fs17 (by decide) (by decide) fs2_m2_0
  have fs3_m3_0 := transport s18_Fx Fs17 (by decide) (by decide) s11_o
  have s18_B := extract_bound32 s17_B
  conv at s18_B => rhs; simp only [Nat.reducePow, Nat.reduceDiv]
  clear fs2_l_4 fs2_l_5 fs2_l_6 fs2_l_7 fs2_n0_0 fs2_n1_0 fs2_n2_0 fs2_n3_0 fs2_n4_0 fs2_n5_0 fs2_n6_0 fs2_n7_0 fs2_m0_0 fs2_m1_0 fs2_m2_0 s11_o s17_c0 s17_c1 s17_c2 s17_B s18_Fx Fs17
  clear es17 es11
  exact scalar_reduce_512_run_p2 es18 l0 l1 l2 l3 l4 l5 l6 l7 l8 l9 l10 l11 l12 l13 l14 l15 v v1_0 v1_1 s4_0 s10_0 s17_0 s17_1 s17_2 L0 L1 L2 L3 L4 L5 L6 L7 L8 L9 L10 L11 L12 L13 L14 L15 hv fs3_l_5 fs3_l_6 fs3_l_7 fs3_n1_0 fs3_n2_0 fs3_n3_0 fs3_n4_0 fs3_n5_0 fs3_n6_0 fs3_n7_0 fs3_m0_0 fs3_m1_0 fs3_m2_0 fs3_m3_0 s18_o L_v1_0 L_v1_1 s4_lt0 s10_lt0 s17_lt0 s17_lt1 s17_lt2 s18_c0 s18_c1 s18_c2 s18_B cums3

set_option maxRecDepth 100000 in
set_option maxHeartbeats 4000000 in
theorem scalar_reduce_512_run (env : Env) (l0 l1 l2 l3 l4 l5 l6 l7 l8 l9 l10 l11 l12 l13 l14 l15 v : Nat)  (L0 : l0 < 2 ^ 32) (L1 : l1 < 2 ^ 32) (L2 : l2 < 2 ^ 32) (L3 : l3 < 2 ^ 32) (L4 : l4 < 2 ^ 32) (L5 : l5 < 2 ^ 32) (L6 : l6 < 2 ^ 32) (L7 : l7 < 2 ^ 32) (L8 : l8 < 2 ^ 32) (L9 : l9 < 2 ^ 32) (L10 : l10 < 2 ^ 32) (L11 : l11 < 2 ^ 32) (L12 : l12 < 2 ^ 32) (L13 : l13 < 2 ^ 32) (L14 : l14 < 2 ^ 32) (L15 : l15 < 2 ^ 32) (hv : val16x32 l0 l1 l2 l3 l4 l5 l6 l7 l8 l9 l10 l11 l12 l13 l14 l15 = v)
    (hl0 : env.get "l" 0 = l0) (hl1 : env.get "l" 1 = l1) (hl2 : env.get "l" 2 = l2) (hl3 : env.get "l" 3 = l3) (hl4 : env.get "l" 4 = l4) (hl5 : env.get "l" 5 = l5) (hl6 : env.get "l" 6 = l6) (hl7 : env.get "l" 7 = l7) (hl8 : env.get "l" 8 = l8) (hl9 : env.get "l" 9 = l9) (hl10 : env.get "l" 10 = l10) (hl11 : env.get "l" 11 = l11) (hl12 : env.get "l" 12 = l12) (hl13 : env.get "l" 13 = l13) (hl14 : env.get "l" 14 = l14) (hl15 : env.get "l" 15 = l15) :
    RedPost v (runR env Gen.scalar8x32.scalar_reduce_512.body) := by
  simp only [Gen.scalar8x32.scalar_reduce_512]
  refine assign_rule accS l8 (ev_idx_of (Frame.refl accS env) (by decide) hl8) ?_
  intro es1 s1_Fx s1_o
  have fs1_l_0 := transport s1_Fx (Frame.refl accS env) (by decide) (by decide) hl0
  have fs1_l_1 := transport s1_Fx (Frame.refl accS env) (by decide) (by decide) hl1
  have fs1_l_2 := transport s1_Fx (Frame.refl accS env) (by decide) (by decide) hl2
  have fs1_l_3 := transport s1_Fx (Frame.refl accS env) (by decide) (by decide) hl3
  have fs1_l_4 := transport s1_Fx (Frame.refl accS env) (by decide) (by decide) hl4
  have fs1_l_5 := transport s1_Fx (Frame.refl accS env) (by decide) (by decide) hl5
  have fs1_l_6 := transport s1_Fx (Frame.refl accS env) (by decide) (by decide) hl6
  have fs1_l_7 := transport s1_Fx (Frame.refl accS env) (by decide) (by decide) hl7
  have fs1_l_9 := transport s1_Fx (Frame.refl accS env) (by decide) (by decide) hl9
  have fs1_l_10 := transport s1_Fx (Frame.refl accS env) (by decide) (by decide) hl10
  have fs1_l_11 := transport s1_Fx (Frame.refl accS env) (by decide) (by decide) hl11
  have fs1_l_12 := transport s1_Fx (Frame.refl accS env) (by decide) (by decide) hl12
  have fs1_l_13 := transport s1_Fx (Frame.refl accS env) (by decide) (by decide) hl13
  have fs1_l_14 := transport s1_Fx (Frame.refl accS env) (by decide) (by decide) hl14
  have fs1_l_15 := transport s1_Fx (Frame.refl accS env) (by decide) (by decide) hl15
  clear hl0 hl1 hl2 hl3 hl4 hl5 hl6 hl7 hl8 hl9 hl10 hl11 hl12 hl13 hl14 hl15 s1_Fx
  clear env
  refine assign_rule accS l9 (ev_idx_of (Frame.refl accS es1) (by decide) fs1_l_9) ?_
  intro es2 s2_Fx s2_o
  have fs2_l_0 := transport s2_Fx (Frame.refl accS es1) (by decide) (by decide) fs1_l_0
  have fs2_l_1 := transport s2_Fx (Frame.refl accS es1) (by decide) (by decide) fs1_l_1
  have fs2_l_2 := transport s2_Fx (Frame.refl accS es1) (by decide) (by decide) fs1_l_2
  have fs2_l_3 := transport s2_Fx (Frame.refl accS es1) (by decide) (by decide) fs1_l_3
  have fs2_l_4 := transport s2_Fx (Frame.refl accS es1) (by decide) (by decide) fs1_l_4
  have fs2_l_5 := transport s2_Fx (Frame.refl accS es1) (by decide) (by decide) fs1_l_5
  have fs2_l_6 := transport s2_Fx (Frame.refl accS es1) (by decide) (by decide) fs1_l_6
  have fs2_l_7 := transport s2_Fx (Frame.refl accS es1) (by decide) (by decide) fs1_l_7
  have fs2_l_10 := transport s2_Fx (Frame.refl accS es1) (by decide) (by decide) fs1_l_10
  have fs2_l_11 := transport s2_Fx (Frame.refl accS es1) (by decide) (by decide) fs1_l_11
  have fs2_l_12 := transport s2_Fx (Frame.refl accS es1) (by decide) (by decide) fs1_l_12
  have fs2_l_13 := transport s2_Fx (Frame.refl accS es1) (by decide) (by decide) fs1_l_13
  have fs2_l_14 := transport s2_Fx (Frame.refl accS es1) (by decide) (by decide) fs1_l_14
  have fs2_l_15 := transport s2_Fx (Frame.refl accS es1) (by decide) (by decide) fs1_l_15
  have fs2_n0_0 := transport s2_Fx (Frame.refl accS es1) (by decide) (by decide) s1_o
  clear fs1_l_0 fs1_l_1 fs1_l_2 fs1_l_3 fs1_l_4 fs1_l_5 fs1_l_6 fs1_l_7 fs1_l_9 fs1_l_10 fs1_l_11 fs1_l_12 fs1_l_13 fs1_l_14 fs1_l_15 s1_o s2_Fx
  clear es1
  refine assign_rule accS l10 (ev_idx_of (Frame.refl accS es2) (by decide) fs2_l_10) ?_
  intro es3 s3_Fx s3_o
  have fs3_l_0 := transport s3_Fx (Frame.refl accS es2) (by decide) (by decide) fs2_l_0
  have fs3_l_1 := transport s3_Fx (Frame.refl accS es2) (by decide) (by decide) fs2_l_1
  have fs3_l_2 := transport s3_Fx (Frame.refl accS es2) (by decide) (by decide) fs2_l_2
  have fs3_l_3 := transport s3_Fx (Frame.refl accS es2) (by decide) (by decide) fs2_l_3
  have fs3_l_4 := transport s3_Fx (Frame.refl accS es2) (by decide) (by decide) fs2_l_4
  have fs3_l_5 := transport s3_Fx (Frame.refl accS es2) (by decide) (by decide) fs2_l_5
  have fs3_l_6 := transport s3_Fx (Frame.refl accS es2) (by decide) (by decide) fs2_l_6
  have fs3_l_7 := transport s3_Fx (Frame.refl accS es2) (by decide) (by decide) fs2_l_7
  have fs3_l_11 := transport s3_Fx (Frame.refl accS es2) (by decide) (by decide) fs2_l_11
  have fs3_l_12 := transport s3_Fx (Frame.refl accS es2) (by decide) (by decide) fs2_l_12
  have fs3_l_13 := transport s3_Fx (Frame.refl accS es2) (by decide) (by decide) fs2_l_13
  have fs3_l_14 := transport s3_Fx (Frame.refl accS es2) (by decide) (by decide) fs2_l_14
  have fs3_l_15 := transport s3_Fx (Frame.refl accS es2) (by decide) (by decide) fs2_l_15
  have fs3_n0_0 := transport s3_Fx (Frame.refl accS es2) (by decide) (by decide) fs2_n0_0
  have fs3_n1_0 := transport s3_Fx (Frame.refl accS es2) (by decide) (by decide) s2_o
  clear fs2_l_0 fs2_l_1 fs2_l_2 fs2_l_3 fs2_l_4 fs2_l_5 fs2_l_6 fs2_l_7 fs2_l_10 fs2_l_11 fs2_l_12 fs2_l_13 fs2_l_14 fs2_l_15 fs2_n0_0 s2_o s3_Fx
  clear es2
  refine assign_rule accS l11 (ev_idx_of (Frame.refl accS es3) (by decide) fs3_l_11) ?_
  intro es4 s4_Fx s4_o
  have fs4_l_0 := transport s4_Fx (Frame.refl accS es3) (by decide) (by decide) fs3_l_0
  have fs4_l_1 := transport s4_Fx (Frame.refl accS es3) (by decide) (by decide) fs3_l_1
  have fs4_l_2 := transport s4_Fx (Frame.refl accS es3) (by decide) (by decide) fs3_l_2
  have fs4_l_3 := transport s4_Fx (Frame.refl accS es3) (by decide) (by decide) fs3_l_3
  have fs4_l_4 := transport s4_Fx (Frame.refl accS es3) (by decide) (by decide) fs3_l_4
  have fs4_l_5 := transport s4_Fx (Frame.refl accS es3) (by decide) (by decide) fs3_l_5
  have fs4_l_6 := transport s4_Fx (Frame.refl accS es3) (by decide) (by decide) fs3_l_6
  have fs4_l_7 := transport s4_Fx (Frame.refl accS es3) (by decide) (by decide) fs3_l_7
  have fs4_l_12 := transport s4_Fx (Frame.refl accS es3) (by decide) (by decide) fs3_l_12
  have fs4_l_13 := transport s4_Fx (Frame.refl accS es3) (by decide) (by decide) fs3_l_13
  have fs4_l_14 := transport s4_Fx (Frame.refl accS es3) (by decide) (by decide) fs3_l_14
  have fs4_l_15 := transport s4_Fx (Frame.refl accS es3) (by decide) (by decide) fs3_l_15
  have fs4_n0_0 := transport s4_Fx (Frame.refl accS es3) (by decide) (by decide) fs3_n0_0
  have fs4_n1_0 := transport s4_Fx (Frame.refl accS es3) (by decide) (by decide) fs3_n1_0
  have fs4_n2_0 := transport s4_Fx (Frame.refl accS es3) (by decide) (by decide) s3_o
  clear fs3_l_0 fs3_l_1 fs3_l_2 fs3_l_3 fs3_l_4 fs3_l_5 fs3_l_6 fs3_l_7 fs3_l_11 fs3_l_12 fs3_l_13 fs3_l_14 fs3_l_15 fs3_n0_0 fs3_n1_0 s3_o s4_Fx
  clear es3
  refine assign_rule accS l12 (ev_idx_of (Frame.refl accS es4) (by decide) fs4_l_12) ?_
  intro es5 s5_Fx s5_o
  have fs5_l_0 := transport s5_Fx (Frame.refl accS es4) (by decide) (by decide) fs4_l_0
  have fs5_l_1 := transport s5_Fx (Frame.refl accS es4) (by decide) (by decide) fs4_l_1
  have fs5_l_2 := transport s5_Fx (Frame.refl accS es4) (by decide) (by decide) fs4_l_2
  have fs5_l_3 := transport s5_Fx (Frame.refl accS es4) (by decide) (by decide) fs4_l_3
  have fs5_l_4 := transport s5_Fx (Frame.refl accS es4) (by decide) (by decide) fs4_l_4
  have fs5_l_5 := transport s5_Fx (Frame.refl accS es4) (by decide) (by decide) fs4_l_5
  have fs5_l_6 := transport s5_Fx (Frame.refl accS es4) (by decide) (by decide) fs4_l_6
  have fs5_l_7 := transport s5_Fx (Frame.refl accS es4) (by decide) (by decide) fs4_l_7
  have fs5_l_13 := transport s5_Fx (Frame.refl accS es4) (by decide) (by decide) fs4_l_13
  have fs5_l_14 := transport s5_Fx (Frame.refl accS es4) (by decide) (by decide) fs4_l_14
  have fs5_l_15 := transport s5_Fx (Frame.refl accS es4) (by decide) (by decide) fs4_l_15
  have fs5_n0_0 := transport s5_Fx (Frame.refl accS es4) (by decide) (by decide) fs4_n0_0
  have fs5_n1_0 := transport s5_Fx (Frame.refl accS es4) (by decide) (by decide) fs4_n1_0
  have fs5_n2_0 := transport s5_Fx (Frame.refl accS es4) (by decide) (by decide) fs4_n2_0
  have fs5_n3_0 := transport s5_Fx (Frame.refl accS es4) (by decide) (by decide) s4_o
  clear fs4_l_0 fs4_l_1 fs4_l_2 fs4_l_3 fs4_l_4 fs4_l_5 fs4_l_6 fs4_l_7 fs4_l_12 fs4_l_13 fs4_l_14 fs4_l_15 fs4_n0_0 fs4_n1_0 fs4_n2_0 s4_o s5_Fx
  clear es4
  refine assign_rule accS l13 (ev_idx_of (Frame.refl accS es5) (by decide) fs5_l_13) ?_
  intro es6 s6_Fx s6_o
  have fs6_l_0 := transport s6_Fx (Frame.refl accS es5) (by decide) (by decide) fs5_l_0
  have fs6_l_1 := transport s6_Fx (Frame.refl accS es5) (by decide) (by decide) fs5_l_1
  have fs6_l_2 := transport s6_Fx (Frame.refl accS es5) (by decide) (by decide) fs5_l_2
  have fs6_l_3 := transport s6_Fx (Frame.refl accS es5) (by decide) (by decide) fs5_l_3
  have fs6_l_4 := transport s6_Fx (Frame.refl accS es5) (by decide) (by decide) fs5_l_4
  have fs6_l_5 := transport s6_Fx (Frame.refl accS es5) (by decide) (by decide) fs5_l_5
  have fs6_l_6 := transport s6_Fx (Frame.refl accS es5) (by decide) (by decide) fs5_l_6
  have fs6_l_7 := transport s6_Fx (Frame.refl accS es5) (by decide) (by decide) fs5_l_7
  have fs6_l_14 := transport s6_Fx (Frame.refl accS es5) (by decide) (by decide) fs5_l_14
  have fs6_l_15 := transport s6_Fx (Frame.refl accS es5) (by decide) (by decide) fs5_l_15
  have fs6_n0_0 := transport s6_Fx (Frame.refl accS es5) (by decide) (by decide) fs5_n0_0
  have fs6_n1_0 := transport s6_Fx (Frame.refl accS es5) (by decide) (by decide) fs5_n1_0
  have fs6_n2_0 := transport s6_Fx (Frame.refl accS es5) (by decide) (by decide) fs5_n2_0
  have fs6_n3_0 := transport s6_Fx (Frame.refl accS es5) (by decide) (by decide) fs5_n3_0
  have fs6_n4_0 := transport s6_Fx (Frame.refl accS es5) (by decide) (by decide) s5_o
  clear fs5_l_0 fs5_l_1 fs5_l_2 fs5_l_3 fs5_l_4 fs5_l_5 fs5_l_6 fs5_l_7 fs5_l_13 fs5_l_14 fs5_l_15 fs5_n0_0 fs5_n1_0 fs5_n2_0 fs5_n3_0 s5_o s6_Fx
  clear es5
  refine assign_rule accS l14 (ev_idx_of (Frame.refl accS es6) (by decide) fs6_l_14) ?_
  intro es7 s7_Fx s7_o
  have fs7_l_0 := transport s7_Fx (Frame.refl accS es6) (by decide) (by decide) fs6_l_0
  have fs7_l_1 := transport s7_Fx (Frame.refl accS es6) (by decide) (by decide) fs6_l_1
  have fs7_l_2 := transport s7_Fx (Frame.refl accS es6) (by decide) (by decide) fs6_l_2
  have fs7_l_3 := transport s7_Fx (Frame.refl accS es6) (by decide) (by decide) fs6_l_3
  have fs7_l_4 := transport s7_Fx (Frame.refl accS es6) (by decide) (by decide) fs6_l_4
  have fs7_l_5 := transport s7_Fx (Frame.refl accS es6) (by decide) (by decide) fs6_l_5
  have fs7_l_6 := transport s7_Fx (Frame.refl accS es6) (by decide) (by decide) fs6_l_6
  have fs7_l_7 := transport s7_Fx (Frame.refl accS es6) (by decide) (by decide) fs6_l_7
  have fs7_l_15 := transport s7_Fx (Frame.refl accS es6) (by decide) (by decide) fs6_l_15
  have fs7_n0_0 := transport s7_Fx (Frame.refl accS es6) (by decide) (by decide) fs6_n0_0
  have fs7_n1_0 := transport s7_Fx (Frame.refl accS es6) (by decide) (by decide) fs6_n1_0
  have fs7_n2_0 := transport s7_Fx (Frame.refl accS es6) (by decide) (by decide) fs6_n2_0
  have fs7_n3_0 := transport s7_Fx (Frame.refl accS es6) (by decide) (by decide) fs6_n3_0
  have fs7_n4_0 := transport s7_Fx (Frame.refl accS es6) (by decide) (by decide) fs6_n4_0
  have fs7_n5_0 := transport s7_Fx (Frame.refl accS es6) (by decide) (by decide) s6_o
  clear fs6_l_0 fs6_l_1 fs6_l_2 fs6_l_3 fs6_l_4 fs6_l_5 fs6_l_6 fs6_l_7 fs6_l_14 fs6_l_15 fs6_n0_0 fs6_n1_0 fs6_n2_0 fs6_n3_0 fs6_n4_0 s6_o s7_Fx
  clear es6
  refine assign_rule accS l15 (ev_idx_of (Frame.refl accS es7) (by decide) fs7_l_15) ?_
  intro es8 s8_Fx s8_o
  have fs8_l_0 := transport s8_Fx (Frame.refl accS es7) (by decide) (by decide) fs7_l_0
  have fs8_l_1 := transport s8_Fx (Frame.refl accS es7) (by decide) (by decide) fs7_l_1
  have fs8_l_2 := transport s8_Fx (Frame.refl accS es7) (by decide) (by decide) fs7_l_2
  have fs8_l_3 := transport s8_Fx (Frame.refl accS es7) (by decide) (by decide) fs7_l_3
  have fs8_l_4 := transport s8_Fx (Frame.refl accS es7) (by decide) (by decide) fs7_l_4
  have fs8_l_5 := transport s8_Fx (Frame.refl accS es7) (by decide) (by decide) fs7_l_5
  have fs8_l_6 := transport s8_Fx (Frame.refl accS es7) (by decide) (by decide) fs7_l_6
  have fs8_l_7 := transport s8_Fx (Frame.refl accS es7) (by decide) (by decide) fs7_l_7
  have fs8_n0_0 := transport s8_Fx (Frame.refl accS es7) (by decide) (by decide) fs7_n0_0
  have fs8_n1_0 := transport s8_Fx (Frame.refl accS es7) (by decide) (by decide) fs7_n1_0
  have fs8_n2_0 := transport s8_Fx (Frame.refl accS es7) (by decide) (by decide) fs7_n2_0
  have fs8_n3_0 := transport s8_Fx (Frame.refl accS es7) (by decide) (by decide) fs7_n3_0
  have fs8_n4_0 := transport s8_Fx (Frame.refl accS es7) (by decide) (by decide) fs7_n4_0
  have fs8_n5_0 := transport s8_Fx (Frame.refl accS es7) (by decide) (by decide) fs7_n5_0
  have fs8_n6_0 := transport s8_Fx (Frame.refl accS es7) (by decide) (by decide) s7_o
  clear fs7_l_0 fs7_l_1 fs7_l_2 fs7_l_3 fs7_l_4 fs7_l_5 fs7_l_6 fs7_l_7 fs7_l_15 fs7_n0_0 fs7_n1_0 fs7_n2_0 fs7_n3_0 fs7_n4_0 fs7_n5_0 s7_o s8_Fx
  clear es7
  refine init_rule accS l0 (by decide) (by decide) (ev_idx_of (Frame.refl accS es8) (by decide) fs8_l_0) ?_
  intro es9 s9_F s9_c0 s9_c1 s9_c2
  have s9_B := init_bound32 L0
  refine muladd_fast_rule accS "c2" l0 0 0 l8 801750719 4294967295 801750719 _ (by decide) (by decide) s9_c0 s9_c1 s9_c2 (ev_var_of s9_F (by decide) fs8_n0_0) (ev_nc0 _) L0 zero_lt32 (le_of_lt32 L8) (Nat.le_refl _) (by decide) (by decide) s9_B (by decide) ?_
  intro es10 s10_0 s10_1 s10_F s10_c0 s10_c1 s10_c2 s10_lt0 s10_lt1 s10_A s10_B
  replace s10_A := s10_A.trans (z2_x0 _ _)
  conv at s10_B => rhs; simp only [Nat.reducePow, Nat.reduceSub, Nat.reduceMul, Nat.reduceAdd]
  have Fs10 := s9_F.trans s10_F
  clear s9_F s10_F s9_c0 s9_c1 s9_c2 s9_B
  clear es9
  have hcols1 : s10_0 + s10_1 * 2 ^ 32 = l0 + (l8 * 801750719) := colsum1 s10_A
  clear s10_A
  have cums1 := hcols1
  clear hcols1
  refine extract_fast_rule accS "c2" s10_0 s10_1 0 (by decide) (by decide) s10_c0 s10_c1 s10_c2 ?_
  intro es11 s11_Fx s11_o s11_c0 s11_c1 s11_c2
  have fs9_l_1 := transport s11_Fx Fs10 (by decide) (by decide) fs8_l_1
  have fs9_l_2 := transport s11_Fx Fs10 (by decide) (by decide) fs8_l_2
  have fs9_l_3 := transport s11_Fx Fs10 (by decide) (by decide) fs8_l_3
  have fs9_l_4 := transport s11_Fx Fs10 (by decide) (by decide) fs8_l_4
  have fs9_l_5 := transport s11_Fx Fs10 (by decide) (by decide) fs8_l_5
  have fs9_l_6 := transport s11_Fx Fs10 (by decide) (by decide) fs8_l_6
  have fs9_l_7 := transport s11_Fx Fs10 (by decide) (by decide) fs8_l_7
  have fs9_n0_0 := transport s11_Fx Fs10 (by decide) (by decide) fs8_n0_0
  have fs9_n1_0 := transport s11_Fx Fs10 (by decide) (by decide) fs8_n1_0
  have fs9_n2_0 := transport s11_Fx Fs10 (by decide) (by decide) fs8_n2_0
  have fs9_n3_0 := transport s11_Fx Fs10 (by decide) (by decide) fs8_n3_0
  have fs9_n4_0 := transport s11_Fx Fs10 (by decide) (by decide) fs8_n4_0
  have fs9_n5_0 := transport s11_Fx Fs10 (by decide) (by decide) fs8_n5_0
  have fs9_n6_0 := transport s11_Fx Fs10 (by decide) (by decide) fs8_n6_0
  have fs9_n7_0 := transport s11_Fx Fs10 (by decide) (by decide) s8_o
  have s11_B := extract_bound32' s10_B
  conv at s11_B => rhs; simp only [Nat.reducePow, Nat.reduceDiv]
  clear fs8_l_0 fs8_l_1 fs8_l_2 fs8_l_3 fs8_l_4 fs8_l_5 fs8_l_6 fs8_l_7 fs8_n0_0 fs8_n1_0 fs8_n2_0 fs8_n3_0 fs8_n4_0 fs8_n5_0 fs8_n6_0 s8_o s10_c0 s10_c1 s10_c2 s10_B s11_Fx Fs10
  clear es10 es8
  refine sumadd_fast_rule accS "c2" "l" 1 s10_1 0 0 l1 _ (by decide) (by decide) (Reads_idx _ _) (by decide) s11_c0 s11_c1 s11_c2 (transportF (Frame.refl accS es11) (by decide) fs9_l_1) s10_lt1 zero_lt32 L1 s11_B (by decide) ?_
  intro es12 s12_0 s12_1 s12_F s12_c0 s12_c1 s12_c2 s12_lt0 s12_lt1 s12_A s12_B
  replace s12_A := s12_A.trans (z2_x0 _ _)
  conv at s12_B => rhs; simp only [Nat.reducePow, Nat.reduceSub, Nat.reduceMul, Nat.reduceAdd]
  clear s11_c0 s11_c1 s11_c2 s11_B s10_lt1
  refine muladd_rule accS s12_0 s12_1 0 l9 801750719 4294967295 801750719 _ (by decide) (by decide) s12_c0 s12_c1 s12_c2 (ev_var_of s12_F (by decide) fs9_n1_0) (ev_nc0 _) s12_lt0 s12_lt1 (le_of_lt32 L9) (Nat.le_refl _) (by decide) (by decide) (acc_zero2 s12_B) (by decide) ?_
  intro es13 s13_0 s13_1 s13_2 s13_F s13_c0 s13_c1 s13_c2 s13_lt0 s13_lt1 s13_lt2 s13_A s13_B
  replace s13_A := s13_A.trans (z3_xy0 _ _ _)
  conv at s13_B => rhs; simp only [Nat.reducePow, Nat.reduceSub, Nat.reduceMul, Nat.reduceAdd]
  have Fs13 := s12_F.trans s13_F
  clear s12_F s13_F s12_c0 s12_c1 s12_c2 s12_B s12_lt0 s12_lt1
  clear es12
  refine muladd_rule accS s13_0 s13_1 s13_2 l8 1076732275 4294967295 1076732275 _ (by decide) (by decide) s13_c0 s13_c1 s13_c2 (ev_var_of Fs13 (by decide) fs9_n0_0) (ev_nc1 _) s13_lt0 s13_lt1 (le_of_lt32 L8) (Nat.le_refl _) (by decide) (by decide) s13_B (by decide) ?_
  intro es14 s14_0 s14_1 s14_2 s14_F s14_c0 s14_c1 s14_c2 s14_lt0 s14_lt1 s14_lt2 s14_A s14_B
  conv at s14_B => rhs; simp only [Nat.reducePow, Nat.reduceSub, Nat.reduceMul, Nat.reduceAdd]
  have Fs14 := Fs13.trans s14_F
  clear Fs13 s14_F s13_c0 s13_c1 s13_c2 s13_B s13_lt0 s13_lt1 s13_lt2
  clear es13
  have hcols2 : s14_0 + (s14_1 + s14_2 * 2 ^ 32) * 2 ^ 32 = s10_1 + (l1 + l9 * 801750719 + l8 * 1076732275) := (reshape3 s14_0 s14_1 s14_2).trans (colsum3 s12_A s13_A s14_A)
  clear s12_A s13_A s14_A
  have cums2 := combine 64 cums1 hcols2 rfl
  clear cums1 hcols2
  refine extract_rule accS s14_0 s14_1 s14_2 (by decide) (by decide) s14_c0 s14_c1 s14_c2 ?_
  intro es15 s15_Fx s15_o s15_c0 s15_c1 s15_c2
  have fs10_l_2 := transport s15_Fx Fs14 (by decide) (by decide) fs9_l_2
  have fs10_l_3 := transport s15_Fx Fs14 (by decide) (by decide) fs9_l_3
  have fs10_l_4 := transport s15_Fx Fs14 (by decide) (by decide) fs9_l_4
  have fs10_l_5 := transport s15_Fx Fs14 (by decide) (by decide) fs9_l_5
  have fs10_l_6 := transport s15_Fx Fs14 (by decide) (by decide) fs9_l_6
  have fs10_l_7 := transport s15_Fx Fs14 (by decide) (by decide) fs9_l_7
  have fs10_n0_0 := transport s15_Fx Fs14 (by decide) (by decide) fs9_n0_0
  have fs10_n1_0 := transport s15_Fx Fs14 (by decide) (by decide) fs9_n1_0
  have fs10_n2_0 := transport s15_Fx Fs14 (by decide) (by decide) fs9_n2_0
  have fs10_n3_0 := transport s15_Fx Fs14 (by decide) (by decide) fs9_n3_0
  have fs10_n4_0 := transport s15_Fx Fs14 (by decide) (by decide) fs9_n4_0
  have fs10_n5_0 := transport s15_Fx Fs14 (by decide) (by decide) fs9_n5_0
  have fs10_n6_0 := transport s15_Fx Fs14 (by decide) (by decide) fs9_n6_0
  have fs10_n7_0 := transport s15_Fx Fs14 (by decide) (by decide) fs9_n7_0
  have fs10_m0_0 := transport s15_Fx Fs14 (by decide) (by decide) s11_o
  have s15_B := extract_bound32 s14_B
  conv at s15_B => rhs; simp only [Nat.reducePow, Nat.reduceDiv]
  clear fs9_l_1 fs9_l_2 fs9_l_3 fs9_l_4 fs9_l_5 fs9_l_6 fs9_l_7 fs9_n0_0 fs9_n1_0 fs9_n2_0 fs9_n3_0 fs9_n4_0 fs9_n5_0 fs9_n6_0 fs9_n7_0 s11_o s14_c0 s14_c1 s14_c2 s14_B s15_Fx Fs14
  clear es14 es11
  exact scalar_reduce_512_run_p1 es15 l0 l1 l2 l3 l4 l5 l6 l7 l8 l9 l10 l11 l12 l13 l14 l15 v s10_0 s14_0 s14_1 s14_2 L0 L1 L2 L3 L4 L5 L6 L7 L8 L9 L10 L11 L12 L13 L14 L15 hv fs10_l_2 fs10_l_3 fs10_l_4 fs10_l_5 fs10_l_6 fs10_l_7 fs10_n0_0 fs10_n1_0 fs10_n2_0 fs10_n3_0 fs10_n4_0 fs10_n5_0 fs10_n6_0 fs10_n7_0 fs10_m0_0 s15_o s10_lt0 s14_lt0 s14_lt1 s14_lt2 s15_c0 s15_c1 s15_c2 s15_B cums2


/-- **`secp256k1_scalar_reduce_512` (8×32) is exact.**  For ALL 32-bit values of the sixteen input limbs, the eight
    output limbs are 32-bit values representing `l mod N`; in particular the result is fully reduced (`< N`). -/
theorem scalar_reduce_512_correct (env : Env) (hl : Limbs32x16 env "l") :
    sval (execL env Gen.scalar8x32.scalar_reduce_512.body).env "r.d" = lval16 env "l" % N ∧
    sval (execL env Gen.scalar8x32.scalar_reduce_512.body).env "r.d" < N ∧
    Limbs32 (execL env Gen.scalar8x32.scalar_reduce_512.body).env "r.d" := by
  obtain ⟨L0, L1, L2, L3, L4, L5, L6, L7, L8, L9, L10, L11, L12, L13, L14, L15⟩ := hl
  obtain ⟨h, hq⟩ := scalar_reduce_512_run env _ _ _ _ _ _ _ _ _ _ _ _ _ _ _ _ _
    L0 L1 L2 L3 L4 L5 L6 L7 L8 L9 L10 L11 L12 L13 L14 L15 rfl
    rfl rfl rfl rfl rfl rfl rfl rfl rfl rfl rfl rfl rfl rfl rfl rfl
  refine ⟨h, ?_, hq⟩
  have : sval (execL env Gen.scalar8x32.scalar_reduce_512.body).env "r.d" = lval16 env "l" % N := h
  rw [this]; exact Nat.mod_lt _ (by decide)

/-- the all-ones 512-bit input `l = 2^512 - 1` -/
def ones16Env : Env :=
  [(("l", 0), 4294967295), (("l", 1), 4294967295), (("l", 2), 4294967295), (("l", 3), 4294967295),
   (("l", 4), 4294967295), (("l", 5), 4294967295), (("l", 6), 4294967295), (("l", 7), 4294967295),
   (("l", 8), 4294967295), (("l", 9), 4294967295), (("l", 10), 4294967295), (("l", 11), 4294967295),
   (("l", 12), 4294967295), (("l", 13), 4294967295), (("l", 14), 4294967295), (("l", 15), 4294967295)]

/-- Non-vacuity: the all-ones input satisfies the hypothesis; the theorem then gives `(2^512 - 1) mod N`. -/
example : Limbs32x16 ones16Env "l" ∧
    sval (execL ones16Env Gen.scalar8x32.scalar_reduce_512.body).env "r.d" = (2 ^ 512 - 1) % N := by
  have hl : Limbs32x16 ones16Env "l" := by decide +kernel
  obtain ⟨h, _, _⟩ := scalar_reduce_512_correct ones16Env hl
  have e : lval16 ones16Env "l" % N = (2 ^ 512 - 1) % N := by decide +kernel
  exact ⟨hl, e ▸ h⟩

/-! ### 5. `secp256k1_scalar_mul` (= `scalar_mul_512` followed by `scalar_reduce_512`, inlined)

The translator inlines both callees with renamed locals, so the body is ONE straight-line program of 1119
statements; the rules are name-generic, so the same chains are replayed on it. -/


set_option maxRecDepth 100000 in
set_option maxHeartbeats 4000000 in
theorem red_final_m (env : Env) (p0 p1 p2 p3 p4 p5 p6 p7 p8 q v : Nat)
    (hp0 : env.get "scalar_reduce_512_4.p0" 0 = p0) (hp1 : env.get "scalar_reduce_512_4.p1" 0 = p1) (hp2 : env.get "scalar_reduce_512_4.p2" 0 = p2) (hp3 : env.get "scalar_reduce_512_4.p3" 0 = p3) (hp4 : env.get "scalar_reduce_512_4.p4" 0 = p4) (hp5 : env.get "scalar_reduce_512_4.p5" 0 = p5) (hp6 : env.get "scalar_reduce_512_4.p6" 0 = p6) (hp7 : env.get "scalar_reduce_512_4.p7" 0 = p7) (hp8 : env.get "scalar_reduce_512_4.p8" 0 = p8)
    (P0 : p0 < 2 ^ 32) (P1 : p1 < 2 ^ 32) (P2 : p2 < 2 ^ 32) (P3 : p3 < 2 ^ 32) (P4 : p4 < 2 ^ 32) (P5 : p5 < 2 ^ 32) (P6 : p6 < 2 ^ 32) (P7 : p7 < 2 ^ 32) (P8 : p8 ≤ 3)
    (hq : val8x32 p0 p1 p2 p3 p4 p5 p6 p7 + p8 * 2 ^ 256 + N * q = v) :
    RedPost v (runR env (Gen.scalar8x32.scalar_mul.body.drop 1055)) := by
  simp only [Gen.scalar8x32.scalar_mul, List.drop_succ_cons, List.drop_zero]
  steps 1 [hp0, hp1, hp2, hp3, hp4, hp5, hp6, hp7, hp8, nc0_eq32, nc1_eq32, nc2_eq32, nc3_eq32]
  vstep r0 [hp0, hp1, hp2, hp3, hp4, hp5, hp6, hp7, hp8, nc0_eq32, nc1_eq32, nc2_eq32, nc3_eq32]
  vstep t1 [hp0, hp1, hp2, hp3, hp4, hp5, hp6, hp7, hp8, nc0_eq32, nc1_eq32, nc2_eq32, nc3_eq32]
  steps 1 [hp0, hp1, hp2, hp3, hp4, hp5, hp6, hp7, hp8, nc0_eq32, nc1_eq32, nc2_eq32, nc3_eq32]
  vstep r1 [hp0, hp1, hp2, hp3, hp4, hp5, hp6, hp7, hp8, nc0_eq32, nc1_eq32, nc2_eq32, nc3_eq32]
  vstep t2 [hp0, hp1, hp2, hp3, hp4, hp5, hp6, hp7, hp8, nc0_eq32, nc1_eq32, nc2_eq32, nc3_eq32]
  steps 1 [hp0, hp1, hp2, hp3, hp4, hp5, hp6, hp7, hp8, nc0_eq32, nc1_eq32, nc2_eq32, nc3_eq32]
  vstep r2 [hp0, hp1, hp2, hp3, hp4, hp5, hp6, hp7, hp8, nc0_eq32, nc1_eq32, nc2_eq32, nc3_eq32]
  vstep t3 [hp0, hp1, hp2, hp3, hp4, hp5, hp6, hp7, hp8, nc0_eq32, nc1_eq32, nc2_eq32, nc3_eq32]
  steps 1 [hp0, hp1, hp2, hp3, hp4, hp5, hp6, hp7, hp8, nc0_eq32, nc1_eq32, nc2_eq32, nc3_eq32]
  vstep r3 [hp0, hp1, hp2, hp3, hp4, hp5, hp6, hp7, hp8, nc0_eq32, nc1_eq32, nc2_eq32, nc3_eq32]
  vstep t4 [hp0, hp1, hp2, hp3, hp4, hp5, hp6, hp7, hp8, nc0_eq32, nc1_eq32, nc2_eq32, nc3_eq32]
  steps 1 [hp0, hp1, hp2, hp3, hp4, hp5, hp6, hp7, hp8, nc0_eq32, nc1_eq32, nc2_eq32, nc3_eq32]
  vstep r4 [hp0, hp1, hp2, hp3, hp4, hp5, hp6, hp7, hp8, nc0_eq32, nc1_eq32, nc2_eq32, nc3_eq32]
  vstep t5 [hp0, hp1, hp2, hp3, hp4, hp5, hp6, hp7, hp8, nc0_eq32, nc1_eq32, nc2_eq32, nc3_eq32]
  steps 1 [hp0, hp1, hp2, hp3, hp4, hp5, hp6, hp7, hp8, nc0_eq32, nc1_eq32, nc2_eq32, nc3_eq32]
  vstep r5 [hp0, hp1, hp2, hp3, hp4, hp5, hp6, hp7, hp8, nc0_eq32, nc1_eq32, nc2_eq32, nc3_eq32]
  vstep t6 [hp0, hp1, hp2, hp3, hp4, hp5, hp6, hp7, hp8, nc0_eq32, nc1_eq32, nc2_eq32, nc3_eq32]
  steps 1 [hp0, hp1, hp2, hp3, hp4, hp5, hp6, hp7, hp8, nc0_eq32, nc1_eq32, nc2_eq32, nc3_eq32]
  vstep r6 [hp0, hp1, hp2, hp3, hp4, hp5, hp6, hp7, hp8, nc0_eq32, nc1_eq32, nc2_eq32, nc3_eq32]
  vstep t7 [hp0, hp1, hp2, hp3, hp4, hp5, hp6, hp7, hp8, nc0_eq32, nc1_eq32, nc2_eq32, nc3_eq32]
  steps 1 [hp0, hp1, hp2, hp3, hp4, hp5, hp6, hp7, hp8, nc0_eq32, nc1_eq32, nc2_eq32, nc3_eq32]
  vstep r7 [hp0, hp1, hp2, hp3, hp4, hp5, hp6, hp7, hp8, nc0_eq32, nc1_eq32, nc2_eq32, nc3_eq32]
  vstep cc [hp0, hp1, hp2, hp3, hp4, hp5, hp6, hp7, hp8, nc0_eq32, nc1_eq32, nc2_eq32, nc3_eq32]
  steps 2 [hp0, hp1, hp2, hp3, hp4, hp5, hp6, hp7, hp8, nc0_eq32, nc1_eq32, nc2_eq32, nc3_eq32]
  vstep n1 [hp0, hp1, hp2, hp3, hp4, hp5, hp6, hp7, hp8, nc0_eq32, nc1_eq32, nc2_eq32, nc3_eq32]
  vstep n2 [hp0, hp1, hp2, hp3, hp4, hp5, hp6, hp7, hp8, nc0_eq32, nc1_eq32, nc2_eq32, nc3_eq32]
  vstep n3 [hp0, hp1, hp2, hp3, hp4, hp5, hp6, hp7, hp8, nc0_eq32, nc1_eq32, nc2_eq32, nc3_eq32]
  vstep n4 [hp0, hp1, hp2, hp3, hp4, hp5, hp6, hp7, hp8, nc0_eq32, nc1_eq32, nc2_eq32, nc3_eq32]
  vstep y1 [hp0, hp1, hp2, hp3, hp4, hp5, hp6, hp7, hp8, nc0_eq32, nc1_eq32, nc2_eq32, nc3_eq32]
  vstep n5 [hp0, hp1, hp2, hp3, hp4, hp5, hp6, hp7, hp8, nc0_eq32, nc1_eq32, nc2_eq32, nc3_eq32]
  vstep y2 [hp0, hp1, hp2, hp3, hp4, hp5, hp6, hp7, hp8, nc0_eq32, nc1_eq32, nc2_eq32, nc3_eq32]
  vstep n6 [hp0, hp1, hp2, hp3, hp4, hp5, hp6, hp7, hp8, nc0_eq32, nc1_eq32, nc2_eq32, nc3_eq32]
  vstep y3 [hp0, hp1, hp2, hp3, hp4, hp5, hp6, hp7, hp8, nc0_eq32, nc1_eq32, nc2_eq32, nc3_eq32]
  vstep n7 [hp0, hp1, hp2, hp3, hp4, hp5, hp6, hp7, hp8, nc0_eq32, nc1_eq32, nc2_eq32, nc3_eq32]
  vstep y4 [hp0, hp1, hp2, hp3, hp4, hp5, hp6, hp7, hp8, nc0_eq32, nc1_eq32, nc2_eq32, nc3_eq32]
  vstep y5 [hp0, hp1, hp2, hp3, hp4, hp5, hp6, hp7, hp8, nc0_eq32, nc1_eq32, nc2_eq32, nc3_eq32]
  steps 1 [hp0, hp1, hp2, hp3, hp4, hp5, hp6, hp7, hp8, nc0_eq32, nc1_eq32, nc2_eq32, nc3_eq32]
  vstep ov [hp0, hp1, hp2, hp3, hp4, hp5, hp6, hp7, hp8, nc0_eq32, nc1_eq32, nc2_eq32, nc3_eq32]
  steps 1 [hp0, hp1, hp2, hp3, hp4, hp5, hp6, hp7, hp8, nc0_eq32, nc1_eq32, nc2_eq32, nc3_eq32]
  vstep q0 [hp0, hp1, hp2, hp3, hp4, hp5, hp6, hp7, hp8, nc0_eq32, nc1_eq32, nc2_eq32, nc3_eq32]
  vstep u1 [hp0, hp1, hp2, hp3, hp4, hp5, hp6, hp7, hp8, nc0_eq32, nc1_eq32, nc2_eq32, nc3_eq32]
  steps 1 [hp0, hp1, hp2, hp3, hp4, hp5, hp6, hp7, hp8, nc0_eq32, nc1_eq32, nc2_eq32, nc3_eq32]
  vstep q1 [hp0, hp1, hp2, hp3, hp4, hp5, hp6, hp7, hp8, nc0_eq32, nc1_eq32, nc2_eq32, nc3_eq32]
  vstep u2 [hp0, hp1, hp2, hp3, hp4, hp5, hp6, hp7, hp8, nc0_eq32, nc1_eq32, nc2_eq32, nc3_eq32]
  steps 1 [hp0, hp1, hp2, hp3, hp4, hp5, hp6, hp7, hp8, nc0_eq32, nc1_eq32, nc2_eq32, nc3_eq32]
  vstep q2 [hp0, hp1, hp2, hp3, hp4, hp5, hp6, hp7, hp8, nc0_eq32, nc1_eq32, nc2_eq32, nc3_eq32]
  vstep u3 [hp0, hp1, hp2, hp3, hp4, hp5, hp6, hp7, hp8, nc0_eq32, nc1_eq32, nc2_eq32, nc3_eq32]
  steps 1 [hp0, hp1, hp2, hp3, hp4, hp5, hp6, hp7, hp8, nc0_eq32, nc1_eq32, nc2_eq32, nc3_eq32]
  vstep q3 [hp0, hp1, hp2, hp3, hp4, hp5, hp6, hp7, hp8, nc0_eq32, nc1_eq32, nc2_eq32, nc3_eq32]
  vstep u4 [hp0, hp1, hp2, hp3, hp4, hp5, hp6, hp7, hp8, nc0_eq32, nc1_eq32, nc2_eq32, nc3_eq32]
  steps 1 [hp0, hp1, hp2, hp3, hp4, hp5, hp6, hp7, hp8, nc0_eq32, nc1_eq32, nc2_eq32, nc3_eq32]
  vstep q4 [hp0, hp1, hp2, hp3, hp4, hp5, hp6, hp7, hp8, nc0_eq32, nc1_eq32, nc2_eq32, nc3_eq32]
  vstep u5 [hp0, hp1, hp2, hp3, hp4, hp5, hp6, hp7, hp8, nc0_eq32, nc1_eq32, nc2_eq32, nc3_eq32]
  steps 1 [hp0, hp1, hp2, hp3, hp4, hp5, hp6, hp7, hp8, nc0_eq32, nc1_eq32, nc2_eq32, nc3_eq32]
  vstep q5 [hp0, hp1, hp2, hp3, hp4, hp5, hp6, hp7, hp8, nc0_eq32, nc1_eq32, nc2_eq32, nc3_eq32]
  vstep u6 [hp0, hp1, hp2, hp3, hp4, hp5, hp6, hp7, hp8, nc0_eq32, nc1_eq32, nc2_eq32, nc3_eq32]
  steps 1 [hp0, hp1, hp2, hp3, hp4, hp5, hp6, hp7, hp8, nc0_eq32, nc1_eq32, nc2_eq32, nc3_eq32]
  vstep q6 [hp0, hp1, hp2, hp3, hp4, hp5, hp6, hp7, hp8, nc0_eq32, nc1_eq32, nc2_eq32, nc3_eq32]
  vstep u7 [hp0, hp1, hp2, hp3, hp4, hp5, hp6, hp7, hp8, nc0_eq32, nc1_eq32, nc2_eq32, nc3_eq32]
  steps 1 [hp0, hp1, hp2, hp3, hp4, hp5, hp6, hp7, hp8, nc0_eq32, nc1_eq32, nc2_eq32, nc3_eq32]
  vstep q7 [hp0, hp1, hp2, hp3, hp4, hp5, hp6, hp7, hp8, nc0_eq32, nc1_eq32, nc2_eq32, nc3_eq32]
  steps 1 [hp0, hp1, hp2, hp3, hp4, hp5, hp6, hp7, hp8, nc0_eq32, nc1_eq32, nc2_eq32, nc3_eq32]
  reads [RedPost]
  obtain ⟨hr0, hr1, hr2, hr3, hr4, hr5, hr6, hr7, hcc, hVe⟩ := red_stage3_arith32 p0 p1 p2 p3 p4 p5 p6 p7 p8 r0 t1 r1 t2 r2 t3 r3 t4 r4 t5 r5 t6 r6 t7 r7 cc
    P0 P1 P2 P3 P4 P5 P6 P7 P8
    r0_def t1_def r1_def t2_def r2_def t3_def r3_def t4_def r4_def t5_def r5_def t6_def r6_def t7_def r7_def cc_def
  have yes_def := check_overflow_spec32 r0 r1 r2 r3 r4 r5 r6 r7 n1 n2 n3 n4 y1 n5 y2 n6 y3 n7 y4 y5 hr0 hr1 hr2 hr3 hr4 hr5 hr6 hr7 n1_def n2_def n3_def n4_def y1_def n5_def y2_def n6_def y3_def n7_def y4_def y5_def
  have hPlt : val8x32 p0 p1 p2 p3 p4 p5 p6 p7 < 2 ^ 256 := val8x32_lt P0 P1 P2 P3 P4 P5 P6 P7
  have hlt : val8x32 r0 r1 r2 r3 r4 r5 r6 r7 + cc * 2 ^ 256 < 2 * N := by
    rw [hVe]; clear * - hPlt P8; simp only [N]; omega
  obtain ⟨_, _, hFe, hFlt, hq0, hq1, hq2, hq3, hq4, hq5, hq6, hq7⟩ := final_reduce_arith32 r0 r1 r2 r3 r4 r5 r6 r7 cc y5 ov q0 u1 q1 u2 q2 u3 q3 u4 q4 u5 q5 u6 q6 u7 q7
    hr0 hr1 hr2 hr3 hr4 hr5 hr6 hr7 hcc hlt yes_def ov_def q0_def u1_def q1_def u2_def q2_def u3_def q3_def u4_def q4_def u5_def q5_def u6_def q6_def u7_def q7_def
  refine ⟨?_, hq0, hq1, hq2, hq3, hq4, hq5, hq6, hq7⟩
  refine eq_mod_of_eq_add_mul (q := q + p8 + ov) ?_ hFlt
  rw [hVe] at hFe
  clear * - hFe hq
  generalize val8x32 q0 q1 q2 q3 q4 q5 q6 q7 = Q at *
  generalize val8x32 p0 p1 p2 p3 p4 p5 p6 p7 = P at *
  simp only [N] at hFe hq ⊢
  omega

set_option maxRecDepth 100000 in
set_option maxHeartbeats 4000000 in
theorem scalar_mul_red_run_p7 (env : Env) (l0 l1 l2 l3 l4 l5 l6 l7 l8 l9 l10 l11 l12 l13 l14 l15 v : Nat) (v7_0 v7_1 v7_2 v7_3 v7_4 v7_5 v7_6 v7_7 v7_8 v7_9 v7_10 v7_11 v7_12 v7_13 v7_14 v7_15 v7_16 v7_17 v7_18 v7_19 v7_20 : Nat) (L0 : l0 < 2 ^ 32) (L1 : l1 < 2 ^ 32) (L2 : l2 < 2 ^ 32) (L3 : l3 < 2 ^ 32) (L4 : l4 < 2 ^ 32) (L5 : l5 < 2 ^ 32) (L6 : l6 < 2 ^ 32) (L7 : l7 < 2 ^ 32) (L8 : l8 < 2 ^ 32) (L9 : l9 < 2 ^ 32) (L10 : l10 < 2 ^ 32) (L11 : l11 < 2 ^ 32) (L12 : l12 < 2 ^ 32) (L13 : l13 < 2 ^ 32) (L14 : l14 < 2 ^ 32) (L15 : l15 < 2 ^ 32) (hv : val16x32 l0 l1 l2 l3 l4 l5 l6 l7 l8 l9 l10 l11 l12 l13 l14 l15 = v) 
    (h_scalar_reduce_512_4_m6_0 : env.get "scalar_reduce_512_4.m6" 0 = v7_0)
    (h_scalar_reduce_512_4_m7_0 : env.get "scalar_reduce_512_4.m7" 0 = v7_1)
    (h_scalar_reduce_512_4_m10_0 : env.get "scalar_reduce_512_4.m10" 0 = v7_2)
    (h_scalar_reduce_512_4_m11_0 : env.get "scalar_reduce_512_4.m11" 0 = v7_3)
    (h_scalar_reduce_512_4_m12_0 : env.get "scalar_reduce_512_4.m12" 0 = v7_4)
    (h_scalar_reduce_512_4_p0_0 : env.get "scalar_reduce_512_4.p0" 0 = v7_5)
    (h_scalar_reduce_512_4_p1_0 : env.get "scalar_reduce_512_4.p1" 0 = v7_6)
    (h_scalar_reduce_512_4_p2_0 : env.get "scalar_reduce_512_4.p2" 0 = v7_7)
    (h_scalar_reduce_512_4_p3_0 : env.get "scalar_reduce_512_4.p3" 0 = v7_8)
    (h_scalar_reduce_512_4_p4_0 : env.get "scalar_reduce_512_4.p4" 0 = v7_9)
    (h_scalar_reduce_512_4_p5_0 : env.get "scalar_reduce_512_4.p5" 0 = v7_10)
    (L_v7_0 : v7_0 < 2 ^ 32)
    (L_v7_1 : v7_1 < 2 ^ 32)
    (L_v7_2 : v7_2 < 2 ^ 32)
    (L_v7_3 : v7_3 < 2 ^ 32)
    (L_v7_4 : v7_4 < 2 ^ 32)
    (U_v7_4 : v7_4 ≤ 1)
    (L_v7_5 : v7_5 < 2 ^ 32)
    (L_v7_6 : v7_6 < 2 ^ 32)
    (L_v7_7 : v7_7 < 2 ^ 32)
    (L_v7_8 : v7_8 < 2 ^ 32)
    (L_v7_9 : v7_9 < 2 ^ 32)
    (L_v7_10 : v7_10 < 2 ^ 32)
    (L_v7_11 : v7_11 < 2 ^ 32)
    (L_v7_12 : v7_12 < 2 ^ 32)
    (hc0 : env.get "scalar_reduce_512_4.c0" 0 = v7_11)
    (hc1 : env.get "scalar_reduce_512_4.c1" 0 = v7_12)
    (hc2 : env.get "scalar_reduce_512_4.c2" 0 = 0)
    (hB : v7_11 + v7_12 * 2 ^ 32 + 0 * 2 ^ 64 ≤ 2517140191)
    (hcum : v7_5 + v7_6 * 2 ^ 32 + v7_7 * 2 ^ 64 + v7_8 * 2 ^ 96 + v7_9 * 2 ^ 128 + v7_10 * 2 ^ 160 + (v7_11 + v7_12 * 2 ^ 32) * 2 ^ 192 = v7_13 + (v7_14 * 801750719) + (v7_15 + v7_16 * 801750719 + v7_14 * 1076732275) * 2 ^ 32 + (v7_17 + v7_2 * 801750719 + v7_16 * 1076732275 + v7_14 * 1354194884) * 2 ^ 64 + (v7_18 + v7_3 * 801750719 + v7_2 * 1076732275 + v7_16 * 1354194884 + v7_14 * 1162945305) * 2 ^ 96 + (v7_19 + v7_4 * 801750719 + v7_3 * 1076732275 + v7_2 * 1354194884 + v7_16 * 1162945305 + v7_14) * 2 ^ 128 + (v7_20 + v7_4 * 1076732275 + v7_3 * 1354194884 + v7_2 * 1162945305 + v7_16) * 2 ^ 160)
    (hS0 : v7_13 + v7_15 * 2 ^ 32 + v7_17 * 2 ^ 64 + v7_18 * 2 ^ 96 + v7_19 * 2 ^ 128 + v7_20 * 2 ^ 160 + v7_0 * 2 ^ 192 + v7_1 * 2 ^ 224 + v7_14 * 2 ^ 256 + v7_16 * 2 ^ 288 + v7_2 * 2 ^ 320 + v7_3 * 2 ^ 352 + v7_4 * 2 ^ 384 = l0 + (l8 * 801750719) + (l1 + l9 * 801750719 + l8 * 1076732275) * 2 ^ 32 + (l2 + l10 * 801750719 + l9 * 1076732275 + l8 * 1354194884) * 2 ^ 64 + (l3 + l11 * 801750719 + l10 * 1076732275 + l9 * 1354194884 + l8 * 1162945305) * 2 ^ 96 + (l4 + l12 * 801750719 + l11 * 1076732275 + l10 * 1354194884 + l9 * 1162945305 + l8) * 2 ^ 128 + (l5 + l13 * 801750719 + l12 * 1076732275 + l11 * 1354194884 + l10 * 1162945305 + l9) * 2 ^ 160 + (l6 + l14 * 801750719 + l13 * 1076732275 + l12 * 1354194884 + l11 * 1162945305 + l10) * 2 ^ 192 + (l7 + l15 * 801750719 + l14 * 1076732275 + l13 * 1354194884 + l12 * 1162945305 + l11) * 2 ^ 224 + (l15 * 1076732275 + l14 * 1354194884 + l13 * 1162945305 + l12) * 2 ^ 256 + (l15 * 1354194884 + l14 * 1162945305 + l13) * 2 ^ 288 + (l15 * 1162945305 + l14) * 2 ^ 320 + (l15) * 2 ^ 352) :
    RedPost v (runR env (Gen.scalar8x32.scalar_mul.body.drop 1015)) := by
  simp only [Gen.scalar8x32.scalar_mul, List.drop_succ_cons, List.drop_zero]
  refine sumadd_rule accSr "scalar_reduce_512_4.m6" 0 v7_11 v7_12 0 v7_0 _ (by decide) (by decide) (Reads_var _) (by decide) hc0 hc1 hc2 (transportF (Frame.refl accSr env) (by decide) h_scalar_reduce_512_4_m6_0) L_v7_11 L_v7_12 L_v7_0 hB (by decide) ?_
  intro es1 s1_0 s1_1 s1_2 s1_F s1_c0 s1_c1 s1_c2 s1_lt0 s1_lt1 s1_lt2 s1_A s1_B
  replace s1_A := s1_A.trans (z3_xy0 _ _ _)
  conv at s1_B => rhs; simp only [Nat.reducePow, Nat.reduceSub, Nat.reduceMul, Nat.reduceAdd]
  clear hc0 hc1 hc2 hB L_v7_11 L_v7_12
  refine muladd_rule accSr s1_0 s1_1 s1_2 v7_4 1354194884 1 1354194884 _ (by decide) (by decide) s1_c0 s1_c1 s1_c2 (ev_var_of s1_F (by decide) h_scalar_reduce_512_4_m12_0) (ev_nc2 _) s1_lt0 s1_lt1 U_v7_4 (Nat.le_refl _) (by decide) (by decide) s1_B (by decide) ?_
  intro es2 s2_0 s2_1 s2_2 s2_F s2_c0 s2_c1 s2_c2 s2_lt0 s2_lt1 s2_lt2 s2_A s2_B
  conv at s2_B => rhs; simp only [Nat.reducePow, Nat.reduceSub, Nat.reduceMul, Nat.reduceAdd]
  have Fs2 := s1_F.trans s2_F
  clear s1_F s2_F s1_c0 s1_c1 s1_c2 s1_B s1_lt0 s1_lt1 s1_lt2
  clear es1
  refine muladd_rule accSr s2_0 s2_1 s2_2 v7_3 1162945305 4294967295 1162945305 _ (by decide) (by decide) s2_c0 s2_c1 s2_c2 (ev_var_of Fs2 (by decide) h_scalar_reduce_512_4_m11_0) (ev_nc3 _) s2_lt0 s2_lt1 (le_of_lt32 L_v7_3) (Nat.le_refl _) (by decide) (by decide) s2_B (by decide) ?_
  intro es3 s3_0 s3_1 s3_2 s3_F s3_c0 s3_c1 s3_c2 s3_lt0 s3_lt1 s3_lt2 s3_A s3_B
  conv at s3_B => rhs; simp only [Nat.reducePow, Nat.reduceSub, Nat.reduceMul, Nat.reduceAdd]
  have Fs3 := Fs2.trans s3_F
  clear Fs2 s3_F s2_c0 s2_c1 s2_c2 s2_B s2_lt0 s2_lt1 s2_lt2
  clear es2
  refine sumadd_rule accSr "scalar_reduce_512_4.m10" 0 s3_0 s3_1 s3_2 v7_2 _ (by decide) (by decide) (Reads_var _) (by decide) s3_c0 s3_c1 s3_c2 (transportF Fs3 (by decide) h_scalar_reduce_512_4_m10_0) s3_lt0 s3_lt1 L_v7_2 s3_B (by decide) ?_
  intro es4 s4_0 s4_1 s4_2 s4_F s4_c0 s4_c1 s4_c2 s4_lt0 s4_lt1 s4_lt2 s4_A s4_B
  conv at s4_B => rhs; simp only [Nat.reducePow, Nat.reduceSub, Nat.reduceMul, Nat.reduceAdd]
  have Fs4 := Fs3.trans s4_F
  clear Fs3 s4_F s3_c0 s3_c1 s3_c2 s3_B s3_lt0 s3_lt1 s3_lt2
  clear es3
  have hcols1 : s4_0 + (s4_1 + s4_2 * 2 ^ 32) * 2 ^ 32 = v7_11 + v7_12 * 2 ^ 32 + (v7_0 + v7_4 * 1354194884 + v7_3 * 1162945305 + v7_2) := (reshape3 s4_0 s4_1 s4_2).trans (colsum4 s1_A s2_A s3_A s4_A)
  clear s1_A s2_A s3_A s4_A
  have cums1 := combine 224 hcum hcols1 rfl
  clear hcum hcols1
  refine extract_rule accSr s4_0 s4_1 s4_2 (by decide) (by decide) s4_c0 s4_c1 s4_c2 ?_
  intro es5 s5_Fx s5_o s5_c0 s5_c1 s5_c2
  have fs1_scalar_reduce_512_4_m7_0 := transport s5_Fx Fs4 (by decide) (by decide) h_scalar_reduce_512_4_m7_0
  have fs1_scalar_reduce_512_4_m11_0 := transport s5_Fx Fs4 (by decide) (by decide) h_scalar_reduce_512_4_m11_0
  have fs1_scalar_reduce_512_4_m12_0 := transport s5_Fx Fs4 (by decide) (by decide) h_scalar_reduce_512_4_m12_0
  have fs1_scalar_reduce_512_4_p0_0 := transport s5_Fx Fs4 (by decide) (by decide) h_scalar_reduce_512_4_p0_0
  have fs1_scalar_reduce_512_4_p1_0 := transport s5_Fx Fs4 (by decide) (by decide) h_scalar_reduce_512_4_p1_0
  have fs1_scalar_reduce_512_4_p2_0 := transport s5_Fx Fs4 (by decide) (by decide) h_scalar_reduce_512_4_p2_0
  have fs1_scalar_reduce_512_4_p3_0 := transport s5_Fx Fs4 (by decide) (by decide) h_scalar_reduce_512_4_p3_0
  have fs1_scalar_reduce_512_4_p4_0 := transport s5_Fx Fs4 (by decide) (by decide) h_scalar_reduce_512_4_p4_0
  have fs1_scalar_reduce_512_4_p5_0 := transport s5_Fx Fs4 (by decide) (by decide) h_scalar_reduce_512_4_p5_0
  have s5_B := extract_bound32 s4_B
  conv at s5_B => rhs; simp only [Nat.reducePow, Nat.reduceDiv]
  clear h_scalar_reduce_512_4_m6_0 h_scalar_reduce_512_4_m7_0 h_scalar_reduce_512_4_m10_0 h_scalar_reduce_512_4_m11_0 h_scalar_reduce_512_4_m12_0 h_scalar_reduce_512_4_p0_0 h_scalar_reduce_512_4_p1_0 h_scalar_reduce_512_4_p2_0 h_scalar_reduce_512_4_p3_0 h_scalar_reduce_512_4_p4_0 h_scalar_reduce_512_4_p5_0 s4_c0 s4_c1 s4_c2 s4_B s5_Fx Fs4
  clear es4 env
  refine sumadd_fast_rule accSr "scalar_reduce_512_4.c2" "scalar_reduce_512_4.m7" 0 s4_1 s4_2 0 v7_1 _ (by decide) (by decide) (Reads_var _) (by decide) s5_c0 s5_c1 s5_c2 (transportF (Frame.refl accSr es5) (by decide) fs1_scalar_reduce_512_4_m7_0) s4_lt1 s4_lt2 L_v7_1 (acc_drop2 s5_B) (by decide) ?_
  intro es6 s6_0 s6_1 s6_F s6_c0 s6_c1 s6_c2 s6_lt0 s6_lt1 s6_A s6_B
  conv at s6_B => rhs; simp only [Nat.reducePow, Nat.reduceSub, Nat.reduceMul, Nat.reduceAdd]
  clear s5_c0 s5_c1 s5_c2 s5_B s4_lt1 s4_lt2
  refine muladd_fast_rule accSr "scalar_reduce_512_4.c2" s6_0 s6_1 0 v7_4 1162945305 1 1162945305 _ (by decide) (by decide) s6_c0 s6_c1 s6_c2 (ev_var_of s6_F (by decide) fs1_scalar_reduce_512_4_m12_0) (ev_nc3 _) s6_lt0 s6_lt1 U_v7_4 (Nat.le_refl _) (by decide) (by decide) s6_B (by decide) ?_
  intro es7 s7_0 s7_1 s7_F s7_c0 s7_c1 s7_c2 s7_lt0 s7_lt1 s7_A s7_B
  conv at s7_B => rhs; simp only [Nat.reducePow, Nat.reduceSub, Nat.reduceMul, Nat.reduceAdd]
  have Fs7 := s6_F.trans s7_F
  clear s6_F s7_F s6_c0 s6_c1 s6_c2 s6_B s6_lt0 s6_lt1
  clear es6
  refine sumadd_fast_rule accSr "scalar_reduce_512_4.c2" "scalar_reduce_512_4.m11" 0 s7_0 s7_1 0 v7_3 _ (by decide) (by decide) (Reads_var _) (by decide) s7_c0 s7_c1 s7_c2 (transportF Fs7 (by decide) fs1_scalar_reduce_512_4_m11_0) s7_lt0 s7_lt1 L_v7_3 s7_B (by decide) ?_
  intro es8 s8_0 s8_1 s8_F s8_c0 s8_c1 s8_c2 s8_lt0 s8_lt1 s8_A s8_B
  conv at s8_B => rhs; simp only [Nat.reducePow, Nat.reduceSub, Nat.reduceMul, Nat.reduceAdd]
  have Fs8 := Fs7.trans s8_F
  clear Fs7 s8_F s7_c0 s7_c1 s7_c2 s7_B s7_lt0 s7_lt1
  clear es7
  have hcols2 : s8_0 + s8_1 * 2 ^ 32 = s4_1 + s4_2 * 2 ^ 32 + (v7_1 + v7_4 * 1162945305 + v7_3) := colsum3 s6_A s7_A s8_A
  clear s6_A s7_A s8_A
  have cums2 := combine 256 cums1 hcols2 rfl
  clear cums1 hcols2
  refine extract_fast_rule accSr "scalar_reduce_512_4.c2" s8_0 s8_1 0 (by decide) (by decide) s8_c0 s8_c1 s8_c2 ?_
  intro es9 s9_Fx s9_o s9_c0 s9_c1 s9_c2
  have fs2_scalar_reduce_512_4_m12_0 := transport s9_Fx Fs8 (by decide) (by decide) fs1_scalar_reduce_512_4_m12_0
  have fs2_scalar_reduce_512_4_p0_0 := transport s9_Fx Fs8 (by decide) (by decide) fs1_scalar_reduce_512_4_p0_0
  have fs2_scalar_reduce_512_4_p1_0 := transport s9_Fx Fs8 (by decide) (by decide) fs1_scalar_reduce_512_4_p1_0
  have fs2_scalar_reduce_512_4_p2_0 := transport s9_Fx Fs8 (by decide) (by decide) fs1_scalar_reduce_512_4_p2_0
  have fs2_scalar_reduce_512_4_p3_0 := transport s9_Fx Fs8 (by decide) (by decide) fs1_scalar_reduce_512_4_p3_0
  have fs2_scalar_reduce_512_4_p4_0 := transport s9_Fx Fs8 (by decide) (by decide) fs1_scalar_reduce_512_4_p4_0
  have fs2_scalar_reduce_512_4_p5_0 := transport s9_Fx Fs8 (by decide) (by decide) fs1_scalar_reduce_512_4_p5_0
  have fs2_scalar_reduce_512_4_p6_0 := transport s9_Fx Fs8 (by decide) (by decide) s5_o
  have s9_B := extract_bound32' s8_B
  conv at s9_B => rhs; simp only [Nat.reducePow, Nat.reduceDiv]
  clear fs1_scalar_reduce_512_4_m7_0 fs1_scalar_reduce_512_4_m11_0 fs1_scalar_reduce_512_4_m12_0 fs1_scalar_reduce_512_4_p0_0 fs1_scalar_reduce_512_4_p1_0 fs1_scalar_reduce_512_4_p2_0 fs1_scalar_reduce_512_4_p3_0 fs1_scalar_reduce_512_4_p4_0 fs1_scalar_reduce_512_4_p5_0 s5_o s8_c0 s8_c1 s8_c2 s8_B s9_Fx Fs8
  clear es8 es5
  have cums3b := combine_add v7_4 cums2
  clear cums2
  refine assign_rule accSr (binWrap .add 32 s8_1 v7_4) (by rw [ev_bin, (ev_var _ _).trans s9_c0, (ev_var_of (Frame.refl accSr es9) (by decide) fs2_scalar_reduce_512_4_m12_0)]) ?_
  intro es10 s10_Fx s10_o
  have s10_e : binWrap .add 32 s8_1 v7_4 = s8_1 + v7_4 := add32_small (top_le2 s9_B) U_v7_4 (by decide)
  rw [s10_e] at s10_o
  have s10_U : s8_1 + v7_4 ≤ 3 := Nat.add_le_add (top_le2 s9_B) U_v7_4
  clear s10_e
  have fs3_scalar_reduce_512_4_p0_0 := transport s10_Fx (Frame.refl accSr es9) (by decide) (by decide) fs2_scalar_reduce_512_4_p0_0
  have fs3_scalar_reduce_512_4_p1_0 := transport s10_Fx (Frame.refl accSr es9) (by decide) (by decide) fs2_scalar_reduce_512_4_p1_0
  have fs3_scalar_reduce_512_4_p2_0 := transport s10_Fx (Frame.refl accSr es9) (by decide) (by decide) fs2_scalar_reduce_512_4_p2_0
  have fs3_scalar_reduce_512_4_p3_0 := transport s10_Fx (Frame.refl accSr es9) (by decide) (by decide) fs2_scalar_reduce_512_4_p3_0
  have fs3_scalar_reduce_512_4_p4_0 := transport s10_Fx (Frame.refl accSr es9) (by decide) (by decide) fs2_scalar_reduce_512_4_p4_0
  have fs3_scalar_reduce_512_4_p5_0 := transport s10_Fx (Frame.refl accSr es9) (by decide) (by decide) fs2_scalar_reduce_512_4_p5_0
  have fs3_scalar_reduce_512_4_p6_0 := transport s10_Fx (Frame.refl accSr es9) (by decide) (by decide) fs2_scalar_reduce_512_4_p6_0
  have fs3_scalar_reduce_512_4_p7_0 := transport s10_Fx (Frame.refl accSr es9) (by decide) (by decide) s9_o
  clear fs2_scalar_reduce_512_4_m12_0 fs2_scalar_reduce_512_4_p0_0 fs2_scalar_reduce_512_4_p1_0 fs2_scalar_reduce_512_4_p2_0 fs2_scalar_reduce_512_4_p3_0 fs2_scalar_reduce_512_4_p4_0 fs2_scalar_reduce_512_4_p5_0 fs2_scalar_reduce_512_4_p6_0 s9_o s10_Fx s9_c0 s9_c1 s9_c2 s9_B
  clear es9
  have hq := red_combine32 l0 l1 l2 l3 l4 l5 l6 l7 l8 l9 l10 l11 l12 l13 l14 l15 v7_13 v7_15 v7_17 v7_18 v7_19 v7_20 v7_0 v7_1 v7_14 v7_16 v7_2 v7_3 v7_4 v7_5 v7_6 v7_7 v7_8 v7_9 v7_10 s4_0 s8_0 (s8_1 + v7_4) v hS0 cums3b hv
  exact red_final_m es10 v7_5 v7_6 v7_7 v7_8 v7_9 v7_10 s4_0 s8_0 (s8_1 + v7_4) (val8x32 l8 l9 l10 l11 l12 l13 l14 l15 + (v7_14 + v7_16 * 2 ^ 32 + v7_2 * 2 ^ 64 + v7_3 * 2 ^ 96 + v7_4 * 2 ^ 128)) v fs3_scalar_reduce_512_4_p0_0 fs3_scalar_reduce_512_4_p1_0 fs3_scalar_reduce_512_4_p2_0 fs3_scalar_reduce_512_4_p3_0 fs3_scalar_reduce_512_4_p4_0 fs3_scalar_reduce_512_4_p5_0 fs3_scalar_reduce_512_4_p6_0 fs3_scalar_reduce_512_4_p7_0 s10_o L_v7_5 L_v7_6 L_v7_7 L_v7_8 L_v7_9 L_v7_10 s4_lt0 s8_lt0 s10_U hq

set_option maxRecDepth 100000 in
set_option maxHeartbeats 4000000 in
theorem scalar_mul_red_run_p6 (env : Env) (l0 l1 l2 l3 l4 l5 l6 l7 l8 l9 l10 l11 l12 l13 l14 l15 v : Nat) (v6_0 v6_1 v6_2 v6_3 v6_4 v6_5 v6_6 v6_7 v6_8 v6_9 v6_10 v6_11 v6_12 v6_13 v6_14 v6_15 v6_16 v6_17 v6_18 : Nat) (L0 : l0 < 2 ^ 32) (L1 : l1 < 2 ^ 32) (L2 : l2 < 2 ^ 32) (L3 : l3 < 2 ^ 32) (L4 : l4 < 2 ^ 32) (L5 : l5 < 2 ^ 32) (L6 : l6 < 2 ^ 32) (L7 : l7 < 2 ^ 32) (L8 : l8 < 2 ^ 32) (L9 : l9 < 2 ^ 32) (L10 : l10 < 2 ^ 32) (L11 : l11 < 2 ^ 32) (L12 : l12 < 2 ^ 32) (L13 : l13 < 2 ^ 32) (L14 : l14 < 2 ^ 32) (L15 : l15 < 2 ^ 32) (hv : val16x32 l0 l1 l2 l3 l4 l5 l6 l7 l8 l9 l10 l11 l12 l13 l14 l15 = v) 
    (h_scalar_reduce_512_4_m4_0 : env.get "scalar_reduce_512_4.m4" 0 = v6_0)
    (h_scalar_reduce_512_4_m5_0 : env.get "scalar_reduce_512_4.m5" 0 = v6_1)
    (h_scalar_reduce_512_4_m6_0 : env.get "scalar_reduce_512_4.m6" 0 = v6_2)
    (h_scalar_reduce_512_4_m7_0 : env.get "scalar_reduce_512_4.m7" 0 = v6_3)
    (h_scalar_reduce_512_4_m8_0 : env.get "scalar_reduce_512_4.m8" 0 = v6_4)
    (h_scalar_reduce_512_4_m9_0 : env.get "scalar_reduce_512_4.m9" 0 = v6_5)
    (h_scalar_reduce_512_4_m10_0 : env.get "scalar_reduce_512_4.m10" 0 = v6_6)
    (h_scalar_reduce_512_4_m11_0 : env.get "scalar_reduce_512_4.m11" 0 = v6_7)
    (h_scalar_reduce_512_4_m12_0 : env.get "scalar_reduce_512_4.m12" 0 = v6_8)
    (h_scalar_reduce_512_4_p0_0 : env.get "scalar_reduce_512_4.p0" 0 = v6_9)
    (h_scalar_reduce_512_4_p1_0 : env.get "scalar_reduce_512_4.p1" 0 = v6_10)
    (h_scalar_reduce_512_4_p2_0 : env.get "scalar_reduce_512_4.p2" 0 = v6_11)
    (h_scalar_reduce_512_4_p3_0 : env.get "scalar_reduce_512_4.p3" 0 = v6_12)
    (L_v6_0 : v6_0 < 2 ^ 32)
    (L_v6_1 : v6_1 < 2 ^ 32)
    (L_v6_2 : v6_2 < 2 ^ 32)
    (L_v6_3 : v6_3 < 2 ^ 32)
    (L_v6_4 : v6_4 < 2 ^ 32)
    (L_v6_5 : v6_5 < 2 ^ 32)
    (L_v6_6 : v6_6 < 2 ^ 32)
    (L_v6_7 : v6_7 < 2 ^ 32)
    (L_v6_8 : v6_8 < 2 ^ 32)
    (U_v6_8 : v6_8 ≤ 1)
    (L_v6_9 : v6_9 < 2 ^ 32)
    (L_v6_10 : v6_10 < 2 ^ 32)
    (L_v6_11 : v6_11 < 2 ^ 32)
    (L_v6_12 : v6_12 < 2 ^ 32)
    (L_v6_13 : v6_13 < 2 ^ 32)
    (L_v6_14 : v6_14 < 2 ^ 32)
    (hc0 : env.get "scalar_reduce_512_4.c0" 0 = v6_13)
    (hc1 : env.get "scalar_reduce_512_4.c1" 0 = v6_14)
    (hc2 : env.get "scalar_reduce_512_4.c2" 0 = 0)
    (hB : v6_13 + v6_14 * 2 ^ 32 + 0 * 2 ^ 64 ≤ 4395623183)
    (hcum : v6_9 + v6_10 * 2 ^ 32 + v6_11 * 2 ^ 64 + v6_12 * 2 ^ 96 + (v6_13 + v6_14 * 2 ^ 32) * 2 ^ 128 = v6_15 + (v6_4 * 801750719) + (v6_16 + v6_5 * 801750719 + v6_4 * 1076732275) * 2 ^ 32 + (v6_17 + v6_6 * 801750719 + v6_5 * 1076732275 + v6_4 * 1354194884) * 2 ^ 64 + (v6_18 + v6_7 * 801750719 + v6_6 * 1076732275 + v6_5 * 1354194884 + v6_4 * 1162945305) * 2 ^ 96)
    (hS0 : v6_15 + v6_16 * 2 ^ 32 + v6_17 * 2 ^ 64 + v6_18 * 2 ^ 96 + v6_0 * 2 ^ 128 + v6_1 * 2 ^ 160 + v6_2 * 2 ^ 192 + v6_3 * 2 ^ 224 + v6_4 * 2 ^ 256 + v6_5 * 2 ^ 288 + v6_6 * 2 ^ 320 + v6_7 * 2 ^ 352 + v6_8 * 2 ^ 384 = l0 + (l8 * 801750719) + (l1 + l9 * 801750719 + l8 * 1076732275) * 2 ^ 32 + (l2 + l10 * 801750719 + l9 * 1076732275 + l8 * 1354194884) * 2 ^ 64 + (l3 + l11 * 801750719 + l10 * 1076732275 + l9 * 1354194884 + l8 * 1162945305) * 2 ^ 96 + (l4 + l12 * 801750719 + l11 * 1076732275 + l10 * 1354194884 + l9 * 1162945305 + l8) * 2 ^ 128 + (l5 + l13 * 801750719 + l12 * 1076732275 + l11 * 1354194884 + l10 * 1162945305 + l9) * 2 ^ 160 + (l6 + l14 * 801750719 + l13 * 1076732275 + l12 * 1354194884 + l11 * 1162945305 + l10) * 2 ^ 192 + (l7 + l15 * 801750719 + l14 * 1076732275 + l13 * 1354194884 + l12 * 1162945305 + l11) * 2 ^ 224 + (l15 * 1076732275 + l14 * 1354194884 + l13 * 1162945305 + l12) * 2 ^ 256 + (l15 * 1354194884 + l14 * 1162945305 + l13) * 2 ^ 288 + (l15 * 1162945305 + l14) * 2 ^ 320 + (l15) * 2 ^ 352) :
    RedPost v (runR env (Gen.scalar8x32.scalar_mul.body.drop 942)) := by
  simp only [Gen.scalar8x32.scalar_mul, List.drop_succ_cons, List.drop_zero]
  refine sumadd_rule accSr "scalar_reduce_512_4.m4" 0 v6_13 v6_14 0 v6_0 _ (by decide) (by decide) (Reads_var _) (by decide) hc0 hc1 hc2 (transportF (Frame.refl accSr env) (by decide) h_scalar_reduce_512_4_m4_0) L_v6_13 L_v6_14 L_v6_0 hB (by decide) ?_
  intro es1 s1_0 s1_1 s1_2 s1_F s1_c0 s1_c1 s1_c2 s1_lt0 s1_lt1 s1_lt2 s1_A s1_B
  replace s1_A := s1_A.trans (z3_xy0 _ _ _)
  conv at s1_B => rhs; simp only [Nat.reducePow, Nat.reduceSub, Nat.reduceMul, Nat.reduceAdd]
  clear hc0 hc1 hc2 hB L_v6_13 L_v6_14
  refine muladd_rule accSr s1_0 s1_1 s1_2 v6_8 801750719 1 801750719 _ (by decide) (by decide) s1_c0 s1_c1 s1_c2 (ev_var_of s1_F (by decide) h_scalar_reduce_512_4_m12_0) (ev_nc0 _) s1_lt0 s1_lt1 U_v6_8 (Nat.le_refl _) (by decide) (by decide) s1_B (by decide) ?_
  intro es2 s2_0 s2_1 s2_2 s2_F s2_c0 s2_c1 s2_c2 s2_lt0 s2_lt1 s2_lt2 s2_A s2_B
  conv at s2_B => rhs; simp only [Nat.reducePow, Nat.reduceSub, Nat.reduceMul, Nat.reduceAdd]
  have Fs2 := s1_F.trans s2_F
  clear s1_F s2_F s1_c0 s1_c1 s1_c2 s1_B s1_lt0 s1_lt1 s1_lt2
  clear es1
  refine muladd_rule accSr s2_0 s2_1 s2_2 v6_7 1076732275 4294967295 1076732275 _ (by decide) (by decide) s2_c0 s2_c1 s2_c2 (ev_var_of Fs2 (by decide) h_scalar_reduce_512_4_m11_0) (ev_nc1 _) s2_lt0 s2_lt1 (le_of_lt32 L_v6_7) (Nat.le_refl _) (by decide) (by decide) s2_B (by decide) ?_
  intro es3 s3_0 s3_1 s3_2 s3_F s3_c0 s3_c1 s3_c2 s3_lt0 s3_lt1 s3_lt2 s3_A s3_B
  conv at s3_B => rhs; simp only [Nat.reducePow, Nat.reduceSub, Nat.reduceMul, Nat.reduceAdd]
  have Fs3 := Fs2.trans s3_F
  clear Fs2 s3_F s2_c0 s2_c1 s2_c2 s2_B s2_lt0 s2_lt1 s2_lt2
  clear es2
  refine muladd_rule accSr s3_0 s3_1 s3_2 v6_6 1354194884 4294967295 1354194884 _ (by decide) (by decide) s3_c0 s3_c1 s3_c2 (ev_var_of Fs3 (by decide) h_scalar_reduce_512_4_m10_0) (ev_nc2 _) s3_lt0 s3_lt1 (le_of_lt32 L_v6_6) (Nat.le_refl _) (by decide) (by decide) s3_B (by decide) ?_
  intro es4 s4_0 s4_1 s4_2 s4_F s4_c0 s4_c1 s4_c2 s4_lt0 s4_lt1 s4_lt2 s4_A s4_B
  conv at s4_B => rhs; simp only [Nat.reducePow, Nat.reduceSub, Nat.reduceMul, Nat.reduceAdd]
  have Fs4 := Fs3.trans s4_F
  clear Fs3 s4_F s3_c0 s3_c1 s3_c2 s3_B s3_lt0 s3_lt1 s3_lt2
  clear es3
  refine muladd_rule accSr s4_0 s4_1 s4_2 v6_5 1162945305 4294967295 1162945305 _ (by decide) (by decide) s4_c0 s4_c1 s4_c2 (ev_var_of Fs4 (by decide) h_scalar_reduce_512_4_m9_0) (ev_nc3 _) s4_lt0 s4_lt1 (le_of_lt32 L_v6_5) (Nat.le_refl _) (by decide) (by decide) s4_B (by decide) ?_
  intro es5 s5_0 s5_1 s5_2 s5_F s5_c0 s5_c1 s5_c2 s5_lt0 s5_lt1 s5_lt2 s5_A s5_B
  conv at s5_B => rhs; simp only [Nat.reducePow, Nat.reduceSub, Nat.reduceMul, Nat.reduceAdd]
  have Fs5 := Fs4.trans s5_F
  clear Fs4 s5_F s4_c0 s4_c1 s4_c2 s4_B s4_lt0 s4_lt1 s4_lt2
  clear es4
  refine sumadd_rule accSr "scalar_reduce_512_4.m8" 0 s5_0 s5_1 s5_2 v6_4 _ (by decide) (by decide) (Reads_var _) (by decide) s5_c0 s5_c1 s5_c2 (transportF Fs5 (by decide) h_scalar_reduce_512_4_m8_0) s5_lt0 s5_lt1 L_v6_4 s5_B (by decide) ?_
  intro es6 s6_0 s6_1 s6_2 s6_F s6_c0 s6_c1 s6_c2 s6_lt0 s6_lt1 s6_lt2 s6_A s6_B
  conv at s6_B => rhs; simp only [Nat.reducePow, Nat.reduceSub, Nat.reduceMul, Nat.reduceAdd]
  have Fs6 := Fs5.trans s6_F
  clear Fs5 s6_F s5_c0 s5_c1 s5_c2 s5_B s5_lt0 s5_lt1 s5_lt2
  clear es5
  have hcols1 : s6_0 + (s6_1 + s6_2 * 2 ^ 32) * 2 ^ 32 = v6_13 + v6_14 * 2 ^ 32 + (v6_0 + v6_8 * 801750719 + v6_7 * 1076732275 + v6_6 * 1354194884 + v6_5 * 1162945305 + v6_4) := (reshape3 s6_0 s6_1 s6_2).trans (colsum6 s1_A s2_A s3_A s4_A s5_A s6_A)
  clear s1_A s2_A s3_A s4_A s5_A s6_A
  have cums1 := combine 160 hcum hcols1 rfl
  clear hcum hcols1
  refine extract_rule accSr s6_0 s6_1 s6_2 (by decide) (by decide) s6_c0 s6_c1 s6_c2 ?_
  intro es7 s7_Fx s7_o s7_c0 s7_c1 s7_c2
  have fs1_scalar_reduce_512_4_m5_0 := transport s7_Fx Fs6 (by decide) (by decide) h_scalar_reduce_512_4_m5_0
  have fs1_scalar_reduce_512_4_m6_0 := transport s7_Fx Fs6 (by decide) (by decide) h_scalar_reduce_512_4_m6_0
  have fs1_scalar_reduce_512_4_m7_0 := transport s7_Fx Fs6 (by decide) (by decide) h_scalar_reduce_512_4_m7_0
  have fs1_scalar_reduce_512_4_m9_0 := transport s7_Fx Fs6 (by decide) (by decide) h_scalar_reduce_512_4_m9_0
  have fs1_scalar_reduce_512_4_m10_0 := transport s7_Fx Fs6 (by decide) (by decide) h_scalar_reduce_512_4_m10_0
  have fs1_scalar_reduce_512_4_m11_0 := transport s7_Fx Fs6 (by decide) (by decide) h_scalar_reduce_512_4_m11_0
  have fs1_scalar_reduce_512_4_m12_0 := transport s7_Fx Fs6 (by decide) (by decide) h_scalar_reduce_512_4_m12_0
  have fs1_scalar_reduce_512_4_p0_0 := transport s7_Fx Fs6 (by decide) (by decide) h_scalar_reduce_512_4_p0_0
  have fs1_scalar_reduce_512_4_p1_0 := transport s7_Fx Fs6 (by decide) (by decide) h_scalar_reduce_512_4_p1_0
  have fs1_scalar_reduce_512_4_p2_0 := transport s7_Fx Fs6 (by decide) (by decide) h_scalar_reduce_512_4_p2_0
  have fs1_scalar_reduce_512_4_p3_0 := transport s7_Fx Fs6 (by decide) (by decide) h_scalar_reduce_512_4_p3_0
  have s7_B := extract_bound32 s6_B
  conv at s7_B => rhs; simp only [Nat.reducePow, Nat.reduceDiv]
  clear h_scalar_reduce_512_4_m4_0 h_scalar_reduce_512_4_m5_0 h_scalar_reduce_512_4_m6_0 h_scalar_reduce_512_4_m7_0 h_scalar_reduce_512_4_m8_0 h_scalar_reduce_512_4_m9_0 h_scalar_reduce_512_4_m10_0 h_scalar_reduce_512_4_m11_0 h_scalar_reduce_512_4_m12_0 h_scalar_reduce_512_4_p0_0 h_scalar_reduce_512_4_p1_0 h_scalar_reduce_512_4_p2_0 h_scalar_reduce_512_4_p3_0 s6_c0 s6_c1 s6_c2 s6_B s7_Fx Fs6
  clear es6 env
  refine sumadd_rule accSr "scalar_reduce_512_4.m5" 0 s6_1 s6_2 0 v6_1 _ (by decide) (by decide) (Reads_var _) (by decide) s7_c0 s7_c1 s7_c2 (transportF (Frame.refl accSr es7) (by decide) fs1_scalar_reduce_512_4_m5_0) s6_lt1 s6_lt2 L_v6_1 s7_B (by decide) ?_
  intro es8 s8_0 s8_1 s8_2 s8_F s8_c0 s8_c1 s8_c2 s8_lt0 s8_lt1 s8_lt2 s8_A s8_B
  replace s8_A := s8_A.trans (z3_xy0 _ _ _)
  conv at s8_B => rhs; simp only [Nat.reducePow, Nat.reduceSub, Nat.reduceMul, Nat.reduceAdd]
  clear s7_c0 s7_c1 s7_c2 s7_B s6_lt1 s6_lt2
  refine muladd_rule accSr s8_0 s8_1 s8_2 v6_8 1076732275 1 1076732275 _ (by decide) (by decide) s8_c0 s8_c1 s8_c2 (ev_var_of s8_F (by decide) fs1_scalar_reduce_512_4_m12_0) (ev_nc1 _) s8_lt0 s8_lt1 U_v6_8 (Nat.le_refl _) (by decide) (by decide) s8_B (by decide) ?_
  intro es9 s9_0 s9_1 s9_2 s9_F s9_c0 s9_c1 s9_c2 s9_lt0 s9_lt1 s9_lt2 s9_A s9_B
  conv at s9_B => rhs; simp only [Nat.reducePow, Nat.reduceSub, Nat.reduceMul, Nat.reduceAdd]
  have Fs9 := s8_F.trans s9_F
  clear s8_F s9_F s8_c0 s8_c1 s8_c2 s8_B s8_lt0 s8_lt1 s8_lt2
  clear es8
  refine muladd_rule accSr s9_0 s9_1 s9_2 v6_7 1354194884 4294967295 1354194884 _ (by decide) (by decide) s9_c0 s9_c1 s9_c2 (ev_var_of Fs9 (by decide) fs1_scalar_reduce_512_4_m11_0) (ev_nc2 _) s9_lt0 s9_lt1 (le_of_lt32 L_v6_7) (Nat.le_refl _) (by decide) (by decide) s9_B (by decide) ?_
  intro es10 s10_0 s10_1 s10_2 s10_F s10_c0 s10_c1 s10_c2 s10_lt0 s10_lt1 s10_lt2 s10_A s10_B
  conv at s10_B => rhs; simp only [Nat.reducePow, Nat.reduceSub, Nat.reduceMul, Nat.reduceAdd]
  have Fs10 := Fs9.trans s10_F
  clear Fs9 s10_F s9_c0 s9_c1 s9_c2 s9_B s9_lt0 s9_lt1 s9_lt2
  clear es9
  refine muladd_rule accSr s10_0 s10_1 s10_2 v6_6 1162945305 4294967295 1162945305 _ (by decide) (by decide) s10_c0 s10_c1 s10_c2 (ev_var_of Fs10 (by decide) fs1_scalar_reduce_512_4_m10_0) (ev_nc3 _) s10_lt0 s10_lt1 (le_of_lt32 L_v6_6) (Nat.le_refl _) (by decide) (by decide) s10_B (by decide) ?_
  intro es11 s11_0 s11_1 s11_2 s11_F s11_c0 s11_c1 s11_c2 s11_lt0 s11_lt1 s11_lt2 s11_A s11_B
  conv at s11_B => rhs; simp only [Nat.reducePow, Nat.reduceSub, Nat.reduceMul, Nat.reduceAdd]
  have Fs11 := Fs10.trans s11_F
  clear Fs10 s11_F s10_c0 s10_c1 s10_c2 s10_B s10_lt0 s10_lt1 s10_lt2
  clear es10
  refine sumadd_rule accSr "scalar_reduce_512_4.m9" 0 s11_0 s11_1 s11_2 v6_5 _ (by decide) (by decide) (Reads_var _) (by decide) s11_c0 s11_c1 s11_c2 (transportF Fs11 (by decide) fs1_scalar_reduce_512_4_m9_0) s11_lt0 s11_lt1 L_v6_5 s11_B (by decide) ?_
  intro es12 s12_0 s12_1 s12_2 s12_F s12_c0 s12_c1 s12_c2 s12_lt0 s12_lt1 s12_lt2 s12_A s12_B
  conv at s12_B => rhs; simp only [Nat.reducePow, Nat.reduceSub, Nat.reduceMul, Nat.reduceAdd]
  have Fs12 := Fs11.trans s12_F
  clear Fs11 s12_F s11_c0 s11_c1 s11_c2 s11_B s11_lt0 s11_lt1 s11_lt2
  clear es11
  have hcols2 : s12_0 + (s12_1 + s12_2 * 2 ^ 32) * 2 ^ 32 = s6_1 + s6_2 * 2 ^ 32 + (v6_1 + v6_8 * 1076732275 + v6_7 * 1354194884 + v6_6 * 1162945305 + v6_5) := (reshape3 s12_0 s12_1 s12_2).trans (colsum5 s8_A s9_A s10_A s11_A s12_A)
  clear s8_A s9_A s10_A s11_A s12_A
  have cums2 := combine 192 cums1 hcols2 rfl
  clear cums1 hcols2
  refine extract_rule accSr s12_0 s12_1 s12_2 (by decide) (by decide) s12_c0 s12_c1 s12_c2 ?_
  intro es13 s13_Fx s13_o s13_c0 s13_c1 s13_c2
  have fs2_scalar_reduce_512_4_m6_0 := transport s13_Fx Fs12 (by decide) (by decide) fs1_scalar_reduce_512_4_m6_0
  have fs2_scalar_reduce_512_4_m7_0 := transport s13_Fx Fs12 (by decide) (by decide) fs1_scalar_reduce_512_4_m7_0
  have fs2_scalar_reduce_512_4_m10_0 := transport s13_Fx Fs12 (by decide) (by decide) fs1_scalar_reduce_512_4_m10_0
  have fs2_scalar_reduce_512_4_m11_0 := transport s13_Fx Fs12 (by decide) (by decide) fs1_scalar_reduce_512_4_m11_0
  have fs2_scalar_reduce_512_4_m12_0 := transport s13_Fx Fs12 (by decide) (by decide) fs1_scalar_reduce_512_4_m12_0
  have fs2_scalar_reduce_512_4_p0_0 := transport s13_Fx Fs12 (by decide) (by decide) fs1_scalar_reduce_512_4_p0_0
  have fs2_scalar_reduce_512_4_p1_0 := transport s13_Fx Fs12 (by decide) (by decide) fs1_scalar_reduce_512_4_p1_0
  have fs2_scalar_reduce_512_4_p2_0 := transport s13_Fx Fs12 (by decide) (by decide) fs1_scalar_reduce_512_4_p2_0
  have fs2_scalar_reduce_512_4_p3_0 := transport s13_Fx Fs12 (by decide) (by decide) fs1_scalar_reduce_512_4_p3_0
  have fs2_scalar_reduce_512_4_p4_0 := transport s13_Fx Fs12 (by decide) (by decide) s7_o
  have s13_B := extract_bound32 s12_B
  conv at s13_B => rhs; simp only [Nat.reducePow, Nat.reduceDiv]
  clear fs1_scalar_reduce_512_4_m5_0 fs1_scalar_reduce_512_4_m6_0 fs1_scalar_reduce_512_4_m7_0 fs1_scalar_reduce_512_4_m9_0 fs1_scalar_reduce_512_4_m10_0 fs1_scalar_reduce_512_4_m11_0 fs1_scalar_reduce_512_4_m12_0 fs1_scalar_reduce_512_4_p0_0 fs1_scalar_reduce_512_4_p1_0 fs1_scalar_reduce_512_4_p2_0 fs1_scalar_reduce_512_4_p3_0 s7_o s12_c0 s12_c1 s12_c2 s12_B s13_Fx Fs12
  clear es12 es7
  exact scalar_mul_red_run_p7 es13 l0 l1 l2 l3 l4 l5 l6 l7 l8 l9 l10 l11 l12 l13 l14 l15 v v6_2 v6_3 v6_6 v6_7 v6_8 v6_9 v6_10 v6_11 v6_12 s6_0 s12_0 s12_1 s12_2 v6_15 v6_4 v6_16 v6_5 v6_17 v6_18 v6_0 v6_1 L0 L1 L2 L3 L4 L5 L6 L7 L8 L9 L10 L11 L12 L13 L14 L15 hv fs2_scalar_reduce_512_4_m6_0 fs2_scalar_reduce_512_4_m7_0 fs2_scalar_reduce_512_4_m10_0 fs2_scalar_reduce_512_4_m11_0 fs2_scalar_reduce_512_4_m12_0 fs2_scalar_reduce_512_4_p0_0 fs2_scalar_reduce_512_4_p1_0 fs2_scalar_reduce_512_4_p2_0 fs2_scalar_reduce_512_4_p3_0 fs2_scalar_reduce_512_4_p4_0 s13_o L_v6_2 L_v6_3 L_v6_6 L_v6_7 L_v6_8 U_v6_8 L_v6_9 L_v6_10 L_v6_11 L_v6_12 s6_lt0 s12_lt0 s12_lt1 s12_lt2 s13_c0 s13_c1 s13_c2 s13_B cums2 hS0

set_option maxRecDepth 100000 in
set_option maxHeartbeats 4000000 in
theorem scalar_mul_red_run_p5 (env : Env) (l0 l1 l2 l3 l4 l5 l6 l7 l8 l9 l10 l11 l12 l13 l14 l15 v : Nat) (v5_0 v5_1 v5_2 v5_3 v5_4 v5_5 v5_6 v5_7 v5_8 v5_9 v5_10 v5_11 v5_12 v5_13 v5_14 : Nat) (L0 : l0 < 2 ^ 32) (L1 : l1 < 2 ^ 32) (L2 : l2 < 2 ^ 32) (L3 : l3 < 2 ^ 32) (L4 : l4 < 2 ^ 32) (L5 : l5 < 2 ^ 32) (L6 : l6 < 2 ^ 32) (L7 : l7 < 2 ^ 32) (L8 : l8 < 2 ^ 32) (L9 : l9 < 2 ^ 32) (L10 : l10 < 2 ^ 32) (L11 : l11 < 2 ^ 32) (L12 : l12 < 2 ^ 32) (L13 : l13 < 2 ^ 32) (L14 : l14 < 2 ^ 32) (L15 : l15 < 2 ^ 32) (hv : val16x32 l0 l1 l2 l3 l4 l5 l6 l7 l8 l9 l10 l11 l12 l13 l14 l15 = v) 
    (h_scalar_reduce_512_4_m1_0 : env.get "scalar_reduce_512_4.m1" 0 = v5_0)
    (h_scalar_reduce_512_4_m2_0 : env.get "scalar_reduce_512_4.m2" 0 = v5_1)
    (h_scalar_reduce_512_4_m3_0 : env.get "scalar_reduce_512_4.m3" 0 = v5_2)
    (h_scalar_reduce_512_4_m4_0 : env.get "scalar_reduce_512_4.m4" 0 = v5_3)
    (h_scalar_reduce_512_4_m5_0 : env.get "scalar_reduce_512_4.m5" 0 = v5_4)
    (h_scalar_reduce_512_4_m6_0 : env.get "scalar_reduce_512_4.m6" 0 = v5_5)
    (h_scalar_reduce_512_4_m7_0 : env.get "scalar_reduce_512_4.m7" 0 = v5_6)
    (h_scalar_reduce_512_4_m8_0 : env.get "scalar_reduce_512_4.m8" 0 = v5_7)
    (h_scalar_reduce_512_4_m9_0 : env.get "scalar_reduce_512_4.m9" 0 = v5_8)
    (h_scalar_reduce_512_4_m10_0 : env.get "scalar_reduce_512_4.m10" 0 = v5_9)
    (h_scalar_reduce_512_4_m11_0 : env.get "scalar_reduce_512_4.m11" 0 = v5_10)
    (h_scalar_reduce_512_4_m12_0 : env.get "scalar_reduce_512_4.m12" 0 = v5_11)
    (h_scalar_reduce_512_4_p0_0 : env.get "scalar_reduce_512_4.p0" 0 = v5_12)
    (L_v5_0 : v5_0 < 2 ^ 32)
    (L_v5_1 : v5_1 < 2 ^ 32)
    (L_v5_2 : v5_2 < 2 ^ 32)
    (L_v5_3 : v5_3 < 2 ^ 32)
    (L_v5_4 : v5_4 < 2 ^ 32)
    (L_v5_5 : v5_5 < 2 ^ 32)
    (L_v5_6 : v5_6 < 2 ^ 32)
    (L_v5_7 : v5_7 < 2 ^ 32)
    (L_v5_8 : v5_8 < 2 ^ 32)
    (L_v5_9 : v5_9 < 2 ^ 32)
    (L_v5_10 : v5_10 < 2 ^ 32)
    (L_v5_11 : v5_11 < 2 ^ 32)
    (U_v5_11 : v5_11 ≤ 1)
    (L_v5_12 : v5_12 < 2 ^ 32)
    (L_v5_13 : v5_13 < 2 ^ 32)
    (hc0 : env.get "scalar_reduce_512_4.c0" 0 = v5_13)
    (hc1 : env.get "scalar_reduce_512_4.c1" 0 = 0)
    (hc2 : env.get "scalar_reduce_512_4.c2" 0 = 0)
    (hB : v5_13 + 0 * 2 ^ 32 ≤ 801750719)
    (hcum : v5_12 + v5_13 * 2 ^ 32 = v5_14 + (v5_7 * 801750719))
    (hS0 : v5_14 + v5_0 * 2 ^ 32 + v5_1 * 2 ^ 64 + v5_2 * 2 ^ 96 + v5_3 * 2 ^ 128 + v5_4 * 2 ^ 160 + v5_5 * 2 ^ 192 + v5_6 * 2 ^ 224 + v5_7 * 2 ^ 256 + v5_8 * 2 ^ 288 + v5_9 * 2 ^ 320 + v5_10 * 2 ^ 352 + v5_11 * 2 ^ 384 = l0 + (l8 * 801750719) + (l1 + l9 * 801750719 + l8 * 1076732275) * 2 ^ 32 + (l2 + l10 * 801750719 + l9 * 1076732275 + l8 * 1354194884) * 2 ^ 64 + (l3 + l11 * 801750719 + l10 * 1076732275 + l9 * 1354194884 + l8 * 1162945305) * 2 ^ 96 + (l4 + l12 * 801750719 + l11 * 1076732275 + l10 * 1354194884 + l9 * 1162945305 + l8) * 2 ^ 128 + (l5 + l13 * 801750719 + l12 * 1076732275 + l11 * 1354194884 + l10 * 1162945305 + l9) * 2 ^ 160 + (l6 + l14 * 801750719 + l13 * 1076732275 + l12 * 1354194884 + l11 * 1162945305 + l10) * 2 ^ 192 + (l7 + l15 * 801750719 + l14 * 1076732275 + l13 * 1354194884 + l12 * 1162945305 + l11) * 2 ^ 224 + (l15 * 1076732275 + l14 * 1354194884 + l13 * 1162945305 + l12) * 2 ^ 256 + (l15 * 1354194884 + l14 * 1162945305 + l13) * 2 ^ 288 + (l15 * 1162945305 + l14) * 2 ^ 320 + (l15) * 2 ^ 352) :
    RedPost v (runR env (Gen.scalar8x32.scalar_mul.body.drop 857)) := by
  simp only [Gen.scalar8x32.scalar_mul, List.drop_succ_cons, List.drop_zero]
  refine sumadd_fast_rule accSr "scalar_reduce_512_4.c2" "scalar_reduce_512_4.m1" 0 v5_13 0 0 v5_0 _ (by decide) (by decide) (Reads_var _) (by decide) hc0 hc1 hc2 (transportF (Frame.refl accSr env) (by decide) h_scalar_reduce_512_4_m1_0) L_v5_13 zero_lt32 L_v5_0 hB (by decide) ?_
  intro es1 s1_0 s1_1 s1_F s1_c0 s1_c1 s1_c2 s1_lt0 s1_lt1 s1_A s1_B
  replace s1_A := s1_A.trans (z2_x0 _ _)
  conv at s1_B => rhs; simp only [Nat.reducePow, Nat.reduceSub, Nat.reduceMul, Nat.reduceAdd]
  clear hc0 hc1 hc2 hB L_v5_13
  refine muladd_rule accSr s1_0 s1_1 0 v5_8 801750719 4294967295 801750719 _ (by decide) (by decide) s1_c0 s1_c1 s1_c2 (ev_var_of s1_F (by decide) h_scalar_reduce_512_4_m9_0) (ev_nc0 _) s1_lt0 s1_lt1 (le_of_lt32 L_v5_8) (Nat.le_refl _) (by decide) (by decide) (acc_zero2 s1_B) (by decide) ?_
  intro es2 s2_0 s2_1 s2_2 s2_F s2_c0 s2_c1 s2_c2 s2_lt0 s2_lt1 s2_lt2 s2_A s2_B
  replace s2_A := s2_A.trans (z3_xy0 _ _ _)
  conv at s2_B => rhs; simp only [Nat.reducePow, Nat.reduceSub, Nat.reduceMul, Nat.reduceAdd]
  have Fs2 := s1_F.trans s2_F
  clear s1_F s2_F s1_c0 s1_c1 s1_c2 s1_B s1_lt0 s1_lt1
  clear es1
  refine muladd_rule accSr s2_0 s2_1 s2_2 v5_7 1076732275 4294967295 1076732275 _ (by decide) (by decide) s2_c0 s2_c1 s2_c2 (ev_var_of Fs2 (by decide) h_scalar_reduce_512_4_m8_0) (ev_nc1 _) s2_lt0 s2_lt1 (le_of_lt32 L_v5_7) (Nat.le_refl _) (by decide) (by decide) s2_B (by decide) ?_
  intro es3 s3_0 s3_1 s3_2 s3_F s3_c0 s3_c1 s3_c2 s3_lt0 s3_lt1 s3_lt2 s3_A s3_B
  conv at s3_B => rhs; simp only [Nat.reducePow, Nat.reduceSub, Nat.reduceMul, Nat.reduceAdd]
  have Fs3 := Fs2.trans s3_F
  clear Fs2 s3_F s2_c0 s2_c1 s2_c2 s2_B s2_lt0 s2_lt1 s2_lt2
  clear es2
  have hcols1 : s3_0 + (s3_1 + s3_2 * 2 ^ 32) * 2 ^ 32 = v5_13 + (v5_0 + v5_8 * 801750719 + v5_7 * 1076732275) := (reshape3 s3_0 s3_1 s3_2).trans (colsum3 s1_A s2_A s3_A)
  clear s1_A s2_A s3_A
  have cums1 := combine 64 hcum hcols1 rfl
  clear hcum hcols1
  refine extract_rule accSr s3_0 s3_1 s3_2 (by decide) (by decide) s3_c0 s3_c1 s3_c2 ?_
  intro es4 s4_Fx s4_o s4_c0 s4_c1 s4_c2
  have fs1_scalar_reduce_512_4_m2_0 := transport s4_Fx Fs3 (by decide) (by decide) h_scalar_reduce_512_4_m2_0
  have fs1_scalar_reduce_512_4_m3_0 := transport s4_Fx Fs3 (by decide) (by decide) h_scalar_reduce_512_4_m3_0
  have fs1_scalar_reduce_512_4_m4_0 := transport s4_Fx Fs3 (by decide) (by decide) h_scalar_reduce_512_4_m4_0
  have fs1_scalar_reduce_512_4_m5_0 := transport s4_Fx Fs3 (by decide) (by decide) h_scalar_reduce_512_4_m5_0
  have fs1_scalar_reduce_512_4_m6_0 := transport s4_Fx Fs3 (by decide) (by decide) h_scalar_reduce_512_4_m6_0
  have fs1_scalar_reduce_512_4_m7_0 := transport s4_Fx Fs3 (by decide) (by decide) h_scalar_reduce_512_4_m7_0
  have fs1_scalar_reduce_512_4_m8_0 := transport s4_Fx Fs3 (by decide) (by decide) h_scalar_reduce_512_4_m8_0
  have fs1_scalar_reduce_512_4_m9_0 := transport s4_Fx Fs3 (by decide) (by decide) h_scalar_reduce_512_4_m9_0
  have fs1_scalar_reduce_512_4_m10_0 := transport s4_Fx Fs3 (by decide) (by decide) h_scalar_reduce_512_4_m10_0
  have fs1_scalar_reduce_512_4_m11_0 := transport s4_Fx Fs3 (by decide) (by decide) h_scalar_reduce_512_4_m11_0
  have fs1_scalar_reduce_512_4_m12_0 := transport s4_Fx Fs3 (by decide) (by decide) h_scalar_reduce_512_4_m12_0
  have fs1_scalar_reduce_512_4_p0_0 := transport s4_Fx Fs3 (by decide) (by decide) h_scalar_reduce_512_4_p0_0
  have s4_B := extract_bound32 s3_B
  conv at s4_B => rhs; simp only [Nat.reducePow, Nat.reduceDiv]
  clear h_scalar_reduce_512_4_m1_0 h_scalar_reduce_512_4_m2_0 h_scalar_reduce_512_4_m3_0 h_scalar_reduce_512_4_m4_0 h_scalar_reduce_512_4_m5_0 h_scalar_reduce_512_4_m6_0 h_scalar_reduce_512_4_m7_0 h_scalar_reduce_512_4_m8_0 h_scalar_reduce_512_4_m9_0 h_scalar_reduce_512_4_m10_0 h_scalar_reduce_512_4_m11_0 h_scalar_reduce_512_4_m12_0 h_scalar_reduce_512_4_p0_0 s3_c0 s3_c1 s3_c2 s3_B s4_Fx Fs3
  clear es3 env
  refine sumadd_rule accSr "scalar_reduce_512_4.m2" 0 s3_1 s3_2 0 v5_1 _ (by decide) (by decide) (Reads_var _) (by decide) s4_c0 s4_c1 s4_c2 (transportF (Frame.refl accSr es4) (by decide) fs1_scalar_reduce_512_4_m2_0) s3_lt1 s3_lt2 L_v5_1 s4_B (by decide) ?_
  intro es5 s5_0 s5_1 s5_2 s5_F s5_c0 s5_c1 s5_c2 s5_lt0 s5_lt1 s5_lt2 s5_A s5_B
  replace s5_A := s5_A.trans (z3_xy0 _ _ _)
  conv at s5_B => rhs; simp only [Nat.reducePow, Nat.reduceSub, Nat.reduceMul, Nat.reduceAdd]
  clear s4_c0 s4_c1 s4_c2 s4_B s3_lt1 s3_lt2
  refine muladd_rule accSr s5_0 s5_1 s5_2 v5_9 801750719 4294967295 801750719 _ (by decide) (by decide) s5_c0 s5_c1 s5_c2 (ev_var_of s5_F (by decide) fs1_scalar_reduce_512_4_m10_0) (ev_nc0 _) s5_lt0 s5_lt1 (le_of_lt32 L_v5_9) (Nat.le_refl _) (by decide) (by decide) s5_B (by decide) ?_
  intro es6 s6_0 s6_1 s6_2 s6_F s6_c0 s6_c1 s6_c2 s6_lt0 s6_lt1 s6_lt2 s6_A s6_B
  conv at s6_B => rhs; simp only [Nat.reducePow, Nat.reduceSub, Nat.reduceMul, Nat.reduceAdd]
  have Fs6 := s5_F.trans s6_F
  clear s5_F s6_F s5_c0 s5_c1 s5_c2 s5_B s5_lt0 s5_lt1 s5_lt2
  clear es5
  refine muladd_rule accSr s6_0 s6_1 s6_2 v5_8 1076732275 4294967295 1076732275 _ (by decide) (by decide) s6_c0 s6_c1 s6_c2 (ev_var_of Fs6 (by decide) fs1_scalar_reduce_512_4_m9_0) (ev_nc1 _) s6_lt0 s6_lt1 (le_of_lt32 L_v5_8) (Nat.le_refl _) (by decide) (by decide) s6_B (by decide) ?_
  intro es7 s7_0 s7_1 s7_2 s7_F s7_c0 s7_c1 s7_c2 s7_lt0 s7_lt1 s7_lt2 s7_A s7_B
  conv at s7_B => rhs; simp only [Nat.reducePow, Nat.reduceSub, Nat.reduceMul, Nat.reduceAdd]
  have Fs7 := Fs6.trans s7_F
  clear Fs6 s7_F s6_c0 s6_c1 s6_c2 s6_B s6_lt0 s6_lt1 s6_lt2
  clear es6
  refine muladd_rule accSr s7_0 s7_1 s7_2 v5_7 1354194884 4294967295 1354194884 _ (by decide) (by decide) s7_c0 s7_c1 s7_c2 (ev_var_of Fs7 (by decide) fs1_scalar_reduce_512_4_m8_0) (ev_nc2 _) s7_lt0 s7_lt1 (le_of_lt32 L_v5_7) (Nat.le_refl _) (by decide) (by decide) s7_B (by decide) ?_
  intro es8 s8_0 s8_1 s8_2 s8_F s8_c0 s8_c1 s8_c2 s8_lt0 s8_lt1 s8_lt2 s8_A s8_B
  conv at s8_B => rhs; simp only [Nat.reducePow, Nat.reduceSub, Nat.reduceMul, Nat.reduceAdd]
  have Fs8 := Fs7.trans s8_F
  clear Fs7 s8_F s7_c0 s7_c1 s7_c2 s7_B s7_lt0 s7_lt1 s7_lt2
  clear es7
  have hcols2 : s8_0 + (s8_1 + s8_2 * 2 ^ 32) * 2 ^ 32 = s3_1 + s3_2 * 2 ^ 32 + (v5_1 + v5_9 * 801750719 + v5_8 * 1076732275 + v5_7 * 1354194884) := (reshape3 s8_0 s8_1 s8_2).trans (colsum4 s5_A s6_A s7_A s8_A)
  clear s5_A s6_A s7_A s8_A
  have cums2 := combine 96 cums1 hcols2 rfl
  clear cums1 hcols2
  refine extract_rule accSr s8_0 s8_1 s8_2 (by decide) (by decide) s8_c0 s8_c1 s8_c2 ?_
  intro es9 s9_Fx s9_o s9_c0 s9_c1 s9_c2
  have fs2_scalar_reduce_512_4_m3_0 := transport s9_Fx Fs8 (by decide) (by decide) fs1_scalar_reduce_512_4_m3_0
  have fs2_scalar_reduce_512_4_m4_0 := transport s9_Fx Fs8 (by decide) (by decide) fs1_scalar_reduce_512_4_m4_0
  have fs2_scalar_reduce_512_4_m5_0 := transport s9_Fx Fs8 (by decide) (by decide) fs1_scalar_reduce_512_4_m5_0
  have fs2_scalar_reduce_512_4_m6_0 := transport s9_Fx Fs8 (by decide) (by decide) fs1_scalar_reduce_512_4_m6_0
  have fs2_scalar_reduce_512_4_m7_0 := transport s9_Fx Fs8 (by decide) (by decide) fs1_scalar_reduce_512_4_m7_0
  have fs2_scalar_reduce_512_4_m8_0 := transport s9_Fx Fs8 (by decide) (by decide) fs1_scalar_reduce_512_4_m8_0
  have fs2_scalar_reduce_512_4_m9_0 := transport s9_Fx Fs8 (by decide) (by decide) fs1_scalar_reduce_512_4_m9_0
  have fs2_scalar_reduce_512_4_m10_0 := transport s9_Fx Fs8 (by decide) (by decide) fs1_scalar_reduce_512_4_m10_0
  have fs2_scalar_reduce_512_4_m11_0 := transport s9_Fx Fs8 (by decide) (by decide) fs1_scalar_reduce_512_4_m11_0
  have fs2_scalar_reduce_512_4_m12_0 := transport s9_Fx Fs8 (by decide) (by decide) fs1_scalar_reduce_512_4_m12_0
  have fs2_scalar_reduce_512_4_p0_0 := transport s9_Fx Fs8 (by decide) (by decide) fs1_scalar_reduce_512_4_p0_0
  have fs2_scalar_reduce_512_4_p1_0 := transport s9_Fx Fs8 (by decide) (by decide) s4_o
  have s9_B := extract_bound32 s8_B
  conv at s9_B => rhs; simp only [Nat.reducePow, Nat.reduceDiv]
  clear fs1_scalar_reduce_512_4_m2_0 fs1_scalar_reduce_512_4_m3_0 fs1_scalar_reduce_512_4_m4_0 fs1_scalar_reduce_512_4_m5_0 fs1_scalar_reduce_512_4_m6_0 fs1_scalar_reduce_512_4_m7_0 fs1_scalar_reduce_512_4_m8_0 fs1_scalar_reduce_512_4_m9_0 fs1_scalar_reduce_512_4_m10_0 fs1_scalar_reduce_512_4_m11_0 fs1_scalar_reduce_512_4_m12_0 fs1_scalar_reduce_512_4_p0_0 s4_o s8_c0 s8_c1 s8_c2 s8_B s9_Fx Fs8
  clear es8 es4
  refine sumadd_rule accSr "scalar_reduce_512_4.m3" 0 s8_1 s8_2 0 v5_2 _ (by decide) (by decide) (Reads_var _) (by decide) s9_c0 s9_c1 s9_c2 (transportF (Frame.refl accSr es9) (by decide) fs2_scalar_reduce_512_4_m3_0) s8_lt1 s8_lt2 L_v5_2 s9_B (by decide) ?_
  intro es10 s10_0 s10_1 s10_2 s10_F s10_c0 s10_c1 s10_c2 s10_lt0 s10_lt1 s10_lt2 s10_A s10_B
  replace s10_A := s10_A.trans (z3_xy0 _ _ _)
  conv at s10_B => rhs; simp only [Nat.reducePow, Nat.reduceSub, Nat.reduceMul, Nat.reduceAdd]
  clear s9_c0 s9_c1 s9_c2 s9_B s8_lt1 s8_lt2
  refine muladd_rule accSr s10_0 s10_1 s10_2 v5_10 801750719 4294967295 801750719 _ (by decide) (by decide) s10_c0 s10_c1 s10_c2 (ev_var_of s10_F (by decide) fs2_scalar_reduce_512_4_m11_0) (ev_nc0 _) s10_lt0 s10_lt1 (le_of_lt32 L_v5_10) (Nat.le_refl _) (by decide) (by decide) s10_B (by decide) ?_
  intro es11 s11_0 s11_1 s11_2 s11_F s11_c0 s11_c1 s11_c2 s11_lt0 s11_lt1 s11_lt2 s11_A s11_B
  conv at s11_B => rhs; simp only [Nat.reducePow, Nat.reduceSub, Nat.reduceMul, Nat.reduceAdd]
  have Fs11 := s10_F.trans s11_F
  clear s10_F s11_F s10_c0 s10_c1 s10_c2 s10_B s10_lt0 s10_lt1 s10_lt2
  clear es10
  refine muladd_rule accSr s11_0 s11_1 s11_2 v5_9 1076732275 4294967295 1076732275 _ (by decide) (by decide) s11_c0 s11_c1 s11_c2 (ev_var_of Fs11 (by decide) fs2_scalar_reduce_512_4_m10_0) (ev_nc1 _) s11_lt0 s11_lt1 (le_of_lt32 L_v5_9) (Nat.le_refl _) (by decide) (by decide) s11_B (by decide) ?_
  intro es12 s12_0 s12_1 s12_2 s12_F s12_c0 s12_c1 s12_c2 s12_lt0 s12_lt1 s12_lt2 s12_A s12_B
  conv at s12_B => rhs; simp only [Nat.reducePow, Nat.reduceSub, Nat.reduceMul, Nat.reduceAdd]
  have Fs12 := Fs11.trans s12_F
  clear Fs11 s12_F s11_c0 s11_c1 s11_c2 s11_B s11_lt0 s11_lt1 s11_lt2
  clear es11
  refine muladd_rule accSr s12_0 s12_1 s12_2 v5_8 1354194884 4294967295 1354194884 _ (by decide) (by decide) s12_c0 s12_c1 s12_c2 (ev_var_of Fs12 (by decide) fs2_scalar_reduce_512_4_m9_0) (ev_nc2 _) s12_lt0 s12_lt1 (le_of_lt32 L_v5_8) (Nat.le_refl _) (by decide) (by decide) s12_B (by decide) ?_
  intro es13 s13_0 s13_1 s13_2 s13_F s13_c0 s13_c1 s13_c2 s13_lt0 s13_lt1 s13_lt2 s13_A s13_B
  conv at s13_B => rhs; simp only [Nat.reducePow, Nat.reduceSub, Nat.reduceMul, Nat.reduceAdd]
  have Fs13 := Fs12.trans s13_F
  clear Fs12 s13_F s12_c0 s12_c1 s12_c2 s12_B s12_lt0 s12_lt1 s12_lt2
  clear es12
  refine muladd_rule accSr s13_0 s13_1 s13_2 v5_7 1162945305 4294967295 1162945305 _ (by decide) (by decide) s13_c0 s13_c1 s13_c2 (ev_var_of Fs13 (by decide) fs2_scalar_reduce_512_4_m8_0) (ev_nc3 _) s13_lt0 s13_lt1 (le_of_lt32 L_v5_7) (Nat.le_refl _) (by decide) (by decide) s13_B (by decide) ?_
  intro es14 s14_0 s14_1 s14_2 s14_F s14_c0 s14_c1 s14_c2 s14_lt0 s14_lt1 s14_lt2 s14_A s14_B
  conv at s14_B => rhs; simp only [Nat.reducePow, Nat.reduceSub, Nat.reduceMul, Nat.reduceAdd]
  have Fs14 := Fs13.trans s14_F
  clear Fs13 s14_F s13_c0 s13_c1 s13_c2 s13_B s13_lt0 s13_lt1 s13_lt2
  clear es13
  have hcols3 : s14_0 + (s14_1 + s14_2 * 2 ^ 32) * 2 ^ 32 = s8_1 + s8_2 * 2 ^ 32 + (v5_2 + v5_10 * 801750719 + v5_9 * 1076732275 + v5_8 * 1354194884 + v5_7 * 1162945305) := (reshape3 s14_0 s14_1 s14_2).trans (colsum5 s10_A s11_A s12_A s13_A s14_A)
  clear s10_A s11_A s12_A s13_A s14_A
  have cums3 := combine 128 cums2 hcols3 rfl
  clear cums2 hcols3
  refine extract_rule accSr s14_0 s14_1 s14_2 (by decide) (by decide) s14_c0 s14_c1 s14_c2 ?_
  intro es15 s15_Fx s15_o s15_c0 s15_c1 s15_c2
  have fs3_scalar_reduce_512_4_m4_0 := transport s15_Fx Fs14 (by decide) (by decide) fs2_scalar_reduce_512_4_m4_0
  have fs3_scalar_reduce_512_4_m5_0 := transport s15_Fx Fs14 (by decide) (by decide) fs2_scalar_reduce_512_4_m5_0
  have fs3_scalar_reduce_512_4_m6_0 := transport s15_Fx Fs14 (by decide) (by decide) fs2_scalar_reduce_512_4_m6_0
  have fs3_scalar_reduce_512_4_m7_0 := transport s15_Fx Fs14 (by decide) (by decide) fs2_scalar_reduce_512_4_m7_0
  have fs3_scalar_reduce_512_4_m8_0 := transport s15_Fx Fs14 (by decide) (by decide) fs2_scalar_reduce_512_4_m8_0
  have fs3_scalar_reduce_512_4_m9_0 := transport s15_Fx Fs14 (by decide) (by decide) fs2_scalar_reduce_512_4_m9_0
  have fs3_scalar_reduce_512_4_m10_0 := transport s15_Fx Fs14 (by decide) (by decide) fs2_scalar_reduce_512_4_m10_0
  have fs3_scalar_reduce_512_4_m11_0 := transport s15_Fx Fs14 (by decide) (by decide) fs2_scalar_reduce_512_4_m11_0
  have fs3_scalar_reduce_512_4_m12_0 := transport s15_Fx Fs14 (by decide) (by decide) fs2_scalar_reduce_512_4_m12_0
  have fs3_scalar_reduce_512_4_p0_0 := transport s15_Fx Fs14 (by decide) (by decide) fs2_scalar_reduce_512_4_p0_0
  have fs3_scalar_reduce_512_4_p1_0 := transport s15_Fx Fs14 (by decide) (by decide) fs2_scalar_reduce_512_4_p1_0
  have fs3_scalar_reduce_512_4_p2_0 := transport s15_Fx Fs14 (by decide) (by decide) s9_o
  have s15_B := extract_bound32 s14_B
  conv at s15_B => rhs; simp only [Nat.reducePow, Nat.reduceDiv]
  clear fs2_scalar_reduce_512_4_m3_0 fs2_scalar_reduce_512_4_m4_0 fs2_scalar_reduce_512_4_m5_0 fs2_scalar_reduce_512_4_m6_0 fs2_scalar_reduce_512_4_m7_0 fs2_scalar_reduce_512_4_m8_0 fs2_scalar_reduce_512_4_m9_0 fs2_scalar_reduce_512_4_m10_0 fs2_scalar_reduce_512_4_m11_0 fs2_scalar_reduce_512_4_m12_0 fs2_scalar_reduce_512_4_p0_0 fs2_scalar_reduce_512_4_p1_0 s9_o s14_c0 s14_c1 s14_c2 s14_B s15_Fx Fs14
  clear es14 es9
  exact scalar_mul_red_run_p6 es15 l0 l1 l2 l3 l4 l5 l6 l7 l8 l9 l10 l11 l12 l13 l14 l15 v v5_3 v5_4 v5_5 v5_6 v5_7 v5_8 v5_9 v5_10 v5_11 v5_12 s3_0 s8_0 s14_0 s14_1 s14_2 v5_14 v5_0 v5_1 v5_2 L0 L1 L2 L3 L4 L5 L6 L7 L8 L9 L10 L11 L12 L13 L14 L15 hv fs3_scalar_reduce_512_4_m4_0 fs3_scalar_reduce_512_4_m5_0 fs3_scalar_reduce_512_4_m6_0 fs3_scalar_reduce_512_4_m7_0 fs3_scalar_reduce_512_4_m8_0 fs3_scalar_reduce_512_4_m9_0 fs3_scalar_reduce_512_4_m10_0 fs3_scalar_reduce_512_4_m11_0 fs3_scalar_reduce_512_4_m12_0 fs3_scalar_reduce_512_4_p0_0 fs3_scalar_reduce_512_4_p1_0 fs3_scalar_reduce_512_4_p2_0 s15_o L_v5_3 L_v5_4 L_v5_5 L_v5_6 L_v5_7 L_v5_8 L_v5_9 L_v5_10 L_v5_11 U_v5_11 L_v5_12 s3_lt0 s8_lt0 s14_lt0 s14_lt1 s14_lt2 s15_c0 s15_c1 s15_c2 s15_B cums3 hS0

set_option maxRecDepth 100000 in
set_option maxHeartbeats 4000000 in
theorem scalar_mul_red_run_p4 (env : Env) (l0 l1 l2 l3 l4 l5 l6 l7 l8 l9 l10 l11 l12 l13 l14 l15 v : Nat) (v4_0 v4_1 v4_2 v4_3 v4_4 v4_5 v4_6 v4_7 v4_8 v4_9 v4_10 : Nat) (L0 : l0 < 2 ^ 32) (L1 : l1 < 2 ^ 32) (L2 : l2 < 2 ^ 32) (L3 : l3 < 2 ^ 32) (L4 : l4 < 2 ^ 32) (L5 : l5 < 2 ^ 32) (L6 : l6 < 2 ^ 32) (L7 : l7 < 2 ^ 32) (L8 : l8 < 2 ^ 32) (L9 : l9 < 2 ^ 32) (L10 : l10 < 2 ^ 32) (L11 : l11 < 2 ^ 32) (L12 : l12 < 2 ^ 32) (L13 : l13 < 2 ^ 32) (L14 : l14 < 2 ^ 32) (L15 : l15 < 2 ^ 32) (hv : val16x32 l0 l1 l2 l3 l4 l5 l6 l7 l8 l9 l10 l11 l12 l13 l14 l15 = v) 
    (h_scalar_reduce_512_4_n5_0 : env.get "scalar_reduce_512_4.n5" 0 = l13)
    (h_scalar_reduce_512_4_n6_0 : env.get "scalar_reduce_512_4.n6" 0 = l14)
    (h_scalar_reduce_512_4_n7_0 : env.get "scalar_reduce_512_4.n7" 0 = l15)
    (h_scalar_reduce_512_4_m0_0 : env.get "scalar_reduce_512_4.m0" 0 = v4_0)
    (h_scalar_reduce_512_4_m1_0 : env.get "scalar_reduce_512_4.m1" 0 = v4_1)
    (h_scalar_reduce_512_4_m2_0 : env.get "scalar_reduce_512_4.m2" 0 = v4_2)
    (h_scalar_reduce_512_4_m3_0 : env.get "scalar_reduce_512_4.m3" 0 = v4_3)
    (h_scalar_reduce_512_4_m4_0 : env.get "scalar_reduce_512_4.m4" 0 = v4_4)
    (h_scalar_reduce_512_4_m5_0 : env.get "scalar_reduce_512_4.m5" 0 = v4_5)
    (h_scalar_reduce_512_4_m6_0 : env.get "scalar_reduce_512_4.m6" 0 = v4_6)
    (h_scalar_reduce_512_4_m7_0 : env.get "scalar_reduce_512_4.m7" 0 = v4_7)
    (h_scalar_reduce_512_4_m8_0 : env.get "scalar_reduce_512_4.m8" 0 = v4_8)
    (L_v4_0 : v4_0 < 2 ^ 32)
    (L_v4_1 : v4_1 < 2 ^ 32)
    (L_v4_2 : v4_2 < 2 ^ 32)
    (L_v4_3 : v4_3 < 2 ^ 32)
    (L_v4_4 : v4_4 < 2 ^ 32)
    (L_v4_5 : v4_5 < 2 ^ 32)
    (L_v4_6 : v4_6 < 2 ^ 32)
    (L_v4_7 : v4_7 < 2 ^ 32)
    (L_v4_8 : v4_8 < 2 ^ 32)
    (L_v4_9 : v4_9 < 2 ^ 32)
    (L_v4_10 : v4_10 < 2 ^ 32)
    (hc0 : env.get "scalar_reduce_512_4.c0" 0 = v4_9)
    (hc1 : env.get "scalar_reduce_512_4.c1" 0 = v4_10)
    (hc2 : env.get "scalar_reduce_512_4.c2" 0 = 0)
    (hB : v4_9 + v4_10 * 2 ^ 32 + 0 * 2 ^ 64 ≤ 3593872465)
    (hcum : v4_0 + v4_1 * 2 ^ 32 + v4_2 * 2 ^ 64 + v4_3 * 2 ^ 96 + v4_4 * 2 ^ 128 + v4_5 * 2 ^ 160 + v4_6 * 2 ^ 192 + v4_7 * 2 ^ 224 + v4_8 * 2 ^ 256 + (v4_9 + v4_10 * 2 ^ 32) * 2 ^ 288 = l0 + (l8 * 801750719) + (l1 + l9 * 801750719 + l8 * 1076732275) * 2 ^ 32 + (l2 + l10 * 801750719 + l9 * 1076732275 + l8 * 1354194884) * 2 ^ 64 + (l3 + l11 * 801750719 + l10 * 1076732275 + l9 * 1354194884 + l8 * 1162945305) * 2 ^ 96 + (l4 + l12 * 801750719 + l11 * 1076732275 + l10 * 1354194884 + l9 * 1162945305 + l8) * 2 ^ 128 + (l5 + l13 * 801750719 + l12 * 1076732275 + l11 * 1354194884 + l10 * 1162945305 + l9) * 2 ^ 160 + (l6 + l14 * 801750719 + l13 * 1076732275 + l12 * 1354194884 + l11 * 1162945305 + l10) * 2 ^ 192 + (l7 + l15 * 801750719 + l14 * 1076732275 + l13 * 1354194884 + l12 * 1162945305 + l11) * 2 ^ 224 + (l15 * 1076732275 + l14 * 1354194884 + l13 * 1162945305 + l12) * 2 ^ 256) :
    RedPost v (runR env (Gen.scalar8x32.scalar_mul.body.drop 802)) := by
  simp only [Gen.scalar8x32.scalar_mul, List.drop_succ_cons, List.drop_zero]
  refine muladd_rule accSr v4_9 v4_10 0 l15 1354194884 4294967295 1354194884 _ (by decide) (by decide) hc0 hc1 hc2 (ev_var_of (Frame.refl accSr env) (by decide) h_scalar_reduce_512_4_n7_0) (ev_nc2 _) L_v4_9 L_v4_10 (le_of_lt32 L15) (Nat.le_refl _) (by decide) (by decide) hB (by decide) ?_
  intro es1 s1_0 s1_1 s1_2 s1_F s1_c0 s1_c1 s1_c2 s1_lt0 s1_lt1 s1_lt2 s1_A s1_B
  replace s1_A := s1_A.trans (z3_xy0 _ _ _)
  conv at s1_B => rhs; simp only [Nat.reducePow, Nat.reduceSub, Nat.reduceMul, Nat.reduceAdd]
  clear hc0 hc1 hc2 hB L_v4_9 L_v4_10
  refine muladd_rule accSr s1_0 s1_1 s1_2 l14 1162945305 4294967295 1162945305 _ (by decide) (by decide) s1_c0 s1_c1 s1_c2 (ev_var_of s1_F (by decide) h_scalar_reduce_512_4_n6_0) (ev_nc3 _) s1_lt0 s1_lt1 (le_of_lt32 L14) (Nat.le_refl _) (by decide) (by decide) s1_B (by decide) ?_
  intro es2 s2_0 s2_1 s2_2 s2_F s2_c0 s2_c1 s2_c2 s2_lt0 s2_lt1 s2_lt2 s2_A s2_B
  conv at s2_B => rhs; simp only [Nat.reducePow, Nat.reduceSub, Nat.reduceMul, Nat.reduceAdd]
  have Fs2 := s1_F.trans s2_F
  clear s1_F s2_F s1_c0 s1_c1 s1_c2 s1_B s1_lt0 s1_lt1 s1_lt2
  clear es1
  refine sumadd_rule accSr "scalar_reduce_512_4.n5" 0 s2_0 s2_1 s2_2 l13 _ (by decide) (by decide) (Reads_var _) (by decide) s2_c0 s2_c1 s2_c2 (transportF Fs2 (by decide) h_scalar_reduce_512_4_n5_0) s2_lt0 s2_lt1 L13 s2_B (by decide) ?_
  intro es3 s3_0 s3_1 s3_2 s3_F s3_c0 s3_c1 s3_c2 s3_lt0 s3_lt1 s3_lt2 s3_A s3_B
  conv at s3_B => rhs; simp only [Nat.reducePow, Nat.reduceSub, Nat.reduceMul, Nat.reduceAdd]
  have Fs3 := Fs2.trans s3_F
  clear Fs2 s3_F s2_c0 s2_c1 s2_c2 s2_B s2_lt0 s2_lt1 s2_lt2
  clear es2
  have hcols1 : s3_0 + (s3_1 + s3_2 * 2 ^ 32) * 2 ^ 32 = v4_9 + v4_10 * 2 ^ 32 + (l15 * 1354194884 + l14 * 1162945305 + l13) := (reshape3 s3_0 s3_1 s3_2).trans (colsum3 s1_A s2_A s3_A)
  clear s1_A s2_A s3_A
  have cums1 := combine 320 hcum hcols1 rfl
  clear hcum hcols1
  refine extract_rule accSr s3_0 s3_1 s3_2 (by decide) (by decide) s3_c0 s3_c1 s3_c2 ?_
  intro es4 s4_Fx s4_o s4_c0 s4_c1 s4_c2
  have fs1_scalar_reduce_512_4_n6_0 := transport s4_Fx Fs3 (by decide) (by decide) h_scalar_reduce_512_4_n6_0
  have fs1_scalar_reduce_512_4_n7_0 := transport s4_Fx Fs3 (by decide) (by decide) h_scalar_reduce_512_4_n7_0
  have fs1_scalar_reduce_512_4_m0_0 := transport s4_Fx Fs3 (by decide) (by decide) h_scalar_reduce_512_4_m0_0
  have fs1_scalar_reduce_512_4_m1_0 := transport s4_Fx Fs3 (by decide) (by decide) h_scalar_reduce_512_4_m1_0
  have fs1_scalar_reduce_512_4_m2_0 := transport s4_Fx Fs3 (by decide) (by decide) h_scalar_reduce_512_4_m2_0
  have fs1_scalar_reduce_512_4_m3_0 := transport s4_Fx Fs3 (by decide) (by decide) h_scalar_reduce_512_4_m3_0
  have fs1_scalar_reduce_512_4_m4_0 := transport s4_Fx Fs3 (by decide) (by decide) h_scalar_reduce_512_4_m4_0
  have fs1_scalar_reduce_512_4_m5_0 := transport s4_Fx Fs3 (by decide) (by decide) h_scalar_reduce_512_4_m5_0
  have fs1_scalar_reduce_512_4_m6_0 := transport s4_Fx Fs3 (by decide) (by decide) h_scalar_reduce_512_4_m6_0
  have fs1_scalar_reduce_512_4_m7_0 := transport s4_Fx Fs3 (by decide) (by decide) h_scalar_reduce_512_4_m7_0
  have fs1_scalar_reduce_512_4_m8_0 := transport s4_Fx Fs3 (by decide) (by decide) h_scalar_reduce_512_4_m8_0
  have s4_B := extract_bound32 s3_B
  conv at s4_B => rhs; simp only [Nat.reducePow, Nat.reduceDiv]
  clear h_scalar_reduce_512_4_n5_0 h_scalar_reduce_512_4_n6_0 h_scalar_reduce_512_4_n7_0 h_scalar_reduce_512_4_m0_0 h_scalar_reduce_512_4_m1_0 h_scalar_reduce_512_4_m2_0 h_scalar_reduce_512_4_m3_0 h_scalar_reduce_512_4_m4_0 h_scalar_reduce_512_4_m5_0 h_scalar_reduce_512_4_m6_0 h_scalar_reduce_512_4_m7_0 h_scalar_reduce_512_4_m8_0 s3_c0 s3_c1 s3_c2 s3_B s4_Fx Fs3
  clear es3 env
  refine muladd_rule accSr s3_1 s3_2 0 l15 1162945305 4294967295 1162945305 _ (by decide) (by decide) s4_c0 s4_c1 s4_c2 (ev_var_of (Frame.refl accSr es4) (by decide) fs1_scalar_reduce_512_4_n7_0) (ev_nc3 _) s3_lt1 s3_lt2 (le_of_lt32 L15) (Nat.le_refl _) (by decide) (by decide) s4_B (by decide) ?_
  intro es5 s5_0 s5_1 s5_2 s5_F s5_c0 s5_c1 s5_c2 s5_lt0 s5_lt1 s5_lt2 s5_A s5_B
  replace s5_A := s5_A.trans (z3_xy0 _ _ _)
  conv at s5_B => rhs; simp only [Nat.reducePow, Nat.reduceSub, Nat.reduceMul, Nat.reduceAdd]
  clear s4_c0 s4_c1 s4_c2 s4_B s3_lt1 s3_lt2
  refine sumadd_rule accSr "scalar_reduce_512_4.n6" 0 s5_0 s5_1 s5_2 l14 _ (by decide) (by decide) (Reads_var _) (by decide) s5_c0 s5_c1 s5_c2 (transportF s5_F (by decide) fs1_scalar_reduce_512_4_n6_0) s5_lt0 s5_lt1 L14 s5_B (by decide) ?_
  intro es6 s6_0 s6_1 s6_2 s6_F s6_c0 s6_c1 s6_c2 s6_lt0 s6_lt1 s6_lt2 s6_A s6_B
  conv at s6_B => rhs; simp only [Nat.reducePow, Nat.reduceSub, Nat.reduceMul, Nat.reduceAdd]
  have Fs6 := s5_F.trans s6_F
  clear s5_F s6_F s5_c0 s5_c1 s5_c2 s5_B s5_lt0 s5_lt1 s5_lt2
  clear es5
  have hcols2 : s6_0 + (s6_1 + s6_2 * 2 ^ 32) * 2 ^ 32 = s3_1 + s3_2 * 2 ^ 32 + (l15 * 1162945305 + l14) := (reshape3 s6_0 s6_1 s6_2).trans (colsum2 s5_A s6_A)
  clear s5_A s6_A
  have cums2 := combine 352 cums1 hcols2 rfl
  clear cums1 hcols2
  refine extract_rule accSr s6_0 s6_1 s6_2 (by decide) (by decide) s6_c0 s6_c1 s6_c2 ?_
  intro es7 s7_Fx s7_o s7_c0 s7_c1 s7_c2
  have fs2_scalar_reduce_512_4_n7_0 := transport s7_Fx Fs6 (by decide) (by decide) fs1_scalar_reduce_512_4_n7_0
  have fs2_scalar_reduce_512_4_m0_0 := transport s7_Fx Fs6 (by decide) (by decide) fs1_scalar_reduce_512_4_m0_0
  have fs2_scalar_reduce_512_4_m1_0 := transport s7_Fx Fs6 (by decide) (by decide) fs1_scalar_reduce_512_4_m1_0
  have fs2_scalar_reduce_512_4_m2_0 := transport s7_Fx Fs6 (by decide) (by decide) fs1_scalar_reduce_512_4_m2_0
  have fs2_scalar_reduce_512_4_m3_0 := transport s7_Fx Fs6 (by decide) (by decide) fs1_scalar_reduce_512_4_m3_0
  have fs2_scalar_reduce_512_4_m4_0 := transport s7_Fx Fs6 (by decide) (by decide) fs1_scalar_reduce_512_4_m4_0
  have fs2_scalar_reduce_512_4_m5_0 := transport s7_Fx Fs6 (by decide) (by decide) fs1_scalar_reduce_512_4_m5_0
  have fs2_scalar_reduce_512_4_m6_0 := transport s7_Fx Fs6 (by decide) (by decide) fs1_scalar_reduce_512_4_m6_0
  have fs2_scalar_reduce_512_4_m7_0 := transport s7_Fx Fs6 (by decide) (by decide) fs1_scalar_reduce_512_4_m7_0
  have fs2_scalar_reduce_512_4_m8_0 := transport s7_Fx Fs6 (by decide) (by decide) fs1_scalar_reduce_512_4_m8_0
  have fs2_scalar_reduce_512_4_m9_0 := transport s7_Fx Fs6 (by decide) (by decide) s4_o
  have s7_B := extract_bound32 s6_B
  conv at s7_B => rhs; simp only [Nat.reducePow, Nat.reduceDiv]
  clear fs1_scalar_reduce_512_4_n6_0 fs1_scalar_reduce_512_4_n7_0 fs1_scalar_reduce_512_4_m0_0 fs1_scalar_reduce_512_4_m1_0 fs1_scalar_reduce_512_4_m2_0 fs1_scalar_reduce_512_4_m3_0 fs1_scalar_reduce_512_4_m4_0 fs1_scalar_reduce_512_4_m5_0 fs1_scalar_reduce_512_4_m6_0 fs1_scalar_reduce_512_4_m7_0 fs1_scalar_reduce_512_4_m8_0 s4_o s6_c0 s6_c1 s6_c2 s6_B s7_Fx Fs6
  clear es6 es4
  refine sumadd_fast_rule accSr "scalar_reduce_512_4.c2" "scalar_reduce_512_4.n7" 0 s6_1 s6_2 0 l15 _ (by decide) (by decide) (Reads_var _) (by decide) s7_c0 s7_c1 s7_c2 (transportF (Frame.refl accSr es7) (by decide) fs2_scalar_reduce_512_4_n7_0) s6_lt1 s6_lt2 L15 (acc_drop2 s7_B) (by decide) ?_
  intro es8 s8_0 s8_1 s8_F s8_c0 s8_c1 s8_c2 s8_lt0 s8_lt1 s8_A s8_B
  conv at s8_B => rhs; simp only [Nat.reducePow, Nat.reduceSub, Nat.reduceMul, Nat.reduceAdd]
  clear s7_c0 s7_c1 s7_c2 s7_B s6_lt1 s6_lt2
  have hcols3 : s8_0 + s8_1 * 2 ^ 32 = s6_1 + s6_2 * 2 ^ 32 + (l15) := colsum1 s8_A
  clear s8_A
  have cums3 := combine 384 cums2 hcols3 rfl
  clear cums2 hcols3
  refine extract_fast_rule accSr "scalar_reduce_512_4.c2" s8_0 s8_1 0 (by decide) (by decide) s8_c0 s8_c1 s8_c2 ?_
  intro es9 s9_Fx s9_o s9_c0 s9_c1 s9_c2
  have fs3_scalar_reduce_512_4_m0_0 := transport s9_Fx s8_F (by decide) (by decide) fs2_scalar_reduce_512_4_m0_0
  have fs3_scalar_reduce_512_4_m1_0 := transport s9_Fx s8_F (by decide) (by decide) fs2_scalar_reduce_512_4_m1_0
  have fs3_scalar_reduce_512_4_m2_0 := transport s9_Fx s8_F (by decide) (by decide) fs2_scalar_reduce_512_4_m2_0
  have fs3_scalar_reduce_512_4_m3_0 := transport s9_Fx s8_F (by decide) (by decide) fs2_scalar_reduce_512_4_m3_0
  have fs3_scalar_reduce_512_4_m4_0 := transport s9_Fx s8_F (by decide) (by decide) fs2_scalar_reduce_512_4_m4_0
  have fs3_scalar_reduce_512_4_m5_0 := transport s9_Fx s8_F (by decide) (by decide) fs2_scalar_reduce_512_4_m5_0
  have fs3_scalar_reduce_512_4_m6_0 := transport s9_Fx s8_F (by decide) (by decide) fs2_scalar_reduce_512_4_m6_0
  have fs3_scalar_reduce_512_4_m7_0 := transport s9_Fx s8_F (by decide) (by decide) fs2_scalar_reduce_512_4_m7_0
  have fs3_scalar_reduce_512_4_m8_0 := transport s9_Fx s8_F (by decide) (by decide) fs2_scalar_reduce_512_4_m8_0
  have fs3_scalar_reduce_512_4_m9_0 := transport s9_Fx s8_F (by decide) (by decide) fs2_scalar_reduce_512_4_m9_0
  have fs3_scalar_reduce_512_4_m10_0 := transport s9_Fx s8_F (by decide) (by decide) s7_o
  have s9_B := extract_bound32' s8_B
  conv at s9_B => rhs; simp only [Nat.reducePow, Nat.reduceDiv]
  clear fs2_scalar_reduce_512_4_n7_0 fs2_scalar_reduce_512_4_m0_0 fs2_scalar_reduce_512_4_m1_0 fs2_scalar_reduce_512_4_m2_0 fs2_scalar_reduce_512_4_m3_0 fs2_scalar_reduce_512_4_m4_0 fs2_scalar_reduce_512_4_m5_0 fs2_scalar_reduce_512_4_m6_0 fs2_scalar_reduce_512_4_m7_0 fs2_scalar_reduce_512_4_m8_0 fs2_scalar_reduce_512_4_m9_0 s7_o s8_c0 s8_c1 s8_c2 s8_B s9_Fx s8_F
  clear es8 es7
  refine assign_rule accSr s8_1 ((ev_var _ _).trans s9_c0) ?_
  intro es10 s10_Fx s10_o
  have s10_U : s8_1 ≤ 1 := top_le2 s9_B
  have fs4_scalar_reduce_512_4_m0_0 := transport s10_Fx (Frame.refl accSr es9) (by decide) (by decide) fs3_scalar_reduce_512_4_m0_0
  have fs4_scalar_reduce_512_4_m1_0 := transport s10_Fx (Frame.refl accSr es9) (by decide) (by decide) fs3_scalar_reduce_512_4_m1_0
  have fs4_scalar_reduce_512_4_m2_0 := transport s10_Fx (Frame.refl accSr es9) (by decide) (by decide) fs3_scalar_reduce_512_4_m2_0
  have fs4_scalar_reduce_512_4_m3_0 := transport s10_Fx (Frame.refl accSr es9) (by decide) (by decide) fs3_scalar_reduce_512_4_m3_0
  have fs4_scalar_reduce_512_4_m4_0 := transport s10_Fx (Frame.refl accSr es9) (by decide) (by decide) fs3_scalar_reduce_512_4_m4_0
  have fs4_scalar_reduce_512_4_m5_0 := transport s10_Fx (Frame.refl accSr es9) (by decide) (by decide) fs3_scalar_reduce_512_4_m5_0
  have fs4_scalar_reduce_512_4_m6_0 := transport s10_Fx (Frame.refl accSr es9) (by decide) (by decide) fs3_scalar_reduce_512_4_m6_0
  have fs4_scalar_reduce_512_4_m7_0 := transport s10_Fx (Frame.refl accSr es9) (by decide) (by decide) fs3_scalar_reduce_512_4_m7_0
  have fs4_scalar_reduce_512_4_m8_0 := transport s10_Fx (Frame.refl accSr es9) (by decide) (by decide) fs3_scalar_reduce_512_4_m8_0
  have fs4_scalar_reduce_512_4_m9_0 := transport s10_Fx (Frame.refl accSr es9) (by decide) (by decide) fs3_scalar_reduce_512_4_m9_0
  have fs4_scalar_reduce_512_4_m10_0 := transport s10_Fx (Frame.refl accSr es9) (by decide) (by decide) fs3_scalar_reduce_512_4_m10_0
  have fs4_scalar_reduce_512_4_m11_0 := transport s10_Fx (Frame.refl accSr es9) (by decide) (by decide) s9_o
  clear fs3_scalar_reduce_512_4_m0_0 fs3_scalar_reduce_512_4_m1_0 fs3_scalar_reduce_512_4_m2_0 fs3_scalar_reduce_512_4_m3_0 fs3_scalar_reduce_512_4_m4_0 fs3_scalar_reduce_512_4_m5_0 fs3_scalar_reduce_512_4_m6_0 fs3_scalar_reduce_512_4_m7_0 fs3_scalar_reduce_512_4_m8_0 fs3_scalar_reduce_512_4_m9_0 fs3_scalar_reduce_512_4_m10_0 s9_o s10_Fx s9_c0 s9_c1 s9_c2 s9_B
  clear es9
  refine init_rule accSr v4_0 (by decide) (by decide) (ev_var_of (Frame.refl accSr es10) (by decide) fs4_scalar_reduce_512_4_m0_0) ?_
  intro es11 s11_F s11_c0 s11_c1 s11_c2
  have s11_B := init_bound32 L_v4_0
  refine muladd_fast_rule accSr "scalar_reduce_512_4.c2" v4_0 0 0 v4_8 801750719 4294967295 801750719 _ (by decide) (by decide) s11_c0 s11_c1 s11_c2 (ev_var_of s11_F (by decide) fs4_scalar_reduce_512_4_m8_0) (ev_nc0 _) L_v4_0 zero_lt32 (le_of_lt32 L_v4_8) (Nat.le_refl _) (by decide) (by decide) s11_B (by decide) ?_
  intro es12 s12_0 s12_1 s12_F s12_c0 s12_c1 s12_c2 s12_lt0 s12_lt1 s12_A s12_B
  replace s12_A := s12_A.trans (z2_x0 _ _)
  conv at s12_B => rhs; simp only [Nat.reducePow, Nat.reduceSub, Nat.reduceMul, Nat.reduceAdd]
  have Fs12 := s11_F.trans s12_F
  clear s11_F s12_F s11_c0 s11_c1 s11_c2 s11_B
  clear es11
  have hcols5 : s12_0 + s12_1 * 2 ^ 32 = v4_0 + (v4_8 * 801750719) := colsum1 s12_A
  clear s12_A
  have cums5 := hcols5
  clear hcols5
  refine extract_fast_rule accSr "scalar_reduce_512_4.c2" s12_0 s12_1 0 (by decide) (by decide) s12_c0 s12_c1 s12_c2 ?_
  intro es13 s13_Fx s13_o s13_c0 s13_c1 s13_c2
  have fs5_scalar_reduce_512_4_m1_0 := transport s13_Fx Fs12 (by decide) (by decide) fs4_scalar_reduce_512_4_m1_0
  have fs5_scalar_reduce_512_4_m2_0 := transport s13_Fx Fs12 (by decide) (by decide) fs4_scalar_reduce_512_4_m2_0
  have fs5_scalar_reduce_512_4_m3_0 := transport s13_Fx Fs12 (by decide) (by decide) fs4_scalar_reduce_512_4_m3_0
  have fs5_scalar_reduce_512_4_m4_0 := transport s13_Fx Fs12 (by decide) (by decide) fs4_scalar_reduce_512_4_m4_0
  have fs5_scalar_reduce_512_4_m5_0 := transport s13_Fx Fs12 (by decide) (by decide) fs4_scalar_reduce_512_4_m5_0
  have fs5_scalar_reduce_512_4_m6_0 := transport s13_Fx Fs12 (by decide) (by decide) fs4_scalar_reduce_512_4_m6_0
  have fs5_scalar_reduce_512_4_m7_0 := transport s13_Fx Fs12 (by decide) (by decide) fs4_scalar_reduce_512_4_m7_0
  have fs5_scalar_reduce_512_4_m8_0 := transport s13_Fx Fs12 (by decide) (by decide) fs4_scalar_reduce_512_4_m8_0
  have fs5_scalar_reduce_512_4_m9_0 := transport s13_Fx Fs12 (by decide) (by decide) fs4_scalar_reduce_512_4_m9_0
  have fs5_scalar_reduce_512_4_m10_0 := transport s13_Fx Fs12 (by decide) (by decide) fs4_scalar_reduce_512_4_m10_0
  have fs5_scalar_reduce_512_4_m11_0 := transport s13_Fx Fs12 (by decide) (by decide) fs4_scalar_reduce_512_4_m11_0
  have fs5_scalar_reduce_512_4_m12_0 := transport s13_Fx Fs12 (by decide) (by decide) s10_o
  have s13_B := extract_bound32' s12_B
  conv at s13_B => rhs; simp only [Nat.reducePow, Nat.reduceDiv]
  clear fs4_scalar_reduce_512_4_m0_0 fs4_scalar_reduce_512_4_m1_0 fs4_scalar_reduce_512_4_m2_0 fs4_scalar_reduce_512_4_m3_0 fs4_scalar_reduce_512_4_m4_0 fs4_scalar_reduce_512_4_m5_0 fs4_scalar_reduce_512_4_m6_0 fs4_scalar_reduce_512_4_m7_0 fs4_scalar_reduce_512_4_m8_0 fs4_scalar_reduce_512_4_m9_0 fs4_scalar_reduce_512_4_m10_0 fs4_scalar_reduce_512_4_m11_0 s10_o s12_c0 s12_c1 s12_c2 s12_B s13_Fx Fs12
  clear es12 es10
  exact scalar_mul_red_run_p5 es13 l0 l1 l2 l3 l4 l5 l6 l7 l8 l9 l10 l11 l12 l13 l14 l15 v v4_1 v4_2 v4_3 v4_4 v4_5 v4_6 v4_7 v4_8 s3_0 s6_0 s8_0 s8_1 s12_0 s12_1 v4_0 L0 L1 L2 L3 L4 L5 L6 L7 L8 L9 L10 L11 L12 L13 L14 L15 hv fs5_scalar_reduce_512_4_m1_0 fs5_scalar_reduce_512_4_m2_0 fs5_scalar_reduce_512_4_m3_0 fs5_scalar_reduce_512_4_m4_0 fs5_scalar_reduce_512_4_m5_0 fs5_scalar_reduce_512_4_m6_0 fs5_scalar_reduce_512_4_m7_0 fs5_scalar_reduce_512_4_m8_0 fs5_scalar_reduce_512_4_m9_0 fs5_scalar_reduce_512_4_m10_0 fs5_scalar_reduce_512_4_m11_0 fs5_scalar_reduce_512_4_m12_0 s13_o L_v4_1 L_v4_2 L_v4_3 L_v4_4 L_v4_5 L_v4_6 L_v4_7 L_v4_8 s3_lt0 s6_lt0 s8_lt0 s8_lt1 s10_U s12_lt0 s12_lt1 s13_c0 s13_c1 s13_c2 s13_B cums5 cums3

set_option maxRecDepth 100000 in
set_option maxHeartbeats 4000000 in
theorem scalar_mul_red_run_p3 (env : Env) (l0 l1 l2 l3 l4 l5 l6 l7 l8 l9 l10 l11 l12 l13 l14 l15 v : Nat) (v3_0 v3_1 v3_2 v3_3 v3_4 v3_5 v3_6 v3_7 v3_8 : Nat) (L0 : l0 < 2 ^ 32) (L1 : l1 < 2 ^ 32) (L2 : l2 < 2 ^ 32) (L3 : l3 < 2 ^ 32) (L4 : l4 < 2 ^ 32) (L5 : l5 < 2 ^ 32) (L6 : l6 < 2 ^ 32) (L7 : l7 < 2 ^ 32) (L8 : l8 < 2 ^ 32) (L9 : l9 < 2 ^ 32) (L10 : l10 < 2 ^ 32) (L11 : l11 < 2 ^ 32) (L12 : l12 < 2 ^ 32) (L13 : l13 < 2 ^ 32) (L14 : l14 < 2 ^ 32) (L15 : l15 < 2 ^ 32) (hv : val16x32 l0 l1 l2 l3 l4 l5 l6 l7 l8 l9 l10 l11 l12 l13 l14 l15 = v) 
    (h_l_7 : env.get "l" 7 = l7)
    (h_scalar_reduce_512_4_n3_0 : env.get "scalar_reduce_512_4.n3" 0 = l11)
    (h_scalar_reduce_512_4_n4_0 : env.get "scalar_reduce_512_4.n4" 0 = l12)
    (h_scalar_reduce_512_4_n5_0 : env.get "scalar_reduce_512_4.n5" 0 = l13)
    (h_scalar_reduce_512_4_n6_0 : env.get "scalar_reduce_512_4.n6" 0 = l14)
    (h_scalar_reduce_512_4_n7_0 : env.get "scalar_reduce_512_4.n7" 0 = l15)
    (h_scalar_reduce_512_4_m0_0 : env.get "scalar_reduce_512_4.m0" 0 = v3_0)
    (h_scalar_reduce_512_4_m1_0 : env.get "scalar_reduce_512_4.m1" 0 = v3_1)
    (h_scalar_reduce_512_4_m2_0 : env.get "scalar_reduce_512_4.m2" 0 = v3_2)
    (h_scalar_reduce_512_4_m3_0 : env.get "scalar_reduce_512_4.m3" 0 = v3_3)
    (h_scalar_reduce_512_4_m4_0 : env.get "scalar_reduce_512_4.m4" 0 = v3_4)
    (h_scalar_reduce_512_4_m5_0 : env.get "scalar_reduce_512_4.m5" 0 = v3_5)
    (h_scalar_reduce_512_4_m6_0 : env.get "scalar_reduce_512_4.m6" 0 = v3_6)
    (L_v3_0 : v3_0 < 2 ^ 32)
    (L_v3_1 : v3_1 < 2 ^ 32)
    (L_v3_2 : v3_2 < 2 ^ 32)
    (L_v3_3 : v3_3 < 2 ^ 32)
    (L_v3_4 : v3_4 < 2 ^ 32)
    (L_v3_5 : v3_5 < 2 ^ 32)
    (L_v3_6 : v3_6 < 2 ^ 32)
    (L_v3_7 : v3_7 < 2 ^ 32)
    (L_v3_8 : v3_8 < 2 ^ 32)
    (hc0 : env.get "scalar_reduce_512_4.c0" 0 = v3_7)
    (hc1 : env.get "scalar_reduce_512_4.c1" 0 = v3_8)
    (hc2 : env.get "scalar_reduce_512_4.c2" 0 = 0)
    (hB : v3_7 + v3_8 * 2 ^ 32 + 0 * 2 ^ 64 ≤ 4395623184)
    (hcum : v3_0 + v3_1 * 2 ^ 32 + v3_2 * 2 ^ 64 + v3_3 * 2 ^ 96 + v3_4 * 2 ^ 128 + v3_5 * 2 ^ 160 + v3_6 * 2 ^ 192 + (v3_7 + v3_8 * 2 ^ 32) * 2 ^ 224 = l0 + (l8 * 801750719) + (l1 + l9 * 801750719 + l8 * 1076732275) * 2 ^ 32 + (l2 + l10 * 801750719 + l9 * 1076732275 + l8 * 1354194884) * 2 ^ 64 + (l3 + l11 * 801750719 + l10 * 1076732275 + l9 * 1354194884 + l8 * 1162945305) * 2 ^ 96 + (l4 + l12 * 801750719 + l11 * 1076732275 + l10 * 1354194884 + l9 * 1162945305 + l8) * 2 ^ 128 + (l5 + l13 * 801750719 + l12 * 1076732275 + l11 * 1354194884 + l10 * 1162945305 + l9) * 2 ^ 160 + (l6 + l14 * 801750719 + l13 * 1076732275 + l12 * 1354194884 + l11 * 1162945305 + l10) * 2 ^ 192) :
    RedPost v (runR env (Gen.scalar8x32.scalar_mul.body.drop 733)) := by
  simp only [Gen.scalar8x32.scalar_mul, List.drop_succ_cons, List.drop_zero]
  refine sumadd_rule accSr "l" 7 v3_7 v3_8 0 l7 _ (by decide) (by decide) (Reads_idx _ _) (by decide) hc0 hc1 hc2 (transportF (Frame.refl accSr env) (by decide) h_l_7) L_v3_7 L_v3_8 L7 hB (by decide) ?_
  intro es1 s1_0 s1_1 s1_2 s1_F s1_c0 s1_c1 s1_c2 s1_lt0 s1_lt1 s1_lt2 s1_A s1_B
  replace s1_A := s1_A.trans (z3_xy0 _ _ _)
  conv at s1_B => rhs; simp only [Nat.reducePow, Nat.reduceSub, Nat.reduceMul, Nat.reduceAdd]
  clear hc0 hc1 hc2 hB L_v3_7 L_v3_8
  refine muladd_rule accSr s1_0 s1_1 s1_2 l15 801750719 4294967295 801750719 _ (by decide) (by decide) s1_c0 s1_c1 s1_c2 (ev_var_of s1_F (by decide) h_scalar_reduce_512_4_n7_0) (ev_nc0 _) s1_lt0 s1_lt1 (le_of_lt32 L15) (Nat.le_refl _) (by decide) (by decide) s1_B (by decide) ?_
  intro es2 s2_0 s2_1 s2_2 s2_F s2_c0 s2_c1 s2_c2 s2_lt0 s2_lt1 s2_lt2 s2_A s2_B
  conv at s2_B => rhs; simp only [Nat.reducePow, Nat.reduceSub, Nat.reduceMul, Nat.reduceAdd]
  have Fs2 := s1_F.trans s2_F
  clear s1_F s2_F s1_c0 s1_c1 s1_c2 s1_B s1_lt0 s1_lt1 s1_lt2
  clear es1
  refine muladd_rule accSr s2_0 s2_1 s2_2 l14 1076732275 4294967295 1076732275 _ (by decide) (by decide) s2_c0 s2_c1 s2_c2 (ev_var_of Fs2 (by decide) h_scalar_reduce_512_4_n6_0) (ev_nc1 _) s2_lt0 s2_lt1 (le_of_lt32 L14) (Nat.le_refl _) (by decide) (by decide) s2_B (by decide) ?_
  intro es3 s3_0 s3_1 s3_2 s3_F s3_c0 s3_c1 s3_c2 s3_lt0 s3_lt1 s3_lt2 s3_A s3_B
  conv at s3_B => rhs; simp only [Nat.reducePow, Nat.reduceSub, Nat.reduceMul, Nat.reduceAdd]
  have Fs3 := Fs2.trans s3_F
  clear Fs2 s3_F s2_c0 s2_c1 s2_c2 s2_B s2_lt0 s2_lt1 s2_lt2
  clear es2
  refine muladd_rule accSr s3_0 s3_1 s3_2 l13 1354194884 4294967295 1354194884 _ (by decide) (by decide) s3_c0 s3_c1 s3_c2 (ev_var_of Fs3 (by decide) h_scalar_reduce_512_4_n5_0) (ev_nc2 _) s3_lt0 s3_lt1 (le_of_lt32 L13) (Nat.le_refl _) (by decide) (by decide) s3_B (by decide) ?_
  intro es4 s4_0 s4_1 s4_2 s4_F s4_c0 s4_c1 s4_c2 s4_lt0 s4_lt1 s4_lt2 s4_A s4_B
  conv at s4_B => rhs; simp only [Nat.reducePow, Nat.reduceSub, Nat.reduceMul, Nat.reduceAdd]
  have Fs4 := Fs3.trans s4_F
  clear Fs3 s4_F s3_c0 s3_c1 s3_c2 s3_B s3_lt0 s3_lt1 s3_lt2
  clear es3
  refine muladd_rule accSr s4_0 s4_1 s4_2 l12 1162945305 4294967295 1162945305 _ (by decide) (by decide) s4_c0 s4_c1 s4_c2 (ev_var_of Fs4 (by decide) h_scalar_reduce_512_4_n4_0) (ev_nc3 _) s4_lt0 s4_lt1 (le_of_lt32 L12) (Nat.le_refl _) (by decide) (by decide) s4_B (by decide) ?_
  intro es5 s5_0 s5_1 s5_2 s5_F s5_c0 s5_c1 s5_c2 s5_lt0 s5_lt1 s5_lt2 s5_A s5_B
  conv at s5_B => rhs; simp only [Nat.reducePow, Nat.reduceSub, Nat.reduceMul, Nat.reduceAdd]
  have Fs5 := Fs4.trans s5_F
  clear Fs4 s5_F s4_c0 s4_c1 s4_c2 s4_B s4_lt0 s4_lt1 s4_lt2
  clear es4
  refine sumadd_rule accSr "scalar_reduce_512_4.n3" 0 s5_0 s5_1 s5_2 l11 _ (by decide) (by decide) (Reads_var _) (by decide) s5_c0 s5_c1 s5_c2 (transportF Fs5 (by decide) h_scalar_reduce_512_4_n3_0) s5_lt0 s5_lt1 L11 s5_B (by decide) ?_
  intro es6 s6_0 s6_1 s6_2 s6_F s6_c0 s6_c1 s6_c2 s6_lt0 s6_lt1 s6_lt2 s6_A s6_B
  conv at s6_B => rhs; simp only [Nat.reducePow, Nat.reduceSub, Nat.reduceMul, Nat.reduceAdd]
  have Fs6 := Fs5.trans s6_F
  clear Fs5 s6_F s5_c0 s5_c1 s5_c2 s5_B s5_lt0 s5_lt1 s5_lt2
  clear es5
  have hcols1 : s6_0 + (s6_1 + s6_2 * 2 ^ 32) * 2 ^ 32 = v3_7 + v3_8 * 2 ^ 32 + (l7 + l15 * 801750719 + l14 * 1076732275 + l13 * 1354194884 + l12 * 1162945305 + l11) := (reshape3 s6_0 s6_1 s6_2).trans (colsum6 s1_A s2_A s3_A s4_A s5_A s6_A)
  clear s1_A s2_A s3_A s4_A s5_A s6_A
  have cums1 := combine 256 hcum hcols1 rfl
  clear hcum hcols1
  refine extract_rule accSr s6_0 s6_1 s6_2 (by decide) (by decide) s6_c0 s6_c1 s6_c2 ?_
  intro es7 s7_Fx s7_o s7_c0 s7_c1 s7_c2
  have fs1_scalar_reduce_512_4_n4_0 := transport s7_Fx Fs6 (by decide) (by decide) h_scalar_reduce_512_4_n4_0
  have fs1_scalar_reduce_512_4_n5_0 := transport s7_Fx Fs6 (by decide) (by decide) h_scalar_reduce_512_4_n5_0
  have fs1_scalar_reduce_512_4_n6_0 := transport s7_Fx Fs6 (by decide) (by decide) h_scalar_reduce_512_4_n6_0
  have fs1_scalar_reduce_512_4_n7_0 := transport s7_Fx Fs6 (by decide) (by decide) h_scalar_reduce_512_4_n7_0
  have fs1_scalar_reduce_512_4_m0_0 := transport s7_Fx Fs6 (by decide) (by decide) h_scalar_reduce_512_4_m0_0
  have fs1_scalar_reduce_512_4_m1_0 := transport s7_Fx Fs6 (by decide) (by decide) h_scalar_reduce_512_4_m1_0
  have fs1_scalar_reduce_512_4_m2_0 := transport s7_Fx Fs6 (by decide) (by decide) h_scalar_reduce_512_4_m2_0
  have fs1_scalar_reduce_512_4_m3_0 := transport s7_Fx Fs6 (by decide) (by decide) h_scalar_reduce_512_4_m3_0
  have fs1_scalar_reduce_512_4_m4_0 := transport s7_Fx Fs6 (by decide) (by decide) h_scalar_reduce_512_4_m4_0
  have fs1_scalar_reduce_512_4_m5_0 := transport s7_Fx Fs6 (by decide) (by decide) h_scalar_reduce_512_4_m5_0
  have fs1_scalar_reduce_512_4_m6_0 := transport s7_Fx Fs6 (by decide) (by decide) h_scalar_reduce_512_4_m6_0
  have s7_B := extract_bound32 s6_B
  conv at s7_B => rhs; simp only [Nat.reducePow, Nat.reduceDiv]
  clear h_l_7 h_scalar_reduce_512_4_n3_0 h_scalar_reduce_512_4_n4_0 h_scalar_reduce_512_4_n5_0 h_scalar_reduce_512_4_n6_0 h_scalar_reduce_512_4_n7_0 h_scalar_reduce_512_4_m0_0 h_scalar_reduce_512_4_m1_0 h_scalar_reduce_512_4_m2_0 h_scalar_reduce_512_4_m3_0 h_scalar_reduce_512_4_m4_0 h_scalar_reduce_512_4_m5_0 h_scalar_reduce_512_4_m6_0 s6_c0 s6_c1 s6_c2 s6_B s7_Fx Fs6
  clear es6 env
  refine muladd_rule accSr s6_1 s6_2 0 l15 1076732275 4294967295 1076732275 _ (by decide) (by decide) s7_c0 s7_c1 s7_c2 (ev_var_of (Frame.refl accSr es7) (by decide) fs1_scalar_reduce_512_4_n7_0) (ev_nc1 _) s6_lt1 s6_lt2 (le_of_lt32 L15) (Nat.le_refl _) (by decide) (by decide) s7_B (by decide) ?_
  intro es8 s8_0 s8_1 s8_2 s8_F s8_c0 s8_c1 s8_c2 s8_lt0 s8_lt1 s8_lt2 s8_A s8_B
  replace s8_A := s8_A.trans (z3_xy0 _ _ _)
  conv at s8_B => rhs; simp only [Nat.reducePow, Nat.reduceSub, Nat.reduceMul, Nat.reduceAdd]
  clear s7_c0 s7_c1 s7_c2 s7_B s6_lt1 s6_lt2
  refine muladd_rule accSr s8_0 s8_1 s8_2 l14 1354194884 4294967295 1354194884 _ (by decide) (by decide) s8_c0 s8_c1 s8_c2 (ev_var_of s8_F (by decide) fs1_scalar_reduce_512_4_n6_0) (ev_nc2 _) s8_lt0 s8_lt1 (le_of_lt32 L14) (Nat.le_refl _) (by decide) (by decide) s8_B (by decide) ?_
  intro es9 s9_0 s9_1 s9_2 s9_F s9_c0 s9_c1 s9_c2 s9_lt0 s9_lt1 s9_lt2 s9_A s9_B
  conv at s9_B => rhs; simp only [Nat.reducePow, Nat.reduceSub, Nat.reduceMul, Nat.reduceAdd]
  have Fs9 := s8_F.trans s9_F
  clear s8_F s9_F s8_c0 s8_c1 s8_c2 s8_B s8_lt0 s8_lt1 s8_lt2
  clear es8
  refine muladd_rule accSr s9_0 s9_1 s9_2 l13 1162945305 4294967295 1162945305 _ (by decide) (by decide) s9_c0 s9_c1 s9_c2 (ev_var_of Fs9 (by decide) fs1_scalar_reduce_512_4_n5_0) (ev_nc3 _) s9_lt0 s9_lt1 (le_of_lt32 L13) (Nat.le_refl _) (by decide) (by decide) s9_B (by decide) ?_
  intro es10 s10_0 s10_1 s10_2 s10_F s10_c0 s10_c1 s10_c2 s10_lt0 s10_lt1 s10_lt2 s10_A s10_B
  conv at s10_B => rhs; simp only [Nat.reducePow, Nat.reduceSub, Nat.reduceMul, Nat.reduceAdd]
  have Fs10 := Fs9.trans s10_F
  clear Fs9 s10_F s9_c0 s9_c1 s9_c2 s9_B s9_lt0 s9_lt1 s9_lt2
  clear es9
  refine sumadd_rule accSr "scalar_reduce_512_4.n4" 0 s10_0 s10_1 s10_2 l12 _ (by decide) (by decide) (Reads_var _) (by decide) s10_c0 s10_c1 s10_c2 (transportF Fs10 (by decide) fs1_scalar_reduce_512_4_n4_0) s10_lt0 s10_lt1 L12 s10_B (by decide) ?_
  intro es11 s11_0 s11_1 s11_2 s11_F s11_c0 s11_c1 s11_c2 s11_lt0 s11_lt1 s11_lt2 s11_A s11_B
  conv at s11_B => rhs; simp only [Nat.reducePow, Nat.reduceSub, Nat.reduceMul, Nat.reduceAdd]
  have Fs11 := Fs10.trans s11_F
  clear Fs10 s11_F s10_c0 s10_c1 s10_c2 s10_B s10_lt0 s10_lt1 s10_lt2
  clear es10
  have hcols2 : s11_0 + (s11_1 + s11_2 * 2 ^ 32) * 2 ^ 32 = s6_1 + s6_2 * 2 ^ 32 + (l15 * 1076732275 + l14 * 1354194884 + l13 * 1162945305 + l12) := (reshape3 s11_0 s11_1 s11_2).trans (colsum4 s8_A s9_A s10_A s11_A)
  clear s8_A s9_A s10_A s11_A
  have cums2 := combine 288 cums1 hcols2 rfl
  clear cums1 hcols2
  refine extract_rule accSr s11_0 s11_1 s11_2 (by decide) (by decide) s11_c0 s11_c1 s11_c2 ?_
  intro es12 s12_Fx s12_o s12_c0 s12_c1 s12_c2
  have fs2_scalar_reduce_512_4_n5_0 := transport s12_Fx Fs11 (by decide) (by decide) fs1_scalar_reduce_512_4_n5_0
  have fs2_scalar_reduce_512_4_n6_0 := transport s12_Fx Fs11 (by decide) (by decide) fs1_scalar_reduce_512_4_n6_0
  have fs2_scalar_reduce_512_4_n7_0 := transport s12_Fx Fs11 (by decide) (by decide) fs1_scalar_reduce_512_4_n7_0
  have fs2_scalar_reduce_512_4_m0_0 := transport s12_Fx Fs11 (by decide) (by decide) fs1_scalar_reduce_512_4_m0_0
  have fs2_scalar_reduce_512_4_m1_0 := transport s12_Fx Fs11 (by decide) (by decide) fs1_scalar_reduce_512_4_m1_0
  have fs2_scalar_reduce_512_4_m2_0 := transport s12_Fx Fs11 (by decide) (by decide) fs1_scalar_reduce_512_4_m2_0
  have fs2_scalar_reduce_512_4_m3_0 := transport s12_Fx Fs11 (by decide) (by decide) fs1_scalar_reduce_512_4_m3_0
  have fs2_scalar_reduce_512_4_m4_0 := transport s12_Fx Fs11 (by decide) (by decide) fs1_scalar_reduce_512_4_m4_0
  have fs2_scalar_reduce_512_4_m5_0 := transport s12_Fx Fs11 (by decide) (by decide) fs1_scalar_reduce_512_4_m5_0
  have fs2_scalar_reduce_512_4_m6_0 := transport s12_Fx Fs11 (by decide) (by decide) fs1_scalar_reduce_512_4_m6_0
  have fs2_scalar_reduce_512_4_m7_0 := transport s12_Fx Fs11 (by decide) (by decide) s7_o
  have s12_B := extract_bound32 s11_B
  conv at s12_B => rhs; simp only [Nat.reducePow, Nat.reduceDiv]
  clear fs1_scalar_reduce_512_4_n4_0 fs1_scalar_reduce_512_4_n5_0 fs1_scalar_reduce_512_4_n6_0 fs1_scalar_reduce_512_4_n7_0 fs1_scalar_reduce_512_4_m0_0 fs1_scalar_reduce_512_4_m1_0 fs1_scalar_reduce_512_4_m2_0 fs1_scalar_reduce_512_4_m3_0 fs1_scalar_reduce_512_4_m4_0 fs1_scalar_reduce_512_4_m5_0 fs1_scalar_reduce_512_4_m6_0 s7_o s11_c0 s11_c1 s11_c2 s11_B s12_Fx Fs11
  clear es11 es7
  exact scalar_mul_red_run_p4 es12 l0 l1 l2 l3 l4 l5 l6 l7 l8 l9 l10 l11 l12 l13 l14 l15 v v3_0 v3_1 v3_2 v3_3 v3_4 v3_5 v3_6 s6_0 s11_0 s11_1 s11_2 L0 L1 L2 L3 L4 L5 L6 L7 L8 L9 L10 L11 L12 L13 L14 L15 hv fs2_scalar_reduce_512_4_n5_0 fs2_scalar_reduce_512_4_n6_0 fs2_scalar_reduce_512_4_n7_0 fs2_scalar_reduce_512_4_m0_0 fs2_scalar_reduce_512_4_m1_0 fs2_scalar_reduce_512_4_m2_0 fs2_scalar_reduce_512_4_m3_0 fs2_scalar_reduce_512_4_m4_0 fs2_scalar_reduce_512_4_m5_0 fs2_scalar_reduce_512_4_m6_0 fs2_scalar_reduce_512_4_m7_0 s12_o L_v3_0 L_v3_1 L_v3_2 L_v3_3 L_v3_4 L_v3_5 L_v3_6 s6_lt0 s11_lt0 s11_lt1 s11_lt2 s12_c0 s12_c1 s12_c2 s12_B cums2

set_option maxRecDepth 100000 in
set_option maxHeartbeats 4000000 in
theorem scalar_mul_red_run_p2 (env : Env) (l0 l1 l2 l3 l4 l5 l6 l7 l8 l9 l10 l11 l12 l13 l14 l15 v : Nat) (v2_0 v2_1 v2_2 v2_3 v2_4 v2_5 v2_6 : Nat) (L0 : l0 < 2 ^ 32) (L1 : l1 < 2 ^ 32) (L2 : l2 < 2 ^ 32) (L3 : l3 < 2 ^ 32) (L4 : l4 < 2 ^ 32) (L5 : l5 < 2 ^ 32) (L6 : l6 < 2 ^ 32) (L7 : l7 < 2 ^ 32) (L8 : l8 < 2 ^ 32) (L9 : l9 < 2 ^ 32) (L10 : l10 < 2 ^ 32) (L11 : l11 < 2 ^ 32) (L12 : l12 < 2 ^ 32) (L13 : l13 < 2 ^ 32) (L14 : l14 < 2 ^ 32) (L15 : l15 < 2 ^ 32) (hv : val16x32 l0 l1 l2 l3 l4 l5 l6 l7 l8 l9 l10 l11 l12 l13 l14 l15 = v) 
    (h_l_5 : env.get "l" 5 = l5)
    (h_l_6 : env.get "l" 6 = l6)
    (h_l_7 : env.get "l" 7 = l7)
    (h_scalar_reduce_512_4_n1_0 : env.get "scalar_reduce_512_4.n1" 0 = l9)
    (h_scalar_reduce_512_4_n2_0 : env.get "scalar_reduce_512_4.n2" 0 = l10)
    (h_scalar_reduce_512_4_n3_0 : env.get "scalar_reduce_512_4.n3" 0 = l11)
    (h_scalar_reduce_512_4_n4_0 : env.get "scalar_reduce_512_4.n4" 0 = l12)
    (h_scalar_reduce_512_4_n5_0 : env.get "scalar_reduce_512_4.n5" 0 = l13)
    (h_scalar_reduce_512_4_n6_0 : env.get "scalar_reduce_512_4.n6" 0 = l14)
    (h_scalar_reduce_512_4_n7_0 : env.get "scalar_reduce_512_4.n7" 0 = l15)
    (h_scalar_reduce_512_4_m0_0 : env.get "scalar_reduce_512_4.m0" 0 = v2_0)
    (h_scalar_reduce_512_4_m1_0 : env.get "scalar_reduce_512_4.m1" 0 = v2_1)
    (h_scalar_reduce_512_4_m2_0 : env.get "scalar_reduce_512_4.m2" 0 = v2_2)
    (h_scalar_reduce_512_4_m3_0 : env.get "scalar_reduce_512_4.m3" 0 = v2_3)
    (h_scalar_reduce_512_4_m4_0 : env.get "scalar_reduce_512_4.m4" 0 = v2_4)
    (L_v2_0 : v2_0 < 2 ^ 32)
    (L_v2_1 : v2_1 < 2 ^ 32)
    (L_v2_2 : v2_2 < 2 ^ 32)
    (L_v2_3 : v2_3 < 2 ^ 32)
    (L_v2_4 : v2_4 < 2 ^ 32)
    (L_v2_5 : v2_5 < 2 ^ 32)
    (L_v2_6 : v2_6 < 2 ^ 32)
    (hc0 : env.get "scalar_reduce_512_4.c0" 0 = v2_5)
    (hc1 : env.get "scalar_reduce_512_4.c1" 0 = v2_6)
    (hc2 : env.get "scalar_reduce_512_4.c2" 0 = 0)
    (hB : v2_5 + v2_6 * 2 ^ 32 + 0 * 2 ^ 64 ≤ 4395623184)
    (hcum : v2_0 + v2_1 * 2 ^ 32 + v2_2 * 2 ^ 64 + v2_3 * 2 ^ 96 + v2_4 * 2 ^ 128 + (v2_5 + v2_6 * 2 ^ 32) * 2 ^ 160 = l0 + (l8 * 801750719) + (l1 + l9 * 801750719 + l8 * 1076732275) * 2 ^ 32 + (l2 + l10 * 801750719 + l9 * 1076732275 + l8 * 1354194884) * 2 ^ 64 + (l3 + l11 * 801750719 + l10 * 1076732275 + l9 * 1354194884 + l8 * 1162945305) * 2 ^ 96 + (l4 + l12 * 801750719 + l11 * 1076732275 + l10 * 1354194884 + l9 * 1162945305 + l8) * 2 ^ 128) :
    RedPost v (runR env (Gen.scalar8x32.scalar_mul.body.drop 653)) := by
  simp only [Gen.scalar8x32.scalar_mul, List.drop_succ_cons, List.drop_zero]
  refine sumadd_rule accSr "l" 5 v2_5 v2_6 0 l5 _ (by decide) (by decide) (Reads_idx _ _) (by decide) hc0 hc1 hc2 (transportF (Frame.refl accSr env) (by decide) h_l_5) L_v2_5 L_v2_6 L5 hB (by decide) ?_
  intro es1 s1_0 s1_1 s1_2 s1_F s1_c0 s1_c1 s1_c2 s1_lt0 s1_lt1 s1_lt2 s1_A s1_B
  replace s1_A := s1_A.trans (z3_xy0 _ _ _)
  conv at s1_B => rhs; simp only [Nat.reducePow, Nat.reduceSub, Nat.reduceMul, Nat.reduceAdd]
  clear hc0 hc1 hc2 hB L_v2_5 L_v2_6
  refine muladd_rule accSr s1_0 s1_1 s1_2 l13 801750719 4294967295 801750719 _ (by decide) (by decide) s1_c0 s1_c1 s1_c2 (ev_var_of s1_F (by decide) h_scalar_reduce_512_4_n5_0) (ev_nc0 _) s1_lt0 s1_lt1 (le_of_lt32 L13) (Nat.le_refl _) (by decide) (by decide) s1_B (by decide) ?_
  intro es2 s2_0 s2_1 s2_2 s2_F s2_c0 s2_c1 s2_c2 s2_lt0 s2_lt1 s2_lt2 s2_A s2_B
  conv at s2_B => rhs; simp only [Nat.reducePow, Nat.reduceSub, Nat.reduceMul, Nat.reduceAdd]
  have Fs2 := s1_F.trans s2_F
  clear s1_F s2_F s1_c0 s1_c1 s1_c2 s1_B s1_lt0 s1_lt1 s1_lt2
  clear es1
  refine muladd_rule accSr s2_0 s2_1 s2_2 l12 1076732275 4294967295 1076732275 _ (by decide) (by decide) s2_c0 s2_c1 s2_c2 (ev_var_of Fs2 (by decide) h_scalar_reduce_512_4_n4_0) (ev_nc1 _) s2_lt0 s2_lt1 (le_of_lt32 L12) (Nat.le_refl _) (by decide) (by decide) s2_B (by decide) ?_
  intro es3 s3_0 s3_1 s3_2 s3_F s3_c0 s3_c1 s3_c2 s3_lt0 s3_lt1 s3_lt2 s3_A s3_B
  conv at s3_B => rhs; simp only [Nat.reducePow, Nat.reduceSub, Nat.reduceMul, Nat.reduceAdd]
  have Fs3 := Fs2.trans s3_F
  clear Fs2 s3_F s2_c0 s2_c1 s2_c2 s2_B s2_lt0 s2_lt1 s2_lt2
  clear es2
  refine muladd_rule accSr s3_0 s3_1 s3_2 l11 1354194884 4294967295 1354194884 _ (by decide) (by decide) s3_c0 s3_c1 s3_c2 (ev_var_of Fs3 (by decide) h_scalar_reduce_512_4_n3_0) (ev_nc2 _) s3_lt0 s3_lt1 (le_of_lt32 L11) (Nat.le_refl _) (by decide) (by decide) s3_B (by decide) ?_
  intro es4 s4_0 s4_1 s4_2 s4_F s4_c0 s4_c1 s4_c2 s4_lt0 s4_lt1 s4_lt2 s4_A s4_B
  conv at s4_B => rhs; simp only [Nat.reducePow, Nat.reduceSub, Nat.reduceMul, Nat.reduceAdd]
  have Fs4 := Fs3.trans s4_F
  clear Fs3 s4_F s3_c0 s3_c1 s3_c2 s3_B s3_lt0 s3_lt1 s3_lt2
  clear es3
  refine muladd_rule accSr s4_0 s4_1 s4_2 l10 1162945305 4294967295 1162945305 _ (by decide) (by decide) s4_c0 s4_c1 s4_c2 (ev_var_of Fs4 (by decide) h_scalar_reduce_512_4_n2_0) (ev_nc3 _) s4_lt0 s4_lt1 (le_of_lt32 L10) (Nat.le_refl _) (by decide) (by decide) s4_B (by decide) ?_
  intro es5 s5_0 s5_1 s5_2 s5_F s5_c0 s5_c1 s5_c2 s5_lt0 s5_lt1 s5_lt2 s5_A s5_B
  conv at s5_B => rhs; simp only [Nat.reducePow, Nat.reduceSub, Nat.reduceMul, Nat.reduceAdd]
  have Fs5 := Fs4.trans s5_F
  clear Fs4 s5_F s4_c0 s4_c1 s4_c2 s4_B s4_lt0 s4_lt1 s4_lt2
  clear es4
  refine sumadd_rule accSr "scalar_reduce_512_4.n1" 0 s5_0 s5_1 s5_2 l9 _ (by decide) (by decide) (Reads_var _) (by decide) s5_c0 s5_c1 s5_c2 (transportF Fs5 (by decide) h_scalar_reduce_512_4_n1_0) s5_lt0 s5_lt1 L9 s5_B (by decide) ?_
  intro es6 s6_0 s6_1 s6_2 s6_F s6_c0 s6_c1 s6_c2 s6_lt0 s6_lt1 s6_lt2 s6_A s6_B
  conv at s6_B => rhs; simp only [Nat.reducePow, Nat.reduceSub, Nat.reduceMul, Nat.reduceAdd]
  have Fs6 := Fs5.trans s6_F
  clear Fs5 s6_F s5_c0 s5_c1 s5_c2 s5_B s5_lt0 s5_lt1 s5_lt2
  clear es5
  have hcols1 : s6_0 + (s6_1 + s6_2 * 2 ^ 32) * 2 ^ 32 = v2_5 + v2_6 * 2 ^ 32 + (l5 + l13 * 801750719 + l12 * 1076732275 + l11 * 1354194884 + l10 * 1162945305 + l9) := (reshape3 s6_0 s6_1 s6_2).trans (colsum6 s1_A s2_A s3_A s4_A s5_A s6_A)
  clear s1_A s2_A s3_A s4_A s5_A s6_A
  have cums1 := combine 192 hcum hcols1 rfl
  clear hcum hcols1
  refine extract_rule accSr s6_0 s6_1 s6_2 (by decide) (by decide) s6_c0 s6_c1 s6_c2 ?_
  intro es7 s7_Fx s7_o s7_c0 s7_c1 s7_c2
  have fs1_l_6 := transport s7_Fx Fs6 (by decide) (by decide) h_l_6
  have fs1_l_7 := transport s7_Fx Fs6 (by decide) (by decide) h_l_7
  have fs1_scalar_reduce_512_4_n2_0 := transport s7_Fx Fs6 (by decide) (by decide) h_scalar_reduce_512_4_n2_0
  have fs1_scalar_reduce_512_4_n3_0 := transport s7_Fx Fs6 (by decide) (by decide) h_scalar_reduce_512_4_n3_0
  have fs1_scalar_reduce_512_4_n4_0 := transport s7_Fx Fs6 (by decide) (by decide) h_scalar_reduce_512_4_n4_0
  have fs1_scalar_reduce_512_4_n5_0 := transport s7_Fx Fs6 (by decide) (by decide) h_scalar_reduce_512_4_n5_0
  have fs1_scalar_reduce_512_4_n6_0 := transport s7_Fx Fs6 (by decide) (by decide) h_scalar_reduce_512_4_n6_0
  have fs1_scalar_reduce_512_4_n7_0 := transport s7_Fx Fs6 (by decide) (by decide) h_scalar_reduce_512_4_n7_0
  have fs1_scalar_reduce_512_4_m0_0 := transport s7_Fx Fs6 (by decide) (by decide) h_scalar_reduce_512_4_m0_0
  have fs1_scalar_reduce_512_4_m1_0 := transport s7_Fx Fs6 (by decide) (by decide) h_scalar_reduce_512_4_m1_0
  have fs1_scalar_reduce_512_4_m2_0 := transport s7_Fx Fs6 (by decide) (by decide) h_scalar_reduce_512_4_m2_0
  have fs1_scalar_reduce_512_4_m3_0 := transport s7_Fx Fs6 (by decide) (by decide) h_scalar_reduce_512_4_m3_0
  have fs1_scalar_reduce_512_4_m4_0 := transport s7_Fx Fs6 (by decide) (by decide) h_scalar_reduce_512_4_m4_0
  have s7_B := extract_bound32 s6_B
  conv at s7_B => rhs; simp only [Nat.reducePow, Nat.reduceDiv]
  clear h_l_5 h_l_6 h_l_7 h_scalar_reduce_512_4_n1_0 h_scalar_reduce_512_4_n2_0 h_scalar_reduce_512_4_n3_0 h_scalar_reduce_512_4_n4_0 h_scalar_reduce_512_4_n5_0 h_scalar_reduce_512_4_n6_0 h_scalar_reduce_512_4_n7_0 h_scalar_reduce_512_4_m0_0 h_scalar_reduce_512_4_m1_0 h_scalar_reduce_512_4_m2_0 h_scalar_reduce_512_4_m3_0 h_scalar_reduce_512_4_m4_0 s6_c0 s6_c1 s6_c2 s6_B s7_Fx Fs6
  clear es6 env
  refine sumadd_rule accSr "l" 6 s6_1 s6_2 0 l6 _ (by decide) (by decide) (Reads_idx _ _) (by decide) s7_c0 s7_c1 s7_c2 (transportF (Frame.refl accSr es7) (by decide) fs1_l_6) s6_lt1 s6_lt2 L6 s7_B (by decide) ?_
  intro es8 s8_0 s8_1 s8_2 s8_F s8_c0 s8_c1 s8_c2 s8_lt0 s8_lt1 s8_lt2 s8_A s8_B
  replace s8_A := s8_A.trans (z3_xy0 _ _ _)
  conv at s8_B => rhs; simp only [Nat.reducePow, Nat.reduceSub, Nat.reduceMul, Nat.reduceAdd]
  clear s7_c0 s7_c1 s7_c2 s7_B s6_lt1 s6_lt2
  refine muladd_rule accSr s8_0 s8_1 s8_2 l14 801750719 4294967295 801750719 _ (by decide) (by decide) s8_c0 s8_c1 s8_c2 (ev_var_of s8_F (by decide) fs1_scalar_reduce_512_4_n6_0) (ev_nc0 _) s8_lt0 s8_lt1 (le_of_lt32 L14) (Nat.le_refl _) (by decide) (by decide) s8_B (by decide) ?_
  intro es9 s9_0 s9_1 s9_2 s9_F s9_c0 s9_c1 s9_c2 s9_lt0 s9_lt1 s9_lt2 s9_A s9_B
  conv at s9_B => rhs; simp only [Nat.reducePow, Nat.reduceSub, Nat.reduceMul, Nat.reduceAdd]
  have Fs9 := s8_F.trans s9_F
  clear s8_F s9_F s8_c0 s8_c1 s8_c2 s8_B s8_lt0 s8_lt1 s8_lt2
  clear es8
  refine muladd_rule accSr s9_0 s9_1 s9_2 l13 1076732275 4294967295 1076732275 _ (by decide) (by decide) s9_c0 s9_c1 s9_c2 (ev_var_of Fs9 (by decide) fs1_scalar_reduce_512_4_n5_0) (ev_nc1 _) s9_lt0 s9_lt1 (le_of_lt32 L13) (Nat.le_refl _) (by decide) (by decide) s9_B (by decide) ?_
  intro es10 s10_0 s10_1 s10_2 s10_F s10_c0 s10_c1 s10_c2 s10_lt0 s10_lt1 s10_lt2 s10_A s10_B
  conv at s10_B => rhs; simp only [Nat.reducePow, Nat.reduceSub, Nat.reduceMul, Nat.reduceAdd]
  have Fs10 := Fs9.trans s10_F
  clear Fs9 s10_F s9_c0 s9_c1 s9_c2 s9_B s9_lt0 s9_lt1 s9_lt2
  clear es9
  refine muladd_rule accSr s10_0 s10_1 s10_2 l12 1354194884 4294967295 1354194884 _ (by decide) (by decide) s10_c0 s10_c1 s10_c2 (ev_var_of Fs10 (by decide) fs1_scalar_reduce_512_4_n4_0) (ev_nc2 _) s10_lt0 s10_lt1 (le_of_lt32 L12) (Nat.le_refl _) (by decide) (by decide) s10_B (by decide) ?_
  intro es11 s11_0 s11_1 s11_2 s11_F s11_c0 s11_c1 s11_c2 s11_lt0 s11_lt1 s11_lt2 s11_A s11_B
  conv at s11_B => rhs; simp only [Nat.reducePow, Nat.reduceSub, Nat.reduceMul, Nat.reduceAdd]
  have Fs11 := Fs10.trans s11_F
  clear Fs10 s11_F s10_c0 s10_c1 s10_c2 s10_B s10_lt0 s10_lt1 s10_lt2
  clear es10
  refine muladd_rule accSr s11_0 s11_1 s11_2 l11 1162945305 4294967295 1162945305 _ (by decide) (by decide) s11_c0 s11_c1 s11_c2 (ev_var_of Fs11 (by decide) fs1_scalar_reduce_512_4_n3_0) (ev_nc3 _) s11_lt0 s11_lt1 (le_of_lt32 L11) (Nat.le_refl _) (by decide) (by decide) s11_B (by decide) ?_
  intro es12 s12_0 s12_1 s12_2 s12_F s12_c0 s12_c1 s12_c2 s12_lt0 s12_lt1 s12_lt2 s12_A s12_B
  conv at s12_B => rhs; simp only [Nat.reducePow, Nat.reduceSub, Nat.reduceMul, Nat.reduceAdd]
  have Fs12 := Fs11.trans s12_F
  clear Fs11 s12_F s11_c0 s11_c1 s11_c2 s11_B s11_lt0 s11_lt1 s11_lt2
  clear es11
  refine sumadd_rule accSr "scalar_reduce_512_4.n2" 0 s12_0 s12_1 s12_2 l10 _ (by decide) (by decide) (Reads_var _) (by decide) s12_c0 s12_c1 s12_c2 (transportF Fs12 (by decide) fs1_scalar_reduce_512_4_n2_0) s12_lt0 s12_lt1 L10 s12_B (by decide) ?_
  intro es13 s13_0 s13_1 s13_2 s13_F s13_c0 s13_c1 s13_c2 s13_lt0 s13_lt1 s13_lt2 s13_A s13_B
  conv at s13_B => rhs; simp only [Nat.reducePow, Nat.reduceSub, Nat.reduceMul, Nat.reduceAdd]
  have Fs13 := Fs12.trans s13_F
  clear Fs12 s13_F s12_c0 s12_c1 s12_c2 s12_B s12_lt0 s12_lt1 s12_lt2
  clear es12
  have hcols2 : s13_0 + (s13_1 + s13_2 * 2 ^ 32) * 2 ^ 32 = s6_1 + s6_2 * 2 ^ 32 + (l6 + l14 * 801750719 + l13 * 1076732275 + l12 * 1354194884 + l11 * 1162945305 + l10) := (reshape3 s13_0 s13_1 s13_2).trans (colsum6 s8_A s9_A s10_A s11_A s12_A s13_A)
  clear s8_A s9_A s10_A s11_A s12_A s13_A
  have cums2 := combine 224 cums1 hcols2 rfl
  clear cums1 hcols2
  refine extract_rule accSr s13_0 s13_1 s13_2 (by decide) (by decide) s13_c0 s13_c1 s13_c2 ?_
  intro es14 s14_Fx s14_o s14_c0 s14_c1 s14_c2
  have fs2_l_7 := transport s14_Fx Fs13 (by decide) (by decide) fs1_l_7
  have fs2_scalar_reduce_512_4_n3_0 := transport s14_Fx Fs13 (by decide) (by decide) fs1_scalar_reduce_512_4_n3_0
  have fs2_scalar_reduce_512_4_n4_0 := transport s14_Fx Fs13 (by decide) (by decide) fs1_scalar_reduce_512_4_n4_0
  have fs2_scalar_reduce_512_4_n5_0 := transport s14_Fx Fs13 (by decide) (by decide) fs1_scalar_reduce_512_4_n5_0
  have fs2_scalar_reduce_512_4_n6_0 := transport s14_Fx Fs13 (by decide) (by decide) fs1_scalar_reduce_512_4_n6_0
  have fs2_scalar_reduce_512_4_n7_0 := transport s14_Fx Fs13 (by decide) (by decide) fs1_scalar_reduce_512_4_n7_0
  have fs2_scalar_reduce_512_4_m0_0 := transport s14_Fx Fs13 (by decide) (by decide) fs1_scalar_reduce_512_4_m0_0
  have fs2_scalar_reduce_512_4_m1_0 := transport s14_Fx Fs13 (by decide) (by decide) fs1_scalar_reduce_512_4_m1_0
  have fs2_scalar_reduce_512_4_m2_0 := transport s14_Fx Fs13 (by decide) (by decide) fs1_scalar_reduce_512_4_m2_0
  have fs2_scalar_reduce_512_4_m3_0 := transport s14_Fx Fs13 (by decide) (by decide) fs1_scalar_reduce_512_4_m3_0
  have fs2_scalar_reduce_512_4_m4_0 := transport s14_Fx Fs13 (by decide) (by decide) fs1_scalar_reduce_512_4_m4_0
  have fs2_scalar_reduce_512_4_m5_0 := transport s14_Fx Fs13 (by decide) (by decide) s7_o
  have s14_B := extract_bound32 s13_B
  conv at s14_B => rhs; simp only [Nat.reducePow, Nat.reduceDiv]
  clear fs1_l_6 fs1_l_7 fs1_scalar_reduce_512_4_n2_0 fs1_scalar_reduce_512_4_n3_0 fs1_scalar_reduce_512_4_n4_0 fs1_scalar_reduce_512_4_n5_0 fs1_scalar_reduce_512_4_n6_0 fs1_scalar_reduce_512_4_n7_0 fs1_scalar_reduce_512_4_m0_0 fs1_scalar_reduce_512_4_m1_0 fs1_scalar_reduce_512_4_m2_0 fs1_scalar_reduce_512_4_m3_0 fs1_scalar_reduce_512_4_m4_0 s7_o s13_c0 s13_c1 s13_c2 s13_B s14_Fx Fs13
  clear es13 es7
  exact scalar_mul_red_run_p3 es14 l0 l1 l2 l3 l4 l5 l6 l7 l8 l9 l10 l11 l12 l13 l14 l15 v v2_0 v2_1 v2_2 v2_3 v2_4 s6_0 s13_0 s13_1 s13_2 L0 L1 L2 L3 L4 L5 L6 L7 L8 L9 L10 L11 L12 L13 L14 L15 hv fs2_l_7 fs2_scalar_reduce_512_4_n3_0 fs2_scalar_reduce_512_4_n4_0 fs2_scalar_reduce_512_4_n5_0 fs2_scalar_reduce_512_4_n6_0 fs2_scalar_reduce_512_4_n7_0 fs2_scalar_reduce_512_4_m0_0 fs2_scalar_reduce_512_4_m1_0 fs2_scalar_reduce_512_4_m2_0 fs2_scalar_reduce_512_4_m3_0 fs2_scalar_reduce_512_4_m4_0 fs2_scalar_reduce_512_4_m5_0 s14_o L_v2_0 L_v2_1 L_v2_2 L_v2_3 L_v2_4 s6_lt0 s13_lt0 s13_lt1 s13_lt2 s14_c0 s14_c1 s14_c2 s14_B cums2

set_option maxRecDepth 100000 in
set_option maxHeartbeats 4000000 in
theorem scalar_mul_red_run_p1 (env : Env) (l0 l1 l2 l3 l4 l5 l6 l7 l8 l9 l10 l11 l12 l13 l14 l15 v : Nat) (v1_0 v1_1 v1_2 v1_3 : Nat) (L0 : l0 < 2 ^ 32) (L1 : l1 < 2 ^ 32) (L2 : l2 < 2 ^ 32) (L3 : l3 < 2 ^ 32) (L4 : l4 < 2 ^ 32) (L5 : l5 < 2 ^ 32) (L6 : l6 < 2 ^ 32) (L7 : l7 < 2 ^ 32) (L8 : l8 < 2 ^ 32) (L9 : l9 < 2 ^ 32) (L10 : l10 < 2 ^ 32) (L11 : l11 < 2 ^ 32) (L12 : l12 < 2 ^ 32) (L13 : l13 < 2 ^ 32) (L14 : l14 < 2 ^ 32) (L15 : l15 < 2 ^ 32) (hv : val16x32 l0 l1 l2 l3 l4 l5 l6 l7 l8 l9 l10 l11 l12 l13 l14 l15 = v) 
    (h_l_2 : env.get "l" 2 = l2)
    (h_l_3 : env.get "l" 3 = l3)
    (h_l_4 : env.get "l" 4 = l4)
    (h_l_5 : env.get "l" 5 = l5)
    (h_l_6 : env.get "l" 6 = l6)
    (h_l_7 : env.get "l" 7 = l7)
    (h_scalar_reduce_512_4_n0_0 : env.get "scalar_reduce_512_4.n0" 0 = l8)
    (h_scalar_reduce_512_4_n1_0 : env.get "scalar_reduce_512_4.n1" 0 = l9)
    (h_scalar_reduce_512_4_n2_0 : env.get "scalar_reduce_512_4.n2" 0 = l10)
    (h_scalar_reduce_512_4_n3_0 : env.get "scalar_reduce_512_4.n3" 0 = l11)
    (h_scalar_reduce_512_4_n4_0 : env.get "scalar_reduce_512_4.n4" 0 = l12)
    (h_scalar_reduce_512_4_n5_0 : env.get "scalar_reduce_512_4.n5" 0 = l13)
    (h_scalar_reduce_512_4_n6_0 : env.get "scalar_reduce_512_4.n6" 0 = l14)
    (h_scalar_reduce_512_4_n7_0 : env.get "scalar_reduce_512_4.n7" 0 = l15)
    (h_scalar_reduce_512_4_m0_0 : env.get "scalar_reduce_512_4.m0" 0 = v1_0)
    (h_scalar_reduce_512_4_m1_0 : env.get "scalar_reduce_512_4.m1" 0 = v1_1)
    (L_v1_0 : v1_0 < 2 ^ 32)
    (L_v1_1 : v1_1 < 2 ^ 32)
    (L_v1_2 : v1_2 < 2 ^ 32)
    (L_v1_3 : v1_3 < 2 ^ 32)
    (hc0 : env.get "scalar_reduce_512_4.c0" 0 = v1_2)
    (hc1 : env.get "scalar_reduce_512_4.c1" 0 = v1_3)
    (hc2 : env.get "scalar_reduce_512_4.c2" 0 = 0)
    (hB : v1_2 + v1_3 * 2 ^ 32 + 0 * 2 ^ 64 ≤ 1878482994)
    (hcum : v1_0 + v1_1 * 2 ^ 32 + (v1_2 + v1_3 * 2 ^ 32) * 2 ^ 64 = l0 + (l8 * 801750719) + (l1 + l9 * 801750719 + l8 * 1076732275) * 2 ^ 32) :
    RedPost v (runR env (Gen.scalar8x32.scalar_mul.body.drop 548)) := by
  simp only [Gen.scalar8x32.scalar_mul, List.drop_succ_cons, List.drop_zero]
  refine sumadd_rule accSr "l" 2 v1_2 v1_3 0 l2 _ (by decide) (by decide) (Reads_idx _ _) (by decide) hc0 hc1 hc2 (transportF (Frame.refl accSr env) (by decide) h_l_2) L_v1_2 L_v1_3 L2 hB (by decide) ?_
  intro es1 s1_0 s1_1 s1_2 s1_F s1_c0 s1_c1 s1_c2 s1_lt0 s1_lt1 s1_lt2 s1_A s1_B
  replace s1_A := s1_A.trans (z3_xy0 _ _ _)
  conv at s1_B => rhs; simp only [Nat.reducePow, Nat.reduceSub, Nat.reduceMul, Nat.reduceAdd]
  clear hc0 hc1 hc2 hB L_v1_2 L_v1_3
  refine muladd_rule accSr s1_0 s1_1 s1_2 l10 801750719 4294967295 801750719 _ (by decide) (by decide) s1_c0 s1_c1 s1_c2 (ev_var_of s1_F (by decide) h_scalar_reduce_512_4_n2_0) (ev_nc0 _) s1_lt0 s1_lt1 (le_of_lt32 L10) (Nat.le_refl _) (by decide) (by decide) s1_B (by decide) ?_
  intro es2 s2_0 s2_1 s2_2 s2_F s2_c0 s2_c1 s2_c2 s2_lt0 s2_lt1 s2_lt2 s2_A s2_B
  conv at s2_B => rhs; simp only [Nat.reducePow, Nat.reduceSub, Nat.reduceMul, Nat.reduceAdd]
  have Fs2 := s1_F.trans s2_F
  clear s1_F s2_F s1_c0 s1_c1 s1_c2 s1_B s1_lt0 s1_lt1 s1_lt2
  clear es1
  refine muladd_rule accSr s2_0 s2_1 s2_2 l9 1076732275 4294967295 1076732275 _ (by decide) (by decide) s2_c0 s2_c1 s2_c2 (ev_var_of Fs2 (by decide) h_scalar_reduce_512_4_n1_0) (ev_nc1 _) s2_lt0 s2_lt1 (le_of_lt32 L9) (Nat.le_refl _) (by decide) (by decide) s2_B (by decide) ?_
  intro es3 s3_0 s3_1 s3_2 s3_F s3_c0 s3_c1 s3_c2 s3_lt0 s3_lt1 s3_lt2 s3_A s3_B
  conv at s3_B => rhs; simp only [Nat.reducePow, Nat.reduceSub, Nat.reduceMul, Nat.reduceAdd]
  have Fs3 := Fs2.trans s3_F
  clear Fs2 s3_F s2_c0 s2_c1 s2_c2 s2_B s2_lt0 s2_lt1 s2_lt2
  clear es2
  refine muladd_rule accSr s3_0 s3_1 s3_2 l8 1354194884 4294967295 1354194884 _ (by decide) (by decide) s3_c0 s3_c1 s3_c2 (ev_var_of Fs3 (by decide) h_scalar_reduce_512_4_n0_0) (ev_nc2 _) s3_lt0 s3_lt1 (le_of_lt32 L8) (Nat.le_refl _) (by decide) (by decide) s3_B (by decide) ?_
  intro es4 s4_0 s4_1 s4_2 s4_F s4_c0 s4_c1 s4_c2 s4_lt0 s4_lt1 s4_lt2 s4_A s4_B
  conv at s4_B => rhs; simp only [Nat.reducePow, Nat.reduceSub, Nat.reduceMul, Nat.reduceAdd]
  have Fs4 := Fs3.trans s4_F
  clear Fs3 s4_F s3_c0 s3_c1 s3_c2 s3_B s3_lt0 s3_lt1 s3_lt2
  clear es3
  have hcols1 : s4_0 + (s4_1 + s4_2 * 2 ^ 32) * 2 ^ 32 = v1_2 + v1_3 * 2 ^ 32 + (l2 + l10 * 801750719 + l9 * 1076732275 + l8 * 1354194884) := (reshape3 s4_0 s4_1 s4_2).trans (colsum4 s1_A s2_A s3_A s4_A)
  clear s1_A s2_A s3_A s4_A
  have cums1 := combine 96 hcum hcols1 rfl
  clear hcum hcols1
  refine extract_rule accSr s4_0 s4_1 s4_2 (by decide) (by decide) s4_c0 s4_c1 s4_c2 ?_
  intro es5 s5_Fx s5_o s5_c0 s5_c1 s5_c2
  have fs1_l_3 := transport s5_Fx Fs4 (by decide) (by decide) h_l_3
  have fs1_l_4 := transport s5_Fx Fs4 (by decide) (by decide) h_l_4
  have fs1_l_5 := transport s5_Fx Fs4 (by decide) (by decide) h_l_5
  have fs1_l_6 := transport s5_Fx Fs4 (by decide) (by decide) h_l_6
  have fs1_l_7 := transport s5_Fx Fs4 (by decide) (by decide) h_l_7
  have fs1_scalar_reduce_512_4_n0_0 := transport s5_Fx Fs4 (by decide) (by decide) h_scalar_reduce_512_4_n0_0
  have fs1_scalar_reduce_512_4_n1_0 := transport s5_Fx Fs4 (by decide) (by decide) h_scalar_reduce_512_4_n1_0
  have fs1_scalar_reduce_512_4_n2_0 := transport s5_Fx Fs4 (by decide) (by decide) h_scalar_reduce_512_4_n2_0
  have fs1_scalar_reduce_512_4_n3_0 := transport s5_Fx Fs4 (by decide) (by decide) h_scalar_reduce_512_4_n3_0
  have fs1_scalar_reduce_512_4_n4_0 := transport s5_Fx Fs4 (by decide) (by decide) h_scalar_reduce_512_4_n4_0
  have fs1_scalar_reduce_512_4_n5_0 := transport s5_Fx Fs4 (by decide) (by decide) h_scalar_reduce_512_4_n5_0
  have fs1_scalar_reduce_512_4_n6_0 := transport s5_Fx Fs4 (by decide) (by decide) h_scalar_reduce_512_4_n6_0
  have fs1_scalar_reduce_512_4_n7_0 := transport s5_Fx Fs4 (by decide) (by decide) h_scalar_reduce_512_4_n7_0
  have fs1_scalar_reduce_512_4_m0_0 := transport s5_Fx Fs4 (by decide) (by decide) h_scalar_reduce_512_4_m0_0
  have fs1_scalar_reduce_512_4_m1_0 := transport s5_Fx Fs4 (by decide) (by decide) h_scalar_reduce_512_4_m1_0
  have s5_B := extract_bound32 s4_B
  conv at s5_B => rhs; simp only [Nat.reducePow, Nat.reduceDiv]
  clear h_l_2 h_l_3 h_l_4 h_l_5 h_l_6 h_l_7 h_scalar_reduce_512_4_n0_0 h_scalar_reduce_512_4_n1_0 h_scalar_reduce_512_4_n2_0 h_scalar_reduce_512_4_n3_0 h_scalar_reduce_512_4_n4_0 h_scalar_reduce_512_4_n5_0 h_scalar_reduce_512_4_n6_0 h_scalar_reduce_512_4_n7_0 h_scalar_reduce_512_4_m0_0 h_scalar_reduce_512_4_m1_0 s4_c0 s4_c1 s4_c2 s4_B s5_Fx Fs4
  clear es4 env
  refine sumadd_rule accSr "l" 3 s4_1 s4_2 0 l3 _ (by decide) (by decide) (Reads_idx _ _) (by decide) s5_c0 s5_c1 s5_c2 (transportF (Frame.refl accSr es5) (by decide) fs1_l_3) s4_lt1 s4_lt2 L3 s5_B (by decide) ?_
  intro es6 s6_0 s6_1 s6_2 s6_F s6_c0 s6_c1 s6_c2 s6_lt0 s6_lt1 s6_lt2 s6_A s6_B
  replace s6_A := s6_A.trans (z3_xy0 _ _ _)
  conv at s6_B => rhs; simp only [Nat.reducePow, Nat.reduceSub, Nat.reduceMul, Nat.reduceAdd]
  clear s5_c0 s5_c1 s5_c2 s5_B s4_lt1 s4_lt2
  refine muladd_rule accSr s6_0 s6_1 s6_2 l11 801750719 4294967295 801750719 _ (by decide) (by decide) s6_c0 s6_c1 s6_c2 (ev_var_of s6_F (by decide) fs1_scalar_reduce_512_4_n3_0) (ev_nc0 _) s6_lt0 s6_lt1 (le_of_lt32 L11) (Nat.le_refl _) (by decide) (by decide) s6_B (by decide) ?_
  intro es7 s7_0 s7_1 s7_2 s7_F s7_c0 s7_c1 s7_c2 s7_lt0 s7_lt1 s7_lt2 s7_A s7_B
  conv at s7_B => rhs; simp only [Nat.reducePow, Nat.reduceSub, Nat.reduceMul, Nat.reduceAdd]
  have Fs7 := s6_F.trans s7_F
  clear s6_F s7_F s6_c0 s6_c1 s6_c2 s6_B s6_lt0 s6_lt1 s6_lt2
  clear es6
  refine muladd_rule accSr s7_0 s7_1 s7_2 l10 1076732275 4294967295 1076732275 _ (by decide) (by decide) s7_c0 s7_c1 s7_c2 (ev_var_of Fs7 (by decide) fs1_scalar_reduce_512_4_n2_0) (ev_nc1 _) s7_lt0 s7_lt1 (le_of_lt32 L10) (Nat.le_refl _) (by decide) (by decide) s7_B (by decide) ?_
  intro es8 s8_0 s8_1 s8_2 s8_F s8_c0 s8_c1 s8_c2 s8_lt0 s8_lt1 s8_lt2 s8_A s8_B
  conv at s8_B => rhs; simp only [Nat.reducePow, Nat.reduceSub, Nat.reduceMul, Nat.reduceAdd]
  have Fs8 := Fs7.trans s8_F
  clear Fs7 s8_F s7_c0 s7_c1 s7_c2 s7_B s7_lt0 s7_lt1 s7_lt2
  clear es7
  refine muladd_rule accSr s8_0 s8_1 s8_2 l9 1354194884 4294967295 1354194884 _ (by decide) (by decide) s8_c0 s8_c1 s8_c2 (ev_var_of Fs8 (by decide) fs1_scalar_reduce_512_4_n1_0) (ev_nc2 _) s8_lt0 s8_lt1 (le_of_lt32 L9) (Nat.le_refl _) (by decide) (by decide) s8_B (by decide) ?_
  intro es9 s9_0 s9_1 s9_2 s9_F s9_c0 s9_c1 s9_c2 s9_lt0 s9_lt1 s9_lt2 s9_A s9_B
  conv at s9_B => rhs; simp only [Nat.reducePow, Nat.reduceSub, Nat.reduceMul, Nat.reduceAdd]
  have Fs9 := Fs8.trans s9_F
  clear Fs8 s9_F s8_c0 s8_c1 s8_c2 s8_B s8_lt0 s8_lt1 s8_lt2
  clear es8
  refine muladd_rule accSr s9_0 s9_1 s9_2 l8 1162945305 4294967295 1162945305 _ (by decide) (by decide) s9_c0 s9_c1 s9_c2 (ev_var_of Fs9 (by decide) fs1_scalar_reduce_512_4_n0_0) (ev_nc3 _) s9_lt0 s9_lt1 (le_of_lt32 L8) (Nat.le_refl _) (by decide) (by decide) s9_B (by decide) ?_
  intro es10 s10_0 s10_1 s10_2 s10_F s10_c0 s10_c1 s10_c2 s10_lt0 s10_lt1 s10_lt2 s10_A s10_B
  conv at s10_B => rhs; simp only [Nat.reducePow, Nat.reduceSub, Nat.reduceMul, Nat.reduceAdd]
  have Fs10 := Fs9.trans s10_F
  clear Fs9 s10_F s9_c0 s9_c1 s9_c2 s9_B s9_lt0 s9_lt1 s9_lt2
  clear es9
  have hcols2 : s10_0 + (s10_1 + s10_2 * 2 ^ 32) * 2 ^ 32 = s4_1 + s4_2 * 2 ^ 32 + (l3 + l11 * 801750719 + l10 * 1076732275 + l9 * 1354194884 + l8 * 1162945305) := (reshape3 s10_0 s10_1 s10_2).trans (colsum5 s6_A s7_A s8_A s9_A s10_A)
  clear s6_A s7_A s8_A s9_A s10_A
  have cums2 := combine 128 cums1 hcols2 rfl
  clear cums1 hcols2
  refine extract_rule accSr s10_0 s10_1 s10_2 (by decide) (by decide) s10_c0 s10_c1 s10_c2 ?_
  intro es11 s11_Fx s11_o s11_c0 s11_c1 s11_c2
  have fs2_l_4 := transport s11_Fx Fs10 (by decide) (by decide) fs1_l_4
  have fs2_l_5 := transport s11_Fx Fs10 (by decide) (by decide) fs1_l_5
  have fs2_l_6 := transport s11_Fx Fs10 (by decide) (by decide) fs1_l_6
  have fs2_l_7 := transport s11_Fx Fs10 (by decide) (by decide) fs1_l_7
  have fs2_scalar_reduce_512_4_n0_0 := transport s11_Fx Fs10 (by decide) (by decide) fs1_scalar_reduce_512_4_n0_0
  have fs2_scalar_reduce_512_4_n1_0 := transport s11_Fx Fs10 (by decide) (by decide) fs1_scalar_reduce_512_4_n1_0
  have fs2_scalar_reduce_512_4_n2_0 := transport s11_Fx Fs10 (by decide) (by decide) fs1_scalar_reduce_512_4_n2_0
  have fs2_scalar_reduce_512_4_n3_0 := transport s11_Fx Fs10 (by decide) (by decide) fs1_scalar_reduce_512_4_n3_0
  have fs2_scalar_reduce_512_4_n4_0 := transport s11_Fx Fs10 (by decide) (by decide) fs1_scalar_reduce_512_4_n4_0
  have fs2_scalar_reduce_512_4_n5_0 := transport s11_Fx Fs10 (by decide) (by decide) fs1_scalar_reduce_512_4_n5_0
  have fs2_scalar_reduce_512_4_n6_0 := transport s11_Fx Fs10 (by decide) (by decide) fs1_scalar_reduce_512_4_n6_0
  have fs2_scalar_reduce_512_4_n7_0 := transport s11_Fx Fs10 (by decide) (by decide) fs1_scalar_reduce_512_4_n7_0
  have fs2_scalar_reduce_512_4_m0_0 := transport s11_Fx Fs10 (by decide) (by decide) fs1_scalar_reduce_512_4_m0_0
  have fs2_scalar_reduce_512_4_m1_0 := transport s11_Fx Fs10 (by decide) (by decide) fs1_scalar_reduce_512_4_m1_0
  have fs2_scalar_reduce_512_4_m2_0 := transport s11_Fx Fs10 (by decide) (by decide) s5_o
  have s11_B := extract_bound32 s10_B
  conv at s11_B => rhs; simp only [Nat.reducePow, Nat.reduceDiv]
  clear fs1_l_3 fs1_l_4 fs1_l_5 fs1_l_6 fs1_l_7 fs1_scalar_reduce_512_4_n0_0 fs1_scalar_reduce_512_4_n1_0 fs1_scalar_reduce_512_4_n2_0 fs1_scalar_reduce_512_4_n3_0 fs1_scalar_reduce_512_4_n4_0 fs1_scalar_reduce_512_4_n5_0 fs1_scalar_reduce_512_4_n6_0 fs1_scalar_reduce_512_4_n7_0 fs1_scalar_reduce_512_4_m0_0 fs1_scalar_reduce_512_4_m1_0 s5_o s10_c0 s10_c1 s10_c2 s10_B s11_Fx Fs10
  clear es10 es5
  refine sumadd_rule accSr "l" 4 s10_1 s10_2 0 l4 _ (by decide) (by decide) (Reads_idx _ _) (by decide) s11_c0 s11_c1 s11_c2 (transportF (Frame.refl accSr es11) (by decide) fs2_l_4) s10_lt1 s10_lt2 L4 s11_B (by decide) ?_
  intro es12 s12_0 s12_1 s12_2 s12_F s12_c0 s12_c1 s12_c2 s12_lt0 s12_lt1 s12_lt2 s12_A s12_B
  replace s12_A := s12_A.trans (z3_xy0 _ _ _)
  conv at s12_B => rhs; simp only [Nat.reducePow, Nat.reduceSub, Nat.reduceMul, Nat.reduceAdd]
  clear s11_c0 s11_c1 s11_c2 s11_B s10_lt1 s10_lt2
  refine muladd_rule accSr s12_0 s12_1 s12_2 l12 801750719 4294967295 801750719 _ (by decide) (by decide) s12_c0 s12_c1 s12_c2 (ev_var_of s12_F (by decide) fs2_scalar_reduce_512_4_n4_0) (ev_nc0 _) s12_lt0 s12_lt1 (le_of_lt32 L12) (Nat.le_refl _) (by decide) (by decide) s12_B (by decide) ?_
  intro es13 s13_0 s13_1 s13_2 s13_F s13_c0 s13_c1 s13_c2 s13_lt0 s13_lt1 s13_lt2 s13_A s13_B
  conv at s13_B => rhs; simp only [Nat.reducePow, Nat.reduceSub, Nat.reduceMul, Nat.reduceAdd]
  have Fs13 := s12_F.trans s13_F
  clear s12_F s13_F s12_c0 s12_c1 s12_c2 s12_B s12_lt0 s12_lt1 s12_lt2
  clear es12
  refine muladd_rule accSr s13_0 s13_1 s13_2 l11 1076732275 4294967295 1076732275 _ (by decide) (by decide) s13_c0 s13_c1 s13_c2 (ev_var_of Fs13 (by decide) fs2_scalar_reduce_512_4_n3_0) (ev_nc1 _) s13_lt0 s13_lt1 (le_of_lt32 L11) (Nat.le_refl _) (by decide) (by decide) s13_B (by decide) ?_
  intro es14 s14_0 s14_1 s14_2 s14_F s14_c0 s14_c1 s14_c2 s14_lt0 s14_lt1 s14_lt2 s14_A s14_B
  conv at s14_B => rhs; simp only [Nat.reducePow, Nat.reduceSub, Nat.reduceMul, Nat.reduceAdd]
  have Fs14 := Fs13.trans s14_F
  clear Fs13 s14_F s13_c0 s13_c1 s13_c2 s13_B s13_lt0 s13_lt1 s13_lt2
  clear es13
  refine muladd_rule accSr s14_0 s14_1 s14_2 l10 1354194884 4294967295 1354194884 _ (by decide) (by decide) s14_c0 s14_c1 s14_c2 (ev_var_of Fs14 (by decide) fs2_scalar_reduce_512_4_n2_0) (ev_nc2 _) s14_lt0 s14_lt1 (le_of_lt32 L10) (Nat.le_refl _) (by decide) (by decide) s14_B (by decide) ?_
  intro es15 s15_0 s15_1 s15_2 s15_F s15_c0 s15_c1 s15_c2 s15_lt0 s15_lt1 s15_lt2 s15_A s15_B
  conv at s15_B => rhs; simp only [Nat.reducePow, Nat.reduceSub, Nat.reduceMul, Nat.reduceAdd]
  have Fs15 := Fs14.trans s15_F
  clear Fs14 s15_F s14_c0 s14_c1 s14_c2 s14_B s14_lt0 s14_lt1 s14_lt2
  clear es14
  refine muladd_rule accSr s15_0 s15_1 s15_2 l9 1162945305 4294967295 1162945305 _ (by decide) (by decide) s15_c0 s15_c1 s15_c2 (ev_var_of Fs15 (by decide) fs2_scalar_reduce_512_4_n1_0) (ev_nc3 _) s15_lt0 s15_lt1 (le_of_lt32 L9) (Nat.le_refl _) (by decide) (by decide) s15_B (by decide) ?_
  intro es16 s16_0 s16_1 s16_2 s16_F s16_c0 s16_c1 s16_c2 s16_lt0 s16_lt1 s16_lt2 s16_A s16_B
  conv at s16_B => rhs; simp only [Nat.reducePow, Nat.reduceSub, Nat.reduceMul, Nat.reduceAdd]
  have Fs16 := Fs15.trans s16_F
  clear Fs15 s16_F s15_c0 s15_c1 s15_c2 s15_B s15_lt0 s15_lt1 s15_lt2
  clear es15
  refine sumadd_rule accSr "scalar_reduce_512_4.n0" 0 s16_0 s16_1 s16_2 l8 _ (by decide) (by decide) (Reads_var _) (by decide) s16_c0 s16_c1 s16_c2 (transportF Fs16 (by decide) fs2_scalar_reduce_512_4_n0_0) s16_lt0 s16_lt1 L8 s16_B (by decide) ?_
  intro es17 s17_0 s17_1 s17_2 s17_F s17_c0 s17_c1 s17_c2 s17_lt0 s17_lt1 s17_lt2 s17_A s17_B
  conv at s17_B => rhs; simp only [Nat.reducePow, Nat.reduceSub, Nat.reduceMul, Nat.reduceAdd]
  have Fs17 := Fs16.trans s17_F
  clear Fs16 s17_F s16_c0 s16_c1 s16_c2 s16_B s16_lt0 s16_lt1 s16_lt2
  clear es16
  have hcols3 : s17_0 + (s17_1 + s17_2 * 2 ^ 32) * 2 ^ 32 = s10_1 + s10_2 * 2 ^ 32 + (l4 + l12 * 801750719 + l11 * 1076732275 + l10 * 1354194884 + l9 * 1162945305 + l8) := (reshape3 s17_0 s17_1 s17_2).trans (colsum6 s12_A s13_A s14_A s15_A s16_A s17_A)
  clear s12_A s13_A s14_A s15_A s16_A s17_A
  have cums3 := combine 160 cums2 hcols3 rfl
  clear cums2 hcols3
  refine extract_rule accSr s17_0 s17_1 s17_2 (by decide) (by decide) s17_c0 s17_c1 s17_c2 ?_
  intro es18 s18_Fx s18_o s18_c0 s18_c1 s18_c2
  have fs3_l_5 := transport s18_Fx Fs17 (by decide) (by decide) fs2_l_5
  have fs3_l_6 := transport s18_Fx Fs17 (by decide) (by decide) fs2_l_6
  have fs3_l_7 := transport s18_Fx Fs17 (by decide) (by decide) fs2_l_7
  have fs3_scalar_reduce_512_4_n1_0 := transport s18_Fx Fs17 (by decide) (by decide) fs2_scalar_reduce_512_4_n1_0
  have fs3_scalar_reduce_512_4_n2_0 := transport s18_Fx Fs17 (by decide) (by decide) fs2_scalar_reduce_512_4_n2_0
  have fs3_scalar_reduce_512_4_n3_0 := transport s18_Fx Fs17 (by decide) (by decide) fs2_scalar_reduce_512_4_n3_0
  have fs3_scalar_reduce_512_4_n4_0 := transport s18_Fx Fs17 (by decide) (by decide) fs2_scalar_reduce_512_4_n4_0
  have fs3_scalar_reduce_512_4_n5_0 := transport s18_Fx Fs17 (by decide) (by decide) fs2_scalar_reduce_512_4_n5_0
  have fs3_scalar_reduce_512_4_n6_0 := transport s18_Fx Fs17 (by decide) (by decide) fs2_scalar_reduce_512_4_n6_0
  have fs3_scalar_reduce_512_4_n7_0 := transport s18_Fx Fs17 (by decide) (by decide) fs2_scalar_reduce_512_4_n7_0
  have fs3_scalar_reduce_512_4_m0_0 := transport s18_Fx Fs17 (by decide) (by decide) fs2_scalar_reduce_512_4_m0_0
  have fs3_scalar_reduce_512_4_m1_0 := transport s18_Fx Fs17 (by decide) (by decide) fs2_scalar_reduce_512_4_m1_0
  have fs3_scalar_reduce_512_4_m2_0 := transport s18_Fx Fs17 (by decide) (by decide) fs2_scalar_reduce_512_4_m2_0
  have fs3_scalar_reduce_512_4_m3_0 := transport s18_Fx Fs17 (by decide) (by decide) s11_o
  have s18_B := extract_bound32 s17_B
  conv at s18_B => rhs; simp only [Nat.reducePow, Nat.reduceDiv]
  clear fs2_l_4 fs2_l_5 fs2_l_6 fs2_l_7 fs2_scalar_reduce_512_4_n0_0 fs2_scalar_reduce_512_4_n1_0 fs2_scalar_reduce_512_4_n2_0 fs2_scalar_reduce_512_4_n3_0 fs2_scalar_reduce_512_4_n4_0 fs2_scalar_reduce_512_4_n5_0 fs2_scalar_reduce_512_4_n6_0 fs2_scalar_reduce_512_4_n7_0 fs2_scalar_reduce_512_4_m0_0 fs2_scalar_reduce_512_4_m1_0 fs2_scalar_reduce_512_4_m2_0 s11_o s17_c0 s17_c1 s17_c2 s17_B s18_Fx Fs17
  clear es17 es11
  exact scalar_mul_red_run_p2 es18 l0 l1 l2 l3 l4 l5 l6 l7 l8 l9 l10 l11 l12 l13 l14 l15 v v1_0 v1_1 s4_0 s10_0 s17_0 s17_1 s17_2 L0 L1 L2 L3 L4 L5 L6 L7 L8 L9 L10 L11 L12 L13 L14 L15 hv fs3_l_5 fs3_l_6 fs3_l_7 fs3_scalar_reduce_512_4_n1_0 fs3_scalar_reduce_512_4_n2_0 fs3_scalar_reduce_512_4_n3_0 fs3_scalar_reduce_512_4_n4_0 fs3_scalar_reduce_512_4_n5_0 fs3_scalar_reduce_512_4_n6_0 fs3_scalar_reduce_512_4_n7_0 fs3_scalar_reduce_512_4_m0_0 fs3_scalar_reduce_512_4_m1_0 fs3_scalar_reduce_512_4_m2_0 fs3_scalar_reduce_512_4_m3_0 s18_o L_v1_0 L_v1_1 s4_lt0 s10_lt0 s17_lt0 s17_lt1 s17_lt2 s18_c0 s18_c1 s18_c2 s18_B cums3

set_option maxRecDepth 100000 in
set_option maxHeartbeats 4000000 in
theorem scalar_mul_red_run (env : Env) (l0 l1 l2 l3 l4 l5 l6 l7 l8 l9 l10 l11 l12 l13 l14 l15 v : Nat)  (L0 : l0 < 2 ^ 32) (L1 : l1 < 2 ^ 32) (L2 : l2 < 2 ^ 32) (L3 : l3 < 2 ^ 32) (L4 : l4 < 2 ^ 32) (L5 : l5 < 2 ^ 32) (L6 : l6 < 2 ^ 32) (L7 : l7 < 2 ^ 32) (L8 : l8 < 2 ^ 32) (L9 : l9 < 2 ^ 32) (L10 : l10 < 2 ^ 32) (L11 : l11 < 2 ^ 32) (L12 : l12 < 2 ^ 32) (L13 : l13 < 2 ^ 32) (L14 : l14 < 2 ^ 32) (L15 : l15 < 2 ^ 32) (hv : val16x32 l0 l1 l2 l3 l4 l5 l6 l7 l8 l9 l10 l11 l12 l13 l14 l15 = v)
    (hl0 : env.get "l" 0 = l0) (hl1 : env.get "l" 1 = l1) (hl2 : env.get "l" 2 = l2) (hl3 : env.get "l" 3 = l3) (hl4 : env.get "l" 4 = l4) (hl5 : env.get "l" 5 = l5) (hl6 : env.get "l" 6 = l6) (hl7 : env.get "l" 7 = l7) (hl8 : env.get "l" 8 = l8) (hl9 : env.get "l" 9 = l9) (hl10 : env.get "l" 10 = l10) (hl11 : env.get "l" 11 = l11) (hl12 : env.get "l" 12 = l12) (hl13 : env.get "l" 13 = l13) (hl14 : env.get "l" 14 = l14) (hl15 : env.get "l" 15 = l15) :
    RedPost v (runR env (Gen.scalar8x32.scalar_mul.body.drop 508)) := by
  simp only [Gen.scalar8x32.scalar_mul, List.drop_succ_cons, List.drop_zero]
  refine assign_rule accSr l8 (ev_idx_of (Frame.refl accSr env) (by decide) hl8) ?_
  intro es1 s1_Fx s1_o
  have fs1_l_0 := transport s1_Fx (Frame.refl accSr env) (by decide) (by decide) hl0
  have fs1_l_1 := transport s1_Fx (Frame.refl accSr env) (by decide) (by decide) hl1
  have fs1_l_2 := transport s1_Fx (Frame.refl accSr env) (by decide) (by decide) hl2
  have fs1_l_3 := transport s1_Fx (Frame.refl accSr env) (by decide) (by decide) hl3
  have fs1_l_4 := transport s1_Fx (Frame.refl accSr env) (by decide) (by decide) hl4
  have fs1_l_5 := transport s1_Fx (Frame.refl accSr env) (by decide) (by decide) hl5
  have fs1_l_6 := transport s1_Fx (Frame.refl accSr env) (by decide) (by decide) hl6
  have fs1_l_7 := transport s1_Fx (Frame.refl accSr env) (by decide) (by decide) hl7
  have fs1_l_9 := transport s1_Fx (Frame.refl accSr env) (by decide) (by decide) hl9
  have fs1_l_10 := transport s1_Fx (Frame.refl accSr env) (by decide) (by decide) hl10
  have fs1_l_11 := transport s1_Fx (Frame.refl accSr env) (by decide) (by decide) hl11
  have fs1_l_12 := transport s1_Fx (Frame.refl accSr env) (by decide) (by decide) hl12
  have fs1_l_13 := transport s1_Fx (Frame.refl accSr env) (by decide) (by decide) hl13
  have fs1_l_14 := transport s1_Fx (Frame.refl accSr env) (by decide) (by decide) hl14
  have fs1_l_15 := transport s1_Fx (Frame.refl accSr env) (by decide) (by decide) hl15
  clear hl0 hl1 hl2 hl3 hl4 hl5 hl6 hl7 hl8 hl9 hl10 hl11 hl12 hl13 hl14 hl15 s1_Fx
  clear env
  refine assign_rule accSr l9 (ev_idx_of (Frame.refl accSr es1) (by decide) fs1_l_9) ?_
  intro es2 s2_Fx s2_o
  have fs2_l_0 := transport s2_Fx (Frame.refl accSr es1) (by decide) (by decide) fs1_l_0
  have fs2_l_1 := transport s2_Fx (Frame.refl accSr es1) (by decide) (by decide) fs1_l_1
  have fs2_l_2 := transport s2_Fx (Frame.refl accSr es1) (by decide) (by decide) fs1_l_2
  have fs2_l_3 := transport s2_Fx (Frame.refl accSr es1) (by decide) (by decide) fs1_l_3
  have fs2_l_4 := transport s2_Fx (Frame.refl accSr es1) (by decide) (by decide) fs1_l_4
  have fs2_l_5 := transport s2_Fx (Frame.refl accSr es1) (by decide) (by decide) fs1_l_5
  have fs2_l_6 := transport s2_Fx (Frame.refl accSr es1) (by decide) (by decide) fs1_l_6
  have fs2_l_7 := transport s2_Fx (Frame.refl accSr es1) (by decide) (by decide) fs1_l_7
  have fs2_l_10 := transport s2_Fx (Frame.refl accSr es1) (by decide) (by decide) fs1_l_10
  have fs2_l_11 := transport s2_Fx (Frame.refl accSr es1) (by decide) (by decide) fs1_l_11
  have fs2_l_12 := transport s2_Fx (Frame.refl accSr es1) (by decide) (by decide) fs1_l_12
  have fs2_l_13 := transport s2_Fx (Frame.refl accSr es1) (by decide) (by decide) fs1_l_13
  have fs2_l_14 := transport s2_Fx (Frame.refl accSr es1) (by decide) (by decide) fs1_l_14
  have fs2_l_15 := transport s2_Fx (Frame.refl accSr es1) (by decide) (by decide) fs1_l_15
  have fs2_scalar_reduce_512_4_n0_0 := transport s2_Fx (Frame.refl accSr es1) (by decide) (by decide) s1_o
  clear fs1_l_0 fs1_l_1 fs1_l_2 fs1_l_3 fs1_l_4 fs1_l_5 fs1_l_6 fs1_l_7 fs1_l_9 fs1_l_10 fs1_l_11 fs1_l_12 fs1_l_13 fs1_l_14 fs1_l_15 s1_o s2_Fx
  clear es1
  refine assign_rule accSr l10 (ev_idx_of (Frame.refl accSr es2) (by decide) fs2_l_10) ?_
  intro es3 s3_Fx s3_o
  have fs3_l_0 := transport s3_Fx (Frame.refl accSr es2) (by decide) (by decide) fs2_l_0
  have fs3_l_1 := transport s3_Fx (Frame.refl accSr es2) (by decide) (by decide) fs2_l_1
  have fs3_l_2 := transport s3_Fx (Frame.refl accSr es2) (by decide) (by decide) fs2_l_2
  have fs3_l_3 := transport s3_Fx (Frame.refl accSr es2) (by decide) (by decide) fs2_l_3
  have fs3_l_4 := transport s3_Fx (Frame.refl accSr es2) (by decide) (by decide) fs2_l_4
  have fs3_l_5 := transport s3_Fx (Frame.refl accSr es2) (by decide) (by decide) fs2_l_5
  have fs3_l_6 := transport s3_Fx (Frame.refl accSr es2) (by decide) (by decide) fs2_l_6
  have fs3_l_7 := transport s3_Fx (Frame.refl accSr es2) (by decide) (by decide) fs2_l_7
  have fs3_l_11 := transport s3_Fx (Frame.refl accSr es2) (by decide) (by decide) fs2_l_11
  have fs3_l_12 := transport s3_Fx (Frame.refl accSr es2) (by decide) (by decide) fs2_l_12
  have fs3_l_13 := transport s3_Fx (Frame.refl accSr es2) (by decide) (by decide) fs2_l_13
  have fs3_l_14 := transport s3_Fx (Frame.refl accSr es2) (by decide) (by decide) fs2_l_14
  have fs3_l_15 := transport s3_Fx (Frame.refl accSr es2) (by decide) (by decide) fs2_l_15
  have fs3_scalar_reduce_512_4_n0_0 := transport s3_Fx (Frame.refl accSr es2) (by decide) (by decide) fs2_scalar_reduce_512_4_n0_0
  have fs3_scalar_reduce_512_4_n1_0 := transport s3_Fx (Frame.refl accSr es2) (by decide) (by decide) s2_o
  clear fs2_l_0 fs2_l_1 fs2_l_2 fs2_l_3 fs2_l_4 fs2_l_5 fs2_l_6 fs2_l_7 fs2_l_10 fs2_l_11 fs2_l_12 fs2_l_13 fs2_l_14 fs2_l_15 fs2_scalar_reduce_512_4_n0_0 s2_o s3_Fx
  clear es2
  refine assign_rule accSr l11 (ev_idx_of (Frame.refl accSr es3) (by decide) fs3_l_11) ?_
  intro es4 s4_Fx s4_o
  have fs4_l_0 := transport s4_Fx (Frame.refl accSr es3) (by decide) (by decide) fs3_l_0
  have fs4_l_1 := transport s4_Fx (Frame.refl accSr es3) (by decide) (by decide) fs3_l_1
  have fs4_l_2 := transport s4_Fx (Frame.refl accSr es3) (by decide) (by decide) fs3_l_2
  have fs4_l_3 := transport s4_Fx (Frame.refl accSr es3) (by decide) (by decide) fs3_l_3
  have fs4_l_4 := transport s4_Fx (Frame.refl accSr es3) (by decide) (by decide) fs3_l_4
  have fs4_l_5 := transport s4_Fx (Frame.refl accSr es3) (by decide) (by decide) fs3_l_5
  have fs4_l_6 := transport s4_Fx (Frame.refl accSr es3) (by decide) (by decide) fs3_l_6
  have fs4_l_7 := transport s4_Fx (Frame.refl accSr es3) (by decide) (by decide) fs3_l_7
  have fs4_l_12 := transport s4_Fx (Frame.refl accSr es3) (by decide) (by decide) fs3_l_12
  have fs4_l_13 := transport s4_Fx (Frame.refl accSr es3) (by decide) (by decide) fs3_l_13
  have fs4_l_14 := transport s4_Fx (Frame.refl accSr es3) (by decide) (by decide) fs3_l_14
  have fs4_l_15 := transport s4_Fx (Frame.refl accSr es3) (by decide) (by decide) fs3_l_15
  have fs4_scalar_reduce_512_4_n0_0 := transport s4_Fx (Frame.refl accSr es3) (by decide) (by decide) fs3_scalar_reduce_512_4_n0_0
  have fs4_scalar_reduce_512_4_n1_0 := transport s4_Fx (Frame.refl accSr es3) (by decide) (by decide) fs3_scalar_reduce_512_4_n1_0
  have fs4_scalar_reduce_512_4_n2_0 := transport s4_Fx (Frame.refl accSr es3) (by decide) (by decide) s3_o
  clear fs3_l_0 fs3_l_1 fs3_l_2 fs3_l_3 fs3_l_4 fs3_l_5 fs3_l_6 fs3_l_7 fs3_l_11 fs3_l_12 fs3_l_13 fs3_l_14 fs3_l_15 fs3_scalar_reduce_512_4_n0_0 fs3_scalar_reduce_512_4_n1_0 s3_o s4_Fx
  clear es3
  refine assign_rule accSr l12 (ev_idx_of (Frame.refl accSr es4) (by decide) fs4_l_12) ?_
  intro es5 s5_Fx s5_o
  have fs5_l_0 := transport s5_Fx (Frame.refl accSr es4) (by decide) (by decide) fs4_l_0
  have fs5_l_1 := transport s5_Fx (Frame.refl accSr es4) (by decide) (by decide) fs4_l_1
  have fs5_l_2 := transport s5_Fx (Frame.refl accSr es4) (by decide) (by decide) fs4_l_2
  have fs5_l_3 := transport s5_Fx (Frame.refl accSr es4) (by decide) (by decide) fs4_l_3
  have fs5_l_4 := transport s5_Fx (Frame.refl accSr es4) (by decide) (by decide) fs4_l_4
  have fs5_l_5 := transport s5_Fx (Frame.refl accSr es4) (by decide) (by decide) fs4_l_5
  have fs5_l_6 := transport s5_Fx (Frame.refl accSr es4) (by decide) (by decide) fs4_l_6
  have fs5_l_7 := transport s5_Fx (Frame.refl accSr es4) (by decide) (by decide) fs4_l_7
  have fs5_l_13 := transport s5_Fx (Frame.refl accSr es4) (by decide) (by decide) fs4_l_13
  have fs5_l_14 := transport s5_Fx (Frame.refl accSr es4) (by decide) (by decide) fs4_l_14
  have fs5_l_15 := transport s5_Fx (Frame.refl accSr es4) (by decide) (by decide) fs4_l_15
  have fs5_scalar_reduce_512_4_n0_0 := transport s5_Fx (Frame.refl accSr es4) (by decide) (by decide) fs4_scalar_reduce_512_4_n0_0
  have fs5_scalar_reduce_512_4_n1_0 := transport s5_Fx (Frame.refl accSr es4) (by decide) (by decide) fs4_scalar_reduce_512_4_n1_0
  have fs5_scalar_reduce_512_4_n2_0 := transport s5_Fx (Frame.refl accSr es4) (by decide) (by decide) fs4_scalar_reduce_512_4_n2_0
  have fs5_scalar_reduce_512_4_n3_0 := transport s5_Fx (Frame.refl accSr es4) (by decide) (by decide) s4_o
  clear fs4_l_0 fs4_l_1 fs4_l_2 fs4_l_3 fs4_l_4 fs4_l_5 fs4_l_6 fs4_l_7 fs4_l_12 fs4_l_13 fs4_l_14 fs4_l_15 fs4_scalar_reduce_512_4_n0_0 fs4_scalar_reduce_512_4_n1_0 fs4_scalar_reduce_512_4_n2_0 s4_o s5_Fx
  clear es4
  refine assign_rule accSr l13 (ev_idx_of (Frame.refl accSr es5) (by decide) fs5_l_13) ?_
  intro es6 s6_Fx s6_o
  have fs6_l_0 := transport s6_Fx (Frame.refl accSr es5) (by decide) (by decide) fs5_l_0
  have fs6_l_1 := transport s6_Fx (Frame.refl accSr es5) (by decide) (by decide) fs5_l_1
  have fs6_l_2 := transport s6_Fx (Frame.refl accSr es5) (by decide) (by decide) fs5_l_2
  have fs6_l_3 := transport s6_Fx (Frame.refl accSr es5) (by decide) (by decide) fs5_l_3
  have fs6_l_4 := transport s6_Fx (Frame.refl accSr es5) (by decide) (by decide) fs5_l_4
  have fs6_l_5 := transport s6_Fx (Frame.refl accSr es5) (by decide) (by decide) fs5_l_5
  have fs6_l_6 := transport s6_Fx (Frame.refl accSr es5) (by decide) (by decide) fs5_l_6
  have fs6_l_7 := transport s6_Fx (Frame.refl accSr es5) (by decide) (by decide) fs5_l_7
  have fs6_l_14 := transport s6_Fx (Frame.refl accSr es5) (by decide) (by decide) fs5_l_14
  have fs6_l_15 := transport s6_Fx (Frame.refl accSr es5) (by decide) (by decide) fs5_l_15
  have fs6_scalar_reduce_512_4_n0_0 := transport s6_Fx (Frame.refl accSr es5) (by decide) (by decide) fs5_scalar_reduce_512_4_n0_0
  have fs6_scalar_reduce_512_4_n1_0 := transport s6_Fx (Frame.refl accSr es5) (by decide) (by decide) fs5_scalar_reduce_512_4_n1_0
  have fs6_scalar_reduce_512_4_n2_0 := transport s6_Fx (Frame.refl accSr es5) (by decide) (by decide) fs5_scalar_reduce_512_4_n2_0
  have fs6_scalar_reduce_512_4_n3_0 := transport s6_Fx (Frame.refl accSr es5) (by decide) (by decide) fs5_scalar_reduce_512_4_n3_0
  have fs6_scalar_reduce_512_4_n4_0 := transport s6_Fx (Frame.refl accSr es5) (by decide) (by decide) s5_o
  clear fs5_l_0 fs5_l_1 fs5_l_2 fs5_l_3 fs5_l_4 fs5_l_5 fs5_l_6 fs5_l_7 fs5_l_13 fs5_l_14 fs5_l_15 fs5_scalar_reduce_512_4_n0_0 fs5_scalar_reduce_512_4_n1_0 fs5_scalar_reduce_512_4_n2_0 fs5_scalar_reduce_512_4_n3_0 s5_o s6_Fx
  clear es5
  refine assign_rule accSr l14 (ev_idx_of (Frame.refl accSr es6) (by decide) fs6_l_14) ?_
  intro es7 s7_Fx s7_o
  have fs7_l_0 := transport s7_Fx (Frame.refl accSr es6) (by decide) (by decide) fs6_l_0
  have fs7_l_1 := transport s7_Fx (Frame.refl accSr es6) (by decide) (by decide) fs6_l_1
  have fs7_l_2 := transport s7_Fx (Frame.refl accSr es6) (by decide) (by decide) fs6_l_2
  have fs7_l_3 := transport s7_Fx (Frame.refl accSr es6) (by decide) (by decide) fs6_l_3
  have fs7_l_4 := transport s7_Fx (Frame.refl accSr es6) (by decide) (by decide) fs6_l_4
  have fs7_l_5 := transport s7_Fx (Frame.refl accSr es6) (by decide) (by decide) fs6_l_5
  have fs7_l_6 := transport s7_Fx (Frame.refl accSr es6) (by decide) (by decide) fs6_l_6
  have fs7_l_7 := transport s7_Fx (Frame.refl accSr es6) (by decide) (by decide) fs6_l_7
  have fs7_l_15 := transport s7_Fx (Frame.refl accSr es6) (by decide) (by decide) fs6_l_15
  have fs7_scalar_reduce_512_4_n0_0 := transport s7_Fx (Frame.refl accSr es6) (by decide) (by decide) fs6_scalar_reduce_512_4_n0_0
  have fs7_scalar_reduce_512_4_n1_0 := transport s7_Fx (Frame.refl accSr es6) (by decide) (by decide) fs6_scalar_reduce_512_4_n1_0
  have fs7_scalar_reduce_512_4_n2_0 := transport s7_Fx (Frame.refl accSr es6) (by decide) (by decide) fs6_scalar_reduce_512_4_n2_0
  have fs7_scalar_reduce_512_4_n3_0 := transport s7_Fx (Frame.refl accSr es6) (by decide) (by decide) fs6_scalar_reduce_512_4_n3_0
  have fs7_scalar_reduce_512_4_n4_0 := transport s7_Fx (Frame.refl accSr es6) (by decide) (by decide) fs6_scalar_reduce_512_4_n4_0
  have fs7_scalar_reduce_512_4_n5_0 := transport s7_Fx (Frame.refl accSr es6) (by decide) (by decide) s6_o
  clear fs6_l_0 fs6_l_1 fs6_l_2 fs6_l_3 fs6_l_4 fs6_l_5 fs6_l_6 fs6_l_7 fs6_l_14 fs6_l_15 fs6_scalar_reduce_512_4_n0_0 fs6_scalar_reduce_512_4_n1_0 fs6_scalar_reduce_512_4_n2_0 fs6_scalar_reduce_512_4_n3_0 fs6_scalar_reduce_512_4_n4_0 s6_o s7_Fx
  clear es6
  refine assign_rule accSr l15 (ev_idx_of (Frame.refl accSr es7) (by decide) fs7_l_15) ?_
  intro es8 s8_Fx s8_o
  have fs8_l_0 := transport s8_Fx (Frame.refl accSr es7) (by decide) (by decide) fs7_l_0
  have fs8_l_1 := transport s8_Fx (Frame.refl accSr es7) (by decide) (by decide) fs7_l_1
  have fs8_l_2 := transport s8_Fx (Frame.refl accSr es7) (by decide) (by decide) fs7_l_2
  have fs8_l_3 := transport s8_Fx (Frame.refl accSr es7) (by decide) (by decide) fs7_l_3
  have fs8_l_4 := transport s8_Fx (Frame.refl accSr es7) (by decide) (by decide) fs7_l_4
  have fs8_l_5 := transport s8_Fx (Frame.refl accSr es7) (by decide) (by decide) fs7_l_5
  have fs8_l_6 := transport s8_Fx (Frame.refl accSr es7) (by decide) (by decide) fs7_l_6
  have fs8_l_7 := transport s8_Fx (Frame.refl accSr es7) (by decide) (by decide) fs7_l_7
  have fs8_scalar_reduce_512_4_n0_0 := transport s8_Fx (Frame.refl accSr es7) (by decide) (by decide) fs7_scalar_reduce_512_4_n0_0
  have fs8_scalar_reduce_512_4_n1_0 := transport s8_Fx (Frame.refl accSr es7) (by decide) (by decide) fs7_scalar_reduce_512_4_n1_0
  have fs8_scalar_reduce_512_4_n2_0 := transport s8_Fx (Frame.refl accSr es7) (by decide) (by decide) fs7_scalar_reduce_512_4_n2_0
  have fs8_scalar_reduce_512_4_n3_0 := transport s8_Fx (Frame.refl accSr es7) (by decide) (by decide) fs7_scalar_reduce_512_4_n3_0
  have fs8_scalar_reduce_512_4_n4_0 := transport s8_Fx (Frame.refl accSr es7) (by decide) (by decide) fs7_scalar_reduce_512_4_n4_0
  have fs8_scalar_reduce_512_4_n5_0 := transport s8_Fx (Frame.refl accSr es7) (by decide) (by decide) fs7_scalar_reduce_512_4_n5_0
  have fs8_scalar_reduce_512_4_n6_0 := transport s8_Fx (Frame.refl accSr es7) (by decide) (by decide) s7_o
  clear fs7_l_0 fs7_l_1 fs7_l_2 fs7_l_3 fs7_l_4 fs7_l_5 fs7_l_6 fs7_l_7 fs7_l_15 fs7_scalar_reduce_512_4_n0_0 fs7_scalar_reduce_512_4_n1_0 fs7_scalar_reduce_512_4_n2_0 fs7_scalar_reduce_512_4_n3_0 fs7_scalar_reduce_512_4_n4_0 fs7_scalar_reduce_512_4_n5_0 s7_o s8_Fx
  clear es7
  refine init_rule accSr l0 (by decide) (by decide) (ev_idx_of (Frame.refl accSr es8) (by decide) fs8_l_0) ?_
  intro es9 s9_F s9_c0 s9_c1 s9_c2
  have s9_B := init_bound32 L0
  refine muladd_fast_rule accSr "scalar_reduce_512_4.c2" l0 0 0 l8 801750719 4294967295 801750719 _ (by decide) (by decide) s9_c0 s9_c1 s9_c2 (ev_var_of s9_F (by decide) fs8_scalar_reduce_512_4_n0_0) (ev_nc0 _) L0 zero_lt32 (le_of_lt32 L8) (Nat.le_refl _) (by decide) (by decide) s9_B (by decide) ?_
  intro es10 s10_0 s10_1 s10_F s10_c0 s10_c1 s10_c2 s10_lt0 s10_lt1 s10_A s10_B
  replace s10_A := s10_A.trans (z2_x0 _ _)
  conv at s10_B => rhs; simp only [Nat.reducePow, Nat.reduceSub, Nat.reduceMul, Nat.reduceAdd]
  have Fs10 := s9_F.trans s10_F
  clear s9_F s10_F s9_c0 s9_c1 s9_c2 s9_B
  clear es9
  have hcols1 : s10_0 + s10_1 * 2 ^ 32 = l0 + (l8 * 801750719) := colsum1 s10_A
  clear s10_A
  have cums1 := hcols1
  clear hcols1
  refine extract_fast_rule accSr "scalar_reduce_512_4.c2" s10_0 s10_1 0 (by decide) (by decide) s10_c0 s10_c1 s10_c2 ?_
  intro es11 s11_Fx s11_o s11_c0 s11_c1 s11_c2
  have fs9_l_1 := transport s11_Fx Fs10 (by decide) (by decide) fs8_l_1
  have fs9_l_2 := transport s11_Fx Fs10 (by decide) (by decide) fs8_l_2
  have fs9_l_3 := transport s11_Fx Fs10 (by decide) (by decide) fs8_l_3
  have fs9_l_4 := transport s11_Fx Fs10 (by decide) (by decide) fs8_l_4
  have fs9_l_5 := transport s11_Fx Fs10 (by decide) (by decide) fs8_l_5
  have fs9_l_6 := transport s11_Fx Fs10 (by decide) (by decide) fs8_l_6
  have fs9_l_7 := transport s11_Fx Fs10 (by decide) (by decide) fs8_l_7
  have fs9_scalar_reduce_512_4_n0_0 := transport s11_Fx Fs10 (by decide) (by decide) fs8_scalar_reduce_512_4_n0_0
  have fs9_scalar_reduce_512_4_n1_0 := transport s11_Fx Fs10 (by decide) (by decide) fs8_scalar_reduce_512_4_n1_0
  have fs9_scalar_reduce_512_4_n2_0 := transport s11_Fx Fs10 (by decide) (by decide) fs8_scalar_reduce_512_4_n2_0
  have fs9_scalar_reduce_512_4_n3_0 := transport s11_Fx Fs10 (by decide) (by decide) fs8_scalar_reduce_512_4_n3_0
  have fs9_scalar_reduce_512_4_n4_0 := transport s11_Fx Fs10 (by decide) (by decide) fs8_scalar_reduce_512_4_n4_0
  have fs9_scalar_reduce_512_4_n5_0 := transport s11_Fx Fs10 (by decide) (by decide) fs8_scalar_reduce_512_4_n5_0
  have fs9_scalar_reduce_512_4_n6_0 := transport s11_Fx Fs10 (by decide) (by decide) fs8_scalar_reduce_512_4_n6_0
  have fs9_scalar_reduce_512_4_n7_0 := transport s11_Fx Fs10 (by decide) (by decide) s8_o
  have s11_B := extract_bound32' s10_B
  conv at s11_B => rhs; simp only [Nat.reducePow, Nat.reduceDiv]
  clear fs8_l_0 fs8_l_1 fs8_l_2 fs8_l_3 fs8_l_4 fs8_l_5 fs8_l_6 fs8_l_7 fs8_scalar_reduce_512_4_n0_0 fs8_scalar_reduce_512_4_n1_0 fs8_scalar_reduce_512_4_n2_0 fs8_scalar_reduce_512_4_n3_0 fs8_scalar_reduce_512_4_n4_0 fs8_scalar_reduce_512_4_n5_0 fs8_scalar_reduce_512_4_n6_0 s8_o s10_c0 s10_c1 s10_c2 s10_B s11_Fx Fs10
  clear es10 es8
  refine sumadd_fast_rule accSr "scalar_reduce_512_4.c2" "l" 1 s10_1 0 0 l1 _ (by decide) (by decide) (Reads_idx _ _) (by decide) s11_c0 s11_c1 s11_c2 (transportF (Frame.refl accSr es11) (by decide) fs9_l_1) s10_lt1 zero_lt32 L1 s11_B (by decide) ?_
  intro es12 s12_0 s12_1 s12_F s12_c0 s12_c1 s12_c2 s12_lt0 s12_lt1 s12_A s12_B
  replace s12_A := s12_A.trans (z2_x0 _ _)
  conv at s12_B => rhs; simp only [Nat.reducePow, Nat.reduceSub, Nat.reduceMul, Nat.reduceAdd]
  clear s11_c0 s11_c1 s11_c2 s11_B s10_lt1
  refine muladd_rule accSr s12_0 s12_1 0 l9 801750719 4294967295 801750719 _ (by decide) (by decide) s12_c0 s12_c1 s12_c2 (ev_var_of s12_F (by decide) fs9_scalar_reduce_512_4_n1_0) (ev_nc0 _) s12_lt0 s12_lt1 (le_of_lt32 L9) (Nat.le_refl _) (by decide) (by decide) (acc_zero2 s12_B) (by decide) ?_
  intro es13 s13_0 s13_1 s13_2 s13_F s13_c0 s13_c1 s13_c2 s13_lt0 s13_lt1 s13_lt2 s13_A s13_B
  replace s13_A := s13_A.trans (z3_xy0 _ _ _)
  conv at s13_B => rhs; simp only [Nat.reducePow, Nat.reduceSub, Nat.reduceMul, Nat.reduceAdd]
  have Fs13 := s12_F.trans s13_F
  clear s12_F s13_F s12_c0 s12_c1 s12_c2 s12_B s12_lt0 s12_lt1
  clear es12
  refine muladd_rule accSr s13_0 s13_1 s13_2 l8 1076732275 4294967295 1076732275 _ (by decide) (by decide) s13_c0 s13_c1 s13_c2 (ev_var_of Fs13 (by decide) fs9_scalar_reduce_512_4_n0_0) (ev_nc1 _) s13_lt0 s13_lt1 (le_of_lt32 L8) (Nat.le_refl _) (by decide) (by decide) s13_B (by decide) ?_
  intro es14 s14_0 s14_1 s14_2 s14_F s14_c0 s14_c1 s14_c2 s14_lt0 s14_lt1 s14_lt2 s14_A s14_B
  conv at s14_B => rhs; simp only [Nat.reducePow, Nat.reduceSub, Nat.reduceMul, Nat.reduceAdd]
  have Fs14 := Fs13.trans s14_F
  clear Fs13 s14_F s13_c0 s13_c1 s13_c2 s13_B s13_lt0 s13_lt1 s13_lt2
  clear es13
  have hcols2 : s14_0 + (s14_1 + s14_2 * 2 ^ 32) * 2 ^ 32 = s10_1 + (l1 + l9 * 801750719 + l8 * 1076732275) := (reshape3 s14_0 s14_1 s14_2).trans (colsum3 s12_A s13_A s14_A)
  clear s12_A s13_A s14_A
  have cums2 := combine 64 cums1 hcols2 rfl
  clear cums1 hcols2
  refine extract_rule accSr s14_0 s14_1 s14_2 (by decide) (by decide) s14_c0 s14_c1 s14_c2 ?_
  intro es15 s15_Fx s15_o s15_c0 s15_c1 s15_c2
  have fs10_l_2 := transport s15_Fx Fs14 (by decide) (by decide) fs9_l_2
  have fs10_l_3 := transport s15_Fx Fs14 (by decide) (by decide) fs9_l_3
  have fs10_l_4 := transport s15_Fx Fs14 (by decide) (by decide) fs9_l_4
  have fs10_l_5 := transport s15_Fx Fs14 (by decide) (by decide) fs9_l_5
  have fs10_l_6 := transport s15_Fx Fs14 (by decide) (by decide) fs9_l_6
  have fs10_l_7 := transport s15_Fx Fs14 (by decide) (by decide) fs9_l_7
  have fs10_scalar_reduce_512_4_n0_0 := transport s15_Fx Fs14 (by decide) (by decide) fs9_scalar_reduce_512_4_n0_0
  have fs10_scalar_reduce_512_4_n1_0 := transport s15_Fx Fs14 (by decide) (by decide) fs9_scalar_reduce_512_4_n1_0
  have fs10_scalar_reduce_512_4_n2_0 := transport s15_Fx Fs14 (by decide) (by decide) fs9_scalar_reduce_512_4_n2_0
  have fs10_scalar_reduce_512_4_n3_0 := transport s15_Fx Fs14 (by decide) (by decide) fs9_scalar_reduce_512_4_n3_0
  have fs10_scalar_reduce_512_4_n4_0 := transport s15_Fx Fs14 (by decide) (by decide) fs9_scalar_reduce_512_4_n4_0
  have fs10_scalar_reduce_512_4_n5_0 := transport s15_Fx Fs14 (by decide) (by decide) fs9_scalar_reduce_512_4_n5_0
  have fs10_scalar_reduce_512_4_n6_0 := transport s15_Fx Fs14 (by decide) (by decide) fs9_scalar_reduce_512_4_n6_0
  have fs10_scalar_reduce_512_4_n7_0 := transport s15_Fx Fs14 (by decide) (by decide) fs9_scalar_reduce_512_4_n7_0
  have fs10_scalar_reduce_512_4_m0_0 := transport s15_Fx Fs14 (by decide) (by decide) s11_o
  have s15_B := extract_bound32 s14_B
  conv at s15_B => rhs; simp only [Nat.reducePow, Nat.reduceDiv]
  clear fs9_l_1 fs9_l_2 fs9_l_3 fs9_l_4 fs9_l_5 fs9_l_6 fs9_l_7 fs9_scalar_reduce_512_4_n0_0 fs9_scalar_reduce_512_4_n1_0 fs9_scalar_reduce_512_4_n2_0 fs9_scalar_reduce_512_4_n3_0 fs9_scalar_reduce_512_4_n4_0 fs9_scalar_reduce_512_4_n5_0 fs9_scalar_reduce_512_4_n6_0 fs9_scalar_reduce_512_4_n7_0 s11_o s14_c0 s14_c1 s14_c2 s14_B s15_Fx Fs14
  clear es14 es11
  exact scalar_mul_red_run_p1 es15 l0 l1 l2 l3 l4 l5 l6 l7 l8 l9 l10 l11 l12 l13 l14 l15 v s10_0 s14_0 s14_1 s14_2 L0 L1 L2 L3 L4 L5 L6 L7 L8 L9 L10 L11 L12 L13 L14 L15 hv fs10_l_2 fs10_l_3 fs10_l_4 fs10_l_5 fs10_l_6 fs10_l_7 fs10_scalar_reduce_512_4_n0_0 fs10_scalar_reduce_512_4_n1_0 fs10_scalar_reduce_512_4_n2_0 fs10_scalar_reduce_512_4_n3_0 fs10_scalar_reduce_512_4_n4_0 fs10_scalar_reduce_512_4_n5_0 fs10_scalar_reduce_512_4_n6_0 fs10_scalar_reduce_512_4_n7_0 fs10_scalar_reduce_512_4_m0_0 s15_o s10_lt0 s14_lt0 s14_lt1 s14_lt2 s15_c0 s15_c1 s15_c2 s15_B cums2

set_option maxRecDepth 100000 in
set_option maxHeartbeats 4000000 in
theorem scalar_mul_run_p5 (env : Env) (a0 a1 a2 a3 a4 a5 a6 a7 b0 b1 b2 b3 b4 b5 b6 b7 : Nat) (v5_0 v5_1 v5_2 v5_3 v5_4 v5_5 v5_6 v5_7 v5_8 v5_9 v5_10 v5_11 v5_12 v5_13 v5_14 : Nat) (A0 : a0 < 2 ^ 32) (A1 : a1 < 2 ^ 32) (A2 : a2 < 2 ^ 32) (A3 : a3 < 2 ^ 32) (A4 : a4 < 2 ^ 32) (A5 : a5 < 2 ^ 32) (A6 : a6 < 2 ^ 32) (A7 : a7 < 2 ^ 32) (B0 : b0 < 2 ^ 32) (B1 : b1 < 2 ^ 32) (B2 : b2 < 2 ^ 32) (B3 : b3 < 2 ^ 32) (B4 : b4 < 2 ^ 32) (B5 : b5 < 2 ^ 32) (B6 : b6 < 2 ^ 32) (B7 : b7 < 2 ^ 32) 
    (h_a_d_6 : env.get "a.d" 6 = a6)
    (h_b_d_6 : env.get "b.d" 6 = b6)
    (h_a_d_7 : env.get "a.d" 7 = a7)
    (h_b_d_7 : env.get "b.d" 7 = b7)
    (h_l_0 : env.get "l" 0 = v5_0)
    (h_l_1 : env.get "l" 1 = v5_1)
    (h_l_2 : env.get "l" 2 = v5_2)
    (h_l_3 : env.get "l" 3 = v5_3)
    (h_l_4 : env.get "l" 4 = v5_4)
    (h_l_5 : env.get "l" 5 = v5_5)
    (h_l_6 : env.get "l" 6 = v5_6)
    (h_l_7 : env.get "l" 7 = v5_7)
    (h_l_8 : env.get "l" 8 = v5_8)
    (h_l_9 : env.get "l" 9 = v5_9)
    (h_l_10 : env.get "l" 10 = v5_10)
    (h_l_11 : env.get "l" 11 = v5_11)
    (h_l_12 : env.get "l" 12 = v5_12)
    (L_v5_0 : v5_0 < 2 ^ 32)
    (L_v5_1 : v5_1 < 2 ^ 32)
    (L_v5_2 : v5_2 < 2 ^ 32)
    (L_v5_3 : v5_3 < 2 ^ 32)
    (L_v5_4 : v5_4 < 2 ^ 32)
    (L_v5_5 : v5_5 < 2 ^ 32)
    (L_v5_6 : v5_6 < 2 ^ 32)
    (L_v5_7 : v5_7 < 2 ^ 32)
    (L_v5_8 : v5_8 < 2 ^ 32)
    (L_v5_9 : v5_9 < 2 ^ 32)
    (L_v5_10 : v5_10 < 2 ^ 32)
    (L_v5_11 : v5_11 < 2 ^ 32)
    (L_v5_12 : v5_12 < 2 ^ 32)
    (L_v5_13 : v5_13 < 2 ^ 32)
    (L_v5_14 : v5_14 < 2 ^ 32)
    (hc0 : env.get "scalar_mul_512_3.c0" 0 = v5_13)
    (hc1 : env.get "scalar_mul_512_3.c1" 0 = v5_14)
    (hc2 : env.get "scalar_mul_512_3.c2" 0 = 0)
    (hB : v5_13 + v5_14 * 2 ^ 32 + 0 * 2 ^ 64 ≤ 12884901885)
    (hcum : v5_0 + v5_1 * 2 ^ 32 + v5_2 * 2 ^ 64 + v5_3 * 2 ^ 96 + v5_4 * 2 ^ 128 + v5_5 * 2 ^ 160 + v5_6 * 2 ^ 192 + v5_7 * 2 ^ 224 + v5_8 * 2 ^ 256 + v5_9 * 2 ^ 288 + v5_10 * 2 ^ 320 + v5_11 * 2 ^ 352 + v5_12 * 2 ^ 384 + (v5_13 + v5_14 * 2 ^ 32) * 2 ^ 416 = (a0 * b0) + (a0 * b1 + a1 * b0) * 2 ^ 32 + (a0 * b2 + a1 * b1 + a2 * b0) * 2 ^ 64 + (a0 * b3 + a1 * b2 + a2 * b1 + a3 * b0) * 2 ^ 96 + (a0 * b4 + a1 * b3 + a2 * b2 + a3 * b1 + a4 * b0) * 2 ^ 128 + (a0 * b5 + a1 * b4 + a2 * b3 + a3 * b2 + a4 * b1 + a5 * b0) * 2 ^ 160 + (a0 * b6 + a1 * b5 + a2 * b4 + a3 * b3 + a4 * b2 + a5 * b1 + a6 * b0) * 2 ^ 192 + (a0 * b7 + a1 * b6 + a2 * b5 + a3 * b4 + a4 * b3 + a5 * b2 + a6 * b1 + a7 * b0) * 2 ^ 224 + (a1 * b7 + a2 * b6 + a3 * b5 + a4 * b4 + a5 * b3 + a6 * b2 + a7 * b1) * 2 ^ 256 + (a2 * b7 + a3 * b6 + a4 * b5 + a5 * b4 + a6 * b3 + a7 * b2) * 2 ^ 288 + (a3 * b7 + a4 * b6 + a5 * b5 + a6 * b4 + a7 * b3) * 2 ^ 320 + (a4 * b7 + a5 * b6 + a6 * b5 + a7 * b4) * 2 ^ 352 + (a5 * b7 + a6 * b6 + a7 * b5) * 2 ^ 384) :
    RedPost (val8x32 a0 a1 a2 a3 a4 a5 a6 a7 * val8x32 b0 b1 b2 b3 b4 b5 b6 b7) (runR env (Gen.scalar8x32.scalar_mul.body.drop 480)) := by
  simp only [Gen.scalar8x32.scalar_mul, List.drop_succ_cons, List.drop_zero]
  refine muladd_rule accSm v5_13 v5_14 0 a6 b7 4294967295 4294967295 _ (by decide) (by decide) hc0 hc1 hc2 (ev_idx_of (Frame.refl accSm env) (by decide) h_a_d_6) (ev_idx_of (Frame.refl accSm env) (by decide) h_b_d_7) L_v5_13 L_v5_14 (le_of_lt32 A6) (le_of_lt32 B7) (by decide) (by decide) hB (by decide) ?_
  intro es1 s1_0 s1_1 s1_2 s1_F s1_c0 s1_c1 s1_c2 s1_lt0 s1_lt1 s1_lt2 s1_A s1_B
  replace s1_A := s1_A.trans (z3_xy0 _ _ _)
  conv at s1_B => rhs; simp only [Nat.reducePow, Nat.reduceSub, Nat.reduceMul, Nat.reduceAdd]
  clear hc0 hc1 hc2 hB L_v5_13 L_v5_14
  refine muladd_rule accSm s1_0 s1_1 s1_2 a7 b6 4294967295 4294967295 _ (by decide) (by decide) s1_c0 s1_c1 s1_c2 (ev_idx_of s1_F (by decide) h_a_d_7) (ev_idx_of s1_F (by decide) h_b_d_6) s1_lt0 s1_lt1 (le_of_lt32 A7) (le_of_lt32 B6) (by decide) (by decide) s1_B (by decide) ?_
  intro es2 s2_0 s2_1 s2_2 s2_F s2_c0 s2_c1 s2_c2 s2_lt0 s2_lt1 s2_lt2 s2_A s2_B
  conv at s2_B => rhs; simp only [Nat.reducePow, Nat.reduceSub, Nat.reduceMul, Nat.reduceAdd]
  have Fs2 := s1_F.trans s2_F
  clear s1_F s2_F s1_c0 s1_c1 s1_c2 s1_B s1_lt0 s1_lt1 s1_lt2
  clear es1
  have hcols1 : s2_0 + (s2_1 + s2_2 * 2 ^ 32) * 2 ^ 32 = v5_13 + v5_14 * 2 ^ 32 + (a6 * b7 + a7 * b6) := (reshape3 s2_0 s2_1 s2_2).trans (colsum2 s1_A s2_A)
  clear s1_A s2_A
  have cums1 := combine 448 hcum hcols1 rfl
  clear hcum hcols1
  refine extract_store_rule accSm s2_0 s2_1 s2_2 (by decide) (by decide) s2_c0 s2_c1 s2_c2 ?_
  intro es3 s3_Fx s3_o s3_c0 s3_c1 s3_c2
  have fs1_a_d_7 := transport s3_Fx Fs2 (by decide) (by decide) h_a_d_7
  have fs1_b_d_7 := transport s3_Fx Fs2 (by decide) (by decide) h_b_d_7
  have fs1_l_0 := transport s3_Fx Fs2 (by decide) (by decide) h_l_0
  have fs1_l_1 := transport s3_Fx Fs2 (by decide) (by decide) h_l_1
  have fs1_l_2 := transport s3_Fx Fs2 (by decide) (by decide) h_l_2
  have fs1_l_3 := transport s3_Fx Fs2 (by decide) (by decide) h_l_3
  have fs1_l_4 := transport s3_Fx Fs2 (by decide) (by decide) h_l_4
  have fs1_l_5 := transport s3_Fx Fs2 (by decide) (by decide) h_l_5
  have fs1_l_6 := transport s3_Fx Fs2 (by decide) (by decide) h_l_6
  have fs1_l_7 := transport s3_Fx Fs2 (by decide) (by decide) h_l_7
  have fs1_l_8 := transport s3_Fx Fs2 (by decide) (by decide) h_l_8
  have fs1_l_9 := transport s3_Fx Fs2 (by decide) (by decide) h_l_9
  have fs1_l_10 := transport s3_Fx Fs2 (by decide) (by decide) h_l_10
  have fs1_l_11 := transport s3_Fx Fs2 (by decide) (by decide) h_l_11
  have fs1_l_12 := transport s3_Fx Fs2 (by decide) (by decide) h_l_12
  have s3_B := extract_bound32 s2_B
  conv at s3_B => rhs; simp only [Nat.reducePow, Nat.reduceDiv]
  clear h_a_d_6 h_b_d_6 h_a_d_7 h_b_d_7 h_l_0 h_l_1 h_l_2 h_l_3 h_l_4 h_l_5 h_l_6 h_l_7 h_l_8 h_l_9 h_l_10 h_l_11 h_l_12 s2_c0 s2_c1 s2_c2 s2_B s3_Fx Fs2
  clear es2 env
  refine muladd_fast_rule accSm "scalar_mul_512_3.c2" s2_1 s2_2 0 a7 b7 4294967295 4294967295 _ (by decide) (by decide) s3_c0 s3_c1 s3_c2 (ev_idx_of (Frame.refl accSm es3) (by decide) fs1_a_d_7) (ev_idx_of (Frame.refl accSm es3) (by decide) fs1_b_d_7) s2_lt1 s2_lt2 (le_of_lt32 A7) (le_of_lt32 B7) (by decide) (by decide) (acc_drop2 s3_B) (by decide) ?_
  intro es4 s4_0 s4_1 s4_F s4_c0 s4_c1 s4_c2 s4_lt0 s4_lt1 s4_A s4_B
  conv at s4_B => rhs; simp only [Nat.reducePow, Nat.reduceSub, Nat.reduceMul, Nat.reduceAdd]
  clear s3_c0 s3_c1 s3_c2 s3_B s2_lt1 s2_lt2
  have hcols2 : s4_0 + s4_1 * 2 ^ 32 = s2_1 + s2_2 * 2 ^ 32 + (a7 * b7) := colsum1 s4_A
  clear s4_A
  have cums2 := combine 480 cums1 hcols2 rfl
  clear cums1 hcols2
  refine extract_fast_store_rule accSm "scalar_mul_512_3.c2" s4_0 s4_1 0 (by decide) (by decide) s4_c0 s4_c1 s4_c2 ?_
  intro es5 s5_Fx s5_o s5_c0 s5_c1 s5_c2
  have fs2_l_0 := transport s5_Fx s4_F (by decide) (by decide) fs1_l_0
  have fs2_l_1 := transport s5_Fx s4_F (by decide) (by decide) fs1_l_1
  have fs2_l_2 := transport s5_Fx s4_F (by decide) (by decide) fs1_l_2
  have fs2_l_3 := transport s5_Fx s4_F (by decide) (by decide) fs1_l_3
  have fs2_l_4 := transport s5_Fx s4_F (by decide) (by decide) fs1_l_4
  have fs2_l_5 := transport s5_Fx s4_F (by decide) (by decide) fs1_l_5
  have fs2_l_6 := transport s5_Fx s4_F (by decide) (by decide) fs1_l_6
  have fs2_l_7 := transport s5_Fx s4_F (by decide) (by decide) fs1_l_7
  have fs2_l_8 := transport s5_Fx s4_F (by decide) (by decide) fs1_l_8
  have fs2_l_9 := transport s5_Fx s4_F (by decide) (by decide) fs1_l_9
  have fs2_l_10 := transport s5_Fx s4_F (by decide) (by decide) fs1_l_10
  have fs2_l_11 := transport s5_Fx s4_F (by decide) (by decide) fs1_l_11
  have fs2_l_12 := transport s5_Fx s4_F (by decide) (by decide) fs1_l_12
  have fs2_l_13 := transport s5_Fx s4_F (by decide) (by decide) s3_o
  have s5_B := extract_bound32' s4_B
  conv at s5_B => rhs; simp only [Nat.reducePow, Nat.reduceDiv]
  clear fs1_a_d_7 fs1_b_d_7 fs1_l_0 fs1_l_1 fs1_l_2 fs1_l_3 fs1_l_4 fs1_l_5 fs1_l_6 fs1_l_7 fs1_l_8 fs1_l_9 fs1_l_10 fs1_l_11 fs1_l_12 s3_o s4_c0 s4_c1 s4_c2 s4_B s5_Fx s4_F
  clear es4 es3
  refine store_rule accSm s4_1 ((ev_var _ _).trans s5_c0) ?_
  intro es6 s6_Fx s6_o
  have fs3_l_0 := transport s6_Fx (Frame.refl accSm es5) (by decide) (by decide) fs2_l_0
  have fs3_l_1 := transport s6_Fx (Frame.refl accSm es5) (by decide) (by decide) fs2_l_1
  have fs3_l_2 := transport s6_Fx (Frame.refl accSm es5) (by decide) (by decide) fs2_l_2
  have fs3_l_3 := transport s6_Fx (Frame.refl accSm es5) (by decide) (by decide) fs2_l_3
  have fs3_l_4 := transport s6_Fx (Frame.refl accSm es5) (by decide) (by decide) fs2_l_4
  have fs3_l_5 := transport s6_Fx (Frame.refl accSm es5) (by decide) (by decide) fs2_l_5
  have fs3_l_6 := transport s6_Fx (Frame.refl accSm es5) (by decide) (by decide) fs2_l_6
  have fs3_l_7 := transport s6_Fx (Frame.refl accSm es5) (by decide) (by decide) fs2_l_7
  have fs3_l_8 := transport s6_Fx (Frame.refl accSm es5) (by decide) (by decide) fs2_l_8
  have fs3_l_9 := transport s6_Fx (Frame.refl accSm es5) (by decide) (by decide) fs2_l_9
  have fs3_l_10 := transport s6_Fx (Frame.refl accSm es5) (by decide) (by decide) fs2_l_10
  have fs3_l_11 := transport s6_Fx (Frame.refl accSm es5) (by decide) (by decide) fs2_l_11
  have fs3_l_12 := transport s6_Fx (Frame.refl accSm es5) (by decide) (by decide) fs2_l_12
  have fs3_l_13 := transport s6_Fx (Frame.refl accSm es5) (by decide) (by decide) fs2_l_13
  have fs3_l_14 := transport s6_Fx (Frame.refl accSm es5) (by decide) (by decide) s5_o
  clear fs2_l_0 fs2_l_1 fs2_l_2 fs2_l_3 fs2_l_4 fs2_l_5 fs2_l_6 fs2_l_7 fs2_l_8 fs2_l_9 fs2_l_10 fs2_l_11 fs2_l_12 fs2_l_13 s5_o s6_Fx s5_c0 s5_c1 s5_c2 s5_B
  clear es5
  have hval : val16x32 v5_0 v5_1 v5_2 v5_3 v5_4 v5_5 v5_6 v5_7 v5_8 v5_9 v5_10 v5_11 v5_12 s2_0 s4_0 s4_1 = val8x32 a0 a1 a2 a3 a4 a5 a6 a7 * val8x32 b0 b1 b2 b3 b4 b5 b6 b7 := by
    rw [val8x32_mul]; unfold val16x32
    exact cums2
  exact scalar_mul_red_run es6 v5_0 v5_1 v5_2 v5_3 v5_4 v5_5 v5_6 v5_7 v5_8 v5_9 v5_10 v5_11 v5_12 s2_0 s4_0 s4_1 (val8x32 a0 a1 a2 a3 a4 a5 a6 a7 * val8x32 b0 b1 b2 b3 b4 b5 b6 b7) L_v5_0 L_v5_1 L_v5_2 L_v5_3 L_v5_4 L_v5_5 L_v5_6 L_v5_7 L_v5_8 L_v5_9 L_v5_10 L_v5_11 L_v5_12 s2_lt0 s4_lt0 s4_lt1 hval fs3_l_0 fs3_l_1 fs3_l_2 fs3_l_3 fs3_l_4 fs3_l_5 fs3_l_6 fs3_l_7 fs3_l_8 fs3_l_9 fs3_l_10 fs3_l_11 fs3_l_12 fs3_l_13 fs3_l_14 s6_o

set_option maxRecDepth 100000 in
set_option maxHeartbeats 4000000 in
theorem scalar_mul_run_p4 (env : Env) (a0 a1 a2 a3 a4 a5 a6 a7 b0 b1 b2 b3 b4 b5 b6 b7 : Nat) (v4_0 v4_1 v4_2 v4_3 v4_4 v4_5 v4_6 v4_7 v4_8 v4_9 v4_10 v4_11 : Nat) (A0 : a0 < 2 ^ 32) (A1 : a1 < 2 ^ 32) (A2 : a2 < 2 ^ 32) (A3 : a3 < 2 ^ 32) (A4 : a4 < 2 ^ 32) (A5 : a5 < 2 ^ 32) (A6 : a6 < 2 ^ 32) (A7 : a7 < 2 ^ 32) (B0 : b0 < 2 ^ 32) (B1 : b1 < 2 ^ 32) (B2 : b2 < 2 ^ 32) (B3 : b3 < 2 ^ 32) (B4 : b4 < 2 ^ 32) (B5 : b5 < 2 ^ 32) (B6 : b6 < 2 ^ 32) (B7 : b7 < 2 ^ 32) 
    (h_a_d_3 : env.get "a.d" 3 = a3)
    (h_b_d_3 : env.get "b.d" 3 = b3)
    (h_a_d_4 : env.get "a.d" 4 = a4)
    (h_b_d_4 : env.get "b.d" 4 = b4)
    (h_a_d_5 : env.get "a.d" 5 = a5)
    (h_b_d_5 : env.get "b.d" 5 = b5)
    (h_a_d_6 : env.get "a.d" 6 = a6)
    (h_b_d_6 : env.get "b.d" 6 = b6)
    (h_a_d_7 : env.get "a.d" 7 = a7)
    (h_b_d_7 : env.get "b.d" 7 = b7)
    (h_l_0 : env.get "l" 0 = v4_0)
    (h_l_1 : env.get "l" 1 = v4_1)
    (h_l_2 : env.get "l" 2 = v4_2)
    (h_l_3 : env.get "l" 3 = v4_3)
    (h_l_4 : env.get "l" 4 = v4_4)
    (h_l_5 : env.get "l" 5 = v4_5)
    (h_l_6 : env.get "l" 6 = v4_6)
    (h_l_7 : env.get "l" 7 = v4_7)
    (h_l_8 : env.get "l" 8 = v4_8)
    (h_l_9 : env.get "l" 9 = v4_9)
    (L_v4_0 : v4_0 < 2 ^ 32)
    (L_v4_1 : v4_1 < 2 ^ 32)
    (L_v4_2 : v4_2 < 2 ^ 32)
    (L_v4_3 : v4_3 < 2 ^ 32)
    (L_v4_4 : v4_4 < 2 ^ 32)
    (L_v4_5 : v4_5 < 2 ^ 32)
    (L_v4_6 : v4_6 < 2 ^ 32)
    (L_v4_7 : v4_7 < 2 ^ 32)
    (L_v4_8 : v4_8 < 2 ^ 32)
    (L_v4_9 : v4_9 < 2 ^ 32)
    (L_v4_10 : v4_10 < 2 ^ 32)
    (L_v4_11 : v4_11 < 2 ^ 32)
    (hc0 : env.get "scalar_mul_512_3.c0" 0 = v4_10)
    (hc1 : env.get "scalar_mul_512_3.c1" 0 = v4_11)
    (hc2 : env.get "scalar_mul_512_3.c2" 0 = 0)
    (hB : v4_10 + v4_11 * 2 ^ 32 + 0 * 2 ^ 64 ≤ 25769803770)
    (hcum : v4_0 + v4_1 * 2 ^ 32 + v4_2 * 2 ^ 64 + v4_3 * 2 ^ 96 + v4_4 * 2 ^ 128 + v4_5 * 2 ^ 160 + v4_6 * 2 ^ 192 + v4_7 * 2 ^ 224 + v4_8 * 2 ^ 256 + v4_9 * 2 ^ 288 + (v4_10 + v4_11 * 2 ^ 32) * 2 ^ 320 = (a0 * b0) + (a0 * b1 + a1 * b0) * 2 ^ 32 + (a0 * b2 + a1 * b1 + a2 * b0) * 2 ^ 64 + (a0 * b3 + a1 * b2 + a2 * b1 + a3 * b0) * 2 ^ 96 + (a0 * b4 + a1 * b3 + a2 * b2 + a3 * b1 + a4 * b0) * 2 ^ 128 + (a0 * b5 + a1 * b4 + a2 * b3 + a3 * b2 + a4 * b1 + a5 * b0) * 2 ^ 160 + (a0 * b6 + a1 * b5 + a2 * b4 + a3 * b3 + a4 * b2 + a5 * b1 + a6 * b0) * 2 ^ 192 + (a0 * b7 + a1 * b6 + a2 * b5 + a3 * b4 + a4 * b3 + a5 * b2 + a6 * b1 + a7 * b0) * 2 ^ 224 + (a1 * b7 + a2 * b6 + a3 * b5 + a4 * b4 + a5 * b3 + a6 * b2 + a7 * b1) * 2 ^ 256 + (a2 * b7 + a3 * b6 + a4 * b5 + a5 * b4 + a6 * b3 + a7 * b2) * 2 ^ 288) :
    RedPost (val8x32 a0 a1 a2 a3 a4 a5 a6 a7 * val8x32 b0 b1 b2 b3 b4 b5 b6 b7) (runR env (Gen.scalar8x32.scalar_mul.body.drop 384)) := by
  simp only [Gen.scalar8x32.scalar_mul, List.drop_succ_cons, List.drop_zero]
  refine muladd_rule accSm v4_10 v4_11 0 a3 b7 4294967295 4294967295 _ (by decide) (by decide) hc0 hc1 hc2 (ev_idx_of (Frame.refl accSm env) (by decide) h_a_d_3) (ev_idx_of (Frame.refl accSm env) (by decide) h_b_d_7) L_v4_10 L_v4_11 (le_of_lt32 A3) (le_of_lt32 B7) (by decide) (by decide) hB (by decide) ?_
  intro es1 s1_0 s1_1 s1_2 s1_F s1_c0 s1_c1 s1_c2 s1_lt0 s1_lt1 s1_lt2 s1_A s1_B
  replace s1_A := s1_A.trans (z3_xy0 _ _ _)
  conv at s1_B => rhs; simp only [Nat.reducePow, Nat.reduceSub, Nat.reduceMul, Nat.reduceAdd]
  clear hc0 hc1 hc2 hB L_v4_10 L_v4_11
  refine muladd_rule accSm s1_0 s1_1 s1_2 a4 b6 4294967295 4294967295 _ (by decide) (by decide) s1_c0 s1_c1 s1_c2 (ev_idx_of s1_F (by decide) h_a_d_4) (ev_idx_of s1_F (by decide) h_b_d_6) s1_lt0 s1_lt1 (le_of_lt32 A4) (le_of_lt32 B6) (by decide) (by decide) s1_B (by decide) ?_
  intro es2 s2_0 s2_1 s2_2 s2_F s2_c0 s2_c1 s2_c2 s2_lt0 s2_lt1 s2_lt2 s2_A s2_B
  conv at s2_B => rhs; simp only [Nat.reducePow, Nat.reduceSub, Nat.reduceMul, Nat.reduceAdd]
  have Fs2 := s1_F.trans s2_F
  clear s1_F s2_F s1_c0 s1_c1 s1_c2 s1_B s1_lt0 s1_lt1 s1_lt2
  clear es1
  refine muladd_rule accSm s2_0 s2_1 s2_2 a5 b5 4294967295 4294967295 _ (by decide) (by decide) s2_c0 s2_c1 s2_c2 (ev_idx_of Fs2 (by decide) h_a_d_5) (ev_idx_of Fs2 (by decide) h_b_d_5) s2_lt0 s2_lt1 (le_of_lt32 A5) (le_of_lt32 B5) (by decide) (by decide) s2_B (by decide) ?_
  intro es3 s3_0 s3_1 s3_2 s3_F s3_c0 s3_c1 s3_c2 s3_lt0 s3_lt1 s3_lt2 s3_A s3_B
  conv at s3_B => rhs; simp only [Nat.reducePow, Nat.reduceSub, Nat.reduceMul, Nat.reduceAdd]
  have Fs3 := Fs2.trans s3_F
  clear Fs2 s3_F s2_c0 s2_c1 s2_c2 s2_B s2_lt0 s2_lt1 s2_lt2
  clear es2
  refine muladd_rule accSm s3_0 s3_1 s3_2 a6 b4 4294967295 4294967295 _ (by decide) (by decide) s3_c0 s3_c1 s3_c2 (ev_idx_of Fs3 (by decide) h_a_d_6) (ev_idx_of Fs3 (by decide) h_b_d_4) s3_lt0 s3_lt1 (le_of_lt32 A6) (le_of_lt32 B4) (by decide) (by decide) s3_B (by decide) ?_
  intro es4 s4_0 s4_1 s4_2 s4_F s4_c0 s4_c1 s4_c2 s4_lt0 s4_lt1 s4_lt2 s4_A s4_B
  conv at s4_B => rhs; simp only [Nat.reducePow, Nat.reduceSub, Nat.reduceMul, Nat.reduceAdd]
  have Fs4 := Fs3.trans s4_F
  clear Fs3 s4_F s3_c0 s3_c1 s3_c2 s3_B s3_lt0 s3_lt1 s3_lt2
  clear es3
  refine muladd_rule accSm s4_0 s4_1 s4_2 a7 b3 4294967295 4294967295 _ (by decide) (by decide) s4_c0 s4_c1 s4_c2 (ev_idx_of Fs4 (by decide) h_a_d_7) (ev_idx_of Fs4 (by decide) h_b_d_3) s4_lt0 s4_lt1 (le_of_lt32 A7) (le_of_lt32 B3) (by decide) (by decide) s4_B (by decide) ?_
  intro es5 s5_0 s5_1 s5_2 s5_F s5_c0 s5_c1 s5_c2 s5_lt0 s5_lt1 s5_lt2 s5_A s5_B
  conv at s5_B => rhs; simp only [Nat.reducePow, Nat.reduceSub, Nat.reduceMul, Nat.reduceAdd]
  have Fs5 := Fs4.trans s5_F
  clear Fs4 s5_F s4_c0 s4_c1 s4_c2 s4_B s4_lt0 s4_lt1 s4_lt2
  clear es4
  have hcols1 : s5_0 + (s5_1 + s5_2 * 2 ^ 32) * 2 ^ 32 = v4_10 + v4_11 * 2 ^ 32 + (a3 * b7 + a4 * b6 + a5 * b5 + a6 * b4 + a7 * b3) := (reshape3 s5_0 s5_1 s5_2).trans (colsum5 s1_A s2_A s3_A s4_A s5_A)
  clear s1_A s2_A s3_A s4_A s5_A
  have cums1 := combine 352 hcum hcols1 rfl
  clear hcum hcols1
  refine extract_store_rule accSm s5_0 s5_1 s5_2 (by decide) (by decide) s5_c0 s5_c1 s5_c2 ?_
  intro es6 s6_Fx s6_o s6_c0 s6_c1 s6_c2
  have fs1_a_d_4 := transport s6_Fx Fs5 (by decide) (by decide) h_a_d_4
  have fs1_b_d_4 := transport s6_Fx Fs5 (by decide) (by decide) h_b_d_4
  have fs1_a_d_5 := transport s6_Fx Fs5 (by decide) (by decide) h_a_d_5
  have fs1_b_d_5 := transport s6_Fx Fs5 (by decide) (by decide) h_b_d_5
  have fs1_a_d_6 := transport s6_Fx Fs5 (by decide) (by decide) h_a_d_6
  have fs1_b_d_6 := transport s6_Fx Fs5 (by decide) (by decide) h_b_d_6
  have fs1_a_d_7 := transport s6_Fx Fs5 (by decide) (by decide) h_a_d_7
  have fs1_b_d_7 := transport s6_Fx Fs5 (by decide) (by decide) h_b_d_7
  have fs1_l_0 := transport s6_Fx Fs5 (by decide) (by decide) h_l_0
  have fs1_l_1 := transport s6_Fx Fs5 (by decide) (by decide) h_l_1
  have fs1_l_2 := transport s6_Fx Fs5 (by decide) (by decide) h_l_2
  have fs1_l_3 := transport s6_Fx Fs5 (by decide) (by decide) h_l_3
  have fs1_l_4 := transport s6_Fx Fs5 (by decide) (by decide) h_l_4
  have fs1_l_5 := transport s6_Fx Fs5 (by decide) (by decide) h_l_5
  have fs1_l_6 := transport s6_Fx Fs5 (by decide) (by decide) h_l_6
  have fs1_l_7 := transport s6_Fx Fs5 (by decide) (by decide) h_l_7
  have fs1_l_8 := transport s6_Fx Fs5 (by decide) (by decide) h_l_8
  have fs1_l_9 := transport s6_Fx Fs5 (by decide) (by decide) h_l_9
  have s6_B := extract_bound32 s5_B
  conv at s6_B => rhs; simp only [Nat.reducePow, Nat.reduceDiv]
  clear h_a_d_3 h_b_d_3 h_a_d_4 h_b_d_4 h_a_d_5 h_b_d_5 h_a_d_6 h_b_d_6 h_a_d_7 h_b_d_7 h_l_0 h_l_1 h_l_2 h_l_3 h_l_4 h_l_5 h_l_6 h_l_7 h_l_8 h_l_9 s5_c0 s5_c1 s5_c2 s5_B s6_Fx Fs5
  clear es5 env
  refine muladd_rule accSm s5_1 s5_2 0 a4 b7 4294967295 4294967295 _ (by decide) (by decide) s6_c0 s6_c1 s6_c2 (ev_idx_of (Frame.refl accSm es6) (by decide) fs1_a_d_4) (ev_idx_of (Frame.refl accSm es6) (by decide) fs1_b_d_7) s5_lt1 s5_lt2 (le_of_lt32 A4) (le_of_lt32 B7) (by decide) (by decide) s6_B (by decide) ?_
  intro es7 s7_0 s7_1 s7_2 s7_F s7_c0 s7_c1 s7_c2 s7_lt0 s7_lt1 s7_lt2 s7_A s7_B
  replace s7_A := s7_A.trans (z3_xy0 _ _ _)
  conv at s7_B => rhs; simp only [Nat.reducePow, Nat.reduceSub, Nat.reduceMul, Nat.reduceAdd]
  clear s6_c0 s6_c1 s6_c2 s6_B s5_lt1 s5_lt2
  refine muladd_rule accSm s7_0 s7_1 s7_2 a5 b6 4294967295 4294967295 _ (by decide) (by decide) s7_c0 s7_c1 s7_c2 (ev_idx_of s7_F (by decide) fs1_a_d_5) (ev_idx_of s7_F (by decide) fs1_b_d_6) s7_lt0 s7_lt1 (le_of_lt32 A5) (le_of_lt32 B6) (by decide) (by decide) s7_B (by decide) ?_
  intro es8 s8_0 s8_1 s8_2 s8_F s8_c0 s8_c1 s8_c2 s8_lt0 s8_lt1 s8_lt2 s8_A s8_B
  conv at s8_B => rhs; simp only [Nat.reducePow, Nat.reduceSub, Nat.reduceMul, Nat.reduceAdd]
  have Fs8 := s7_F.trans s8_F
  clear s7_F s8_F s7_c0 s7_c1 s7_c2 s7_B s7_lt0 s7_lt1 s7_lt2
  clear es7
  refine muladd_rule accSm s8_0 s8_1 s8_2 a6 b5 4294967295 4294967295 _ (by decide) (by decide) s8_c0 s8_c1 s8_c2 (ev_idx_of Fs8 (by decide) fs1_a_d_6) (ev_idx_of Fs8 (by decide) fs1_b_d_5) s8_lt0 s8_lt1 (le_of_lt32 A6) (le_of_lt32 B5) (by decide) (by decide) s8_B (by decide) ?_
  intro es9 s9_0 s9_1 s9_2 s9_F s9_c0 s9_c1 s9_c2 s9_lt0 s9_lt1 s9_lt2 s9_A s9_B
  conv at s9_B => rhs; simp only [Nat.reducePow, Nat.reduceSub, Nat.reduceMul, Nat.reduceAdd]
  have Fs9 := Fs8.trans s9_F
  clear Fs8 s9_F s8_c0 s8_c1 s8_c2 s8_B s8_lt0 s8_lt1 s8_lt2
  clear es8
  refine muladd_rule accSm s9_0 s9_1 s9_2 a7 b4 4294967295 4294967295 _ (by decide) (by decide) s9_c0 s9_c1 s9_c2 (ev_idx_of Fs9 (by decide) fs1_a_d_7) (ev_idx_of Fs9 (by decide) fs1_b_d_4) s9_lt0 s9_lt1 (le_of_lt32 A7) (le_of_lt32 B4) (by decide) (by decide) s9_B (by decide) ?_
  intro es10 s10_0 s10_1 s10_2 s10_F s10_c0 s10_c1 s10_c2 s10_lt0 s10_lt1 s10_lt2 s10_A s10_B
  conv at s10_B => rhs; simp only [Nat.reducePow, Nat.reduceSub, Nat.reduceMul, Nat.reduceAdd]
  have Fs10 := Fs9.trans s10_F
  clear Fs9 s10_F s9_c0 s9_c1 s9_c2 s9_B s9_lt0 s9_lt1 s9_lt2
  clear es9
  have hcols2 : s10_0 + (s10_1 + s10_2 * 2 ^ 32) * 2 ^ 32 = s5_1 + s5_2 * 2 ^ 32 + (a4 * b7 + a5 * b6 + a6 * b5 + a7 * b4) := (reshape3 s10_0 s10_1 s10_2).trans (colsum4 s7_A s8_A s9_A s10_A)
  clear s7_A s8_A s9_A s10_A
  have cums2 := combine 384 cums1 hcols2 rfl
  clear cums1 hcols2
  refine extract_store_rule accSm s10_0 s10_1 s10_2 (by decide) (by decide) s10_c0 s10_c1 s10_c2 ?_
  intro es11 s11_Fx s11_o s11_c0 s11_c1 s11_c2
  have fs2_a_d_5 := transport s11_Fx Fs10 (by decide) (by decide) fs1_a_d_5
  have fs2_b_d_5 := transport s11_Fx Fs10 (by decide) (by decide) fs1_b_d_5
  have fs2_a_d_6 := transport s11_Fx Fs10 (by decide) (by decide) fs1_a_d_6
  have fs2_b_d_6 := transport s11_Fx Fs10 (by decide) (by decide) fs1_b_d_6
  have fs2_a_d_7 := transport s11_Fx Fs10 (by decide) (by decide) fs1_a_d_7
  have fs2_b_d_7 := transport s11_Fx Fs10 (by decide) (by decide) fs1_b_d_7
  have fs2_l_0 := transport s11_Fx Fs10 (by decide) (by decide) fs1_l_0
  have fs2_l_1 := transport s11_Fx Fs10 (by decide) (by decide) fs1_l_1
  have fs2_l_2 := transport s11_Fx Fs10 (by decide) (by decide) fs1_l_2
  have fs2_l_3 := transport s11_Fx Fs10 (by decide) (by decide) fs1_l_3
  have fs2_l_4 := transport s11_Fx Fs10 (by decide) (by decide) fs1_l_4
  have fs2_l_5 := transport s11_Fx Fs10 (by decide) (by decide) fs1_l_5
  have fs2_l_6 := transport s11_Fx Fs10 (by decide) (by decide) fs1_l_6
  have fs2_l_7 := transport s11_Fx Fs10 (by decide) (by decide) fs1_l_7
  have fs2_l_8 := transport s11_Fx Fs10 (by decide) (by decide) fs1_l_8
  have fs2_l_9 := transport s11_Fx Fs10 (by decide) (by decide) fs1_l_9
  have fs2_l_10 := transport s11_Fx Fs10 (by decide) (by decide) s6_o
  have s11_B := extract_bound32 s10_B
  conv at s11_B => rhs; simp only [Nat.reducePow, Nat.reduceDiv]
  clear fs1_a_d_4 fs1_b_d_4 fs1_a_d_5 fs1_b_d_5 fs1_a_d_6 fs1_b_d_6 fs1_a_d_7 fs1_b_d_7 fs1_l_0 fs1_l_1 fs1_l_2 fs1_l_3 fs1_l_4 fs1_l_5 fs1_l_6 fs1_l_7 fs1_l_8 fs1_l_9 s6_o s10_c0 s10_c1 s10_c2 s10_B s11_Fx Fs10
  clear es10 es6
  refine muladd_rule accSm s10_1 s10_2 0 a5 b7 4294967295 4294967295 _ (by decide) (by decide) s11_c0 s11_c1 s11_c2 (ev_idx_of (Frame.refl accSm es11) (by decide) fs2_a_d_5) (ev_idx_of (Frame.refl accSm es11) (by decide) fs2_b_d_7) s10_lt1 s10_lt2 (le_of_lt32 A5) (le_of_lt32 B7) (by decide) (by decide) s11_B (by decide) ?_
  intro es12 s12_0 s12_1 s12_2 s12_F s12_c0 s12_c1 s12_c2 s12_lt0 s12_lt1 s12_lt2 s12_A s12_B
  replace s12_A := s12_A.trans (z3_xy0 _ _ _)
  conv at s12_B => rhs; simp only [Nat.reducePow, Nat.reduceSub, Nat.reduceMul, Nat.reduceAdd]
  clear s11_c0 s11_c1 s11_c2 s11_B s10_lt1 s10_lt2
  refine muladd_rule accSm s12_0 s12_1 s12_2 a6 b6 4294967295 4294967295 _ (by decide) (by decide) s12_c0 s12_c1 s12_c2 (ev_idx_of s12_F (by decide) fs2_a_d_6) (ev_idx_of s12_F (by decide) fs2_b_d_6) s12_lt0 s12_lt1 (le_of_lt32 A6) (le_of_lt32 B6) (by decide) (by decide) s12_B (by decide) ?_
  intro es13 s13_0 s13_1 s13_2 s13_F s13_c0 s13_c1 s13_c2 s13_lt0 s13_lt1 s13_lt2 s13_A s13_B
  conv at s13_B => rhs; simp only [Nat.reducePow, Nat.reduceSub, Nat.reduceMul, Nat.reduceAdd]
  have Fs13 := s12_F.trans s13_F
  clear s12_F s13_F s12_c0 s12_c1 s12_c2 s12_B s12_lt0 s12_lt1 s12_lt2
  clear es12
  refine muladd_rule accSm s13_0 s13_1 s13_2 a7 b5 4294967295 4294967295 _ (by decide) (by decide) s13_c0 s13_c1 s13_c2 (ev_idx_of Fs13 (by decide) fs2_a_d_7) (ev_idx_of Fs13 (by decide) fs2_b_d_5) s13_lt0 s13_lt1 (le_of_lt32 A7) (le_of_lt32 B5) (by decide) (by decide) s13_B (by decide) ?_
  intro es14 s14_0 s14_1 s14_2 s14_F s14_c0 s14_c1 s14_c2 s14_lt0 s14_lt1 s14_lt2 s14_A s14_B
  conv at s14_B => rhs; simp only [Nat.reducePow, Nat.reduceSub, Nat.reduceMul, Nat.reduceAdd]
  have Fs14 := Fs13.trans s14_F
  clear Fs13 s14_F s13_c0 s13_c1 s13_c2 s13_B s13_lt0 s13_lt1 s13_lt2
  clear es13
  have hcols3 : s14_0 + (s14_1 + s14_2 * 2 ^ 32) * 2 ^ 32 = s10_1 + s10_2 * 2 ^ 32 + (a5 * b7 + a6 * b6 + a7 * b5) := (reshape3 s14_0 s14_1 s14_2).trans (colsum3 s12_A s13_A s14_A)
  clear s12_A s13_A s14_A
  have cums3 := combine 416 cums2 hcols3 rfl
  clear cums2 hcols3
  refine extract_store_rule accSm s14_0 s14_1 s14_2 (by decide) (by decide) s14_c0 s14_c1 s14_c2 ?_
  intro es15 s15_Fx s15_o s15_c0 s15_c1 s15_c2
  have fs3_a_d_6 := transport s15_Fx Fs14 (by decide) (by decide) fs2_a_d_6
  have fs3_b_d_6 := transport s15_Fx Fs14 (by decide) (by decide) fs2_b_d_6
  have fs3_a_d_7 := transport s15_Fx Fs14 (by decide) (by decide) fs2_a_d_7
  have fs3_b_d_7 := transport s15_Fx Fs14 (by decide) (by decide) fs2_b_d_7
  have fs3_l_0 := transport s15_Fx Fs14 (by decide) (by decide) fs2_l_0
  have fs3_l_1 := transport s15_Fx Fs14 (by decide) (by decide) fs2_l_1
  have fs3_l_2 := transport s15_Fx Fs14 (by decide) (by decide) fs2_l_2
  have fs3_l_3 := transport s15_Fx Fs14 (by decide) (by decide) fs2_l_3
  have fs3_l_4 := transport s15_Fx Fs14 (by decide) (by decide) fs2_l_4
  have fs3_l_5 := transport s15_Fx Fs14 (by decide) (by decide) fs2_l_5
  have fs3_l_6 := transport s15_Fx Fs14 (by decide) (by decide) fs2_l_6
  have fs3_l_7 := transport s15_Fx Fs14 (by decide) (by decide) fs2_l_7
  have fs3_l_8 := transport s15_Fx Fs14 (by decide) (by decide) fs2_l_8
  have fs3_l_9 := transport s15_Fx Fs14 (by decide) (by decide) fs2_l_9
  have fs3_l_10 := transport s15_Fx Fs14 (by decide) (by decide) fs2_l_10
  have fs3_l_11 := transport s15_Fx Fs14 (by decide) (by decide) s11_o
  have s15_B := extract_bound32 s14_B
  conv at s15_B => rhs; simp only [Nat.reducePow, Nat.reduceDiv]
  clear fs2_a_d_5 fs2_b_d_5 fs2_a_d_6 fs2_b_d_6 fs2_a_d_7 fs2_b_d_7 fs2_l_0 fs2_l_1 fs2_l_2 fs2_l_3 fs2_l_4 fs2_l_5 fs2_l_6 fs2_l_7 fs2_l_8 fs2_l_9 fs2_l_10 s11_o s14_c0 s14_c1 s14_c2 s14_B s15_Fx Fs14
  clear es14 es11
  exact scalar_mul_run_p5 es15 a0 a1 a2 a3 a4 a5 a6 a7 b0 b1 b2 b3 b4 b5 b6 b7 v4_0 v4_1 v4_2 v4_3 v4_4 v4_5 v4_6 v4_7 v4_8 v4_9 s5_0 s10_0 s14_0 s14_1 s14_2 A0 A1 A2 A3 A4 A5 A6 A7 B0 B1 B2 B3 B4 B5 B6 B7 fs3_a_d_6 fs3_b_d_6 fs3_a_d_7 fs3_b_d_7 fs3_l_0 fs3_l_1 fs3_l_2 fs3_l_3 fs3_l_4 fs3_l_5 fs3_l_6 fs3_l_7 fs3_l_8 fs3_l_9 fs3_l_10 fs3_l_11 s15_o L_v4_0 L_v4_1 L_v4_2 L_v4_3 L_v4_4 L_v4_5 L_v4_6 L_v4_7 L_v4_8 L_v4_9 s5_lt0 s10_lt0 s14_lt0 s14_lt1 s14_lt2 s15_c0 s15_c1 s15_c2 s15_B cums3

set_option maxRecDepth 100000 in
set_option maxHeartbeats 4000000 in
theorem scalar_mul_run_p3 (env : Env) (a0 a1 a2 a3 a4 a5 a6 a7 b0 b1 b2 b3 b4 b5 b6 b7 : Nat) (v3_0 v3_1 v3_2 v3_3 v3_4 v3_5 v3_6 v3_7 v3_8 v3_9 : Nat) (A0 : a0 < 2 ^ 32) (A1 : a1 < 2 ^ 32) (A2 : a2 < 2 ^ 32) (A3 : a3 < 2 ^ 32) (A4 : a4 < 2 ^ 32) (A5 : a5 < 2 ^ 32) (A6 : a6 < 2 ^ 32) (A7 : a7 < 2 ^ 32) (B0 : b0 < 2 ^ 32) (B1 : b1 < 2 ^ 32) (B2 : b2 < 2 ^ 32) (B3 : b3 < 2 ^ 32) (B4 : b4 < 2 ^ 32) (B5 : b5 < 2 ^ 32) (B6 : b6 < 2 ^ 32) (B7 : b7 < 2 ^ 32) 
    (h_a_d_1 : env.get "a.d" 1 = a1)
    (h_b_d_1 : env.get "b.d" 1 = b1)
    (h_a_d_2 : env.get "a.d" 2 = a2)
    (h_b_d_2 : env.get "b.d" 2 = b2)
    (h_a_d_3 : env.get "a.d" 3 = a3)
    (h_b_d_3 : env.get "b.d" 3 = b3)
    (h_a_d_4 : env.get "a.d" 4 = a4)
    (h_b_d_4 : env.get "b.d" 4 = b4)
    (h_a_d_5 : env.get "a.d" 5 = a5)
    (h_b_d_5 : env.get "b.d" 5 = b5)
    (h_a_d_6 : env.get "a.d" 6 = a6)
    (h_b_d_6 : env.get "b.d" 6 = b6)
    (h_a_d_7 : env.get "a.d" 7 = a7)
    (h_b_d_7 : env.get "b.d" 7 = b7)
    (h_l_0 : env.get "l" 0 = v3_0)
    (h_l_1 : env.get "l" 1 = v3_1)
    (h_l_2 : env.get "l" 2 = v3_2)
    (h_l_3 : env.get "l" 3 = v3_3)
    (h_l_4 : env.get "l" 4 = v3_4)
    (h_l_5 : env.get "l" 5 = v3_5)
    (h_l_6 : env.get "l" 6 = v3_6)
    (h_l_7 : env.get "l" 7 = v3_7)
    (L_v3_0 : v3_0 < 2 ^ 32)
    (L_v3_1 : v3_1 < 2 ^ 32)
    (L_v3_2 : v3_2 < 2 ^ 32)
    (L_v3_3 : v3_3 < 2 ^ 32)
    (L_v3_4 : v3_4 < 2 ^ 32)
    (L_v3_5 : v3_5 < 2 ^ 32)
    (L_v3_6 : v3_6 < 2 ^ 32)
    (L_v3_7 : v3_7 < 2 ^ 32)
    (L_v3_8 : v3_8 < 2 ^ 32)
    (L_v3_9 : v3_9 < 2 ^ 32)
    (hc0 : env.get "scalar_mul_512_3.c0" 0 = v3_8)
    (hc1 : env.get "scalar_mul_512_3.c1" 0 = v3_9)
    (hc2 : env.get "scalar_mul_512_3.c2" 0 = 0)
    (hB : v3_8 + v3_9 * 2 ^ 32 + 0 * 2 ^ 64 ≤ 34359738359)
    (hcum : v3_0 + v3_1 * 2 ^ 32 + v3_2 * 2 ^ 64 + v3_3 * 2 ^ 96 + v3_4 * 2 ^ 128 + v3_5 * 2 ^ 160 + v3_6 * 2 ^ 192 + v3_7 * 2 ^ 224 + (v3_8 + v3_9 * 2 ^ 32) * 2 ^ 256 = (a0 * b0) + (a0 * b1 + a1 * b0) * 2 ^ 32 + (a0 * b2 + a1 * b1 + a2 * b0) * 2 ^ 64 + (a0 * b3 + a1 * b2 + a2 * b1 + a3 * b0) * 2 ^ 96 + (a0 * b4 + a1 * b3 + a2 * b2 + a3 * b1 + a4 * b0) * 2 ^ 128 + (a0 * b5 + a1 * b4 + a2 * b3 + a3 * b2 + a4 * b1 + a5 * b0) * 2 ^ 160 + (a0 * b6 + a1 * b5 + a2 * b4 + a3 * b3 + a4 * b2 + a5 * b1 + a6 * b0) * 2 ^ 192 + (a0 * b7 + a1 * b6 + a2 * b5 + a3 * b4 + a4 * b3 + a5 * b2 + a6 * b1 + a7 * b0) * 2 ^ 224) :
    RedPost (val8x32 a0 a1 a2 a3 a4 a5 a6 a7 * val8x32 b0 b1 b2 b3 b4 b5 b6 b7) (runR env (Gen.scalar8x32.scalar_mul.body.drop 285)) := by
  simp only [Gen.scalar8x32.scalar_mul, List.drop_succ_cons, List.drop_zero]
  refine muladd_rule accSm v3_8 v3_9 0 a1 b7 4294967295 4294967295 _ (by decide) (by decide) hc0 hc1 hc2 (ev_idx_of (Frame.refl accSm env) (by decide) h_a_d_1) (ev_idx_of (Frame.refl accSm env) (by decide) h_b_d_7) L_v3_8 L_v3_9 (le_of_lt32 A1) (le_of_lt32 B7) (by decide) (by decide) hB (by decide) ?_
  intro es1 s1_0 s1_1 s1_2 s1_F s1_c0 s1_c1 s1_c2 s1_lt0 s1_lt1 s1_lt2 s1_A s1_B
  replace s1_A := s1_A.trans (z3_xy0 _ _ _)
  conv at s1_B => rhs; simp only [Nat.reducePow, Nat.reduceSub, Nat.reduceMul, Nat.reduceAdd]
  clear hc0 hc1 hc2 hB L_v3_8 L_v3_9
  refine muladd_rule accSm s1_0 s1_1 s1_2 a2 b6 4294967295 4294967295 _ (by decide) (by decide) s1_c0 s1_c1 s1_c2 (ev_idx_of s1_F (by decide) h_a_d_2) (ev_idx_of s1_F (by decide) h_b_d_6) s1_lt0 s1_lt1 (le_of_lt32 A2) (le_of_lt32 B6) (by decide) (by decide) s1_B (by decide) ?_
  intro es2 s2_0 s2_1 s2_2 s2_F s2_c0 s2_c1 s2_c2 s2_lt0 s2_lt1 s2_lt2 s2_A s2_B
  conv at s2_B => rhs; simp only [Nat.reducePow, Nat.reduceSub, Nat.reduceMul, Nat.reduceAdd]
  have Fs2 := s1_F.trans s2_F
  clear s1_F s2_F s1_c0 s1_c1 s1_c2 s1_B s1_lt0 s1_lt1 s1_lt2
  clear es1
  refine muladd_rule accSm s2_0 s2_1 s2_2 a3 b5 4294967295 4294967295 _ (by decide) (by decide) s2_c0 s2_c1 s2_c2 (ev_idx_of Fs2 (by decide) h_a_d_3) (ev_idx_of Fs2 (by decide) h_b_d_5) s2_lt0 s2_lt1 (le_of_lt32 A3) (le_of_lt32 B5) (by decide) (by decide) s2_B (by decide) ?_
  intro es3 s3_0 s3_1 s3_2 s3_F s3_c0 s3_c1 s3_c2 s3_lt0 s3_lt1 s3_lt2 s3_A s3_B
  conv at s3_B => rhs; simp only [Nat.reducePow, Nat.reduceSub, Nat.reduceMul, Nat.reduceAdd]
  have Fs3 := Fs2.trans s3_F
  clear Fs2 s3_F s2_c0 s2_c1 s2_c2 s2_B s2_lt0 s2_lt1 s2_lt2
  clear es2
  refine muladd_rule accSm s3_0 s3_1 s3_2 a4 b4 4294967295 4294967295 _ (by decide) (by decide) s3_c0 s3_c1 s3_c2 (ev_idx_of Fs3 (by decide) h_a_d_4) (ev_idx_of Fs3 (by decide) h_b_d_4) s3_lt0 s3_lt1 (le_of_lt32 A4) (le_of_lt32 B4) (by decide) (by decide) s3_B (by decide) ?_
  intro es4 s4_0 s4_1 s4_2 s4_F s4_c0 s4_c1 s4_c2 s4_lt0 s4_lt1 s4_lt2 s4_A s4_B
  conv at s4_B => rhs; simp only [Nat.reducePow, Nat.reduceSub, Nat.reduceMul, Nat.reduceAdd]
  have Fs4 := Fs3.trans s4_F
  clear Fs3 s4_F s3_c0 s3_c1 s3_c2 s3_B s3_lt0 s3_lt1 s3_lt2
  clear es3
  refine muladd_rule accSm s4_0 s4_1 s4_2 a5 b3 4294967295 4294967295 _ (by decide) (by decide) s4_c0 s4_c1 s4_c2 (ev_idx_of Fs4 (by decide) h_a_d_5) (ev_idx_of Fs4 (by decide) h_b_d_3) s4_lt0 s4_lt1 (le_of_lt32 A5) (le_of_lt32 B3) (by decide) (by decide) s4_B (by decide) ?_
  intro es5 s5_0 s5_1 s5_2 s5_F s5_c0 s5_c1 s5_c2 s5_lt0 s5_lt1 s5_lt2 s5_A s5_B
  conv at s5_B => rhs; simp only [Nat.reducePow, Nat.reduceSub, Nat.reduceMul, Nat.reduceAdd]
  have Fs5 := Fs4.trans s5_F
  clear Fs4 s5_F s4_c0 s4_c1 s4_c2 s4_B s4_lt0 s4_lt1 s4_lt2
  clear es4
  refine muladd_rule accSm s5_0 s5_1 s5_2 a6 b2 4294967295 4294967295 _ (by decide) (by decide) s5_c0 s5_c1 s5_c2 (ev_idx_of Fs5 (by decide) h_a_d_6) (ev_idx_of Fs5 (by decide) h_b_d_2) s5_lt0 s5_lt1 (le_of_lt32 A6) (le_of_lt32 B2) (by decide) (by decide) s5_B (by decide) ?_
  intro es6 s6_0 s6_1 s6_2 s6_F s6_c0 s6_c1 s6_c2 s6_lt0 s6_lt1 s6_lt2 s6_A s6_B
  conv at s6_B => rhs; simp only [Nat.reducePow, Nat.reduceSub, Nat.reduceMul, Nat.reduceAdd]
  have Fs6 := Fs5.trans s6_F
  clear Fs5 s6_F s5_c0 s5_c1 s5_c2 s5_B s5_lt0 s5_lt1 s5_lt2
  clear es5
  refine muladd_rule accSm s6_0 s6_1 s6_2 a7 b1 4294967295 4294967295 _ (by decide) (by decide) s6_c0 s6_c1 s6_c2 (ev_idx_of Fs6 (by decide) h_a_d_7) (ev_idx_of Fs6 (by decide) h_b_d_1) s6_lt0 s6_lt1 (le_of_lt32 A7) (le_of_lt32 B1) (by decide) (by decide) s6_B (by decide) ?_
  intro es7 s7_0 s7_1 s7_2 s7_F s7_c0 s7_c1 s7_c2 s7_lt0 s7_lt1 s7_lt2 s7_A s7_B
  conv at s7_B => rhs; simp only [Nat.reducePow, Nat.reduceSub, Nat.reduceMul, Nat.reduceAdd]
  have Fs7 := Fs6.trans s7_F
  clear Fs6 s7_F s6_c0 s6_c1 s6_c2 s6_B s6_lt0 s6_lt1 s6_lt2
  clear es6
  have hcols1 : s7_0 + (s7_1 + s7_2 * 2 ^ 32) * 2 ^ 32 = v3_8 + v3_9 * 2 ^ 32 + (a1 * b7 + a2 * b6 + a3 * b5 + a4 * b4 + a5 * b3 + a6 * b2 + a7 * b1) := (reshape3 s7_0 s7_1 s7_2).trans (colsum7 s1_A s2_A s3_A s4_A s5_A s6_A s7_A)
  clear s1_A s2_A s3_A s4_A s5_A s6_A s7_A
  have cums1 := combine 288 hcum hcols1 rfl
  clear hcum hcols1
  refine extract_store_rule accSm s7_0 s7_1 s7_2 (by decide) (by decide) s7_c0 s7_c1 s7_c2 ?_
  intro es8 s8_Fx s8_o s8_c0 s8_c1 s8_c2
  have fs1_a_d_2 := transport s8_Fx Fs7 (by decide) (by decide) h_a_d_2
  have fs1_b_d_2 := transport s8_Fx Fs7 (by decide) (by decide) h_b_d_2
  have fs1_a_d_3 := transport s8_Fx Fs7 (by decide) (by decide) h_a_d_3
  have fs1_b_d_3 := transport s8_Fx Fs7 (by decide) (by decide) h_b_d_3
  have fs1_a_d_4 := transport s8_Fx Fs7 (by decide) (by decide) h_a_d_4
  have fs1_b_d_4 := transport s8_Fx Fs7 (by decide) (by decide) h_b_d_4
  have fs1_a_d_5 := transport s8_Fx Fs7 (by decide) (by decide) h_a_d_5
  have fs1_b_d_5 := transport s8_Fx Fs7 (by decide) (by decide) h_b_d_5
  have fs1_a_d_6 := transport s8_Fx Fs7 (by decide) (by decide) h_a_d_6
  have fs1_b_d_6 := transport s8_Fx Fs7 (by decide) (by decide) h_b_d_6
  have fs1_a_d_7 := transport s8_Fx Fs7 (by decide) (by decide) h_a_d_7
  have fs1_b_d_7 := transport s8_Fx Fs7 (by decide) (by decide) h_b_d_7
  have fs1_l_0 := transport s8_Fx Fs7 (by decide) (by decide) h_l_0
  have fs1_l_1 := transport s8_Fx Fs7 (by decide) (by decide) h_l_1
  have fs1_l_2 := transport s8_Fx Fs7 (by decide) (by decide) h_l_2
  have fs1_l_3 := transport s8_Fx Fs7 (by decide) (by decide) h_l_3
  have fs1_l_4 := transport s8_Fx Fs7 (by decide) (by decide) h_l_4
  have fs1_l_5 := transport s8_Fx Fs7 (by decide) (by decide) h_l_5
  have fs1_l_6 := transport s8_Fx Fs7 (by decide) (by decide) h_l_6
  have fs1_l_7 := transport s8_Fx Fs7 (by decide) (by decide) h_l_7
  have s8_B := extract_bound32 s7_B
  conv at s8_B => rhs; simp only [Nat.reducePow, Nat.reduceDiv]
  clear h_a_d_1 h_b_d_1 h_a_d_2 h_b_d_2 h_a_d_3 h_b_d_3 h_a_d_4 h_b_d_4 h_a_d_5 h_b_d_5 h_a_d_6 h_b_d_6 h_a_d_7 h_b_d_7 h_l_0 h_l_1 h_l_2 h_l_3 h_l_4 h_l_5 h_l_6 h_l_7 s7_c0 s7_c1 s7_c2 s7_B s8_Fx Fs7
  clear es7 env
  refine muladd_rule accSm s7_1 s7_2 0 a2 b7 4294967295 4294967295 _ (by decide) (by decide) s8_c0 s8_c1 s8_c2 (ev_idx_of (Frame.refl accSm es8) (by decide) fs1_a_d_2) (ev_idx_of (Frame.refl accSm es8) (by decide) fs1_b_d_7) s7_lt1 s7_lt2 (le_of_lt32 A2) (le_of_lt32 B7) (by decide) (by decide) s8_B (by decide) ?_
  intro es9 s9_0 s9_1 s9_2 s9_F s9_c0 s9_c1 s9_c2 s9_lt0 s9_lt1 s9_lt2 s9_A s9_B
  replace s9_A := s9_A.trans (z3_xy0 _ _ _)
  conv at s9_B => rhs; simp only [Nat.reducePow, Nat.reduceSub, Nat.reduceMul, Nat.reduceAdd]
  clear s8_c0 s8_c1 s8_c2 s8_B s7_lt1 s7_lt2
  refine muladd_rule accSm s9_0 s9_1 s9_2 a3 b6 4294967295 4294967295 _ (by decide) (by decide) s9_c0 s9_c1 s9_c2 (ev_idx_of s9_F (by decide) fs1_a_d_3) (ev_idx_of s9_F (by decide) fs1_b_d_6) s9_lt0 s9_lt1 (le_of_lt32 A3) (le_of_lt32 B6) (by decide) (by decide) s9_B (by decide) ?_
  intro es10 s10_0 s10_1 s10_2 s10_F s10_c0 s10_c1 s10_c2 s10_lt0 s10_lt1 s10_lt2 s10_A s10_B
  conv at s10_B => rhs; simp only [Nat.reducePow, Nat.reduceSub, Nat.reduceMul, Nat.reduceAdd]
  have Fs10 := s9_F.trans s10_F
  clear s9_F s10_F s9_c0 s9_c1 s9_c2 s9_B s9_lt0 s9_lt1 s9_lt2
  clear es9
  refine muladd_rule accSm s10_0 s10_1 s10_2 a4 b5 4294967295 4294967295 _ (by decide) (by decide) s10_c0 s10_c1 s10_c2 (ev_idx_of Fs10 (by decide) fs1_a_d_4) (ev_idx_of Fs10 (by decide) fs1_b_d_5) s10_lt0 s10_lt1 (le_of_lt32 A4) (le_of_lt32 B5) (by decide) (by decide) s10_B (by decide) ?_
  intro es11 s11_0 s11_1 s11_2 s11_F s11_c0 s11_c1 s11_c2 s11_lt0 s11_lt1 s11_lt2 s11_A s11_B
  conv at s11_B => rhs; simp only [Nat.reducePow, Nat.reduceSub, Nat.reduceMul, Nat.reduceAdd]
  have Fs11 := Fs10.trans s11_F
  clear Fs10 s11_F s10_c0 s10_c1 s10_c2 s10_B s10_lt0 s10_lt1 s10_lt2
  clear es10
  refine muladd_rule accSm s11_0 s11_1 s11_2 a5 b4 4294967295 4294967295 _ (by decide) (by decide) s11_c0 s11_c1 s11_c2 (ev_idx_of Fs11 (by decide) fs1_a_d_5) (ev_idx_of Fs11 (by decide) fs1_b_d_4) s11_lt0 s11_lt1 (le_of_lt32 A5) (le_of_lt32 B4) (by decide) (by decide) s11_B (by decide) ?_
  intro es12 s12_0 s12_1 s12_2 s12_F s12_c0 s12_c1 s12_c2 s12_lt0 s12_lt1 s12_lt2 s12_A s12_B
  conv at s12_B => rhs; simp only [Nat.reducePow, Nat.reduceSub, Nat.reduceMul, Nat.reduceAdd]
  have Fs12 := Fs11.trans s12_F
  clear Fs11 s12_F s11_c0 s11_c1 s11_c2 s11_B s11_lt0 s11_lt1 s11_lt2
  clear es11
  refine muladd_rule accSm s12_0 s12_1 s12_2 a6 b3 4294967295 4294967295 _ (by decide) (by decide) s12_c0 s12_c1 s12_c2 (ev_idx_of Fs12 (by decide) fs1_a_d_6) (ev_idx_of Fs12 (by decide) fs1_b_d_3) s12_lt0 s12_lt1 (le_of_lt32 A6) (le_of_lt32 B3) (by decide) (by decide) s12_B (by decide) ?_
  intro es13 s13_0 s13_1 s13_2 s13_F s13_c0 s13_c1 s13_c2 s13_lt0 s13_lt1 s13_lt2 s13_A s13_B
  conv at s13_B => rhs; simp only [Nat.reducePow, Nat.reduceSub, Nat.reduceMul, Nat.reduceAdd]
  have Fs13 := Fs12.trans s13_F
  clear Fs12 s13_F s12_c0 s12_c1 s12_c2 s12_B s12_lt0 s12_lt1 s12_lt2
  clear es12
  refine muladd_rule accSm s13_0 s13_1 s13_2 a7 b2 4294967295 4294967295 _ (by decide) (by decide) s13_c0 s13_c1 s13_c2 (ev_idx_of Fs13 (by decide) fs1_a_d_7) (ev_idx_of Fs13 (by decide) fs1_b_d_2) s13_lt0 s13_lt1 (le_of_lt32 A7) (le_of_lt32 B2) (by decide) (by decide) s13_B (by decide) ?_
  intro es14 s14_0 s14_1 s14_2 s14_F s14_c0 s14_c1 s14_c2 s14_lt0 s14_lt1 s14_lt2 s14_A s14_B
  conv at s14_B => rhs; simp only [Nat.reducePow, Nat.reduceSub, Nat.reduceMul, Nat.reduceAdd]
  have Fs14 := Fs13.trans s14_F
  clear Fs13 s14_F s13_c0 s13_c1 s13_c2 s13_B s13_lt0 s13_lt1 s13_lt2
  clear es13
  have hcols2 : s14_0 + (s14_1 + s14_2 * 2 ^ 32) * 2 ^ 32 = s7_1 + s7_2 * 2 ^ 32 + (a2 * b7 + a3 * b6 + a4 * b5 + a5 * b4 + a6 * b3 + a7 * b2) := (reshape3 s14_0 s14_1 s14_2).trans (colsum6 s9_A s10_A s11_A s12_A s13_A s14_A)
  clear s9_A s10_A s11_A s12_A s13_A s14_A
  have cums2 := combine 320 cums1 hcols2 rfl
  clear cums1 hcols2
  refine extract_store_rule accSm s14_0 s14_1 s14_2 (by decide) (by decide) s14_c0 s14_c1 s14_c2 ?_
  intro es15 s15_Fx s15_o s15_c0 s15_c1 s15_c2
  have fs2_a_d_3 := transport s15_Fx Fs14 (by decide) (by decide) fs1_a_d_3
  have fs2_b_d_3 := transport s15_Fx Fs14 (by decide) (by decide) fs1_b_d_3
  have fs2_a_d_4 := transport s15_Fx Fs14 (by decide) (by decide) fs1_a_d_4
  have fs2_b_d_4 := transport s15_Fx Fs14 (by decide) (by decide) fs1_b_d_4
  have fs2_a_d_5 := transport s15_Fx Fs14 (by decide) (by decide) fs1_a_d_5
  have fs2_b_d_5 := transport s15_Fx Fs14 (by decide) (by decide) fs1_b_d_5
  have fs2_a_d_6 := transport s15_Fx Fs14 (by decide) (by decide) fs1_a_d_6
  have fs2_b_d_6 := transport s15_Fx Fs14 (by decide) (by decide) fs1_b_d_6
  have fs2_a_d_7 := transport s15_Fx Fs14 (by decide) (by decide) fs1_a_d_7
  have fs2_b_d_7 := transport s15_Fx Fs14 (by decide) (by decide) fs1_b_d_7
  have fs2_l_0 := transport s15_Fx Fs14 (by decide) (by decide) fs1_l_0
  have fs2_l_1 := transport s15_Fx Fs14 (by decide) (by decide) fs1_l_1
  have fs2_l_2 := transport s15_Fx Fs14 (by decide) (by decide) fs1_l_2
  have fs2_l_3 := transport s15_Fx Fs14 (by decide) (by decide) fs1_l_3
  have fs2_l_4 := transport s15_Fx Fs14 (by decide) (by decide) fs1_l_4
  have fs2_l_5 := transport s15_Fx Fs14 (by decide) (by decide) fs1_l_5
  have fs2_l_6 := transport s15_Fx Fs14 (by decide) (by decide) fs1_l_6
  have fs2_l_7 := transport s15_Fx Fs14 (by decide) (by decide) fs1_l_7
  have fs2_l_8 := transport s15_Fx Fs14 (by decide) (by decide) s8_o
  have s15_B := extract_bound32 s14_B
  conv at s15_B => rhs; simp only [Nat.reducePow, Nat.reduceDiv]
  clear fs1_a_d_2 fs1_b_d_2 fs1_a_d_3 fs1_b_d_3 fs1_a_d_4 fs1_b_d_4 fs1_a_d_5 fs1_b_d_5 fs1_a_d_6 fs1_b_d_6 fs1_a_d_7 fs1_b_d_7 fs1_l_0 fs1_l_1 fs1_l_2 fs1_l_3 fs1_l_4 fs1_l_5 fs1_l_6 fs1_l_7 s8_o s14_c0 s14_c1 s14_c2 s14_B s15_Fx Fs14
  clear es14 es8
  exact scalar_mul_run_p4 es15 a0 a1 a2 a3 a4 a5 a6 a7 b0 b1 b2 b3 b4 b5 b6 b7 v3_0 v3_1 v3_2 v3_3 v3_4 v3_5 v3_6 v3_7 s7_0 s14_0 s14_1 s14_2 A0 A1 A2 A3 A4 A5 A6 A7 B0 B1 B2 B3 B4 B5 B6 B7 fs2_a_d_3 fs2_b_d_3 fs2_a_d_4 fs2_b_d_4 fs2_a_d_5 fs2_b_d_5 fs2_a_d_6 fs2_b_d_6 fs2_a_d_7 fs2_b_d_7 fs2_l_0 fs2_l_1 fs2_l_2 fs2_l_3 fs2_l_4 fs2_l_5 fs2_l_6 fs2_l_7 fs2_l_8 s15_o L_v3_0 L_v3_1 L_v3_2 L_v3_3 L_v3_4 L_v3_5 L_v3_6 L_v3_7 s7_lt0 s14_lt0 s14_lt1 s14_lt2 s15_c0 s15_c1 s15_c2 s15_B cums2

set_option maxRecDepth 100000 in
set_option maxHeartbeats 4000000 in
theorem scalar_mul_run_p2 (env : Env) (a0 a1 a2 a3 a4 a5 a6 a7 b0 b1 b2 b3 b4 b5 b6 b7 : Nat) (v2_0 v2_1 v2_2 v2_3 v2_4 v2_5 v2_6 v2_7 : Nat) (A0 : a0 < 2 ^ 32) (A1 : a1 < 2 ^ 32) (A2 : a2 < 2 ^ 32) (A3 : a3 < 2 ^ 32) (A4 : a4 < 2 ^ 32) (A5 : a5 < 2 ^ 32) (A6 : a6 < 2 ^ 32) (A7 : a7 < 2 ^ 32) (B0 : b0 < 2 ^ 32) (B1 : b1 < 2 ^ 32) (B2 : b2 < 2 ^ 32) (B3 : b3 < 2 ^ 32) (B4 : b4 < 2 ^ 32) (B5 : b5 < 2 ^ 32) (B6 : b6 < 2 ^ 32) (B7 : b7 < 2 ^ 32) 
    (h_a_d_0 : env.get "a.d" 0 = a0)
    (h_b_d_0 : env.get "b.d" 0 = b0)
    (h_a_d_1 : env.get "a.d" 1 = a1)
    (h_b_d_1 : env.get "b.d" 1 = b1)
    (h_a_d_2 : env.get "a.d" 2 = a2)
    (h_b_d_2 : env.get "b.d" 2 = b2)
    (h_a_d_3 : env.get "a.d" 3 = a3)
    (h_b_d_3 : env.get "b.d" 3 = b3)
    (h_a_d_4 : env.get "a.d" 4 = a4)
    (h_b_d_4 : env.get "b.d" 4 = b4)
    (h_a_d_5 : env.get "a.d" 5 = a5)
    (h_b_d_5 : env.get "b.d" 5 = b5)
    (h_a_d_6 : env.get "a.d" 6 = a6)
    (h_b_d_6 : env.get "b.d" 6 = b6)
    (h_a_d_7 : env.get "a.d" 7 = a7)
    (h_b_d_7 : env.get "b.d" 7 = b7)
    (h_l_0 : env.get "l" 0 = v2_0)
    (h_l_1 : env.get "l" 1 = v2_1)
    (h_l_2 : env.get "l" 2 = v2_2)
    (h_l_3 : env.get "l" 3 = v2_3)
    (h_l_4 : env.get "l" 4 = v2_4)
    (h_l_5 : env.get "l" 5 = v2_5)
    (L_v2_0 : v2_0 < 2 ^ 32)
    (L_v2_1 : v2_1 < 2 ^ 32)
    (L_v2_2 : v2_2 < 2 ^ 32)
    (L_v2_3 : v2_3 < 2 ^ 32)
    (L_v2_4 : v2_4 < 2 ^ 32)
    (L_v2_5 : v2_5 < 2 ^ 32)
    (L_v2_6 : v2_6 < 2 ^ 32)
    (L_v2_7 : v2_7 < 2 ^ 32)
    (hc0 : env.get "scalar_mul_512_3.c0" 0 = v2_6)
    (hc1 : env.get "scalar_mul_512_3.c1" 0 = v2_7)
    (hc2 : env.get "scalar_mul_512_3.c2" 0 = 0)
    (hB : v2_6 + v2_7 * 2 ^ 32 + 0 * 2 ^ 64 ≤ 25769803769)
    (hcum : v2_0 + v2_1 * 2 ^ 32 + v2_2 * 2 ^ 64 + v2_3 * 2 ^ 96 + v2_4 * 2 ^ 128 + v2_5 * 2 ^ 160 + (v2_6 + v2_7 * 2 ^ 32) * 2 ^ 192 = (a0 * b0) + (a0 * b1 + a1 * b0) * 2 ^ 32 + (a0 * b2 + a1 * b1 + a2 * b0) * 2 ^ 64 + (a0 * b3 + a1 * b2 + a2 * b1 + a3 * b0) * 2 ^ 96 + (a0 * b4 + a1 * b3 + a2 * b2 + a3 * b1 + a4 * b0) * 2 ^ 128 + (a0 * b5 + a1 * b4 + a2 * b3 + a3 * b2 + a4 * b1 + a5 * b0) * 2 ^ 160) :
    RedPost (val8x32 a0 a1 a2 a3 a4 a5 a6 a7 * val8x32 b0 b1 b2 b3 b4 b5 b6 b7) (runR env (Gen.scalar8x32.scalar_mul.body.drop 172)) := by
  simp only [Gen.scalar8x32.scalar_mul, List.drop_succ_cons, List.drop_zero]
  refine muladd_rule accSm v2_6 v2_7 0 a0 b6 4294967295 4294967295 _ (by decide) (by decide) hc0 hc1 hc2 (ev_idx_of (Frame.refl accSm env) (by decide) h_a_d_0) (ev_idx_of (Frame.refl accSm env) (by decide) h_b_d_6) L_v2_6 L_v2_7 (le_of_lt32 A0) (le_of_lt32 B6) (by decide) (by decide) hB (by decide) ?_
  intro es1 s1_0 s1_1 s1_2 s1_F s1_c0 s1_c1 s1_c2 s1_lt0 s1_lt1 s1_lt2 s1_A s1_B
  replace s1_A := s1_A.trans (z3_xy0 _ _ _)
  conv at s1_B => rhs; simp only [Nat.reducePow, Nat.reduceSub, Nat.reduceMul, Nat.reduceAdd]
  clear hc0 hc1 hc2 hB L_v2_6 L_v2_7
  refine muladd_rule accSm s1_0 s1_1 s1_2 a1 b5 4294967295 4294967295 _ (by decide) (by decide) s1_c0 s1_c1 s1_c2 (ev_idx_of s1_F (by decide) h_a_d_1) (ev_idx_of s1_F (by decide) h_b_d_5) s1_lt0 s1_lt1 (le_of_lt32 A1) (le_of_lt32 B5) (by decide) (by decide) s1_B (by decide) ?_
  intro es2 s2_0 s2_1 s2_2 s2_F s2_c0 s2_c1 s2_c2 s2_lt0 s2_lt1 s2_lt2 s2_A s2_B
  conv at s2_B => rhs; simp only [Nat.reducePow, Nat.reduceSub, Nat.reduceMul, Nat.reduceAdd]
  have Fs2 := s1_F.trans s2_F
  clear s1_F s2_F s1_c0 s1_c1 s1_c2 s1_B s1_lt0 s1_lt1 s1_lt2
  clear es1
  refine muladd_rule accSm s2_0 s2_1 s2_2 a2 b4 4294967295 4294967295 _ (by decide) (by decide) s2_c0 s2_c1 s2_c2 (ev_idx_of Fs2 (by decide) h_a_d_2) (ev_idx_of Fs2 (by decide) h_b_d_4) s2_lt0 s2_lt1 (le_of_lt32 A2) (le_of_lt32 B4) (by decide) (by decide) s2_B (by decide) ?_
  intro es3 s3_0 s3_1 s3_2 s3_F s3_c0 s3_c1 s3_c2 s3_lt0 s3_lt1 s3_lt2 s3_A s3_B
  conv at s3_B => rhs; simp only [Nat.reducePow, Nat.reduceSub, Nat.reduceMul, Nat.reduceAdd]
  have Fs3 := Fs2.trans s3_F
  clear Fs2 s3_F s2_c0 s2_c1 s2_c2 s2_B s2_lt0 s2_lt1 s2_lt2
  clear es2
  refine muladd_rule accSm s3_0 s3_1 s3_2 a3 b3 4294967295 4294967295 _ (by decide) (by decide) s3_c0 s3_c1 s3_c2 (ev_idx_of Fs3 (by decide) h_a_d_3) (ev_idx_of Fs3 (by decide) h_b_d_3) s3_lt0 s3_lt1 (le_of_lt32 A3) (le_of_lt32 B3) (by decide) (by decide) s3_B (by decide) ?_
  intro es4 s4_0 s4_1 s4_2 s4_F s4_c0 s4_c1 s4_c2 s4_lt0 s4_lt1 s4_lt2 s4_A s4_B
  conv at s4_B => rhs; simp only [Nat.reducePow, Nat.reduceSub, Nat.reduceMul, Nat.reduceAdd]
  have Fs4 := Fs3.trans s4_F
  clear Fs3 s4_F s3_c0 s3_c1 s3_c2 s3_B s3_lt0 s3_lt1 s3_lt2
  clear es3
  refine muladd_rule accSm s4_0 s4_1 s4_2 a4 b2 4294967295 4294967295 _ (by decide) (by decide) s4_c0 s4_c1 s4_c2 (ev_idx_of Fs4 (by decide) h_a_d_4) (ev_idx_of Fs4 (by decide) h_b_d_2) s4_lt0 s4_lt1 (le_of_lt32 A4) (le_of_lt32 B2) (by decide) (by decide) s4_B (by decide) ?_
  intro es5 s5_0 s5_1 s5_2 s5_F s5_c0 s5_c1 s5_c2 s5_lt0 s5_lt1 s5_lt2 s5_A s5_B
  conv at s5_B => rhs; simp only [Nat.reducePow, Nat.reduceSub, Nat.reduceMul, Nat.reduceAdd]
  have Fs5 := Fs4.trans s5_F
  clear Fs4 s5_F s4_c0 s4_c1 s4_c2 s4_B s4_lt0 s4_lt1 s4_lt2
  clear es4
  refine muladd_rule accSm s5_0 s5_1 s5_2 a5 b1 4294967295 4294967295 _ (by decide) (by decide) s5_c0 s5_c1 s5_c2 (ev_idx_of Fs5 (by decide) h_a_d_5) (ev_idx_of Fs5 (by decide) h_b_d_1) s5_lt0 s5_lt1 (le_of_lt32 A5) (le_of_lt32 B1) (by decide) (by decide) s5_B (by decide) ?_
  intro es6 s6_0 s6_1 s6_2 s6_F s6_c0 s6_c1 s6_c2 s6_lt0 s6_lt1 s6_lt2 s6_A s6_B
  conv at s6_B => rhs; simp only [Nat.reducePow, Nat.reduceSub, Nat.reduceMul, Nat.reduceAdd]
  have Fs6 := Fs5.trans s6_F
  clear Fs5 s6_F s5_c0 s5_c1 s5_c2 s5_B s5_lt0 s5_lt1 s5_lt2
  clear es5
  refine muladd_rule accSm s6_0 s6_1 s6_2 a6 b0 4294967295 4294967295 _ (by decide) (by decide) s6_c0 s6_c1 s6_c2 (ev_idx_of Fs6 (by decide) h_a_d_6) (ev_idx_of Fs6 (by decide) h_b_d_0) s6_lt0 s6_lt1 (le_of_lt32 A6) (le_of_lt32 B0) (by decide) (by decide) s6_B (by decide) ?_
  intro es7 s7_0 s7_1 s7_2 s7_F s7_c0 s7_c1 s7_c2 s7_lt0 s7_lt1 s7_lt2 s7_A s7_B
  conv at s7_B => rhs; simp only [Nat.reducePow, Nat.reduceSub, Nat.reduceMul, Nat.reduceAdd]
  have Fs7 := Fs6.trans s7_F
  clear Fs6 s7_F s6_c0 s6_c1 s6_c2 s6_B s6_lt0 s6_lt1 s6_lt2
  clear es6
  have hcols1 : s7_0 + (s7_1 + s7_2 * 2 ^ 32) * 2 ^ 32 = v2_6 + v2_7 * 2 ^ 32 + (a0 * b6 + a1 * b5 + a2 * b4 + a3 * b3 + a4 * b2 + a5 * b1 + a6 * b0) := (reshape3 s7_0 s7_1 s7_2).trans (colsum7 s1_A s2_A s3_A s4_A s5_A s6_A s7_A)
  clear s1_A s2_A s3_A s4_A s5_A s6_A s7_A
  have cums1 := combine 224 hcum hcols1 rfl
  clear hcum hcols1
  refine extract_store_rule accSm s7_0 s7_1 s7_2 (by decide) (by decide) s7_c0 s7_c1 s7_c2 ?_
  intro es8 s8_Fx s8_o s8_c0 s8_c1 s8_c2
  have fs1_a_d_0 := transport s8_Fx Fs7 (by decide) (by decide) h_a_d_0
  have fs1_b_d_0 := transport s8_Fx Fs7 (by decide) (by decide) h_b_d_0
  have fs1_a_d_1 := transport s8_Fx Fs7 (by decide) (by decide) h_a_d_1
  have fs1_b_d_1 := transport s8_Fx Fs7 (by decide) (by decide) h_b_d_1
  have fs1_a_d_2 := transport s8_Fx Fs7 (by decide) (by decide) h_a_d_2
  have fs1_b_d_2 := transport s8_Fx Fs7 (by decide) (by decide) h_b_d_2
  have fs1_a_d_3 := transport s8_Fx Fs7 (by decide) (by decide) h_a_d_3
  have fs1_b_d_3 := transport s8_Fx Fs7 (by decide) (by decide) h_b_d_3
  have fs1_a_d_4 := transport s8_Fx Fs7 (by decide) (by decide) h_a_d_4
  have fs1_b_d_4 := transport s8_Fx Fs7 (by decide) (by decide) h_b_d_4
  have fs1_a_d_5 := transport s8_Fx Fs7 (by decide) (by decide) h_a_d_5
  have fs1_b_d_5 := transport s8_Fx Fs7 (by decide) (by decide) h_b_d_5
  have fs1_a_d_6 := transport s8_Fx Fs7 (by decide) (by decide) h_a_d_6
  have fs1_b_d_6 := transport s8_Fx Fs7 (by decide) (by decide) h_b_d_6
  have fs1_a_d_7 := transport s8_Fx Fs7 (by decide) (by decide) h_a_d_7
  have fs1_b_d_7 := transport s8_Fx Fs7 (by decide) (by decide) h_b_d_7
  have fs1_l_0 := transport s8_Fx Fs7 (by decide) (by decide) h_l_0
  have fs1_l_1 := transport s8_Fx Fs7 (by decide) (by decide) h_l_1
  have fs1_l_2 := transport s8_Fx Fs7 (by decide) (by decide) h_l_2
  have fs1_l_3 := transport s8_Fx Fs7 (by decide) (by decide) h_l_3
  have fs1_l_4 := transport s8_Fx Fs7 (by decide) (by decide) h_l_4
  have fs1_l_5 := transport s8_Fx Fs7 (by decide) (by decide) h_l_5
  have s8_B := extract_bound32 s7_B
  conv at s8_B => rhs; simp only [Nat.reducePow, Nat.reduceDiv]
  clear h_a_d_0 h_b_d_0 h_a_d_1 h_b_d_1 h_a_d_2 h_b_d_2 h_a_d_3 h_b_d_3 h_a_d_4 h_b_d_4 h_a_d_5 h_b_d_5 h_a_d_6 h_b_d_6 h_a_d_7 h_b_d_7 h_l_0 h_l_1 h_l_2 h_l_3 h_l_4 h_l_5 s7_c0 s7_c1 s7_c2 s7_B s8_Fx Fs7
  clear es7 env
  refine muladd_rule accSm s7_1 s7_2 0 a0 b7 4294967295 4294967295 _ (by decide) (by decide) s8_c0 s8_c1 s8_c2 (ev_idx_of (Frame.refl accSm es8) (by decide) fs1_a_d_0) (ev_idx_of (Frame.refl accSm es8) (by decide) fs1_b_d_7) s7_lt1 s7_lt2 (le_of_lt32 A0) (le_of_lt32 B7) (by decide) (by decide) s8_B (by decide) ?_
  intro es9 s9_0 s9_1 s9_2 s9_F s9_c0 s9_c1 s9_c2 s9_lt0 s9_lt1 s9_lt2 s9_A s9_B
  replace s9_A := s9_A.trans (z3_xy0 _ _ _)
  conv at s9_B => rhs; simp only [Nat.reducePow, Nat.reduceSub, Nat.reduceMul, Nat.reduceAdd]
  clear s8_c0 s8_c1 s8_c2 s8_B s7_lt1 s7_lt2
  refine muladd_rule accSm s9_0 s9_1 s9_2 a1 b6 4294967295 4294967295 _ (by decide) (by decide) s9_c0 s9_c1 s9_c2 (ev_idx_of s9_F (by decide) fs1_a_d_1) (ev_idx_of s9_F (by decide) fs1_b_d_6) s9_lt0 s9_lt1 (le_of_lt32 A1) (le_of_lt32 B6) (by decide) (by decide) s9_B (by decide) ?_
  intro es10 s10_0 s10_1 s10_2 s10_F s10_c0 s10_c1 s10_c2 s10_lt0 s10_lt1 s10_lt2 s10_A s10_B
  conv at s10_B => rhs; simp only [Nat.reducePow, Nat.reduceSub, Nat.reduceMul, Nat.reduceAdd]
  have Fs10 := s9_F.trans s10_F
  clear s9_F s10_F s9_c0 s9_c1 s9_c2 s9_B s9_lt0 s9_lt1 s9_lt2
  clear es9
  refine muladd_rule accSm s10_0 s10_1 s10_2 a2 b5 4294967295 4294967295 _ (by decide) (by decide) s10_c0 s10_c1 s10_c2 (ev_idx_of Fs10 (by decide) fs1_a_d_2) (ev_idx_of Fs10 (by decide) fs1_b_d_5) s10_lt0 s10_lt1 (le_of_lt32 A2) (le_of_lt32 B5) (by decide) (by decide) s10_B (by decide) ?_
  intro es11 s11_0 s11_1 s11_2 s11_F s11_c0 s11_c1 s11_c2 s11_lt0 s11_lt1 s11_lt2 s11_A s11_B
  conv at s11_B => rhs; simp only [Nat.reducePow, Nat.reduceSub, Nat.reduceMul, Nat.reduceAdd]
  have Fs11 := Fs10.trans s11_F
  clear Fs10 s11_F s10_c0 s10_c1 s10_c2 s10_B s10_lt0 s10_lt1 s10_lt2
  clear es10
  refine muladd_rule accSm s11_0 s11_1 s11_2 a3 b4 4294967295 4294967295 _ (by decide) (by decide) s11_c0 s11_c1 s11_c2 (ev_idx_of Fs11 (by decide) fs1_a_d_3) (ev_idx_of Fs11 (by decide) fs1_b_d_4) s11_lt0 s11_lt1 (le_of_lt32 A3) (le_of_lt32 B4) (by decide) (by decide) s11_B (by decide) ?_
  intro es12 s12_0 s12_1 s12_2 s12_F s12_c0 s12_c1 s12_c2 s12_lt0 s12_lt1 s12_lt2 s12_A s12_B
  conv at s12_B => rhs; simp only [Nat.reducePow, Nat.reduceSub, Nat.reduceMul, Nat.reduceAdd]
  have Fs12 := Fs11.trans s12_F
  clear Fs11 s12_F s11_c0 s11_c1 s11_c2 s11_B s11_lt0 s11_lt1 s11_lt2
  clear es11
  refine muladd_rule accSm s12_0 s12_1 s12_2 a4 b3 4294967295 4294967295 _ (by decide) (by decide) s12_c0 s12_c1 s12_c2 (ev_idx_of Fs12 (by decide) fs1_a_d_4) (ev_idx_of Fs12 (by decide) fs1_b_d_3) s12_lt0 s12_lt1 (le_of_lt32 A4) (le_of_lt32 B3) (by decide) (by decide) s12_B (by decide) ?_
  intro es13 s13_0 s13_1 s13_2 s13_F s13_c0 s13_c1 s13_c2 s13_lt0 s13_lt1 s13_lt2 s13_A s13_B
  conv at s13_B => rhs; simp only [Nat.reducePow, Nat.reduceSub, Nat.reduceMul, Nat.reduceAdd]
  have Fs13 := Fs12.trans s13_F
  clear Fs12 s13_F s12_c0 s12_c1 s12_c2 s12_B s12_lt0 s12_lt1 s12_lt2
  clear es12
  refine muladd_rule accSm s13_0 s13_1 s13_2 a5 b2 4294967295 4294967295 _ (by decide) (by decide) s13_c0 s13_c1 s13_c2 (ev_idx_of Fs13 (by decide) fs1_a_d_5) (ev_idx_of Fs13 (by decide) fs1_b_d_2) s13_lt0 s13_lt1 (le_of_lt32 A5) (le_of_lt32 B2) (by decide) (by decide) s13_B (by decide) ?_
  intro es14 s14_0 s14_1 s14_2 s14_F s14_c0 s14_c1 s14_c2 s14_lt0 s14_lt1 s14_lt2 s14_A s14_B
  conv at s14_B => rhs; simp only [Nat.reducePow, Nat.reduceSub, Nat.reduceMul, Nat.reduceAdd]
  have Fs14 := Fs13.trans s14_F
  clear Fs13 s14_F s13_c0 s13_c1 s13_c2 s13_B s13_lt0 s13_lt1 s13_lt2
  clear es13
  refine muladd_rule accSm s14_0 s14_1 s14_2 a6 b1 4294967295 4294967295 _ (by decide) (by decide) s14_c0 s14_c1 s14_c2 (ev_idx_of Fs14 (by decide) fs1_a_d_6) (ev_idx_of Fs14 (by decide) fs1_b_d_1) s14_lt0 s14_lt1 (le_of_lt32 A6) (le_of_lt32 B1) (by decide) (by decide) s14_B (by decide) ?_
  intro es15 s15_0 s15_1 s15_2 s15_F s15_c0 s15_c1 s15_c2 s15_lt0 s15_lt1 s15_lt2 s15_A s15_B
  conv at s15_B => rhs; simp only [Nat.reducePow, Nat.reduceSub, Nat.reduceMul, Nat.reduceAdd]
  have Fs15 := Fs14.trans s15_F
  clear Fs14 s15_F s14_c0 s14_c1 s14_c2 s14_B s14_lt0 s14_lt1 s14_lt2
  clear es14
  refine muladd_rule accSm s15_0 s15_1 s15_2 a7 b0 4294967295 4294967295 _ (by decide) (by decide) s15_c0 s15_c1 s15_c2 (ev_idx_of Fs15 (by decide) fs1_a_d_7) (ev_idx_of Fs15 (by decide) fs1_b_d_0) s15_lt0 s15_lt1 (le_of_lt32 A7) (le_of_lt32 B0) (by decide) (by decide) s15_B (by decide) ?_
  intro es16 s16_0 s16_1 s16_2 s16_F s16_c0 s16_c1 s16_c2 s16_lt0 s16_lt1 s16_lt2 s16_A s16_B
  conv at s16_B => rhs; simp only [Nat.reducePow, Nat.reduceSub, Nat.reduceMul, Nat.reduceAdd]
  have Fs16 := Fs15.trans s16_F
  clear Fs15 s16_F s15_c0 s15_c1 s15_c2 s15_B s15_lt0 s15_lt1 s15_lt2
  clear es15
  have hcols2 : s16_0 + (s16_1 + s16_2 * 2 ^ 32) * 2 ^ 32 = s7_1 + s7_2 * 2 ^ 32 + (a0 * b7 + a1 * b6 + a2 * b5 + a3 * b4 + a4 * b3 + a5 * b2 + a6 * b1 + a7 * b0) := (reshape3 s16_0 s16_1 s16_2).trans (colsum8 s9_A s10_A s11_A s12_A s13_A s14_A s15_A s16_A)
  clear s9_A s10_A s11_A s12_A s13_A s14_A s15_A s16_A
  have cums2 := combine 256 cums1 hcols2 rfl
  clear cums1 hcols2
  refine extract_store_rule accSm s16_0 s16_1 s16_2 (by decide) (by decide) s16_c0 s16_c1 s16_c2 ?_
  intro es17 s17_Fx s17_o s17_c0 s17_c1 s17_c2
  have fs2_a_d_1 := transport s17_Fx Fs16 (by decide) (by decide) fs1_a_d_1
  have fs2_b_d_1 := transport s17_Fx Fs16 (by decide) (by decide) fs1_b_d_1
  have fs2_a_d_2 := transport s17_Fx Fs16 (by decide) (by decide) fs1_a_d_2
  have fs2_b_d_2 := transport s17_Fx Fs16 (by decide) (by decide) fs1_b_d_2
  have fs2_a_d_3 := transport s17_Fx Fs16 (by decide) (by decide) fs1_a_d_3
  have fs2_b_d_3 := transport s17_Fx Fs16 (by decide) (by decide) fs1_b_d_3
  have fs2_a_d_4 := transport s17_Fx Fs16 (by decide) (by decide) fs1_a_d_4
  have fs2_b_d_4 := transport s17_Fx Fs16 (by decide) (by decide) fs1_b_d_4
  have fs2_a_d_5 := transport s17_Fx Fs16 (by decide) (by decide) fs1_a_d_5
  have fs2_b_d_5 := transport s17_Fx Fs16 (by decide) (by decide) fs1_b_d_5
  have fs2_a_d_6 := transport s17_Fx Fs16 (by decide) (by decide) fs1_a_d_6
  have fs2_b_d_6 := transport s17_Fx Fs16 (by decide) (by decide) fs1_b_d_6
  have fs2_a_d_7 := transport s17_Fx Fs16 (by decide) (by decide) fs1_a_d_7
  have fs2_b_d_7 := transport s17_Fx Fs16 (by decide) (by decide) fs1_b_d_7
  have fs2_l_0 := transport s17_Fx Fs16 (by decide) (by decide) fs1_l_0
  have fs2_l_1 := transport s17_Fx Fs16 (by decide) (by decide) fs1_l_1
  have fs2_l_2 := transport s17_Fx Fs16 (by decide) (by decide) fs1_l_2
  have fs2_l_3 := transport s17_Fx Fs16 (by decide) (by decide) fs1_l_3
  have fs2_l_4 := transport s17_Fx Fs16 (by decide) (by decide) fs1_l_4
  have fs2_l_5 := transport s17_Fx Fs16 (by decide) (by decide) fs1_l_5
  have fs2_l_6 := transport s17_Fx Fs16 (by decide) (by decide) s8_o
  have s17_B := extract_bound32 s16_B
  conv at s17_B => rhs; simp only [Nat.reducePow, Nat.reduceDiv]
  clear fs1_a_d_0 fs1_b_d_0 fs1_a_d_1 fs1_b_d_1 fs1_a_d_2 fs1_b_d_2 fs1_a_d_3 fs1_b_d_3 fs1_a_d_4 fs1_b_d_4 fs1_a_d_5 fs1_b_d_5 fs1_a_d_6 fs1_b_d_6 fs1_a_d_7 fs1_b_d_7 fs1_l_0 fs1_l_1 fs1_l_2 fs1_l_3 fs1_l_4 fs1_l_5 s8_o s16_c0 s16_c1 s16_c2 s16_B s17_Fx Fs16
  clear es16 es8
  exact scalar_mul_run_p3 es17 a0 a1 a2 a3 a4 a5 a6 a7 b0 b1 b2 b3 b4 b5 b6 b7 v2_0 v2_1 v2_2 v2_3 v2_4 v2_5 s7_0 s16_0 s16_1 s16_2 A0 A1 A2 A3 A4 A5 A6 A7 B0 B1 B2 B3 B4 B5 B6 B7 fs2_a_d_1 fs2_b_d_1 fs2_a_d_2 fs2_b_d_2 fs2_a_d_3 fs2_b_d_3 fs2_a_d_4 fs2_b_d_4 fs2_a_d_5 fs2_b_d_5 fs2_a_d_6 fs2_b_d_6 fs2_a_d_7 fs2_b_d_7 fs2_l_0 fs2_l_1 fs2_l_2 fs2_l_3 fs2_l_4 fs2_l_5 fs2_l_6 s17_o L_v2_0 L_v2_1 L_v2_2 L_v2_3 L_v2_4 L_v2_5 s7_lt0 s16_lt0 s16_lt1 s16_lt2 s17_c0 s17_c1 s17_c2 s17_B cums2

set_option maxRecDepth 100000 in
set_option maxHeartbeats 4000000 in
theorem scalar_mul_run_p1 (env : Env) (a0 a1 a2 a3 a4 a5 a6 a7 b0 b1 b2 b3 b4 b5 b6 b7 : Nat) (v1_0 v1_1 v1_2 v1_3 v1_4 v1_5 : Nat) (A0 : a0 < 2 ^ 32) (A1 : a1 < 2 ^ 32) (A2 : a2 < 2 ^ 32) (A3 : a3 < 2 ^ 32) (A4 : a4 < 2 ^ 32) (A5 : a5 < 2 ^ 32) (A6 : a6 < 2 ^ 32) (A7 : a7 < 2 ^ 32) (B0 : b0 < 2 ^ 32) (B1 : b1 < 2 ^ 32) (B2 : b2 < 2 ^ 32) (B3 : b3 < 2 ^ 32) (B4 : b4 < 2 ^ 32) (B5 : b5 < 2 ^ 32) (B6 : b6 < 2 ^ 32) (B7 : b7 < 2 ^ 32) 
    (h_a_d_0 : env.get "a.d" 0 = a0)
    (h_b_d_0 : env.get "b.d" 0 = b0)
    (h_a_d_1 : env.get "a.d" 1 = a1)
    (h_b_d_1 : env.get "b.d" 1 = b1)
    (h_a_d_2 : env.get "a.d" 2 = a2)
    (h_b_d_2 : env.get "b.d" 2 = b2)
    (h_a_d_3 : env.get "a.d" 3 = a3)
    (h_b_d_3 : env.get "b.d" 3 = b3)
    (h_a_d_4 : env.get "a.d" 4 = a4)
    (h_b_d_4 : env.get "b.d" 4 = b4)
    (h_a_d_5 : env.get "a.d" 5 = a5)
    (h_b_d_5 : env.get "b.d" 5 = b5)
    (h_a_d_6 : env.get "a.d" 6 = a6)
    (h_b_d_6 : env.get "b.d" 6 = b6)
    (h_a_d_7 : env.get "a.d" 7 = a7)
    (h_b_d_7 : env.get "b.d" 7 = b7)
    (h_l_0 : env.get "l" 0 = v1_0)
    (h_l_1 : env.get "l" 1 = v1_1)
    (h_l_2 : env.get "l" 2 = v1_2)
    (h_l_3 : env.get "l" 3 = v1_3)
    (L_v1_0 : v1_0 < 2 ^ 32)
    (L_v1_1 : v1_1 < 2 ^ 32)
    (L_v1_2 : v1_2 < 2 ^ 32)
    (L_v1_3 : v1_3 < 2 ^ 32)
    (L_v1_4 : v1_4 < 2 ^ 32)
    (L_v1_5 : v1_5 < 2 ^ 32)
    (hc0 : env.get "scalar_mul_512_3.c0" 0 = v1_4)
    (hc1 : env.get "scalar_mul_512_3.c1" 0 = v1_5)
    (hc2 : env.get "scalar_mul_512_3.c2" 0 = 0)
    (hB : v1_4 + v1_5 * 2 ^ 32 + 0 * 2 ^ 64 ≤ 17179869179)
    (hcum : v1_0 + v1_1 * 2 ^ 32 + v1_2 * 2 ^ 64 + v1_3 * 2 ^ 96 + (v1_4 + v1_5 * 2 ^ 32) * 2 ^ 128 = (a0 * b0) + (a0 * b1 + a1 * b0) * 2 ^ 32 + (a0 * b2 + a1 * b1 + a2 * b0) * 2 ^ 64 + (a0 * b3 + a1 * b2 + a2 * b1 + a3 * b0) * 2 ^ 96) :
    RedPost (val8x32 a0 a1 a2 a3 a4 a5 a6 a7 * val8x32 b0 b1 b2 b3 b4 b5 b6 b7) (runR env (Gen.scalar8x32.scalar_mul.body.drop 87)) := by
  simp only [Gen.scalar8x32.scalar_mul, List.drop_succ_cons, List.drop_zero]
  refine muladd_rule accSm v1_4 v1_5 0 a0 b4 4294967295 4294967295 _ (by decide) (by decide) hc0 hc1 hc2 (ev_idx_of (Frame.refl accSm env) (by decide) h_a_d_0) (ev_idx_of (Frame.refl accSm env) (by decide) h_b_d_4) L_v1_4 L_v1_5 (le_of_lt32 A0) (le_of_lt32 B4) (by decide) (by decide) hB (by decide) ?_
  intro es1 s1_0 s1_1 s1_2 s1_F s1_c0 s1_c1 s1_c2 s1_lt0 s1_lt1 s1_lt2 s1_A s1_B
  replace s1_A := s1_A.trans (z3_xy0 _ _ _)
  conv at s1_B => rhs; simp only [Nat.reducePow, Nat.reduceSub, Nat.reduceMul, Nat.reduceAdd]
  clear hc0 hc1 hc2 hB L_v1_4 L_v1_5
  refine muladd_rule accSm s1_0 s1_1 s1_2 a1 b3 4294967295 4294967295 _ (by decide) (by decide) s1_c0 s1_c1 s1_c2 (ev_idx_of s1_F (by decide) h_a_d_1) (ev_idx_of s1_F (by decide) h_b_d_3) s1_lt0 s1_lt1 (le_of_lt32 A1) (le_of_lt32 B3) (by decide) (by decide) s1_B (by decide) ?_
  intro es2 s2_0 s2_1 s2_2 s2_F s2_c0 s2_c1 s2_c2 s2_lt0 s2_lt1 s2_lt2 s2_A s2_B
  conv at s2_B => rhs; simp only [Nat.reducePow, Nat.reduceSub, Nat.reduceMul, Nat.reduceAdd]
  have Fs2 := s1_F.trans s2_F
  clear s1_F s2_F s1_c0 s1_c1 s1_c2 s1_B s1_lt0 s1_lt1 s1_lt2
  clear es1
  refine muladd_rule accSm s2_0 s2_1 s2_2 a2 b2 4294967295 4294967295 _ (by decide) (by decide) s2_c0 s2_c1 s2_c2 (ev_idx_of Fs2 (by decide) h_a_d_2) (ev_idx_of Fs2 (by decide) h_b_d_2) s2_lt0 s2_lt1 (le_of_lt32 A2) (le_of_lt32 B2) (by decide) (by decide) s2_B (by decide) ?_
  intro es3 s3_0 s3_1 s3_2 s3_F s3_c0 s3_c1 s3_c2 s3_lt0 s3_lt1 s3_lt2 s3_A s3_B
  conv at s3_B => rhs; simp only [Nat.reducePow, Nat.reduceSub, Nat.reduceMul, Nat.reduceAdd]
  have Fs3 := Fs2.trans s3_F
  clear Fs2 s3_F s2_c0 s2_c1 s2_c2 s2_B s2_lt0 s2_lt1 s2_lt2
  clear es2
  refine muladd_rule accSm s3_0 s3_1 s3_2 a3 b1 4294967295 4294967295 _ (by decide) (by decide) s3_c0 s3_c1 s3_c2 (ev_idx_of Fs3 (by decide) h_a_d_3) (ev_idx_of Fs3 (by decide) h_b_d_1) s3_lt0 s3_lt1 (le_of_lt32 A3) (le_of_lt32 B1) (by decide) (by decide) s3_B (by decide) ?_
  intro es4 s4_0 s4_1 s4_2 s4_F s4_c0 s4_c1 s4_c2 s4_lt0 s4_lt1 s4_lt2 s4_A s4_B
  conv at s4_B => rhs; simp only [Nat.reducePow, Nat.reduceSub, Nat.reduceMul, Nat.reduceAdd]
  have Fs4 := Fs3.trans s4_F
  clear Fs3 s4_F s3_c0 s3_c1 s3_c2 s3_B s3_lt0 s3_lt1 s3_lt2
  clear es3
  refine muladd_rule accSm s4_0 s4_1 s4_2 a4 b0 4294967295 4294967295 _ (by decide) (by decide) s4_c0 s4_c1 s4_c2 (ev_idx_of Fs4 (by decide) h_a_d_4) (ev_idx_of Fs4 (by decide) h_b_d_0) s4_lt0 s4_lt1 (le_of_lt32 A4) (le_of_lt32 B0) (by decide) (by decide) s4_B (by decide) ?_
  intro es5 s5_0 s5_1 s5_2 s5_F s5_c0 s5_c1 s5_c2 s5_lt0 s5_lt1 s5_lt2 s5_A s5_B
  conv at s5_B => rhs; simp only [Nat.reducePow, Nat.reduceSub, Nat.reduceMul, Nat.reduceAdd]
  have Fs5 := Fs4.trans s5_F
  clear Fs4 s5_F s4_c0 s4_c1 s4_c2 s4_B s4_lt0 s4_lt1 s4_lt2
  clear es4
  have hcols1 : s5_0 + (s5_1 + s5_2 * 2 ^ 32) * 2 ^ 32 = v1_4 + v1_5 * 2 ^ 32 + (a0 * b4 + a1 * b3 + a2 * b2 + a3 * b1 + a4 * b0) := (reshape3 s5_0 s5_1 s5_2).trans (colsum5 s1_A s2_A s3_A s4_A s5_A)
  clear s1_A s2_A s3_A s4_A s5_A
  have cums1 := combine 160 hcum hcols1 rfl
  clear hcum hcols1
  refine extract_store_rule accSm s5_0 s5_1 s5_2 (by decide) (by decide) s5_c0 s5_c1 s5_c2 ?_
  intro es6 s6_Fx s6_o s6_c0 s6_c1 s6_c2
  have fs1_a_d_0 := transport s6_Fx Fs5 (by decide) (by decide) h_a_d_0
  have fs1_b_d_0 := transport s6_Fx Fs5 (by decide) (by decide) h_b_d_0
  have fs1_a_d_1 := transport s6_Fx Fs5 (by decide) (by decide) h_a_d_1
  have fs1_b_d_1 := transport s6_Fx Fs5 (by decide) (by decide) h_b_d_1
  have fs1_a_d_2 := transport s6_Fx Fs5 (by decide) (by decide) h_a_d_2
  have fs1_b_d_2 := transport s6_Fx Fs5 (by decide) (by decide) h_b_d_2
  have fs1_a_d_3 := transport s6_Fx Fs5 (by decide) (by decide) h_a_d_3
  have fs1_b_d_3 := transport s6_Fx Fs5 (by decide) (by decide) h_b_d_3
  have fs1_a_d_4 := transport s6_Fx Fs5 (by decide) (by decide) h_a_d_4
  have fs1_b_d_4 := transport s6_Fx Fs5 (by decide) (by decide) h_b_d_4
  have fs1_a_d_5 := transport s6_Fx Fs5 (by decide) (by decide) h_a_d_5
  have fs1_b_d_5 := transport s6_Fx Fs5 (by decide) (by decide) h_b_d_5
  have fs1_a_d_6 := transport s6_Fx Fs5 (by decide) (by decide) h_a_d_6
  have fs1_b_d_6 := transport s6_Fx Fs5 (by decide) (by decide) h_b_d_6
  have fs1_a_d_7 := transport s6_Fx Fs5 (by decide) (by decide) h_a_d_7
  have fs1_b_d_7 := transport s6_Fx Fs5 (by decide) (by decide) h_b_d_7
  have fs1_l_0 := transport s6_Fx Fs5 (by decide) (by decide) h_l_0
  have fs1_l_1 := transport s6_Fx Fs5 (by decide) (by decide) h_l_1
  have fs1_l_2 := transport s6_Fx Fs5 (by decide) (by decide) h_l_2
  have fs1_l_3 := transport s6_Fx Fs5 (by decide) (by decide) h_l_3
  have s6_B := extract_bound32 s5_B
  conv at s6_B => rhs; simp only [Nat.reducePow, Nat.reduceDiv]
  clear h_a_d_0 h_b_d_0 h_a_d_1 h_b_d_1 h_a_d_2 h_b_d_2 h_a_d_3 h_b_d_3 h_a_d_4 h_b_d_4 h_a_d_5 h_b_d_5 h_a_d_6 h_b_d_6 h_a_d_7 h_b_d_7 h_l_0 h_l_1 h_l_2 h_l_3 s5_c0 s5_c1 s5_c2 s5_B s6_Fx Fs5
  clear es5 env
  refine muladd_rule accSm s5_1 s5_2 0 a0 b5 4294967295 4294967295 _ (by decide) (by decide) s6_c0 s6_c1 s6_c2 (ev_idx_of (Frame.refl accSm es6) (by decide) fs1_a_d_0) (ev_idx_of (Frame.refl accSm es6) (by decide) fs1_b_d_5) s5_lt1 s5_lt2 (le_of_lt32 A0) (le_of_lt32 B5) (by decide) (by decide) s6_B (by decide) ?_
  intro es7 s7_0 s7_1 s7_2 s7_F s7_c0 s7_c1 s7_c2 s7_lt0 s7_lt1 s7_lt2 s7_A s7_B
  replace s7_A := s7_A.trans (z3_xy0 _ _ _)
  conv at s7_B => rhs; simp only [Nat.reducePow, Nat.reduceSub, Nat.reduceMul, Nat.reduceAdd]
  clear s6_c0 s6_c1 s6_c2 s6_B s5_lt1 s5_lt2
  refine muladd_rule accSm s7_0 s7_1 s7_2 a1 b4 4294967295 4294967295 _ (by decide) (by decide) s7_c0 s7_c1 s7_c2 (ev_idx_of s7_F (by decide) fs1_a_d_1) (ev_idx_of s7_F (by decide) fs1_b_d_4) s7_lt0 s7_lt1 (le_of_lt32 A1) (le_of_lt32 B4) (by decide) (by decide) s7_B (by decide) ?_
  intro es8 s8_0 s8_1 s8_2 s8_F s8_c0 s8_c1 s8_c2 s8_lt0 s8_lt1 s8_lt2 s8_A s8_B
  conv at s8_B => rhs; simp only [Nat.reducePow, Nat.reduceSub, Nat.reduceMul, Nat.reduceAdd]
  have Fs8 := s7_F.trans s8_F
  clear s7_F s8_F s7_c0 s7_c1 s7_c2 s7_B s7_lt0 s7_lt1 s7_lt2
  clear es7
  refine muladd_rule accSm s8_0 s8_1 s8_2 a2 b3 4294967295 4294967295 _ (by decide) (by decide) s8_c0 s8_c1 s8_c2 (ev_idx_of Fs8 (by decide) fs1_a_d_2) (ev_idx_of Fs8 (by decide) fs1_b_d_3) s8_lt0 s8_lt1 (le_of_lt32 A2) (le_of_lt32 B3) (by decide) (by decide) s8_B (by decide) ?_
  intro es9 s9_0 s9_1 s9_2 s9_F s9_c0 s9_c1 s9_c2 s9_lt0 s9_lt1 s9_lt2 s9_A s9_B
  conv at s9_B => rhs; simp only [Nat.reducePow, Nat.reduceSub, Nat.reduceMul, Nat.reduceAdd]
  have Fs9 := Fs8.trans s9_F
  clear Fs8 s9_F s8_c0 s8_c1 s8_c2 s8_B s8_lt0 s8_lt1 s8_lt2
  clear es8
  refine muladd_rule accSm s9_0 s9_1 s9_2 a3 b2 4294967295 4294967295 _ (by decide) (by decide) s9_c0 s9_c1 s9_c2 (ev_idx_of Fs9 (by decide) fs1_a_d_3) (ev_idx_of Fs9 (by decide) fs1_b_d_2) s9_lt0 s9_lt1 (le_of_lt32 A3) (le_of_lt32 B2) (by decide) (by decide) s9_B (by decide) ?_
  intro es10 s10_0 s10_1 s10_2 s10_F s10_c0 s10_c1 s10_c2 s10_lt0 s10_lt1 s10_lt2 s10_A s10_B
  conv at s10_B => rhs; simp only [Nat.reducePow, Nat.reduceSub, Nat.reduceMul, Nat.reduceAdd]
  have Fs10 := Fs9.trans s10_F
  clear Fs9 s10_F s9_c0 s9_c1 s9_c2 s9_B s9_lt0 s9_lt1 s9_lt2
  clear es9
  refine muladd_rule accSm s10_0 s10_1 s10_2 a4 b1 4294967295 4294967295 _ (by decide) (by decide) s10_c0 s10_c1 s10_c2 (ev_idx_of Fs10 (by decide) fs1_a_d_4) (ev_idx_of Fs10 (by decide) fs1_b_d_1) s10_lt0 s10_lt1 (le_of_lt32 A4) (le_of_lt32 B1) (by decide) (by decide) s10_B (by decide) ?_
  intro es11 s11_0 s11_1 s11_2 s11_F s11_c0 s11_c1 s11_c2 s11_lt0 s11_lt1 s11_lt2 s11_A s11_B
  conv at s11_B => rhs; simp only [Nat.reducePow, Nat.reduceSub, Nat.reduceMul, Nat.reduceAdd]
  have Fs11 := Fs10.trans s11_F
  clear Fs10 s11_F s10_c0 s10_c1 s10_c2 s10_B s10_lt0 s10_lt1 s10_lt2
  clear es10
  refine muladd_rule accSm s11_0 s11_1 s11_2 a5 b0 4294967295 4294967295 _ (by decide) (by decide) s11_c0 s11_c1 s11_c2 (ev_idx_of Fs11 (by decide) fs1_a_d_5) (ev_idx_of Fs11 (by decide) fs1_b_d_0) s11_lt0 s11_lt1 (le_of_lt32 A5) (le_of_lt32 B0) (by decide) (by decide) s11_B (by decide) ?_
  intro es12 s12_0 s12_1 s12_2 s12_F s12_c0 s12_c1 s12_c2 s12_lt0 s12_lt1 s12_lt2 s12_A s12_B
  conv at s12_B => rhs; simp only [Nat.reducePow, Nat.reduceSub, Nat.reduceMul, Nat.reduceAdd]
  have Fs12 := Fs11.trans s12_F
  clear Fs11 s12_F s11_c0 s11_c1 s11_c2 s11_B s11_lt0 s11_lt1 s11_lt2
  clear es11
  have hcols2 : s12_0 + (s12_1 + s12_2 * 2 ^ 32) * 2 ^ 32 = s5_1 + s5_2 * 2 ^ 32 + (a0 * b5 + a1 * b4 + a2 * b3 + a3 * b2 + a4 * b1 + a5 * b0) := (reshape3 s12_0 s12_1 s12_2).trans (colsum6 s7_A s8_A s9_A s10_A s11_A s12_A)
  clear s7_A s8_A s9_A s10_A s11_A s12_A
  have cums2 := combine 192 cums1 hcols2 rfl
  clear cums1 hcols2
  refine extract_store_rule accSm s12_0 s12_1 s12_2 (by decide) (by decide) s12_c0 s12_c1 s12_c2 ?_
  intro es13 s13_Fx s13_o s13_c0 s13_c1 s13_c2
  have fs2_a_d_0 := transport s13_Fx Fs12 (by decide) (by decide) fs1_a_d_0
  have fs2_b_d_0 := transport s13_Fx Fs12 (by decide) (by decide) fs1_b_d_0
  have fs2_a_d_1 := transport s13_Fx Fs12 (by decide) (by decide) fs1_a_d_1
  have fs2_b_d_1 := transport s13_Fx Fs12 (by decide) (by decide) fs1_b_d_1
  have fs2_a_d_2 := transport s13_Fx Fs12 (by decide) (by decide) fs1_a_d_2
  have fs2_b_d_2 := transport s13_Fx Fs12 (by decide) (by decide) fs1_b_d_2
  have fs2_a_d_3 := transport s13_Fx Fs12 (by decide) (by decide) fs1_a_d_3
  have fs2_b_d_3 := transport s13_Fx Fs12 (by decide) (by decide) fs1_b_d_3
  have fs2_a_d_4 := transport s13_Fx Fs12 (by decide) (by decide) fs1_a_d_4
  have fs2_b_d_4 := transport s13_Fx Fs12 (by decide) (by decide) fs1_b_d_4
  have fs2_a_d_5 := transport s13_Fx Fs12 (by decide) (by decide) fs1_a_d_5
  have fs2_b_d_5 := transport s13_Fx Fs12 (by decide) (by decide) fs1_b_d_5
  have fs2_a_d_6 := transport s13_Fx Fs12 (by decide) (by decide) fs1_a_d_6
  have fs2_b_d_6 := transport s13_Fx Fs12 (by decide) (by decide) fs1_b_d_6
  have fs2_a_d_7 := transport s13_Fx Fs12 (by decide) (by decide) fs1_a_d_7
  have fs2_b_d_7 := transport s13_Fx Fs12 (by decide) (by decide) fs1_b_d_7
  have fs2_l_0 := transport s13_Fx Fs12 (by decide) (by decide) fs1_l_0
  have fs2_l_1 := transport s13_Fx Fs12 (by decide) (by decide) fs1_l_1
  have fs2_l_2 := transport s13_Fx Fs12 (by decide) (by decide) fs1_l_2
  have fs2_l_3 := transport s13_Fx Fs12 (by decide) (by decide) fs1_l_3
  have fs2_l_4 := transport s13_Fx Fs12 (by decide) (by decide) s6_o
  have s13_B := extract_bound32 s12_B
  conv at s13_B => rhs; simp only [Nat.reducePow, Nat.reduceDiv]
  clear fs1_a_d_0 fs1_b_d_0 fs1_a_d_1 fs1_b_d_1 fs1_a_d_2 fs1_b_d_2 fs1_a_d_3 fs1_b_d_3 fs1_a_d_4 fs1_b_d_4 fs1_a_d_5 fs1_b_d_5 fs1_a_d_6 fs1_b_d_6 fs1_a_d_7 fs1_b_d_7 fs1_l_0 fs1_l_1 fs1_l_2 fs1_l_3 s6_o s12_c0 s12_c1 s12_c2 s12_B s13_Fx Fs12
  clear es12 es6
  exact scalar_mul_run_p2 es13 a0 a1 a2 a3 a4 a5 a6 a7 b0 b1 b2 b3 b4 b5 b6 b7 v1_0 v1_1 v1_2 v1_3 s5_0 s12_0 s12_1 s12_2 A0 A1 A2 A3 A4 A5 A6 A7 B0 B1 B2 B3 B4 B5 B6 B7 fs2_a_d_0 fs2_b_d_0 fs2_a_d_1 fs2_b_d_1 fs2_a_d_2 fs2_b_d_2 fs2_a_d_3 fs2_b_d_3 fs2_a_d_4 fs2_b_d_4 fs2_a_d_5 fs2_b_d_5 fs2_a_d_6 fs2_b_d_6 fs2_a_d_7 fs2_b_d_7 fs2_l_0 fs2_l_1 fs2_l_2 fs2_l_3 fs2_l_4 s13_o L_v1_0 L_v1_1 L_v1_2 L_v1_3 s5_lt0 s12_lt0 s12_lt1 s12_lt2 s13_c0 s13_c1 s13_c2 s13_B cums2

set_option maxRecDepth 100000 in
set_option maxHeartbeats 4000000 in
theorem scalar_mul_run (env : Env) (a0 a1 a2 a3 a4 a5 a6 a7 b0 b1 b2 b3 b4 b5 b6 b7 : Nat)  (A0 : a0 < 2 ^ 32) (A1 : a1 < 2 ^ 32) (A2 : a2 < 2 ^ 32) (A3 : a3 < 2 ^ 32) (A4 : a4 < 2 ^ 32) (A5 : a5 < 2 ^ 32) (A6 : a6 < 2 ^ 32) (A7 : a7 < 2 ^ 32) (B0 : b0 < 2 ^ 32) (B1 : b1 < 2 ^ 32) (B2 : b2 < 2 ^ 32) (B3 : b3 < 2 ^ 32) (B4 : b4 < 2 ^ 32) (B5 : b5 < 2 ^ 32) (B6 : b6 < 2 ^ 32) (B7 : b7 < 2 ^ 32)
    (ha0 : env.get "a.d" 0 = a0) (ha1 : env.get "a.d" 1 = a1) (ha2 : env.get "a.d" 2 = a2) (ha3 : env.get "a.d" 3 = a3) (ha4 : env.get "a.d" 4 = a4) (ha5 : env.get "a.d" 5 = a5) (ha6 : env.get "a.d" 6 = a6) (ha7 : env.get "a.d" 7 = a7)
    (hb0 : env.get "b.d" 0 = b0) (hb1 : env.get "b.d" 1 = b1) (hb2 : env.get "b.d" 2 = b2) (hb3 : env.get "b.d" 3 = b3) (hb4 : env.get "b.d" 4 = b4) (hb5 : env.get "b.d" 5 = b5) (hb6 : env.get "b.d" 6 = b6) (hb7 : env.get "b.d" 7 = b7) :
    RedPost (val8x32 a0 a1 a2 a3 a4 a5 a6 a7 * val8x32 b0 b1 b2 b3 b4 b5 b6 b7) (runR env Gen.scalar8x32.scalar_mul.body) := by
  simp only [Gen.scalar8x32.scalar_mul]
  refine init_rule accSm 0 (by decide) (by decide) (ev_lit _ _) ?_
  intro es1 s1_F s1_c0 s1_c1 s1_c2
  have s1_B : (0 : Nat) + 0 * 2 ^ 32 ≤ 0 := by decide
  refine muladd_fast_rule accSm "scalar_mul_512_3.c2" 0 0 0 a0 b0 4294967295 4294967295 _ (by decide) (by decide) s1_c0 s1_c1 s1_c2 (ev_idx_of s1_F (by decide) ha0) (ev_idx_of s1_F (by decide) hb0) zero_lt32 zero_lt32 (le_of_lt32 A0) (le_of_lt32 B0) (by decide) (by decide) s1_B (by decide) ?_
  intro es2 s2_0 s2_1 s2_F s2_c0 s2_c1 s2_c2 s2_lt0 s2_lt1 s2_A s2_B
  replace s2_A := s2_A.trans (z2_00 _)
  conv at s2_B => rhs; simp only [Nat.reducePow, Nat.reduceSub, Nat.reduceMul, Nat.reduceAdd]
  have Fs2 := s1_F.trans s2_F
  clear s1_F s2_F s1_c0 s1_c1 s1_c2 s1_B
  clear es1
  have hcols1 : s2_0 + s2_1 * 2 ^ 32 = (a0 * b0) := colsumz1 s2_A
  clear s2_A
  have cums1 := hcols1
  clear hcols1
  refine extract_fast_store_rule accSm "scalar_mul_512_3.c2" s2_0 s2_1 0 (by decide) (by decide) s2_c0 s2_c1 s2_c2 ?_
  intro es3 s3_Fx s3_o s3_c0 s3_c1 s3_c2
  have fs1_a_d_0 := transport s3_Fx Fs2 (by decide) (by decide) ha0
  have fs1_b_d_0 := transport s3_Fx Fs2 (by decide) (by decide) hb0
  have fs1_a_d_1 := transport s3_Fx Fs2 (by decide) (by decide) ha1
  have fs1_b_d_1 := transport s3_Fx Fs2 (by decide) (by decide) hb1
  have fs1_a_d_2 := transport s3_Fx Fs2 (by decide) (by decide) ha2
  have fs1_b_d_2 := transport s3_Fx Fs2 (by decide) (by decide) hb2
  have fs1_a_d_3 := transport s3_Fx Fs2 (by decide) (by decide) ha3
  have fs1_b_d_3 := transport s3_Fx Fs2 (by decide) (by decide) hb3
  have fs1_a_d_4 := transport s3_Fx Fs2 (by decide) (by decide) ha4
  have fs1_b_d_4 := transport s3_Fx Fs2 (by decide) (by decide) hb4
  have fs1_a_d_5 := transport s3_Fx Fs2 (by decide) (by decide) ha5
  have fs1_b_d_5 := transport s3_Fx Fs2 (by decide) (by decide) hb5
  have fs1_a_d_6 := transport s3_Fx Fs2 (by decide) (by decide) ha6
  have fs1_b_d_6 := transport s3_Fx Fs2 (by decide) (by decide) hb6
  have fs1_a_d_7 := transport s3_Fx Fs2 (by decide) (by decide) ha7
  have fs1_b_d_7 := transport s3_Fx Fs2 (by decide) (by decide) hb7
  have s3_B := extract_bound32' s2_B
  conv at s3_B => rhs; simp only [Nat.reducePow, Nat.reduceDiv]
  clear ha0 hb0 ha1 hb1 ha2 hb2 ha3 hb3 ha4 hb4 ha5 hb5 ha6 hb6 ha7 hb7 s2_c0 s2_c1 s2_c2 s2_B s3_Fx Fs2
  clear es2 env
  refine muladd_rule accSm s2_1 0 0 a0 b1 4294967295 4294967295 _ (by decide) (by decide) s3_c0 s3_c1 s3_c2 (ev_idx_of (Frame.refl accSm es3) (by decide) fs1_a_d_0) (ev_idx_of (Frame.refl accSm es3) (by decide) fs1_b_d_1) s2_lt1 zero_lt32 (le_of_lt32 A0) (le_of_lt32 B1) (by decide) (by decide) (acc_zero2 s3_B) (by decide) ?_
  intro es4 s4_0 s4_1 s4_2 s4_F s4_c0 s4_c1 s4_c2 s4_lt0 s4_lt1 s4_lt2 s4_A s4_B
  replace s4_A := s4_A.trans (z3_x00 _ _)
  conv at s4_B => rhs; simp only [Nat.reducePow, Nat.reduceSub, Nat.reduceMul, Nat.reduceAdd]
  clear s3_c0 s3_c1 s3_c2 s3_B s2_lt1
  refine muladd_rule accSm s4_0 s4_1 s4_2 a1 b0 4294967295 4294967295 _ (by decide) (by decide) s4_c0 s4_c1 s4_c2 (ev_idx_of s4_F (by decide) fs1_a_d_1) (ev_idx_of s4_F (by decide) fs1_b_d_0) s4_lt0 s4_lt1 (le_of_lt32 A1) (le_of_lt32 B0) (by decide) (by decide) s4_B (by decide) ?_
  intro es5 s5_0 s5_1 s5_2 s5_F s5_c0 s5_c1 s5_c2 s5_lt0 s5_lt1 s5_lt2 s5_A s5_B
  conv at s5_B => rhs; simp only [Nat.reducePow, Nat.reduceSub, Nat.reduceMul, Nat.reduceAdd]
  have Fs5 := s4_F.trans s5_F
  clear s4_F s5_F s4_c0 s4_c1 s4_c2 s4_B s4_lt0 s4_lt1 s4_lt2
  clear es4
  have hcols2 : s5_0 + (s5_1 + s5_2 * 2 ^ 32) * 2 ^ 32 = s2_1 + (a0 * b1 + a1 * b0) := (reshape3 s5_0 s5_1 s5_2).trans (colsum2 s4_A s5_A)
  clear s4_A s5_A
  have cums2 := combine 64 cums1 hcols2 rfl
  clear cums1 hcols2
  refine extract_store_rule accSm s5_0 s5_1 s5_2 (by decide) (by decide) s5_c0 s5_c1 s5_c2 ?_
  intro es6 s6_Fx s6_o s6_c0 s6_c1 s6_c2
  have fs2_a_d_0 := transport s6_Fx Fs5 (by decide) (by decide) fs1_a_d_0
  have fs2_b_d_0 := transport s6_Fx Fs5 (by decide) (by decide) fs1_b_d_0
  have fs2_a_d_1 := transport s6_Fx Fs5 (by decide) (by decide) fs1_a_d_1
  have fs2_b_d_1 := transport s6_Fx Fs5 (by decide) (by decide) fs1_b_d_1
  have fs2_a_d_2 := transport s6_Fx Fs5 (by decide) (by decide) fs1_a_d_2
  have fs2_b_d_2 := transport s6_Fx Fs5 (by decide) (by decide) fs1_b_d_2
  have fs2_a_d_3 := transport s6_Fx Fs5 (by decide) (by decide) fs1_a_d_3
  have fs2_b_d_3 := transport s6_Fx Fs5 (by decide) (by decide) fs1_b_d_3
  have fs2_a_d_4 := transport s6_Fx Fs5 (by decide) (by decide) fs1_a_d_4
  have fs2_b_d_4 := transport s6_Fx Fs5 (by decide) (by decide) fs1_b_d_4
  have fs2_a_d_5 := transport s6_Fx Fs5 (by decide) (by decide) fs1_a_d_5
  have fs2_b_d_5 := transport s6_Fx Fs5 (by decide) (by decide) fs1_b_d_5
  have fs2_a_d_6 := transport s6_Fx Fs5 (by decide) (by decide) fs1_a_d_6
  have fs2_b_d_6 := transport s6_Fx Fs5 (by decide) (by decide) fs1_b_d_6
  have fs2_a_d_7 := transport s6_Fx Fs5 (by decide) (by decide) fs1_a_d_7
  have fs2_b_d_7 := transport s6_Fx Fs5 (by decide) (by decide) fs1_b_d_7
  have fs2_l_0 := transport s6_Fx Fs5 (by decide) (by decide) s3_o
  have s6_B := extract_bound32 s5_B
  conv at s6_B => rhs; simp only [Nat.reducePow, Nat.reduceDiv]
  clear fs1_a_d_0 fs1_b_d_0 fs1_a_d_1 fs1_b_d_1 fs1_a_d_2 fs1_b_d_2 fs1_a_d_3 fs1_b_d_3 fs1_a_d_4 fs1_b_d_4 fs1_a_d_5 fs1_b_d_5 fs1_a_d_6 fs1_b_d_6 fs1_a_d_7 fs1_b_d_7 s3_o s5_c0 s5_c1 s5_c2 s5_B s6_Fx Fs5
  clear es5 es3
  refine muladd_rule accSm s5_1 s5_2 0 a0 b2 4294967295 4294967295 _ (by decide) (by decide) s6_c0 s6_c1 s6_c2 (ev_idx_of (Frame.refl accSm es6) (by decide) fs2_a_d_0) (ev_idx_of (Frame.refl accSm es6) (by decide) fs2_b_d_2) s5_lt1 s5_lt2 (le_of_lt32 A0) (le_of_lt32 B2) (by decide) (by decide) s6_B (by decide) ?_
  intro es7 s7_0 s7_1 s7_2 s7_F s7_c0 s7_c1 s7_c2 s7_lt0 s7_lt1 s7_lt2 s7_A s7_B
  replace s7_A := s7_A.trans (z3_xy0 _ _ _)
  conv at s7_B => rhs; simp only [Nat.reducePow, Nat.reduceSub, Nat.reduceMul, Nat.reduceAdd]
  clear s6_c0 s6_c1 s6_c2 s6_B s5_lt1 s5_lt2
  refine muladd_rule accSm s7_0 s7_1 s7_2 a1 b1 4294967295 4294967295 _ (by decide) (by decide) s7_c0 s7_c1 s7_c2 (ev_idx_of s7_F (by decide) fs2_a_d_1) (ev_idx_of s7_F (by decide) fs2_b_d_1) s7_lt0 s7_lt1 (le_of_lt32 A1) (le_of_lt32 B1) (by decide) (by decide) s7_B (by decide) ?_
  intro es8 s8_0 s8_1 s8_2 s8_F s8_c0 s8_c1 s8_c2 s8_lt0 s8_lt1 s8_lt2 s8_A s8_B
  conv at s8_B => rhs; simp only [Nat.reducePow, Nat.reduceSub, Nat.reduceMul, Nat.reduceAdd]
  have Fs8 := s7_F.trans s8_F
  clear s7_F s8_F s7_c0 s7_c1 s7_c2 s7_B s7_lt0 s7_lt1 s7_lt2
  clear es7
  refine muladd_rule accSm s8_0 s8_1 s8_2 a2 b0 4294967295 4294967295 _ (by decide) (by decide) s8_c0 s8_c1 s8_c2 (ev_idx_of Fs8 (by decide) fs2_a_d_2) (ev_idx_of Fs8 (by decide) fs2_b_d_0) s8_lt0 s8_lt1 (le_of_lt32 A2) (le_of_lt32 B0) (by decide) (by decide) s8_B (by decide) ?_
  intro es9 s9_0 s9_1 s9_2 s9_F s9_c0 s9_c1 s9_c2 s9_lt0 s9_lt1 s9_lt2 s9_A s9_B
  conv at s9_B => rhs; simp only [Nat.reducePow, Nat.reduceSub, Nat.reduceMul, Nat.reduceAdd]
  have Fs9 := Fs8.trans s9_F
  clear Fs8 s9_F s8_c0 s8_c1 s8_c2 s8_B s8_lt0 s8_lt1 s8_lt2
  clear es8
  have hcols3 : s9_0 + (s9_1 + s9_2 * 2 ^ 32) * 2 ^ 32 = s5_1 + s5_2 * 2 ^ 32 + (a0 * b2 + a1 * b1 + a2 * b0) := (reshape3 s9_0 s9_1 s9_2).trans (colsum3 s7_A s8_A s9_A)
  clear s7_A s8_A s9_A
  have cums3 := combine 96 cums2 hcols3 rfl
  clear cums2 hcols3
  refine extract_store_rule accSm s9_0 s9_1 s9_2 (by decide) (by decide) s9_c0 s9_c1 s9_c2 ?_
  intro es10 s10_Fx s10_o s10_c0 s10_c1 s10_c2
  have fs3_a_d_0 := transport s10_Fx Fs9 (by decide) (by decide) fs2_a_d_0
  have fs3_b_d_0 := transport s10_Fx Fs9 (by decide) (by decide) fs2_b_d_0
  have fs3_a_d_1 := transport s10_Fx Fs9 (by decide) (by decide) fs2_a_d_1
  have fs3_b_d_1 := transport s10_Fx Fs9 (by decide) (by decide) fs2_b_d_1
  have fs3_a_d_2 := transport s10_Fx Fs9 (by decide) (by decide) fs2_a_d_2
  have fs3_b_d_2 := transport s10_Fx Fs9 (by decide) (by decide) fs2_b_d_2
  have fs3_a_d_3 := transport s10_Fx Fs9 (by decide) (by decide) fs2_a_d_3
  have fs3_b_d_3 := transport s10_Fx Fs9 (by decide) (by decide) fs2_b_d_3
  have fs3_a_d_4 := transport s10_Fx Fs9 (by decide) (by decide) fs2_a_d_4
  have fs3_b_d_4 := transport s10_Fx Fs9 (by decide) (by decide) fs2_b_d_4
  have fs3_a_d_5 := transport s10_Fx Fs9 (by decide) (by decide) fs2_a_d_5
  have fs3_b_d_5 := transport s10_Fx Fs9 (by decide) (by decide) fs2_b_d_5
  have fs3_a_d_6 := transport s10_Fx Fs9 (by decide) (by decide) fs2_a_d_6
  have fs3_b_d_6 := transport s10_Fx Fs9 (by decide) (by decide) fs2_b_d_6
  have fs3_a_d_7 := transport s10_Fx Fs9 (by decide) (by decide) fs2_a_d_7
  have fs3_b_d_7 := transport s10_Fx Fs9 (by decide) (by decide) fs2_b_d_7
  have fs3_l_0 := transport s10_Fx Fs9 (by decide) (by decide) fs2_l_0
  have fs3_l_1 := transport s10_Fx Fs9 (by decide) (by decide) s6_o
  have s10_B := extract_bound32 s9_B
  conv at s10_B => rhs; simp only [Nat.reducePow, Nat.reduceDiv]
  clear fs2_a_d_0 fs2_b_d_0 fs2_a_d_1 fs2_b_d_1 fs2_a_d_2 fs2_b_d_2 fs2_a_d_3 fs2_b_d_3 fs2_a_d_4 fs2_b_d_4 fs2_a_d_5 fs2_b_d_5 fs2_a_d_6 fs2_b_d_6 fs2_a_d_7 fs2_b_d_7 fs2_l_0 s6_o s9_c0 s9_c1 s9_c2 s9_B s10_Fx Fs9
  clear es9 es6
  refine muladd_rule accSm s9_1 s9_2 0 a0 b3 4294967295 4294967295 _ (by decide) (by decide) s10_c0 s10_c1 s10_c2 (ev_idx_of (Frame.refl accSm es10) (by decide) fs3_a_d_0) (ev_idx_of (Frame.refl accSm es10) (by decide) fs3_b_d_3) s9_lt1 s9_lt2 (le_of_lt32 A0) (le_of_lt32 B3) (by decide) (by decide) s10_B (by decide) ?_
  intro es11 s11_0 s11_1 s11_2 s11_F s11_c0 s11_c1 s11_c2 s11_lt0 s11_lt1 s11_lt2 s11_A s11_B
  replace s11_A := s11_A.trans (z3_xy0 _ _ _)
  conv at s11_B => rhs; simp only [Nat.reducePow, Nat.reduceSub, Nat.reduceMul, Nat.reduceAdd]
  clear s10_c0 s10_c1 s10_c2 s10_B s9_lt1 s9_lt2
  refine muladd_rule accSm s11_0 s11_1 s11_2 a1 b2 4294967295 4294967295 _ (by decide) (by decide) s11_c0 s11_c1 s11_c2 (ev_idx_of s11_F (by decide) fs3_a_d_1) (ev_idx_of s11_F (by decide) fs3_b_d_2) s11_lt0 s11_lt1 (le_of_lt32 A1) (le_of_lt32 B2) (by decide) (by decide) s11_B (by decide) ?_
  intro es12 s12_0 s12_1 s12_2 s12_F s12_c0 s12_c1 s12_c2 s12_lt0 s12_lt1 s12_lt2 s12_A s12_B
  conv at s12_B => rhs; simp only [Nat.reducePow, Nat.reduceSub, Nat.reduceMul, Nat.reduceAdd]
  have Fs12 := s11_F.trans s12_F
  clear s11_F s12_F s11_c0 s11_c1 s11_c2 s11_B s11_lt0 s11_lt1 s11_lt2
  clear es11
  refine muladd_rule accSm s12_0 s12_1 s12_2 a2 b1 4294967295 4294967295 _ (by decide) (by decide) s12_c0 s12_c1 s12_c2 (ev_idx_of Fs12 (by decide) fs3_a_d_2) (ev_idx_of Fs12 (by decide) fs3_b_d_1) s12_lt0 s12_lt1 (le_of_lt32 A2) (le_of_lt32 B1) (by decide) (by decide) s12_B (by decide) ?_
  intro es13 s13_0 s13_1 s13_2 s13_F s13_c0 s13_c1 s13_c2 s13_lt0 s13_lt1 s13_lt2 s13_A s13_B
  conv at s13_B => rhs; simp only [Nat.reducePow, Nat.reduceSub, Nat.reduceMul, Nat.reduceAdd]
  have Fs13 := Fs12.trans s13_F
  clear Fs12 s13_F s12_c0 s12_c1 s12_c2 s12_B s12_lt0 s12_lt1 s12_lt2
  clear es12
  refine muladd_rule accSm s13_0 s13_1 s13_2 a3 b0 4294967295 4294967295 _ (by decide) (by decide) s13_c0 s13_c1 s13_c2 (ev_idx_of Fs13 (by decide) fs3_a_d_3) (ev_idx_of Fs13 (by decide) fs3_b_d_0) s13_lt0 s13_lt1 (le_of_lt32 A3) (le_of_lt32 B0) (by decide) (by decide) s13_B (by decide) ?_
  intro es14 s14_0 s14_1 s14_2 s14_F s14_c0 s14_c1 s14_c2 s14_lt0 s14_lt1 s14_lt2 s14_A s14_B
  conv at s14_B => rhs; simp only [Nat.reducePow, Nat.reduceSub, Nat.reduceMul, Nat.reduceAdd]
  have Fs14 := Fs13.trans s14_F
  clear Fs13 s14_F s13_c0 s13_c1 s13_c2 s13_B s13_lt0 s13_lt1 s13_lt2
  clear es13
  have hcols4 : s14_0 + (s14_1 + s14_2 * 2 ^ 32) * 2 ^ 32 = s9_1 + s9_2 * 2 ^ 32 + (a0 * b3 + a1 * b2 + a2 * b1 + a3 * b0) := (reshape3 s14_0 s14_1 s14_2).trans (colsum4 s11_A s12_A s13_A s14_A)
  clear s11_A s12_A s13_A s14_A
  have cums4 := combine 128 cums3 hcols4 rfl
  clear cums3 hcols4
  refine extract_store_rule accSm s14_0 s14_1 s14_2 (by decide) (by decide) s14_c0 s14_c1 s14_c2 ?_
  intro es15 s15_Fx s15_o s15_c0 s15_c1 s15_c2
  have fs4_a_d_0 := transport s15_Fx Fs14 (by decide) (by decide) fs3_a_d_0
  have fs4_b_d_0 := transport s15_Fx Fs14 (by decide) (by decide) fs3_b_d_0
  have fs4_a_d_1 := transport s15_Fx Fs14 (by decide) (by decide) fs3_a_d_1
  have fs4_b_d_1 := transport s15_Fx Fs14 (by decide) (by decide) fs3_b_d_1
  have fs4_a_d_2 := transport s15_Fx Fs14 (by decide) (by decide) fs3_a_d_2
  have fs4_b_d_2 := transport s15_Fx Fs14 (by decide) (by decide) fs3_b_d_2
  have fs4_a_d_3 := transport s15_Fx Fs14 (by decide) (by decide) fs3_a_d_3
  have fs4_b_d_3 := transport s15_Fx Fs14 (by decide) (by decide) fs3_b_d_3
  have fs4_a_d_4 := transport s15_Fx Fs14 (by decide) (by decide) fs3_a_d_4
  have fs4_b_d_4 := transport s15_Fx Fs14 (by decide) (by decide) fs3_b_d_4
  have fs4_a_d_5 := transport s15_Fx Fs14 (by decide) (by decide) fs3_a_d_5
  have fs4_b_d_5 := transport s15_Fx Fs14 (by decide) (by decide) fs3_b_d_5
  have fs4_a_d_6 := transport s15_Fx Fs14 (by decide) (by decide) fs3_a_d_6
  have fs4_b_d_6 := transport s15_Fx Fs14 (by decide) (by decide) fs3_b_d_6
  have fs4_a_d_7 := transport s15_Fx Fs14 (by decide) (by decide) fs3_a_d_7
  have fs4_b_d_7 := transport s15_Fx Fs14 (by decide) (by decide) fs3_b_d_7
  have fs4_l_0 := transport s15_Fx Fs14 (by decide) (by decide) fs3_l_0
  have fs4_l_1 := transport s15_Fx Fs14 (by decide) (by decide) fs3_l_1
  have fs4_l_2 := transport s15_Fx Fs14 (by decide) (by decide) s10_o
  have s15_B := extract_bound32 s14_B
  conv at s15_B => rhs; simp only [Nat.reducePow, Nat.reduceDiv]
  clear fs3_a_d_0 fs3_b_d_0 fs3_a_d_1 fs3_b_d_1 fs3_a_d_2 fs3_b_d_2 fs3_a_d_3 fs3_b_d_3 fs3_a_d_4 fs3_b_d_4 fs3_a_d_5 fs3_b_d_5 fs3_a_d_6 fs3_b_d_6 fs3_a_d_7 fs3_b_d_7 fs3_l_0 fs3_l_1 s10_o s14_c0 s14_c1 s14_c2 s14_B s15_Fx Fs14
  clear es14 es10
  exact scalar_mul_run_p1 es15 a0 a1 a2 a3 a4 a5 a6 a7 b0 b1 b2 b3 b4 b5 b6 b7 s2_0 s5_0 s9_0 s14_0 s14_1 s14_2 A0 A1 A2 A3 A4 A5 A6 A7 B0 B1 B2 B3 B4 B5 B6 B7 fs4_a_d_0 fs4_b_d_0 fs4_a_d_1 fs4_b_d_1 fs4_a_d_2 fs4_b_d_2 fs4_a_d_3 fs4_b_d_3 fs4_a_d_4 fs4_b_d_4 fs4_a_d_5 fs4_b_d_5 fs4_a_d_6 fs4_b_d_6 fs4_a_d_7 fs4_b_d_7 fs4_l_0 fs4_l_1 fs4_l_2 s15_o s2_lt0 s5_lt0 s9_lt0 s14_lt0 s14_lt1 s14_lt2 s15_c0 s15_c1 s15_c2 s15_B cums4


/-- **`secp256k1_scalar_mul` (8×32) is exact.**  For ALL 32-bit limb values of `a` and `b` (reduced or not), the eight
    output limbs are 32-bit values representing `a · b mod N`; in particular the result is fully reduced. -/
theorem scalar_mul_correct (env : Env) (ha : Limbs32 env "a.d") (hb : Limbs32 env "b.d") :
    sval (execL env Gen.scalar8x32.scalar_mul.body).env "r.d" = (sval env "a.d" * sval env "b.d") % N ∧
    sval (execL env Gen.scalar8x32.scalar_mul.body).env "r.d" < N ∧
    Limbs32 (execL env Gen.scalar8x32.scalar_mul.body).env "r.d" := by
  obtain ⟨A0, A1, A2, A3, A4, A5, A6, A7⟩ := ha
  obtain ⟨B0, B1, B2, B3, B4, B5, B6, B7⟩ := hb
  obtain ⟨h, hq⟩ := scalar_mul_run env _ _ _ _ _ _ _ _ _ _ _ _ _ _ _ _ A0 A1 A2 A3 A4 A5 A6 A7 B0 B1 B2 B3 B4 B5 B6 B7
    rfl rfl rfl rfl rfl rfl rfl rfl rfl rfl rfl rfl rfl rfl rfl rfl
  refine ⟨h, ?_, hq⟩
  have : sval (execL env Gen.scalar8x32.scalar_mul.body).env "r.d" = (sval env "a.d" * sval env "b.d") % N := h
  rw [this]; exact Nat.mod_lt _ (by decide)

/-- Non-vacuity: `a = b = N - 1` satisfy the hypotheses; the theorem then gives `r = 1` (`(-1)·(-1) = 1`).
    The all-ones operands (not reduced) satisfy them as well. -/
example : Limbs32 nm1Env "a.d" ∧ Limbs32 nm1Env "b.d" ∧
    sval (execL nm1Env Gen.scalar8x32.scalar_mul.body).env "r.d" = 1 := by
  have ha : Limbs32 nm1Env "a.d" := by decide +kernel
  have hb : Limbs32 nm1Env "b.d" := by decide +kernel
  obtain ⟨h, _, _⟩ := scalar_mul_correct nm1Env ha hb
  have e : (sval nm1Env "a.d" * sval nm1Env "b.d") % N = 1 := by decide +kernel
  exact ⟨ha, hb, e ▸ h⟩

example : Limbs32 onesEnv "a.d" ∧ Limbs32 onesEnv "b.d" := ⟨by decide +kernel, by decide +kernel⟩

/-! ### 6. `secp256k1_scalar_half` -/

/-- post-condition of `secp256k1_scalar_half(r, a)` -/
def HalfPost (a0 a1 a2 a3 a4 a5 a6 a7 : Nat) (out : Env × Option Nat) : Prop :=
  val8x32 (out.1.get "r.d" 0) (out.1.get "r.d" 1) (out.1.get "r.d" 2) (out.1.get "r.d" 3) (out.1.get "r.d" 4) (out.1.get "r.d" 5) (out.1.get "r.d" 6) (out.1.get "r.d" 7) =
    val8x32 a0 a1 a2 a3 a4 a5 a6 a7 / 2 + val8x32 a0 a1 a2 a3 a4 a5 a6 a7 % 2 * ((N + 1) / 2) ∧
  out.1.get "r.d" 0 < 2 ^ 32 ∧ out.1.get "r.d" 1 < 2 ^ 32 ∧ out.1.get "r.d" 2 < 2 ^ 32 ∧ out.1.get "r.d" 3 < 2 ^ 32 ∧ out.1.get "r.d" 4 < 2 ^ 32 ∧ out.1.get "r.d" 5 < 2 ^ 32 ∧ out.1.get "r.d" 6 < 2 ^ 32 ∧ out.1.get "r.d" 7 < 2 ^ 32

set_option maxRecDepth 100000 in
set_option maxHeartbeats 4000000 in
theorem scalar_half_run (env : Env) (a0 a1 a2 a3 a4 a5 a6 a7 : Nat)
    (h0 : env.get "a.d" 0 = a0) (h1 : env.get "a.d" 1 = a1) (h2 : env.get "a.d" 2 = a2) (h3 : env.get "a.d" 3 = a3) (h4 : env.get "a.d" 4 = a4) (h5 : env.get "a.d" 5 = a5) (h6 : env.get "a.d" 6 = a6) (h7 : env.get "a.d" 7 = a7)
    (A0 : a0 < 2 ^ 32) (A1 : a1 < 2 ^ 32) (A2 : a2 < 2 ^ 32) (A3 : a3 < 2 ^ 32) (A4 : a4 < 2 ^ 32) (A5 : a5 < 2 ^ 32) (A6 : a6 < 2 ^ 32) (A7 : a7 < 2 ^ 32) :
    HalfPost a0 a1 a2 a3 a4 a5 a6 a7 (runR env Gen.scalar8x32.scalar_half.body) := by
  simp only [Gen.scalar8x32.scalar_half]
  vstep mask [h0, h1, h2, h3, h4, h5, h6, h7]
  steps 2 [h0, h1, h2, h3, h4, h5, h6, h7]
  vstep r0 [h0, h1, h2, h3, h4, h5, h6, h7]
  vstep t1 [h0, h1, h2, h3, h4, h5, h6, h7]
  steps 2 [h0, h1, h2, h3, h4, h5, h6, h7]
  vstep r1 [h0, h1, h2, h3, h4, h5, h6, h7]
  vstep t2 [h0, h1, h2, h3, h4, h5, h6, h7]
  steps 2 [h0, h1, h2, h3, h4, h5, h6, h7]
  vstep r2 [h0, h1, h2, h3, h4, h5, h6, h7]
  vstep t3 [h0, h1, h2, h3, h4, h5, h6, h7]
  steps 2 [h0, h1, h2, h3, h4, h5, h6, h7]
  vstep r3 [h0, h1, h2, h3, h4, h5, h6, h7]
  vstep t4 [h0, h1, h2, h3, h4, h5, h6, h7]
  steps 2 [h0, h1, h2, h3, h4, h5, h6, h7]
  vstep r4 [h0, h1, h2, h3, h4, h5, h6, h7]
  vstep t5 [h0, h1, h2, h3, h4, h5, h6, h7]
  steps 2 [h0, h1, h2, h3, h4, h5, h6, h7]
  vstep r5 [h0, h1, h2, h3, h4, h5, h6, h7]
  vstep t6 [h0, h1, h2, h3, h4, h5, h6, h7]
  steps 2 [h0, h1, h2, h3, h4, h5, h6, h7]
  vstep r6 [h0, h1, h2, h3, h4, h5, h6, h7]
  vstep t7 [h0, h1, h2, h3, h4, h5, h6, h7]
  vstep r7 [h0, h1, h2, h3, h4, h5, h6, h7]
  reads [HalfPost]
  exact half_arith32 a0 a1 a2 a3 a4 a5 a6 a7 mask r0 t1 r1 t2 r2 t3 r3 t4 r4 t5 r5 t6 r6 t7 r7 A0 A1 A2 A3 A4 A5 A6 A7 mask_def
    r0_def t1_def r1_def t2_def r2_def t3_def r3_def t4_def r4_def t5_def r5_def t6_def r6_def t7_def r7_def


/-- **`secp256k1_scalar_half` (8×32) is exact.**  For every memory in which `a` is a reduced scalar, the translated C
    function leaves in `r` 32-bit limbs of the number `a/2 + (a mod 2)·(N+1)/2`, which is the unique `r < N`
    with `2·r ≡ a (mod N)`, i.e. `a · 2⁻¹ mod N`. -/
theorem scalar_half_correct (env : Env) (ha : Limbs32 env "a.d") (hA : sval env "a.d" < N) :
    2 * sval (execL env Gen.scalar8x32.scalar_half.body).env "r.d" % N = sval env "a.d" ∧
    sval (execL env Gen.scalar8x32.scalar_half.body).env "r.d" < N ∧
    sval (execL env Gen.scalar8x32.scalar_half.body).env "r.d" =
      sval env "a.d" / 2 + sval env "a.d" % 2 * ((N + 1) / 2) ∧
    Limbs32 (execL env Gen.scalar8x32.scalar_half.body).env "r.d" := by
  obtain ⟨A0, A1, A2, A3, A4, A5, A6, A7⟩ := ha
  obtain ⟨h, hq⟩ := scalar_half_run env _ _ _ _ _ _ _ _ rfl rfl rfl rfl rfl rfl rfl rfl A0 A1 A2 A3 A4 A5 A6 A7
  have h' : sval (execL env Gen.scalar8x32.scalar_half.body).env "r.d" =
      sval env "a.d" / 2 + sval env "a.d" % 2 * ((N + 1) / 2) := h
  obtain ⟨h1, h2⟩ := half_spec _ _ hA h'
  exact ⟨h1, h2, h', hq⟩

/-- post-condition of `scalar_half` on memories, as a decidable predicate (for closed evaluation) -/
def HalfPostEnv (env out : Env) : Prop :=
  2 * sval out "r.d" % N = sval env "a.d" ∧ sval out "r.d" < N ∧ Limbs32 out "r.d"

instance (env out : Env) : Decidable (HalfPostEnv env out) := by unfold HalfPostEnv; infer_instance

/-- Non-vacuity: the even scalar `a = N - 1` and the odd scalar `a = 1` satisfy the hypotheses, and the
    conclusion, evaluated by running the wrap-around interpreter in the kernel, holds for both. -/
example : Limbs32 nm1Env "a.d" ∧ sval nm1Env "a.d" < N ∧
    HalfPostEnv nm1Env (execL nm1Env Gen.scalar8x32.scalar_half.body).env :=
  ⟨by decide +kernel, by decide +kernel,
   of_decide_eq_true (FieldKernel.checkRun_sound (post := fun out => decide (HalfPostEnv nm1Env out)) (by decide +kernel))⟩

example : Limbs32 [(("a.d", 0), 1)] "a.d" ∧ sval [(("a.d", 0), 1)] "a.d" < N ∧
    HalfPostEnv [(("a.d", 0), 1)] (execL [(("a.d", 0), 1)] Gen.scalar8x32.scalar_half.body).env :=
  ⟨by decide +kernel, by decide +kernel,
   of_decide_eq_true (FieldKernel.checkRun_sound (post := fun out => decide (HalfPostEnv [(("a.d", 0), 1)] out))
     (by decide +kernel))⟩

/-! ### 7. `secp256k1_scalar_cadd_bit` -/

/-- post-condition of `secp256k1_scalar_cadd_bit(r, bit, flag)` -/
def CaddPost (x0 x1 x2 x3 x4 x5 x6 x7 bit flag : Nat) (out : Env × Option Nat) : Prop :=
  val8x32 (out.1.get "r.d" 0) (out.1.get "r.d" 1) (out.1.get "r.d" 2) (out.1.get "r.d" 3) (out.1.get "r.d" 4) (out.1.get "r.d" 5) (out.1.get "r.d" 6) (out.1.get "r.d" 7) =
    val8x32 x0 x1 x2 x3 x4 x5 x6 x7 + flag * 2 ^ bit ∧
  out.1.get "r.d" 0 < 2 ^ 32 ∧ out.1.get "r.d" 1 < 2 ^ 32 ∧ out.1.get "r.d" 2 < 2 ^ 32 ∧ out.1.get "r.d" 3 < 2 ^ 32 ∧ out.1.get "r.d" 4 < 2 ^ 32 ∧ out.1.get "r.d" 5 < 2 ^ 32 ∧ out.1.get "r.d" 6 < 2 ^ 32 ∧ out.1.get "r.d" 7 < 2 ^ 32

set_option maxRecDepth 100000 in
set_option maxHeartbeats 4000000 in
theorem scalar_cadd_bit_run (env : Env) (x0 x1 x2 x3 x4 x5 x6 x7 bit flag : Nat)
    (h0 : env.get "r.d" 0 = x0) (h1 : env.get "r.d" 1 = x1) (h2 : env.get "r.d" 2 = x2) (h3 : env.get "r.d" 3 = x3) (h4 : env.get "r.d" 4 = x4) (h5 : env.get "r.d" 5 = x5) (h6 : env.get "r.d" 6 = x6) (h7 : env.get "r.d" 7 = x7)
    (hb : env.get "bit" 0 = bit) (hf : env.get "flag" 0 = flag)
    (X0 : x0 < 2 ^ 32) (X1 : x1 < 2 ^ 32) (X2 : x2 < 2 ^ 32) (X3 : x3 < 2 ^ 32) (X4 : x4 < 2 ^ 32) (X5 : x5 < 2 ^ 32) (X6 : x6 < 2 ^ 32) (X7 : x7 < 2 ^ 32)
    (hbit : bit < 256) (hflag : flag ≤ 1) (hno : val8x32 x0 x1 x2 x3 x4 x5 x6 x7 + flag * 2 ^ bit < 2 ^ 256) :
    CaddPost x0 x1 x2 x3 x4 x5 x6 x7 bit flag (runR env Gen.scalar8x32.scalar_cadd_bit.body) := by
  simp only [Gen.scalar8x32.scalar_cadd_bit]
  steps 1 [h0, h1, h2, h3, h4, h5, h6, h7, hb, hf]
  vstep bit' [h0, h1, h2, h3, h4, h5, h6, h7, hb, hf]
  steps 1 [h0, h1, h2, h3, h4, h5, h6, h7, hb, hf]
  vstep r0 [h0, h1, h2, h3, h4, h5, h6, h7, hb, hf]
  vstep t1 [h0, h1, h2, h3, h4, h5, h6, h7, hb, hf]
  steps 1 [h0, h1, h2, h3, h4, h5, h6, h7, hb, hf]
  vstep r1 [h0, h1, h2, h3, h4, h5, h6, h7, hb, hf]
  vstep t2 [h0, h1, h2, h3, h4, h5, h6, h7, hb, hf]
  steps 1 [h0, h1, h2, h3, h4, h5, h6, h7, hb, hf]
  vstep r2 [h0, h1, h2, h3, h4, h5, h6, h7, hb, hf]
  vstep t3 [h0, h1, h2, h3, h4, h5, h6, h7, hb, hf]
  steps 1 [h0, h1, h2, h3, h4, h5, h6, h7, hb, hf]
  vstep r3 [h0, h1, h2, h3, h4, h5, h6, h7, hb, hf]
  vstep t4 [h0, h1, h2, h3, h4, h5, h6, h7, hb, hf]
  steps 1 [h0, h1, h2, h3, h4, h5, h6, h7, hb, hf]
  vstep r4 [h0, h1, h2, h3, h4, h5, h6, h7, hb, hf]
  vstep t5 [h0, h1, h2, h3, h4, h5, h6, h7, hb, hf]
  steps 1 [h0, h1, h2, h3, h4, h5, h6, h7, hb, hf]
  vstep r5 [h0, h1, h2, h3, h4, h5, h6, h7, hb, hf]
  vstep t6 [h0, h1, h2, h3, h4, h5, h6, h7, hb, hf]
  steps 1 [h0, h1, h2, h3, h4, h5, h6, h7, hb, hf]
  vstep r6 [h0, h1, h2, h3, h4, h5, h6, h7, hb, hf]
  vstep t7 [h0, h1, h2, h3, h4, h5, h6, h7, hb, hf]
  steps 1 [h0, h1, h2, h3, h4, h5, h6, h7, hb, hf]
  vstep r7 [h0, h1, h2, h3, h4, h5, h6, h7, hb, hf]
  reads [CaddPost]
  simp only [cadd_inc32] at r0_def t1_def r1_def t2_def r2_def t3_def r3_def t4_def r4_def t5_def r5_def t6_def r6_def t7_def r7_def
  exact cadd_arith32 x0 x1 x2 x3 x4 x5 x6 x7 bit flag bit' r0 t1 r1 t2 r2 t3 r3 t4 r4 t5 r5 t6 r6 t7 r7 X0 X1 X2 X3 X4 X5 X6 X7 hbit hflag hno
    (cadd_bit' bit flag bit' hbit hflag bit'_def) r0_def t1_def r1_def t2_def r2_def t3_def r3_def t4_def r4_def t5_def r5_def t6_def r6_def t7_def r7_def


/-- **`secp256k1_scalar_cadd_bit` (8×32) is exact.**  For every memory in which `r` has 32-bit limbs, `bit < 256`,
    `flag ∈ {0, 1}` and `r + flag·2^bit` does not overflow 256 bits (the C function's documented contract: "the
    result is not allowed to overflow"), the translated C function leaves in `r` the limbs of `r + flag·2^bit`. -/
theorem scalar_cadd_bit_correct (env : Env) (hr : Limbs32 env "r.d") (hbit : env.get "bit" 0 < 256)
    (hflag : env.get "flag" 0 ≤ 1) (hno : sval env "r.d" + env.get "flag" 0 * 2 ^ env.get "bit" 0 < 2 ^ 256) :
    sval (execL env Gen.scalar8x32.scalar_cadd_bit.body).env "r.d" =
      sval env "r.d" + env.get "flag" 0 * 2 ^ env.get "bit" 0 ∧
    Limbs32 (execL env Gen.scalar8x32.scalar_cadd_bit.body).env "r.d" := by
  obtain ⟨X0, X1, X2, X3, X4, X5, X6, X7⟩ := hr
  exact scalar_cadd_bit_run env _ _ _ _ _ _ _ _ _ _ rfl rfl rfl rfl rfl rfl rfl rfl rfl rfl X0 X1 X2 X3 X4 X5 X6 X7
    hbit hflag hno

/-- `r = 2^64 - 1`, `bit = 38`, `flag = 1`: the addition of `2^38` carries from limb 1 into limb 2 -/
def caddEnv : Env :=
  [(("r.d", 0), 4294967295), (("r.d", 1), 4294967295), (("r.d", 2), 0), (("r.d", 3), 0), (("r.d", 4), 0),
   (("r.d", 5), 0), (("r.d", 6), 0), (("r.d", 7), 0), (("bit", 0), 38), (("flag", 0), 1)]

/-- the same with `flag = 0`: nothing is added -/
def caddEnv0 : Env :=
  [(("r.d", 0), 4294967295), (("r.d", 1), 4294967295), (("r.d", 2), 0), (("r.d", 3), 0), (("r.d", 4), 0),
   (("r.d", 5), 0), (("r.d", 6), 0), (("r.d", 7), 0), (("bit", 0), 38), (("flag", 0), 0)]

/-- post-condition of `scalar_cadd_bit` on memories, as a decidable predicate (for closed evaluation) -/
def CaddPostEnv (env out : Env) : Prop :=
  sval out "r.d" = sval env "r.d" + env.get "flag" 0 * 2 ^ env.get "bit" 0 ∧ Limbs32 out "r.d"

instance (env out : Env) : Decidable (CaddPostEnv env out) := by unfold CaddPostEnv; infer_instance

/-- Non-vacuity: both memories satisfy the hypotheses, and the conclusion, evaluated by running the wrap-around
    interpreter in the kernel, holds. -/
example : Limbs32 caddEnv "r.d" ∧ caddEnv.get "bit" 0 < 256 ∧ caddEnv.get "flag" 0 ≤ 1 ∧
    sval caddEnv "r.d" + caddEnv.get "flag" 0 * 2 ^ caddEnv.get "bit" 0 < 2 ^ 256 ∧
    CaddPostEnv caddEnv (execL caddEnv Gen.scalar8x32.scalar_cadd_bit.body).env :=
  ⟨by decide +kernel, by decide +kernel, by decide +kernel, by decide +kernel,
   of_decide_eq_true (FieldKernel.checkRun_sound (post := fun out => decide (CaddPostEnv caddEnv out)) (by decide +kernel))⟩

example : Limbs32 caddEnv0 "r.d" ∧ caddEnv0.get "bit" 0 < 256 ∧ caddEnv0.get "flag" 0 ≤ 1 ∧
    CaddPostEnv caddEnv0 (execL caddEnv0 Gen.scalar8x32.scalar_cadd_bit.body).env :=
  ⟨by decide +kernel, by decide +kernel, by decide +kernel,
   of_decide_eq_true (FieldKernel.checkRun_sound (post := fun out => decide (CaddPostEnv caddEnv0 out)) (by decide +kernel))⟩

end C05sc32
end SecpZkp
