import SecpZkp.Gen.P_api
import SecpZkp.Model.Keys
import SecpZkp.Props.C01_ir
import SecpZkp.Props.C04_ir
/-
  Property C01 (part "api_ir"): the REGENERATED public API functions of `secp256k1.c` / the extrakeys module
  (`Gen/P_api.lean`, translator mode P: `secp256k1_ecdsa_verify`, `_ecdsa_signature_normalize`, `_ec_pubkey_create`,
  `_ec_seckey_verify`, `_xonly_pubkey_tweak_add`, with their helpers inlined as `scope`s) compute exactly the
  hand-written model functions (`Ecdsa.verify`, `Ecdsa.normalize` of `Model/Ecdsa.lean`; `Keys.pubkeyCreate`,
  `Keys.seckeyVerify`, `Keys.xonlyTweakAdd` of `Model/Keys.lean`): return value, output objects (the all-zero object
  `Pt.inf` on failure) and the number of illegal-argument callbacks.

  Each function has a lemma `…_run` on an explicit state `⟨sc, fe, pt, bs, ints, false⟩` whose lookups bind the inputs,
  and a theorem `…_eq` on an arbitrary state `st` with `st.returned = false` (the inputs are then whatever `st` binds
  to the parameter names; an unbound name reads as 0 / the all-zero object / 32 zero bytes).

  Hypotheses beyond "the state binds the inputs and has not returned":
  * `ecdsa_signature_normalize`, `ec_seckey_verify`, `ec_pubkey_create`: none (`Bytes.toNat` is total and the model uses
    the same conversion; `normalize` tests and negates the scalar `s` as it is, on both sides).
  * `ecdsa_verify`, `xonly_pubkey_tweak_add`: the callback counter `illegal` starts at 0 (the program increments the
    counter, the model reports the number of callbacks of this call).
  * `ecdsa_verify`: `sig.r < n`.  A signature object always holds reduced scalars; the program works with `r mod n`
    (`secp256k1_scalar_is_zero`, `secp256k1_scalar_get_b32`), the model with `r`.  The hypothesis cannot be dropped: see
    the example with `r + n` at the end (program 1, model 0).  Nothing is needed for `sig.s` (an `s ≥ n` is "high" and
    rejected first, on both sides), for the message, or for the key object (any point: both sides compute the same
    point `u2·Q + u1·G`; the all-zero object raises the callback on both sides, but only when `s` is low, because the
    key is loaded after the test of `s`).
  * `xonly_pubkey_tweak_add`: the key object is a valid point (or all-zero), as for `ec_pubkey_tweak_add` in
    `Props/C04_ir.lean`: the C code computes `1·Q + t·G` with `secp256k1_ecmult`, the model `Q + t·G`, and `1·Q = Q`
    (`Pt.mul 1 q = q`) holds for valid points only.  Objects produced by the library are always valid.  The hypothesis
    cannot be dropped: see the example with a non-canonical abscissa `G.x + p` at the end.
-/
namespace SecpZkp
namespace C01apiir
open MiniC AlgIR SecpZkp.Algebra

/-! ### `secp256k1_ecdsa_signature_normalize` -/

/-- `ecdsa_signature_normalize` on an explicit state -/
theorem normalize_run (sc fe : List (String × Nat)) (pt : List (String × Pt)) (bs : List (String × Bytes))
    (ints : Env) (r s : Nat) (h1 : lookup 0 sc "sigin.r" = r) (h2 : lookup 0 sc "sigin.s" = s) :
    (execL ⟨sc, fe, pt, bs, ints, false⟩ Gen.Papi.ecdsa_signature_normalize.body).ints.get "ret" 0 =
      (Ecdsa.normalize (r, s)).1 ∧
    (execL ⟨sc, fe, pt, bs, ints, false⟩ Gen.Papi.ecdsa_signature_normalize.body).scGet "sigout.r" =
      (Ecdsa.normalize (r, s)).2.1 ∧
    (execL ⟨sc, fe, pt, bs, ints, false⟩ Gen.Papi.ecdsa_signature_normalize.body).scGet "sigout.s" =
      (Ecdsa.normalize (r, s)).2.2 := by
  unfold Gen.Papi.ecdsa_signature_normalize
  alg_run2 [h1, h2, ints_ite, get_ite, scGet_ite, scGet_mk, FeIR.ite_one_zero_ne_zero, decide_eq_true_eq]
  simp only [Ecdsa.normalize]
  by_cases hh : Sc.isHigh s = true <;> simp [hh]

/-! ### `secp256k1_ec_seckey_verify` -/

/-- `ec_seckey_verify` on an explicit state -/
theorem seckey_verify_run (sc fe : List (String × Nat)) (pt : List (String × Pt)) (bs : List (String × Bytes))
    (ints : Env) (sk : Bytes) (h1 : lookup (Bytes.zeros 32) bs "seckey" = sk) :
    (execL ⟨sc, fe, pt, bs, ints, false⟩ Gen.Papi.ec_seckey_verify.body).ints.get "ret" 0 = Keys.seckeyVerify sk := by
  unfold Gen.Papi.ec_seckey_verify
  alg_run2 [h1, ints_ite, get_ite, FeIR.ite_one_zero_ne_zero, decide_eq_true_eq]
  simp only [Keys.seckeyVerify, Sc.setB32Seckey, Sc.setB32, C04ir.seckey_ok, decide_eq_true_eq]

/-! ### `secp256k1_ec_pubkey_create` -/

/-- `ec_pubkey_create` on an explicit state -/
theorem pubkey_create_run (sc fe : List (String × Nat)) (pt : List (String × Pt)) (bs : List (String × Bytes))
    (ints : Env) (sk : Bytes) (h1 : lookup (Bytes.zeros 32) bs "seckey" = sk) :
    (execL ⟨sc, fe, pt, bs, ints, false⟩ Gen.Papi.ec_pubkey_create.body).ints.get "ret" 0 = (Keys.pubkeyCreate sk).1 ∧
    (execL ⟨sc, fe, pt, bs, ints, false⟩ Gen.Papi.ec_pubkey_create.body).ptGet "pubkey" = (Keys.pubkeyCreate sk).2 := by
  unfold Gen.Papi.ec_pubkey_create
  alg_run2 [h1, ints_ite, get_ite, ptGet_ite, ptGet_mk, FeIR.ite_one_zero_ne_zero, decide_eq_true_eq, Nat.mod_mod]
  simp only [Keys.pubkeyCreate, Sc.setB32Seckey, Sc.setB32, C04ir.seckey_ok, decide_eq_true_eq]
  by_cases hok : sk.toNat < N ∧ sk.toNat ≠ 0 <;> simp [hok]

/-! ### `secp256k1_xonly_pubkey_tweak_add` -/

/-- `xonly_pubkey_tweak_add` on an explicit state -/
theorem xonly_tweak_add_run (sc fe : List (String × Nat)) (pt : List (String × Pt)) (bs : List (String × Bytes))
    (ints : Env) (pk : Pt) (tw : Bytes) (h1 : lookup Pt.inf pt "internal_pubkey" = pk)
    (h2 : lookup (Bytes.zeros 32) bs "tweak32" = tw) (hill : ints.get "illegal" 0 = 0)
    (hpk : pk.valid = true) :
    (execL ⟨sc, fe, pt, bs, ints, false⟩ Gen.Papi.xonly_pubkey_tweak_add.body).ints.get "ret" 0 =
      (Keys.xonlyTweakAdd pk tw).ret ∧
    (execL ⟨sc, fe, pt, bs, ints, false⟩ Gen.Papi.xonly_pubkey_tweak_add.body).ptGet "output_pubkey" =
      (Keys.xonlyTweakAdd pk tw).out ∧
    (execL ⟨sc, fe, pt, bs, ints, false⟩ Gen.Papi.xonly_pubkey_tweak_add.body).ints.get "illegal" 0 =
      (Keys.xonlyTweakAdd pk tw).illegal := by
  unfold Gen.Papi.xonly_pubkey_tweak_add
  alg_run2 [h1, h2, hill, ints_ite, get_ite, ptGet_ite, ptGet_mk, FeIR.ite_one_zero_ne_zero, decide_eq_true_eq, Nat.mod_mod]
  simp only [C04ir.one_mod_N, C04ir.mul_one_valid hpk, FeIR.ite_one_zero_eq_zero, ite_self]
  cases pk with
  | inf => simp [Keys.xonlyTweakAdd, Keys.pubkeyTweakAdd]
  | aff x y =>
    simp only [Keys.xonlyTweakAdd, Keys.pubkeyTweakAdd, Ecdsa.pubkeyTweakAddHelper, Sc.setB32, reduceCtorEq, if_false,
      decide_eq_true_eq]
    by_cases hov : tw.toNat ≥ N
    · simp [hov]
    · simp only [hov, not_false_eq_true, if_true, if_false]
      generalize Pt.add (Pt.aff x y) (Pt.mulG (tw.toNat % N)) = R
      cases R <;> simp [Pt.isInf]

/-! ### `secp256k1_ecdsa_verify` -/

/-- a scalar that is not high is reduced -/
theorem lt_N_of_not_high {s : Nat} (h : ¬ Sc.isHigh s = true) : s < N := by
  have h1 : ¬ s > (N - 1) / 2 := by simpa [Sc.isHigh] using h
  have h2 : (N - 1) / 2 < N := by decide +kernel
  omega

/-- `ecdsa_verify` on an explicit state -/
theorem ecdsa_verify_run (sc fe : List (String × Nat)) (pt : List (String × Pt)) (bs : List (String × Bytes))
    (ints : Env) (r s : Nat) (msg : Bytes) (q : Pt) (hr : r < N)
    (h1 : lookup 0 sc "sig.r" = r) (h2 : lookup 0 sc "sig.s" = s)
    (h3 : lookup (Bytes.zeros 32) bs "msghash32" = msg) (h4 : lookup Pt.inf pt "pubkey" = q)
    (hill : ints.get "illegal" 0 = 0) :
    (execL ⟨sc, fe, pt, bs, ints, false⟩ Gen.Papi.ecdsa_verify.body).ints.get "ret" 0 =
      (Ecdsa.verify (r, s) msg q).ret ∧
    (execL ⟨sc, fe, pt, bs, ints, false⟩ Gen.Papi.ecdsa_verify.body).ints.get "illegal" 0 =
      (Ecdsa.verify (r, s) msg q).illegal := by
  unfold Gen.Papi.ecdsa_verify
  by_cases hh : Sc.isHigh s = true
  · -- a high `s` (in particular every unreduced `s ≥ n`): rejected before anything else is looked at
    alg_run2 [h1, h2, h3, h4, hill, hh, ints_ite, get_ite]
    simp [Ecdsa.verify, hh]
  have hs : s < N := lt_N_of_not_high hh
  have hrP : r < P := lt_trans hr N_lt_P
  alg_run2 [h1, h2, h3, h4, hill, hh, ints_ite, get_ite, FeIR.ite_one_zero_ne_zero, decide_eq_true_eq, feCmp_ge,
    C01ir.p_minus_order_eq, C01ir.order_as_fe_eq, Nat.mod_mod, Nat.mod_eq_of_lt hr, Nat.mod_eq_of_lt hs,
    toNat_be32 (lt_trans hr N_lt_pow), Nat.mod_eq_of_lt hrP]
  have e1 : ∀ a b, Sc.mul a b % N = Sc.mul a b := fun a b => Nat.mod_mod _ _
  have e2 : (P - N) % P = P - N := Nat.mod_eq_of_lt (Nat.sub_lt P_pos N_pos)
  simp only [e1, e2, Fe.add, Nat.mod_mod]
  simp only [Ecdsa.verify, hh, Bool.false_eq_true, if_false, if_true]
  cases q with
  | inf => simp [Pt.isInf]
  | aff qx qy =>
    simp only [Pt.isInf, reduceCtorEq, Bool.false_eq_true, if_false, Ecdsa.sigVerify]
    generalize Pt.add (Pt.mul (Sc.mul (Sc.inv s) r) (Pt.aff qx qy)) (Pt.mulG (Sc.mul (Sc.inv s) (msg.toNat % N))) = R
    by_cases hr0 : r = 0
    · simp [hr0]
    by_cases hs0 : s = 0
    · simp [hs0]
    cases R with
    | inf => simp [hr0, hs0]
    | aff x y =>
      simp only [hr0, hs0, Pt.xOf, if_false, or_self, Bool.false_eq_true]
      by_cases hx : x = r
      · simp [hx]
      by_cases hge : P - N ≤ r
      · simp [hx, hge]
      have : (r + N) % P = r + N := Nat.mod_eq_of_lt (by omega)
      simp [hx, hge, this]

/-! ### The theorems on arbitrary states -/

/-- **The generated `secp256k1_ecdsa_signature_normalize` is `Ecdsa.normalize`**: for every state that has not returned,
    with the parsed input signature in the scalars `sigin.r`, `sigin.s`: `ret` is the model's flag ("`s` was high") and
    the scalars `sigout.r`, `sigout.s` are the model's normalized signature.  No hypothesis on `r`, `s`. -/
theorem signature_normalize_eq (st : State) (hret : st.returned = false) :
    (execL st Gen.Papi.ecdsa_signature_normalize.body).ints.get "ret" 0 =
      (Ecdsa.normalize (st.scGet "sigin.r", st.scGet "sigin.s")).1 ∧
    (execL st Gen.Papi.ecdsa_signature_normalize.body).scGet "sigout.r" =
      (Ecdsa.normalize (st.scGet "sigin.r", st.scGet "sigin.s")).2.1 ∧
    (execL st Gen.Papi.ecdsa_signature_normalize.body).scGet "sigout.s" =
      (Ecdsa.normalize (st.scGet "sigin.r", st.scGet "sigin.s")).2.2 := by
  obtain ⟨sc, fe, pt, bs, ints, ret⟩ := st
  simp only at hret
  subst hret
  exact normalize_run sc fe pt bs ints _ _ rfl rfl

/-- **The generated `secp256k1_ec_seckey_verify` is `Keys.seckeyVerify`** (1 iff the 32 bytes `seckey` are a number in
    `[1, n-1]`), for every state that has not returned. -/
theorem seckey_verify_eq (st : State) (hret : st.returned = false) :
    (execL st Gen.Papi.ec_seckey_verify.body).ints.get "ret" 0 = Keys.seckeyVerify (st.byGet "seckey") := by
  obtain ⟨sc, fe, pt, bs, ints, ret⟩ := st
  simp only at hret
  subst hret
  exact seckey_verify_run sc fe pt bs ints _ rfl

/-- **The generated `secp256k1_ec_pubkey_create` is `Keys.pubkeyCreate`**: return value and the key object `pubkey`
    (`d·G` for a valid secret key `d`; the all-zero object `Pt.inf` on failure), for every state that has not
    returned. -/
theorem pubkey_create_eq (st : State) (hret : st.returned = false) :
    (execL st Gen.Papi.ec_pubkey_create.body).ints.get "ret" 0 = (Keys.pubkeyCreate (st.byGet "seckey")).1 ∧
    (execL st Gen.Papi.ec_pubkey_create.body).ptGet "pubkey" = (Keys.pubkeyCreate (st.byGet "seckey")).2 := by
  obtain ⟨sc, fe, pt, bs, ints, ret⟩ := st
  simp only at hret
  subst hret
  exact pubkey_create_run sc fe pt bs ints _ rfl

/-- **The generated `secp256k1_xonly_pubkey_tweak_add` is `Keys.xonlyTweakAdd`**, for a valid (or all-zero) x-only key
    object `internal_pubkey`: return value, the key object `output_pubkey` (`Pt.inf` = all-zero on failure) and the
    callback count. -/
theorem xonly_pubkey_tweak_add_eq (st : State) (hret : st.returned = false) (hill : st.ints.get "illegal" 0 = 0)
    (hpk : (st.ptGet "internal_pubkey").valid = true) :
    (execL st Gen.Papi.xonly_pubkey_tweak_add.body).ints.get "ret" 0 =
      (Keys.xonlyTweakAdd (st.ptGet "internal_pubkey") (st.byGet "tweak32")).ret ∧
    (execL st Gen.Papi.xonly_pubkey_tweak_add.body).ptGet "output_pubkey" =
      (Keys.xonlyTweakAdd (st.ptGet "internal_pubkey") (st.byGet "tweak32")).out ∧
    (execL st Gen.Papi.xonly_pubkey_tweak_add.body).ints.get "illegal" 0 =
      (Keys.xonlyTweakAdd (st.ptGet "internal_pubkey") (st.byGet "tweak32")).illegal := by
  obtain ⟨sc, fe, pt, bs, ints, ret⟩ := st
  simp only at hret
  subst hret
  exact xonly_tweak_add_run sc fe pt bs ints _ _ rfl rfl hill hpk

/-- **The generated `secp256k1_ecdsa_verify` is `Ecdsa.verify`**: for every state that has not returned, with the
    parsed signature in the scalars `sig.r` (`< n`), `sig.s`, the 32 message bytes `msghash32`, the key object
    `pubkey` (ANY point or the all-zero object) and the callback counter at 0: `ret` is the model's return value and
    `illegal` the model's callback count (1 exactly when `s` is low and the key object is all-zero; a high `s` is
    rejected BEFORE the key is loaded, on both sides). -/
theorem ecdsa_verify_eq (st : State) (hret : st.returned = false) (hill : st.ints.get "illegal" 0 = 0)
    (hr : st.scGet "sig.r" < N) :
    (execL st Gen.Papi.ecdsa_verify.body).ints.get "ret" 0 =
      (Ecdsa.verify (st.scGet "sig.r", st.scGet "sig.s") (st.byGet "msghash32") (st.ptGet "pubkey")).ret ∧
    (execL st Gen.Papi.ecdsa_verify.body).ints.get "illegal" 0 =
      (Ecdsa.verify (st.scGet "sig.r", st.scGet "sig.s") (st.byGet "msghash32") (st.ptGet "pubkey")).illegal := by
  obtain ⟨sc, fe, pt, bs, ints, ret⟩ := st
  simp only at hret
  subst hret
  exact ecdsa_verify_run sc fe pt bs ints _ _ _ _ hr rfl rfl rfl rfl hill

/-! ### Non-vacuity: concrete runs (kernel evaluation of both sides) -/

/-- the signature `(5, n - 1)` (high `s`) -/
def exNormSt : State := { sc := [("sigin.r", 5), ("sigin.s", N - 1)] }

example : exNormSt.returned = false ∧
    (execL exNormSt Gen.Papi.ecdsa_signature_normalize.body).ints.get "ret" 0 = 1 ∧
    (execL exNormSt Gen.Papi.ecdsa_signature_normalize.body).scGet "sigout.r" = 5 ∧
    (execL exNormSt Gen.Papi.ecdsa_signature_normalize.body).scGet "sigout.s" = 1 ∧
    Ecdsa.normalize (5, N - 1) = (1, (5, 1)) := by decide +kernel

/-- a low `s` is left alone, `ret = 0` -/
example : (execL { exNormSt with sc := [("sigin.r", 5), ("sigin.s", 7)] }
      Gen.Papi.ecdsa_signature_normalize.body).ints.get "ret" 0 = 0 ∧
    (execL { exNormSt with sc := [("sigin.r", 5), ("sigin.s", 7)] }
      Gen.Papi.ecdsa_signature_normalize.body).scGet "sigout.s" = 7 ∧
    Ecdsa.normalize (5, 7) = (0, (5, 7)) := by decide +kernel

/-- secret key 5; x-only key `G` (even y), tweak 7 -/
def exKeySt : State :=
  { bs := [("seckey", Bytes.be32 5), ("tweak32", Bytes.be32 7)], pt := [("internal_pubkey", Pt.G)] }

/-- the hypotheses of `seckey_verify_eq`, `pubkey_create_eq`, `xonly_pubkey_tweak_add_eq` hold of `exKeySt` -/
example : exKeySt.returned = false ∧ exKeySt.ints.get "illegal" 0 = 0 ∧
    (exKeySt.ptGet "internal_pubkey").valid = true := by decide +kernel

example : (execL exKeySt Gen.Papi.ec_seckey_verify.body).ints.get "ret" 0 = 1 ∧
    Keys.seckeyVerify (Bytes.be32 5) = 1 := by decide +kernel

/-- the key `n` is rejected by both -/
example : (execL { exKeySt with bs := [("seckey", Bytes.be32 N)] } Gen.Papi.ec_seckey_verify.body).ints.get "ret" 0 = 0 ∧
    Keys.seckeyVerify (Bytes.be32 N) = 0 := by decide +kernel

example : (execL exKeySt Gen.Papi.ec_pubkey_create.body).ints.get "ret" 0 = 1 ∧
    (execL exKeySt Gen.Papi.ec_pubkey_create.body).ptGet "pubkey" = Pt.mulG 5 ∧
    Keys.pubkeyCreate (Bytes.be32 5) = (1, Pt.mulG 5) := by decide +kernel

/-- the zero key: return 0 and the all-zero object, although the state held a key object before -/
example : (execL { exKeySt with bs := [], pt := [("pubkey", Pt.G)] } Gen.Papi.ec_pubkey_create.body).ints.get "ret" 0 = 0 ∧
    (execL { exKeySt with bs := [], pt := [("pubkey", Pt.G)] } Gen.Papi.ec_pubkey_create.body).ptGet "pubkey" = Pt.inf ∧
    Keys.pubkeyCreate (Bytes.zeros 32) = (0, Pt.inf) := by decide +kernel

example : (execL exKeySt Gen.Papi.xonly_pubkey_tweak_add.body).ints.get "ret" 0 = 1 ∧
    (execL exKeySt Gen.Papi.xonly_pubkey_tweak_add.body).ptGet "output_pubkey" = Pt.mulG 8 ∧
    (execL exKeySt Gen.Papi.xonly_pubkey_tweak_add.body).ints.get "illegal" 0 = 0 ∧
    (Keys.xonlyTweakAdd Pt.G (Bytes.be32 7)).ret = 1 ∧ (Keys.xonlyTweakAdd Pt.G (Bytes.be32 7)).out = Pt.mulG 8 := by
  decide +kernel

/-- the tweak `n - 1` sends `G` to infinity: return 0, output all-zero, no callback — on both sides -/
example : (execL { exKeySt with bs := [("tweak32", Bytes.be32 (N - 1))] }
      Gen.Papi.xonly_pubkey_tweak_add.body).ints.get "ret" 0 = 0 ∧
    (execL { exKeySt with bs := [("tweak32", Bytes.be32 (N - 1))] }
      Gen.Papi.xonly_pubkey_tweak_add.body).ptGet "output_pubkey" = Pt.inf ∧
    (execL { exKeySt with bs := [("tweak32", Bytes.be32 (N - 1))] }
      Gen.Papi.xonly_pubkey_tweak_add.body).ints.get "illegal" 0 = 0 ∧
    (Keys.xonlyTweakAdd Pt.G (Bytes.be32 (N - 1))).ret = 0 ∧
    (Keys.xonlyTweakAdd Pt.G (Bytes.be32 (N - 1))).illegal = 0 := by decide +kernel

/-- the all-zero key object: return 0, output all-zero, one callback — on both sides -/
example : (execL { exKeySt with pt := [] } Gen.Papi.xonly_pubkey_tweak_add.body).ints.get "ret" 0 = 0 ∧
    (execL { exKeySt with pt := [] } Gen.Papi.xonly_pubkey_tweak_add.body).ptGet "output_pubkey" = Pt.inf ∧
    (execL { exKeySt with pt := [] } Gen.Papi.xonly_pubkey_tweak_add.body).ints.get "illegal" 0 = 1 ∧
    (Keys.xonlyTweakAdd Pt.inf (Bytes.be32 7)).illegal = 1 := by decide +kernel

/-- the valid signature `(exR, exS)` of `Props/C01_ir.lean` (key 1, nonce 2) on the message bytes `be32 3`, key `G` -/
def exVerifySt : State :=
  { sc := [("sig.r", C01ir.exR), ("sig.s", C01ir.exS)], bs := [("msghash32", Bytes.be32 3)], pt := [("pubkey", Pt.G)] }

/-- the hypotheses of `ecdsa_verify_eq` hold of `exVerifySt`; the model accepts, without callback -/
example : exVerifySt.returned = false ∧ exVerifySt.ints.get "illegal" 0 = 0 ∧
    exVerifySt.scGet "sig.r" < N ∧ exVerifySt.scGet "sig.s" < N ∧
    (Ecdsa.verify (C01ir.exR, C01ir.exS) (Bytes.be32 3) Pt.G).ret = 1 ∧
    (Ecdsa.verify (C01ir.exR, C01ir.exS) (Bytes.be32 3) Pt.G).illegal = 0 := by decide +kernel

/-- and the generated program, run by the kernel on that state, returns 1 without callback -/
example : (execL exVerifySt Gen.Papi.ecdsa_verify.body).ints.get "ret" 0 = 1 ∧
    (execL exVerifySt Gen.Papi.ecdsa_verify.body).ints.get "illegal" 0 = 0 := by decide +kernel

/-- another message: both reject, without callback -/
example : (execL { exVerifySt with bs := [("msghash32", Bytes.be32 4)] } Gen.Papi.ecdsa_verify.body).ints.get "ret" 0 = 0 ∧
    (Ecdsa.verify (C01ir.exR, C01ir.exS) (Bytes.be32 4) Pt.G).ret = 0 := by decide +kernel

/-- the all-zero key object with a low `s`: return 0 and one callback — on both sides -/
example : (execL { exVerifySt with pt := [] } Gen.Papi.ecdsa_verify.body).ints.get "ret" 0 = 0 ∧
    (execL { exVerifySt with pt := [] } Gen.Papi.ecdsa_verify.body).ints.get "illegal" 0 = 1 ∧
    (Ecdsa.verify (C01ir.exR, C01ir.exS) (Bytes.be32 3) Pt.inf).ret = 0 ∧
    (Ecdsa.verify (C01ir.exR, C01ir.exS) (Bytes.be32 3) Pt.inf).illegal = 1 := by decide +kernel

/-- the all-zero key object with a HIGH `s` (`n - exS`): return 0 and NO callback (the key is never loaded) — on both
    sides -/
example : (execL { exVerifySt with sc := [("sig.r", C01ir.exR), ("sig.s", N - C01ir.exS)], pt := [] }
      Gen.Papi.ecdsa_verify.body).ints.get "ret" 0 = 0 ∧
    (execL { exVerifySt with sc := [("sig.r", C01ir.exR), ("sig.s", N - C01ir.exS)], pt := [] }
      Gen.Papi.ecdsa_verify.body).ints.get "illegal" 0 = 0 ∧
    Sc.isHigh (N - C01ir.exS) = true ∧
    (Ecdsa.verify (C01ir.exR, N - C01ir.exS) (Bytes.be32 3) Pt.inf).illegal = 0 := by decide +kernel

/-- The hypothesis `sig.r < n` of `ecdsa_verify_eq` is needed: with the unreduced `r + n` in the object (which the
    parsers never produce) the program, working with `r mod n`, accepts, and the model rejects. -/
example : (execL { exVerifySt with sc := [("sig.r", C01ir.exR + N), ("sig.s", C01ir.exS)] }
      Gen.Papi.ecdsa_verify.body).ints.get "ret" 0 = 1 ∧
    (Ecdsa.verify (C01ir.exR + N, C01ir.exS) (Bytes.be32 3) Pt.G).ret = 0 := by decide +kernel

/-- The validity hypothesis of `xonly_pubkey_tweak_add_eq` is needed: for the "point" `(G.x + p, G.y)` (coordinates
    not canonical; no key object of the library is like that) and the tweak 0, the program returns `1·Q + 0·G = G` with
    reduced coordinates, the model `Q + ∞ = Q` as it is. -/
example : (execL { exKeySt with bs := [], pt := [("internal_pubkey", Pt.aff (Pt.xOf Pt.G + P) (Pt.yOf Pt.G))] }
      Gen.Papi.xonly_pubkey_tweak_add.body).ptGet "output_pubkey" = Pt.G ∧
    (Keys.xonlyTweakAdd (Pt.aff (Pt.xOf Pt.G + P) (Pt.yOf Pt.G)) (Bytes.zeros 32)).out =
      Pt.aff (Pt.xOf Pt.G + P) (Pt.yOf Pt.G) ∧
    (Pt.aff (Pt.xOf Pt.G + P) (Pt.yOf Pt.G)).valid = false := by decide +kernel

end C01apiir
end SecpZkp
