import SecpZkp.Gen.P_keys
import SecpZkp.Model.Keys
import SecpZkp.Proofs.AlgIRLemmas2
import SecpZkp.Proofs.Algebra
import SecpZkp.Proofs.BytesBasic
import SecpZkp.Proofs.GroupLawProved
/-
  Property C04 (part "ir"): the REGENERATED key functions of `secp256k1.c` (`Gen/P_keys.lean`, translator mode P:
  `secp256k1_ec_seckey_negate`, `_ec_seckey_tweak_add`, `_ec_seckey_tweak_mul`, `_ec_pubkey_negate`,
  `_ec_pubkey_tweak_add`, `_ec_pubkey_tweak_mul`, with their helpers inlined as `scope`s) compute exactly the
  hand-written model functions of `Model/Keys.lean`: return value, the updated key (the 32 bytes `seckey`, zeroed on
  failure; the point object `pubkey`, the all-zero object `Pt.inf` on failure) and the number of illegal-argument
  callbacks.

  Hypotheses beyond "the state binds the inputs":
  * pubkey functions: the callback counter `illegal` starts at 0.
  * `ec_pubkey_tweak_add`: the key object is a valid point (or all-zero).  The C code computes `1·Q + t·G` with
    `secp256k1_ecmult`, the model `Q + t·G`; `1·Q = Q` (`Pt.mul 1 q = q`) holds for valid points only (for a "point"
    with non-canonical coordinates `Pt.mul` reduces them).  Objects produced by the library are always valid.
  * `ec_pubkey_tweak_mul`: the scalar name `@null` (the translator's name for the NULL `ng` argument of
    `secp256k1_ecmult`) is not bound to a non-zero value.
  No length hypotheses are needed (`Bytes.toNat` is total; the model uses the same conversion).
-/
namespace SecpZkp
namespace C04ir
open MiniC AlgIR SecpZkp.Algebra

theorem be32_zero : Bytes.be32 0 = Bytes.zeros 32 := by decide

/-- the validity flag of `secp256k1_scalar_set_b32_seckey`, model form and IR form -/
theorem seckey_ok (v : Nat) : (!decide (v ≥ N) && (v % N != 0)) = decide (v < N ∧ v ≠ 0) := by
  by_cases h : v < N
  · have h' : ¬ v ≥ N := by omega
    by_cases h0 : v = 0 <;> simp [h, h', Nat.mod_eq_of_lt h, h0]
  · have h' : v ≥ N := by omega
    simp [h, h']

theorem neg_zero_mod : Sc.neg (0 % N) % N = 0 := by decide +kernel

/-- `ec_seckey_negate` on an explicit state -/
theorem seckey_negate_run (sc fe : List (String × Nat)) (pt : List (String × Pt)) (bs : List (String × Bytes))
    (ints : Env) (sk : Bytes) (h1 : lookup (Bytes.zeros 32) bs "seckey" = sk) :
    (execL ⟨sc, fe, pt, bs, ints, false⟩ Gen.Pkeys.ec_seckey_negate.body).ints.get "ret" 0 = (Keys.seckeyNegate sk).1 ∧
    (execL ⟨sc, fe, pt, bs, ints, false⟩ Gen.Pkeys.ec_seckey_negate.body).byGet "seckey" = (Keys.seckeyNegate sk).2 := by
  unfold Gen.Pkeys.ec_seckey_negate
  alg_run2 [h1, ints_ite, get_ite, byGet_ite, byGet_mk, FeIR.ite_one_zero_ne_zero, decide_eq_true_eq, Nat.mod_mod]
  simp only [Keys.seckeyNegate, Sc.setB32Seckey, Sc.setB32, seckey_ok, decide_eq_true_eq, neg_zero_mod, be32_zero]
  have e2 : ∀ a, Sc.neg a % N = Sc.neg a := fun a => Nat.mod_mod _ _
  by_cases hok : sk.toNat < N ∧ sk.toNat ≠ 0
  · simp only [hok, and_self, if_true, one_eq_zero_eq, if_false, e2, ne_eq, not_false_eq_true]
  · simp only [hok, if_false, if_true, and_self]

theorem flag_and2 (a d : Prop) [Decidable a] [Decidable d] :
    ((if a then 1 else 0) &&& (if d then 1 else 0) : Nat) = if a ∧ d then 1 else 0 := by
  by_cases ha : a <;> by_cases hd : d <;> simp [ha, hd]

theorem be32_zero_mod : Bytes.be32 (0 % N) = Bytes.zeros 32 := by decide

/-- `ec_seckey_tweak_add` on an explicit state -/
theorem seckey_tweak_add_run (sc fe : List (String × Nat)) (pt : List (String × Pt)) (bs : List (String × Bytes))
    (ints : Env) (sk tw : Bytes) (h1 : lookup (Bytes.zeros 32) bs "seckey" = sk)
    (h2 : lookup (Bytes.zeros 32) bs "tweak32" = tw) :
    (execL ⟨sc, fe, pt, bs, ints, false⟩ Gen.Pkeys.ec_seckey_tweak_add.body).ints.get "ret" 0 =
      (Keys.seckeyTweakAdd sk tw).1 ∧
    (execL ⟨sc, fe, pt, bs, ints, false⟩ Gen.Pkeys.ec_seckey_tweak_add.body).byGet "seckey" =
      (Keys.seckeyTweakAdd sk tw).2 := by
  unfold Gen.Pkeys.ec_seckey_tweak_add
  alg_run2 [h1, h2, ints_ite, get_ite, byGet_ite, byGet_mk, FeIR.ite_one_zero_ne_zero, decide_eq_true_eq, Nat.mod_mod]
  have e1 : ∀ a b, Sc.add a b % N = Sc.add a b := fun a b => Nat.mod_mod _ _
  simp only [flag_and2, FeIR.ite_one_zero_eq_zero, ite_self, e1, be32_zero_mod,
    Keys.seckeyTweakAdd, Ecdsa.seckeyTweakAddHelper, Sc.setB32Seckey, Sc.setB32, seckey_ok, decide_eq_true_eq]
  by_cases hok : sk.toNat < N ∧ sk.toNat ≠ 0 <;> by_cases hov : tw.toNat ≥ N <;>
    by_cases hz : Sc.add (sk.toNat % N) (tw.toNat % N) = 0 <;> simp [hok, hov, hz]

/-- `ec_seckey_tweak_mul` on an explicit state -/
theorem seckey_tweak_mul_run (sc fe : List (String × Nat)) (pt : List (String × Pt)) (bs : List (String × Bytes))
    (ints : Env) (sk tw : Bytes) (h1 : lookup (Bytes.zeros 32) bs "seckey" = sk)
    (h2 : lookup (Bytes.zeros 32) bs "tweak32" = tw) :
    (execL ⟨sc, fe, pt, bs, ints, false⟩ Gen.Pkeys.ec_seckey_tweak_mul.body).ints.get "ret" 0 =
      (Keys.seckeyTweakMul sk tw).1 ∧
    (execL ⟨sc, fe, pt, bs, ints, false⟩ Gen.Pkeys.ec_seckey_tweak_mul.body).byGet "seckey" =
      (Keys.seckeyTweakMul sk tw).2 := by
  unfold Gen.Pkeys.ec_seckey_tweak_mul
  alg_run2 [h1, h2, ints_ite, get_ite, byGet_ite, byGet_mk, FeIR.ite_one_zero_ne_zero, decide_eq_true_eq, Nat.mod_mod]
  have e1 : ∀ a b, Sc.mul a b % N = Sc.mul a b := fun a b => Nat.mod_mod _ _
  simp only [flag_and2, FeIR.ite_one_zero_eq_zero, ite_self, e1, be32_zero_mod,
    Keys.seckeyTweakMul, Sc.setB32Seckey, Sc.setB32, seckey_ok, decide_eq_true_eq]
  by_cases hok : sk.toNat < N ∧ sk.toNat ≠ 0 <;> by_cases hov : tw.toNat ≥ N <;>
    by_cases hz : tw.toNat % N = 0 <;> simp [hok, hov, hz]

theorem one_mod_N : 1 % N = 1 := by decide +kernel
theorem mulG_zero_mod : Pt.mulG (0 % N) = Pt.inf := by decide +kernel

/-- `1·Q = Q` for a valid point (the C code computes `1·Q + t·G` with `secp256k1_ecmult`) -/
theorem mul_one_valid {q : Pt} (hq : q.valid = true) : Pt.mul 1 q = q := by
  have h := groupLaw.mul_succ 0 q hq (lt_mulBound_of_lt_N (show 0 + 1 < N by decide +kernel))
  rw [groupLaw.mul_zero] at h
  rw [h]; exact add_inf_left q

/-- `ec_pubkey_negate` on an explicit state -/
theorem pubkey_negate_run (sc fe : List (String × Nat)) (pt : List (String × Pt)) (bs : List (String × Bytes))
    (ints : Env) (pk : Pt) (h1 : lookup Pt.inf pt "pubkey" = pk) (hill : ints.get "illegal" 0 = 0) :
    (execL ⟨sc, fe, pt, bs, ints, false⟩ Gen.Pkeys.ec_pubkey_negate.body).ints.get "ret" 0 = (Keys.pubkeyNegate pk).ret ∧
    (execL ⟨sc, fe, pt, bs, ints, false⟩ Gen.Pkeys.ec_pubkey_negate.body).ptGet "pubkey" = (Keys.pubkeyNegate pk).out ∧
    (execL ⟨sc, fe, pt, bs, ints, false⟩ Gen.Pkeys.ec_pubkey_negate.body).ints.get "illegal" 0 =
      (Keys.pubkeyNegate pk).illegal := by
  unfold Gen.Pkeys.ec_pubkey_negate
  alg_run2 [h1, hill, ints_ite, get_ite, ptGet_ite, ptGet_mk, FeIR.ite_one_zero_ne_zero, decide_eq_true_eq]
  cases pk <;> simp [Keys.pubkeyNegate]

/-- `ec_pubkey_tweak_add` on an explicit state -/
theorem pubkey_tweak_add_run (sc fe : List (String × Nat)) (pt : List (String × Pt)) (bs : List (String × Bytes))
    (ints : Env) (pk : Pt) (tw : Bytes) (h1 : lookup Pt.inf pt "pubkey" = pk)
    (h2 : lookup (Bytes.zeros 32) bs "tweak32" = tw) (hill : ints.get "illegal" 0 = 0)
    (hpk : pk.valid = true) :
    (execL ⟨sc, fe, pt, bs, ints, false⟩ Gen.Pkeys.ec_pubkey_tweak_add.body).ints.get "ret" 0 =
      (Keys.pubkeyTweakAdd pk tw).ret ∧
    (execL ⟨sc, fe, pt, bs, ints, false⟩ Gen.Pkeys.ec_pubkey_tweak_add.body).ptGet "pubkey" =
      (Keys.pubkeyTweakAdd pk tw).out ∧
    (execL ⟨sc, fe, pt, bs, ints, false⟩ Gen.Pkeys.ec_pubkey_tweak_add.body).ints.get "illegal" 0 =
      (Keys.pubkeyTweakAdd pk tw).illegal := by
  unfold Gen.Pkeys.ec_pubkey_tweak_add
  alg_run2 [h1, h2, hill, ints_ite, get_ite, ptGet_ite, ptGet_mk, FeIR.ite_one_zero_ne_zero, decide_eq_true_eq, Nat.mod_mod]
  simp only [one_mod_N, mul_one_valid hpk, FeIR.ite_one_zero_eq_zero, ite_self]
  cases pk with
  | inf => simp [Keys.pubkeyTweakAdd]
  | aff x y =>
    simp only [Keys.pubkeyTweakAdd, Ecdsa.pubkeyTweakAddHelper, Sc.setB32, reduceCtorEq, if_false, decide_eq_true_eq]
    by_cases hov : tw.toNat ≥ N
    · simp [hov]
    · simp only [hov, not_false_eq_true, if_true, if_false]
      generalize Pt.add (Pt.aff x y) (Pt.mulG (tw.toNat % N)) = R
      cases R <;> simp [Pt.isInf]

/-- `ec_pubkey_tweak_mul` on an explicit state -/
theorem pubkey_tweak_mul_run (sc fe : List (String × Nat)) (pt : List (String × Pt)) (bs : List (String × Bytes))
    (ints : Env) (pk : Pt) (tw : Bytes) (h1 : lookup Pt.inf pt "pubkey" = pk)
    (h2 : lookup (Bytes.zeros 32) bs "tweak32" = tw) (hill : ints.get "illegal" 0 = 0)
    (hnull : lookup 0 sc "@null" = 0) :
    (execL ⟨sc, fe, pt, bs, ints, false⟩ Gen.Pkeys.ec_pubkey_tweak_mul.body).ints.get "ret" 0 =
      (Keys.pubkeyTweakMul pk tw).ret ∧
    (execL ⟨sc, fe, pt, bs, ints, false⟩ Gen.Pkeys.ec_pubkey_tweak_mul.body).ptGet "pubkey" =
      (Keys.pubkeyTweakMul pk tw).out ∧
    (execL ⟨sc, fe, pt, bs, ints, false⟩ Gen.Pkeys.ec_pubkey_tweak_mul.body).ints.get "illegal" 0 =
      (Keys.pubkeyTweakMul pk tw).illegal := by
  unfold Gen.Pkeys.ec_pubkey_tweak_mul
  alg_run2 [h1, h2, hill, hnull, ints_ite, get_ite, ptGet_ite, ptGet_mk, FeIR.ite_one_zero_ne_zero, decide_eq_true_eq, Nat.mod_mod]
  simp only [mulG_zero_mod, add_inf_right, FeIR.ite_one_zero_eq_zero, ite_self,
    Keys.pubkeyTweakMul, Sc.setB32, decide_eq_true_eq]
  by_cases hov : tw.toNat ≥ N
  · simp [hov]
  · cases pk with
    | inf => simp [hov]
    | aff x y => by_cases hz : tw.toNat % N = 0 <;> simp [hov, hz]

/-! ### The theorems on arbitrary states -/

/-- **The generated `secp256k1_ec_seckey_negate` is `Keys.seckeyNegate`**: return value and new key bytes (zeros on
    failure), for every state that has not returned. -/
theorem seckey_negate_eq (st : State) (hret : st.returned = false) :
    (execL st Gen.Pkeys.ec_seckey_negate.body).ints.get "ret" 0 = (Keys.seckeyNegate (st.byGet "seckey")).1 ∧
    (execL st Gen.Pkeys.ec_seckey_negate.body).byGet "seckey" = (Keys.seckeyNegate (st.byGet "seckey")).2 := by
  obtain ⟨sc, fe, pt, bs, ints, ret⟩ := st
  simp only at hret
  subst hret
  exact seckey_negate_run sc fe pt bs ints _ rfl

/-- **The generated `secp256k1_ec_seckey_tweak_add` is `Keys.seckeyTweakAdd`.** -/
theorem seckey_tweak_add_eq (st : State) (hret : st.returned = false) :
    (execL st Gen.Pkeys.ec_seckey_tweak_add.body).ints.get "ret" 0 =
      (Keys.seckeyTweakAdd (st.byGet "seckey") (st.byGet "tweak32")).1 ∧
    (execL st Gen.Pkeys.ec_seckey_tweak_add.body).byGet "seckey" =
      (Keys.seckeyTweakAdd (st.byGet "seckey") (st.byGet "tweak32")).2 := by
  obtain ⟨sc, fe, pt, bs, ints, ret⟩ := st
  simp only at hret
  subst hret
  exact seckey_tweak_add_run sc fe pt bs ints _ _ rfl rfl

/-- **The generated `secp256k1_ec_seckey_tweak_mul` is `Keys.seckeyTweakMul`.** -/
theorem seckey_tweak_mul_eq (st : State) (hret : st.returned = false) :
    (execL st Gen.Pkeys.ec_seckey_tweak_mul.body).ints.get "ret" 0 =
      (Keys.seckeyTweakMul (st.byGet "seckey") (st.byGet "tweak32")).1 ∧
    (execL st Gen.Pkeys.ec_seckey_tweak_mul.body).byGet "seckey" =
      (Keys.seckeyTweakMul (st.byGet "seckey") (st.byGet "tweak32")).2 := by
  obtain ⟨sc, fe, pt, bs, ints, ret⟩ := st
  simp only at hret
  subst hret
  exact seckey_tweak_mul_run sc fe pt bs ints _ _ rfl rfl

/-- **The generated `secp256k1_ec_pubkey_negate` is `Keys.pubkeyNegate`**: return value, new key object (`Pt.inf` = the
    all-zero object on failure) and callback count. -/
theorem pubkey_negate_eq (st : State) (hret : st.returned = false) (hill : st.ints.get "illegal" 0 = 0) :
    (execL st Gen.Pkeys.ec_pubkey_negate.body).ints.get "ret" 0 = (Keys.pubkeyNegate (st.ptGet "pubkey")).ret ∧
    (execL st Gen.Pkeys.ec_pubkey_negate.body).ptGet "pubkey" = (Keys.pubkeyNegate (st.ptGet "pubkey")).out ∧
    (execL st Gen.Pkeys.ec_pubkey_negate.body).ints.get "illegal" 0 =
      (Keys.pubkeyNegate (st.ptGet "pubkey")).illegal := by
  obtain ⟨sc, fe, pt, bs, ints, ret⟩ := st
  simp only at hret
  subst hret
  exact pubkey_negate_run sc fe pt bs ints _ rfl hill

/-- **The generated `secp256k1_ec_pubkey_tweak_add` is `Keys.pubkeyTweakAdd`**, for a valid (or all-zero) key
    object. -/
theorem pubkey_tweak_add_eq (st : State) (hret : st.returned = false) (hill : st.ints.get "illegal" 0 = 0)
    (hpk : (st.ptGet "pubkey").valid = true) :
    (execL st Gen.Pkeys.ec_pubkey_tweak_add.body).ints.get "ret" 0 =
      (Keys.pubkeyTweakAdd (st.ptGet "pubkey") (st.byGet "tweak32")).ret ∧
    (execL st Gen.Pkeys.ec_pubkey_tweak_add.body).ptGet "pubkey" =
      (Keys.pubkeyTweakAdd (st.ptGet "pubkey") (st.byGet "tweak32")).out ∧
    (execL st Gen.Pkeys.ec_pubkey_tweak_add.body).ints.get "illegal" 0 =
      (Keys.pubkeyTweakAdd (st.ptGet "pubkey") (st.byGet "tweak32")).illegal := by
  obtain ⟨sc, fe, pt, bs, ints, ret⟩ := st
  simp only at hret
  subst hret
  exact pubkey_tweak_add_run sc fe pt bs ints _ _ rfl rfl hill hpk

/-- **The generated `secp256k1_ec_pubkey_tweak_mul` is `Keys.pubkeyTweakMul`** (no validity needed; on tweak overflow
    the key is not loaded, hence no callback even for the all-zero object — on both sides). -/
theorem pubkey_tweak_mul_eq (st : State) (hret : st.returned = false) (hill : st.ints.get "illegal" 0 = 0)
    (hnull : st.scGet "@null" = 0) :
    (execL st Gen.Pkeys.ec_pubkey_tweak_mul.body).ints.get "ret" 0 =
      (Keys.pubkeyTweakMul (st.ptGet "pubkey") (st.byGet "tweak32")).ret ∧
    (execL st Gen.Pkeys.ec_pubkey_tweak_mul.body).ptGet "pubkey" =
      (Keys.pubkeyTweakMul (st.ptGet "pubkey") (st.byGet "tweak32")).out ∧
    (execL st Gen.Pkeys.ec_pubkey_tweak_mul.body).ints.get "illegal" 0 =
      (Keys.pubkeyTweakMul (st.ptGet "pubkey") (st.byGet "tweak32")).illegal := by
  obtain ⟨sc, fe, pt, bs, ints, ret⟩ := st
  simp only at hret
  subst hret
  exact pubkey_tweak_mul_run sc fe pt bs ints _ _ rfl rfl hill hnull

/-! ### Non-vacuity: concrete runs (kernel evaluation of both sides) -/

/-- secret key 5, tweak 7; public key `G` -/
def exSt : State :=
  { bs := [("seckey", Bytes.be32 5), ("tweak32", Bytes.be32 7)], pt := [("pubkey", Pt.G)] }

/-- the hypotheses of all six theorems hold of `exSt` -/
example : exSt.returned = false ∧ exSt.ints.get "illegal" 0 = 0 ∧ (exSt.ptGet "pubkey").valid = true ∧
    exSt.scGet "@null" = 0 := by decide +kernel

example : (execL exSt Gen.Pkeys.ec_seckey_negate.body).ints.get "ret" 0 = 1 ∧
    (execL exSt Gen.Pkeys.ec_seckey_negate.body).byGet "seckey" = Bytes.be32 (N - 5) ∧
    Keys.seckeyNegate (Bytes.be32 5) = (1, Bytes.be32 (N - 5)) := by decide +kernel

example : (execL exSt Gen.Pkeys.ec_seckey_tweak_add.body).ints.get "ret" 0 = 1 ∧
    (execL exSt Gen.Pkeys.ec_seckey_tweak_add.body).byGet "seckey" = Bytes.be32 12 ∧
    Keys.seckeyTweakAdd (Bytes.be32 5) (Bytes.be32 7) = (1, Bytes.be32 12) := by decide +kernel

example : (execL exSt Gen.Pkeys.ec_seckey_tweak_mul.body).ints.get "ret" 0 = 1 ∧
    (execL exSt Gen.Pkeys.ec_seckey_tweak_mul.body).byGet "seckey" = Bytes.be32 35 ∧
    Keys.seckeyTweakMul (Bytes.be32 5) (Bytes.be32 7) = (1, Bytes.be32 35) := by decide +kernel

/-- a failing case: the tweak `n - 5` makes the sum zero; both sides return 0 and zero the key -/
example : (execL { exSt with bs := [("seckey", Bytes.be32 5), ("tweak32", Bytes.be32 (N - 5))] }
      Gen.Pkeys.ec_seckey_tweak_add.body).ints.get "ret" 0 = 0 ∧
    (execL { exSt with bs := [("seckey", Bytes.be32 5), ("tweak32", Bytes.be32 (N - 5))] }
      Gen.Pkeys.ec_seckey_tweak_add.body).byGet "seckey" = Bytes.zeros 32 ∧
    Keys.seckeyTweakAdd (Bytes.be32 5) (Bytes.be32 (N - 5)) = (0, Bytes.zeros 32) := by decide +kernel

example : (execL exSt Gen.Pkeys.ec_pubkey_negate.body).ints.get "ret" 0 = 1 ∧
    (execL exSt Gen.Pkeys.ec_pubkey_negate.body).ptGet "pubkey" = Pt.neg Pt.G ∧
    (Keys.pubkeyNegate Pt.G).out = Pt.neg Pt.G := by decide +kernel

example : (execL exSt Gen.Pkeys.ec_pubkey_tweak_add.body).ints.get "ret" 0 = 1 ∧
    (execL exSt Gen.Pkeys.ec_pubkey_tweak_add.body).ptGet "pubkey" = Pt.mulG 8 ∧
    (Keys.pubkeyTweakAdd Pt.G (Bytes.be32 7)).out = Pt.mulG 8 := by decide +kernel

example : (execL exSt Gen.Pkeys.ec_pubkey_tweak_mul.body).ints.get "ret" 0 = 1 ∧
    (execL exSt Gen.Pkeys.ec_pubkey_tweak_mul.body).ptGet "pubkey" = Pt.mulG 7 ∧
    (Keys.pubkeyTweakMul Pt.G (Bytes.be32 7)).out = Pt.mulG 7 := by decide +kernel

/-- the all-zero key object: return 0, object stays all-zero, one callback — on both sides -/
example : (execL { exSt with pt := [] } Gen.Pkeys.ec_pubkey_tweak_add.body).ints.get "ret" 0 = 0 ∧
    (execL { exSt with pt := [] } Gen.Pkeys.ec_pubkey_tweak_add.body).ptGet "pubkey" = Pt.inf ∧
    (execL { exSt with pt := [] } Gen.Pkeys.ec_pubkey_tweak_add.body).ints.get "illegal" 0 = 1 ∧
    (Keys.pubkeyTweakAdd Pt.inf (Bytes.be32 7)).illegal = 1 := by decide +kernel

end C04ir
end SecpZkp
