/-
  C07 (part "parsers"): untrusted bytes handed to the parsers of the surjection, whitelist,
  half-aggregation, Bulletproofs++ generator-list, generator / commitment, MuSig and ECDSA-adaptor modules.

  (a) TERMINATION is automatic: every model function below is a total Lean function (structural
      recursion, no `partial`, no fuel in these parsers), so "the call terminates for every byte string
      and every declared length" holds by construction and needs no theorem.
  (b) RETURN VALUES: every entry point returns only 0 or 1 (`*_ret01`), or `none`/`some` for the
      internal helpers that the C code writes as `int`-returning functions with an out-parameter.
  (c) NO OUT-OF-BOUNDS READ: for the variable-length parsers we prove that success implies that the
      number of bytes consumed is at most (in fact: equal to) the declared length, and that an input
      shorter than the minimal length is rejected; every guard is established BEFORE the corresponding
      bytes are used.  (The model reads through `take` / `drop` / `getD`, which are total; these lemmas are
      what makes the totalisation harmless: whenever the parser succeeds no default value was used.)
      The fixed-size parsers (33-byte generator / commitment, 66-byte nonces, 32-byte partial signature,
      162-byte adaptor signature) take a pointer to an array of that size in C and have no length argument.
  (d) CLOSURE: a successful parse yields an object satisfying a decidable well-formedness predicate, under
      which every later read of the object is in bounds / every loaded point is on the curve / every scalar
      is reduced - so the object can be passed on to the functions that take its type.

  The theorems about the encodings themselves are in `C11_codec` (surjection), `C16_codec` (whitelist),
  `C17_lengths` (half-aggregation) and `C19_codec` (generator lists); this file imports them, restates
  the C07-relevant consequences and adds the generator / commitment / MuSig / adaptor codecs.
-/
import SecpZkp.Props.C11_codec
import SecpZkp.Props.C16_codec
import SecpZkp.Props.C17_lengths
import SecpZkp.Props.C19_codec
import SecpZkp.Props.C19_roundtrip

namespace SecpZkp
namespace C07

open Parsers

/-! ### surjection proofs -/

/-- (b) `secp256k1_surjectionproof_parse` returns 0 or 1; on 0 the object is untouched. -/
theorem surj_parse_ret01 (bs : Bytes) (prior : Surjection.Proof) :
    ((Surjection.parse bs prior).1 = 0 ∧ (Surjection.parse bs prior).2 = prior) ∨
    (Surjection.parse bs prior).1 = 1 := C11.surj_parse_ret01 bs prior

/-- (c) Every guard of the surjection parser precedes the read it protects: success implies that the
count bytes (2), the bitmap (`bitmapLen n`) and the signature block (`32 * (1 + n_used)`) together are
exactly the declared length - in particular each of the three reads ends inside the input. -/
theorem surj_parse_in_bounds (bs : Bytes) (prior : Surjection.Proof) (h : (Surjection.parse bs prior).1 = 1) :
    2 ≤ bs.length ∧
    2 + Surjection.bitmapLen (le16 bs) ≤ bs.length ∧
    2 + Surjection.bitmapLen (le16 bs)
      + 32 * (1 + Surjection.countBitsSet (bs.drop 2) (Surjection.bitmapLen (le16 bs))) = bs.length := by
  obtain ⟨h1, _, h3, _, h5⟩ := (C11.surj_parse_iff bs prior).1 h
  exact ⟨h1, h3, h5.symm⟩

/-- (c) Inputs shorter than the minimal encoding (2 count bytes + 32-byte `e0`) are rejected. -/
theorem surj_parse_short (bs : Bytes) (prior : Surjection.Proof) (h : bs.length < 34) :
    Surjection.parse bs prior = (0, prior) := by
  rcases C11.surj_parse_ret01 bs prior with h0 | h1
  · exact Prod.ext h0.1 h0.2
  · have := surj_parse_in_bounds bs prior h1; omega

example : Surjection.parse (List.replicate 33 0) = (0, Surjection.Proof.zero) :=
  surj_parse_short _ _ (by decide)

/-- (d) Closure for surjection proofs: parsing into an object of the C array sizes gives a well-formed
object, and in a well-formed object every scalar that generation / verification read (`data[32 + 32 i ..
32 + 32 i + 32]`, `i < n_used`) and `e0` lie inside the 8224-byte `data` array, and every bitmap byte that
is inspected (`used_inputs[i / 8]`, `i < n_inputs`) lies inside the 32-byte bitmap. -/
theorem surj_closure (bs : Bytes) (prior : Surjection.Proof)
    (hu : prior.used.length = Surjection.USED_BYTES) (hd : prior.data.length = Surjection.DATA_BYTES)
    (h : (Surjection.parse bs prior).1 = 1) :
    C11.ProofValid (Surjection.parse bs prior).2 := C11.surj_parse_valid bs prior hu hd h

/-- (d) In a well-formed surjection proof object: every scalar slot `data[32 + 32 i .. +32]`, `i < n_used`, is
inside `data`; every bitmap byte `used_inputs[i / 8]`, `i < n_inputs`, is inside the bitmap; and
`n_used ≤ 256` (the size of the stack arrays of `verify` / `generate`). -/
theorem surj_valid_reads_in_bounds (p : Surjection.Proof) (h : C11.ProofValid p) :
    (∀ i, i < Surjection.nUsedInputs p → 32 + 32 * i + 32 ≤ p.data.length) ∧
    (∀ i, i < p.nInputs → i / 8 < p.used.length) ∧
    Surjection.nUsedInputs p ≤ Surjection.MAX_USED_INPUTS := by
  have hb := h.nUsed_le
  obtain ⟨h1, h2, h3, _⟩ := h
  have hM : Surjection.MAX_N_INPUTS = 256 := rfl
  have hM' : Surjection.MAX_USED_INPUTS = 256 := rfl
  have hU : Surjection.USED_BYTES = 32 := rfl
  refine ⟨fun i hi => by omega, fun i hi => by omega, by omega⟩

/-- the serializer returns 0 or 1 -/
theorem surj_serialize_ret01 (p : Surjection.Proof) (outlen : Nat) :
    (Surjection.serialize p outlen).1 = 0 ∨ (Surjection.serialize p outlen).1 = 1 := by
  unfold Surjection.serialize
  simp only []
  split <;> simp

/-! ### whitelist signatures -/

/-- (b) -/
theorem wl_parse_ret01 (bs : Bytes) : (Whitelist.parse bs).1 = 0 ∨ (Whitelist.parse bs).1 = 1 :=
  C16.wl_parse_ret01 bs

/-- (c) Success implies that the count byte and the `32 * (n + 1)` data bytes are exactly the input; an input
shorter than 33 bytes is rejected. (Note `C16.wl_parse_writes_nkeys`: `n_keys` IS written before the
length check - a write into the output object, not an out-of-bounds access.) -/
theorem wl_parse_in_bounds (bs : Bytes) (h : (Whitelist.parse bs).1 = 1) :
    1 ≤ bs.length ∧ 1 + 32 * ((bs.headD 0).toNat + 1) = bs.length ∧ 33 ≤ bs.length := by
  obtain ⟨h1, _, h3⟩ := (C16.wl_parse_iff bs).1 h
  cases bs with
  | nil => exact absurd rfl h1
  | cons b t => simp only [List.length_cons] at h3 ⊢; simp only [List.headD_cons] at h3 ⊢; omega

/-- (c) Inputs shorter than the minimal encoding (count byte + `e0`) are rejected. -/
theorem wl_parse_short (bs : Bytes) (h : bs.length < 33) : (Whitelist.parse bs).1 = 0 := by
  rcases C16.wl_parse_ret01 bs with h0 | h1
  · exact h0
  · have := wl_parse_in_bounds bs h1; omega

/-- Well-formedness of a whitelist signature object: at most 255 keys and exactly the `32 * (n + 1)`
data bytes that belong to it. -/
def WlSigValid (sig : Whitelist.Sig) : Prop :=
  sig.nKeys ≤ Whitelist.maxKeys ∧ sig.data.length = 32 * (sig.nKeys + 1)

instance (sig : Whitelist.Sig) : Decidable (WlSigValid sig) := by unfold WlSigValid; infer_instance

/-- (d) Closure: a parsed whitelist signature is well-formed, and in a well-formed signature `e0` and every
scalar `s_i`, `i < n_keys`, that verification reads are full 32-byte strings inside `data`. -/
theorem wl_closure (bs : Bytes) (sig : Whitelist.Sig) (h : (Whitelist.parse bs).2.2 = some sig) :
    WlSigValid sig := by
  have h1 : (Whitelist.parse bs).1 = 1 := by
    rcases C16.wl_parse_ret01 bs with h0 | h1
    · rw [(C16.wl_parse_result bs).2 h0] at h; simp at h
    · exact h1
  obtain ⟨b, rest, rfl, hrest, heq⟩ := (C16.wl_parse_result bs).1 h1
  rw [heq] at h
  have : sig = ⟨b.toNat, rest⟩ := by simpa using h.symm
  subst this
  have := u8_toNat_lt b
  exact ⟨by simp only [Whitelist.maxKeys]; omega, hrest⟩

/-- (d) In a well-formed whitelist signature `e0` and every scalar `s_i`, `i < n_keys`, read by verification
are full 32-byte strings inside `data`. -/
theorem wl_valid_reads_in_bounds (sig : Whitelist.Sig) (h : WlSigValid sig) :
    sig.e0.length = 32 ∧ ∀ i, i < sig.nKeys → (sig.sBytes i).length = 32 := by
  obtain ⟨_, h2⟩ := h
  refine ⟨by simp only [Whitelist.Sig.e0, List.length_take]; omega, fun i hi => ?_⟩
  simp only [Whitelist.Sig.sBytes, List.length_take, List.length_drop]
  omega

example : WlSigValid ⟨1, List.replicate 64 7⟩ := by decide

/-- (b) verify / serialize return 0 or 1 -/
theorem wl_verify_ret01 (sig : Whitelist.Sig) (online offline : List Pt) (sub : Pt) :
    Whitelist.verify sig online offline sub = 0 ∨ Whitelist.verify sig online offline sub = 1 :=
  C16.wl_verify_ret01 sig online offline sub

/-! ### half-aggregate signatures -/

/-- (b)+(c) `aggverify` returns 0 or 1, returns 0 on every length other than `32 (n + 1)`, and after the
length check all `n + 1` chunks it reads are inside the aggregate. -/
theorem halfagg_summary (pubkeys : List Pt) (msgs : List Bytes) (agg : Bytes) :
    ((Halfagg.aggverify pubkeys msgs (some agg)).ret = 0 ∨ (Halfagg.aggverify pubkeys msgs (some agg)).ret = 1) ∧
    (agg.length ≠ 32 * (pubkeys.length + 1) → (Halfagg.aggverify pubkeys msgs (some agg)).ret = 0) ∧
    (agg.length = 32 * (pubkeys.length + 1) →
      ∀ i, i ≤ pubkeys.length → 32 * i + 32 ≤ agg.length ∧ (Halfagg.chunk32 agg i).length = 32) :=
  ⟨C17.aggverify_ret01 _ _ _, fun h => (C17.halfagg_len _ _ _ h).1,
   fun h i hi => C17.halfagg_chunks_in_bounds agg _ i h hi⟩

/-- (c) for incremental aggregation: on success the buffer holds the `32 (n + 1)` bytes that are read
(old `r_i` and `s`) and written. -/
theorem halfagg_inc_in_bounds (aggsig : Bytes) (pks : List Pt) (msgs sigs : List Bytes) (nBefore : Nat)
    (hb : nBefore < 2 ^ 64) (hn : sigs.length < 2 ^ 64)
    (h : (Halfagg.incAggregate aggsig pks msgs sigs nBefore).ret = 1) :
    32 * (nBefore + sigs.length + 1) ≤ aggsig.length :=
  (C17.incAggregate_len aggsig pks msgs sigs nBefore hb hn h).1

/-! ### generator lists -/

/-- (b)+(c)+(d) `generators_parse`: 0/1 with NULL on 0; success implies every chunk read lies inside the
input and every list entry is a finite curve point. -/
theorem gens_parse_summary (d : Bytes) :
    (((Bppp.gensParse (some d)).ret = 0 ∧ (Bppp.gensParse (some d)).out = none) ∨
      ((Bppp.gensParse (some d)).ret = 1 ∧ (Bppp.gensParse (some d)).out.isSome)) ∧
    (∀ l, Bppp.gensParse (some d) = ⟨1, some l, 0⟩ →
      d.length = 33 * l.length ∧ (∀ i, i < l.length → 33 * i + 33 ≤ d.length) ∧ ∀ g ∈ l, FinValid g) := by
  refine ⟨C19.gens_parse_ret01 (some d), fun l h => ?_⟩
  obtain ⟨h1, _, h3⟩ := C19.gens_parse_ok d l h
  refine ⟨h1, fun i hi => (h3 i hi).1, fun g hg => ?_⟩
  obtain ⟨i, hi, hgi⟩ := List.getElem_of_mem hg
  exact (h3 i hi).2.2.2 g (by rw [List.getElem?_eq_getElem hi, hgi])

/-- (b) `generators_serialize` returns 0 or 1 -/
theorem gens_serialize_ret01 (gs : Option (List Pt)) (b : Option Bytes) (n : Nat) :
    (Bppp.gensSerialize gs b n).ret = 0 ∨ (Bppp.gensSerialize gs b n).ret = 1 := by
  unfold Bppp.gensSerialize
  split
  · simp
  · split
    · simp
    · split <;> simp

/-- (d) a point parsed by `parse_one_of_points` is infinity or a finite curve point -/
theorem points_parse_valid (in65 : Bytes) (idx : Nat) (p : Pt) (h : Bppp.parseOneOfPoints in65 idx = some p) :
    p.valid = true := by
  have hge : ∀ b q, Bppp.geParseExt b = some q → q.valid = true := by
    intro b q hq
    unfold Bppp.geParseExt at hq
    split at hq
    · rw [← Option.some.inj hq]; rfl
    · exact (pubkeyParse_valid _ _ hq).1.1
  unfold Bppp.parseOneOfPoints at h
  simp only [] at h
  by_cases h1 : in65.headD 0 > 3
  · rw [if_pos h1] at h; simp at h
  · rw [if_neg h1] at h
    by_cases h2 : (!Bytes.isZero ((in65.drop (1 + 32 * idx)).take 32)) = true
    · rw [if_pos h2] at h; exact hge _ _ h
    · rw [if_neg h2] at h
      by_cases h3 : (in65.headD 0 &&& (if idx = 0 then 2 else 1)) ≠ 0
      · rw [if_pos h3] at h; simp at h
      · rw [if_neg h3] at h; exact hge _ _ h

/-! ### generators and Pedersen commitments (33-byte fixed-size inputs) -/

/-- (d) `secp256k1_generator_parse`: a parsed generator is a finite point on the curve; the empty input
is rejected. -/
theorem generator_closure (c : Bytes) (g : Pt) (h : Generator.parse c = some g) : FinValid g :=
  (C19.generator_parse_valid c g h).1

/-- the empty input is rejected (the model never reads a byte that is not there) -/
theorem generator_parse_nil : Generator.parse [] = none := rfl

/-- (d) Closure for commitments: loading a successfully parsed commitment object
(`secp256k1_pedersen_commitment_load`) gives a finite point on the curve with the encoded abscissa. -/
theorem commit_closure (c o : Bytes) (h : Generator.commitParse c = some o) :
    FinValid (Generator.commitLoad o) ∧ (Generator.commitLoad o).xOf = Bytes.toNat c.tail := by
  obtain ⟨hne, ⟨_, hx, hs⟩, rfl⟩ := (commitParse_iff c o).1 h
  cases o with
  | nil => exact absurd rfl hne
  | cons b0 rest =>
    simp only [List.tail_cons] at hx hs ⊢
    unfold Generator.commitLoad
    simp only [Nat.mod_eq_of_lt hx]
    have hsome : (Pt.liftXQuad (Bytes.toNat rest)).isSome := by
      unfold Pt.liftXQuad
      have := sqrt_isSome_iff (curveRhs (Bytes.toNat rest))
      unfold curveRhs at this hs
      cases hq : Fe.sqrt (Fe.add (Fe.mul (Fe.sqr (Bytes.toNat rest)) (Bytes.toNat rest)) 7) with
      | none => rw [hq] at this; simp at this; rw [this] at hs; simp at hs
      | some r => simp
    cases hl : Pt.liftXQuad (Bytes.toNat rest) with
    | none => rw [hl] at hsome; simp at hsome
    | some p =>
      obtain ⟨hp, hon⟩ := liftXQuad_some _ hx p hl
      simp only []
      subst hp
      split
      · exact ⟨finValid_neg _ (finValid_aff _ _ hon), rfl⟩
      · exact ⟨finValid_aff _ _ hon, rfl⟩

example : Generator.commitParse (Generator.commitSave Generator.H) = some (Generator.commitSave Generator.H) := by
  decide +kernel
example : Generator.commitParse (10 :: (Generator.commitSave Generator.H).tail) = none := by decide +kernel
example : Generator.commitLoad (Generator.commitSave Generator.H) = Generator.H := by decide +kernel

/-! ### MuSig nonces and partial signatures (66- and 32-byte fixed-size inputs) -/

/-- (c)+(d) **`secp256k1_musig_pubnonce_parse`**: success implies that at least the 66 bytes of the C
array were present, the object carries the pubnonce magic, both points are finite points on the curve,
and `pubnonce_load` of the object succeeds.
(Model remark: the C function parses `&in66[33]` with an explicit size 33; the model passes
`in66.drop 33`, so on a 98-byte list whose tail is a 65-byte uncompressed key the MODEL succeeds too. The
C function cannot be called with anything but a 66-byte array, for which both points are compressed.) -/
theorem pubnonce_closure (in66 : Bytes) (pn : Musig.Pubnonce) (h : Musig.pubnonceParse in66 = some pn) :
    (in66.length = 66 ∨ in66.length = 98) ∧ pn.magic = Musig.pubnonceMagic ∧ FinValid pn.r1 ∧ FinValid pn.r2 ∧
    Musig.pubnonceLoad pn = some (pn.r1, pn.r2) := by
  unfold Musig.pubnonceParse at h
  cases h1 : Codec.pubkeyParse (in66.take 33) with
  | none => rw [h1] at h; simp at h
  | some r1 =>
    rw [h1] at h
    cases h2 : Codec.pubkeyParse (in66.drop 33) with
    | none => rw [h2] at h; simp at h
    | some r2 =>
      rw [h2] at h
      have hpn : pn = Musig.pubnonceSave r1 r2 := by simpa using h.symm
      subst hpn
      obtain ⟨v1, l1⟩ := pubkeyParse_valid _ _ h1
      obtain ⟨v2, l2⟩ := pubkeyParse_valid _ _ h2
      simp only [List.length_take, List.length_drop] at l1 l2
      refine ⟨by omega, rfl, v1, v2, ?_⟩
      simp [Musig.pubnonceLoad, Musig.pubnonceSave]

/-- inputs of any length other than 66 (and the model artifact 98) are rejected whatever they contain -/
theorem pubnonce_parse_short (bs : Bytes) (h : bs.length ≠ 66) (h' : bs.length ≠ 98) :
    Musig.pubnonceParse bs = none := by
  cases hp : Musig.pubnonceParse bs with
  | none => rfl
  | some pn => have := (pubnonce_closure bs pn hp).1; omega

/-- the model artifact mentioned above -/
example : (Musig.pubnonceParse (Codec.serialize33 Pt.G ++ Codec.serialize65 Pt.G)).isSome := by
  decide +kernel

example : (Musig.pubnonceParse (Codec.serialize33 Pt.G ++ Codec.serialize33 Pt.G)).isSome := by
  decide +kernel

/-- (d) **`secp256k1_musig_aggnonce_parse`**: the object carries the aggnonce magic, each of the two
points is either infinity (33 zero bytes) or a finite point on the curve, and `aggnonce_load` succeeds. -/
theorem aggnonce_closure (in66 : Bytes) (an : Musig.Aggnonce) (h : Musig.aggnonceParse in66 = some an) :
    an.magic = Musig.aggnonceMagic ∧ (an.r1 = .inf ∨ FinValid an.r1) ∧ (an.r2 = .inf ∨ FinValid an.r2) ∧
    an.r1.valid = true ∧ an.r2.valid = true ∧ Musig.aggnonceLoad an = some (an.r1, an.r2) := by
  have hge : ∀ b q, Musig.geParseExt b = some q → q = .inf ∨ FinValid q := by
    intro b q hq
    unfold Musig.geParseExt at hq
    split at hq
    · exact Or.inl (Option.some.inj hq).symm
    · exact Or.inr (pubkeyParse_valid _ _ hq).1
  have hv : ∀ q : Pt, (q = .inf ∨ FinValid q) → q.valid = true := by
    intro q hq
    rcases hq with rfl | hq
    · rfl
    · exact hq.1
  unfold Musig.aggnonceParse at h
  cases h1 : Musig.geParseExt (in66.take 33) with
  | none => rw [h1] at h; simp at h
  | some r1 =>
    rw [h1] at h
    cases h2 : Musig.geParseExt (in66.drop 33) with
    | none => rw [h2] at h; simp at h
    | some r2 =>
      rw [h2] at h
      have han : an = Musig.aggnonceSave r1 r2 := by simpa using h.symm
      subst han
      refine ⟨rfl, hge _ _ h1, hge _ _ h2, hv _ (hge _ _ h1), hv _ (hge _ _ h2), ?_⟩
      simp [Musig.aggnonceLoad, Musig.aggnonceSave]

example : Musig.aggnonceParse (Bytes.zeros 33 ++ Codec.serialize33 Pt.G)
    = some (Musig.aggnonceSave .inf Pt.G) := by decide +kernel

/-- (b)+(d) **`secp256k1_musig_partial_sig_parse`** returns 1 exactly when the 32-byte big-endian value
is below the group order; then the object carries the magic and that (reduced) scalar, and
`partial_sig_load` gives it back; on 0 the object is all zero. -/
theorem partialSig_parse_spec (in32 : Bytes) :
    ((Musig.partialSigParse in32).1 = 0 ∨ (Musig.partialSigParse in32).1 = 1) ∧
    ((Musig.partialSigParse in32).1 = 1 ↔ Bytes.toNat in32 < N) ∧
    ((Musig.partialSigParse in32).1 = 1 →
        (Musig.partialSigParse in32).2.magic = Musig.partialSigMagic ∧
        (Musig.partialSigParse in32).2.s = Bytes.toNat in32 ∧ (Musig.partialSigParse in32).2.s < N ∧
        Musig.partialSigLoad (Musig.partialSigParse in32).2 = some (Bytes.toNat in32)) ∧
    ((Musig.partialSigParse in32).1 = 0 → (Musig.partialSigParse in32).2 = Musig.PartialSig.zero) := by
  unfold Musig.partialSigParse Sc.setB32
  simp only []
  by_cases hlt : Bytes.toNat in32 < N
  · have hnd : ¬ decide (Bytes.toNat in32 ≥ N) = true := by simpa using hlt
    rw [if_neg hnd]
    simp [Musig.partialSigSave, Musig.partialSigLoad, Nat.mod_eq_of_lt hlt, hlt]
  · have hd : decide (Bytes.toNat in32 ≥ N) = true := by simpa using hlt
    rw [if_pos hd]
    simp [hlt]

example : (Musig.partialSigParse (Bytes.be32 (N - 1))).1 = 1 := by decide +kernel
example : (Musig.partialSigParse (Bytes.be32 N)).1 = 0 := by decide +kernel

/-- partial-signature round trip: serializing a successfully parsed 32-byte partial signature gives back
the 32 bytes -/
theorem partialSig_serialize_parse (in32 : Bytes) (hlen : in32.length = 32)
    (h : (Musig.partialSigParse in32).1 = 1) :
    Musig.partialSigSerialize (some (Musig.partialSigParse in32).2) = ⟨1, some in32, 0⟩ := by
  obtain ⟨_, _, hs, _⟩ := partialSig_parse_spec in32
  obtain ⟨hm, hv, _, _⟩ := hs h
  unfold Musig.partialSigSerialize
  simp only []
  rw [if_pos hm, hv]
  unfold Bytes.be32
  rw [← hlen, ofNat_toNat]

/-- (b) the MuSig serializers return 0 or 1 -/
theorem musig_serialize_ret01 (p : Option Musig.Pubnonce) (a : Option Musig.Aggnonce) (s : Option Musig.PartialSig) :
    ((Musig.pubnonceSerialize p).ret = 0 ∨ (Musig.pubnonceSerialize p).ret = 1) ∧
    ((Musig.aggnonceSerialize a).ret = 0 ∨ (Musig.aggnonceSerialize a).ret = 1) ∧
    ((Musig.partialSigSerialize s).ret = 0 ∨ (Musig.partialSigSerialize s).ret = 1) := by
  refine ⟨?_, ?_, ?_⟩
  · unfold Musig.pubnonceSerialize; split
    · simp
    · split <;> simp
  · unfold Musig.aggnonceSerialize; split
    · simp
    · split <;> simp
  · unfold Musig.partialSigSerialize; split
    · simp
    · split <;> simp

/-! ### ECDSA adaptor signatures (162-byte fixed-size input) -/

/-- Well-formedness of the parts of a deserialized adaptor signature: the x-coordinate scalar `sigr` and
`s'` are in `[1, N-1]`, `e` and `s` are reduced, and - when all parts were requested - `R` and `R'` are
finite points on the curve. -/
def AdaptorPartsValid (full : Bool) (p : Adaptor.Parts) : Prop :=
  0 < p.sigr ∧ p.sigr < N ∧ 0 < p.sp ∧ p.sp < N ∧ p.e < N ∧ p.s < N ∧
  (full = true → FinValid p.r ∧ FinValid p.rp)

/-- (c)+(d) **`secp256k1_ecdsa_adaptor_sig_deserialize`**: every successfully deserialized adaptor signature
has well-formed parts; with all parts requested the two 33-byte point encodings were present (so at least
the first 66 bytes were). -/
theorem adaptor_closure (full : Bool) (a : Bytes) (p : Adaptor.Parts)
    (h : Adaptor.sigDeserialize full a = some p) :
    AdaptorPartsValid full p ∧ (full = true → 66 ≤ a.length) := by
  have hN := N_pos
  unfold Adaptor.sigDeserialize at h
  simp only [] at h
  -- R
  split at h
  · simp at h
  · rename_i r hr
    split at h
    · simp at h
    · rename_i hsigr
      split at h
      · simp at h
      · rename_i rp hrp
        have hsp : ∀ b : Bytes, (Sc.setB32Seckey b).2 = true →
            0 < (Sc.setB32Seckey b).1 ∧ (Sc.setB32Seckey b).1 < N := by
          intro b hb
          unfold Sc.setB32Seckey Sc.setB32 at hb ⊢
          simp only [Bool.and_eq_true, Bool.not_eq_eq_eq_not, Bool.not_true, decide_eq_false_iff_not,
            bne_iff_ne, ne_eq] at hb
          exact ⟨Nat.pos_of_ne_zero hb.2, Nat.mod_lt _ hN⟩
        have hpts : full = true → FinValid r ∧ FinValid rp ∧ 66 ≤ a.length := by
          intro hf
          subst hf
          simp only [if_true] at hr hrp
          obtain ⟨v1, l1⟩ := pubkeyParse_valid _ _ hr
          obtain ⟨v2, l2⟩ := pubkeyParse_valid _ _ hrp
          simp only [List.length_take, List.length_drop] at l1 l2
          exact ⟨v1, v2, by omega⟩
        split at h
        · simp at h
        · rename_i hspok
          have hspok' : (Sc.setB32Seckey ((a.drop 66).take 32)).2 = true := by simpa using hspok
          have hsp' := hsp _ hspok'
          have hsr : 0 < Bytes.toNat ((a.drop 1).take 32) % N := Nat.pos_of_ne_zero hsigr
          split at h
          · rename_i hf
            split at h
            · simp at h
            · rw [← Option.some.inj h]
              refine ⟨⟨hsr, Nat.mod_lt _ hN, hsp'.1, hsp'.2, Nat.mod_lt _ hN, setB32_fst_lt _, fun _ => ?_⟩, fun _ => ?_⟩
              · exact ⟨(hpts hf).1, (hpts hf).2.1⟩
              · exact (hpts hf).2.2
          · rename_i hf
            rw [← Option.some.inj h]
            refine ⟨⟨hsr, Nat.mod_lt _ hN, hsp'.1, hsp'.2, hN, hN, fun hf' => absurd hf' hf⟩,
              fun hf' => absurd hf' hf⟩

/-- Non-vacuity: a syntactically valid adaptor signature (R = R' = G, all scalars 1) deserializes; with
`s' = 0` or `s = N` it does not. -/
example : (Adaptor.sigDeserialize true (Adaptor.sigSerialize Pt.G Pt.G 1 1 1)).isSome := by decide +kernel
example : Adaptor.sigDeserialize true (Adaptor.sigSerialize Pt.G Pt.G 0 1 1) = none := by decide +kernel
example : Adaptor.sigDeserialize true
    (Codec.serialize33 Pt.G ++ Codec.serialize33 Pt.G ++ Bytes.be32 1 ++ Bytes.be32 1 ++ Bytes.be32 N) = none := by
  decide +kernel

end C07
end SecpZkp
