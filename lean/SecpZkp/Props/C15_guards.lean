import SecpZkp.Gen.Guards
/-! # C15 — the argument checks the model assumes are present at the C call sites (translator mode G)

`Gen.callFacts` is regenerated from clang's AST of /repo on every run (tools/c2lean_g.py): one fact per call of a
fallible primitive (range-checked field/scalar decoding, curve membership, infinity / zero tests, nested parsers)
inside the functions this property is anchored in, saying whether the call's result steers control flow
(`resultChecked`) and whether the overflow flag it writes is read before being overwritten (`flag = some true`;
`none` = the call passes NULL, i.e. reduces silently).  The executable model rejects out-of-range encodings at
exactly these places; the theorems below pin the C side to the same shape.  A fact list that no longer matches
is a broken tie (the check then searches for a failing input with the differential generators). -/
namespace SecpZkp.Props.C15_guards
open SecpZkp.Gen

/-- `secp256k1_ecdsa_s2c_verify_commit`: its fallible-primitive call sites are exactly these, each with its result / overflow flag
    consumed as listed. -/
theorem ecdsa_s2c_verify_commit_sites : Facts.ecdsa_s2c_verify_commit = [
    ⟨.ec_commit, 1, true, none⟩,
    ⟨.scalar_set_b32, 1, false, none⟩
  ] := by decide

/-- `secp256k1_ecdsa_anti_exfil_signer_commit`: its fallible-primitive call sites are exactly these, each with its result / overflow flag
    consumed as listed. -/
theorem ecdsa_anti_exfil_signer_commit_sites : Facts.ecdsa_anti_exfil_signer_commit = [
    ⟨.ecmult_gen_context_is_built, 1, true, none⟩,
    ⟨.scalar_set_b32_seckey, 1, true, none⟩
  ] := by decide

def all : List CallFact := Facts.ecdsa_s2c_verify_commit ++ Facts.ecdsa_anti_exfil_signer_commit

/-- No overflow flag written by a scalar decoding in these functions is ignored (overwritten or never read). -/
theorem no_flag_dropped : ∀ f ∈ all, f.flag ≠ some false := by decide

/-- non-vacuity: the regenerated fact lists are not empty -/
example : all.length = 4 := by decide

end SecpZkp.Props.C15_guards
