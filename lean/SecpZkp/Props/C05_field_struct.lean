import SecpZkp.Proofs.FieldKernelStruct
import SecpZkp.Props.C05_field
/-
  C05 (field part, emulated 128-bit integer): the 5×52-limb field multiplication and squaring of the C library,
  compiled with `USE_FORCE_WIDEMUL_INT128_STRUCT` (the 128-bit accumulators `c`, `d` are structs `{lo, hi}` and every
  `secp256k1_u128_*` helper of `src/int128_struct_impl.h` is 64-bit code with explicit carry detection), are exact
  for ALL limb values within the documented magnitude bounds.

  Object of the theorems: `Gen.field5x52.fe_mul_inner_struct` / `fe_sqr_inner_struct`, the MiniC IR that
  `tools/c2lean_k.py` regenerates from the C sources (all helpers inlined: 522 / 384 statements), executed with the
  real wrap-around semantics `execL`.

  Route (`Proofs/FieldKernelStruct.lean`)
  1. `*_dec` : the struct IR and the native IR are copied into an interned form in which names are numbers
     (`intern_body%`, elaboration time) and the copies are CHECKED against the generated terms by the kernel
     (`decL copy = original`, by definitional unfolding).  Nothing is re-typed.
  2. `*_sim` (`decide +kernel`): the verified lock-step checker `simCheck` accepts the pair (struct IR, native IR):
     every inlined `secp256k1_u128_mul` / `_accum_mul` / `_accum_u64` / `_rshift` / `_to_u64` of the struct IR matches,
     statement by statement, the template of that helper (proved correct once, for arbitrary variable names, from the
     arithmetic of `Proofs/Int128.lean`: `umul_run`, `accT_run`, `accU_run`, `rshiftS_run`) and stands where the native
     IR has the corresponding 128-bit operation; all other statements are pairwise identical up to the names of
     temporaries.
  3. `*_simulates` (`simCheck_sound`): for every memory whose input limbs are 64-bit values, the struct run and the
     native run (both under `execL`, wrap-around at every node: 64 bits there, 128 bits here) leave the same `r[0..4]`.
  4. `*_struct_correct`: 3 + `C05.fe_mul_inner_correct` / `C05.fe_sqr_inner_correct` (the native kernels are exact within
     the magnitude bounds, `Props/C05_field.lean`), with the same post-conditions `C05.MulPost` / `C05.SqrPost`.

  A change of the C code of the emulation or of the kernel that breaks the arithmetic (a dropped carry `r->lo < lo`, a
  wrong shift amount in `secp256k1_u128_rshift`, a wrong partial product in `secp256k1_umul128`, an accumulation into
  the wrong variable) makes step 2 fail: the block no longer matches its template, or the two programs no longer run
  in lock step.  Renaming or renumbering temporaries changes nothing.

  No axioms beyond propext / Classical.choice / Quot.sound.
-/

namespace SecpZkp
namespace C05struct
open MiniC MiniC.Bounds FieldKernel FieldKernelStruct

/-! ### the four programs in interned form, checked against the generated IR -/

def mulStructI : List IStmt := intern_body% Gen.field5x52.fe_mul_inner_struct
def mulNativeI : List IStmt := intern_body% Gen.field5x52.fe_mul_inner
def sqrStructI : List IStmt := intern_body% Gen.field5x52.fe_sqr_inner_struct
def sqrNativeI : List IStmt := intern_body% Gen.field5x52.fe_sqr_inner

theorem mulStructI_dec1 : decL (mulStructI.take 120) = Gen.field5x52.fe_mul_inner_struct.body.take 120 := by kernel_rfl
theorem mulStructI_dec2 :
    decL ((mulStructI.drop 120).take 120) = (Gen.field5x52.fe_mul_inner_struct.body.drop 120).take 120 := by kernel_rfl
theorem mulStructI_dec3 : decL (((mulStructI.drop 120).drop 120).take 120) =
    ((Gen.field5x52.fe_mul_inner_struct.body.drop 120).drop 120).take 120 := by kernel_rfl
theorem mulStructI_dec4 : decL (((mulStructI.drop 120).drop 120).drop 120) =
    ((Gen.field5x52.fe_mul_inner_struct.body.drop 120).drop 120).drop 120 := by kernel_rfl

/-- the interned copy of the struct multiplication kernel IS the generated IR -/
theorem mulStructI_dec : decL mulStructI = Gen.field5x52.fe_mul_inner_struct.body :=
  decL_split 120 mulStructI_dec1 (decL_split 120 mulStructI_dec2 (decL_split 120 mulStructI_dec3 mulStructI_dec4))

theorem mulNativeI_dec : decL mulNativeI = Gen.field5x52.fe_mul_inner.body := by kernel_rfl

theorem sqrStructI_dec1 : decL (sqrStructI.take 120) = Gen.field5x52.fe_sqr_inner_struct.body.take 120 := by kernel_rfl
theorem sqrStructI_dec2 :
    decL ((sqrStructI.drop 120).take 120) = (Gen.field5x52.fe_sqr_inner_struct.body.drop 120).take 120 := by kernel_rfl
theorem sqrStructI_dec3 : decL ((sqrStructI.drop 120).drop 120) =
    (Gen.field5x52.fe_sqr_inner_struct.body.drop 120).drop 120 := by kernel_rfl

/-- the interned copy of the struct squaring kernel IS the generated IR -/
theorem sqrStructI_dec : decL sqrStructI = Gen.field5x52.fe_sqr_inner_struct.body :=
  decL_split 120 sqrStructI_dec1 (decL_split 120 sqrStructI_dec2 sqrStructI_dec3)

theorem sqrNativeI_dec : decL sqrNativeI = Gen.field5x52.fe_sqr_inner.body := by kernel_rfl

/-! ### the names of the arrays -/

theorem nm_a : nm 97 = "a" := by kernel_rfl
theorem nm_b : nm 98 = "b" := by kernel_rfl
theorem nm_r : nm 114 = "r" := by kernel_rfl

/-- the input cells `a[0..4]`, `b[0..4]`, each paired with itself -/
def mulIn : List (Cell × Cell) :=
  [((97, 0), (97, 0)), ((97, 1), (97, 1)), ((97, 2), (97, 2)), ((97, 3), (97, 3)), ((97, 4), (97, 4)),
   ((98, 0), (98, 0)), ((98, 1), (98, 1)), ((98, 2), (98, 2)), ((98, 3), (98, 3)), ((98, 4), (98, 4))]

/-- the input cells `a[0..4]` -/
def sqrIn : List (Cell × Cell) :=
  [((97, 0), (97, 0)), ((97, 1), (97, 1)), ((97, 2), (97, 2)), ((97, 3), (97, 3)), ((97, 4), (97, 4))]

/-- the output cells `r[0..4]` -/
def outR : List (Cell × Cell) :=
  [((114, 0), (114, 0)), ((114, 1), (114, 1)), ((114, 2), (114, 2)), ((114, 3), (114, 3)), ((114, 4), (114, 4))]

/-! ### multiplication -/

/-- **The struct IR and the native IR of `secp256k1_fe_mul_inner` run in lock step**: the verified comparison
    accepts them and relates `r[0..4]`.  (Kernel evaluation of `simCheck` on the interned programs.) -/
theorem fe_mul_inner_struct_sim : simCheck mulIn mulStructI mulNativeI outR = true := by decide +kernel

/-- the five input limbs `x[0..4]` are 64-bit values -/
def Limbs64 (env : Env) (x : String) : Prop :=
  env.get x 0 < 2 ^ 64 ∧ env.get x 1 < 2 ^ 64 ∧ env.get x 2 < 2 ^ 64 ∧ env.get x 3 < 2 ^ 64 ∧ env.get x 4 < 2 ^ 64

instance (env : Env) (x : String) : Decidable (Limbs64 env x) := inferInstanceAs (Decidable (_ ∧ _))

/-- **`secp256k1_fe_mul_inner`: the emulated 128-bit integer computes what `unsigned __int128` computes.**
    For EVERY memory whose cells `a[0..4]`, `b[0..4]` hold 64-bit values, running the struct IR and running the native
    IR, both with C's wrap-around semantics, leave the same values in `r[0..4]`. -/
theorem fe_mul_inner_struct_simulates (env : Env) (ha : Limbs64 env "a") (hb : Limbs64 env "b") (i : Nat) (hi : i < 5) :
    (execL env Gen.field5x52.fe_mul_inner_struct.body).env.get "r" i =
      (execL env Gen.field5x52.fe_mul_inner.body).env.get "r" i := by
  have hs : Sim mulIn [] env env := by
    refine Sim.init ?_
    obtain ⟨a0, a1, a2, a3, a4⟩ := ha
    obtain ⟨b0, b1, b2, b3, b4⟩ := hb
    simp only [mulIn, List.forall_mem_cons, List.not_mem_nil, false_imp_iff, implies_true, and_true, true_and, getC,
      nm_a, nm_b]
    exact ⟨a0, a1, a2, a3, a4, b0, b1, b2, b3, b4⟩
  have h := simCheck_sound fe_mul_inner_struct_sim hs
  rw [mulStructI_dec, mulNativeI_dec] at h
  simp only [outR, List.forall_mem_cons, List.not_mem_nil, false_imp_iff, implies_true, and_true, getC, nm_r] at h
  obtain ⟨h0, h1, h2, h3, h4⟩ := h
  have : i = 0 ∨ i = 1 ∨ i = 2 ∨ i = 3 ∨ i = 4 := by omega
  rcases this with rfl | rfl | rfl | rfl | rfl
  · exact h0.symm
  · exact h1.symm
  · exact h2.symm
  · exact h3.symm
  · exact h4.symm

/-- **`secp256k1_fe_mul_inner` is exact in the struct configuration.**  For EVERY memory whose cells `a[0..4]`,
    `b[0..4]` respect the documented bounds (`a[i], b[i] ≤ 2^56-1` for `i < 4`, `a[4], b[4] ≤ 2^52-1`), running the C
    function compiled with the emulated 128-bit integer, with C's wrap-around semantics (`execL`: every `+`, `*`,
    `<<`, `-` truncated at 64 bits, carries recovered by comparisons), leaves in `r[0..4]` limbs that represent
    `a * b mod p` and satisfy `r[0..3] < 2^52`, `r[4] < 2^49` (`C05.MulPost`, the post-condition of the native kernel). -/
theorem fe_mul_inner_struct_correct (env : Env) (hr : Respects env mulB) :
    C05.MulPost env (execL env Gen.field5x52.fe_mul_inner_struct.body).env := by
  have A0 := hr "a" 0 _ rfl; have A1 := hr "a" 1 _ rfl; have A2 := hr "a" 2 _ rfl; have A3 := hr "a" 3 _ rfl
  have A4 := hr "a" 4 _ rfl
  have B0 := hr "b" 0 _ rfl; have B1 := hr "b" 1 _ rfl; have B2 := hr "b" 2 _ rfl; have B3 := hr "b" 3 _ rfl
  have B4 := hr "b" 4 _ rfl
  simp only [Nat.reducePow, Nat.reduceSub] at A0 A1 A2 A3 A4 B0 B1 B2 B3 B4
  have ha : Limbs64 env "a" := by simp only [Limbs64, Nat.reducePow]; omega
  have hb : Limbs64 env "b" := by simp only [Limbs64, Nat.reducePow]; omega
  have hn := C05.fe_mul_inner_correct env hr
  unfold C05.MulPost at hn ⊢
  rw [fe_mul_inner_struct_simulates env ha hb 0 (by decide), fe_mul_inner_struct_simulates env ha hb 1 (by decide),
    fe_mul_inner_struct_simulates env ha hb 2 (by decide), fe_mul_inner_struct_simulates env ha hb 3 (by decide),
    fe_mul_inner_struct_simulates env ha hb 4 (by decide)]
  exact hn

/-- Non-vacuity: the all-ones memory (`2^56-1` in limbs 0..3, `2^52-1` in limb 4, the top of the admissible range)
    satisfies the hypothesis of `fe_mul_inner_struct_correct`; the conclusion holds for it. -/
example : Respects C05.onesEnv mulB ∧
    C05.MulPost C05.onesEnv (execL C05.onesEnv Gen.field5x52.fe_mul_inner_struct.body).env :=
  ⟨respects_of_all (by decide +kernel), fe_mul_inner_struct_correct _ (respects_of_all (by decide +kernel))⟩

/-- Non-vacuity of `fe_mul_inner_struct_simulates`: the all-ones memory has 64-bit limbs, so the two configurations
    agree on it -/
example : (Limbs64 C05.onesEnv "a" ∧ Limbs64 C05.onesEnv "b") ∧
    (execL C05.onesEnv Gen.field5x52.fe_mul_inner_struct.body).env.get "r" 4 =
      (execL C05.onesEnv Gen.field5x52.fe_mul_inner.body).env.get "r" 4 :=
  ⟨by decide +kernel, fe_mul_inner_struct_simulates _ (by decide +kernel) (by decide +kernel) 4 (by decide)⟩

/-! ### squaring -/

/-- **The struct IR and the native IR of `secp256k1_fe_sqr_inner` run in lock step.** -/
theorem fe_sqr_inner_struct_sim : simCheck sqrIn sqrStructI sqrNativeI outR = true := by decide +kernel

/-- **`secp256k1_fe_sqr_inner`: the emulated 128-bit integer computes what `unsigned __int128` computes**, for every
    memory whose cells `a[0..4]` hold 64-bit values. -/
theorem fe_sqr_inner_struct_simulates (env : Env) (ha : Limbs64 env "a") (i : Nat) (hi : i < 5) :
    (execL env Gen.field5x52.fe_sqr_inner_struct.body).env.get "r" i =
      (execL env Gen.field5x52.fe_sqr_inner.body).env.get "r" i := by
  have hs : Sim sqrIn [] env env := by
    refine Sim.init ?_
    obtain ⟨a0, a1, a2, a3, a4⟩ := ha
    simp only [sqrIn, List.forall_mem_cons, List.not_mem_nil, false_imp_iff, implies_true, and_true, true_and, getC,
      nm_a]
    exact ⟨a0, a1, a2, a3, a4⟩
  have h := simCheck_sound fe_sqr_inner_struct_sim hs
  rw [sqrStructI_dec, sqrNativeI_dec] at h
  simp only [outR, List.forall_mem_cons, List.not_mem_nil, false_imp_iff, implies_true, and_true, getC, nm_r] at h
  obtain ⟨h0, h1, h2, h3, h4⟩ := h
  have : i = 0 ∨ i = 1 ∨ i = 2 ∨ i = 3 ∨ i = 4 := by omega
  rcases this with rfl | rfl | rfl | rfl | rfl
  · exact h0.symm
  · exact h1.symm
  · exact h2.symm
  · exact h3.symm
  · exact h4.symm

/-- **`secp256k1_fe_sqr_inner` is exact in the struct configuration.**  For EVERY memory whose cells `a[0..4]`
    respect the documented bounds (`a[i] ≤ 2^56-1` for `i < 4`, `a[4] ≤ 2^52-1`), running the C function compiled with
    the emulated 128-bit integer, with C's wrap-around semantics, leaves in `r[0..4]` limbs that represent `a^2 mod p`
    and satisfy `r[0..3] < 2^52`, `r[4] < 2^49` (`C05.SqrPost`). -/
theorem fe_sqr_inner_struct_correct (env : Env) (hr : Respects env sqrB) :
    C05.SqrPost env (execL env Gen.field5x52.fe_sqr_inner_struct.body).env := by
  have A0 := hr "a" 0 _ rfl; have A1 := hr "a" 1 _ rfl; have A2 := hr "a" 2 _ rfl; have A3 := hr "a" 3 _ rfl
  have A4 := hr "a" 4 _ rfl
  simp only [Nat.reducePow, Nat.reduceSub] at A0 A1 A2 A3 A4
  have ha : Limbs64 env "a" := by simp only [Limbs64, Nat.reducePow]; omega
  have hn := C05.fe_sqr_inner_correct env hr
  unfold C05.SqrPost at hn ⊢
  rw [fe_sqr_inner_struct_simulates env ha 0 (by decide), fe_sqr_inner_struct_simulates env ha 1 (by decide),
    fe_sqr_inner_struct_simulates env ha 2 (by decide), fe_sqr_inner_struct_simulates env ha 3 (by decide),
    fe_sqr_inner_struct_simulates env ha 4 (by decide)]
  exact hn

/-- Non-vacuity for squaring, on the all-ones operand `a` of `C05.onesEnv`. -/
example : Respects C05.onesEnv sqrB ∧
    C05.SqrPost C05.onesEnv (execL C05.onesEnv Gen.field5x52.fe_sqr_inner_struct.body).env :=
  ⟨respects_of_all (by decide +kernel), fe_sqr_inner_struct_correct _ (respects_of_all (by decide +kernel))⟩

end C05struct
end SecpZkp
