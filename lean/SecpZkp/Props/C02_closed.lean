import SecpZkp.Props.C02
import SecpZkp.Proofs.GroupLawProved
/-
  C02, closed forms: `Props/C02.lean` with the group-law hypothesis discharged by `groupLaw`.
-/
namespace SecpZkp
namespace C02

/-- Every successful BIP-340 signing call (default or custom nonce function, any message length,
    any aux data, both key parities) produces a signature that `schnorrsig_verify` accepts. -/
theorem schnorr_sign_verifies_closed (d : Nat) (hd0 : 0 < d) (hdN : d < N)
    (msg : Bytes) (noncefp : Option Schnorr.NonceFnH) (ndata : Option Bytes) :
    let kp : Keys.Keypair := ⟨Bytes.be32 d, Pt.mulG d⟩
    let r := Schnorr.signInternal msg kp noncefp ndata
    r.ret = 1 → (Schnorr.verify r.out msg (Keys.evenY kp.pk).1).ret = 1 :=
  schnorr_sign_verifies groupLaw d hd0 hdN msg noncefp ndata

/-- Default signing is byte for byte the BIP-340 algorithm (`bip340Sign`). -/
theorem schnorr_sign_is_bip340 (d : Nat) (hd0 : 0 < d) (hdN : d < N) (msg : Bytes) (aux : Option Bytes) :
    Schnorr.signInternal msg ⟨Bytes.be32 d, Pt.mulG d⟩ none aux =
      match bip340Sign d msg (aux.getD (Bytes.zeros 32)) with
      | some sig => ⟨1, sig, 0⟩
      | none => ⟨0, Bytes.zeros 64, 0⟩ :=
  schnorr_sign_eq_bip340 groupLaw d hd0 hdN msg aux

end C02
end SecpZkp
