import SecpZkp.Proofs.MulShift
import SecpZkp.Props.C05_scalar
/-
  C05 (scalar part, continued): `secp256k1_scalar_mul_shift_var(r, a, b, shift)` of `src/scalar_4x64_impl.h`
  (portable C path, native `unsigned __int128`) computes the product `a · b` divided by `2^shift`, ROUNDED TO NEAREST
  (ties up), for ALL 64-bit limb values of `a`, `b` and EVERY `256 ≤ shift ≤ 512`.  The library calls it only with
  `shift = 384` (`secp256k1_scalar_split_lambda`); that instance is stated separately.

  Object of the theorems: the MiniC IR `Gen.scalar4x64.scalar_mul_shift_var` that `tools/c2lean_k.py` regenerates
  from the C source (`secp256k1_scalar_mul_512`, `secp256k1_scalar_cadd_bit` and the accumulator macros inlined: one
  straight-line program of 242 statements).  Semantics: `execL`, C's wrap-around arithmetic.

  Method
  * The program is cut after the 204 statements of the inlined `scalar_mul_512` (`runR_take_drop`).
    Part 1 is executed exactly as in `Props/C05_scalar.lean` (`muladd_spec` … on the 192-bit accumulator):
    `l[0..7]` are 64-bit limbs of `a · b`, `shift` is untouched.
  * Part 2 is executed with `shift` SYMBOLIC.  The array reads `l[j + shiftlimbs]` keep their data-dependent index
    (`env.get "l" (…)`; the writes to `r.d` and the temporaries do not alias `l` whatever the index is), the `?:`
    guards become `if … then … else`.  `Proofs/MulShift.lean` shows that each `r->d[j]`, guards included, is the
    64-bit window of `l` at bit offset `shift + 64j` (`limb_spec`, `limb3_spec`), that the rounding bit is bit
    `shift − 1` (`flag_spec`), and — with `cadd_arith` for the inlined `secp256k1_scalar_cadd_bit(r, 0, bit)`, whose
    no-overflow precondition follows from `a·b ≤ (2^256−1)^2` — that the final limbs represent
    `(a·b + 2^(shift−1)) / 2^shift` (`mulshift_arith`).

  A change of the C code that breaks this (a wrong guard, an off-by-one in the limb index, a rounding bit taken at
  `shift` instead of `shift − 1`, a `cadd_bit` that drops the carry out of limb 0) makes a step or the final
  arithmetic fail; see the carry example below.
  No axioms beyond propext / Classical.choice / Quot.sound.
-/

namespace SecpZkp
namespace C05shift
open MiniC ScalarKernel MulShift C05sc

/-! ### part 1: the inlined `secp256k1_scalar_mul_512` -/

/-- post-condition of the first 204 statements of `secp256k1_scalar_mul_shift_var` (the inlined `scalar_mul_512`):
    no return, `l[0..7]` are 64-bit limbs of `a · b`, and `shift` still has its value `s` -/
def Part1Post (a0 a1 a2 a3 b0 b1 b2 b3 s : Nat) (out : Env × Option Nat) : Prop :=
  out.2 = none ∧ out.1.get "shift" 0 = s ∧
  val8 (out.1.get "l" 0) (out.1.get "l" 1) (out.1.get "l" 2) (out.1.get "l" 3)
       (out.1.get "l" 4) (out.1.get "l" 5) (out.1.get "l" 6) (out.1.get "l" 7) =
    val4 a0 a1 a2 a3 * val4 b0 b1 b2 b3 ∧
  out.1.get "l" 0 < 2 ^ 64 ∧ out.1.get "l" 1 < 2 ^ 64 ∧ out.1.get "l" 2 < 2 ^ 64 ∧ out.1.get "l" 3 < 2 ^ 64 ∧
  out.1.get "l" 4 < 2 ^ 64 ∧ out.1.get "l" 5 < 2 ^ 64 ∧ out.1.get "l" 6 < 2 ^ 64 ∧ out.1.get "l" 7 < 2 ^ 64

set_option maxRecDepth 100000 in
set_option maxHeartbeats 4000000 in
theorem mulshift_part1 (env : Env) (a0 a1 a2 a3 b0 b1 b2 b3 s : Nat)
    (h0 : env.get "a.d" 0 = a0) (h1 : env.get "a.d" 1 = a1) (h2 : env.get "a.d" 2 = a2) (h3 : env.get "a.d" 3 = a3)
    (g0 : env.get "b.d" 0 = b0) (g1 : env.get "b.d" 1 = b1) (g2 : env.get "b.d" 2 = b2) (g3 : env.get "b.d" 3 = b3)
    (hsh : env.get "shift" 0 = s)
    (A0 : a0 < 2 ^ 64) (A1 : a1 < 2 ^ 64) (A2 : a2 < 2 ^ 64) (A3 : a3 < 2 ^ 64)
    (B0 : b0 < 2 ^ 64) (B1 : b1 < 2 ^ 64) (B2 : b2 < 2 ^ 64) (B3 : b3 < 2 ^ 64) :
    Part1Post a0 a1 a2 a3 b0 b1 b2 b3 s (runR env (Gen.scalar4x64.scalar_mul_shift_var.body.take 204)) := by
  have A0' := le_of_lt64 A0; have A1' := le_of_lt64 A1; have A2' := le_of_lt64 A2; have A3' := le_of_lt64 A3
  have B0' := le_of_lt64 B0; have B1' := le_of_lt64 B1; have B2' := le_of_lt64 B2; have B3' := le_of_lt64 B3
  simp only [Gen.scalar4x64.scalar_mul_shift_var, List.take_succ_cons, List.take_zero]
  have hB0 : 0 + 0 * 2 ^ 64 + 0 * 2 ^ 128 ≤ 0 := by decide
  steps 13 [h0, h1, h2, h3, g0, g1, g2, g3, sext_lt, nc0_eq, nc1_eq]
  acc2 s1_ := muladd_fast_spec 0 0 a0 b0 (2 ^ 64 - 1) (2 ^ 64 - 1) _ (by decide) (by decide) A0' B0' (by decide) (by decide) hB0 (by decide)
  steps 3 [h0, h1, h2, h3, g0, g1, g2, g3, sext_lt, nc0_eq, nc1_eq]
  accx hXs1 := s1_B
  steps 11 [h0, h1, h2, h3, g0, g1, g2, g3, sext_lt, nc0_eq, nc1_eq]
  acc3 s2_ := muladd_spec 32 s1_1 0 0 a0 b1 (2 ^ 64 - 1) (2 ^ 64 - 1) _ s1_lt1 (by decide) A0' B1' (by decide) (by decide) hXs1 (by decide)
  steps 11 [h0, h1, h2, h3, g0, g1, g2, g3, sext_lt, nc0_eq, nc1_eq]
  acc3 s3_ := muladd_spec 32 s2_0 s2_1 s2_2 a1 b0 (2 ^ 64 - 1) (2 ^ 64 - 1) _ s2_lt0 s2_lt1 A1' B0' (by decide) (by decide) s2_B (by decide)
  steps 4 [h0, h1, h2, h3, g0, g1, g2, g3, sext_lt, nc0_eq, nc1_eq]
  accx hXs2 := s3_B
  steps 11 [h0, h1, h2, h3, g0, g1, g2, g3, sext_lt, nc0_eq, nc1_eq]
  acc3 s4_ := muladd_spec 32 s3_1 s3_2 0 a0 b2 (2 ^ 64 - 1) (2 ^ 64 - 1) _ s3_lt1 (lt64_of_lt32 s3_lt2) A0' B2' (by decide) (by decide) hXs2 (by decide)
  steps 11 [h0, h1, h2, h3, g0, g1, g2, g3, sext_lt, nc0_eq, nc1_eq]
  acc3 s5_ := muladd_spec 32 s4_0 s4_1 s4_2 a1 b1 (2 ^ 64 - 1) (2 ^ 64 - 1) _ s4_lt0 s4_lt1 A1' B1' (by decide) (by decide) s4_B (by decide)
  steps 11 [h0, h1, h2, h3, g0, g1, g2, g3, sext_lt, nc0_eq, nc1_eq]
  acc3 s6_ := muladd_spec 32 s5_0 s5_1 s5_2 a2 b0 (2 ^ 64 - 1) (2 ^ 64 - 1) _ s5_lt0 s5_lt1 A2' B0' (by decide) (by decide) s5_B (by decide)
  steps 4 [h0, h1, h2, h3, g0, g1, g2, g3, sext_lt, nc0_eq, nc1_eq]
  accx hXs3 := s6_B
  steps 11 [h0, h1, h2, h3, g0, g1, g2, g3, sext_lt, nc0_eq, nc1_eq]
  acc3 s7_ := muladd_spec 32 s6_1 s6_2 0 a0 b3 (2 ^ 64 - 1) (2 ^ 64 - 1) _ s6_lt1 (lt64_of_lt32 s6_lt2) A0' B3' (by decide) (by decide) hXs3 (by decide)
  steps 11 [h0, h1, h2, h3, g0, g1, g2, g3, sext_lt, nc0_eq, nc1_eq]
  acc3 s8_ := muladd_spec 32 s7_0 s7_1 s7_2 a1 b2 (2 ^ 64 - 1) (2 ^ 64 - 1) _ s7_lt0 s7_lt1 A1' B2' (by decide) (by decide) s7_B (by decide)
  steps 11 [h0, h1, h2, h3, g0, g1, g2, g3, sext_lt, nc0_eq, nc1_eq]
  acc3 s9_ := muladd_spec 32 s8_0 s8_1 s8_2 a2 b1 (2 ^ 64 - 1) (2 ^ 64 - 1) _ s8_lt0 s8_lt1 A2' B1' (by decide) (by decide) s8_B (by decide)
  steps 11 [h0, h1, h2, h3, g0, g1, g2, g3, sext_lt, nc0_eq, nc1_eq]
  acc3 s10_ := muladd_spec 32 s9_0 s9_1 s9_2 a3 b0 (2 ^ 64 - 1) (2 ^ 64 - 1) _ s9_lt0 s9_lt1 A3' B0' (by decide) (by decide) s9_B (by decide)
  steps 4 [h0, h1, h2, h3, g0, g1, g2, g3, sext_lt, nc0_eq, nc1_eq]
  accx hXs4 := s10_B
  steps 11 [h0, h1, h2, h3, g0, g1, g2, g3, sext_lt, nc0_eq, nc1_eq]
  acc3 s11_ := muladd_spec 32 s10_1 s10_2 0 a1 b3 (2 ^ 64 - 1) (2 ^ 64 - 1) _ s10_lt1 (lt64_of_lt32 s10_lt2) A1' B3' (by decide) (by decide) hXs4 (by decide)
  steps 11 [h0, h1, h2, h3, g0, g1, g2, g3, sext_lt, nc0_eq, nc1_eq]
  acc3 s12_ := muladd_spec 32 s11_0 s11_1 s11_2 a2 b2 (2 ^ 64 - 1) (2 ^ 64 - 1) _ s11_lt0 s11_lt1 A2' B2' (by decide) (by decide) s11_B (by decide)
  steps 11 [h0, h1, h2, h3, g0, g1, g2, g3, sext_lt, nc0_eq, nc1_eq]
  acc3 s13_ := muladd_spec 32 s12_0 s12_1 s12_2 a3 b1 (2 ^ 64 - 1) (2 ^ 64 - 1) _ s12_lt0 s12_lt1 A3' B1' (by decide) (by decide) s12_B (by decide)
  steps 4 [h0, h1, h2, h3, g0, g1, g2, g3, sext_lt, nc0_eq, nc1_eq]
  accx hXs5 := s13_B
  steps 11 [h0, h1, h2, h3, g0, g1, g2, g3, sext_lt, nc0_eq, nc1_eq]
  acc3 s14_ := muladd_spec 32 s13_1 s13_2 0 a2 b3 (2 ^ 64 - 1) (2 ^ 64 - 1) _ s13_lt1 (lt64_of_lt32 s13_lt2) A2' B3' (by decide) (by decide) hXs5 (by decide)
  steps 11 [h0, h1, h2, h3, g0, g1, g2, g3, sext_lt, nc0_eq, nc1_eq]
  acc3 s15_ := muladd_spec 32 s14_0 s14_1 s14_2 a3 b2 (2 ^ 64 - 1) (2 ^ 64 - 1) _ s14_lt0 s14_lt1 A3' B2' (by decide) (by decide) s14_B (by decide)
  steps 4 [h0, h1, h2, h3, g0, g1, g2, g3, sext_lt, nc0_eq, nc1_eq]
  accx hXs6 := s15_B
  steps 10 [h0, h1, h2, h3, g0, g1, g2, g3, sext_lt, nc0_eq, nc1_eq]
  acc2 s16_ := muladd_fast_spec s15_1 s15_2 a3 b3 (2 ^ 64 - 1) (2 ^ 64 - 1) _ s15_lt1 (lt64_of_lt32 s15_lt2) A3' B3' (by decide) (by decide) hXs6 (by decide)
  steps 3 [h0, h1, h2, h3, g0, g1, g2, g3, sext_lt, nc0_eq, nc1_eq]
  accx hXs7 := s16_B
  steps 1 [h0, h1, h2, h3, g0, g1, g2, g3, sext_lt, nc0_eq, nc1_eq]
  reads [Part1Post, hsh]
  refine ⟨?_, s1_lt0, s3_lt0, s6_lt0, s10_lt0, s13_lt0, s15_lt0, s16_lt0, s16_lt1⟩
  clear * - s1_A s2_A s3_A s4_A s5_A s6_A s7_A s8_A s9_A s10_A s11_A s12_A s13_A s14_A s15_A s16_A
  rw [val4_mul]; unfold val8
  omega

/-! ### part 2: limb selection, rounding bit, `secp256k1_scalar_cadd_bit(r, 0, bit)` — `shift` symbolic -/

/-- post-condition of `secp256k1_scalar_mul_shift_var` in terms of the 512-bit product `L` and the shift `s` -/
def ShiftPost (L s : Nat) (out : Env × Option Nat) : Prop :=
  val4 (out.1.get "r.d" 0) (out.1.get "r.d" 1) (out.1.get "r.d" 2) (out.1.get "r.d" 3) = (L + 2 ^ (s - 1)) / 2 ^ s ∧
  out.1.get "r.d" 0 < 2 ^ 64 ∧ out.1.get "r.d" 1 < 2 ^ 64 ∧ out.1.get "r.d" 2 < 2 ^ 64 ∧ out.1.get "r.d" 3 < 2 ^ 64

set_option maxRecDepth 100000 in
set_option maxHeartbeats 4000000 in
theorem mulshift_part2 (env : Env) (s : Nat) (hsh : env.get "shift" 0 = s) (hs : 256 ≤ s) (hs' : s ≤ 512)
    (hf : ∀ i, i < 8 → env.get "l" i < 2 ^ 64) (hL : L8 (env.get "l") ≤ (2 ^ 256 - 1) * (2 ^ 256 - 1)) :
    ShiftPost (L8 (env.get "l")) s (runR env (Gen.scalar4x64.scalar_mul_shift_var.body.drop 204)) := by
  simp only [Gen.scalar4x64.scalar_mul_shift_var, List.drop_succ_cons, List.drop_zero]
  steps 3 [hsh, ev_cond]
  vstep r0 [hsh, ev_cond]
  vstep r1 [hsh, ev_cond]
  vstep r2 [hsh, ev_cond]
  vstep r3 [hsh, ev_cond]
  steps 1 [hsh, ev_cond]
  vstep flag [hsh, ev_cond]
  steps 1 [hsh, ev_cond]
  vstep bit' [hsh, ev_cond]
  steps 5 [hsh, ev_cond]
  vstep q0 [hsh, ev_cond]
  vstep t1 [hsh, ev_cond]
  steps 5 [hsh, ev_cond]
  vstep q1 [hsh, ev_cond]
  vstep t2 [hsh, ev_cond]
  steps 5 [hsh, ev_cond]
  vstep q2 [hsh, ev_cond]
  vstep t3 [hsh, ev_cond]
  steps 5 [hsh, ev_cond]
  vstep q3 [hsh, ev_cond]
  reads [ShiftPost]
  rw [limb_spec (env.get "l") hf s 0 1 512 448 hs hs' (by decide) rfl rfl rfl] at r0_def
  rw [limb_spec (env.get "l") hf s 1 2 448 384 hs hs' (by decide) rfl rfl rfl] at r1_def
  rw [limb_spec (env.get "l") hf s 2 3 384 320 hs hs' (by decide) rfl rfl rfl] at r2_def
  rw [limb3_spec (env.get "l") hf s hs hs'] at r3_def
  rw [flag_spec (env.get "l") hf s hs hs'] at flag_def
  simp only [cadd_inc] at q0_def t1_def q1_def t2_def q2_def t3_def q3_def
  exact mulshift_arith (env.get "l") s hs hs' hL r0 r1 r2 r3 flag bit' q0 t1 q1 t2 q2 t3 q3
    r0_def r1_def r2_def r3_def flag_def bit'_def q0_def t1_def q1_def t2_def q2_def t3_def q3_def

/-! ### the whole function -/

theorem mulshift_run (env : Env) (a0 a1 a2 a3 b0 b1 b2 b3 s : Nat)
    (h0 : env.get "a.d" 0 = a0) (h1 : env.get "a.d" 1 = a1) (h2 : env.get "a.d" 2 = a2) (h3 : env.get "a.d" 3 = a3)
    (g0 : env.get "b.d" 0 = b0) (g1 : env.get "b.d" 1 = b1) (g2 : env.get "b.d" 2 = b2) (g3 : env.get "b.d" 3 = b3)
    (hsh : env.get "shift" 0 = s) (hs : 256 ≤ s) (hs' : s ≤ 512)
    (A0 : a0 < 2 ^ 64) (A1 : a1 < 2 ^ 64) (A2 : a2 < 2 ^ 64) (A3 : a3 < 2 ^ 64)
    (B0 : b0 < 2 ^ 64) (B1 : b1 < 2 ^ 64) (B2 : b2 < 2 ^ 64) (B3 : b3 < 2 ^ 64) :
    ShiftPost (val4 a0 a1 a2 a3 * val4 b0 b1 b2 b3) s (runR env Gen.scalar4x64.scalar_mul_shift_var.body) := by
  obtain ⟨hnone, hsh1, hprod, L0, L1, L2, L3, L4, L5, L6, L7⟩ :=
    mulshift_part1 env a0 a1 a2 a3 b0 b1 b2 b3 s h0 h1 h2 h3 g0 g1 g2 g3 hsh A0 A1 A2 A3 B0 B1 B2 B3
  rw [runR_take_drop 204 _ env hnone]
  have hf : ∀ i, i < 8 → (runR env (Gen.scalar4x64.scalar_mul_shift_var.body.take 204)).1.get "l" i < 2 ^ 64 := by
    intro i hi
    interval_cases i <;> assumption
  have hLe : L8 ((runR env (Gen.scalar4x64.scalar_mul_shift_var.body.take 204)).1.get "l") =
      val4 a0 a1 a2 a3 * val4 b0 b1 b2 b3 := hprod
  have hL : L8 ((runR env (Gen.scalar4x64.scalar_mul_shift_var.body.take 204)).1.get "l") ≤
      (2 ^ 256 - 1) * (2 ^ 256 - 1) := by
    rw [hLe]
    exact Nat.mul_le_mul (Nat.le_sub_one_of_lt (val4_lt A0 A1 A2 A3)) (Nat.le_sub_one_of_lt (val4_lt B0 B1 B2 B3))
  have h2 := mulshift_part2 _ s hsh1 hs hs' hf hL
  rw [hLe] at h2
  exact h2

/-- **`secp256k1_scalar_mul_shift_var` is exact, for every admissible shift.**  For ALL 64-bit limb values of `a`
    and `b` (reduced or not) and EVERY `shift` with `256 ≤ shift ≤ 512` (the C function's `VERIFY_CHECK(shift >= 256)`;
    above `512` nothing of the 512-bit product is left), running the translated C function with wrap-around
    semantics leaves in `r` four 64-bit limbs representing
    `(a · b + 2^(shift−1)) / 2^shift`, i.e. the product divided by `2^shift` and rounded to nearest, ties up. -/
theorem scalar_mul_shift_var_correct (env : Env) (ha : Limbs64 env "a.d") (hb : Limbs64 env "b.d")
    (hs : 256 ≤ env.get "shift" 0) (hs' : env.get "shift" 0 ≤ 512) :
    sval (execL env Gen.scalar4x64.scalar_mul_shift_var.body).env "r.d" =
      (sval env "a.d" * sval env "b.d" + 2 ^ (env.get "shift" 0 - 1)) / 2 ^ env.get "shift" 0 ∧
    Limbs64 (execL env Gen.scalar4x64.scalar_mul_shift_var.body).env "r.d" := by
  obtain ⟨A0, A1, A2, A3⟩ := ha
  obtain ⟨B0, B1, B2, B3⟩ := hb
  exact mulshift_run env _ _ _ _ _ _ _ _ _ rfl rfl rfl rfl rfl rfl rfl rfl rfl hs hs' A0 A1 A2 A3 B0 B1 B2 B3

set_option exponentiation.threshold 600 in
/-- **The instance the library uses** (`secp256k1_scalar_split_lambda` calls the function with `shift = 384` only):
    for ALL 64-bit limb values of `a` and `b`, `r = (a · b + 2^383) / 2^384` — the product divided by `2^384`,
    rounded to nearest (ties up) — in four 64-bit limbs; and `r ≤ 2^128` (since `a, b < 2^256`). -/
theorem scalar_mul_shift_var_384_correct (env : Env) (ha : Limbs64 env "a.d") (hb : Limbs64 env "b.d")
    (hsh : env.get "shift" 0 = 384) :
    sval (execL env Gen.scalar4x64.scalar_mul_shift_var.body).env "r.d" =
      (sval env "a.d" * sval env "b.d" + 2 ^ 383) / 2 ^ 384 ∧
    Limbs64 (execL env Gen.scalar4x64.scalar_mul_shift_var.body).env "r.d" ∧
    sval (execL env Gen.scalar4x64.scalar_mul_shift_var.body).env "r.d" ≤ 2 ^ 128 := by
  obtain ⟨h, hl⟩ := scalar_mul_shift_var_correct env ha hb (by rw [hsh]; decide) (by rw [hsh]; decide)
  rw [hsh, show 384 - 1 = 383 from rfl] at h
  refine ⟨h, hl, ?_⟩
  rw [h]
  obtain ⟨A0, A1, A2, A3⟩ := ha
  obtain ⟨B0, B1, B2, B3⟩ := hb
  have hA : sval env "a.d" ≤ 2 ^ 256 - 1 := Nat.le_sub_one_of_lt (val4_lt A0 A1 A2 A3)
  have hB : sval env "b.d" ≤ 2 ^ 256 - 1 := Nat.le_sub_one_of_lt (val4_lt B0 B1 B2 B3)
  have hP := Nat.mul_le_mul hA hB
  have hc : (2 ^ 256 - 1) * (2 ^ 256 - 1) + 2 ^ 383 < 2 ^ 384 * (2 ^ 128 + 1) := by decide
  exact Nat.le_of_lt_succ (Nat.div_lt_of_lt_mul (Nat.lt_of_le_of_lt (Nat.add_le_add_right hP _) hc))

/-! ### non-vacuity -/

/-- `abEnv` with a value for `shift` -/
def shEnv (a0 a1 a2 a3 b0 b1 b2 b3 shift : Nat) : Env :=
  (("shift", 0), shift) :: abEnv a0 a1 a2 a3 b0 b1 b2 b3

/-- The carry example.  `b = 2^255 + 0xDEADBEEFCAFEBABE0123456789ABCDEF` and `a = ⌈T / b⌉` for the target
    `T = (0x0123456789ABCDEF·2^64 + (2^64−1))·2^384 + 2^383`: the truncated quotient `a·b >> 384` has an ALL-ONES low
    limb and bit 383 of the product is `1`, so the rounding increment carries out of limb 0 into limb 1. -/
def carryEnv (shift : Nat) : Env :=
  shEnv 9973695065582945487 18161487345096163206 18446744073709551614 163971058432973791
        81985529216486895 16045690984503098046 0 9223372036854775808 shift

/-- post-condition on memories, as a decidable predicate (for closed evaluation): `r` holds exactly the limbs
    `x0 … x3` -/
def RIs (x0 x1 x2 x3 : Nat) (out : Env) : Prop :=
  out.get "r.d" 0 = x0 ∧ out.get "r.d" 1 = x1 ∧ out.get "r.d" 2 = x2 ∧ out.get "r.d" 3 = x3

instance (x0 x1 x2 x3 : Nat) (out : Env) : Decidable (RIs x0 x1 x2 x3 out) := by unfold RIs; infer_instance

/-- Non-vacuity of `scalar_mul_shift_var_384_correct`, on the carry example: the hypotheses hold; the truncated
    quotient is `0x0123456789ABCDEF·2^64 + (2^64 − 1)` (low limb all ones) and bit 383 of the product is set; the
    theorem then gives `r = 0x0123456789ABCDF0·2^64` (the increment has carried into limb 1) — and running the
    wrap-around interpreter in the kernel gives the limbs `(0, 0x0123456789ABCDF0, 0, 0)`.
    (A `cadd_bit` without carry propagation would leave `(0, 0x0123456789ABCDEF, 0, 0)`.) -/
example : Limbs64 (carryEnv 384) "a.d" ∧ Limbs64 (carryEnv 384) "b.d" ∧ (carryEnv 384).get "shift" 0 = 384 ∧
    sval (carryEnv 384) "a.d" * sval (carryEnv 384) "b.d" / 2 ^ 384 = 81985529216486895 * 2 ^ 64 + (2 ^ 64 - 1) ∧
    sval (carryEnv 384) "a.d" * sval (carryEnv 384) "b.d" / 2 ^ 383 % 2 = 1 ∧
    sval (execL (carryEnv 384) Gen.scalar4x64.scalar_mul_shift_var.body).env "r.d" = 81985529216486896 * 2 ^ 64 ∧
    RIs 0 81985529216486896 0 0 (execL (carryEnv 384) Gen.scalar4x64.scalar_mul_shift_var.body).env := by
  have ha : Limbs64 (carryEnv 384) "a.d" := by decide +kernel
  have hb : Limbs64 (carryEnv 384) "b.d" := by decide +kernel
  have hsh : (carryEnv 384).get "shift" 0 = 384 := by decide +kernel
  obtain ⟨h, _, _⟩ := scalar_mul_shift_var_384_correct (carryEnv 384) ha hb hsh
  have e : (sval (carryEnv 384) "a.d" * sval (carryEnv 384) "b.d" + 2 ^ 383) / 2 ^ 384 = 81985529216486896 * 2 ^ 64 := by
    decide +kernel
  exact ⟨ha, hb, hsh, by decide +kernel, by decide +kernel, e ▸ h,
    of_decide_eq_true (FieldKernel.checkRun_sound (post := fun out => decide (RIs 0 81985529216486896 0 0 out))
      (by decide +kernel))⟩

/-- Non-vacuity of `scalar_mul_shift_var_correct` at a shift that is NOT a multiple of 64 (`shift = 300`:
    `shiftlimbs = 4`, `shiftlow = 44`, every `r->d[j]` is glued from two limbs of `l`), on the same operands: the
    hypotheses hold, and the limbs computed by the interpreter in the kernel are those of the rounded quotient. -/
example : Limbs64 (carryEnv 300) "a.d" ∧ Limbs64 (carryEnv 300) "b.d" ∧
    256 ≤ (carryEnv 300).get "shift" 0 ∧ (carryEnv 300).get "shift" 0 ≤ 512 ∧
    sval (execL (carryEnv 300) Gen.scalar4x64.scalar_mul_shift_var.body).env "r.d" =
      val4 0 18446744073709027328 6230900220452929535 4660 ∧
    RIs 0 18446744073709027328 6230900220452929535 4660
      (execL (carryEnv 300) Gen.scalar4x64.scalar_mul_shift_var.body).env := by
  have ha : Limbs64 (carryEnv 300) "a.d" := by decide +kernel
  have hb : Limbs64 (carryEnv 300) "b.d" := by decide +kernel
  have hs : 256 ≤ (carryEnv 300).get "shift" 0 := by decide +kernel
  have hs' : (carryEnv 300).get "shift" 0 ≤ 512 := by decide +kernel
  obtain ⟨h, _⟩ := scalar_mul_shift_var_correct (carryEnv 300) ha hb hs hs'
  have e : (sval (carryEnv 300) "a.d" * sval (carryEnv 300) "b.d" + 2 ^ ((carryEnv 300).get "shift" 0 - 1)) /
      2 ^ (carryEnv 300).get "shift" 0 = val4 0 18446744073709027328 6230900220452929535 4660 := by decide +kernel
  exact ⟨ha, hb, hs, hs', e ▸ h,
    of_decide_eq_true (FieldKernel.checkRun_sound
      (post := fun out => decide (RIs 0 18446744073709027328 6230900220452929535 4660 out)) (by decide +kernel))⟩

/-- The boundary cases of the general theorem are inhabited as well: `shift = 512` with `a = b = 2^256 − 1` (nothing
    of the product is left, but bit 511 is set: `r = 1`), and `shift = 256` with the same operands
    (`r = 2^256 − 2`, the largest possible quotient; the rounding bit is `0`). -/
example : Limbs64 (shEnv 18446744073709551615 18446744073709551615 18446744073709551615 18446744073709551615
      18446744073709551615 18446744073709551615 18446744073709551615 18446744073709551615 512) "a.d" ∧
    RIs 1 0 0 0 (execL (shEnv 18446744073709551615 18446744073709551615 18446744073709551615 18446744073709551615
      18446744073709551615 18446744073709551615 18446744073709551615 18446744073709551615 512)
      Gen.scalar4x64.scalar_mul_shift_var.body).env :=
  ⟨by decide +kernel,
   of_decide_eq_true (FieldKernel.checkRun_sound (post := fun out => decide (RIs 1 0 0 0 out)) (by decide +kernel))⟩

example : Limbs64 (shEnv 18446744073709551615 18446744073709551615 18446744073709551615 18446744073709551615
      18446744073709551615 18446744073709551615 18446744073709551615 18446744073709551615 256) "a.d" ∧
    RIs 18446744073709551614 18446744073709551615 18446744073709551615 18446744073709551615
      (execL (shEnv 18446744073709551615 18446744073709551615 18446744073709551615 18446744073709551615
      18446744073709551615 18446744073709551615 18446744073709551615 18446744073709551615 256)
      Gen.scalar4x64.scalar_mul_shift_var.body).env :=
  ⟨by decide +kernel,
   of_decide_eq_true (FieldKernel.checkRun_sound
     (post := fun out => decide (RIs 18446744073709551614 18446744073709551615 18446744073709551615
       18446744073709551615 out)) (by decide +kernel))⟩

end C05shift
end SecpZkp
