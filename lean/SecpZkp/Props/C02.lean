import SecpZkp.Model.Schnorr
import SecpZkp.Proofs.Algebra
import SecpZkp.Proofs.BytesBasic
/-
  Property C02: BIP-340 Schnorr verification is exact, signing produces signatures that verify.

  `schnorr_verify_iff` needs no group law (pure unfolding of the model); `schnorr_sign_verifies` depends on the
  curve only through the explicit hypothesis `gl : GroupLaw`.
-/
namespace SecpZkp
namespace C02
open SecpZkp.Algebra

/-! ### BIP-340 Verify, written with the model's operations -/

/-- The point `R = s•G − e•P` of BIP-340 Verify, for the 64-byte string `sig64 = r ‖ s`, message `msg`
    and x-only key `pk`; `e = int(hash_BIP0340/challenge(r ‖ bytes(P) ‖ m)) mod n`. -/
def verifyPoint (sig64 msg : Bytes) (pk : Pt) : Pt :=
  let e := Schnorr.challenge (sig64.take 32) msg (Bytes.be32 pk.xOf)
  Pt.add (Pt.mul (Sc.neg e) pk) (Pt.mulG (Bytes.toNat (sig64.drop 32)))

/-- **C02 (verification is exact).**  For every byte string `sig64` (in particular every 64-byte string),
    every message of any length and every non-zero x-only key object `aff px py`, `schnorrsig_verify` returns 1
    exactly when BIP-340 Verify accepts: `r = int(sig[0:32]) < p`, `s = int(sig[32:64]) < n`, and the point
    `R = s•G − e•P` is not at infinity, has even y and has x-coordinate `r`.  In every other case it
    returns 0.  (No hypothesis on the key beyond not being the zero object is needed.) -/
theorem schnorr_verify_iff (sig64 msg : Bytes) (px py : Nat) :
    (Schnorr.verify sig64 msg (Pt.aff px py)).ret = 1 ↔
      Bytes.toNat (sig64.take 32) < P ∧ Bytes.toNat (sig64.drop 32) < N ∧
      verifyPoint sig64 msg (Pt.aff px py) ≠ Pt.inf ∧
      (verifyPoint sig64 msg (Pt.aff px py)).hasEvenY = true ∧
      (verifyPoint sig64 msg (Pt.aff px py)).xOf = Bytes.toNat (sig64.take 32) := by
  unfold verifyPoint
  by_cases hr : Bytes.toNat (sig64.take 32) < P
  · by_cases hs : Bytes.toNat (sig64.drop 32) < N
    · have hs' : ¬ (N ≤ Bytes.toNat (sig64.drop 32)) := by omega
      simp only [Schnorr.verify, Codec.feLimit, Sc.setB32, hr, hs, hs', Nat.mod_eq_of_lt hs, if_true,
        decide_false, true_and, Pt.xOf, Bool.false_eq_true, if_false]
      cases hR : Pt.add (Pt.mul (Sc.neg (Schnorr.challenge (List.take 32 sig64) msg (Bytes.be32 px)))
          (Pt.aff px py)) (Pt.mulG (Bytes.toNat (List.drop 32 sig64))) with
      | inf => simp
      | aff x y =>
        simp only [Pt.hasEvenY, Fe.isOdd, ne_eq, reduceCtorEq, not_false_eq_true, true_and]
        by_cases hy : y % 2 = 1 <;> by_cases hx : x = Bytes.toNat (List.take 32 sig64) <;>
          (simp [hy, hx]; try omega)
    · have hs' : N ≤ Bytes.toNat (sig64.drop 32) := by omega
      simp [Schnorr.verify, Codec.feLimit, Sc.setB32, hr, hs, hs']
  · simp [Schnorr.verify, Codec.feLimit, hr]

/-- The return value is always 0 or 1. -/
theorem schnorr_verify_ret_le (sig64 msg : Bytes) (pk : Pt) : (Schnorr.verify sig64 msg pk).ret ≤ 1 := by
  unfold Schnorr.verify
  repeat' split
  all_goals try simp
  rename_i s _ _ _ _ px py
  generalize Pt.add (Pt.mul _ (Pt.aff px py)) (Pt.mulG s) = R
  cases R
  · simp
  · simp only; split <;> simp

/-- `r ≥ p` is rejected. -/
theorem schnorr_verify_r_ge_P (sig64 msg : Bytes) (pk : Pt) (h : P ≤ Bytes.toNat (sig64.take 32)) :
    (Schnorr.verify sig64 msg pk).ret = 0 := by
  have : ¬ Bytes.toNat (sig64.take 32) < P := by omega
  simp [Schnorr.verify, Codec.feLimit, this]

/-- `s ≥ n` is rejected. -/
theorem schnorr_verify_s_ge_N (sig64 msg : Bytes) (pk : Pt) (h : N ≤ Bytes.toNat (sig64.drop 32)) :
    (Schnorr.verify sig64 msg pk).ret = 0 := by
  unfold Schnorr.verify
  split
  · rfl
  · simp [Sc.setB32, h]

/-- The zero (invalid) key object: return 0; the illegal-argument callback fires exactly when the two
    range checks on `r` and `s` (which come first in the C code) passed. -/
theorem schnorr_verify_inf (sig64 msg : Bytes) :
    (Schnorr.verify sig64 msg Pt.inf).ret = 0 ∧
    (Schnorr.verify sig64 msg Pt.inf).illegal =
      if Bytes.toNat (sig64.take 32) < P ∧ Bytes.toNat (sig64.drop 32) < N then 1 else 0 := by
  by_cases hr : Bytes.toNat (sig64.take 32) < P
  · by_cases hs : Bytes.toNat (sig64.drop 32) < N
    · have hs' : ¬ (N ≤ Bytes.toNat (sig64.drop 32)) := by omega
      simp [Schnorr.verify, Codec.feLimit, Sc.setB32, hr, hs, hs']
    · have hs' : N ≤ Bytes.toNat (sig64.drop 32) := by omega
      simp [Schnorr.verify, Codec.feLimit, Sc.setB32, hr, hs, hs']
  · simp [Schnorr.verify, Codec.feLimit, hr]

/-! ### Signing -/

/-- Negating an odd canonical field element gives an even one (`p` is odd). -/
theorem feNeg_even_of_odd {y : Nat} (hy : y < P) (hodd : y % 2 = 1) : Fe.neg y % 2 = 0 := by
  have hP := P_odd
  have h1 : y % P = y := Nat.mod_eq_of_lt hy
  have h2 : (P - y) % P = P - y := Nat.mod_eq_of_lt (by omega)
  rw [Fe.neg, h1, h2]; omega

theorem evenY_fst_aff (x y : Nat) :
    (Keys.evenY (Pt.aff x y)).1 = Pt.aff x (if Fe.isOdd y then Fe.neg y else y) := by
  simp only [Keys.evenY]; split <;> rfl

theorem keypairLoad_valid {d : Nat} (hd0 : 0 < d) (hdN : d < N) (x y : Nat) :
    Keys.keypairLoad ⟨Bytes.be32 d, Pt.aff x y⟩ true = (true, d, Pt.aff x y, 0) := by
  have hd : Bytes.toNat (Bytes.be32 d) = d := toNat_be32 (lt_trans hdN N_lt_pow)
  have h1 : ¬ (N ≤ d) := by omega
  have h2 : d ≠ 0 := by omega
  simp [Keys.keypairLoad, Sc.setB32Seckey, Sc.setB32, hd, Nat.mod_eq_of_lt hdN, h1, h2]

section
variable [HasGroupLaw]

/-- `aff x (±y)` with the sign chosen to make y even is `gmul` of the correspondingly negated scalar. -/
theorem evenFix_eq_gmul {k : Nat} (hk : k < N) {x y : Nat} (h : Pt.mulG k = Pt.aff x y) :
    Pt.aff x (if Fe.isOdd y then Fe.neg y else y)
      = gmul (((if Fe.isOdd y then Sc.neg k else k : Nat) : ZMod N)) := by
  have hg : gmul (k : ZMod N) = Pt.aff x y := by rw [← mulG_eq_gmul (lt_mulBound_of_lt_N hk)]; exact h
  split
  · rw [cast_neg, ← neg_gmul, hg]; rfl
  · exact hg.symm

/-- The algebraic core of BIP-340 correctness: with `P = sk•G`, `R = k•G` (both already normalised to
    even y) and `s = e·sk + k`, the verifier's point `(−e)•P + s•G` is `R`. -/
theorem sign_core (e sk k : Nat) :
    Pt.add (Pt.mul (Sc.neg e) (gmul (sk : ZMod N))) (Pt.mulG (Sc.add (Sc.mul e sk) k)) = gmul (k : ZMod N) := by
  rw [mul_gmul (lt_mulBound_of_lt_N (Sc.neg_lt e)), mulG_eq_gmul (lt_mulBound_of_lt_N (Sc.add_lt _ _)),
    add_gmul]
  apply gmul_congr
  simp only [cast_neg, cast_add, cast_mul]
  ring

end

/-- **C02 (signatures verify).**  For every valid keypair (secret key `0 < d < n`, public key `d•G`, of
    either parity), every message of any length, every nonce function (`none` = the default BIP-340 nonce
    function) and every auxiliary data: if `schnorrsig_sign_internal` returns 1 then its 64-byte output
    verifies under the x-only public key of the keypair — whichever parity the nonce point has. -/
theorem schnorr_sign_verifies (gl : GroupLaw) (d : Nat) (hd0 : 0 < d) (hdN : d < N)
    (msg : Bytes) (noncefp : Option Schnorr.NonceFnH) (ndata : Option Bytes) :
    let kp : Keys.Keypair := ⟨Bytes.be32 d, Pt.mulG d⟩
    let r := Schnorr.signInternal msg kp noncefp ndata
    r.ret = 1 → (Schnorr.verify r.out msg (Keys.evenY kp.pk).1).ret = 1 := by
  have : HasGroupLaw := ⟨gl⟩
  obtain ⟨px, py, hpk⟩ := mulG_eq_aff hd0 hdN
  intro kp r
  simp only [kp, r, hpk, Schnorr.signInternal, keypairLoad_valid hd0 hdN, evenY_fst_aff, xOf_aff, yOf_aff,
    Bool.true_and]
  cases hn : (noncefp.getD Schnorr.nonceBip340) msg
      (Bytes.be32 (if Fe.isOdd py then Sc.neg d else d)) (Bytes.be32 px) Schnorr.bip340Algo ndata with
  | none => simp
  | some n =>
    simp only []
    by_cases hk0 : Bytes.toNat n % N = 0
    · simp [hk0]
    · have hk0' : (Bytes.toNat n % N != 0) = true := by simpa using hk0
      have hkN : Bytes.toNat n % N < N := Nat.mod_lt _ N_pos
      obtain ⟨rx, ry, hR⟩ := mulG_eq_aff (Nat.pos_of_ne_zero hk0) hkN
      simp only [hk0', Bool.and_self, if_true, hR, xOf_aff, yOf_aff]
      intro _
      have hRv : (Pt.aff rx ry).valid = true := hR ▸ mulG_valid (lt_mulBound_of_lt_N hkN)
      obtain ⟨hrx, hry⟩ := valid_aff_lt hRv
      rw [schnorr_verify_iff]
      unfold verifyPoint
      simp only [take_be32_append, drop_be32_append, xOf_aff]
      rw [toNat_be32 (lt_trans hrx P_lt_pow), toNat_be32 (lt_trans (Sc.add_lt _ _) N_lt_pow),
        evenFix_eq_gmul hdN hpk, sign_core, ← evenFix_eq_gmul hkN hR]
      refine ⟨hrx, Sc.add_lt _ _, by simp, ?_, rfl⟩
      simp only [Pt.hasEvenY, decide_eq_true_eq]
      split
      · next h => exact feNeg_even_of_odd hry (by simpa [Fe.isOdd] using h)
      · next h => simp [Fe.isOdd] at h; omega


/-- For a valid keypair, signing returns 1 exactly when the nonce function succeeds with a nonce that is
    non-zero mod n (for the default nonce function: when the nonce hash is non-zero mod n), else 0. -/
theorem schnorr_sign_ret_iff (gl : GroupLaw) (d : Nat) (hd0 : 0 < d) (hdN : d < N)
    (msg : Bytes) (noncefp : Option Schnorr.NonceFnH) (ndata : Option Bytes) :
    let kp : Keys.Keypair := ⟨Bytes.be32 d, Pt.mulG d⟩
    let pk := (Keys.evenY kp.pk).1
    let d' := if Fe.isOdd kp.pk.yOf then Sc.neg d else d
    (Schnorr.signInternal msg kp noncefp ndata).ret = 1 ↔
      ∃ n, (noncefp.getD Schnorr.nonceBip340) msg (Bytes.be32 d') (Bytes.be32 pk.xOf) Schnorr.bip340Algo ndata
          = some n ∧ Bytes.toNat n % N ≠ 0 := by
  have : HasGroupLaw := ⟨gl⟩
  obtain ⟨px, py, hpk⟩ := mulG_eq_aff hd0 hdN
  intro kp pk d'
  simp only [kp, pk, d', hpk, Schnorr.signInternal, keypairLoad_valid hd0 hdN, evenY_fst_aff, xOf_aff, yOf_aff,
    Bool.true_and]
  cases hn : (noncefp.getD Schnorr.nonceBip340) msg
      (Bytes.be32 (if Fe.isOdd py then Sc.neg d else d)) (Bytes.be32 px) Schnorr.bip340Algo ndata with
  | none => simp
  | some n =>
    by_cases hk0 : Bytes.toNat n % N = 0
    · simp [hk0]
    · simp [hk0]

/-- **C02 (failure output).**  Whenever `schnorrsig_sign_internal` returns 0 (any keypair object, valid or
    not, any nonce function), the 64 output bytes are all zero; and the return value is 0 or 1. -/
theorem sign_failure_zero (msg : Bytes) (kp : Keys.Keypair) (noncefp : Option Schnorr.NonceFnH)
    (ndata : Option Bytes) :
    let r := Schnorr.signInternal msg kp noncefp ndata
    (r.ret = 0 ∨ r.ret = 1) ∧ (r.ret = 0 → r.out = Bytes.zeros 64) := by
  intro r
  simp only [r, Schnorr.signInternal]
  split
  · split <;> simp
  · simp

/-- **C02 (absent aux = 32 zero bytes).**  The BIP-340 nonce function with `data = NULL` equals the nonce
    function with 32 zero bytes of auxiliary randomness (the C code uses a precomputed constant for the hash
    of 32 zero bytes; that constant is tied to this model by the correspondence check). -/
theorem aux_null_eq_zero_aux (msg key32 pk32 algo : Bytes) :
    Schnorr.nonceBip340 msg key32 pk32 algo none
      = Schnorr.nonceBip340 msg key32 pk32 algo (some (Bytes.zeros 32)) := rfl

/-- Hence signing with absent aux equals signing with 32 zero bytes, byte for byte. -/
theorem sign_aux_null_eq_zero_aux (msg : Bytes) (kp : Keys.Keypair) :
    Schnorr.signInternal msg kp none none = Schnorr.signInternal msg kp none (some (Bytes.zeros 32)) := rfl

/-- The same statement for keypair objects as the API creates them: for every 32-byte string accepted by
    `keypair_create`, a successful signature verifies under the keypair's x-only public key. -/
theorem schnorr_sign_verifies_keypair (gl : GroupLaw) (sk32 msg : Bytes)
    (noncefp : Option Schnorr.NonceFnH) (ndata : Option Bytes) (hkp : (Keys.keypairCreate sk32).1 = 1) :
    let kp := (Keys.keypairCreate sk32).2
    let r := Schnorr.signInternal msg kp noncefp ndata
    r.ret = 1 → (Schnorr.verify r.out msg (Keys.evenY kp.pk).1).ret = 1 := by
  unfold Keys.keypairCreate at hkp ⊢
  generalize hp : Sc.setB32Seckey sk32 = p at hkp ⊢
  obtain ⟨d, ok⟩ := p
  cases ok with
  | false => simp at hkp
  | true =>
    simp only [Sc.setB32Seckey, Sc.setB32, Prod.mk.injEq, Bool.and_eq_true, Bool.not_eq_true',
      decide_eq_false_iff_not, bne_iff_ne, ne_eq] at hp
    obtain ⟨h1, h2, h3⟩ := hp
    have hlt : Bytes.toNat sk32 < N := by omega
    rw [Nat.mod_eq_of_lt hlt] at h1 h3
    subst h1
    exact schnorr_sign_verifies gl _ (Nat.pos_of_ne_zero h3) hlt msg noncefp ndata

/-! ### Signing is BIP-340 default signing, byte for byte -/

/-- Tagged hash `hash_tag(chunk₁ ‖ chunk₂ ‖ …)` as the model computes it (streaming the chunks). -/
def taggedChunks (tag : String) (chunks : List Bytes) : Bytes :=
  Sha256.finalize (Sha256.writeAll (Sha256.initTagged tag.toUTF8.toList) chunks)

/-- BIP-340 "Default Signing", transcribed from the specification text: secret key `d`, message `msg`,
    auxiliary random data `a`.  `none` = the spec's "Fail if k' = 0". -/
def bip340Sign (d : Nat) (msg a : Bytes) : Option Bytes :=
  let Pk := Pt.mulG d
  let d' := if Pk.hasEvenY then d else N - d
  let t := Bytes.xor (Bytes.be32 d') (taggedChunks "BIP0340/aux" [a])
  let k' := Bytes.toNat (taggedChunks "BIP0340/nonce" [t, Bytes.be32 Pk.xOf, msg]) % N
  if k' = 0 then none else
  let R := Pt.mulG k'
  let k := if R.hasEvenY then k' else N - k'
  let e := Bytes.toNat (taggedChunks "BIP0340/challenge" [Bytes.be32 R.xOf, Bytes.be32 Pk.xOf, msg]) % N
  some (Bytes.be32 R.xOf ++ Bytes.be32 ((k + e * d') % N))

theorem scNeg_eq {d : Nat} (hd0 : 0 < d) (hdN : d < N) : Sc.neg d = N - d := by
  rw [Sc.neg, Nat.mod_eq_of_lt hdN, Nat.mod_eq_of_lt (show N - d < N by omega)]

theorem scAdd_scMul (a b c : Nat) : Sc.add (Sc.mul a b) c = (c + a * b) % N := by
  rw [Sc.add, Sc.mul, Nat.mod_add_mod, Nat.add_comm]

theorem hasEvenY_iff (x y : Nat) : (Pt.aff x y).hasEvenY = true ↔ ¬ Fe.isOdd y = true := by
  simp only [Fe.isOdd, Pt.hasEvenY, decide_eq_true_eq]; omega

theorem nonce_eq (msg key pk : Bytes) (aux : Option Bytes) :
    Schnorr.nonceBip340 msg key pk Schnorr.bip340Algo aux =
      some (taggedChunks "BIP0340/nonce"
        [Bytes.xor key (taggedChunks "BIP0340/aux" [aux.getD (Bytes.zeros 32)]), pk, msg]) := by
  simp only [Schnorr.nonceBip340, if_true]
  rfl

theorem challenge_eq (r msg pk : Bytes) :
    Schnorr.challenge r msg pk = Bytes.toNat (taggedChunks "BIP0340/challenge" [r, pk, msg]) % N := rfl

/-- **C02 (signing is BIP-340 default signing).**  For every valid secret key `0 < d < n` (both public-key
    parities), every message of any length and every auxiliary data `aux` (absent = 32 zero bytes), the
    default-nonce signing function returns exactly what the BIP-340 specification text `bip340Sign` produces:
    1 and the specified 64 bytes, or 0 and 64 zero bytes in the (cryptographically unreachable) case `k' = 0`;
    no callback is raised. -/
theorem schnorr_sign_eq_bip340 (gl : GroupLaw) (d : Nat) (hd0 : 0 < d) (hdN : d < N) (msg : Bytes)
    (aux : Option Bytes) :
    Schnorr.signInternal msg ⟨Bytes.be32 d, Pt.mulG d⟩ none aux =
      match bip340Sign d msg (aux.getD (Bytes.zeros 32)) with
      | some sig => ⟨1, sig, 0⟩
      | none => ⟨0, Bytes.zeros 64, 0⟩ := by
  have : HasGroupLaw := ⟨gl⟩
  obtain ⟨px, py, hpk⟩ := mulG_eq_aff hd0 hdN
  simp only [hpk, Schnorr.signInternal, keypairLoad_valid hd0 hdN, bip340Sign, xOf_aff, yOf_aff, Option.getD_none,
    nonce_eq, challenge_eq, hasEvenY_iff, ite_not, scNeg_eq hd0 hdN, Bool.true_and]
  generalize hk : Bytes.toNat (taggedChunks "BIP0340/nonce" _) % N = k0
  by_cases hk0 : k0 = 0
  · simp [hk0]
  · have hkN : k0 < N := hk ▸ Nat.mod_lt _ N_pos
    obtain ⟨rx, ry, hR⟩ := mulG_eq_aff (Nat.pos_of_ne_zero hk0) hkN
    simp only [hk0, bne_iff_ne, ne_eq, not_false_eq_true, if_true, if_false, hR, xOf_aff, yOf_aff,
      hasEvenY_iff, ite_not, scNeg_eq (Nat.pos_of_ne_zero hk0) hkN, scAdd_scMul]

/-! ### Non-vacuity: concrete instances (evaluated by the kernel) -/

/-- Secret key 6 has a public key with odd y; the nonce point for message `[2]` has odd y. -/
example : Fe.isOdd (Pt.mulG 6).yOf = true := by decide +kernel

/-- The premise `ret = 1` of `schnorr_sign_verifies` holds for this instance. -/
example : (Schnorr.signInternal [2] ⟨Bytes.be32 6, Pt.mulG 6⟩ none none).ret = 1 := by decide +kernel

/-- …so the theorem yields a concrete accepted signature (given the group law). -/
example (gl : GroupLaw) :
    (Schnorr.verify (Schnorr.signInternal [2] ⟨Bytes.be32 6, Pt.mulG 6⟩ none none).out [2]
      (Keys.evenY (Pt.mulG 6)).1).ret = 1 :=
  schnorr_sign_verifies gl 6 (by decide) (by decide +kernel) [2] none none (by decide +kernel)

/-- Even-y key (secret key 3), with explicit 32-byte aux. -/
example : (Schnorr.signInternal [1, 2, 3] ⟨Bytes.be32 3, Pt.mulG 3⟩ none (some (Bytes.be32 7))).ret = 1 := by
  decide +kernel

/-- Both sides of `schnorr_verify_iff` are inhabited: an accepted triple, computed directly by the kernel
    without the group law … -/
example : (Schnorr.verify (Schnorr.signInternal [2] ⟨Bytes.be32 6, Pt.mulG 6⟩ none none).out [2]
    (Keys.evenY (Pt.mulG 6)).1).ret = 1 := by decide +kernel

/-- … and rejected ones: `r = p` (hypothesis of `schnorr_verify_r_ge_P`) and `s = n`. -/
example : P ≤ Bytes.toNat ((Bytes.be32 P ++ Bytes.be32 1).take 32) := by decide +kernel
example : N ≤ Bytes.toNat ((Bytes.be32 1 ++ Bytes.be32 N).drop 32) := by decide +kernel
example : (Schnorr.verify (Bytes.be32 P ++ Bytes.be32 1) [] Pt.G).ret = 0 :=
  schnorr_verify_r_ge_P _ _ _ (by decide +kernel)

/-- `sign_failure_zero` is exercised by the zero keypair object: return 0, one callback, zero output. -/
example : (Schnorr.signInternal [] Keys.Keypair.zero none none).ret = 0 ∧
    (Schnorr.signInternal [] Keys.Keypair.zero none none).illegal = 1 := by decide +kernel

end C02
end SecpZkp
