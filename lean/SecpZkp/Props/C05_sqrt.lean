import SecpZkp.Proofs.SqrtIR
/-
  C05 (square roots): `secp256k1_fe_sqrt`, `secp256k1_fe_equal` (src/field_impl.h) and the x-only lifts
  `secp256k1_ge_set_xquad`, `secp256k1_ge_set_xo_var` (src/group_impl.h), as translated into `Gen/F_group.lean`
  (programs over field VALUES with the magnitude contract of src/field.h, semantics `FeIR.execL`).

  Reading guide.
  * Every theorem has the form: for EVERY state that is entered normally (`st.returned = false`) and whose inputs are
    within the documented magnitudes, `execL st body = some st'` (execution succeeds: no magnitude precondition of a
    field primitive is violated) and the outputs in `st'` are as stated.
  * `Fe.sqrtCand a = a ^ ((P+1)/4) mod P` (Model/Field.lean) is the candidate root; it squares to `a` exactly when `a`
    is a square modulo `P` (`P ≡ 3 mod 4`), and then it is the root that is itself a square.
  * The addition chain of `fe_sqrt` (255 squarings, 13 multiplications; unrolled loops, 530 statements) is not executed
    symbolically: `Proofs/SqrtIR.lean` has a verified exponent-tracking checker (`chainL`, `chainL_sound`) that the
    kernel runs on the generated statement lists (`*_ok` below); the final exponent it reports is `(P+1)/8` before the
    last squaring.
  * The callees are inlined by the translator with renamed variables, so the chain occurs three times; the lemmas
    `sqrt_fn`, `xquad_fn` of `Proofs/SqrtIR.lean` are generic in the names, and `*_body_eq` below (proved by `rfl`)
    show that the generated bodies are instances.
-/
namespace SecpZkp.C05sqrt
open SecpZkp SecpZkp.FeIR SecpZkp.MiniC

/-! ## The generated bodies as instances of the generic shapes -/

/-- the addition chain of `fe_sqrt`: everything before `secp256k1_fe_sqr(r, &t1)` -/
def sqrtChain : List FeIR.Stmt := Gen.group.fe_sqrt.body.take 524

set_option maxRecDepth 100000 in
theorem fe_sqrt_body_eq : Gen.group.fe_sqrt.body =
    sqrtChain ++ sqrtTail "r" "t1" "fe_equal_3.na" "a" "z_8" "fe_equal_3.ret" "ret" := by rfl

set_option maxRecDepth 100000 in
/-- the kernel runs the exponent checker on the 524 statements of the chain: `t1` ends as `a ^ ((P+1)/8)` -/
theorem sqrtChain_ok :
    sqrtOK sqrtChain "r" "t1" "fe_equal_3.na" "a" "z_8" "fe_equal_3.ret" "ret" [] [] = true := by decide +kernel

/-- the chain inlined into `ge_set_xquad` -/
def xquadChain : List FeIR.Stmt :=
  match Gen.group.ge_set_xquad.body.drop 5 with
  | .scope b :: _ => b.take 524
  | _ => []

set_option maxRecDepth 100000 in
theorem xquad_body_eq : Gen.group.ge_set_xquad.body =
    xquadFn xquadChain "x" "r.x" "x2" "x3" "r.infinity" "r.y" "fe_sqrt_2.t1" "fe_equal_5.na" "z_10" "fe_equal_5.ret"
      "fe_sqrt_2.ret" "ret" := by rfl

set_option maxRecDepth 100000 in
theorem xquadChain_ok :
    xquadOK xquadChain "x" "r.x" "x2" "x3" "r.infinity" "r.y" "fe_sqrt_2.t1" "fe_equal_5.na" "z_10" "fe_equal_5.ret"
      "fe_sqrt_2.ret" "ret" [] = true := by decide +kernel

/-- the chain inlined (twice nested) into `ge_set_xo_var` -/
def xoChain : List FeIR.Stmt :=
  match Gen.group.ge_set_xo_var.body with
  | .scope b :: _ =>
    (match b.drop 5 with
     | .scope c :: _ => c.take 524
     | _ => [])
  | _ => []

/-- what `ge_set_xo_var` does after the inlined `ge_set_xquad` -/
def xoPost : List FeIR.Stmt :=
  [.int "ret" (.var "ge_set_xquad_1.ret"),
   .norm "r.y",
   .isOdd "odd_17" "r.y",
   .ite (.bin .ne 32 (.var "odd_17") (.var "odd")) [.neg "r.y" "r.y" 1] [],
   .int "ret" (.var "ret"),
   .ret]

set_option maxRecDepth 100000 in
theorem xo_body_eq : Gen.group.ge_set_xo_var.body =
    .scope (xquadFn xoChain "x" "r.x" "ge_set_xquad_1.x2" "ge_set_xquad_1.x3" "r.infinity" "r.y" "fe_sqrt_3.t1"
      "fe_equal_6.na" "z_11" "fe_equal_6.ret" "fe_sqrt_3.ret" "ge_set_xquad_1.ret") :: xoPost := by rfl

set_option maxRecDepth 100000 in
theorem xoChain_ok :
    xquadOK xoChain "x" "r.x" "ge_set_xquad_1.x2" "ge_set_xquad_1.x3" "r.infinity" "r.y" "fe_sqrt_3.t1"
      "fe_equal_6.na" "z_11" "fe_equal_6.ret" "fe_sqrt_3.ret" "ge_set_xquad_1.ret" ["odd"] = true := by
  decide +kernel

/-! ## Facts about the returned flag -/

theorem sqrtFlag_le (a : ℕ) : sqrtFlag a ≤ 1 := by unfold sqrtFlag; split <;> omega

theorem sqrtFlag_eq_one_iff (a : ℕ) : sqrtFlag a = 1 ↔ Fe.sqrtCand a * Fe.sqrtCand a % P = a % P := by
  unfold sqrtFlag Fe.sqr; split <;> simp [*]

theorem sqrtFlag_eq_one_iff_isSquare (a : ℕ) : sqrtFlag a = 1 ↔ IsSquare (a : ZMod P) := by
  rw [← Fe.isSquare_iff]
  unfold sqrtFlag Fe.isSquare
  split <;> simp [*]

theorem sqrtFlag_eq_one_iff_sqrt (a : ℕ) : sqrtFlag a = 1 ↔ Fe.sqrt a = some (Fe.sqrtCand a) := by
  unfold sqrtFlag Fe.sqrt
  split <;> simp [*]

theorem sqrtFlag_eq_zero_iff_sqrt (a : ℕ) : sqrtFlag a = 0 ↔ Fe.sqrt a = none := by
  unfold sqrtFlag Fe.sqrt
  split <;> simp [*]

theorem sqrtFlag_cast {a : ℕ} (h : sqrtFlag a = 1) :
    ((Fe.sqrtCand a : ℕ) : ZMod P) * (Fe.sqrtCand a : ℕ) = (a : ZMod P) :=
  Fe.sqrtCand_sq_of_isSquare ((sqrtFlag_eq_one_iff_isSquare a).1 h)

/-! ## 1. `secp256k1_fe_sqrt` -/

/-- `secp256k1_fe_sqrt(r, a)` for an input of magnitude at most 8: execution succeeds (every `fe_mul` / `fe_sqr` of
    the chain is called within its documented magnitude); `r` has magnitude 1 and holds exactly
    `Fe.sqrtCand a = a ^ ((P+1)/4) mod P`; the return value is 0 or 1, and it is 1
    * iff `r² ≡ a (mod P)`,
    * iff `a` is a square modulo `P`,
    * iff the model's `Fe.sqrt a` returns `some r`;
    when it is 1, `r` is a square root of `a` in `ZMod P`. -/
theorem fe_sqrt_correct (st : State) (hret : st.returned = false) (ha : (st.fe.get "a").mag ≤ 8) :
    ∃ st', FeIR.execL st Gen.group.fe_sqrt.body = some st' ∧
      (st'.fe.get "r").val = Fe.sqrtCand (st.fe.get "a").val ∧
      (st'.fe.get "r").val = (st.fe.get "a").val ^ ((P + 1) / 4) % P ∧
      (st'.fe.get "r").mag = 1 ∧
      st'.ints.get "ret" 0 ≤ 1 ∧
      (st'.ints.get "ret" 0 = 1 ↔
        (st'.fe.get "r").val * (st'.fe.get "r").val % P = (st.fe.get "a").val % P) ∧
      (st'.ints.get "ret" 0 = 1 ↔ IsSquare ((st.fe.get "a").val : ZMod P)) ∧
      (st'.ints.get "ret" 0 = 1 ↔ Fe.sqrt (st.fe.get "a").val = some (st'.fe.get "r").val) ∧
      (st'.ints.get "ret" 0 = 1 →
        (((st'.fe.get "r").val : ℕ) : ZMod P) * ((st'.fe.get "r").val : ℕ) = ((st.fe.get "a").val : ZMod P)) := by
  obtain ⟨fe, ints, ret⟩ := st
  simp only at hret ha; subst hret
  obtain ⟨fe', ints', h, hr, hflag, -, -⟩ := sqrt_fn _ _ _ _ _ _ _ _ [] [] sqrtChain_ok fe ints ha
  rw [fe_sqrt_body_eq]
  refine ⟨_, h, ?_⟩
  have hrv : (fe'.get "r").val = Fe.sqrtCand (fe.get "a").val := by rw [hr]
  have hrm : (fe'.get "r").mag = 1 := by rw [hr]
  dsimp only
  rw [hflag, hrv]
  exact ⟨rfl, sqrtCand_eq_pow _, hrm, sqrtFlag_le _, sqrtFlag_eq_one_iff _, sqrtFlag_eq_one_iff_isSquare _,
    sqrtFlag_eq_one_iff_sqrt _, sqrtFlag_cast⟩

/-- a state with `a = v`, at the maximal magnitude 8 -/
def stA (v : ℕ) : State := ⟨[("a", ⟨v, 8⟩)], [], false⟩

set_option maxRecDepth 100000 in
/-- non-vacuity: the hypotheses hold for `a = 4 + P` (not normalized, magnitude 8) … -/
example : (stA (4 + P)).returned = false ∧ ((stA (4 + P)).fe.get "a").mag ≤ 8 := by decide +kernel
set_option maxRecDepth 100000 in
/-- … and the kernel runs the 530 statements on it: the root found is 2, `ret = 1` -/
example : (FeIR.execL (stA (4 + P)) Gen.group.fe_sqrt.body).map
    (fun st' => (st'.fe.get "r", st'.ints.get "ret" 0)) = some (⟨2, 1⟩, 1) := by decide +kernel
set_option maxRecDepth 100000 in
/-- 5 is not a square modulo `P`: `ret = 0` -/
example : (FeIR.execL (stA 5) Gen.group.fe_sqrt.body).map (fun st' => st'.ints.get "ret" 0) = some 0 := by
  decide +kernel

/-! ## 2. `secp256k1_fe_equal`

  FINDING.  The statement asked for (magnitudes `a ≤ 1`, `b ≤ 31`, as documented in src/field.h and checked by
  `SECP256K1_FE_VERIFY_MAGNITUDE(b, 31)` in the function) is FALSE of the magnitude contract: the body is
  `fe_negate(&na, a, 1)` (result magnitude `1 + 1 = 2`), then `fe_add(&na, b)`, whose documented precondition is
  `na.magnitude + b.magnitude ≤ 32`; with `b.magnitude = 31` this is `33 ≤ 32`, and a VERIFY build aborts
  (`fe_equal_fails_at_31`: execution returns `none` for EVERY state with `b.magnitude = 31`).  The function is correct
  for `b ≤ 30` (`fe_equal_partial`).  The full statement would be:

    theorem fe_equal_correct (st : State) (hret : st.returned = false) (ha : (st.fe.get "a").mag ≤ 1)
        (hb : (st.fe.get "b").mag ≤ 31) :
        ∃ st', FeIR.execL st Gen.group.fe_equal.body = some st' ∧ st'.ints.get "ret" 0 ≤ 1 ∧
          (st'.ints.get "ret" 0 = 1 ↔ (st.fe.get "a").val % P = (st.fe.get "b").val % P)
-/

/-- `secp256k1_fe_equal(a, b)` for magnitudes `a ≤ 1`, `b ≤ 30`: execution succeeds and the result is 1 if
    `a ≡ b (mod P)` and 0 otherwise. -/
theorem fe_equal_partial (st : State) (hret : st.returned = false) (ha : (st.fe.get "a").mag ≤ 1)
    (hb : (st.fe.get "b").mag ≤ 30) :
    ∃ st', FeIR.execL st Gen.group.fe_equal.body = some st' ∧
      st'.ints.get "ret" 0 ≤ 1 ∧
      (st'.ints.get "ret" 0 = 1 ↔ (st.fe.get "a").val % P = (st.fe.get "b").val % P) := by
  obtain ⟨fe, ints, ret⟩ := st
  simp only at hret ha hb; subst hret
  generalize hga : fe.get "a" = av at ha; obtain ⟨a, ma⟩ := av
  generalize hgb : fe.get "b" = bv at hb; obtain ⟨b, mb⟩ := bv
  simp only at ha hb
  fe_exec [Gen.group.fe_equal, hga, hgb]
  refine ⟨_, rfl, ?_⟩
  fe_get []
  have hiff : canon (Fe.add (Fe.neg a) b) = 0 ↔ a % P = b % P := by
    rw [canon_eq_zero_iff, ← ZMod.natCast_eq_natCast_iff']
    simp only [Fe.cast_add, Fe.cast_neg]
    constructor
    · intro h; linear_combination -h
    · intro h; linear_combination -h
  simp only [hiff]
  split <;> simp [*]

/-- The documented bound `b ≤ 31` is not enough: with `b.magnitude = 31` (and `a` within its bound) the call
    `secp256k1_fe_add(&na, b)` violates the precondition `magnitude sum ≤ 32` of `fe_add`. -/
theorem fe_equal_fails_at_31 (st : State) (hret : st.returned = false) (ha : (st.fe.get "a").mag ≤ 1)
    (hb : (st.fe.get "b").mag = 31) : FeIR.execL st Gen.group.fe_equal.body = none := by
  obtain ⟨fe, ints, ret⟩ := st
  simp only at hret ha hb; subst hret
  generalize hga : fe.get "a" = av at ha; obtain ⟨a, ma⟩ := av
  generalize hgb : fe.get "b" = bv at hb; obtain ⟨b, mb⟩ := bv
  simp only at ha hb
  subst hb
  fe_exec [Gen.group.fe_equal, hga, hgb]
  rfl

/-- `a = v` (magnitude 1), `b = w` (magnitude `m`) -/
def stAB (v w m : ℕ) : State := ⟨[("a", ⟨v, 1⟩), ("b", ⟨w, m⟩)], [], false⟩

set_option maxRecDepth 100000 in
example : (stAB 7 (7 + 3 * P) 30).returned = false ∧ ((stAB 7 (7 + 3 * P) 30).fe.get "a").mag ≤ 1 ∧
    ((stAB 7 (7 + 3 * P) 30).fe.get "b").mag ≤ 30 := by decide +kernel
set_option maxRecDepth 100000 in
example : (FeIR.execL (stAB 7 (7 + 3 * P) 30) Gen.group.fe_equal.body).map (fun st' => st'.ints.get "ret" 0) = some 1 ∧
    (FeIR.execL (stAB 7 8 30) Gen.group.fe_equal.body).map (fun st' => st'.ints.get "ret" 0) = some 0 := by
  decide +kernel
set_option maxRecDepth 100000 in
/-- the counterexample to the documented bound, evaluated by the kernel -/
example : ((stAB 7 7 31).fe.get "a").mag ≤ 1 ∧ ((stAB 7 7 31).fe.get "b").mag ≤ 31 ∧
    FeIR.execL (stAB 7 7 31) Gen.group.fe_equal.body = none := by
  refine ⟨by decide +kernel, by decide +kernel, ?_⟩
  exact fe_equal_fails_at_31 _ rfl (by decide +kernel) (by decide +kernel)

/-! ## 3. `secp256k1_ge_set_xquad` -/

theorem rhsC_eq (x : ℕ) : rhsC x = Fe.add (Fe.mul (Fe.sqr x) x) 7 := by
  unfold rhsC Fe.mul; rw [Nat.mul_comm]

theorem rhs_mod (x : ℕ) : Fe.add (Fe.mul (Fe.sqr (x % P)) (x % P)) 7 = Fe.add (Fe.mul (Fe.sqr x) x) 7 := by
  have h1 : Fe.sqr (x % P) = Fe.sqr x := by unfold Fe.sqr; rw [← Nat.mul_mod]
  have h2 : ∀ s, Fe.mul s (x % P) = Fe.mul s x := by
    intro s; unfold Fe.mul; rw [Nat.mul_mod, Nat.mod_mod, ← Nat.mul_mod]
  rw [h1, h2]

/-- the model lifts depend on `x` only modulo `P` -/
theorem liftXQuad_mod (x : ℕ) : Pt.liftXQuad (x % P) = Pt.liftXQuad x := by
  unfold Pt.liftXQuad; rw [rhs_mod, Nat.mod_mod]

theorem liftX_mod (x : ℕ) (odd : Bool) : Pt.liftX (x % P) odd = Pt.liftX x odd := by
  unfold Pt.liftX; rw [rhs_mod, Nat.mod_mod]

theorem liftXQuad_eq (x : ℕ) :
    Pt.liftXQuad x = if sqrtFlag (rhsC x) = 1 then some (.aff (x % P) (Fe.sqrtCand (rhsC x))) else none := by
  unfold Pt.liftXQuad
  rw [← rhsC_eq]
  by_cases h : sqrtFlag (rhsC x) = 1
  · rw [if_pos h, (sqrtFlag_eq_one_iff_sqrt _).1 h]
  · have h0 : sqrtFlag (rhsC x) = 0 := by have := sqrtFlag_le (rhsC x); omega
    rw [if_neg h, (sqrtFlag_eq_zero_iff_sqrt _).1 h0]

theorem cast_rhsC (x : ℕ) : ((rhsC x : ℕ) : ZMod P) = (x : ZMod P) * x * x + 7 := by
  rw [rhsC_eq, cast_rhs]

/-- `secp256k1_ge_set_xquad(r, x)` for an `x` of magnitude at most 8: execution succeeds; the return value is 0 or 1,
    and it is 1 iff `x³ + 7` is a square modulo `P` (iff some curve point has abscissa `x`); `r.x` is a copy of `x`,
    `r.infinity = 0`, `r.y` has magnitude 1 and is the canonical value `(x³+7) ^ ((P+1)/4) mod P`; and the outcome is
    the model's `Pt.liftXQuad (x mod P)`: `none` when `ret = 0`, and `some (x mod P, r.y)` when `ret = 1`.
    In that case `r` represents (`RepA`, magnitudes 8 and 1) a valid curve point whose ordinate is itself a square
    — the root picked by `a ^ ((P+1)/4)`. -/
theorem ge_set_xquad_correct (st : State) (hret : st.returned = false) (hx : (st.fe.get "x").mag ≤ 8) :
    ∃ st', FeIR.execL st Gen.group.ge_set_xquad.body = some st' ∧
      st'.ints.get "ret" 0 ≤ 1 ∧
      (st'.ints.get "ret" 0 = 1 ↔
        IsSquare (((st.fe.get "x").val : ZMod P) * (st.fe.get "x").val * (st.fe.get "x").val + 7)) ∧
      st'.fe.get "r.x" = st.fe.get "x" ∧
      st'.ints.get "r.infinity" 0 = 0 ∧
      (st'.fe.get "r.y").mag = 1 ∧
      (st'.fe.get "r.y").val = Fe.sqrtCand (Fe.add (Fe.mul (Fe.sqr (st.fe.get "x").val) (st.fe.get "x").val) 7) ∧
      Pt.liftXQuad ((st.fe.get "x").val % P) =
        (if st'.ints.get "ret" 0 = 1 then some (.aff ((st.fe.get "x").val % P) (st'.fe.get "r.y").val) else none) ∧
      (st'.ints.get "ret" 0 = 1 →
        RepA st' "r" (.aff ((st.fe.get "x").val % P) (st'.fe.get "r.y").val) 8 1 ∧
        Pt.valid (.aff ((st.fe.get "x").val % P) (st'.fe.get "r.y").val) = true ∧
        IsSquare (((st'.fe.get "r.y").val : ℕ) : ZMod P)) := by
  obtain ⟨fe, ints, ret⟩ := st
  simp only at hret hx; subst hret
  obtain ⟨fe', ints', h, hrx, hry, hinf, hflag, -⟩ :=
    xquad_fn _ _ _ _ _ _ _ _ _ _ _ _ _ [] xquadChain_ok fe ints hx
  rw [xquad_body_eq]
  refine ⟨_, h, ?_⟩
  generalize hgx : fe.get "x" = xv at hx hrx hry hflag
  obtain ⟨x, mx⟩ := xv
  dsimp only at hx hry hflag ⊢
  rw [← rhsC_eq, hflag]
  have hl := liftXQuad_eq x
  have hsqf := sqrtFlag_eq_one_iff_isSquare (rhsC x)
  have hysq := fun h1 => Fe.sqrtCand_isSquare ((sqrtFlag_eq_one_iff_isSquare (rhsC x)).1 h1)
  rw [cast_rhsC] at hsqf
  have hfle := sqrtFlag_le (rhsC x)
  have hylt := Fe.sqrtCand_lt_P (rhsC x)
  generalize sqrtFlag (rhsC x) = f at hl hsqf hfle hysq
  generalize Fe.sqrtCand (rhsC x) = y at hry hl hylt hysq
  have hryv : (fe'.get "r.y").val = y := by rw [hry]
  have hrym : (fe'.get "r.y").mag = 1 := by rw [hry]
  rw [hryv]
  refine ⟨hfle, hsqf, hrx, hinf, hrym, rfl, by rw [liftXQuad_mod, hl], fun h1 => ?_⟩
  rw [if_pos h1] at hl
  obtain ⟨hv, -, -, -⟩ := liftXQuad_some hl
  refine ⟨?_, hv, hysq h1⟩
  simp only [RepA, String.reduceAppend]
  rw [hrx, hry, hinf]
  unfold RepA'
  exact ⟨hx, le_refl _, Or.inr ⟨rfl, by dsimp only; rw [Nat.mod_eq_of_lt hylt]⟩⟩

/-- a state with `x = v` at the maximal magnitude 8 -/
def stX (v odd : ℕ) : State := ⟨[("x", ⟨v, 8⟩)], [(("odd", 0), odd)], false⟩

set_option maxRecDepth 100000 in
example : (stX (Pt.Gx + P) 0).returned = false ∧ ((stX (Pt.Gx + P) 0).fe.get "x").mag ≤ 8 := by decide +kernel
set_option maxRecDepth 100000 in
/-- `x = Gx + P` (not normalized): `ret = 1` and `r` represents the generator `G` (whose `y` is a square) -/
example : (FeIR.execL (stX (Pt.Gx + P) 0) Gen.group.ge_set_xquad.body).map
    (fun st' => (st'.ints.get "ret" 0, decide (RepA st' "r" Pt.G 8 1))) = some (1, true) := by decide +kernel
set_option maxRecDepth 100000 in
/-- `x = 5`: `5³ + 7 = 132` is not a square, `ret = 0`, and the model agrees -/
example : (FeIR.execL (stX 5 0) Gen.group.ge_set_xquad.body).map (fun st' => st'.ints.get "ret" 0) = some 0 ∧
    Pt.liftXQuad 5 = none := by decide +kernel

/-! ## 4. `secp256k1_ge_set_xo_var` -/

theorem liftX_eq (x : ℕ) (odd : Bool) :
    Pt.liftX x odd = if sqrtFlag (rhsC x) = 1 then
        some (.aff (x % P) (if Fe.isOdd (Fe.sqrtCand (rhsC x)) = odd then Fe.sqrtCand (rhsC x)
          else Fe.neg (Fe.sqrtCand (rhsC x))))
      else none := by
  unfold Pt.liftX
  rw [← rhsC_eq]
  by_cases h : sqrtFlag (rhsC x) = 1
  · rw [if_pos h, (sqrtFlag_eq_one_iff_sqrt _).1 h]
  · have h0 : sqrtFlag (rhsC x) = 0 := by have := sqrtFlag_le (rhsC x); omega
    rw [if_neg h, (sqrtFlag_eq_zero_iff_sqrt _).1 h0]

/-- the C comparison `fe_is_odd(&r->y) != odd` against the model's `Fe.isOdd y = odd`, for `odd ∈ {0, 1}` -/
theorem parity_iff {y odd : ℕ} (h : odd ≤ 1) : Fe.isOdd y = decide (odd = 1) ↔ y % 2 = odd := by
  unfold Fe.isOdd
  have h1 : odd = 0 ∨ odd = 1 := by omega
  rcases h1 with h1 | h1 <;> rcases Nat.mod_two_eq_zero_or_one y with h2 | h2 <;> simp [h1, h2]

theorem canon_of_lt {y : ℕ} (h : y < P) : canon y = y := Nat.mod_eq_of_lt h

/-- `secp256k1_ge_set_xo_var(r, x, odd)` for an `x` of magnitude at most 8 and `odd ∈ {0, 1}`: execution succeeds;
    the return value is 0 or 1, and it is 1 iff `x³ + 7` is a square modulo `P`; `r.x` is a copy of `x`,
    `r.infinity = 0`, `r.y` is a canonical value (`< P`) of magnitude at most 2; and the outcome is the model's
    `Pt.liftX (x mod P) (odd = 1)`: `none` when `ret = 0`, and `some (x mod P, r.y)` when `ret = 1`.  In that case `r`
    represents (`RepA`, magnitudes 8 and 2) a valid curve point and the parity of `r.y` is `odd`. -/
theorem ge_set_xo_var_correct (st : State) (hret : st.returned = false) (hx : (st.fe.get "x").mag ≤ 8)
    (hodd : st.ints.get "odd" 0 ≤ 1) :
    ∃ st', FeIR.execL st Gen.group.ge_set_xo_var.body = some st' ∧
      st'.ints.get "ret" 0 ≤ 1 ∧
      (st'.ints.get "ret" 0 = 1 ↔
        IsSquare (((st.fe.get "x").val : ZMod P) * (st.fe.get "x").val * (st.fe.get "x").val + 7)) ∧
      st'.fe.get "r.x" = st.fe.get "x" ∧
      st'.ints.get "r.infinity" 0 = 0 ∧
      (st'.fe.get "r.y").mag ≤ 2 ∧
      (st'.fe.get "r.y").val < P ∧
      Pt.liftX ((st.fe.get "x").val % P) (decide (st.ints.get "odd" 0 = 1)) =
        (if st'.ints.get "ret" 0 = 1 then some (.aff ((st.fe.get "x").val % P) (st'.fe.get "r.y").val) else none) ∧
      (st'.ints.get "ret" 0 = 1 →
        RepA st' "r" (.aff ((st.fe.get "x").val % P) (st'.fe.get "r.y").val) 8 2 ∧
        Pt.valid (.aff ((st.fe.get "x").val % P) (st'.fe.get "r.y").val) = true ∧
        (st'.fe.get "r.y").val % 2 = st.ints.get "odd" 0) := by
  obtain ⟨fe, ints, ret⟩ := st
  simp only at hret hx hodd; subst hret
  obtain ⟨fe1, ints1, h, hrx, hry, hinf, hflag, hkeep⟩ :=
    xquad_fn _ _ _ _ _ _ _ _ _ _ _ _ _ ["odd"] xoChain_ok fe ints hx
  have hodd1 : ints1.get "odd" 0 = ints.get "odd" 0 := hkeep "odd" (List.mem_singleton_self _)
  rw [xo_body_eq, execL_cons, execS_scope, h, unscope_some, obind_some]
  generalize hgx : fe.get "x" = xv at hx hrx hry hflag
  obtain ⟨x, mx⟩ := xv
  generalize ints.get "odd" 0 = odd at hodd hodd1
  dsimp only at hx hry hflag ⊢
  have hl := liftX_eq x (decide (odd = 1))
  have hsqf := sqrtFlag_eq_one_iff_isSquare (rhsC x)
  rw [cast_rhsC] at hsqf
  have hfle := sqrtFlag_le (rhsC x)
  have hylt := Fe.sqrtCand_lt_P (rhsC x)
  generalize sqrtFlag (rhsC x) = f at hflag hl hsqf hfle
  generalize Fe.sqrtCand (rhsC x) = y at hry hl hylt
  have hcan := canon_of_lt hylt
  -- the point the model returns, its validity and parity (when the flag is 1)
  have hmodel : f = 1 → ∀ y', y' = (if Fe.isOdd y = decide (odd = 1) then y else Fe.neg y) →
      Pt.valid (.aff (x % P) y') = true ∧ y' % 2 = odd := by
    intro h1 y' hy'
    rw [if_pos h1, ← hy'] at hl
    obtain ⟨hv, -, -, hpar⟩ := liftX_some hl
    exact ⟨hv, (parity_iff hodd).1 hpar⟩
  unfold xoPost
  by_cases hpar : y % 2 = odd
  · have hsel : (if Fe.isOdd y = decide (odd = 1) then y else Fe.neg y) = y := if_pos ((parity_iff hodd).2 hpar)
    rw [hsel] at hl hmodel
    fe_exec [hry, hodd1, hflag, binIdeal, hcan, hpar]
    refine ⟨_, rfl, ?_⟩
    fe_get [hry, hrx, hinf, hflag, hcan]
    refine ⟨hfle, hsqf, trivial, trivial, by omega, hylt, by rw [liftX_mod, hl], fun h1 => ?_⟩
    obtain ⟨hv, hp⟩ := hmodel h1 y rfl
    refine ⟨?_, hv, hp⟩
    unfold RepA'
    exact ⟨hx, by dsimp only; omega, Or.inr ⟨rfl, by dsimp only; rw [Nat.mod_eq_of_lt hylt]⟩⟩
  · have hsel : (if Fe.isOdd y = decide (odd = 1) then y else Fe.neg y) = Fe.neg y :=
      if_neg (fun h => hpar ((parity_iff hodd).1 h))
    rw [hsel] at hl hmodel
    fe_exec [hry, hodd1, hflag, binIdeal, hcan, hpar]
    refine ⟨_, rfl, ?_⟩
    fe_get [hry, hrx, hinf, hflag, hcan]
    refine ⟨hfle, hsqf, trivial, trivial, by omega, Fe.neg_lt_P y, by rw [liftX_mod, hl], fun h1 => ?_⟩
    obtain ⟨hv, hp⟩ := hmodel h1 _ rfl
    refine ⟨?_, hv, hp⟩
    unfold RepA'
    exact ⟨hx, by dsimp only; omega, Or.inr ⟨rfl, by dsimp only; rw [Nat.mod_eq_of_lt (Fe.neg_lt_P y)]⟩⟩

set_option maxRecDepth 100000 in
example : (stX (Pt.Gx + P) 1).returned = false ∧ ((stX (Pt.Gx + P) 1).fe.get "x").mag ≤ 8 ∧
    (stX (Pt.Gx + P) 1).ints.get "odd" 0 ≤ 1 := by decide +kernel
set_option maxRecDepth 100000 in
/-- `x = Gx + P`, `odd = 0`: `ret = 1` and `r` represents `G` (`Gy` is even) -/
example : (FeIR.execL (stX (Pt.Gx + P) 0) Gen.group.ge_set_xo_var.body).map
    (fun st' => (st'.ints.get "ret" 0, decide (RepA st' "r" Pt.G 8 2))) = some (1, true) := by decide +kernel
set_option maxRecDepth 100000 in
/-- `x = Gx + P`, `odd = 1`: `ret = 1` and `r` represents `-G` -/
example : (FeIR.execL (stX (Pt.Gx + P) 1) Gen.group.ge_set_xo_var.body).map
    (fun st' => (st'.ints.get "ret" 0, decide (RepA st' "r" (Pt.neg Pt.G) 8 2))) = some (1, true) := by
  decide +kernel
set_option maxRecDepth 100000 in
/-- `x = 5`: no point has this abscissa, `ret = 0`, and the model agrees -/
example : (FeIR.execL (stX 5 1) Gen.group.ge_set_xo_var.body).map (fun st' => st'.ints.get "ret" 0) = some 0 ∧
    Pt.liftX 5 true = none := by decide +kernel

end SecpZkp.C05sqrt
