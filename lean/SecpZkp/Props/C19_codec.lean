/-
  C19 (part "codec"): generator-list encoding (`secp256k1_bppp_generators_parse` / `_serialize`,
  src/modules/bppp/main_impl.h:53-116), single generators (`secp256k1_generator_parse` / `_serialize`)
  and the sign byte of the two-points-in-65-bytes codec (bppp_util.h:14-45).

  * `generators_parse` fails unless the length is a multiple of 33; on success the list has `len / 33`
    entries and entry `i` is the generator encoded by bytes `33 i .. 33 i + 32`, a valid encoding
    (prefix 10 or 11, x < P, x on the curve); it succeeds exactly when all `len / 33` chunks are valid.
  * serialize ∘ parse and parse ∘ serialize round trips.
  * `parse_one_of_points` rejects a sign byte > 3 and a set sign bit on an infinity encoding.
  All statements are for ALL byte strings of ALL lengths.
-/
import SecpZkp.Proofs.Parsers

namespace SecpZkp
namespace C19

open Bppp Parsers

/-- the `i`-th 33-byte chunk `&data[33 * i]` -/
def chunk33 (d : Bytes) (i : Nat) : Bytes := (d.drop (33 * i)).take 33

/-- A valid generator encoding: 33 bytes, prefix 10 or 11 (`(b & 0xFE) == 10`), the 32-byte big-endian
`x` is below the field prime, and `x^3 + 7` is a square (so that `x` is the abscissa of a curve point). -/
def GenEncodingOK (c : Bytes) : Prop :=
  c.length = 33 ∧ (c.headD 0 = 10 ∨ c.headD 0 = 11) ∧ Bytes.toNat c.tail < P ∧
  Fe.isSquare (curveRhs (Bytes.toNat c.tail)) = true

instance (c : Bytes) : Decidable (GenEncodingOK c) := by unfold GenEncodingOK; infer_instance

/-! ### single generators -/

/-- **`secp256k1_generator_parse` accepts exactly the valid encodings** (for a 33-byte input). -/
theorem generator_parse_isSome_iff (c : Bytes) (hlen : c.length = 33) :
    (Generator.parse c).isSome ↔ GenEncodingOK c := by
  cases c with
  | nil => simp at hlen
  | cons b0 rest =>
    rw [generator_parse_cons]
    unfold GenEncodingOK
    simp only [List.headD_cons, List.tail_cons, hlen, true_and]
    split <;> simp_all

/-- **Closure: a successfully parsed generator is a finite point on the curve** (`x, y < P`,
`y^2 = x^3 + 7`), whose abscissa is the encoded `x`; `y` is the square root of `x^3 + 7` that is itself a
square for prefix 10 and its negation for prefix 11. -/
theorem generator_parse_valid (c : Bytes) (g : Pt) (h : Generator.parse c = some g) :
    FinValid g ∧ g.xOf = Bytes.toNat c.tail := by
  cases c with
  | nil => simp [Generator.parse] at h
  | cons b0 rest =>
    rw [generator_parse_cons] at h
    split at h
    · rename_i hc
      obtain ⟨_, hx, hs⟩ := hc
      have hon : Pt.onCurveXY (Bytes.toNat rest) (Fe.sqrtCand (curveRhs (Bytes.toNat rest))) = true := by
        rw [onCurveXY_iff]
        refine ⟨hx, sqrtCand_lt _, ?_⟩
        have : Fe.sqr (Fe.sqrtCand (curveRhs (Bytes.toNat rest))) = curveRhs (Bytes.toNat rest) % P := by
          simpa [Fe.isSquare] using hs
        rw [this, Nat.mod_eq_of_lt (curveRhs_lt _)]
      rw [← Option.some.inj h]
      split
      · exact ⟨finValid_neg _ (finValid_aff _ _ hon), rfl⟩
      · exact ⟨finValid_aff _ _ hon, rfl⟩
    · simp at h

/-- the encoding of the standard value generator `H` is accepted, a wrong prefix / an `x ≥ P` is not -/
example : Generator.parse (Generator.serialize Generator.H) = some Generator.H := by decide +kernel
example : Generator.parse (12 :: (Generator.serialize Generator.H).tail) = none := by decide +kernel
example : Generator.parse (10 :: Bytes.be32 P) = none := by decide +kernel
example : GenEncodingOK (Generator.serialize Generator.H) := by decide +kernel

/-- a serialized generator has 33 bytes -/
theorem length_generator_serialize (g : Pt) : (Generator.serialize g).length = 33 := by
  simp [Generator.serialize, length_be32]

/-! ### generator lists: parse -/

/-- **`gens_parse_len`: a length that is not a multiple of 33 is rejected** (return NULL, no callback). -/
theorem gens_parse_len (d : Bytes) (h : d.length % 33 ≠ 0) : gensParse (some d) = ⟨0, none, 0⟩ := by
  simp only [gensParse, if_pos h]

example : gensParse (some (Bytes.zeros 34)) = ⟨0, none, 0⟩ := gens_parse_len _ (by decide)
example : gensParse (some (Bytes.zeros 32)) = ⟨0, none, 0⟩ := gens_parse_len _ (by decide)

/-- NULL data pointer: one illegal-argument callback -/
theorem gens_parse_null : gensParse none = ⟨0, none, 1⟩ := rfl

/-- success of the `while (n--)` loop: the result is the list of the `n` parsed chunks, in order, in front
of the accumulator -/
theorem gensParseLoop_some (d : Bytes) (n : Nat) (acc l : List Pt) (h : gensParseLoop d n acc = some l) :
    ∃ gs : List Pt, gs.length = n ∧ l = gs ++ acc ∧
      ∀ i, i < n → Generator.parse (chunk33 d i) = gs[i]? := by
  induction n generalizing acc l with
  | zero =>
    refine ⟨[], rfl, ?_, fun i hi => by omega⟩
    simpa [gensParseLoop] using h.symm
  | succ k ih =>
    unfold gensParseLoop at h
    cases hp : Generator.parse ((d.drop (33 * k)).take 33) with
    | none => rw [hp] at h; simp at h
    | some g =>
      rw [hp] at h
      obtain ⟨gs', hl, hlist, hall⟩ := ih _ _ h
      refine ⟨gs' ++ [g], by simp [hl], by simp [hlist], fun i hi => ?_⟩
      by_cases hik : i < k
      · rw [List.getElem?_append_left (by omega)]; exact hall i hik
      · have : i = k := by omega
        subst this
        rw [List.getElem?_append_right (by omega)]
        simp [hl, chunk33, hp]

/-- one bad chunk makes the loop fail (the C code frees everything and returns NULL) -/
theorem gensParseLoop_none (d : Bytes) (n : Nat) (acc : List Pt) (i : Nat) (hi : i < n)
    (hbad : Generator.parse (chunk33 d i) = none) : gensParseLoop d n acc = none := by
  induction n generalizing acc with
  | zero => omega
  | succ k ih =>
    unfold gensParseLoop
    cases hp : Generator.parse ((d.drop (33 * k)).take 33) with
    | none => rfl
    | some g =>
      simp only []
      by_cases hik : i < k
      · exact ih _ hik
      · have : i = k := by omega
        subst this
        unfold chunk33 at hbad
        rw [hbad] at hp; simp at hp

/-- if all `n` chunks parse, the loop succeeds -/
theorem gensParseLoop_isSome (d : Bytes) (n : Nat) (acc : List Pt)
    (hall : ∀ i, i < n → (Generator.parse (chunk33 d i)).isSome) : (gensParseLoop d n acc).isSome := by
  induction n generalizing acc with
  | zero => simp [gensParseLoop]
  | succ k ih =>
    unfold gensParseLoop
    have := hall k (by omega)
    unfold chunk33 at this
    cases hp : Generator.parse ((d.drop (33 * k)).take 33) with
    | none => rw [hp] at this; simp at this
    | some g => exact ih _ (fun i hi => hall i (by omega))

/-- **`gens_parse_ok`: what a successful `generators_parse` returns.** If the call succeeds with list
`l`, then `len = 33 * l.length` (so `l` has `len / 33` entries), and for every `i < l.length` the entry
`l[i]` is the result of `secp256k1_generator_parse` on the chunk `data[33 i .. 33 i + 32]`, which lies
inside the input, is a valid generator encoding, and `l[i]` is a finite point on the curve. -/
theorem gens_parse_ok (d : Bytes) (l : List Pt) (h : gensParse (some d) = ⟨1, some l, 0⟩) :
    d.length = 33 * l.length ∧ l.length = d.length / 33 ∧
    ∀ i, i < l.length →
      33 * i + 33 ≤ d.length ∧ Generator.parse (chunk33 d i) = l[i]? ∧ GenEncodingOK (chunk33 d i) ∧
      (∀ g, l[i]? = some g → FinValid g) := by
  unfold gensParse at h
  simp only [] at h
  split at h
  · simp at h
  · rename_i hmod
    cases hl : gensParseLoop d (d.length / 33) [] with
    | none => rw [hl] at h; simp at h
    | some l' =>
      rw [hl] at h
      have hll : l' = l := by simpa using h
      subst hll
      obtain ⟨gs, hlen, hgs, hall⟩ := gensParseLoop_some _ _ _ _ hl
      simp only [List.append_nil] at hgs
      subst hgs
      have h33 : d.length = 33 * l'.length := by omega
      refine ⟨h33, by omega, fun i hi => ?_⟩
      have hin : 33 * i + 33 ≤ d.length := by omega
      have hp := hall i (by omega)
      have hcl : (chunk33 d i).length = 33 := by
        simp only [chunk33, List.length_take, List.length_drop]; omega
      refine ⟨hin, hp, ?_, ?_⟩
      · rw [← generator_parse_isSome_iff _ hcl, hp]; simp [hi]
      · intro g hg
        rw [← hp] at hg
        exact (generator_parse_valid _ _ hg).1

/-- **`gens_parse_iff`: exact acceptance condition of `generators_parse`.** For every byte string: the
call succeeds (returns a list, `ret = 1`) if and only if the length is a multiple of 33 and every one
of the `len / 33` chunks is a valid generator encoding. -/
theorem gens_parse_iff (d : Bytes) :
    (gensParse (some d)).ret = 1 ↔
      d.length % 33 = 0 ∧ ∀ i, i < d.length / 33 → GenEncodingOK (chunk33 d i) := by
  constructor
  · intro h
    have hmod : d.length % 33 = 0 := by
      apply Classical.byContradiction
      intro hne
      rw [gens_parse_len d hne] at h; simp at h
    refine ⟨hmod, fun i hi => ?_⟩
    unfold gensParse at h
    simp only [] at h
    rw [if_neg (by omega)] at h
    cases hl : gensParseLoop d (d.length / 33) [] with
    | none => rw [hl] at h; simp at h
    | some l =>
      have hok := gens_parse_ok d l (by unfold gensParse; simp only []; rw [if_neg (by omega), hl])
      exact (hok.2.2 i (by omega)).2.2.1
  · rintro ⟨hmod, hall⟩
    have hsome : (gensParseLoop d (d.length / 33) []).isSome := by
      apply gensParseLoop_isSome
      intro i hi
      have hcl : (chunk33 d i).length = 33 := by
        simp only [chunk33, List.length_take, List.length_drop]; omega
      exact (generator_parse_isSome_iff _ hcl).2 (hall i hi)
    unfold gensParse
    simp only []
    rw [if_neg (by omega)]
    cases hl : gensParseLoop d (d.length / 33) [] with
    | none => rw [hl] at hsome; simp at hsome
    | some l => rfl

/-- `generators_parse` returns only 0 or 1; on 0 it returns NULL (nothing is allocated / leaked). -/
theorem gens_parse_ret01 (d : Option Bytes) :
    ((gensParse d).ret = 0 ∧ (gensParse d).out = none) ∨ ((gensParse d).ret = 1 ∧ (gensParse d).out.isSome) := by
  unfold gensParse
  split
  · simp
  · split
    · simp
    · split <;> simp

/-- the empty string parses to the empty list; two copies of `H` parse to `[H, H]`; a bad second chunk fails -/
example : (gensParse (some [])).ret = 1 ∧ (gensParse (some [])).out = some [] := by decide
example : (gensParse (some (Generator.serialize Generator.H ++ Generator.serialize Generator.H))).out
    = some [Generator.H, Generator.H] := by decide +kernel
example : (gensParse (some (Generator.serialize Generator.H ++ Bytes.zeros 33))).ret = 0 := by
  decide +kernel

/-! ### generator lists: serialize and round trips -/

theorem length_flatMap_serialize (gs : List Pt) :
    (gs.flatMap Generator.serialize).length = 33 * gs.length := by
  induction gs with
  | nil => rfl
  | cons g t ih => simp [List.flatMap_cons, length_generator_serialize, ih]; omega

/-- **`generators_serialize` contract**: NULL arguments or `*data_len < 33 * n` give 0 with one
illegal-argument callback and an untouched buffer; otherwise 1, `*data_len = 33 * n`, and the first `33 * n`
bytes of the buffer are the concatenated generator encodings. -/
theorem gens_serialize_spec (gs : List Pt) (b : Bytes) (dataLen : Nat) :
    (dataLen < 33 * gs.length → gensSerialize (some gs) (some b) dataLen = ⟨0, (some b, dataLen), 1⟩) ∧
    (33 * gs.length ≤ dataLen →
      ∃ out, gensSerialize (some gs) (some b) dataLen = ⟨1, (some out, 33 * gs.length), 0⟩ ∧
        out.length = dataLen ∧ out.take (33 * gs.length) = gs.flatMap Generator.serialize) := by
  constructor
  · intro h; simp only [gensSerialize, if_pos h]
  · intro h
    refine ⟨gs.flatMap Generator.serialize ++ Bytes.zeros (dataLen - 33 * gs.length),
      by simp only [gensSerialize, if_neg (by omega : ¬ dataLen < 33 * gs.length)], ?_, ?_⟩
    · simp only [List.length_append, length_flatMap_serialize, length_zeros]; omega
    · rw [List.take_append_of_le_length (by rw [length_flatMap_serialize]; omega),
        List.take_of_length_le (by rw [length_flatMap_serialize]; omega)]

/-- the parse loop run on the concatenated encodings of `gs` (followed by anything) returns `gs` -/
theorem gensParseLoop_roundtrip (n : Nat) (gs acc : List Pt) (tail : Bytes) (hn : gs.length = n)
    (hrt : ∀ g ∈ gs, Generator.parse (Generator.serialize g) = some g) :
    gensParseLoop (gs.flatMap Generator.serialize ++ tail) n acc = some (gs ++ acc) := by
  induction n generalizing gs acc tail with
  | zero =>
    have : gs = [] := List.eq_nil_of_length_eq_zero hn
    subst this; simp [gensParseLoop]
  | succ k ih =>
    rcases List.eq_nil_or_concat gs with hnil | ⟨gs', g, hg⟩
    · subst hnil; simp at hn
    · subst hg
      simp only [List.concat_eq_append, List.length_append, List.length_cons, List.length_nil] at hn
      have hk : gs'.length = k := by omega
      have hlen' : (gs'.flatMap Generator.serialize).length = 33 * k := by
        rw [length_flatMap_serialize, hk]
      unfold gensParseLoop
      have hchunk : (((gs'.concat g).flatMap Generator.serialize ++ tail).drop (33 * k)).take 33
          = Generator.serialize g := by
        simp only [List.concat_eq_append, List.flatMap_append, List.flatMap_cons, List.flatMap_nil,
          List.append_nil, List.append_assoc]
        rw [List.drop_append_of_le_length (by omega), List.drop_of_length_le (by omega), List.nil_append,
          List.take_append_of_le_length (by rw [length_generator_serialize]; omega),
          List.take_of_length_le (by rw [length_generator_serialize]; omega)]
      rw [hchunk, hrt g (by simp)]
      simp only [List.concat_eq_append, List.flatMap_append, List.flatMap_cons, List.flatMap_nil,
        List.append_nil, List.append_assoc]
      rw [ih gs' (g :: acc) (Generator.serialize g ++ tail) hk (fun g' hg' => hrt g' (by simp [hg']))]
      simp

/-- **`gens_serialize_parse`: parse ∘ serialize = id on generator lists.** For every list of generators
each of which survives its own 33-byte round trip (`generator_parse (generator_serialize g) = g`; see
`C19.generator_serialize_parse` in `Props/C19_roundtrip.lean` for the proof that every finite on-curve
point does, and `gens_serialize_parse_valid` there for the unconditional form),
serializing into a sufficiently large buffer and parsing the `33 * n` bytes written gives back the
same list. -/
theorem gens_serialize_parse (gs : List Pt) (b : Bytes) (dataLen : Nat) (hlen : 33 * gs.length ≤ dataLen)
    (hrt : ∀ g ∈ gs, Generator.parse (Generator.serialize g) = some g) :
    ∃ out, gensSerialize (some gs) (some b) dataLen = ⟨1, (some out, 33 * gs.length), 0⟩ ∧
      gensParse (some (out.take (33 * gs.length))) = ⟨1, some gs, 0⟩ := by
  obtain ⟨out, ho, _, htake⟩ := (gens_serialize_spec gs b dataLen).2 hlen
  refine ⟨out, ho, ?_⟩
  rw [htake]
  unfold gensParse
  simp only [length_flatMap_serialize]
  rw [if_neg (by omega), show 33 * gs.length / 33 = gs.length by omega]
  have := gensParseLoop_roundtrip gs.length gs [] [] rfl hrt
  simp only [List.append_nil] at this
  rw [this]

example : ∀ g ∈ [Generator.H, Pt.G], Generator.parse (Generator.serialize g) = some g := by
  decide +kernel

/-- **parse then serialize reproduces the bytes**, chunk by chunk, provided each parsed generator
re-serializes to its chunk (`generator_serialize (generator_parse c) = c`, again a per-generator fact). -/
theorem gens_parse_serialize (d : Bytes) (l : List Pt) (h : gensParse (some d) = ⟨1, some l, 0⟩)
    (hrt : ∀ c g, c.length = 33 → Generator.parse c = some g → Generator.serialize g = c) :
    l.flatMap Generator.serialize = d := by
  obtain ⟨hlen, _, hall⟩ := gens_parse_ok d l h
  apply List.ext_getElem?
  intro j
  by_cases hj : j < d.length
  · -- byte j lies in chunk j / 33
    have hi : j / 33 < l.length := by omega
    obtain ⟨hin, hp, _, _⟩ := hall (j / 33) hi
    have hg : l[j / 33]? = some l[j / 33] := List.getElem?_eq_getElem hi
    rw [hg] at hp
    have hcl : (chunk33 d (j / 33)).length = 33 := by
      simp only [chunk33, List.length_take, List.length_drop]; omega
    have hser := hrt _ _ hcl hp
    -- split l around index j / 33
    have hsplit : l = l.take (j / 33) ++ l[j / 33] :: l.drop (j / 33 + 1) := by
      rw [List.getElem_cons_drop, List.take_append_drop]
    have hpre : ((l.take (j / 33)).flatMap Generator.serialize).length = 33 * (j / 33) := by
      rw [length_flatMap_serialize, List.length_take]; omega
    rw [hsplit]
    simp only [List.flatMap_append, List.flatMap_cons]
    rw [List.getElem?_append_right (by omega), hpre,
      List.getElem?_append_left (by rw [length_generator_serialize]; omega), hser]
    simp only [chunk33]
    rw [List.getElem?_take_of_lt (by omega), List.getElem?_drop]
    congr 1; omega
  · rw [List.getElem?_eq_none (by rw [length_flatMap_serialize]; omega), List.getElem?_eq_none (by omega)]

/-! ### two points in 65 bytes -/

/-- **`points_parse`: a sign byte above 3 is rejected** by `secp256k1_bppp_parse_one_of_points`, for
both point positions and whatever the 64 coordinate bytes are. -/
theorem points_parse (in65 : Bytes) (idx : Nat) (h : in65.headD 0 > 3) : parseOneOfPoints in65 idx = none := by
  simp only [parseOneOfPoints, if_pos h]

example : parseOneOfPoints (4 :: Bytes.be32 Pt.Gx ++ Bytes.be32 Pt.Gx) 0 = none :=
  points_parse _ _ (by decide)
example : parseOneOfPoints (3 :: Bytes.be32 Pt.Gx ++ Bytes.be32 Pt.Gx) 0 = some (Pt.neg Pt.G) := by
  decide +kernel

/-- An all-zero `x` (the infinity encoding) with its sign bit set is rejected. -/
theorem points_parse_inf_sign (in65 : Bytes) (idx : Nat)
    (hz : Bytes.isZero ((in65.drop (1 + 32 * idx)).take 32) = true)
    (hs : in65.headD 0 &&& (if idx = 0 then 2 else 1) ≠ 0) : parseOneOfPoints in65 idx = none := by
  unfold parseOneOfPoints
  simp only []
  split
  · rfl
  · simp [hz]

example : parseOneOfPoints (2 :: Bytes.zeros 64) 0 = none := by decide +kernel
example : parseOneOfPoints (2 :: Bytes.zeros 64) 1 = some .inf := by decide +kernel

end C19
end SecpZkp
