import SecpZkp.Gen.P_ecdsa
import SecpZkp.Model.Ecdsa
import SecpZkp.Proofs.AlgIRLemmas
import SecpZkp.Proofs.Algebra
import SecpZkp.Proofs.BytesBasic
import SecpZkp.Proofs.GroupLawProved
/-
  Property C01 (part "ir"): the REGENERATED protocol cores of ECDSA compute exactly the hand-written model.

  `Gen/P_ecdsa.lean` is produced by the translator (mode P) from clang's AST of `src/ecdsa_impl.h`
  (`secp256k1_ecdsa_sig_verify`, `secp256k1_ecdsa_sig_sign`) and `src/modules/recovery/main_impl.h`
  (`secp256k1_ecdsa_sig_recover`) as programs of `Model/AlgIR.lean`.  The hand-written functions
  `Ecdsa.sigVerify`, `Ecdsa.sigSign`, `Ecdsa.sigRecover` of `Model/Ecdsa.lean` are what all property theorems of
  `Props/C01.lean` are about.  Here: for EVERY initial state that binds the inputs, running the generated program
  yields the value of the model function (`sig_verify_eq`, `sig_sign_eq`, `sig_recover_eq`).

  The hypotheses are the ones the proofs need; they are weaker than the preconditions of the C functions:
  * verify: `r, s < n` (the C code and the model test `r = 0`, `s = 0` on reduced scalars).  Nothing about the
    message or the public key is needed (the C precondition "pubkey valid and not infinity" is not used: both sides
    compute the same point `u2·Q + u1·G` and compare its abscissa).
  * sign: `1 ≤ nonce < n` (then `nonce·G` is a finite point with canonical coordinates), and the state must not bind
    field variables named `r.x` / `r.y` (these names denote the coordinates of the point variable `r`).
  * recover: `r, s < n`; any `recid` (the C code only looks at bits 0 and 1).
-/
namespace SecpZkp
namespace C01ir
open MiniC AlgIR SecpZkp.Algebra

/-! ### The two file-scope constants -/

/-- `secp256k1_ecdsa_const_p_minus_order` is `p - n` -/
theorem p_minus_order_eq : 432420386565659656852420866390673177326 % P = P - N := by decide +kernel
/-- `secp256k1_ecdsa_const_order_as_fe` is `n` -/
theorem order_as_fe_eq :
    115792089237316195423570985008687907852837564279074904382605163141518161494337 % P = N := by decide +kernel

/-! ### Verification -/

/-- `sig_verify` on an explicit state -/
theorem verify_run (sc fe : List (String × Nat)) (pt : List (String × Pt)) (bs : List (String × Bytes)) (ints : Env)
    (r s m : Nat) (q : Pt) (hr : r < N) (hs : s < N)
    (h1 : lookup 0 sc "sigr" = r) (h2 : lookup 0 sc "sigs" = s) (h3 : lookup 0 sc "message" = m)
    (h4 : lookup Pt.inf pt "pubkey" = q) :
    (execL ⟨sc, fe, pt, bs, ints, false⟩ Gen.Pecdsa.sig_verify.body).ints.get "ret" 0 =
      if Ecdsa.sigVerify r s q m then 1 else 0 := by
  unfold Gen.Pecdsa.sig_verify
  have hrP : r < P := lt_trans hr N_lt_P
  alg_run [h1, h2, h3, h4, ints_ite, get_ite, FeIR.ite_one_zero_ne_zero, decide_eq_true_eq, feCmp_ge,
    p_minus_order_eq, order_as_fe_eq, Nat.mod_mod, Nat.mod_eq_of_lt hr, Nat.mod_eq_of_lt hs,
    toNat_be32 (lt_trans hr N_lt_pow), Nat.mod_eq_of_lt hrP]
  have e1 : ∀ a b, Sc.mul a b % N = Sc.mul a b := fun a b => Nat.mod_mod _ _
  have e2 : (P - N) % P = P - N := Nat.mod_eq_of_lt (Nat.sub_lt P_pos N_pos)
  simp only [e1, e2, Fe.add, Nat.mod_mod]
  simp only [Ecdsa.sigVerify]
  generalize Pt.add (Pt.mul (Sc.mul (Sc.inv s) r) q) (Pt.mulG (Sc.mul (Sc.inv s) m)) = R
  by_cases hr0 : r = 0
  · simp [hr0]
  by_cases hs0 : s = 0
  · simp [hs0]
  cases R with
  | inf => simp [hr0, hs0, Pt.isInf]
  | aff x y =>
    simp only [hr0, hs0, Pt.isInf, Pt.xOf, if_false, or_self, Bool.false_eq_true]
    by_cases hx : x = r
    · simp [hx]
    by_cases hge : P - N ≤ r
    · simp [hx, hge]
    have : (r + N) % P = r + N := Nat.mod_eq_of_lt (by omega)
    simp [hx, hge, this]

/-- **The generated `secp256k1_ecdsa_sig_verify` is `Ecdsa.sigVerify`.**  For every state that has not returned and
    binds the scalars `sigr`, `sigs` (both `< n`), `message` and the point `pubkey`: the program ends with
    `ret = 1` if the model accepts and `ret = 0` otherwise.  In particular the C code's comparison of the abscissa with
    `r` and — only when `r < p - n` — with `r + n` is the model's. -/
theorem sig_verify_eq (st : State) (hret : st.returned = false)
    (hr : st.scGet "sigr" < N) (hs : st.scGet "sigs" < N) :
    (execL st Gen.Pecdsa.sig_verify.body).ints.get "ret" 0 =
      if Ecdsa.sigVerify (st.scGet "sigr") (st.scGet "sigs") (st.ptGet "pubkey") (st.scGet "message") then 1 else 0 := by
  obtain ⟨sc, fe, pt, bs, ints, ret⟩ := st
  simp only at hret
  subst hret
  exact verify_run sc fe pt bs ints _ _ _ _ hr hs rfl rfl rfl rfl

/-- a valid signature (made with key 1, nonce 2 on message 3) for the examples -/
def exR : Nat := 89565891926547004231252920425935692360644145829622209833684329913297188986597
def exS : Nat := 44782945963273502115626460212967846180322072914811104916842164956648594493300

/-- the initial state of the examples for `sig_verify` -/
def exVerifySt : State := { sc := [("sigr", exR), ("sigs", exS), ("message", 3)], pt := [("pubkey", Pt.G)] }

/-- non-vacuity: the hypotheses of `sig_verify_eq` hold of `exVerifySt` (which also satisfies the C precondition:
    the key is a valid finite point), and the model accepts -/
example : exVerifySt.returned = false ∧ exVerifySt.scGet "sigr" < N ∧ exVerifySt.scGet "sigs" < N ∧
    (exVerifySt.ptGet "pubkey").valid = true ∧ exVerifySt.ptGet "pubkey" ≠ .inf ∧
    Ecdsa.sigVerify (exVerifySt.scGet "sigr") (exVerifySt.scGet "sigs") (exVerifySt.ptGet "pubkey")
      (exVerifySt.scGet "message") = true := by decide +kernel

/-- and the generated program, run by the kernel on that state, returns 1 -/
example : (execL exVerifySt Gen.Pecdsa.sig_verify.body).ints.get "ret" 0 = 1 := by decide +kernel

/-! ### Signing -/

theorem feGetL_rx (fe : List (String × Nat)) (pt : List (String × Pt)) (hfe : fe.find? (·.1 == "r.x") = none) :
    feGetL fe pt "r.x" = Pt.xOf (lookup Pt.inf pt "r") :=
  feGetL_coord_x fe pt "r.x" "r" hfe (by rw [endsWith_iff]; decide) (by decide)
theorem feGetL_ry (fe : List (String × Nat)) (pt : List (String × Pt)) (hfe : fe.find? (·.1 == "r.y") = none) :
    feGetL fe pt "r.y" = Pt.yOf (lookup Pt.inf pt "r") :=
  feGetL_coord_y fe pt "r.y" "r" hfe (by rw [endsWith_false_iff]; decide) (by rw [endsWith_iff]; decide) (by decide)

/-- `k·G` for `1 ≤ k < n` is a finite point with canonical coordinates -/
theorem mulG_coords {k : Nat} (h0 : k ≠ 0) (hk : k < N) : ∃ x y, Pt.mulG k = .aff x y ∧ x < P ∧ y < P := by
  have : HasGroupLaw := ⟨groupLaw⟩
  have : Fact (Nat.Prime P) := ⟨prime_P⟩
  obtain ⟨x, y, h⟩ := mulG_eq_aff (Nat.pos_of_ne_zero h0) hk
  have hv : (Pt.mulG k).valid = true := SecpZkp.valid_mul k valid_G
  rw [h] at hv
  simp only [Pt.valid, Pt.onCurveXY, Bool.and_eq_true, decide_eq_true_eq] at hv
  exact ⟨x, y, h, hv.1.1, hv.1.2⟩

/-- `(overflow << 1) | odd` of the C code is `overflow * 2 + odd` of the model -/
theorem recid_or (ov : Prop) [Decidable ov] (y : Nat) :
    ((if ov then 1 else 0) * 2 ^ 1 ||| y % 2 : Nat) =
      (if ov then 1 else 0) * 2 + if Fe.isOdd y = true then 1 else 0 := by
  unfold Fe.isOdd
  by_cases h : ov <;> rcases Nat.mod_two_eq_zero_or_one y with h2 | h2 <;> simp [h, h2]

/-- `sig_sign` on an explicit state -/
theorem sign_run (sc fe : List (String × Nat)) (pt : List (String × Pt)) (bs : List (String × Bytes)) (ints : Env)
    (sec m nonce : Nat)
    (hfx : fe.find? (·.1 == "r.x") = none) (hfy : fe.find? (·.1 == "r.y") = none)
    (h1 : lookup 0 sc "seckey" = sec) (h2 : lookup 0 sc "message" = m) (h3 : lookup 0 sc "nonce" = nonce)
    (hn0 : nonce ≠ 0) (hn : nonce < N) :
    (execL ⟨sc, fe, pt, bs, ints, false⟩ Gen.Pecdsa.sig_sign.body).ints.get "ret" 0 =
      (if (Ecdsa.sigSign sec m nonce).1 then 1 else 0) ∧
    (execL ⟨sc, fe, pt, bs, ints, false⟩ Gen.Pecdsa.sig_sign.body).scGet "sigr" = (Ecdsa.sigSign sec m nonce).2.1 ∧
    (execL ⟨sc, fe, pt, bs, ints, false⟩ Gen.Pecdsa.sig_sign.body).scGet "sigs" = (Ecdsa.sigSign sec m nonce).2.2.1 ∧
    (execL ⟨sc, fe, pt, bs, ints, false⟩ Gen.Pecdsa.sig_sign.body).ints.get "recid" 0 =
      (Ecdsa.sigSign sec m nonce).2.2.2 := by
  obtain ⟨x, y, hxy, hx, hy⟩ := mulG_coords hn0 hn
  have e1 : ∀ a b, Sc.mul a b % N = Sc.mul a b := fun a b => Nat.mod_mod _ _
  have e2 : ∀ a, Sc.neg a % N = Sc.neg a := fun a => Nat.mod_mod _ _
  unfold Gen.Pecdsa.sig_sign
  alg_run [h1, h2, h3, ints_ite, get_ite, scGet_ite, scGet_mk, FeIR.ite_one_zero_ne_zero, decide_eq_true_eq,
     Nat.mod_mod, Nat.mod_eq_of_lt hn, feGetL_rx _ _ hfx, feGetL_ry _ _ hfy, hxy, Pt.xOf, Pt.yOf,
     Nat.mod_eq_of_lt hx, Nat.mod_eq_of_lt hy, toNat_be32 (lt_trans hx P_lt_pow), e1, e2, flags_and,
     Ecdsa.sigSign]
  simp only [recid_or]
  generalize Sc.mul (Sc.inv nonce) (Sc.add (Sc.mul (x % N) sec) m) = s0
  by_cases hh : Sc.isHigh s0 = true
  · simp only [hh, if_true, ne_eq, and_self]
  · simp only [hh, if_false, ne_eq, Nat.xor_zero, and_self, Bool.false_eq_true]

/-- **The generated `secp256k1_ecdsa_sig_sign` is `Ecdsa.sigSign`.**  For every state that has not returned, binds
    the scalars `seckey`, `message`, `nonce` with `1 ≤ nonce < n`, and has no field variables named `r.x`, `r.y`:
    the outputs `ret`, `sigr`, `sigs`, `recid` of the program are the four components (ok as 0/1, r, s, recid) of the
    model function.  (The model's first case `nonce·G = ∞` does not occur for such a nonce.) -/
theorem sig_sign_eq (st : State) (hret : st.returned = false)
    (hfx : st.fe.find? (·.1 == "r.x") = none) (hfy : st.fe.find? (·.1 == "r.y") = none)
    (hn0 : st.scGet "nonce" ≠ 0) (hn : st.scGet "nonce" < N) :
    (execL st Gen.Pecdsa.sig_sign.body).ints.get "ret" 0 =
      (if (Ecdsa.sigSign (st.scGet "seckey") (st.scGet "message") (st.scGet "nonce")).1 then 1 else 0) ∧
    (execL st Gen.Pecdsa.sig_sign.body).scGet "sigr" =
      (Ecdsa.sigSign (st.scGet "seckey") (st.scGet "message") (st.scGet "nonce")).2.1 ∧
    (execL st Gen.Pecdsa.sig_sign.body).scGet "sigs" =
      (Ecdsa.sigSign (st.scGet "seckey") (st.scGet "message") (st.scGet "nonce")).2.2.1 ∧
    (execL st Gen.Pecdsa.sig_sign.body).ints.get "recid" 0 =
      (Ecdsa.sigSign (st.scGet "seckey") (st.scGet "message") (st.scGet "nonce")).2.2.2 := by
  obtain ⟨sc, fe, pt, bs, ints, ret⟩ := st
  simp only at hret
  subst hret
  exact sign_run sc fe pt bs ints _ _ _ hfx hfy rfl rfl rfl hn0 hn

/-- the initial state of the examples for `sig_sign`: key 1, message 3, nonce 2 -/
def exSignSt : State := { sc := [("seckey", 1), ("message", 3), ("nonce", 2)] }

/-- non-vacuity: the hypotheses of `sig_sign_eq` hold of `exSignSt`, and the model signs successfully -/
example : exSignSt.returned = false ∧ exSignSt.fe.find? (·.1 == "r.x") = none ∧
    exSignSt.fe.find? (·.1 == "r.y") = none ∧ exSignSt.scGet "nonce" ≠ 0 ∧ exSignSt.scGet "nonce" < N ∧
    Ecdsa.sigSign 1 3 2 = (true, exR, exS, 0) := by decide +kernel

/-- and the generated program, run by the kernel on that state, produces this signature -/
example : (execL exSignSt Gen.Pecdsa.sig_sign.body).ints.get "ret" 0 = 1 ∧
    (execL exSignSt Gen.Pecdsa.sig_sign.body).scGet "sigr" = exR ∧
    (execL exSignSt Gen.Pecdsa.sig_sign.body).scGet "sigs" = exS ∧
    (execL exSignSt Gen.Pecdsa.sig_sign.body).ints.get "recid" 0 = 0 := by decide +kernel

/-- The hypothesis about `r.x` is needed: `State.feGet` looks a name up among the field variables first, so a state
    that already binds a FIELD variable called `r.x` makes `feNorm "r.x"` read that value instead of the abscissa of
    the point `r` (an artefact of the name space of `AlgIR`, not of the C code, where `r.x` is a member of the local
    `r`).  With `r.x ↦ 0` the program returns 0 although the model signs. -/
example : (execL { exSignSt with fe := [("r.x", 0)] } Gen.Pecdsa.sig_sign.body).ints.get "ret" 0 = 0 ∧
    (Ecdsa.sigSign 1 3 2).1 = true := by decide +kernel

/-! ### Recovery -/

/-- `sig_recover` on an explicit state.  `fx` stands for `r + n` (see the note on reduction in
    `Proofs/AlgIRLemmas.lean`: with `r + N` itself in the statement the kernel does not finish). -/
theorem recover_run (sc fe : List (String × Nat)) (pt : List (String × Pt)) (bs : List (String × Bytes)) (ints : Env)
    (r s m recid : Nat) (hr : r < N) (hs : s < N)
    (h1 : lookup 0 sc "sigr" = r) (h2 : lookup 0 sc "sigs" = s) (h3 : lookup 0 sc "message" = m)
    (h4 : ints.get "recid" 0 = recid) (fx : Nat) (hfx : r + N = fx) :
    match Ecdsa.sigRecover r s m recid with
    | some q => (execL ⟨sc, fe, pt, bs, ints, false⟩ Gen.Pecdsa.sig_recover.body).ints.get "ret" 0 = 1 ∧
        (execL ⟨sc, fe, pt, bs, ints, false⟩ Gen.Pecdsa.sig_recover.body).ptGet "pubkey" = q
    | none => (execL ⟨sc, fe, pt, bs, ints, false⟩ Gen.Pecdsa.sig_recover.body).ints.get "ret" 0 = 0 := by
  unfold Gen.Pecdsa.sig_recover
  have hrP : r < P := lt_trans hr N_lt_P
  have e1 : ∀ a b, Sc.mul a b % N = Sc.mul a b := fun a b => Nat.mod_mod _ _
  have e2 : ∀ a, Sc.neg a % N = Sc.neg a := fun a => Nat.mod_mod _ _
  have e3 : (P - N) % P = P - N := Nat.mod_eq_of_lt (Nat.sub_lt P_pos N_pos)
  alg_run [h1, h2, h3, h4, ints_ite, get_ite, ptGet_ite, ptGet_mk, ints_optCase, get_optCase, ptGet_optCase,
    FeIR.ite_one_zero_ne_zero, decide_eq_true_eq, feCmp_ge,
    p_minus_order_eq, order_as_fe_eq, Nat.mod_mod, Nat.mod_eq_of_lt hr, Nat.mod_eq_of_lt hs,
    toNat_be32 (lt_trans hr N_lt_pow), Nat.mod_eq_of_lt hrP, e1, e2, e3]
  simp only [Ecdsa.sigRecover, and_one_ne_zero]
  rw [hfx]
  -- from here on the curve operations are opaque for the elaborator: no reduction can enter `Pt.liftX` & co.
  generalize Pt.liftX = lift
  generalize Pt.add = padd
  generalize Pt.mul = pmul
  generalize Pt.mulG = pmulG
  generalize Sc.inv r = rn
  generalize decide (recid &&& 1 = 1) = b
  generalize Sc.mul rn s = u2
  generalize Sc.neg (Sc.mul rn m) = u1
  by_cases hr0 : r = 0
  · simp only [hr0, true_or, if_true, one_ne_zero_eq]
  by_cases hs0 : s = 0
  · simp only [hs0, or_true, if_true, one_ne_zero_eq, ite_self]
  simp only [hr0, hs0, if_false, or_self, zero_ne_zero_eq]
  have tail : ∀ (o : Option Pt) (d : Pt),
      match (match o with
        | none => none
        | some x => match padd (pmul u2 x) (pmulG u1) with
          | .inf => none
          | q => some q) with
      | some q =>
        optCase o (fun q => if (if (padd (pmul u2 q) (pmulG u1)).isInf = true then 1 else 0) = 0 then 1 else 0) 0 = 1 ∧
        optCase o (fun q => padd (pmul u2 q) (pmulG u1)) d = q
      | none =>
        optCase o (fun q => if (if (padd (pmul u2 q) (pmulG u1)).isInf = true then 1 else 0) = 0 then 1 else 0) 0
          = 0 := by
    intro o d
    cases o with
    | none => simp only [optCase]
    | some x =>
      simp only [optCase]
      generalize padd (pmul u2 x) (pmulG u1) = R
      cases R with
      | inf => simp only [Pt.isInf, if_true, one_eq_zero_eq, if_false]
      | aff a b => simp only [Pt.isInf, Bool.false_eq_true, if_false, if_true, and_self]
  by_cases hb : recid &&& 2 = 0
  · simp only [hb, ne_eq, not_true_eq_false, if_false]
    exact tail _ _
  · by_cases hge : P - N ≤ r
    · simp only [hb, hge, ne_eq, not_false_eq_true, if_true]
    · have e4 : Fe.add r N % P = fx := by
        rw [← hfx]; unfold Fe.add; rw [Nat.mod_mod]
        exact Nat.mod_eq_of_lt (Nat.add_lt_of_lt_sub (Nat.lt_of_not_le hge))
      simp only [hb, hge, e4, ne_eq, not_false_eq_true, if_true, if_false]
      exact tail _ _

/-- **The generated `secp256k1_ecdsa_sig_recover` is `Ecdsa.sigRecover`.**  For every state that has not returned and
    binds the scalars `sigr`, `sigs` (both `< n`), `message` and the integer `recid`: if the model recovers a key `q`
    the program ends with `ret = 1` and the point variable `pubkey = q`; if the model fails, with `ret = 0`. -/
theorem sig_recover_eq (st : State) (hret : st.returned = false)
    (hr : st.scGet "sigr" < N) (hs : st.scGet "sigs" < N) :
    match Ecdsa.sigRecover (st.scGet "sigr") (st.scGet "sigs") (st.scGet "message") (st.ints.get "recid" 0) with
    | some q => (execL st Gen.Pecdsa.sig_recover.body).ints.get "ret" 0 = 1 ∧
        (execL st Gen.Pecdsa.sig_recover.body).ptGet "pubkey" = q
    | none => (execL st Gen.Pecdsa.sig_recover.body).ints.get "ret" 0 = 0 := by
  obtain ⟨sc, fe, pt, bs, ints, ret⟩ := st
  simp only at hret
  subst hret
  exact recover_run sc fe pt bs ints _ _ _ _ hr hs rfl rfl rfl rfl _ rfl

/-- `ret = 1` exactly when the model recovers the point left in `pubkey` -/
theorem sig_recover_ret_one_iff (st : State) (hret : st.returned = false)
    (hr : st.scGet "sigr" < N) (hs : st.scGet "sigs" < N) :
    (execL st Gen.Pecdsa.sig_recover.body).ints.get "ret" 0 = 1 ↔
      Ecdsa.sigRecover (st.scGet "sigr") (st.scGet "sigs") (st.scGet "message") (st.ints.get "recid" 0) =
        some ((execL st Gen.Pecdsa.sig_recover.body).ptGet "pubkey") := by
  have h := sig_recover_eq st hret hr hs
  generalize Ecdsa.sigRecover (st.scGet "sigr") (st.scGet "sigs") (st.scGet "message") (st.ints.get "recid" 0) = o at h ⊢
  cases o with
  | none =>
    have h0 : (execL st Gen.Pecdsa.sig_recover.body).ints.get "ret" 0 = 0 := h
    rw [h0]; exact ⟨fun h => absurd h (by decide), fun h => nomatch h⟩
  | some q =>
    have h1 : (execL st Gen.Pecdsa.sig_recover.body).ints.get "ret" 0 = 1 ∧
        (execL st Gen.Pecdsa.sig_recover.body).ptGet "pubkey" = q := h
    rw [h1.1, h1.2]; exact ⟨fun _ => rfl, fun _ => rfl⟩

/-- `ret = 0` exactly when the model fails -/
theorem sig_recover_ret_zero_iff (st : State) (hret : st.returned = false)
    (hr : st.scGet "sigr" < N) (hs : st.scGet "sigs" < N) :
    (execL st Gen.Pecdsa.sig_recover.body).ints.get "ret" 0 = 0 ↔
      Ecdsa.sigRecover (st.scGet "sigr") (st.scGet "sigs") (st.scGet "message") (st.ints.get "recid" 0) = none := by
  have h := sig_recover_eq st hret hr hs
  generalize Ecdsa.sigRecover (st.scGet "sigr") (st.scGet "sigs") (st.scGet "message") (st.ints.get "recid" 0) = o at h ⊢
  cases o with
  | none =>
    have h0 : (execL st Gen.Pecdsa.sig_recover.body).ints.get "ret" 0 = 0 := h
    exact ⟨fun _ => rfl, fun _ => h0⟩
  | some q =>
    have h1 : (execL st Gen.Pecdsa.sig_recover.body).ints.get "ret" 0 = 1 ∧
        (execL st Gen.Pecdsa.sig_recover.body).ptGet "pubkey" = q := h
    rw [h1.1]; exact ⟨fun h => absurd h (by decide), fun h => nomatch h⟩

/-- the initial state of the examples for `sig_recover`: the signature of the examples above, recid 0 -/
def exRecoverSt : State :=
  { sc := [("sigr", exR), ("sigs", exS), ("message", 3)], ints := [(("recid", 0), 0)] }

/-- non-vacuity: the hypotheses of `sig_recover_eq` hold of `exRecoverSt` (also `recid ≤ 3`), and the model recovers
    the public key `1·G` -/
example : exRecoverSt.returned = false ∧ exRecoverSt.scGet "sigr" < N ∧ exRecoverSt.scGet "sigs" < N ∧
    exRecoverSt.ints.get "recid" 0 ≤ 3 ∧
    Ecdsa.sigRecover (exRecoverSt.scGet "sigr") (exRecoverSt.scGet "sigs") (exRecoverSt.scGet "message")
      (exRecoverSt.ints.get "recid" 0) = some Pt.G := by decide +kernel

/-- and the generated program, run by the kernel on that state, returns 1 and the same point -/
example : (execL exRecoverSt Gen.Pecdsa.sig_recover.body).ints.get "ret" 0 = 1 ∧
    (execL exRecoverSt Gen.Pecdsa.sig_recover.body).ptGet "pubkey" = Pt.G := by decide +kernel

/-- a failing case (`r = 0`): the model gives `none`, the program `ret = 0` -/
example : Ecdsa.sigRecover 0 exS 3 0 = none ∧
    (execL { exRecoverSt with sc := [("sigr", 0), ("sigs", exS), ("message", 3)] }
      Gen.Pecdsa.sig_recover.body).ints.get "ret" 0 = 0 := by decide +kernel

end C01ir
end SecpZkp
