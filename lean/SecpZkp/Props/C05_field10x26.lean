import SecpZkp.Proofs.FieldKernel10x26
import SecpZkp.Gen.K_field10x26
/-
  C05 (field part, 32-bit configuration): the 10×26-limb field multiplication and squaring of the C library
  are exact for ALL limb values within the input contract that the C functions VERIFY-check.

  Object of the theorems: `Gen.field10x26.fe_mul_inner` / `fe_sqr_inner`, the MiniC IR that
  `tools/c2lean_k.py` regenerates on every run from `secp256k1_fe_mul_inner` / `secp256k1_fe_sqr_inner`
  (src/field_10x26_impl.h: `uint32_t` limbs `r[10]`, `a[10]`, `b[10]`, 64-bit accumulators `c`, `d`).
  Nothing in this file re-types the algorithm: the proofs EVALUATE the generated term.

  Contract (the `VERIFY_BITS` lines of the C source)
  * input : `a[0..8], b[0..8] < 2^30`, `a[9], b[9] < 2^26`                      (`mulB`, `sqrB`)
  * output: `r[0], r[1], r[3..8] < 2^26`, `r[2] < 2^27`, `r[9] < 2^22`          (`outB`)
    (`r[2]` is one bit wider than the other limbs: the C code ends with `d += t2; VERIFY_BITS(d, 27); r[2] = d`.)
  Value of a limb vector: `val10 x = Σ x_i 2^(26 i)`.

  Route (the same for both functions; cf. `Props/C05_field.lean` for the 5×52 layout)
  1. `*_no_wrap_out` (`decide +kernel`): the verified interval analysis `Bounds.checkL` accepts the program under
     the input bounds — so no 64-bit accumulation (ten products of 30-bit limbs: up to `2^63 + 2^57`; `c` goes up
     to `0x9000016FBFFFC2F8` in the C comments), no 32-bit doubling `a[i]*2`, no shift wraps for ANY admissible
     input — and it derives the output bounds, and `d < 2^27` for the final scalar `d`.  By `Bounds.checkL_sound`
     the C semantics `execL` (wrap-around at every node) coincides with the ideal semantics `execLI`.
  2. `*_ideal`: symbolic execution of `execLI` on the literal program for an arbitrary memory (`minic_eval26`)
     gives explicit expressions for `r[0..9]` in the input limbs with `/ 2^26`, `% 2^26`, `/ 2^22`, `% 2^22`;
     masks are turned into `%` (`limb_arith26`), the 100 (55) limb products become atoms, the final `uint32_t`
     conversion `r[2] = d` is void because `d < 2^27` (from step 1), and `omega` proves
     `val10 r ≡ val10 a * val10 b (mod p)`: with every `x % k` expressed through `x / k` the carry chain is an
     identity between linear forms whose difference has all coefficients divisible by p
     (`2^260 - (R1·2^26 + R0) = 2^260 - 0x1000003D10 = 16 p`, `2^256 - 0x1000003D1 = p`).
  3. `*_correct`: 1 + 2.

  A change of the C code that breaks the arithmetic makes step 1 fail (an accumulator may overflow, or an output
  bound is violated) or step 2's final `omega` fail (a wrong coefficient, a missing doubling, a wrong shift: the
  linear forms no longer differ by a multiple of p).  Renaming temporaries changes nothing.
-/

namespace SecpZkp
namespace C05x26
open MiniC MiniC.Bounds FieldKernel10x26
open FieldKernel (checkOut checkOut_sound checkOut_isSome respects_of_all checkRun checkRun_sound mul_two_mul mul_mul_two)

/-! ### multiplication -/

/-- **No arithmetic node of the 10×26 `secp256k1_fe_mul_inner` wraps** for inputs within the contract
    (`a[0..8], b[0..8] ≤ 2^30-1`, `a[9], b[9] ≤ 2^26-1`), and the interval analysis derives the output contract
    `r[0], r[1], r[3..8] ≤ 2^26-1`, `r[2] ≤ 2^27-1`, `r[9] ≤ 2^22-1` (and `d ≤ 2^27-1` at the end).
    (Kernel evaluation of the verified interval analysis on the regenerated IR.) -/
theorem fe_mul_inner_no_wrap_out :
    checkOut mulB Gen.field10x26.fe_mul_inner.body outB = true := by decide +kernel

/-- the interval analysis accepts the 10×26 `secp256k1_fe_mul_inner` under `mulB` -/
theorem fe_mul_inner_no_wrap : (checkL mulB Gen.field10x26.fe_mul_inner.body).isSome = true :=
  checkOut_isSome fe_mul_inner_no_wrap_out

set_option maxRecDepth 100000 in
set_option maxHeartbeats 4000000 in
/-- Over unbounded naturals (`execLI`), the limbs computed by the 10×26 `secp256k1_fe_mul_inner` represent
    `a * b` modulo `p`, provided the final value of the scalar `d` is below `2^27` (so that the `uint32_t`
    conversion in `r[2] = d` is void; the interval analysis guarantees this within the input contract).
    No other bound is needed: over unbounded naturals the carry chain is exact for all limb values. -/
theorem fe_mul_inner_ideal (env : Env) (a0 a1 a2 a3 a4 a5 a6 a7 a8 a9 b0 b1 b2 b3 b4 b5 b6 b7 b8 b9 : Nat)
    (h0 : env.get "a" 0 = a0) (h1 : env.get "a" 1 = a1) (h2 : env.get "a" 2 = a2) (h3 : env.get "a" 3 = a3)
    (h4 : env.get "a" 4 = a4) (h5 : env.get "a" 5 = a5) (h6 : env.get "a" 6 = a6) (h7 : env.get "a" 7 = a7)
    (h8 : env.get "a" 8 = a8) (h9 : env.get "a" 9 = a9)
    (g0 : env.get "b" 0 = b0) (g1 : env.get "b" 1 = b1) (g2 : env.get "b" 2 = b2) (g3 : env.get "b" 3 = b3)
    (g4 : env.get "b" 4 = b4) (g5 : env.get "b" 5 = b5) (g6 : env.get "b" 6 = b6) (g7 : env.get "b" 7 = b7)
    (g8 : env.get "b" 8 = b8) (g9 : env.get "b" 9 = b9)
    (hd : (execLI env Gen.field10x26.fe_mul_inner.body).1.get "d" 0 ≤ 2 ^ 27 - 1) :
    val10 ((execLI env Gen.field10x26.fe_mul_inner.body).1.get "r" 0)
          ((execLI env Gen.field10x26.fe_mul_inner.body).1.get "r" 1)
          ((execLI env Gen.field10x26.fe_mul_inner.body).1.get "r" 2)
          ((execLI env Gen.field10x26.fe_mul_inner.body).1.get "r" 3)
          ((execLI env Gen.field10x26.fe_mul_inner.body).1.get "r" 4)
          ((execLI env Gen.field10x26.fe_mul_inner.body).1.get "r" 5)
          ((execLI env Gen.field10x26.fe_mul_inner.body).1.get "r" 6)
          ((execLI env Gen.field10x26.fe_mul_inner.body).1.get "r" 7)
          ((execLI env Gen.field10x26.fe_mul_inner.body).1.get "r" 8)
          ((execLI env Gen.field10x26.fe_mul_inner.body).1.get "r" 9) % P =
      (val10 a0 a1 a2 a3 a4 a5 a6 a7 a8 a9 * val10 b0 b1 b2 b3 b4 b5 b6 b7 b8 b9) % P := by
  rw [val10_mul]
  simp only [Gen.field10x26.fe_mul_inner, val10] at hd ⊢
  minic_eval26 at hd ⊢
  simp only [h0, h1, h2, h3, h4, h5, h6, h7, h8, h9, g0, g1, g2, g3, g4, g5, g6, g7, g8, g9] at hd ⊢
  clear h0 h1 h2 h3 h4 h5 h6 h7 h8 h9 g0 g1 g2 g3 g4 g5 g6 g7 g8 g9 env
  limb_arith26 at hd ⊢
  -- `r[2] = (uint32_t)d` with `d < 2^27`
  rw [Nat.mod_eq_of_lt (Nat.lt_of_le_of_lt hd (by decide : 134217727 < 4294967296))]
  clear hd
  simp only [P]
  omega

/-- Post-condition of the 10×26 `secp256k1_fe_mul_inner(r, a, b)` on the initial memory `env` and the final
    memory `out`: the ten output limbs represent `a * b` modulo `p` (limb vectors read as `Σ x_i 2^(26 i)`), and
    they satisfy the output contract `r[0], r[1], r[3..8] < 2^26`, `r[2] < 2^27`, `r[9] < 2^22`. -/
def MulPost (env out : Env) : Prop :=
  val10 (out.get "r" 0) (out.get "r" 1) (out.get "r" 2) (out.get "r" 3) (out.get "r" 4)
        (out.get "r" 5) (out.get "r" 6) (out.get "r" 7) (out.get "r" 8) (out.get "r" 9) % P =
    (val10 (env.get "a" 0) (env.get "a" 1) (env.get "a" 2) (env.get "a" 3) (env.get "a" 4)
           (env.get "a" 5) (env.get "a" 6) (env.get "a" 7) (env.get "a" 8) (env.get "a" 9) *
     val10 (env.get "b" 0) (env.get "b" 1) (env.get "b" 2) (env.get "b" 3) (env.get "b" 4)
           (env.get "b" 5) (env.get "b" 6) (env.get "b" 7) (env.get "b" 8) (env.get "b" 9)) % P ∧
  out.get "r" 0 < 2 ^ 26 ∧ out.get "r" 1 < 2 ^ 26 ∧ out.get "r" 2 < 2 ^ 27 ∧ out.get "r" 3 < 2 ^ 26 ∧
  out.get "r" 4 < 2 ^ 26 ∧ out.get "r" 5 < 2 ^ 26 ∧ out.get "r" 6 < 2 ^ 26 ∧ out.get "r" 7 < 2 ^ 26 ∧
  out.get "r" 8 < 2 ^ 26 ∧ out.get "r" 9 < 2 ^ 22

instance (env out : Env) : Decidable (MulPost env out) := inferInstanceAs (Decidable (_ ∧ _))

/-- **The 10×26 `secp256k1_fe_mul_inner` is exact.**  For EVERY memory whose cells `a[0..9]`, `b[0..9]` respect
    the input contract (`a[i], b[i] ≤ 2^30-1` for `i < 9`, `a[9], b[9] ≤ 2^26-1`), running the translated C
    function with C's wrap-around semantics (`execL`: every `+`, `*`, `<<` truncated at its width, every
    conversion to `uint32_t` applied) leaves in `r[0..9]` limbs that represent `a * b mod p` and satisfy
    `r[0], r[1], r[3..8] < 2^26`, `r[2] < 2^27`, `r[9] < 2^22`. -/
theorem fe_mul_inner_correct (env : Env) (hr : Respects env mulB) :
    MulPost env (execL env Gen.field10x26.fe_mul_inner.body).env := by
  obtain ⟨heq, hb⟩ := checkOut_sound hr fe_mul_inner_no_wrap_out
  have b0 := hb (("r", 0), 2 ^ 26 - 1) (by simp [outB])
  have b1 := hb (("r", 1), 2 ^ 26 - 1) (by simp [outB])
  have b2 := hb (("r", 2), 2 ^ 27 - 1) (by simp [outB])
  have b3 := hb (("r", 3), 2 ^ 26 - 1) (by simp [outB])
  have b4 := hb (("r", 4), 2 ^ 26 - 1) (by simp [outB])
  have b5 := hb (("r", 5), 2 ^ 26 - 1) (by simp [outB])
  have b6 := hb (("r", 6), 2 ^ 26 - 1) (by simp [outB])
  have b7 := hb (("r", 7), 2 ^ 26 - 1) (by simp [outB])
  have b8 := hb (("r", 8), 2 ^ 26 - 1) (by simp [outB])
  have b9 := hb (("r", 9), 2 ^ 22 - 1) (by simp [outB])
  have bd := hb (("d", 0), 2 ^ 27 - 1) (by simp [outB])
  simp only at b0 b1 b2 b3 b4 b5 b6 b7 b8 b9 bd
  refine ⟨?_, by omega, by omega, by omega, by omega, by omega, by omega, by omega, by omega, by omega, by omega⟩
  rw [heq] at bd ⊢
  exact fe_mul_inner_ideal env _ _ _ _ _ _ _ _ _ _ _ _ _ _ _ _ _ _ _ _
    rfl rfl rfl rfl rfl rfl rfl rfl rfl rfl rfl rfl rfl rfl rfl rfl rfl rfl rfl rfl bd

/-- all-ones limbs at the top of the admissible range: `2^30-1` (limbs 0..8), `2^26-1` (limb 9) -/
def onesEnv : Env :=
  [(("a", 0), 2 ^ 30 - 1), (("a", 1), 2 ^ 30 - 1), (("a", 2), 2 ^ 30 - 1), (("a", 3), 2 ^ 30 - 1), (("a", 4), 2 ^ 30 - 1),
   (("a", 5), 2 ^ 30 - 1), (("a", 6), 2 ^ 30 - 1), (("a", 7), 2 ^ 30 - 1), (("a", 8), 2 ^ 30 - 1), (("a", 9), 2 ^ 26 - 1),
   (("b", 0), 2 ^ 30 - 1), (("b", 1), 2 ^ 30 - 1), (("b", 2), 2 ^ 30 - 1), (("b", 3), 2 ^ 30 - 1), (("b", 4), 2 ^ 30 - 1),
   (("b", 5), 2 ^ 30 - 1), (("b", 6), 2 ^ 30 - 1), (("b", 7), 2 ^ 30 - 1), (("b", 8), 2 ^ 30 - 1), (("b", 9), 2 ^ 26 - 1)]

/-- Non-vacuity: the all-ones memory satisfies the hypothesis of `fe_mul_inner_correct`, and the
    conclusion, evaluated on it by running the wrap-around interpreter in the kernel, holds. -/
example : Respects onesEnv mulB ∧ MulPost onesEnv (execL onesEnv Gen.field10x26.fe_mul_inner.body).env :=
  ⟨respects_of_all (by decide +kernel),
   of_decide_eq_true (checkRun_sound (post := fun out => decide (MulPost onesEnv out)) (by decide +kernel))⟩

/-- a memory with irregular limbs within the contract for which `r[2]` comes out ABOVE `2^26` -/
def wideEnv : Env :=
  [(("a", 0), 779189894), (("a", 1), 185501983), (("a", 2), 332784465), (("a", 3), 549752297), (("a", 4), 942286676),
   (("a", 5), 283497843), (("a", 6), 220488405), (("a", 7), 106178769), (("a", 8), 1069290948), (("a", 9), 58891748),
   (("b", 0), 560297412), (("b", 1), 488472101), (("b", 2), 654837902), (("b", 3), 608366106), (("b", 4), 706118319),
   (("b", 5), 933049787), (("b", 6), 229638454), (("b", 7), 1571960), (("b", 8), 12939304), (("b", 9), 54856485)]

/-- The bound `r[2] < 2^27` of the contract cannot be replaced by `r[2] < 2^26`: on `wideEnv` (which respects
    the input contract, and on which the post-condition holds) the C function leaves `r[2] = 67800442 ≥ 2^26`.
    This is why the C source checks `VERIFY_BITS(r[2], 27)` and not `VERIFY_BITS(r[2], 26)`. -/
example : Respects wideEnv mulB ∧ MulPost wideEnv (execL wideEnv Gen.field10x26.fe_mul_inner.body).env ∧
    2 ^ 26 ≤ (execL wideEnv Gen.field10x26.fe_mul_inner.body).env.get "r" 2 :=
  ⟨respects_of_all (by decide +kernel),
   of_decide_eq_true (checkRun_sound
     (post := fun out => decide (MulPost wideEnv out ∧ 2 ^ 26 ≤ out.get "r" 2)) (by decide +kernel))⟩

/-! ### squaring -/

/-- **No arithmetic node of the 10×26 `secp256k1_fe_sqr_inner` wraps** for inputs within the contract
    (including the 32-bit doublings `a[i]*2` of 30-bit limbs), and the interval analysis derives the output
    contract. -/
theorem fe_sqr_inner_no_wrap_out :
    checkOut sqrB Gen.field10x26.fe_sqr_inner.body outB = true := by decide +kernel

/-- the interval analysis accepts the 10×26 `secp256k1_fe_sqr_inner` under `sqrB` -/
theorem fe_sqr_inner_no_wrap : (checkL sqrB Gen.field10x26.fe_sqr_inner.body).isSome = true :=
  checkOut_isSome fe_sqr_inner_no_wrap_out

set_option maxRecDepth 100000 in
set_option maxHeartbeats 4000000 in
/-- Over unbounded naturals (`execLI`), the limbs computed by the 10×26 `secp256k1_fe_sqr_inner` represent
    `a^2` modulo `p`, provided the final value of the scalar `d` is below `2^27`. -/
theorem fe_sqr_inner_ideal (env : Env) (a0 a1 a2 a3 a4 a5 a6 a7 a8 a9 : Nat)
    (h0 : env.get "a" 0 = a0) (h1 : env.get "a" 1 = a1) (h2 : env.get "a" 2 = a2) (h3 : env.get "a" 3 = a3)
    (h4 : env.get "a" 4 = a4) (h5 : env.get "a" 5 = a5) (h6 : env.get "a" 6 = a6) (h7 : env.get "a" 7 = a7)
    (h8 : env.get "a" 8 = a8) (h9 : env.get "a" 9 = a9)
    (hd : (execLI env Gen.field10x26.fe_sqr_inner.body).1.get "d" 0 ≤ 2 ^ 27 - 1) :
    val10 ((execLI env Gen.field10x26.fe_sqr_inner.body).1.get "r" 0)
          ((execLI env Gen.field10x26.fe_sqr_inner.body).1.get "r" 1)
          ((execLI env Gen.field10x26.fe_sqr_inner.body).1.get "r" 2)
          ((execLI env Gen.field10x26.fe_sqr_inner.body).1.get "r" 3)
          ((execLI env Gen.field10x26.fe_sqr_inner.body).1.get "r" 4)
          ((execLI env Gen.field10x26.fe_sqr_inner.body).1.get "r" 5)
          ((execLI env Gen.field10x26.fe_sqr_inner.body).1.get "r" 6)
          ((execLI env Gen.field10x26.fe_sqr_inner.body).1.get "r" 7)
          ((execLI env Gen.field10x26.fe_sqr_inner.body).1.get "r" 8)
          ((execLI env Gen.field10x26.fe_sqr_inner.body).1.get "r" 9) % P =
      (val10 a0 a1 a2 a3 a4 a5 a6 a7 a8 a9 ^ 2) % P := by
  rw [val10_sq]
  simp only [Gen.field10x26.fe_sqr_inner, val10] at hd ⊢
  minic_eval26 at hd ⊢
  simp only [h0, h1, h2, h3, h4, h5, h6, h7, h8, h9] at hd ⊢
  clear h0 h1 h2 h3 h4 h5 h6 h7 h8 h9 env
  limb_arith26 at hd ⊢
  -- products in the normal form `2 * (a_i * a_j)`, `i ≤ j` (the C code doubles one factor first)
  set_option linter.unusedSimpArgs false in
  simp only [mul_two_mul, mul_mul_two,
    Nat.mul_comm a1 a0, Nat.mul_comm a2 a0, Nat.mul_comm a3 a0, Nat.mul_comm a4 a0, Nat.mul_comm a5 a0,
    Nat.mul_comm a6 a0, Nat.mul_comm a7 a0, Nat.mul_comm a8 a0, Nat.mul_comm a9 a0,
    Nat.mul_comm a2 a1, Nat.mul_comm a3 a1, Nat.mul_comm a4 a1, Nat.mul_comm a5 a1, Nat.mul_comm a6 a1,
    Nat.mul_comm a7 a1, Nat.mul_comm a8 a1, Nat.mul_comm a9 a1,
    Nat.mul_comm a3 a2, Nat.mul_comm a4 a2, Nat.mul_comm a5 a2, Nat.mul_comm a6 a2, Nat.mul_comm a7 a2,
    Nat.mul_comm a8 a2, Nat.mul_comm a9 a2,
    Nat.mul_comm a4 a3, Nat.mul_comm a5 a3, Nat.mul_comm a6 a3, Nat.mul_comm a7 a3, Nat.mul_comm a8 a3,
    Nat.mul_comm a9 a3,
    Nat.mul_comm a5 a4, Nat.mul_comm a6 a4, Nat.mul_comm a7 a4, Nat.mul_comm a8 a4, Nat.mul_comm a9 a4,
    Nat.mul_comm a6 a5, Nat.mul_comm a7 a5, Nat.mul_comm a8 a5, Nat.mul_comm a9 a5,
    Nat.mul_comm a7 a6, Nat.mul_comm a8 a6, Nat.mul_comm a9 a6,
    Nat.mul_comm a8 a7, Nat.mul_comm a9 a7,
    Nat.mul_comm a9 a8] at hd ⊢
  -- `r[2] = (uint32_t)d` with `d < 2^27`
  rw [Nat.mod_eq_of_lt (Nat.lt_of_le_of_lt hd (by decide : 134217727 < 4294967296))]
  clear hd
  simp only [P]
  omega

/-- Post-condition of the 10×26 `secp256k1_fe_sqr_inner(r, a)`: the output limbs represent `a^2` modulo `p` and
    satisfy the output contract `r[0], r[1], r[3..8] < 2^26`, `r[2] < 2^27`, `r[9] < 2^22`. -/
def SqrPost (env out : Env) : Prop :=
  val10 (out.get "r" 0) (out.get "r" 1) (out.get "r" 2) (out.get "r" 3) (out.get "r" 4)
        (out.get "r" 5) (out.get "r" 6) (out.get "r" 7) (out.get "r" 8) (out.get "r" 9) % P =
    (val10 (env.get "a" 0) (env.get "a" 1) (env.get "a" 2) (env.get "a" 3) (env.get "a" 4)
           (env.get "a" 5) (env.get "a" 6) (env.get "a" 7) (env.get "a" 8) (env.get "a" 9) ^ 2) % P ∧
  out.get "r" 0 < 2 ^ 26 ∧ out.get "r" 1 < 2 ^ 26 ∧ out.get "r" 2 < 2 ^ 27 ∧ out.get "r" 3 < 2 ^ 26 ∧
  out.get "r" 4 < 2 ^ 26 ∧ out.get "r" 5 < 2 ^ 26 ∧ out.get "r" 6 < 2 ^ 26 ∧ out.get "r" 7 < 2 ^ 26 ∧
  out.get "r" 8 < 2 ^ 26 ∧ out.get "r" 9 < 2 ^ 22

instance (env out : Env) : Decidable (SqrPost env out) := inferInstanceAs (Decidable (_ ∧ _))

/-- **The 10×26 `secp256k1_fe_sqr_inner` is exact.**  For EVERY memory whose cells `a[0..9]` respect the input
    contract (`a[i] ≤ 2^30-1` for `i < 9`, `a[9] ≤ 2^26-1`), running the translated C function with C's
    wrap-around semantics leaves in `r[0..9]` limbs that represent `a^2 mod p` and satisfy
    `r[0], r[1], r[3..8] < 2^26`, `r[2] < 2^27`, `r[9] < 2^22`. -/
theorem fe_sqr_inner_correct (env : Env) (hr : Respects env sqrB) :
    SqrPost env (execL env Gen.field10x26.fe_sqr_inner.body).env := by
  obtain ⟨heq, hb⟩ := checkOut_sound hr fe_sqr_inner_no_wrap_out
  have b0 := hb (("r", 0), 2 ^ 26 - 1) (by simp [outB])
  have b1 := hb (("r", 1), 2 ^ 26 - 1) (by simp [outB])
  have b2 := hb (("r", 2), 2 ^ 27 - 1) (by simp [outB])
  have b3 := hb (("r", 3), 2 ^ 26 - 1) (by simp [outB])
  have b4 := hb (("r", 4), 2 ^ 26 - 1) (by simp [outB])
  have b5 := hb (("r", 5), 2 ^ 26 - 1) (by simp [outB])
  have b6 := hb (("r", 6), 2 ^ 26 - 1) (by simp [outB])
  have b7 := hb (("r", 7), 2 ^ 26 - 1) (by simp [outB])
  have b8 := hb (("r", 8), 2 ^ 26 - 1) (by simp [outB])
  have b9 := hb (("r", 9), 2 ^ 22 - 1) (by simp [outB])
  have bd := hb (("d", 0), 2 ^ 27 - 1) (by simp [outB])
  simp only at b0 b1 b2 b3 b4 b5 b6 b7 b8 b9 bd
  refine ⟨?_, by omega, by omega, by omega, by omega, by omega, by omega, by omega, by omega, by omega, by omega⟩
  rw [heq] at bd ⊢
  exact fe_sqr_inner_ideal env _ _ _ _ _ _ _ _ _ _ rfl rfl rfl rfl rfl rfl rfl rfl rfl rfl bd

/-- Non-vacuity for squaring, on the all-ones operand `a` of `onesEnv`. -/
example : Respects onesEnv sqrB ∧ SqrPost onesEnv (execL onesEnv Gen.field10x26.fe_sqr_inner.body).env :=
  ⟨respects_of_all (by decide +kernel),
   of_decide_eq_true (checkRun_sound (post := fun out => decide (SqrPost onesEnv out)) (by decide +kernel))⟩

end C05x26
end SecpZkp
