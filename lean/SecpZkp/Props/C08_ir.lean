import SecpZkp.Proofs.SvdwIR
/-
  C08 (IR level): the hand-written model `Generator.svdw` (`Model/Generator.lean`) of `shallue_van_de_woestijne`
  (src/modules/generator/main_impl.h, the map behind `secp256k1_generator_generate`) is a faithful transcription of the C
  code.

  `Gen/F_generator.lean` is REGENERATED from the C source by the translator (mode F): a program over field VALUES with
  the magnitude contract of src/field.h (`FeIR.execL`; `none` = a field primitive is called outside its documented
  magnitude).  Theorem `svdw_eq`: for EVERY state with `t` of magnitude ≤ 1, running the generated body (more than 1600 statements,
  three inlined `secp256k1_fe_sqrt`) succeeds and leaves in `ge` exactly the point `Generator.svdw t` — for all `t`,
  including `t = 0` (joint denominator 0, `secp256k1_fe_inv(0) = 0`).

  Reading guide (see also `Props/C18_ir.lean`).
  * `st.returned = false`: the function is entered normally.  All other variables of the state are arbitrary.
  * Hypothesis on `t`: magnitude ≤ 1.  This is the WEAKEST hypothesis under which every magnitude precondition holds:
    the last line of the function calls `secp256k1_fe_is_odd(t)`, whose contract (src/field.h) is "normalized", i.e.
    magnitude ≤ 1; everything else (`fe_sqr(&wd, t)`) would accept magnitude 8.  Both callers pass the output of
    `secp256k1_fe_set_b32_limit` (normalized).  `svdw_mag_needed` shows that magnitude 2 is rejected.
  * The VALUE held by `t` is an arbitrary natural number in this IR; a normalized C field element is `< P`.  The code
    depends on the value only through `t mod P` (`fe_is_odd` looks at the normalized representation), the model
    `Generator.svdw` takes the parity of its argument AS GIVEN.  Hence `svdw_eq` is stated for `Generator.svdw (t % P)`
    (all values), `svdw_eq_of_lt` for `Generator.svdw t` when `t < P` (what the callers pass: `generateInternal` applies
    `svdw` to `t % P`), and `svdw_unreduced` records that on the unreduced representative `P + 1` of 1 the model function
    gives the OTHER sign than the code (no finding about the library: the model is never applied to such a value).
  * Output: `RepA st' "ge" p 4 2` (`Proofs/GroupIR.lean`): `ge.infinity = 0`, `ge.x`, `ge.y` hold the coordinates of `p`
    modulo `P`, with magnitudes at most 4 and 2 (`x2` has magnitude 4, the negated `y` magnitude 2).

  Method (as `Props/C18_ir_sqrt.lean`): the generated body is shown (by `rfl`, i.e. by the kernel) to be the explicit text
  `svPre ++ svPost S1 S2 S3` with the three `fe_sqrt` bodies as parameters; the theorem is proved for ARBITRARY `S1 S2 S3`
  satisfying the contract `SqrtSpec`, and the contract is discharged for the generated bodies by `sqrt_fn` of
  `Proofs/SqrtIR.lean` (the exponent checker accepting the three addition chains is evaluated by the kernel).
-/
namespace SecpZkp.C08ir
open SecpZkp SecpZkp.FeIR SecpZkp.MiniC

-- the field operations are never unfolded below (see `Props/C18_ir.lean`)
attribute [local irreducible] Fe.add Fe.mul Fe.sqr Fe.neg Fe.inv Fe.isSquare Fe.half Fe.sqrtCand FeIR.canon

/-! ## 1. The program text -/

/-- the first part of `shallue_van_de_woestijne`: the three candidate abscissas and their right-hand sides -/
def svPre : List FeIR.Stmt := [
    .const "g.negc" 111189151296659785738170805967605665488771904429376448443557023963485213164509,
    .const "g.d" 60197513588986302554485582024885075108884032450952339817679072026166228089408,
    .sqr "wd" "t",
    .mul "x1" "g.negc" "wd",
    .set "x3d" "wd",
    .mulInt "x3d" 3,
    .neg "x3d" "x3d" 3,
    .addInt "wd" 8,
    .mul "jinv" "wd" "x3d",
    .inv "jinv" "jinv",
    .mul "x1" "x1" "x3d",
    .mul "x1" "x1" "jinv",
    .add "x1" "g.d",
    .set "x2" "x1",
    .addInt "x2" 1,
    .neg "x2" "x2" 3,
    .sqr "x3" "wd",
    .mul "x3" "x3" "wd",
    .mul "x3" "x3" "jinv",
    .addInt "x3" 1,
    .sqr "alphain" "x1",
    .mul "alphain" "alphain" "x1",
    .addInt "alphain" 7,
    .sqr "betain" "x2",
    .mul "betain" "betain" "x2",
    .addInt "betain" 7,
    .sqr "gammain" "x3",
    .mul "gammain" "gammain" "x3",
    .addInt "gammain" 7
  ]

/-- the second part: `alphaquad = fe_sqrt(&y1, &alphain)`, `betaquad = fe_sqrt(&y2, &betain)`, `fe_sqrt(&y3, &gammain)`
    (the three inlined bodies are parameters), the constant-time selection, `ge_set_xy`, and the sign choice -/
def svPost (S1 S2 S3 : List FeIR.Stmt) : List FeIR.Stmt := [
    .scope S1,
    .int "alphaquad" (.var "fe_sqrt_1.ret"),
    .scope S2,
    .int "betaquad" (.var "fe_sqrt_10.ret"),
    .scope S3,
    .cmov "x1" "x2" (.bin .and 32 (.lnot (.var "alphaquad")) (.var "betaquad")),
    .cmov "y1" "y2" (.bin .and 32 (.lnot (.var "alphaquad")) (.var "betaquad")),
    .cmov "x1" "x3" (.bin .and 32 (.lnot (.var "alphaquad")) (.lnot (.var "betaquad"))),
    .cmov "y1" "y3" (.bin .and 32 (.lnot (.var "alphaquad")) (.lnot (.var "betaquad"))),
    .scope [
      .int "ge.infinity" (.lit 0),
      .set "ge.x" "x1",
      .set "ge.y" "y1"
    ],
    .neg "tmp" "ge.y" 1,
    .isOdd "odd_36" "t",
    .cmov "ge.y" "tmp" (.var "odd_36")
  ]

/-- the three inlined `secp256k1_fe_sqrt` bodies of the generated function -/
def svS1 : List FeIR.Stmt := match Gen.generator.svdw.body.drop 29 with | .scope S :: _ => S | _ => []
def svS2 : List FeIR.Stmt := match Gen.generator.svdw.body.drop 31 with | .scope S :: _ => S | _ => []
def svS3 : List FeIR.Stmt := match Gen.generator.svdw.body.drop 33 with | .scope S :: _ => S | _ => []

set_option maxRecDepth 100000 in
/-- the generated body is literally this text (checked by the kernel) -/
theorem body_eq : Gen.generator.svdw.body = svPre ++ svPost svS1 svS2 svS3 := by rfl

example : svS1.length = 530 ∧ svS2.length = 530 ∧ svS3.length = 530 ∧ svPre.length = 29 := by decide +kernel

/-! ## 2. The first part: candidates -/

/-- first part: from `t = ⟨T, mt⟩` with `mt ≤ 8`, the candidates `x1 x2 x3` and their right-hand sides `alphain`,
    `betain`, `gammain` hold the values `x1v T`, … of `Proofs/SvdwIR.lean` (magnitudes 2, 4, 2 and 2, 2, 2) -/
theorem svdw_pre (fe : FeEnv) (ints : Env) (T mt : ℕ) (htv : fe.get "t" = ⟨T, mt⟩) (ht : mt ≤ 8) :
    Post (FeIR.execL ⟨fe, ints, false⟩ svPre) (fun st1 => st1.returned = false ∧
      st1.fe.get "x1" = ⟨x1v T, 2⟩ ∧ st1.fe.get "x2" = ⟨x2v T, 4⟩ ∧ st1.fe.get "x3" = ⟨x3v T, 2⟩ ∧
      st1.fe.get "alphain" = ⟨rhsv (x1v T), 2⟩ ∧ st1.fe.get "betain" = ⟨rhsv (x2v T), 2⟩ ∧
      st1.fe.get "gammain" = ⟨rhsv (x3v T), 2⟩ ∧ st1.fe.get "t" = ⟨T, mt⟩) := by
  sv_run [svPre, htv, Fe.mul_comm' (Fe.sqr T) 3, Nat.reduceAdd, Nat.reduceMul, x1v, x2v, x3v, rhsv, jinvv, wdv, x3dv,
    and_self]

/-! ## 3. The second part: square roots, selection, sign -/

/-- `secp256k1_fe_is_odd(t)` (on the normalized representation) against the model's `Fe.isOdd` of the reduced value -/
theorem isOdd_canon (T : ℕ) : (Fe.isOdd (T % P) = true) = (canon T % 2 = 1) := by
  simp [Fe.isOdd, canon_def]

/-- the field variables that are live across the first / second / third inlined `fe_sqrt` -/
def keep1 : List String := ["x1", "x2", "x3", "betain", "gammain", "t"]
def keep2 : List String := ["x1", "x2", "x3", "y1", "gammain", "t"]
def keep3 : List String := ["x1", "x2", "x3", "y1", "y2", "t"]

set_option maxHeartbeats 2000000 in
/-- second part, with ARBITRARY statement lists in place of the three inlined `fe_sqrt` bodies (only their contract
    `SqrtSpec` is assumed): from a state with candidates `X1 X2 X3` (reduced; magnitudes 2, 4, 2), right-hand sides
    `A B C` (magnitude 2) and `t = T` of magnitude ≤ 1, `ge` ends as the point `svSel X1 X2 X3 A B C T` -/
theorem svdw_post (S1 S2 S3 : List FeIR.Stmt)
    (h1 : SqrtSpec S1 "y1" "alphain" "fe_sqrt_1.ret" keep1 [])
    (h2 : SqrtSpec S2 "y2" "betain" "fe_sqrt_10.ret" keep2 ["alphaquad"])
    (h3 : SqrtSpec S3 "y3" "gammain" "fe_sqrt_19.ret" keep3 ["alphaquad", "betaquad"])
    (fe : FeEnv) (ints : Env) (X1 X2 X3 A B C T mt : ℕ)
    (hx1 : fe.get "x1" = ⟨X1, 2⟩) (hx2 : fe.get "x2" = ⟨X2, 4⟩) (hx3 : fe.get "x3" = ⟨X3, 2⟩)
    (ha : fe.get "alphain" = ⟨A, 2⟩) (hb : fe.get "betain" = ⟨B, 2⟩) (hc : fe.get "gammain" = ⟨C, 2⟩)
    (ht : fe.get "t" = ⟨T, mt⟩) (hmt : mt ≤ 1) (hX1 : X1 < P) (hX2 : X2 < P) (hX3 : X3 < P) :
    Post (FeIR.execL ⟨fe, ints, false⟩ (svPost S1 S2 S3))
      (fun st' => RepA st' "ge" (svSel X1 X2 X3 A B C T) 4 2) := by
  sv_run [svPost]
  generalize hE : FeIR.execL _ S1 = o
  refine h1.elim hE ?_ (fun fe1 ints1 ho hr1 hf1 hkf1 _ => ?_)
  · rw [ha]; exact (by decide : (2 : ℕ) ≤ 8)
  · subst ho
    have a_x1 := hkf1 "x1" (by simp [keep1])
    have a_x2 := hkf1 "x2" (by simp [keep1])
    have a_x3 := hkf1 "x3" (by simp [keep1])
    have a_b := hkf1 "betain" (by simp [keep1])
    have a_c := hkf1 "gammain" (by simp [keep1])
    have a_t := hkf1 "t" (by simp [keep1])
    rw [ha] at hr1 hf1; simp only at hr1 hf1
    rw [hx1] at a_x1; rw [hx2] at a_x2; rw [hx3] at a_x3; rw [hb] at a_b; rw [hc] at a_c; rw [ht] at a_t
    sv_run [hf1]
    generalize hE : FeIR.execL _ S2 = o
    refine h2.elim hE ?_ (fun fe2 ints2 ho hr2 hf2 hkf2 hki2 => ?_)
    · rw [a_b]; exact (by decide : (2 : ℕ) ≤ 8)
    · subst ho
      have b_x1 := hkf2 "x1" (by simp [keep2])
      have b_x2 := hkf2 "x2" (by simp [keep2])
      have b_x3 := hkf2 "x3" (by simp [keep2])
      have b_y1 := hkf2 "y1" (by simp [keep2])
      have b_c := hkf2 "gammain" (by simp [keep2])
      have b_t := hkf2 "t" (by simp [keep2])
      have b_aq := hki2 "alphaquad" (by simp)
      rw [a_b] at hr2 hf2; simp only at hr2 hf2
      rw [a_x1] at b_x1; rw [a_x2] at b_x2; rw [a_x3] at b_x3; rw [hr1] at b_y1; rw [a_c] at b_c; rw [a_t] at b_t
      simp only [↓intsGetChain] at b_aq
      sv_run [hf2]
      generalize hE : FeIR.execL _ S3 = o
      refine h3.elim hE ?_ (fun fe3 ints3 ho hr3 _ hkf3 hki3 => ?_)
      · rw [b_c]; exact (by decide : (2 : ℕ) ≤ 8)
      · subst ho
        have c_x1 := hkf3 "x1" (by simp [keep3])
        have c_x2 := hkf3 "x2" (by simp [keep3])
        have c_x3 := hkf3 "x3" (by simp [keep3])
        have c_y1 := hkf3 "y1" (by simp [keep3])
        have c_y2 := hkf3 "y2" (by simp [keep3])
        have c_t := hkf3 "t" (by simp [keep3])
        have c_aq := hki3 "alphaquad" (by simp)
        have c_bq := hki3 "betaquad" (by simp)
        rw [b_c] at hr3; simp only at hr3
        rw [b_x1] at c_x1; rw [b_x2] at c_x2; rw [b_x3] at c_x3; rw [b_y1] at c_y1; rw [hr2] at c_y2; rw [b_t] at c_t
        simp only [↓intsGetChain, b_aq] at c_aq c_bq
        sv_run [hr3, c_x1, c_x2, c_x3, c_y1, c_y2, c_t, c_aq, c_bq]
        fe_get [feGetChain, intsGetChain, RepA']
        refine ⟨by decide, by decide, Or.inr ⟨trivial, ?_⟩⟩
        unfold svSel svSel0
        by_cases hA : Fe.isSquare A = true <;> by_cases hB : Fe.isSquare B = true <;>
          by_cases ho : canon T % 2 = 1 <;>
          simp only [hA, hB, ho, isOdd_canon, Bool.false_eq_true, if_true, if_false, not_true_eq_false,
            not_false_eq_true, and_self, and_true, and_false, Nat.mod_eq_of_lt hX1, Nat.mod_eq_of_lt hX2,
            Nat.mod_eq_of_lt hX3, Nat.mod_eq_of_lt (Fe.neg_lt_P _), Nat.mod_eq_of_lt (Fe.sqrtCand_lt_P _)]

/-! ## 4. The three inlined `secp256k1_fe_sqrt` -/

/-- the addition chains (everything before `secp256k1_fe_sqr(r, &t1)`) -/
def svChain1 : List FeIR.Stmt := svS1.take 524
def svChain2 : List FeIR.Stmt := svS2.take 524
def svChain3 : List FeIR.Stmt := svS3.take 524

set_option maxRecDepth 100000 in
theorem svS1_eq : svS1 =
    svChain1 ++ sqrtTail "y1" "fe_sqrt_1.t1" "fe_equal_4.na" "alphain" "z_9" "fe_equal_4.ret" "fe_sqrt_1.ret" := by rfl
set_option maxRecDepth 100000 in
theorem svS2_eq : svS2 =
    svChain2 ++ sqrtTail "y2" "fe_sqrt_10.t1" "fe_equal_13.na" "betain" "z_18" "fe_equal_13.ret" "fe_sqrt_10.ret" := by
  rfl
set_option maxRecDepth 100000 in
theorem svS3_eq : svS3 =
    svChain3 ++ sqrtTail "y3" "fe_sqrt_19.t1" "fe_equal_22.na" "gammain" "z_27" "fe_equal_22.ret" "fe_sqrt_19.ret" := by
  rfl

set_option maxRecDepth 100000 in
/-- the kernel runs the exponent checker of `Proofs/SqrtIR.lean` on the three chains -/
theorem svChain1_ok : sqrtOK svChain1 "y1" "fe_sqrt_1.t1" "fe_equal_4.na" "alphain" "z_9" "fe_equal_4.ret"
    "fe_sqrt_1.ret" keep1 [] = true := by decide +kernel
set_option maxRecDepth 100000 in
theorem svChain2_ok : sqrtOK svChain2 "y2" "fe_sqrt_10.t1" "fe_equal_13.na" "betain" "z_18" "fe_equal_13.ret"
    "fe_sqrt_10.ret" keep2 ["alphaquad"] = true := by decide +kernel
set_option maxRecDepth 100000 in
theorem svChain3_ok : sqrtOK svChain3 "y3" "fe_sqrt_19.t1" "fe_equal_22.na" "gammain" "z_27" "fe_equal_22.ret"
    "fe_sqrt_19.ret" keep3 ["alphaquad", "betaquad"] = true := by decide +kernel

theorem svS1_spec : SqrtSpec svS1 "y1" "alphain" "fe_sqrt_1.ret" keep1 [] := by
  rw [svS1_eq]; exact sqrtSpec_of_ok _ _ _ _ _ _ _ _ _ _ svChain1_ok
theorem svS2_spec : SqrtSpec svS2 "y2" "betain" "fe_sqrt_10.ret" keep2 ["alphaquad"] := by
  rw [svS2_eq]; exact sqrtSpec_of_ok _ _ _ _ _ _ _ _ _ _ svChain2_ok
theorem svS3_spec : SqrtSpec svS3 "y3" "gammain" "fe_sqrt_19.ret" keep3 ["alphaquad", "betaquad"] := by
  rw [svS3_eq]; exact sqrtSpec_of_ok _ _ _ _ _ _ _ _ _ _ svChain3_ok

/-! ## 5. The theorem -/

/-- **`shallue_van_de_woestijne(ge, t)`**, the generated body as it stands (more than 1600 statements, three inlined square roots):
    for EVERY state entered normally with `t` of magnitude ≤ 1 (normalized, as `secp256k1_fe_is_odd(t)` requires; the
    value is an arbitrary natural number), execution succeeds — no magnitude precondition of a field primitive is
    violated — and `ge` holds exactly the point `Generator.svdw` of the value of `t` reduced mod `P`: `ge.infinity = 0`,
    `ge.x` (magnitude ≤ 4) and `ge.y` (magnitude ≤ 2) are its coordinates.  This includes `t = 0`, where the joint
    denominator is 0 and `secp256k1_fe_inv` returns 0. -/
theorem svdw_eq (st : State) (hret : st.returned = false) (ht : (st.fe.get "t").mag ≤ 1) :
    ∃ st', FeIR.execL st Gen.generator.svdw.body = some st' ∧
      RepA st' "ge" (Generator.svdw ((st.fe.get "t").val % P)) 4 2 := by
  obtain ⟨fe, ints, ret⟩ := st
  simp only at hret ht; subst hret
  generalize htv : fe.get "t" = tv at ht; obtain ⟨T, mt⟩ := tv
  simp only at ht ⊢
  rw [body_eq, svdw_model]
  apply Post.elim
  refine post_append _ (svdw_pre fe ints T mt htv (by omega)) ?_
  rintro ⟨fe1, ints1, r1⟩ ⟨hr1, hx1, hx2, hx3, ha, hb, hc, ht1⟩
  simp only at hr1 hx1 hx2 hx3 ha hb hc ht1; subst hr1
  exact svdw_post svS1 svS2 svS3 svS1_spec svS2_spec svS3_spec fe1 ints1 _ _ _ _ _ _ T mt hx1 hx2 hx3 ha hb hc ht1 ht
    (x1v_lt T) (x2v_lt T) (x3v_lt T)

/-- `svdw_eq` for a reduced value of `t` (every normalized C field element; what both callers pass): `ge` holds
    `Generator.svdw t`. -/
theorem svdw_eq_of_lt (st : State) (hret : st.returned = false) (ht : (st.fe.get "t").mag ≤ 1)
    (hlt : (st.fe.get "t").val < P) :
    ∃ st', FeIR.execL st Gen.generator.svdw.body = some st' ∧ RepA st' "ge" (Generator.svdw (st.fe.get "t").val) 4 2 := by
  have h := svdw_eq st hret ht
  rwa [Nat.mod_eq_of_lt hlt] at h

/-! ## 6. Non-vacuity, sharpness of the hypothesis, unreduced values -/

/-- a run of the generated function on `t` (value `t`, magnitude `m`, nothing else in the state) succeeds and ends with
    `ge` = the point `p` (magnitudes ≤ 4, 2) and the flags `alphaquad = aq`, `betaquad = bq` -/
def runsToF (t m : ℕ) (p : Pt) (aq bq : ℕ) : Bool :=
  (FeIR.execL ⟨[("t", ⟨t, m⟩)], [], false⟩ Gen.generator.svdw.body).map
    (fun st' => (decide (RepA st' "ge" p 4 2), st'.ints.get "alphaquad" 0, st'.ints.get "betaquad" 0)) =
    some (true, aq, bq)

/-- the same, without the flags -/
def runsTo (t m : ℕ) (p : Pt) : Bool :=
  (FeIR.execL ⟨[("t", ⟨t, m⟩)], [], false⟩ Gen.generator.svdw.body).map (fun st' => decide (RepA st' "ge" p 4 2)) =
    some true

set_option maxRecDepth 100000 in
/-- non-vacuity of `svdw_eq` / `svdw_eq_of_lt`, evaluated by the kernel: `t = 0` (joint denominator 0, first candidate),
    `t = 1` (odd; second candidate: `alphaquad = 0`, `betaquad = 1`) -/
example : runsToF 0 1 (Generator.svdw 0) 1 1 = true ∧ runsToF 1 1 (Generator.svdw 1) 0 1 = true := by decide +kernel

/-- `t = 0`: the joint denominator is 0, `secp256k1_fe_inv` returns 0, and the function outputs the point `(d, √(d³+7))`
    (the comment "If j = 0, the function outputs the point (d, f(d))" of the C source) -/
theorem svdw_zero : Generator.svdw 0 = .aff Generator.dconst (Fe.sqrtCand (rhsv Generator.dconst)) := by
  have hx : x1v 0 = Generator.dconst := by decide +kernel
  have hs : Fe.isSquare (rhsv Generator.dconst) = true := by decide +kernel
  rw [svdw_model0, hx]; unfold svSel0; rw [if_pos hs, (by decide : Fe.isOdd 0 = false)]
  simp only [Bool.false_eq_true, if_false]

set_option maxRecDepth 100000 in
/-- non-vacuity, continued: `t = 4` (even; second candidate), `t = 5` (odd; first candidate: `alphaquad = 1`) -/
example : runsToF 4 1 (Generator.svdw 4) 0 1 = true ∧ runsToF 5 1 (Generator.svdw 5) 1 0 = true := by decide +kernel

set_option maxRecDepth 100000 in
/-- non-vacuity, continued: `t = 9` (odd) and `t = 10` (even): third candidate (`alphaquad = betaquad = 0`); the result is
    a valid point (in general: `GeneratorLemmas.svdw_valid`) -/
example : runsToF 9 1 (Generator.svdw 9) 0 0 = true ∧ runsToF 10 1 (Generator.svdw 10) 0 0 = true ∧
    (Generator.svdw 9).valid = true := by decide +kernel

set_option maxRecDepth 100000 in
/-- the hypothesis `magnitude ≤ 1` of `svdw_eq` is sharp: with `t` of magnitude 2 the run is rejected (the precondition
    of `secp256k1_fe_is_odd(t)` in the last line of the function), whatever the value -/
theorem svdw_mag_needed :
    (FeIR.execL ⟨[("t", ⟨1, 2⟩)], [], false⟩ Gen.generator.svdw.body).isSome = false := by decide +kernel

set_option maxRecDepth 100000 in
/-- Unreduced values.  On the representative `P + 1` of the field element 1 the code (which only sees `t mod P`) computes
    `Generator.svdw 1`, as `svdw_eq` says; the model function applied to the unreduced number `P + 1` takes the parity of
    `P + 1` (even) and returns the NEGATED point.  So `Generator.svdw` is not a function of `t mod P`, and the hypothesis
    `t < P` of `svdw_eq_of_lt` cannot be dropped.  (The model's only caller, `Generator.generateInternal`, applies
    `svdw` to `_ % P`; a normalized C field element is `< P`.) -/
theorem svdw_unreduced : runsTo (P + 1) 1 (Generator.svdw 1) = true ∧ runsTo (P + 1) 1 (Generator.svdw (P + 1)) = false ∧
    Generator.svdw (P + 1) = Pt.neg (Generator.svdw 1) := by decide +kernel

end SecpZkp.C08ir
