import SecpZkp.Gen.Guards
/-
  Property C18 (part "loops", translator mode G): loop facts regenerated from clang's AST of the current sources.
  The ElligatorSwift encoder draws (u, branch) candidates until one has a preimage t; every encoding it returns must decode to the key.
  The model runs these loops with fuel and the property theorems are about runs in which the loop finished; that the C loop
  itself has no other way out than a successful candidate (no iteration bound in its condition) is what is pinned here.
-/
namespace SecpZkp.Props.C18_loops
open SecpZkp.Gen

/-- every `while` loop of the function is unconditional (`while (1)`): it is left only from inside, by a found result -/
def retryOnly (l : List LoopFact) : Prop := (∀ f ∈ l, f.kind = LoopKind.while → f.unconditional = true) ∧ (∃ f ∈ l, f.kind = LoopKind.while)

instance (l : List LoopFact) : Decidable (retryOnly l) := by unfold retryOnly; infer_instance

/-- `secp256k1_ellswift_xelligatorswift_var`: the rejection-sampling loop over (u, branch) candidates has no bound -/
theorem xelligatorswift_retry_unbounded : retryOnly Loops.ellswift_xelligatorswift_var := by decide

/-- non-vacuity: a bounded loop would not satisfy the predicate -/
example : ¬ retryOnly [⟨.while, false⟩] := by decide

end SecpZkp.Props.C18_loops
