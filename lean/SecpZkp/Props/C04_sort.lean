/-
  C04 (part "sort"): `secp256k1_ec_pubkey_sort` returns a sorted permutation of its input,
  for every list length.

  The model `Keys.pubkeySort` runs `Heapsort.hsort` (a line-by-line model of `secp256k1_hsort` /
  `secp256k1_heap_down` in src/hsort_impl.h) with the callback
  `cmp a b = Bytes.cmp (cmpKey a) (cmpKey b)`, i.e. `memcmp` of the 33-byte compressed encodings
  (an invalid key is encoded as 33 zero bytes).  The proofs are in `SecpZkp/Proofs/Heapsort.lean`.
-/
import SecpZkp.Model.Keys
import SecpZkp.Proofs.Heapsort

namespace SecpZkp
namespace C04

open Heapsort

/-- The comparison callback of `secp256k1_ec_pubkey_sort` (memcmp of the encodings) is a total preorder
in the C sense, which is what the heap sort needs. -/
theorem pubkeyCmp_totalPreorder :
    TotalPreorderCmp (fun a b : Pt => Bytes.cmp (Keys.cmpKey a) (Keys.cmpKey b)) :=
  Bytes.cmp_totalPreorder.comap Keys.cmpKey

/-- **`sort_spec` for the generic heap sort.**  For EVERY array (any length) and every comparison callback
that is a total preorder, `secp256k1_hsort` returns an array of the same size that is a permutation of
the input and is non-decreasing: `cmp out[j] out[i] ≥ 0` whenever `i ≤ j` are positions of the array.
(The permutation and size parts hold for an arbitrary callback.) -/
theorem hsort_spec {α : Type} [Inhabited α] (cmp : α → α → Int) (h : TotalPreorderCmp cmp) (arr : Array α) :
    (hsort cmp arr).size = arr.size ∧
    (hsort cmp arr).toList.Perm arr.toList ∧
    (∀ i j, i ≤ j → j < arr.size → 0 ≤ cmp (hsort cmp arr)[j]! (hsort cmp arr)[i]!) :=
  ⟨hsort_size cmp arr, hsort_perm cmp arr, hsort_sorted h arr⟩

/-- The hypothesis of `hsort_spec` is satisfiable (by `memcmp` on byte strings), and on a concrete input
of 5 byte strings (with a duplicate and strings of different first bytes) `hsort` computes the sorted list. -/
example : TotalPreorderCmp Bytes.cmp := Bytes.cmp_totalPreorder

example :
    (hsort Bytes.cmp #[[3, 1], [2, 255], [3, 0], [0, 7], [2, 255]]).toList
      = [[0, 7], [2, 255], [2, 255], [3, 0], [3, 1]] := by decide

/-- **`secp256k1_ec_pubkey_sort` returns a sorted permutation** (any number of keys, valid or not):
the output list is a permutation of the input list, and it is sorted by the 33-byte encodings: for every
element `a` that occurs before an element `b` in the output, the encoding of `a` is lexicographically
`≤` the encoding of `b`, both as `memcmp` result (`Bytes.cmp … ≤ 0`) and in the order of `List UInt8`. -/
theorem pubkeySort_spec (pks : List Pt) :
    (Keys.pubkeySort pks).Perm pks ∧
    (Keys.pubkeySort pks).Pairwise (fun a b => Bytes.cmp (Keys.cmpKey a) (Keys.cmpKey b) ≤ 0) ∧
    ((Keys.pubkeySort pks).map Keys.cmpKey).Pairwise (· ≤ ·) := by
  have hp : (Keys.pubkeySort pks).Perm pks := by
    have := hsort_perm (fun a b : Pt => Bytes.cmp (Keys.cmpKey a) (Keys.cmpKey b)) pks.toArray
    simpa [Keys.pubkeySort] using this
  have hs : (Keys.pubkeySort pks).Pairwise
      (fun a b => Bytes.cmp (Keys.cmpKey a) (Keys.cmpKey b) ≤ 0) := by
    have := hsort_pairwise pubkeyCmp_totalPreorder pks.toArray
    refine List.Pairwise.imp ?_ this
    intro a b hab
    have := Bytes.cmp_antisymm (Keys.cmpKey a) (Keys.cmpKey b)
    omega
  refine ⟨hp, hs, ?_⟩
  rw [List.pairwise_map]
  exact List.Pairwise.imp (fun {a b} hab => (Bytes.cmp_nonpos_iff_le _ _).mp hab) hs

/-- The length is preserved. -/
theorem pubkeySort_length (pks : List Pt) : (Keys.pubkeySort pks).length = pks.length :=
  (pubkeySort_spec pks).1.length_eq

/-- Keys with equal encodings are equal as byte strings (`Bytes.cmp = 0 ↔ equal`), so the sorted order is
unique up to the order of keys with identical encodings. -/
theorem pubkeyCmp_eq_zero_iff (a b : Pt) :
    Bytes.cmp (Keys.cmpKey a) (Keys.cmpKey b) = 0 ↔ Keys.cmpKey a = Keys.cmpKey b :=
  Bytes.cmp_eq_zero_iff _ _

/-- A concrete instance: five keys (one invalid, two with the same encoding, both parities) are put in the
order of their encodings `00…`, `02‖3`, `02‖5`, `03‖3`, `03‖3` (heap sort is not stable: the two keys with
equal encodings come out in reverse input order). -/
example :
    Keys.pubkeySort [.aff 3 1, .aff 5 2, .inf, .aff 3 7, .aff 3 4]
      = [.inf, .aff 3 4, .aff 5 2, .aff 3 7, .aff 3 1] := by decide +kernel

end C04
end SecpZkp
