import SecpZkp.Proofs.EllswiftIR
/-
  C18 (IR level), second part: `secp256k1_ellswift_xswiftec_inv_var` and `secp256k1_ellswift_swiftec_var`
  (src/modules/ellswift/main_impl.h) as regenerated into `Gen/F_ellswift.lean` compute exactly what the hand-written model
  (`Ellswift.xswiftecInvVar`, `Ellswift.swiftecVar` of `Model/Ellswift.lean`) says.  See `Props/C18_ir.lean` for the
  reading guide.

  Both functions contain inlined copies of `secp256k1_fe_sqrt` (a `.scope` of 530 statements: the addition chain for
  `a ^ ((P+1)/4)`, the final squaring and the comparison).  These are not executed symbolically.  The generated body is
  shown (by `rfl`, i.e. by the kernel) to be an explicit program text with the `fe_sqrt` bodies as parameters
  (`invFn S1 S2`, `swPre ++ [swPost S]`); the theorems are proved for ARBITRARY `S` satisfying the contract `SqrtSpec`
  (`…_of_sqrt`), and the contract is discharged for the generated `S` by `sqrt_fn` of `Proofs/SqrtIR.lean` (whose side
  condition, the exponent checker accepting the chain, is evaluated by the kernel: `*_ok`).
-/
namespace SecpZkp.C18ir
open SecpZkp SecpZkp.FeIR SecpZkp.MiniC

-- see `Props/C18_ir.lean`
attribute [local irreducible] Fe.add Fe.mul Fe.sqr Fe.neg Fe.inv Fe.isSquare Fe.half Fe.sqrtCand FeIR.canon

/-! ## 6a. `secp256k1_ellswift_xswiftec_inv_var` -/

/-- `secp256k1_ellswift_xswiftec_inv_var` with the two inlined `secp256k1_fe_sqrt` bodies as parameters -/
def invFn (S1 S2 : List FeIR.Stmt) : List FeIR.Stmt := [
    .const "g.secp256k1_ellswift_c4" 60197513588986302554485582024885075108884032450952339817679072026166228089409,
    .const "g.secp256k1_ellswift_c3" 55594575648329892869085402983802832744385952214688224221778511981742606582255,
    .set "x" "x_in",
    .set "u" "u_in",
    .norm "x",
    .norm "u",
    .ite (.lnot (.bin .and 32 (.var "c") (.lit 2))) [
      .set "m" "x",
      .add "m" "u",
      .neg "m" "m" 2,
      .scope [
        .sqr "ge_x_on_curve_var_1.c" "m",
        .mul "ge_x_on_curve_var_1.c" "ge_x_on_curve_var_1.c" "m",
        .addInt "ge_x_on_curve_var_1.c" 7,
        .isSquare "sq_2" "ge_x_on_curve_var_1.c",
        .int "ge_x_on_curve_var_1.ret" (.var "sq_2"),
        .ret
      ],
      .ite (.var "ge_x_on_curve_var_1.ret") [
        .int "ret" (.lit 0),
        .ret
      ] [

      ],
      .sqr "s" "m",
      .neg "s" "s" 1,
      .mul "m" "u" "x",
      .add "s" "m",
      .sqr "g" "u",
      .mul "g" "g" "u",
      .addInt "g" 7,
      .mul "m" "s" "g",
      .isSquare "sq_3" "m",
      .ite (.lnot (.var "sq_3")) [
        .int "ret" (.lit 0),
        .ret
      ] [

      ],
      .inv "s" "s",
      .mul "s" "s" "g",
      .set "v" "x"
    ] [
      .neg "m" "u" 1,
      .set "s" "m",
      .add "s" "x",
      .isSquare "sq_4" "s",
      .ite (.lnot (.var "sq_4")) [
        .int "ret" (.lit 0),
        .ret
      ] [

      ],
      .sqr "g" "u",
      .mul "q" "s" "g",
      .mulInt "q" 3,
      .mul "g" "g" "u",
      .mulInt "g" 4,
      .addInt "g" 28,
      .add "q" "g",
      .mul "q" "q" "s",
      .neg "q" "q" 1,
      .isSquare "sq_5" "q",
      .ite (.lnot (.var "sq_5")) [
        .int "ret" (.lit 0),
        .ret
      ] [

      ],
      .scope S1,
      .int "ret" (.var "fe_sqrt_6.ret"),
      .isZero "z_15" "r",
      .ite (.bin .sub 64 (.bin .xor 64 (.cond (.bin .ne 32 (.bin .and 32 (.var "c") (.lit 1)) (.lit 0)) (.bin .ne 32 (.var "z_15") (.lit 0)) (.lit 0)) (.lit 2147483648)) (.lit 2147483648)) [
        .int "ret" (.lit 0),
        .ret
      ] [

      ],
      .isZero "z_16" "s",
      .ite (.bin .sub 64 (.bin .xor 64 (.var "z_16") (.lit 2147483648)) (.lit 2147483648)) [
        .int "ret" (.lit 0),
        .ret
      ] [

      ],
      .inv "v" "s",
      .mul "v" "v" "r",
      .add "v" "m",
      .half "v"
    ],
    .scope S2,
    .int "ret" (.var "fe_sqrt_17.ret"),
    .ite (.cond (.bin .ne 32 (.bin .eq 32 (.bin .and 32 (.var "c") (.lit 5)) (.lit 0)) (.lit 0)) (.lit 1) (.bin .ne 32 (.bin .eq 32 (.bin .and 32 (.var "c") (.lit 5)) (.lit 5)) (.lit 0))) [
      .neg "m" "m" 1
    ] [

    ],
    .ite (.bin .and 32 (.var "c") (.lit 1)) [
      .set "sel_26" "g.secp256k1_ellswift_c4"
    ] [
      .set "sel_26" "g.secp256k1_ellswift_c3"
    ],
    .mul "u" "u" "sel_26",
    .add "u" "v",
    .mul "t" "m" "u",
    .int "ret" (.lit 1),
    .ret
  ]

/-- the first inlined `fe_sqrt` (`r = sqrt(q)`) of the generated function -/
def invS1 : List FeIR.Stmt :=
  match Gen.ellswift.xswiftec_inv_var.body.drop 6 with
  | .ite _ _ B :: _ => (match B.drop 16 with | .scope S :: _ => S | _ => [])
  | _ => []
/-- the second inlined `fe_sqrt` (`m = sqrt(s)`) -/
def invS2 : List FeIR.Stmt :=
  match Gen.ellswift.xswiftec_inv_var.body.drop 7 with
  | .scope S :: _ => S
  | _ => []

set_option maxRecDepth 100000 in
theorem inv_body_eq : Gen.ellswift.xswiftec_inv_var.body = invFn invS1 invS2 := by rfl

example : invS1.length = 530 ∧ invS2.length = 530 := by decide +kernel


/-- what `xswiftec_inv_var` leaves behind, against the model's result `m`: the model's `none` is the C `return 0`;
    `some t` is `return 1` with the output variable `t` holding exactly `t` (magnitude 1) -/
def InvPost (m : Option ℕ) (st' : State) : Prop :=
  match m with
  | none => st'.ints.get "ret" 0 = 0
  | some t => st'.ints.get "ret" 0 = 1 ∧ st'.fe.get "t" = ⟨t, 1⟩

/-- the variables that are live across the first / second inlined `fe_sqrt` -/
def keep1 : List String := ["s", "m", "u", "g.secp256k1_ellswift_c4", "g.secp256k1_ellswift_c3"]
def keep2 : List String := ["u", "v", "g.secp256k1_ellswift_c4", "g.secp256k1_ellswift_c3"]

set_option hygiene false in
/-- a finished leaf: the model's result is known (`hm`), read `ret` / `t` off the final state -/
local macro "inv_leaf" : tactic => `(tactic|
  (subst hm
   first
   | (simp only [InvPost, ↓feGetChain, ↓intsGetChain, and_self, true_and, and_true]; done)
   | (simp only [InvPost, ↓feGetChain, ↓intsGetChain, and_self, true_and, and_true]; with_reducible rfl)))

set_option hygiene false in
/-- after the second inlined `fe_sqrt` (`m = sqrt(s)`): the rest of the function -/
local macro "inv_tail" "[" ts:Lean.Parser.Tactic.simpLemma,* "]" : tactic => `(tactic|
  (have e_u := hkf "u" (by simp [keep2])
   have e_v := hkf "v" (by simp [keep2])
   have e_c4 := hkf "g.secp256k1_ellswift_c4" (by simp [keep2])
   have e_c3 := hkf "g.secp256k1_ellswift_c3" (by simp [keep2])
   have e_c := hki "c" (by simp)
   simp only [↓feGetChain, ↓intsGetChain, hcv, $ts,*] at hr e_u e_v e_c4 e_c3 e_c
   fe_run [hr, e_u, e_v, e_c4, e_c3, e_c, binIdeal_and, binIdeal_ne, binIdeal_eq, ite_ite_zero, ite_one_ite,
     and_one_ne_zero, Bool.not_eq_true, Bool.not_eq_false]
   repeat' fe_split1 hm
   all_goals inv_leaf))

set_option maxHeartbeats 2000000 in
/-- `xswiftec_inv_var` with ARBITRARY statement lists `S1`, `S2` in place of the two inlined `fe_sqrt` bodies, assuming only
    their contract (`SqrtSpec`: `r = sqrtCand q` resp. `m = sqrtCand s`, the listed variables untouched): for every
    state, every `x_in`, `u_in` (magnitude ≤ 32, values arbitrary: the function normalizes them) and every integer `c`
    (the C code is called with `0 ≤ c < 8`; nothing depends on that), execution succeeds and the result is the model's:
    `ret = 0` exactly when `Ellswift.xswiftecInvVar x u c = none` (each of the five `return 0` of the C code), else
    `ret = 1` and `t` holds the model's value. -/
theorem xswiftec_inv_var_fn_of_sqrt (S1 S2 : List FeIR.Stmt)
    (h1 : SqrtSpec S1 "r" "q" "fe_sqrt_6.ret" keep1 ["c"]) (h2 : SqrtSpec S2 "m" "s" "fe_sqrt_17.ret" keep2 ["c"])
    (st : State) (hret : st.returned = false)
    (hx : (st.fe.get "x_in").mag ≤ 32) (hu : (st.fe.get "u_in").mag ≤ 32) :
    ∃ st', FeIR.execL st (invFn S1 S2) = some st' ∧
      InvPost (Ellswift.xswiftecInvVar (st.fe.get "x_in").val (st.fe.get "u_in").val (st.ints.get "c" 0)) st' := by
  obtain ⟨fe, ints, ret⟩ := st
  simp only at hret hx hu; subst hret
  generalize hxv : fe.get "x_in" = xv at hx; obtain ⟨X, mx⟩ := xv
  generalize huv : fe.get "u_in" = uv at hu; obtain ⟨U, mu⟩ := uv
  generalize hcv : ints.get "c" 0 = c
  simp only at hx hu
  have hm : Ellswift.xswiftecInvVar X U c =
    (match (if c &&& 2 = 0 then Ellswift.invA (canon X) (canon U) else Ellswift.invB (canon X) (canon U) c) with
     | none => none | some (s, v) => some (Ellswift.invTail (canon U) c s v)) := xswiftecInvVar_raw X U c
  simp only [Ellswift.invA, Ellswift.invB, Ellswift.invTail, Ellswift.geXOnCurveVar, Bool.not_eq_true'] at hm
  generalize Ellswift.xswiftecInvVar X U c = m at hm ⊢
  apply Post.elim
  fe_run [invFn, hxv, huv, hcv, binIdeal_and, binIdeal_ne, binIdeal_eq, ite_ite_zero, ite_one_ite, and_one_ne_zero,
    Bool.not_eq_true, Bool.not_eq_false]
  fe_split1 hm
  · -- `c ∈ {0, 1, 4, 5}`
    fe_split1 hm
    · inv_leaf
    · fe_split1 hm
      · inv_leaf
      · generalize hE : FeIR.execL _ S2 = o
        refine h2.elim hE ?_ (fun fe' ints' ho hr _ hkf hki => ?_)
        · simp only [↓feGetChain]; decide
        · subst ho
          inv_tail []
  · -- `c ∈ {2, 3, 6, 7}`
    fe_split1 hm
    · inv_leaf
    · fe_split1 hm
      · inv_leaf
      · generalize hE : FeIR.execL _ S1 = o
        refine h1.elim hE ?_ (fun fe1 ints1 ho hr1 _ hkf1 hki1 => ?_)
        · simp only [↓feGetChain]; decide
        · subst ho
          have f_s := hkf1 "s" (by simp [keep1])
          have f_m := hkf1 "m" (by simp [keep1])
          have f_u := hkf1 "u" (by simp [keep1])
          have f_c4 := hkf1 "g.secp256k1_ellswift_c4" (by simp [keep1])
          have f_c3 := hkf1 "g.secp256k1_ellswift_c3" (by simp [keep1])
          have f_c := hki1 "c" (by simp)
          simp only [↓feGetChain, ↓intsGetChain, hcv] at hr1 f_s f_m f_u f_c4 f_c3 f_c
          fe_run [hr1, f_s, f_m, f_u, f_c4, f_c3, f_c, binIdeal_and, binIdeal_ne, binIdeal_eq, ite_ite_zero,
            ite_one_ite, and_one_ne_zero, Bool.not_eq_true, Bool.not_eq_false]
          fe_split1 hm
          · inv_leaf
          · fe_split1 hm
            · inv_leaf
            · generalize hE : FeIR.execL _ S2 = o
              refine h2.elim hE ?_ (fun fe' ints' ho hr _ hkf hki => ?_)
              · simp only [↓feGetChain, f_s]; decide
              · subst ho
                inv_tail [f_s, f_u, f_c4, f_c3, f_c]

/-- the addition chains of the two inlined `fe_sqrt` (everything before `secp256k1_fe_sqr(r, &t1)`) -/
def invChain1 : List FeIR.Stmt := invS1.take 524
def invChain2 : List FeIR.Stmt := invS2.take 524

set_option maxRecDepth 100000 in
theorem invS1_eq : invS1 =
    invChain1 ++ sqrtTail "r" "fe_sqrt_6.t1" "fe_equal_9.na" "q" "z_14" "fe_equal_9.ret" "fe_sqrt_6.ret" := by rfl
set_option maxRecDepth 100000 in
theorem invS2_eq : invS2 =
    invChain2 ++ sqrtTail "m" "fe_sqrt_17.t1" "fe_equal_20.na" "s" "z_25" "fe_equal_20.ret" "fe_sqrt_17.ret" := by rfl

set_option maxRecDepth 100000 in
/-- the kernel runs the exponent checker of `Proofs/SqrtIR.lean` on the two chains -/
theorem invChain1_ok : sqrtOK invChain1 "r" "fe_sqrt_6.t1" "fe_equal_9.na" "q" "z_14" "fe_equal_9.ret" "fe_sqrt_6.ret"
    keep1 ["c"] = true := by decide +kernel
set_option maxRecDepth 100000 in
theorem invChain2_ok : sqrtOK invChain2 "m" "fe_sqrt_17.t1" "fe_equal_20.na" "s" "z_25" "fe_equal_20.ret"
    "fe_sqrt_17.ret" keep2 ["c"] = true := by decide +kernel

theorem invS1_spec : SqrtSpec invS1 "r" "q" "fe_sqrt_6.ret" keep1 ["c"] := by
  rw [invS1_eq]; exact sqrtSpec_of_ok _ _ _ _ _ _ _ _ _ _ invChain1_ok
theorem invS2_spec : SqrtSpec invS2 "m" "s" "fe_sqrt_17.ret" keep2 ["c"] := by
  rw [invS2_eq]; exact sqrtSpec_of_ok _ _ _ _ _ _ _ _ _ _ invChain2_ok

/-- **`secp256k1_ellswift_xswiftec_inv_var(t, x_in, u_in, c)`**, the generated body as it stands (both inlined square
    roots included, 1186 statements): execution succeeds and agrees with `Ellswift.xswiftecInvVar` — `ret = 0` iff the
    model returns `none`, otherwise `ret = 1` and `t` is the model's value. -/
theorem xswiftec_inv_var_eq (st : State) (hret : st.returned = false)
    (hx : (st.fe.get "x_in").mag ≤ 32) (hu : (st.fe.get "u_in").mag ≤ 32) :
    ∃ st', FeIR.execL st Gen.ellswift.xswiftec_inv_var.body = some st' ∧
      InvPost (Ellswift.xswiftecInvVar (st.fe.get "x_in").val (st.fe.get "u_in").val (st.ints.get "c" 0)) st' := by
  rw [inv_body_eq]
  exact xswiftec_inv_var_fn_of_sqrt _ _ invS1_spec invS2_spec st hret hx hu

/-- a run of the generated `xswiftec_inv_var` on `(x, u, c)` agrees with the model -/
def invAgrees (x u c : ℕ) : Bool :=
  (FeIR.execL ⟨[("x_in", ⟨x, 1⟩), ("u_in", ⟨u, 1⟩)], [(("c", 0), c)], false⟩ Gen.ellswift.xswiftec_inv_var.body).map
    (fun st' => (st'.ints.get "ret" 0, if st'.ints.get "ret" 0 = 1 then (st'.fe.get "t").val else 0)) =
  some (match Ellswift.xswiftecInvVar x u c with | none => (0, 0) | some t => (1, t))

set_option maxRecDepth 100000 in
/-- non-vacuity: `x = Gx`; with `u = 9` all branch values `c` succeed (`c = 0, 5`: the `x1/x2` inverse with both signs and
    both constants; `c = 3, 6`: the `x3` inverse through both square roots); with `u = 8` both kinds fail -/
example : invAgrees Pt.Gx 9 0 = true ∧ invAgrees Pt.Gx 9 3 = true ∧ invAgrees Pt.Gx 9 5 = true ∧
    invAgrees Pt.Gx 9 6 = true ∧ invAgrees Pt.Gx 8 0 = true ∧ invAgrees Pt.Gx 8 2 = true ∧
    (Ellswift.xswiftecInvVar Pt.Gx 9 3).isSome = true ∧ (Ellswift.xswiftecInvVar Pt.Gx 8 2).isSome = false := by
  decide +kernel


/-! ## 6b. `secp256k1_ellswift_swiftec_var` -/

/-- the first part of `swiftec_var`: the constants and the inlined `xswiftec_var(&x, u, t)` -/
def swPre : List FeIR.Stmt := [
    .const "g.secp256k1_fe_one" 1,
    .const "g.secp256k1_ellswift_c1" 60197513588986302554485582024885075108884032450952339817679072026166228089408,
    .const "g.secp256k1_ellswift_c2" 55594575648329892869085402983802832744385952214688224221778511981742606582254,
    .scope [
      .scope [
        .set "ellswift_xswiftec_frac_var_2.u1" "u",
        .isZero "z_3" "ellswift_xswiftec_frac_var_2.u1",
        .ite (.bin .sub 64 (.bin .xor 64 (.var "z_3") (.lit 2147483648)) (.lit 2147483648)) [
          .set "ellswift_xswiftec_frac_var_2.u1" "g.secp256k1_fe_one"
        ] [

        ],
        .sqr "ellswift_xswiftec_frac_var_2.s" "t",
        .isZero "z_4" "t",
        .ite (.bin .sub 64 (.bin .xor 64 (.var "z_4") (.lit 2147483648)) (.lit 2147483648)) [
          .set "ellswift_xswiftec_frac_var_2.s" "g.secp256k1_fe_one"
        ] [

        ],
        .sqr "ellswift_xswiftec_frac_var_2.l" "ellswift_xswiftec_frac_var_2.u1",
        .mul "ellswift_xswiftec_frac_var_2.g" "ellswift_xswiftec_frac_var_2.l" "ellswift_xswiftec_frac_var_2.u1",
        .addInt "ellswift_xswiftec_frac_var_2.g" 7,
        .set "ellswift_xswiftec_frac_var_2.p" "ellswift_xswiftec_frac_var_2.g",
        .add "ellswift_xswiftec_frac_var_2.p" "ellswift_xswiftec_frac_var_2.s",
        .isZero "z_5" "ellswift_xswiftec_frac_var_2.p",
        .ite (.bin .sub 64 (.bin .xor 64 (.var "z_5") (.lit 2147483648)) (.lit 2147483648)) [
          .mulInt "ellswift_xswiftec_frac_var_2.s" 4,
          .set "ellswift_xswiftec_frac_var_2.p" "ellswift_xswiftec_frac_var_2.g",
          .add "ellswift_xswiftec_frac_var_2.p" "ellswift_xswiftec_frac_var_2.s"
        ] [

        ],
        .mul "ellswift_xswiftec_frac_var_2.d" "ellswift_xswiftec_frac_var_2.s" "ellswift_xswiftec_frac_var_2.l",
        .mulInt "ellswift_xswiftec_frac_var_2.d" 3,
        .sqr "ellswift_xswiftec_frac_var_2.l" "ellswift_xswiftec_frac_var_2.p",
        .neg "ellswift_xswiftec_frac_var_2.l" "ellswift_xswiftec_frac_var_2.l" 1,
        .mul "ellswift_xswiftec_frac_var_2.n" "ellswift_xswiftec_frac_var_2.d" "ellswift_xswiftec_frac_var_2.u1",
        .add "ellswift_xswiftec_frac_var_2.n" "ellswift_xswiftec_frac_var_2.l",
        .scope [
          .mul "ge_x_frac_on_curve_var_6.r" "ellswift_xswiftec_frac_var_2.d" "ellswift_xswiftec_frac_var_2.n",
          .sqr "ge_x_frac_on_curve_var_6.t" "ellswift_xswiftec_frac_var_2.n",
          .mul "ge_x_frac_on_curve_var_6.r" "ge_x_frac_on_curve_var_6.r" "ge_x_frac_on_curve_var_6.t",
          .sqr "ge_x_frac_on_curve_var_6.t" "ellswift_xswiftec_frac_var_2.d",
          .sqr "ge_x_frac_on_curve_var_6.t" "ge_x_frac_on_curve_var_6.t",
          .mulInt "ge_x_frac_on_curve_var_6.t" 7,
          .add "ge_x_frac_on_curve_var_6.r" "ge_x_frac_on_curve_var_6.t",
          .isSquare "sq_7" "ge_x_frac_on_curve_var_6.r",
          .int "ge_x_frac_on_curve_var_6.ret" (.var "sq_7"),
          .ret
        ],
        .ite (.var "ge_x_frac_on_curve_var_6.ret") [
          .set "ellswift_xswiftec_var_1.xn" "ellswift_xswiftec_frac_var_2.n",
          .set "ellswift_xswiftec_var_1.xd" "ellswift_xswiftec_frac_var_2.d",
          .ret
        ] [

        ],
        .set "ellswift_xswiftec_var_1.xd" "ellswift_xswiftec_frac_var_2.p",
        .mul "ellswift_xswiftec_frac_var_2.l" "g.secp256k1_ellswift_c1" "ellswift_xswiftec_frac_var_2.s",
        .mul "ellswift_xswiftec_frac_var_2.n" "g.secp256k1_ellswift_c2" "ellswift_xswiftec_frac_var_2.g",
        .add "ellswift_xswiftec_frac_var_2.n" "ellswift_xswiftec_frac_var_2.l",
        .mul "ellswift_xswiftec_frac_var_2.n" "ellswift_xswiftec_frac_var_2.n" "ellswift_xswiftec_frac_var_2.u1",
        .scope [
          .mul "ge_x_frac_on_curve_var_8.r" "ellswift_xswiftec_frac_var_2.p" "ellswift_xswiftec_frac_var_2.n",
          .sqr "ge_x_frac_on_curve_var_8.t" "ellswift_xswiftec_frac_var_2.n",
          .mul "ge_x_frac_on_curve_var_8.r" "ge_x_frac_on_curve_var_8.r" "ge_x_frac_on_curve_var_8.t",
          .sqr "ge_x_frac_on_curve_var_8.t" "ellswift_xswiftec_frac_var_2.p",
          .sqr "ge_x_frac_on_curve_var_8.t" "ge_x_frac_on_curve_var_8.t",
          .mulInt "ge_x_frac_on_curve_var_8.t" 7,
          .add "ge_x_frac_on_curve_var_8.r" "ge_x_frac_on_curve_var_8.t",
          .isSquare "sq_9" "ge_x_frac_on_curve_var_8.r",
          .int "ge_x_frac_on_curve_var_8.ret" (.var "sq_9"),
          .ret
        ],
        .ite (.var "ge_x_frac_on_curve_var_8.ret") [
          .set "ellswift_xswiftec_var_1.xn" "ellswift_xswiftec_frac_var_2.n",
          .ret
        ] [

        ],
        .mul "ellswift_xswiftec_frac_var_2.l" "ellswift_xswiftec_frac_var_2.p" "ellswift_xswiftec_frac_var_2.u1",
        .add "ellswift_xswiftec_frac_var_2.n" "ellswift_xswiftec_frac_var_2.l",
        .neg "ellswift_xswiftec_var_1.xn" "ellswift_xswiftec_frac_var_2.n" 2
      ],
      .inv "ellswift_xswiftec_var_1.xd" "ellswift_xswiftec_var_1.xd",
      .mul "x" "ellswift_xswiftec_var_1.xn" "ellswift_xswiftec_var_1.xd"
    ]
  ]

/-- the second part: the inlined `ge_set_xo_var(p, &x, fe_is_odd(t))`, with the inlined `fe_sqrt` as a parameter -/
def swPost (S : List FeIR.Stmt) : FeIR.Stmt :=
  .scope [
    .isOdd "odd_11" "t",
    .int "ge_set_xo_var_10.odd" (.var "odd_11"),
    .scope [
      .set "p.x" "x",
      .sqr "ge_set_xquad_12.x2" "x",
      .mul "ge_set_xquad_12.x3" "x" "ge_set_xquad_12.x2",
      .int "p.infinity" (.lit 0),
      .addInt "ge_set_xquad_12.x3" 7,
      .scope S,
      .int "ge_set_xquad_12.ret" (.var "fe_sqrt_14.ret"),
      .int "ge_set_xquad_12.ret" (.var "ge_set_xquad_12.ret"),
      .ret
    ],
    .int "ge_set_xo_var_10.ret" (.var "ge_set_xquad_12.ret"),
    .norm "p.y",
    .isOdd "odd_28" "p.y",
    .ite (.bin .ne 32 (.var "odd_28") (.var "ge_set_xo_var_10.odd")) [
      .neg "p.y" "p.y" 1
    ] [
  
    ],
    .int "ge_set_xo_var_10.ret" (.var "ge_set_xo_var_10.ret"),
    .ret
  ]

/-- the inlined `fe_sqrt` (`p.y = sqrt(x³ + 7)`) of the generated function -/
def swS : List FeIR.Stmt :=
  match Gen.ellswift.swiftec_var.body.drop 4 with
  | .scope B :: _ =>
    (match B.drop 2 with
     | .scope C :: _ => (match C.drop 5 with | .scope S :: _ => S | _ => [])
     | _ => [])
  | _ => []

set_option maxRecDepth 100000 in
theorem sw_body_eq : Gen.ellswift.swiftec_var.body = swPre ++ [swPost swS] := by rfl

example : swS.length = 530 := by decide +kernel

set_option maxHeartbeats 2000000 in
/-- first part: `x = xswiftecVar u t` (magnitude 1), `t` untouched -/
theorem swiftec_pre (fe : FeEnv) (ints : Env) (U mu T mt : ℕ) (huv : fe.get "u" = ⟨U, mu⟩) (htv : fe.get "t" = ⟨T, mt⟩)
    (hu : mu ≤ 8) (ht : mt ≤ 8) :
    Post (FeIR.execL ⟨fe, ints, false⟩ swPre) (fun st1 => st1.returned = false ∧
      st1.fe.get "x" = ⟨Ellswift.xswiftecVar U T, 1⟩ ∧ st1.fe.get "t" = ⟨T, mt⟩) := by
  have hv : Ellswift.xswiftecVar U T =
      Fe.mul (Ellswift.xswiftecFracVar U T).1 (Fe.inv (Ellswift.xswiftecFracVar U T).2) := rfl
  rw [hv]
  have hm := xswiftecFracVar_raw U T
  simp only [Ellswift.fracCore, Ellswift.geXFracOnCurveVar] at hm
  generalize Ellswift.xswiftecFracVar U T = m at hm
  fe_run [swPre, huv, htv]
  repeat' fe_split1 hm
  all_goals (subst hm; with_reducible rfl)

/-- second part: from a state with `x = xv` (reduced, magnitude 1) and `t = T` (magnitude ≤ 1), `p` ends as the affine
    point the model's `geSetXoVar xv (isOdd t)` returns -/
theorem swiftec_post (S : List FeIR.Stmt)
    (hS : SqrtSpec S "p.y" "ge_set_xquad_12.x3" "fe_sqrt_14.ret" ["p.x"] ["p.infinity", "ge_set_xo_var_10.odd"])
    (fe : FeEnv) (ints : Env) (xv T mt : ℕ) (hx : fe.get "x" = ⟨xv, 1⟩) (ht : fe.get "t" = ⟨T, mt⟩) (hmt : mt ≤ 1)
    (hxlt : xv < P) :
    Post (FeIR.execL ⟨fe, ints, false⟩ [swPost S])
      (fun st' => RepA st' "p" (Ellswift.geSetXoVar xv (Fe.isOdd (T % P))).1 1 2) := by
  fe_run [swPost, hx, ht]
  generalize hE : FeIR.execL _ S = o
  refine hS.elim hE ?_ (fun fe' ints' ho hr _ hkf hki => ?_)
  · simp only [↓feGetChain]; decide
  · subst ho
    have e_px := hkf "p.x" (by simp)
    have e_inf := hki "p.infinity" (by simp)
    have e_odd := hki "ge_set_xo_var_10.odd" (by simp)
    simp only [↓feGetChain, ↓intsGetChain] at hr e_px e_inf e_odd
    fe_run [hr, e_px, e_inf, e_odd, binIdeal_ne]
    have hmod : xv % P = xv := Nat.mod_eq_of_lt hxlt
    refine ite_intro (fun h => ?_) (fun h => ?_)
    · have hg : (Ellswift.geSetXoVar xv (Fe.isOdd (T % P))).1 =
          .aff xv (Fe.neg (Fe.sqrtCand (Fe.add (Fe.mul xv (Fe.sqr xv)) 7))) := by
        unfold Ellswift.geSetXoVar
        simp only [hmod, Fe.mul_comm' (Fe.sqr xv) xv]
        rw [if_pos ((isOdd_bne_iff _ _).2 (by rw [canon_def] at h; exact h))]
      rw [hg]
      fe_get [feGetChain, intsGetChain, e_px, e_inf]
      refine ⟨by (dsimp only; omega), by (dsimp only; omega), Or.inr ⟨rfl, ?_⟩⟩
      dsimp only; rw [hmod, Nat.mod_eq_of_lt (Fe.neg_lt_P _)]
    · have hg : (Ellswift.geSetXoVar xv (Fe.isOdd (T % P))).1 =
          .aff xv (Fe.sqrtCand (Fe.add (Fe.mul xv (Fe.sqr xv)) 7)) := by
        unfold Ellswift.geSetXoVar
        simp only [hmod, Fe.mul_comm' (Fe.sqr xv) xv]
        rw [if_neg (fun hh => h ((isOdd_bne_iff _ _).1 hh |> fun h3 => by rw [canon_def]; exact h3))]
      rw [hg]
      fe_get [feGetChain, intsGetChain, e_px, e_inf]
      refine ⟨by (dsimp only; omega), by (dsimp only; omega), Or.inr ⟨rfl, ?_⟩⟩
      dsimp only; rw [hmod, Nat.mod_eq_of_lt (Fe.sqrtCand_lt_P _)]

/-- the addition chain of the inlined `fe_sqrt` -/
def swChain : List FeIR.Stmt := swS.take 524

set_option maxRecDepth 100000 in
theorem swS_eq : swS = swChain ++
    sqrtTail "p.y" "fe_sqrt_14.t1" "fe_equal_17.na" "ge_set_xquad_12.x3" "z_22" "fe_equal_17.ret" "fe_sqrt_14.ret" := by
  rfl

set_option maxRecDepth 100000 in
theorem swChain_ok : sqrtOK swChain "p.y" "fe_sqrt_14.t1" "fe_equal_17.na" "ge_set_xquad_12.x3" "z_22" "fe_equal_17.ret"
    "fe_sqrt_14.ret" ["p.x"] ["p.infinity", "ge_set_xo_var_10.odd"] = true := by decide +kernel

theorem swS_spec : SqrtSpec swS "p.y" "ge_set_xquad_12.x3" "fe_sqrt_14.ret" ["p.x"]
    ["p.infinity", "ge_set_xo_var_10.odd"] := by
  rw [swS_eq]; exact sqrtSpec_of_ok _ _ _ _ _ _ _ _ _ _ swChain_ok

/-- **`secp256k1_ellswift_swiftec_var(p, u, t)`**, the generated body as it stands (inlined `xswiftec_var`, then inlined
    `ge_set_xo_var` with its square root): for `u` of magnitude ≤ 8 and `t` NORMALIZED (magnitude ≤ 1: the C code calls
    `fe_is_odd(t)`, whose precondition this is; the callers normalize `t`), execution succeeds and `p` holds exactly the
    point `Ellswift.swiftecVar u t` (finite; `x` magnitude 1, `y` magnitude ≤ 2). -/
theorem swiftec_var_eq (st : State) (hret : st.returned = false)
    (hu : (st.fe.get "u").mag ≤ 8) (ht : (st.fe.get "t").mag ≤ 1) :
    ∃ st', FeIR.execL st Gen.ellswift.swiftec_var.body = some st' ∧
      RepA st' "p" (Ellswift.swiftecVar (st.fe.get "u").val (st.fe.get "t").val) 1 2 := by
  obtain ⟨fe, ints, ret⟩ := st
  simp only at hret hu ht; subst hret
  generalize huv : fe.get "u" = uv at hu; obtain ⟨U, mu⟩ := uv
  generalize htv : fe.get "t" = tv at ht; obtain ⟨T, mt⟩ := tv
  simp only at hu ht
  rw [sw_body_eq]
  apply Post.elim
  refine post_append _ (swiftec_pre fe ints U mu T mt huv htv hu (by omega)) ?_
  rintro ⟨fe1, ints1, r1⟩ ⟨hr1, hx1, ht1⟩
  simp only at hr1 hx1 ht1; subst hr1
  exact swiftec_post swS swS_spec fe1 ints1 _ T mt hx1 ht1 ht (Ellswift.xswiftecVar_lt U T)


/-- a run of the generated `swiftec_var` on `(u, t)` (magnitude 1) ends with `p` = the model's point -/
def swiftecAgrees (u t : ℕ) : Bool :=
  (FeIR.execL ⟨[("u", ⟨u, 1⟩), ("t", ⟨t, 1⟩)], [], false⟩ Gen.ellswift.swiftec_var.body).map
    (fun st' => decide (RepA st' "p" (Ellswift.swiftecVar u t) 1 2)) = some true

set_option maxRecDepth 100000 in
/-- non-vacuity: the three candidates `x3`, `x2`, `x1`, both parities of `t`, an unreduced input; the points are valid -/
example : swiftecAgrees 2 1 = true ∧ swiftecAgrees 0 0 = true ∧ swiftecAgrees 0 2 = true ∧ swiftecAgrees 3 5 = true ∧
    swiftecAgrees (P + 2) (P + 1) = true ∧ (Ellswift.swiftecVar 2 1).valid = true ∧
    Fe.isOdd (Pt.yOf (Ellswift.swiftecVar 2 1)) = true ∧ Fe.isOdd (Pt.yOf (Ellswift.swiftecVar 0 2)) = false := by
  decide +kernel

end SecpZkp.C18ir
