import SecpZkp.Gen.Guards
/-! # C14 — the argument checks the model assumes are present at the C call sites (translator mode G)

`Gen.callFacts` is regenerated from clang's AST of /repo on every run (tools/c2lean_g.py): one fact per call of a
fallible primitive (range-checked field/scalar decoding, curve membership, infinity / zero tests, nested parsers)
inside the functions this property is anchored in, saying whether the call's result steers control flow
(`resultChecked`) and whether the overflow flag it writes is read before being overwritten (`flag = some true`;
`none` = the call passes NULL, i.e. reduces silently).  The executable model rejects out-of-range encodings at
exactly these places; the theorems below pin the C side to the same shape.  A fact list that no longer matches
is a broken tie (the check then searches for a failing input with the differential generators). -/
namespace SecpZkp.Props.C14_guards
open SecpZkp.Gen

/-- `secp256k1_ecdsa_adaptor_sig_deserialize`: its fallible-primitive call sites are exactly these, each with its result / overflow flag
    consumed as listed. -/
theorem ecdsa_adaptor_sig_deserialize_sites : Facts.ecdsa_adaptor_sig_deserialize = [
    ⟨.eckey_pubkey_parse, 1, true, none⟩,
    ⟨.scalar_set_b32, 1, false, none⟩,
    ⟨.scalar_is_zero, 1, true, none⟩,
    ⟨.eckey_pubkey_parse, 2, true, none⟩,
    ⟨.scalar_set_b32_seckey, 1, true, none⟩,
    ⟨.scalar_set_b32, 2, false, none⟩,
    ⟨.scalar_set_b32, 3, false, some true⟩
  ] := by decide

/-- `secp256k1_ecdsa_adaptor_verify`: its fallible-primitive call sites are exactly these, each with its result / overflow flag
    consumed as listed. -/
theorem ecdsa_adaptor_verify_sites : Facts.ecdsa_adaptor_verify = [
    ⟨.ecdsa_adaptor_sig_deserialize, 1, true, none⟩,
    ⟨.pubkey_load, 1, true, none⟩,
    ⟨.dleq_verify, 1, true, none⟩,
    ⟨.scalar_set_b32, 1, false, none⟩,
    ⟨.pubkey_load, 2, true, none⟩,
    ⟨.gej_is_infinity, 1, true, none⟩,
    ⟨.gej_is_infinity, 2, true, none⟩
  ] := by decide

/-- `secp256k1_ecdsa_adaptor_recover`: its fallible-primitive call sites are exactly these, each with its result / overflow flag
    consumed as listed. -/
theorem ecdsa_adaptor_recover_sites : Facts.ecdsa_adaptor_recover = [
    ⟨.ecmult_gen_context_is_built, 1, true, none⟩,
    ⟨.ecdsa_adaptor_sig_deserialize, 1, true, none⟩,
    ⟨.scalar_is_zero, 1, true, none⟩,
    ⟨.pubkey_load, 1, true, none⟩,
    ⟨.memcmp_var, 1, true, none⟩
  ] := by decide

/-- `secp256k1_ecdsa_adaptor_encrypt`: its fallible-primitive call sites are exactly these, each with its result / overflow flag
    consumed as listed. -/
theorem ecdsa_adaptor_encrypt_sites : Facts.ecdsa_adaptor_encrypt = [
    ⟨.ecmult_gen_context_is_built, 1, true, none⟩,
    ⟨.pubkey_load, 1, true, none⟩,
    ⟨.scalar_set_b32, 1, false, none⟩,
    ⟨.scalar_is_zero, 1, true, none⟩,
    ⟨.scalar_set_b32_seckey, 1, true, none⟩,
    ⟨.scalar_set_b32, 2, false, none⟩,
    ⟨.scalar_set_b32, 3, false, none⟩,
    ⟨.scalar_is_zero, 2, true, none⟩,
    ⟨.scalar_is_zero, 3, true, none⟩
  ] := by decide

/-- `secp256k1_ecdsa_adaptor_decrypt`: its fallible-primitive call sites are exactly these, each with its result / overflow flag
    consumed as listed. -/
theorem ecdsa_adaptor_decrypt_sites : Facts.ecdsa_adaptor_decrypt = [
    ⟨.scalar_set_b32, 1, false, some true⟩,
    ⟨.ecdsa_adaptor_sig_deserialize, 1, true, none⟩,
    ⟨.scalar_is_zero, 1, true, none⟩,
    ⟨.scalar_is_high, 1, true, none⟩
  ] := by decide

/-- `secp256k1_dleq_verify`: its fallible-primitive call sites are exactly these, each with its result / overflow flag
    consumed as listed. -/
theorem dleq_verify_sites : Facts.dleq_verify = [
    ⟨.gej_is_infinity, 1, true, none⟩,
    ⟨.gej_is_infinity, 2, true, none⟩,
    ⟨.scalar_is_zero, 1, true, none⟩
  ] := by decide

/-- `secp256k1_dleq_challenge`: its fallible-primitive call sites are exactly these, each with its result / overflow flag
    consumed as listed. -/
theorem dleq_challenge_sites : Facts.dleq_challenge = [
    ⟨.scalar_set_b32, 1, false, none⟩
  ] := by decide

/-- `secp256k1_dleq_nonce`: its fallible-primitive call sites are exactly these, each with its result / overflow flag
    consumed as listed. -/
theorem dleq_nonce_sites : Facts.dleq_nonce = [
    ⟨.scalar_set_b32, 1, false, none⟩,
    ⟨.scalar_is_zero, 1, true, none⟩
  ] := by decide

def all : List CallFact := Facts.ecdsa_adaptor_sig_deserialize ++ Facts.ecdsa_adaptor_verify ++ Facts.ecdsa_adaptor_recover ++ Facts.ecdsa_adaptor_encrypt ++ Facts.ecdsa_adaptor_decrypt ++ Facts.dleq_verify ++ Facts.dleq_challenge ++ Facts.dleq_nonce

/-- No overflow flag written by a scalar decoding in these functions is ignored (overwritten or never read). -/
theorem no_flag_dropped : ∀ f ∈ all, f.flag ≠ some false := by decide

/-- non-vacuity: the regenerated fact lists are not empty -/
example : all.length = 38 := by decide

end SecpZkp.Props.C14_guards
