import SecpZkp.Proofs.Halfagg
/-
  Property C17: Schnorr half-aggregation (`src/modules/schnorrsig_halfagg/main_impl.h`) is
  incremental-consistent and exact.

  Model: `SecpZkp/Model/Halfagg.lean` (`incAggregate`, `aggregate`, `aggverify`).  Inputs of aggregation
  are lists of `Entry = (x-only key object, 32-byte message, 64-byte signature)`; `keys`, `msgs`, `sigs`
  project such a list to the three C arrays.  The aggregate buffer is a byte list whose length is the value
  of `*aggsig_len` on entry; a call returns `(buffer contents, new *aggsig_len)`.  As in the C API, the
  caller re-announces the full buffer size before each incremental call (this is what `tests_impl.h` does:
  `aggsig_len = sizeof(aggsig)`), so the next call receives the whole buffer `out.1`.

  Theorems (all for EVERY list length, every key, message, signature and buffer):
    1. `aggregate_ok_iff`, `inc_eq_oneshot`, `inc_eq_oneshot_of_ok`, `all_splits_equal`, `splits_agree`
    2. `aggregate_length`, `aggregate_empty`
    3. `aggverify_guards` (+ the individual guards `aggverify_wrong_length`, `aggverify_s_overflow`,
       `aggverify_r_ge_p`, `aggverify_r_not_on_curve`, `aggverify_invalid_key`)
    4. `aggverify_iff_spec`
    5. `agg_complete` (under the explicit hypothesis `gl : GroupLaw`)

  Not theorems about the code: that reordered/altered keys or messages, or an altered signature, are
  rejected is the unforgeability of the scheme (a statement about SHA-256 and discrete logarithms); what is
  proved is that `aggverify` returns 1 EXACTLY when the specification equation holds
  (`aggverify_iff_spec`), in which every `z_i` and `e_i` is the one-shot hash of the keys, messages and
  `r` values in their given order.
-/
namespace SecpZkp
namespace Halfagg

/-! ## Running example for the non-vacuity checks -/

/-- three entries with a valid key object (the generator), distinct messages and signatures -/
def exE1 : Entry := (Pt.G, List.replicate 32 1, List.replicate 64 2)
def exE2 : Entry := (Pt.G, List.replicate 32 3, List.replicate 32 4 ++ List.replicate 32 5)
def exE3 : Entry := (Pt.aff 5 6, List.replicate 32 7, List.replicate 32 0xff ++ List.replicate 32 0xfe)
/-- a 160-byte buffer (room for 4 signatures), filled with 0xAA -/
def exBuf : Bytes := List.replicate 160 0xAA

/-! ## 1. Incremental aggregation = one-shot aggregation -/

/-- **`aggregate` succeeds exactly when the buffer has room for `n+1` 32-byte items and every key
    object is valid** (`n` below `SIZE_MAX`). -/
theorem aggregate_ok_iff (buf : Bytes) (xs : List Entry) (hn : xs.length < sizeMax) :
    (aggregate buf (keys xs) (msgs xs) (sigs xs)).ret = 1 ↔
      32 * (xs.length + 1) ≤ buf.length ∧ ∀ e ∈ xs, e.1 ≠ Pt.inf :=
  aggregate_ret_eq_one buf xs hn

example : (aggregate exBuf (keys [exE1, exE2]) (msgs [exE1, exE2]) (sigs [exE1, exE2])).ret = 1 :=
  (aggregate_ok_iff exBuf [exE1, exE2] (by decide +kernel)).2 (by decide +kernel)

/-- **Incremental = one-shot.**  Let `xs` be the entries aggregated first (64-byte signatures) and `ys`
    the entries added later.  If the buffer `buf` has room for the whole aggregate
    (`32*(|xs|+|ys|+1) ≤ |buf|`), the count fits a `size_t`, and all key objects are valid, then
    * `secp256k1_schnorrsig_aggregate` on `xs` returns 1 and leaves the buffer size unchanged, and
    * `secp256k1_schnorrsig_inc_aggregate` called on the resulting buffer with all keys/messages of
      `xs ++ ys`, the new signatures of `ys` and `n_before = |xs|` returns EXACTLY what the one-shot
      `secp256k1_schnorrsig_aggregate` on `xs ++ ys` returns: same return value, same buffer contents
      byte for byte (including the untouched bytes behind the aggregate), same `*aggsig_len`, no
      callback; and that call succeeds.

    Reason (see `Proofs/Halfagg.lean`): the first loop of `inc_aggregate` re-feeds `r_i ‖ pk_i ‖ m_i` of
    the old entries from the buffer and thereby reaches exactly the hash state the second loop had
    (`absorbOld_eq`), every `z_i` is a function of that state, and `s` is read back from the buffer
    unchanged (`be32`/`set_b32` round trip of a reduced scalar) and accumulated further. -/
theorem inc_eq_oneshot (buf : Bytes) (xs ys : List Entry)
    (hsig : ∀ e ∈ xs, e.2.2.length = 64)
    (hn : xs.length + ys.length < sizeMax)
    (hbuf : 32 * (xs.length + ys.length + 1) ≤ buf.length)
    (hkeys : ∀ e ∈ xs ++ ys, e.1 ≠ Pt.inf) :
    let first := aggregate buf (keys xs) (msgs xs) (sigs xs)
    let oneshot := aggregate buf (keys (xs ++ ys)) (msgs (xs ++ ys)) (sigs (xs ++ ys))
    first.ret = 1 ∧ first.out.1.length = buf.length ∧ first.out.2 = 32 * (xs.length + 1) ∧
    incAggregate first.out.1 (keys (xs ++ ys)) (msgs (xs ++ ys)) (sigs ys) xs.length = oneshot ∧
    oneshot.ret = 1 := by
  obtain ⟨out1, h1, h2, h3, h4⟩ := inc_after_aggregate buf xs ys hsig hn hbuf hkeys
  intro first oneshot
  have hf : first = ⟨1, (out1, 32 * (1 + xs.length)), 0⟩ := h1
  rw [hf]
  exact ⟨rfl, h2, by show 32 * (1 + xs.length) = _; omega, h3, h4⟩

/-- Non-vacuity: the hypotheses hold for `xs = [e1, e2]`, `ys = [e3]` and the 160-byte buffer … -/
example : (∀ e ∈ [exE1, exE2], e.2.2.length = 64) ∧ [exE1, exE2].length + [exE3].length < sizeMax ∧
    32 * ([exE1, exE2].length + [exE3].length + 1) ≤ exBuf.length ∧
    (∀ e ∈ [exE1, exE2] ++ [exE3], e.1 ≠ Pt.inf) := by decide +kernel

/-- … and the conclusion, evaluated independently by the kernel on that instance. -/
example :
    let first := aggregate exBuf (keys [exE1, exE2]) (msgs [exE1, exE2]) (sigs [exE1, exE2])
    let inc := incAggregate first.out.1 (keys [exE1, exE2, exE3]) (msgs [exE1, exE2, exE3]) (sigs [exE3]) 2
    let oneshot := aggregate exBuf (keys [exE1, exE2, exE3]) (msgs [exE1, exE2, exE3]) (sigs [exE1, exE2, exE3])
    (inc.ret, inc.out, inc.illegal) = (oneshot.ret, oneshot.out, oneshot.illegal) ∧ oneshot.ret = 1 := by
  decide +kernel

/-- The same with the guards replaced by "the one-shot aggregation succeeds". -/
theorem inc_eq_oneshot_of_ok (buf : Bytes) (xs ys : List Entry)
    (hsig : ∀ e ∈ xs, e.2.2.length = 64)
    (hn : xs.length + ys.length < sizeMax)
    (hok : (aggregate buf (keys (xs ++ ys)) (msgs (xs ++ ys)) (sigs (xs ++ ys))).ret = 1) :
    (aggregate buf (keys xs) (msgs xs) (sigs xs)).ret = 1 ∧
    incAggregate (aggregate buf (keys xs) (msgs xs) (sigs xs)).out.1
        (keys (xs ++ ys)) (msgs (xs ++ ys)) (sigs ys) xs.length
      = aggregate buf (keys (xs ++ ys)) (msgs (xs ++ ys)) (sigs (xs ++ ys)) := by
  have h := (aggregate_ok_iff buf (xs ++ ys) (by simpa using hn)).1 hok
  have hbuf : 32 * (xs.length + ys.length + 1) ≤ buf.length := by simpa using h.1
  have := inc_eq_oneshot buf xs ys hsig hn hbuf h.2
  exact ⟨this.1, this.2.2.2.1⟩

example : (aggregate exBuf (keys ([exE1] ++ [exE2, exE3])) (msgs ([exE1] ++ [exE2, exE3]))
    (sigs ([exE1] ++ [exE2, exE3]))).ret = 1 :=
  (aggregate_ok_iff exBuf _ (by decide +kernel)).2 (by decide +kernel)

/-- Chained incremental aggregation: `cur` is the result of the calls made so far, which aggregated the
    entries `done`; every piece is added by one `inc_aggregate` call on the buffer the previous call
    left, with `n_before = |done|`.  The chain stops at the first failing call. -/
def chain : (done : List Entry) → (cur : Ret (Bytes × Nat)) → List (List Entry) → Ret (Bytes × Nat)
  | _, cur, [] => cur
  | done, cur, p :: ps =>
    if cur.ret = 1 then
      chain (done ++ p)
        (incAggregate cur.out.1 (keys (done ++ p)) (msgs (done ++ p)) (sigs p) done.length) ps
    else cur

/-- Invariant of the chain: if `cur` is the one-shot aggregate of `done`, the chain over `pieces` ends in
    the one-shot aggregate of `done ++ pieces.flatten` (induction on the list of pieces, each step is
    `inc_eq_oneshot`). -/
theorem chain_eq (buf : Bytes) (done : List Entry) (pieces : List (List Entry))
    (hsig : ∀ e ∈ done ++ pieces.flatten, e.2.2.length = 64)
    (hn : (done ++ pieces.flatten).length < sizeMax)
    (hbuf : 32 * ((done ++ pieces.flatten).length + 1) ≤ buf.length)
    (hkeys : ∀ e ∈ done ++ pieces.flatten, e.1 ≠ Pt.inf) :
    chain done (aggregate buf (keys done) (msgs done) (sigs done)) pieces =
      aggregate buf (keys (done ++ pieces.flatten)) (msgs (done ++ pieces.flatten))
        (sigs (done ++ pieces.flatten)) := by
  induction pieces generalizing done with
  | nil => simp [chain]
  | cons p ps ih =>
    simp only [List.flatten_cons, List.length_append] at hsig hn hbuf hkeys
    have h := inc_eq_oneshot buf done (p ++ ps.flatten)
      (fun e he => hsig e (by simp [he])) (by simpa using hn) (by simpa using hbuf) hkeys
    have h' := inc_eq_oneshot buf done p
      (fun e he => hsig e (by simp [he])) (by omega) (by omega)
      (fun e he => hkeys e (by
        rcases List.mem_append.1 he with h | h
        · simp [h]
        · simp [h]))
    simp only [chain, h'.1, if_true, h'.2.2.2.1]
    rw [ih (done ++ p)]
    · simp
    · intro e he; exact hsig e (by simpa using he)
    · simpa [Nat.add_assoc] using hn
    · simpa [Nat.add_assoc] using hbuf
    · intro e he; exact hkeys e (by simpa using he)

/-- **All splits give the same bytes.**  For EVERY way of cutting the entries into consecutive pieces
    `pieces = [xs₁, xs₂, …, xs_k]` (empty pieces allowed, any `k`), starting from the empty aggregate
    (`aggregate` with `n = 0`) and adding the pieces by `k` calls of `inc_aggregate` produces exactly the
    result of one call of `aggregate` on `xs₁ ++ xs₂ ++ … ++ xs_k`: return value 1, the same buffer
    byte for byte, the same `*aggsig_len`. -/
theorem all_splits_equal (buf : Bytes) (pieces : List (List Entry))
    (hsig : ∀ e ∈ pieces.flatten, e.2.2.length = 64)
    (hn : pieces.flatten.length < sizeMax)
    (hbuf : 32 * (pieces.flatten.length + 1) ≤ buf.length)
    (hkeys : ∀ e ∈ pieces.flatten, e.1 ≠ Pt.inf) :
    chain [] (aggregate buf [] [] []) pieces =
      aggregate buf (keys pieces.flatten) (msgs pieces.flatten) (sigs pieces.flatten) ∧
    (aggregate buf (keys pieces.flatten) (msgs pieces.flatten) (sigs pieces.flatten)).ret = 1 := by
  have := chain_eq buf [] pieces (by simpa using hsig) (by simpa using hn) (by simpa using hbuf)
    (by simpa using hkeys)
  exact ⟨by simpa using this, (aggregate_ok_iff buf _ hn).2 ⟨hbuf, hkeys⟩⟩

/-- Two different splits of the same entries therefore give the same result. -/
theorem splits_agree (buf : Bytes) (pieces₁ pieces₂ : List (List Entry))
    (heq : pieces₁.flatten = pieces₂.flatten)
    (hsig : ∀ e ∈ pieces₁.flatten, e.2.2.length = 64)
    (hn : pieces₁.flatten.length < sizeMax)
    (hbuf : 32 * (pieces₁.flatten.length + 1) ≤ buf.length)
    (hkeys : ∀ e ∈ pieces₁.flatten, e.1 ≠ Pt.inf) :
    chain [] (aggregate buf [] [] []) pieces₁ = chain [] (aggregate buf [] [] []) pieces₂ := by
  rw [(all_splits_equal buf pieces₁ hsig hn hbuf hkeys).1,
    (all_splits_equal buf pieces₂ (heq ▸ hsig) (heq ▸ hn) (heq ▸ hbuf) (heq ▸ hkeys)).1, heq]

/-- Non-vacuity: the split `[[e1], [], [e2, e3]]` satisfies the hypotheses … -/
example : (∀ e ∈ [[exE1], [], [exE2, exE3]].flatten, e.2.2.length = 64) ∧
    [[exE1], [], [exE2, exE3]].flatten.length < sizeMax ∧
    32 * ([[exE1], [], [exE2, exE3]].flatten.length + 1) ≤ exBuf.length ∧
    (∀ e ∈ [[exE1], [], [exE2, exE3]].flatten, e.1 ≠ Pt.inf) := by decide +kernel

/-- … and on it the chain of four calls equals the one-shot call (evaluated by the kernel). -/
example :
    let c := chain [] (aggregate exBuf [] [] []) [[exE1], [], [exE2, exE3]]
    let o := aggregate exBuf (keys [exE1, exE2, exE3]) (msgs [exE1, exE2, exE3]) (sigs [exE1, exE2, exE3])
    (c.ret, c.out, c.illegal) = (o.ret, o.out, o.illegal) := by
  decide +kernel

/-! ## 2. Exact length -/

/-- The aggregate signature handed back to the caller: the first `*aggsig_len` bytes of the buffer. -/
def aggBytes (r : Ret (Bytes × Nat)) : Bytes := r.out.1.take r.out.2

/-- **A successful aggregate of `n` signatures is exactly `32*(n+1)` bytes**: `*aggsig_len` is set to
    `32*(n+1)`, the buffer keeps its size, and the aggregate is `r_0 ‖ … ‖ r_{n-1} ‖ bytes32(s)` for a
    reduced scalar `s < n` (the group order). -/
theorem aggregate_length (buf : Bytes) (xs : List Entry)
    (hsig : ∀ e ∈ xs, e.2.2.length = 64) (hn : xs.length < sizeMax)
    (hok : (aggregate buf (keys xs) (msgs xs) (sigs xs)).ret = 1) :
    let r := aggregate buf (keys xs) (msgs xs) (sigs xs)
    r.out.2 = 32 * (xs.length + 1) ∧ (aggBytes r).length = 32 * (xs.length + 1) ∧
    r.out.1.length = buf.length ∧ r.illegal = 0 ∧
    ∃ s, s < N ∧ aggBytes r = rs xs ++ Bytes.be32 s := by
  intro r
  have hg := (aggregate_ok_iff buf xs hn).1 hok
  have hlrs := length_rs xs hsig
  have hcl := aggregate_closed buf xs hn
  simp only [hg.1, if_true] at hcl
  cases hx : absorbNewSt 0 xs tagAgg 0 with
  | none =>
    have := (absorbNewSt_isSome 0 xs tagAgg 0).2 hg.2
    rw [hx] at this; simp at this
  | some r1 =>
    rw [hx] at hcl
    have hs : r1.2 < N := absorbNewSt_lt 0 xs tagAgg 0 r1 hx (by decide +kernel)
    have hr : r = ⟨1, (rs xs ++ Bytes.be32 r1.2 ++ buf.drop (32 * (xs.length + 1)), 32 * (1 + xs.length)), 0⟩ := hcl
    have htk : aggBytes r = rs xs ++ Bytes.be32 r1.2 := by
      rw [hr]
      show List.take (32 * (1 + xs.length)) _ = _
      rw [List.take_append_of_le_length (by simp [hlrs, Bytes.length_be32]; omega)]
      exact List.take_of_length_le (by simp [hlrs, Bytes.length_be32]; omega)
    refine ⟨?_, ?_, ?_, ?_, r1.2, hs, htk⟩
    · rw [hr]; show 32 * (1 + xs.length) = _; omega
    · rw [htk]; simp [hlrs, Bytes.length_be32]; omega
    · rw [hr]; simp [hlrs, Bytes.length_be32]; omega
    · rw [hr]

example : (∀ e ∈ [exE1, exE2, exE3], e.2.2.length = 64) ∧ [exE1, exE2, exE3].length < sizeMax ∧
    (aggregate exBuf (keys [exE1, exE2, exE3]) (msgs [exE1, exE2, exE3]) (sigs [exE1, exE2, exE3])).ret = 1 := by
  decide +kernel

/-- **The empty aggregate is 32 zero bytes** (`s = 0`): aggregating no signatures into a buffer of at
    least 32 bytes returns 1, sets `*aggsig_len = 32` and writes 32 zero bytes (rest of the buffer
    untouched); with a shorter buffer it returns 0 without a callback. -/
theorem aggregate_empty (buf : Bytes) :
    aggregate buf [] [] [] =
      if 32 ≤ buf.length then ⟨1, (Bytes.zeros 32 ++ buf.drop 32, 32), 0⟩ else ⟨0, (buf, buf.length), 0⟩ := by
  have h := aggregate_closed buf [] (by decide +kernel)
  simp only [keys_nil, msgs_nil, sigs_nil, List.length_nil, absorbNewSt, rs_nil, List.nil_append] at h
  rw [h]
  rfl

example : aggBytes (aggregate exBuf [] [] []) = Bytes.zeros 32 := by decide +kernel

/-! ## 3./4. Aggregate verification -/

/-- `aggverify` only returns 0 or 1. -/
theorem aggverify_ret (pks : List Pt) (ms : List Bytes) (agg : Option Bytes) :
    (aggverify pks ms agg).ret = 0 ∨ (aggverify pks ms agg).ret = 1 := by
  cases agg with
  | none => left; rfl
  | some a =>
    simp only [aggverify]
    split
    · left; rfl
    · split
      · left; rfl
      · left; rfl
      · rename_i rhs _
        simp only [Sc.setB32]
        by_cases hov : Bytes.toNat (chunk32 a pks.length) ≥ N
        · left; simp [hov]
        · by_cases hc : (Pt.add (Pt.neg (Pt.mulG (Bytes.toNat (chunk32 a pks.length) % N))) rhs).isInf = true
          · right; simp [hov, hc]
          · left; simp [hov, hc]

/-- `secp256k1_gej_is_infinity` as an equation. -/
theorem isInf_iff (p : Pt) : p.isInf = true ↔ p = Pt.inf := by
  cases p <;> simp [Pt.isInf]

/-- **`aggverify` returns 1 exactly when the half-aggregation verification equation holds.**
    For `n` keys and `n` messages and an aggregate `agg`, the call returns 1 iff
    * `agg` has exactly `32*(n+1)` bytes,
    * every index `i < n` has a defined specification term
      `T_i = z_i • (e_i • P_i + R_i)` (`termSpec`): the key object `P_i` is valid, `r_i < p`,
      `R_i = lift_x(r_i)` exists, `e_i` is the BIP-340 challenge of `(r_i, pk_i, m_i)` and, for `i ≥ 1`,
      `z_i = int(hash_{HalfAgg/randomizer}(r_0‖pk_0‖m_0‖…‖r_i‖pk_i‖m_i)) mod n` computed by the ONE-SHOT
      SHA-256 of the whole prefix (`zSpec`), while `z_0 = 1` (no multiplication),
    * the last 32 bytes encode `s < n` (group order), and
    * `(-(s • G)) + (T_0 + T_1 + … + T_{n-1}) = ∞`, i.e. `Σ z_i (R_i + e_i P_i) = s G`,
    all with the model's `Pt.add / Pt.neg / Pt.mul / Pt.mulG` (`Pt.sum` adds left to right from `∞`). -/
theorem aggverify_iff_spec (pks : List Pt) (ms : List Bytes) (agg : Bytes) (hm : ms.length = pks.length) :
    (aggverify pks ms (some agg)).ret = 1 ↔
      agg.length = 32 * (pks.length + 1) ∧
      ∃ terms : List Pt,
        (List.range pks.length).map (termSpec agg (List.zip pks ms)) = terms.map some ∧
        Bytes.toNat (chunk32 agg pks.length) < N ∧
        Pt.add (Pt.neg (Pt.mulG (Bytes.toNat (chunk32 agg pks.length)))) (Pt.sum terms) = Pt.inf := by
  have hzl : (List.zip pks ms).length = pks.length := by simp [hm]
  have key : ∀ out, verifyLoop agg 0 (List.zip pks ms) tagAgg Pt.inf = .ok out ↔
      ∃ terms : List Pt, (List.range pks.length).map (termSpec agg (List.zip pks ms)) = terms.map some ∧
        out = Pt.sum terms := by
    intro out
    have := verifyLoop_ok_iff agg (List.zip pks ms) [] (List.zip pks ms) tagAgg Pt.inf out rfl
      (by simpa [hashedBytes] using absorbedFrom_tagAgg)
    simpa [hzl, List.range_eq_range', Pt.sum] using this
  unfold aggverify
  simp only
  by_cases hlen : agg.length = 32 * (pks.length + 1)
  · have hg : ¬ (agg.length / 32 ≤ 0 ∨ agg.length / 32 - 1 ≠ pks.length ∨ agg.length % 32 ≠ 0) := by omega
    simp only [if_neg hg, and_iff_right hlen]
    cases hv : verifyLoop agg 0 (List.zip pks ms) tagAgg Pt.inf with
    | illegal =>
      simp only
      constructor
      · intro h; simp at h
      · rintro ⟨terms, ht, _, _⟩
        have := (key (Pt.sum terms)).2 ⟨terms, ht, rfl⟩
        rw [hv] at this; simp at this
    | reject =>
      simp only
      constructor
      · intro h; simp at h
      · rintro ⟨terms, ht, _, _⟩
        have := (key (Pt.sum terms)).2 ⟨terms, ht, rfl⟩
        rw [hv] at this; simp at this
    | ok rhs =>
      obtain ⟨terms, ht, hrhs⟩ := (key rhs).1 hv
      simp only [Sc.setB32]
      by_cases hov : Bytes.toNat (chunk32 agg pks.length) ≥ N
      · simp only [hov, decide_true, if_true]
        constructor
        · intro h; simp at h
        · rintro ⟨_, _, hlt, _⟩; omega
      · have hlt : Bytes.toNat (chunk32 agg pks.length) < N := by omega
        simp only [hov, decide_false, Bool.false_eq_true, if_false, Nat.mod_eq_of_lt hlt]
        constructor
        · intro h
          refine ⟨terms, ht, hlt, ?_⟩
          rw [← hrhs, ← isInf_iff]
          by_cases hc : (Pt.add (Pt.neg (Pt.mulG (Bytes.toNat (chunk32 agg pks.length)))) rhs).isInf = true
          · exact hc
          · simp [hc] at h
        · rintro ⟨terms', ht', _, heq⟩
          have hte : terms' = terms := by
            have := ht'.symm.trans ht
            exact (List.map_inj_right (fun x y h => Option.some.inj h)).1 this
          subst hte
          rw [hrhs, (isInf_iff _).2 heq]
          simp
  · have hg : (agg.length / 32 ≤ 0 ∨ agg.length / 32 - 1 ≠ pks.length ∨ agg.length % 32 ≠ 0) := by omega
    simp only [if_pos hg]
    simp [hlen]

/-- Non-vacuity: the right-hand side is satisfiable — see `exAgg1_accepted` below for an aggregate
    that `aggverify` accepts; here the trivial instance `n = 0` with the empty aggregate. -/
example : (aggverify [] [] (some (Bytes.zeros 32))).ret = 1 := by decide +kernel

/-! ### 3. The guards of `aggverify`, as consequences -/

/-- If the first `n` values of `f` are the elements of `terms`, all of them are defined. -/
theorem defined_of_map_eq (f : Nat → Option Pt) (n : Nat) (terms : List Pt)
    (h : (List.range n).map f = terms.map some) (i : Nat) (hi : i < n) : ∃ t, f i = some t := by
  have h' := congrArg (·[i]?) h
  simp only [List.getElem?_map, List.getElem?_range hi, Option.map_some] at h'
  cases ht : terms[i]? with
  | none => rw [ht] at h'; simp at h'
  | some t => rw [ht] at h'; exact ⟨t, by simpa using h'⟩

/-- If the specification term of some index `i < n` is undefined, `aggverify` returns 0. -/
theorem aggverify_term_undefined (pks : List Pt) (ms : List Bytes) (agg : Bytes) (hm : ms.length = pks.length)
    (i : Nat) (hi : i < pks.length) (hnone : termSpec agg (List.zip pks ms) i = none) :
    (aggverify pks ms (some agg)).ret = 0 := by
  rcases aggverify_ret pks ms (some agg) with h | h
  · exact h
  · obtain ⟨_, terms, ht, _⟩ := (aggverify_iff_spec pks ms agg hm).1 h
    obtain ⟨t, h'⟩ := defined_of_map_eq _ _ _ ht i hi
    rw [hnone] at h'; simp at h'

/-- **Wrong length is rejected**: anything but exactly `32*(n+1)` bytes (too short, too long, the
    length for `n±1`, not a multiple of 32) returns 0, without a callback. -/
theorem aggverify_wrong_length (pks : List Pt) (ms : List Bytes) (agg : Bytes)
    (hlen : agg.length ≠ 32 * (pks.length + 1)) :
    (aggverify pks ms (some agg)).ret = 0 ∧ (aggverify pks ms (some agg)).illegal = 0 := by
  have hg : (agg.length / 32 ≤ 0 ∨ agg.length / 32 - 1 ≠ pks.length ∨ agg.length % 32 ≠ 0) := by omega
  unfold aggverify
  simp only [if_pos hg]
  trivial

/-- **`s ≥ n` is rejected** (the `overflow` check of `secp256k1_scalar_set_b32`): if the last 32 bytes
    encode a value that is not below the group order, the call returns 0. -/
theorem aggverify_s_overflow (pks : List Pt) (ms : List Bytes) (agg : Bytes) (hm : ms.length = pks.length)
    (hs : Bytes.toNat (chunk32 agg pks.length) ≥ N) :
    (aggverify pks ms (some agg)).ret = 0 := by
  rcases aggverify_ret pks ms (some agg) with h | h
  · exact h
  · obtain ⟨_, terms, _, hlt, _⟩ := (aggverify_iff_spec pks ms agg hm).1 h
    omega

/-- **An `r_i` that does not lift to a curve point is rejected**: `r_i ≥ p`
    (`secp256k1_fe_set_b32_limit` fails) or `r_i^3 + 7` is not a square (`secp256k1_ge_set_xo_var`
    fails). -/
theorem aggverify_r_not_on_curve (pks : List Pt) (ms : List Bytes) (agg : Bytes) (hm : ms.length = pks.length)
    (i : Nat) (hi : i < pks.length)
    (hr : (Codec.feLimit (chunk32 agg i)).bind (fun rx => Pt.liftX rx false) = none) :
    (aggverify pks ms (some agg)).ret = 0 := by
  apply aggverify_term_undefined pks ms agg hm i hi
  unfold termSpec
  cases (List.zip pks ms)[i]? with
  | none => rfl
  | some pm =>
    obtain ⟨pk, m⟩ := pm
    cases pk with
    | inf => rfl
    | aff px py =>
      cases hf : Codec.feLimit (chunk32 agg i) with
      | none => rfl
      | some rx =>
        rw [hf] at hr
        simp only [Option.bind_some] at hr
        simp only [hr]

/-- In particular `r_i ≥ p` is rejected. -/
theorem aggverify_r_ge_p (pks : List Pt) (ms : List Bytes) (agg : Bytes) (hm : ms.length = pks.length)
    (i : Nat) (hi : i < pks.length) (hr : Bytes.toNat (chunk32 agg i) ≥ P) :
    (aggverify pks ms (some agg)).ret = 0 := by
  apply aggverify_r_not_on_curve pks ms agg hm i hi
  have : ¬ Bytes.toNat (chunk32 agg i) < P := by omega
  simp [Codec.feLimit, this]

/-- **An invalid key object is rejected** (`secp256k1_xonly_pubkey_load` fails). -/
theorem aggverify_invalid_key (pks : List Pt) (ms : List Bytes) (agg : Bytes) (hm : ms.length = pks.length)
    (i : Nat) (hi : i < pks.length) (hk : pks[i]? = some Pt.inf) :
    (aggverify pks ms (some agg)).ret = 0 := by
  apply aggverify_term_undefined pks ms agg hm i hi
  unfold termSpec
  cases hz : (List.zip pks ms)[i]? with
  | none => rfl
  | some pm =>
    obtain ⟨pk, m⟩ := pm
    have := (List.getElem?_zip_eq_some.1 hz).1
    rw [hk] at this
    simp only [Option.some.injEq] at this
    subst this
    rfl

/-- **All guards of `aggverify`** (the NULL aggregate raises the illegal-argument callback). -/
theorem aggverify_guards (pks : List Pt) (ms : List Bytes) (agg : Bytes) (hm : ms.length = pks.length) :
    (aggverify pks ms none).ret = 0 ∧
    (agg.length ≠ 32 * (pks.length + 1) → (aggverify pks ms (some agg)).ret = 0) ∧
    (Bytes.toNat (chunk32 agg pks.length) ≥ N → (aggverify pks ms (some agg)).ret = 0) ∧
    (∀ i, i < pks.length → Bytes.toNat (chunk32 agg i) ≥ P → (aggverify pks ms (some agg)).ret = 0) ∧
    (∀ i, i < pks.length → (Codec.feLimit (chunk32 agg i)).bind (fun rx => Pt.liftX rx false) = none →
      (aggverify pks ms (some agg)).ret = 0) ∧
    (∀ i, i < pks.length → pks[i]? = some Pt.inf → (aggverify pks ms (some agg)).ret = 0) :=
  ⟨rfl, fun h => (aggverify_wrong_length pks ms agg h).1, aggverify_s_overflow pks ms agg hm,
    aggverify_r_ge_p pks ms agg hm, aggverify_r_not_on_curve pks ms agg hm,
    aggverify_invalid_key pks ms agg hm⟩

/-! ## 5. Completeness (uses the group law) -/

/-- The verification equation includes that the key object is valid. -/
theorem key_valid_of_bip340Holds (e : Entry) (h : bip340Holds e = true) : e.1 ≠ Pt.inf := by
  obtain ⟨pk, m, sg⟩ := e
  cases pk with
  | inf => simp [bip340Holds] at h
  | aff px py => simp

/-- **Completeness.**  Assume the group law of the curve model (`gl : GroupLaw`, proved in
    `Proofs/Group.lean`).  If every input `(P_i, m_i, r_i ‖ s_i)` satisfies the BIP-340 verification
    equation `s_i • G = lift_x(r_i) + e_i • P_i` with `r_i < p`, `s_i < n` and a valid key object
    (`bip340Holds`, a decidable predicate), the signatures are 64 bytes, and the buffer has room, then
    `aggregate` returns 1 and `aggverify` ACCEPTS the produced `32*(n+1)`-byte aggregate for the same
    keys and messages — for every `n`, every buffer, all keys, messages and signatures.

    (`Schnorr.verify` checks the equivalent form `(-e_i) • P_i + s_i • G = R_i`; passing from it to the
    equation above needs `n • P_i = ∞` for arbitrary curve points, i.e. the group order, which is not
    part of the `GroupLaw` interface — hence the hypothesis is stated as the equation itself.) -/
theorem agg_complete (gl : GroupLaw) (buf : Bytes) (xs : List Entry)
    (hsig : ∀ e ∈ xs, e.2.2.length = 64) (hn : xs.length < sizeMax)
    (hbuf : 32 * (xs.length + 1) ≤ buf.length)
    (hok : ∀ e ∈ xs, bip340Holds e = true) :
    let r := aggregate buf (keys xs) (msgs xs) (sigs xs)
    r.ret = 1 ∧ (aggBytes r).length = 32 * (xs.length + 1) ∧
    (aggverify (keys xs) (msgs xs) (some (aggBytes r))).ret = 1 := by
  intro r
  have hkeys : ∀ e ∈ xs, e.1 ≠ Pt.inf := fun e he => key_valid_of_bip340Holds e (hok e he)
  have hret : r.ret = 1 := (aggregate_ok_iff buf xs hn).2 ⟨hbuf, hkeys⟩
  have hlrs := length_rs xs hsig
  have hN : N < 2 ^ 256 := by decide +kernel
  -- the aggregate is `r_0 ‖ … ‖ r_{n-1} ‖ bytes32(S)` with `S` the scalar accumulated by the second loop
  have hcl := aggregate_closed buf xs hn
  simp only [hbuf, if_true] at hcl
  cases hx : absorbNewSt 0 xs tagAgg 0 with
  | none =>
    have := (absorbNewSt_isSome 0 xs tagAgg 0).2 hkeys
    rw [hx] at this; simp at this
  | some r1 =>
    rw [hx] at hcl
    have hS : r1.2 < N := absorbNewSt_lt 0 xs tagAgg 0 r1 hx (by decide +kernel)
    have hr : r = ⟨1, (rs xs ++ Bytes.be32 r1.2 ++ buf.drop (32 * (xs.length + 1)), 32 * (1 + xs.length)), 0⟩ := hcl
    have hagg : aggBytes r = rs xs ++ Bytes.be32 r1.2 := by
      rw [hr]
      show List.take (32 * (1 + xs.length)) _ = _
      rw [List.take_append_of_le_length (by simp [hlrs, Bytes.length_be32]; omega)]
      exact List.take_of_length_le (by simp [hlrs, Bytes.length_be32]; omega)
    have hlen : (aggBytes r).length = 32 * (xs.length + 1) := by
      rw [hagg]; simp [hlrs, Bytes.length_be32]; omega
    refine ⟨hret, hlen, ?_⟩
    -- the verification loop recomputes `S • G`
    have hloop := verifyLoop_complete gl [] (Bytes.be32 r1.2) 0 xs tagAgg 0 r1 rfl hsig hok (by decide +kernel) hx
    rw [gl.mul_zero, List.nil_append, ← hagg] at hloop
    have hchunk : chunk32 (aggBytes r) xs.length = Bytes.be32 r1.2 := by
      rw [hagg]
      have := chunk32_mid (rs xs) (Bytes.be32 r1.2) [] xs.length hlrs (Bytes.length_be32 _)
      simpa using this
    have hg : ¬ ((aggBytes r).length / 32 ≤ 0 ∨ (aggBytes r).length / 32 - 1 ≠ xs.length ∨
        (aggBytes r).length % 32 ≠ 0) := by
      rw [hlen]; omega
    have hov : ¬ (r1.2 ≥ N) := by omega
    unfold aggverify
    simp only [length_keys]
    simp only [if_neg hg, zip_keys_msgs, hloop, hchunk, Sc.setB32,
      Bytes.toNat_be32 _ (Nat.lt_trans hS hN), Nat.mod_eq_of_lt hS, hov, decide_false, Bool.false_eq_true,
      if_false, Pt.mulG, neg_add_self_mulG gl r1.2 (by have := two_N_lt_mulBound; omega)]
    rfl

/-! ## Non-vacuity on real signatures

Two entries with genuine BIP-340 signatures (made with the model's `Schnorr.signInternal` for the secret
keys 3 and 5; pasted as literals so that the kernel does not have to re-sign). -/

def sgE1 : Entry :=
  (Pt.aff 0xf9308a019258c31049344f85f89d5229b531c845836f99b08601f113bce036f9
    0x388f7b0f632de8140fe337e62a37f3566500a99934c2231b6cb9fd7584b8e672,
   List.replicate 32 17,
   [0x80, 0x2c, 0xb0, 0x66, 0x82, 0x60, 0x37, 0xb9, 0xc4, 0xc2, 0x23, 0xab, 0x75, 0x54, 0x16, 0x37, 0xf5, 0x84, 0xfa, 0x99, 0x08, 0x0d, 0x46, 0x29, 0xed, 0x37, 0x49, 0x08, 0xa2, 0x41, 0x43, 0xc7, 0xd0, 0x71, 0x40, 0x81, 0x51, 0x88, 0x20, 0x93, 0xa4, 0x00, 0x2b, 0x71, 0x9b, 0xd7, 0x16, 0x8b, 0xf3, 0xfd, 0xc0, 0xa9, 0x7c, 0x0c, 0x2d, 0xe6, 0x87, 0xff, 0xf5, 0xb5, 0xc8, 0x9a, 0xa7, 0x12])
def sgE2 : Entry :=
  (Pt.aff 0x2f8bde4d1a07209355b4a7250a5c5128e88b84bddc619ab7cba8d569b240efe4
    0xd8ac222636e5e3d6d4dba9dda6c9c426f788271bab0d6840dca87d3aa6ac62d6,
   List.replicate 32 34,
   [0xb7, 0xb8, 0xf8, 0x32, 0x8f, 0x37, 0x10, 0x0d, 0xa8, 0xe4, 0x6d, 0xbb, 0xb6, 0xb2, 0xb2, 0xb8, 0x7c, 0x93, 0x79, 0x53, 0x35, 0x88, 0xa8, 0x86, 0x1f, 0x34, 0xf0, 0xa3, 0xab, 0x5a, 0x73, 0xda, 0x3e, 0x74, 0x29, 0x4d, 0x72, 0x58, 0x88, 0x85, 0xca, 0xab, 0xd4, 0x99, 0xee, 0x1d, 0xc1, 0xe6, 0x33, 0x77, 0x39, 0x61, 0x09, 0x1a, 0xb9, 0x15, 0xe9, 0xd1, 0x51, 0x8f, 0x46, 0xb5, 0xc4, 0x7c])

/-- the honest aggregate of the two signatures (96 bytes) -/
def exAgg : Bytes :=
  aggBytes (aggregate (Bytes.zeros 96) (keys [sgE1, sgE2]) (msgs [sgE1, sgE2]) (sigs [sgE1, sgE2]))

/-- The first one is accepted by `secp256k1_schnorrsig_verify` (so is the second; one kernel
    evaluation is enough here, each costs ~25 s) … -/
example : (Schnorr.verify sgE1.2.2 sgE1.2.1 sgE1.1).ret = 1 := by decide +kernel

/-- … and both satisfy the hypotheses of `agg_complete` (equation `s•G = R + e•P`, 64 bytes, room in the
    buffer). -/
example : bip340Holds sgE1 = true := by decide +kernel
example : bip340Holds sgE2 = true := by decide +kernel
example : (∀ e ∈ [sgE1, sgE2], e.2.2.length = 64) ∧ [sgE1, sgE2].length < sizeMax ∧
    32 * ([sgE1, sgE2].length + 1) ≤ (Bytes.zeros 96).length := by decide +kernel

/-- The conclusion of `agg_complete` / the left-hand side of `aggverify_iff_spec`, evaluated by the
    kernel without any group-law assumption: the honest aggregate is accepted. -/
theorem exAgg_accepted : (aggverify (keys [sgE1, sgE2]) (msgs [sgE1, sgE2]) (some exAgg)).ret = 1 := by
  decide +kernel

/-- Hence the specification side of `aggverify_iff_spec` is satisfiable with `n = 2`. -/
example : exAgg.length = 32 * (2 + 1) ∧
    ∃ terms : List Pt,
      (List.range 2).map (termSpec exAgg (List.zip (keys [sgE1, sgE2]) (msgs [sgE1, sgE2]))) = terms.map some ∧
      Bytes.toNat (chunk32 exAgg 2) < N ∧
      Pt.add (Pt.neg (Pt.mulG (Bytes.toNat (chunk32 exAgg 2)))) (Pt.sum terms) = Pt.inf :=
  (aggverify_iff_spec (keys [sgE1, sgE2]) (msgs [sgE1, sgE2]) exAgg rfl).1 exAgg_accepted

/-- Guards, non-vacuity: each hypothesis of `aggverify_guards` is satisfiable — one byte appended
    (length 97), `s` replaced by `ff…ff ≥ n`, `r_0` replaced by `ff…ff ≥ p`, `r_1` replaced by `00…05`
    (`5^3 + 7 = 132` is not a square mod p), an invalid key object in position 1. -/
example : (exAgg ++ [0]).length ≠ 32 * ((keys [sgE1, sgE2]).length + 1) := by decide +kernel
example : Bytes.toNat (chunk32 (exAgg.take 64 ++ List.replicate 32 0xff) 2) ≥ N := by decide +kernel
example : Bytes.toNat (chunk32 (List.replicate 32 0xff ++ exAgg.drop 32) 0) ≥ P := by decide +kernel
example : (Codec.feLimit (chunk32 (exAgg.take 32 ++ Bytes.be32 5 ++ exAgg.drop 64) 1)).bind
    (fun rx => Pt.liftX rx false) = none := by decide +kernel
example : [sgE1.1, Pt.inf][1]? = some Pt.inf := rfl

/-- Altering a single bit of the aggregate (here the lowest bit of `s`) makes this aggregate invalid
    (evaluation; in general this is the unforgeability of the scheme, not a theorem about the code). -/
example : (aggverify (keys [sgE1, sgE2]) (msgs [sgE1, sgE2])
    (some (exAgg.take 95 ++ [exAgg[95]! ^^^ 1]))).ret = 0 := by decide +kernel

end Halfagg
end SecpZkp
