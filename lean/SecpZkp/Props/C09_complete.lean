import SecpZkp.Props.C09_ring
import SecpZkp.Proofs.RangeproofAssemble
/-
  C09 (part "complete"): every range proof the library creates verifies and reports the header's range, which contains
  the value: `secp256k1_rangeproof_sign` ⇒ `secp256k1_rangeproof_verify` (`rangeproof_complete`).  Closed form (uses
  `groupLaw`); SHA-256, HMAC/RFC 6979 and the field square root are treated as opaque.

  Ingredients: `Props/C09_ring.lean` (the embedded Borromean signature verifies), `Props/C09_params.lean` (parameter
  derivation, header round trip), `Proofs/RangeproofSign.lean` (`genrand`, `takeNonces`, the hypotheses of the ring theorem
  hold inside `sign_impl`), `Proofs/RangeproofVerify.lean` (sign bytes and digit commitments are read back),
  `Proofs/RangeproofAlgebra.lean` (`commit − min•H − Σ digits` is the last digit commitment),
  `Proofs/RangeproofAssemble.lean` (scalar round trip, forward direction of `verifyImpl`).

  NOT proved: `rewind_recovers` (rewinding with the creator's nonce returns value, blinding factor and message).
-/
namespace SecpZkp
namespace Rangeproof
open SecpZkp.Algebra SecpZkp.C09

theorem length_flatten_be32 (l : List Pt) : ((l.map (fun p => Bytes.be32 p.xOf)).flatten).length = 32 * l.length := by
  induction l with
  | nil => rfl
  | cons p ps ih => simp only [List.map_cons, List.flatten_cons, List.length_append, Bytes.be32_length, ih,
      List.length_cons]; omega

theorem length_flatMap_be32 (l : List Nat) : (l.flatMap Bytes.be32).length = 32 * l.length := by
  induction l with
  | nil => rfl
  | cons p ps ih => simp only [List.flatMap_cons, List.length_append, Bytes.be32_length, ih, List.length_cons]; omega


/-- slicing a five-part byte string -/
theorem five_parts {α : Type} (A B C E F : List α) (a b c e : Nat) (ha : A.length = a) (hb : B.length = b)
    (hc : C.length = c) (he : E.length = e) :
    (A ++ B ++ C ++ E ++ F).take a = A ∧ ((A ++ B ++ C ++ E ++ F).drop a).take b = B ∧
    (A ++ B ++ C ++ E ++ F).drop (a + b) = C ++ (E ++ F) ∧
    ((A ++ B ++ C ++ E ++ F).drop (a + b + c)).take e = E ∧
    (A ++ B ++ C ++ E ++ F).drop (a + b + c + e) = F ∧
    (A ++ B ++ C ++ E ++ F).length = a + b + c + e + F.length ∧
    (A ++ B ++ C ++ E ++ F) = A ++ (B ++ (C ++ (E ++ F))) := by
  subst ha hb hc he
  have e1 : A ++ B ++ C ++ E ++ F = A ++ (B ++ (C ++ (E ++ F))) := by simp only [List.append_assoc]
  refine ⟨?_, ?_, ?_, ?_, ?_, ?_, e1⟩
  · rw [e1, List.take_left' rfl]
  · rw [e1, List.drop_left' rfl, List.take_left' rfl]
  · rw [e1, ← List.drop_drop, List.drop_left' rfl, List.drop_left' rfl]
  · rw [e1, ← List.drop_drop, ← List.drop_drop, List.drop_left' rfl, List.drop_left' rfl, List.drop_left' rfl,
      List.take_left' rfl]
  · rw [e1, ← List.drop_drop, ← List.drop_drop, ← List.drop_drop, List.drop_left' rfl, List.drop_left' rfl,
      List.drop_left' rfl, List.drop_left' rfl]
  · simp only [List.length_append]

/-- the hash state after commitment, generator and header is a streaming state -/
theorem shaPrefix_absorbed (commit genp : Pt) (hdr : Bytes) :
    Sha256.AbsorbedFrom Sha256.iv 0 (shaPrefix commit genp hdr)
      ([] ++ serializePoint commit ++ serializePoint genp ++ hdr) :=
  Sha256.absorbedFrom_write (Sha256.absorbedFrom_write (Sha256.absorbedFrom_write Sha256.absorbedFrom_init _) _) _

/-- **C09, completeness at the level of the `_impl` functions** (`signImpl` ⇒ `verifyImpl`), for a commitment POINT
    `commit = blind•G + value•genp`; see `rangeproof_complete` for the statement in words. -/
theorem rangeproof_complete_impl (plen minValue : Nat) (commit : Pt) (blind nonce : Bytes) (exp minBits : Int)
    (value : Nat) (message : Option Bytes) (msgLen : Nat) (extra : Option Bytes) (genp : Pt) (proof : Bytes)
    (min0 max0 : Nat)
    (hgen : genp.valid = true) (hval : value < 2 ^ 64)
    (hcommit : commit = Pt.add (Pt.mulG (Sc.setB32 blind).1) (Pt.mul value genp))
    (hnoinf : ∀ p ∈ signRingKeys (signParams minValue value exp minBits)
      (signRand (signParams minValue value exp minBits) message msgLen nonce commit genp) blind genp, p ≠ .inf)
    (hsign : signImpl plen minValue commit blind nonce exp minBits value message msgLen extra genp = some proof) :
    verifyImpl none none min0 max0 commit proof extra genp =
      ⟨true, (signParams minValue value exp minBits).minValue,
        (signParams minValue value exp minBits).minValue +
          (2 ^ (signParams minValue value exp minBits).mantissa - 1) * (signParams minValue value exp minBits).scale,
        none, none, none⟩ ∧
    (signParams minValue value exp minBits).minValue ≤ value ∧
    value ≤ (signParams minValue value exp minBits).minValue +
      (2 ^ (signParams minValue value exp minBits).mantissa - 1) * (signParams minValue value exp minBits).scale := by
  have : HasGroupLaw := ⟨groupLaw⟩
  obtain ⟨hplen, hmin, he1, he2, hb1, hb2, hret, hreq⟩ :=
    signImpl_uses plen minValue commit blind nonce exp minBits value message msgLen extra genp proof hsign
  have pre : SignPre minValue value exp minBits := ⟨hmin, hval, he1, he2, hb1, hb2⟩
  obtain ⟨hgr, hbov, hcore⟩ :=
    signImpl_core plen minValue commit blind nonce exp minBits value message msgLen extra genp proof hsign
  generalize hpp : signParams minValue value exp minBits = pp at *
  have hppe : pp = proveParams 0 minValue exp minBits value := hpp.symm
  have ok : ParamsOK minValue value exp minBits pp := by
    rw [hppe]; exact proveparams_ok 0 minValue value exp minBits pre (hppe ▸ hret)
  obtain ⟨hlay1, hlay2⟩ := proveParams_layout minValue value exp minBits pre (hppe ▸ hret)
  rw [← hppe] at hlay1 hlay2
  have hrh := sign_ring_hyps minValue value exp minBits pre (by rw [hpp]; exact hret) message msgLen nonce blind commit genp
    (by rw [hpp]; exact hgr)
  simp only [hpp] at hrh
  obtain ⟨hrs, hl1, hl2, hl3, hls, hsN, hslen, hsecN, hzs, hring⟩ := hrh
  generalize hgrd : signRand pp message msgLen nonce commit genp = gr at *
  generalize hsecs : signSecs gr blind = secs at *
  generalize hks : takeNonces pp.secidx 0 gr.s = ks at *
  have hscale : pp.scale = 10 ^ (if pp.exp < 0 then 0 else pp.exp.toNat) := by
    rw [if_neg (not_lt.mpr ok.exp_ge)]; exact ok.scale_eq
  have hnoinf' : ∀ p ∈ pubExpand (digitPts pp.scale genp secs pp.secidx 0) pp.exp pp.rsizes genp, p ≠ .inf := by
    intro p hp; apply hnoinf p; unfold signRingKeys; rw [hsecs]; exact hp
  obtain ⟨sha1, signs, xs, e0, sOut, hdl, hbytes, hsig, hver⟩ :=
    rangeproof_ring_complete_partial (signHeader pp) (shaPrefix commit genp (signHeader pp)) pp.exp pp.scale pp.rsizes
      pp.secidx secs ks.1 ks.2 genp extra proof hgen hscale hrs hl1 hl2 hl3 hls hring hnoinf' hcore
  -- the digit commitments
  have hn1 : 1 ≤ pp.rsizes.length := by rw [ok.rsizes_len]; exact ok.rings_pos
  have hrings : pp.rsizes.length = pp.rings := ok.rsizes_len
  generalize hD : digitPts pp.scale genp secs pp.secidx 0 = D at *
  obtain ⟨d1, d2, d3, d4, d5⟩ := digitLoop_out pp.rsizes.length pp.scale genp secs pp.secidx 0 _ _ _ _ _ _ _ _
    (hD ▸ hdl) (by rw [hl2]; omega)
    (by intro t ht; rw [Algebra.length_zeros, Nat.shiftRight_eq_div_pow]; omega)
  rw [hD] at d1 d2 d3 d5
  obtain ⟨L, hDL, hLlen, hLsum⟩ := digitPts_vsum pp.scale genp hgen secs pp.secidx 0 (by omega) hsecN
  rw [hD] at hDL
  have hLne : L ≠ [] := by intro h; rw [h] at hLlen; simp at hLlen; omega
  have hDlen : D.length = pp.rsizes.length := by rw [hDL, List.length_map, hLlen, hl2]
  have hDne : D ≠ [] := by intro h; rw [h] at hDlen; simp at hDlen; omega
  have hDdl : D.dropLast = L.dropLast.map Subtype.val := by rw [hDL, List.map_dropLast]
  have hDgl : D.getLast hDne = (L.getLast hLne).1 := by
    have : D.getLast? = some (L.getLast hLne).1 := by
      rw [hDL, List.getLast?_map, List.getLast?_eq_some_getLast hLne]; rfl
    rw [List.getLast?_eq_some_getLast hDne] at this
    exact Option.some.inj this
  have hDdllen : D.dropLast.length = pp.rsizes.length - 1 := by rw [List.length_dropLast, hDlen]
  have hDsplit : D.dropLast ++ [D.getLast hDne] = D := List.dropLast_append_getLast hDne
  -- the signer's scalars
  obtain ⟨se0, sOlen, sON⟩ := Borromean.sign_out hsig
  have sON' := sON hsN
  -- lengths of the parts of the proof
  have hsignsl : signs.length = (pp.rsizes.length + 6) >>> 3 := by rw [d4, Algebra.length_zeros]
  have hxsl : xs.length = 32 * (pp.rsizes.length - 1) := by
    rw [d3, List.nil_append, length_flatten_be32, hDdllen]
  have hflat : (sOut.flatMap Bytes.be32).length = 32 * pp.rsizes.sum := by
    rw [length_flatMap_be32, sOlen, hslen]
  obtain ⟨p1, p2, p3, p4, p5, p6, p7⟩ := five_parts (signHeader pp) signs xs e0 (sOut.flatMap Bytes.be32) _ _ _ _
    rfl hsignsl hxsl se0
  rw [← hbytes] at p1 p2 p3 p4 p5 p6 p7
  -- the header
  have hsum1 : 1 ≤ pp.rsizes.sum := by
    cases hr : pp.rsizes with
    | nil => rw [hr] at hn1; simp at hn1
    | cons r rs => have := hrs r (by rw [hr]; simp); simp; omega
  obtain ⟨hhdr, hr1, hr2, hr3⟩ := header_roundtrip 0 minValue value exp minBits pre pp hppe hret
    (signs ++ (xs ++ (e0 ++ sOut.flatMap Bytes.be32))) ⟨false, 0, 0, 0, 0, min0, max0⟩ rfl
    (by have hk1 := (signHeader_length_le pp).1; rw [← p7, p6, hflat]; omega)
  rw [← p7] at hhdr
  refine ⟨?_, hr1, hr2⟩
  have hlayout : layout pp.mantissa = (pp.rings, pp.rsizes, pp.rsizes.sum) := by
    have h3 := (layout_spec pp.mantissa).2.2.2.1
    rw [hlay2] at h3
    exact Prod.ext hlay1 (Prod.ext hlay2 h3.symm)
  -- the commitment
  have hbN : (Sc.setB32 blind).1 < N := Borromean.setB32_fst_lt _
  have hvalB : value < mulBound := lt_trans hval (by decide +kernel)
  have hminB : pp.minValue < mulBound := lt_of_le_of_lt hr1 hvalB
  have hcommitV : commit = (gmulV ((Sc.setB32 blind).1 : ZMod N) + value • (⟨genp, hgen⟩ : VPt)).1 := by
    rw [hcommit, mulG_eq_gmul (lt_mulBound_of_lt_N hbN)]
    show Pt.add (gmulV _).1 (Pt.mul _ (⟨genp, hgen⟩ : VPt).1) = _
    rw [mul_val hvalB]; rfl
  have hacc0 : (if pp.minValue ≠ 0 then Pt.mul pp.minValue genp else Pt.inf) = (pp.minValue • (⟨genp, hgen⟩ : VPt)).1 := by
    by_cases h0 : pp.minValue = 0
    · rw [if_neg (not_not.mpr h0), h0, zero_smul]; rfl
    · rw [if_pos h0]; exact mul_val hminB (⟨genp, hgen⟩ : VPt)
  have hdv : dvsum pp.scale pp.secidx 0 secs.length + pp.minValue = value := by
    rw [hl2, dvsum_nowrap pp.scale pp.secidx 0 pp.rsizes.length (by omega)
      (fun t ht => by rw [Nat.zero_add]; exact (hring t ht).2.2.2.1)]
    rw [List.take_of_length_le (by omega), ok.digits, Nat.pow_zero, Nat.mul_one, Nat.mul_comm]
    exact ok.value_eq
  have hlast : Pt.add (Pt.neg (D.dropLast.foldl Pt.add (if pp.minValue ≠ 0 then Pt.mul pp.minValue genp else Pt.inf)))
      commit = D.getLast hDne := by
    rw [hacc0, hDdl, hcommitV, hDgl]
    exact last_digit_eq _ L hLne _ value pp.minValue _ (by rw [hLsum, hzs]) hdv
  have hlastne : D.getLast hDne ≠ .inf := d1 _ (List.getLast_mem hDne)
  -- what the verifier reads back
  have hvalidD : ∀ p ∈ D.dropLast, p.valid = true ∧ p ≠ .inf := by
    intro p hp
    have hpD : p ∈ D := List.mem_of_mem_dropLast hp
    refine ⟨?_, d1 p hpD⟩
    rw [hDL] at hpD
    obtain ⟨v, _, rfl⟩ := List.mem_map.mp hpD
    exact v.2
  have hbits : ∀ k, k < D.dropLast.length → signBit signs (0 + k) = (qflag (D.dropLast.getD k .inf) == 1) := by
    intro k hk
    rw [hDdllen] at hk
    rw [Nat.zero_add, d5 k, if_pos ⟨Nat.zero_le _, by omega⟩, signBit_zeros, Bool.false_or, Nat.sub_zero]
    congr 2
    rw [List.getD_eq_getElem?_getD, List.getD_eq_getElem?_getD, List.getElem?_dropLast, if_pos (by omega)]
  have hrd := readDigits_roundtrip D.dropLast 0 signs (e0 ++ sOut.flatMap Bytes.be32)
    (shaPrefix commit genp (signHeader pp)) _
    (if pp.minValue ≠ 0 then Pt.mul pp.minValue genp else Pt.inf) [] (shaPrefix_absorbed commit genp (signHeader pp))
    hvalidD hbits
  rw [hDdllen, List.nil_append, ← d2] at hrd
  rw [List.nil_append] at d3
  rw [← d3] at hrd
  have hnsign : (pp.rsizes.length + 6) >>> 3 = (pp.rsizes.length + 6) / 8 := Nat.shiftRight_eq_div_pow _ 3
  have hlayout' : layout ((pp.mantissa : Int)).toNat = (pp.rsizes.length, pp.rsizes, pp.rsizes.sum) := by
    rw [Int.toNat_natCast, hlayout, hrings]
  refine verifyImpl_accept_of min0 max0 commit proof extra genp _ hhdr rfl pp.rsizes.length pp.rsizes pp.rsizes.sum
    hlayout' ?_ ?_ D.dropLast
    (D.dropLast.foldl Pt.add (if pp.minValue ≠ 0 then Pt.mul pp.minValue genp else Pt.inf)) sha1 sOut ?_ ?_ ?_ ?_ ?_
  · show ¬ (proof.length - (signHeader pp).length < _)
    rw [p6, hflat]; omega
  · show ¬ ((pp.rsizes.length - 1) &&& 7 ≠ 0 ∧
      (proof.getD ((signHeader pp).length + (pp.rsizes.length + 6) >>> 3 - 1) 0).toNat >>> ((pp.rsizes.length - 1) &&& 7) ≠ 0)
    rintro ⟨hm7, hne⟩
    apply hne
    have hand : (pp.rsizes.length - 1) &&& 7 = (pp.rsizes.length - 1) % 8 := Nat.and_two_pow_sub_one_eq_mod _ 3
    rw [hand] at hm7 ⊢
    have hidx : proof.getD ((signHeader pp).length + (pp.rsizes.length + 6) >>> 3 - 1) 0 =
        signs.getD ((pp.rsizes.length + 6) / 8 - 1) 0 := by
      rw [p7, List.getD_eq_getElem?_getD, List.getD_eq_getElem?_getD, hnsign,
        show (signHeader pp).length + (pp.rsizes.length + 6) / 8 - 1 =
          (signHeader pp).length + ((pp.rsizes.length + 6) / 8 - 1) by omega,
        List.getElem?_append_right (by omega), Nat.add_sub_cancel_left,
        List.getElem?_append_left (by rw [hsignsl, hnsign]; omega)]
    rw [hidx]
    apply high_bits_zero _ _ (Nat.mod_lt _ (by decide))
    intro pos hpos hk
    have hsb := d5 (8 * ((pp.rsizes.length + 6) / 8 - 1) + pos)
    rw [if_neg (by omega), signBit_zeros] at hsb
    unfold signBit at hsb
    have e1 : (8 * ((pp.rsizes.length + 6) / 8 - 1) + pos) / 8 = (pp.rsizes.length + 6) / 8 - 1 := by omega
    have e2 : (8 * ((pp.rsizes.length + 6) / 8 - 1) + pos) % 8 = pos := by omega
    rw [e1, e2] at hsb
    simpa using hsb
  · show readDigits (pp.rsizes.length - 1) 0 ((proof.drop (signHeader pp).length).take ((pp.rsizes.length + 6) >>> 3))
      (proof.drop ((signHeader pp).length + (pp.rsizes.length + 6) >>> 3))
      (shaPrefix commit genp (proof.take (signHeader pp).length)) _ [] = _
    rw [p1, p2, p3]
    exact hrd
  · rw [hlast]
    cases hg : D.getLast hDne with
    | inf => exact absurd hg hlastne
    | aff _ _ => rfl
  · show readScalars pp.rsizes.sum (proof.drop ((signHeader pp).length + (pp.rsizes.length + 6) >>> 3 +
      32 * (pp.rsizes.length - 1) + 32)) = some sOut
    rw [p5]
    have := readScalars_flat [] sOut sON'
    rw [List.append_nil, sOlen, hslen] at this
    exact this
  · show (signHeader pp).length + (pp.rsizes.length + 6) >>> 3 + 32 * (pp.rsizes.length - 1) + 32 + 32 * pp.rsizes.sum =
      proof.length
    rw [p6, hflat]
  · show (Borromean.verify ((proof.drop ((signHeader pp).length + (pp.rsizes.length + 6) >>> 3 +
      32 * (pp.rsizes.length - 1))).take 32) sOut
      (pubExpand (D.dropLast ++ [Pt.add (Pt.neg (D.dropLast.foldl Pt.add
        (if pp.minValue ≠ 0 then Pt.mul pp.minValue genp else Pt.inf))) commit]) (if pp.mantissa = 0 then -1 else pp.exp) pp.rsizes genp)
      pp.rsizes (Sha256.finalize (absorbExtra sha1 extra))).1 = true
    rw [p4, hlast, hDsplit]
    have hexp : pubExpand D (if pp.mantissa = 0 then -1 else pp.exp) pp.rsizes genp = pubExpand D pp.exp pp.rsizes genp := by
      apply pubExpand_exp
      by_cases hm0 : pp.mantissa = 0
      · have hex := proveParams_exact 0 minValue value exp minBits (ok.exact_iff.1 hm0)
        have hpe : pp.exp = 0 := by rw [hppe, hex]
        rw [if_pos hm0, hpe]; rfl
      · rw [if_neg hm0]
    rw [hexp]
    exact hver


/-- a commitment object produced by `secp256k1_pedersen_commit` loads to `blind•G + value•gen` -/
theorem commitLoad_of_commit {blind : Bytes} {value : Nat} {gen : Pt} {commit : Bytes}
    (hgen : gen.valid = true) (hval : value < 2 ^ 64) (h : Generator.commit blind value gen = some commit) :
    Generator.commitLoad commit = Pt.add (Pt.mulG (Sc.setB32 blind).1) (Pt.mul value gen) := by
  have : HasGroupLaw := ⟨groupLaw⟩
  by_cases hlt : Bytes.toNat blind < N
  · rw [GeneratorLemmas.commit_of_lt value gen hlt] at h
    have hb : (Sc.setB32 blind).1 = Bytes.toNat blind := by
      show Bytes.toNat blind % N = _
      exact Nat.mod_eq_of_lt hlt
    rw [hb]
    split at h
    · simp at h
    next hne =>
    simp only [Option.some.injEq] at h
    have hvb : value < mulBound := lt_trans hval (by decide +kernel)
    have hv : (Pt.add (Pt.mulG (Bytes.toNat blind)) (Pt.mul value gen)).valid = true :=
      gl.valid_add _ _ (Algebra.mulG_valid (Algebra.lt_mulBound_of_lt_N hlt)) (Algebra.valid_mul hvb hgen)
    cases hp : Pt.add (Pt.mulG (Bytes.toNat blind)) (Pt.mul value gen) with
    | inf => exact absurd hp hne
    | aff x y =>
      rw [hp] at h hv
      rw [← h]
      exact GeneratorLemmas.commitLoad_commitSave hv
  · rw [GeneratorLemmas.commit_of_ge value gen (by omega)] at h
    simp at h

/-- **C09, completeness of range proofs.**  Let `gen` be a valid generator, `value < 2^64`, and `commit` the Pedersen
    commitment `secp256k1_pedersen_commit(blind, value, gen)`.  If `secp256k1_rangeproof_sign` succeeds with output
    `proof` — for any buffer size, requested minimum, exponent, bit count, nonce, message and extra commitment — and no
    key of the ring array the prover derived (`signRingKeys`, the `pubs` array after `secp256k1_rangeproof_pub_expand`)
    is the point at infinity, then `secp256k1_rangeproof_verify` accepts `proof` for the same commitment, extra
    commitment and generator, and reports the range `[min', min' + (2^mantissa − 1)·10^exp']` of the parameter set chosen
    by `secp256k1_range_proveparams` — the range encoded in the header — which contains the value.

    The side condition on the ring keys is necessary in the same sense as for `Borromean.borromean_complete`: the prover
    never tests the expanded keys, the verifier rejects an infinite key at any position (`ring key = ∞` means
    `sec_i•G = (j − d_i)·4^i·10^exp•gen` for some ring `i` and position `j`, i.e. a discrete-log relation between the
    derived blinding factor and `gen`).  Everything else the verifier checks is derived here from the successful
    return of `sign`: the header round trip, the ring layout, the sign bytes and their padding bits, the x-coordinates
    of the digit commitments, `commit − min'•gen − Σ digits` being the last digit commitment, the scalar encoding, the
    total length, and the Borromean ring equation (`Borromean.borromean_complete`). -/
theorem rangeproof_complete (plen minValue : Nat) (commit blind nonce : Bytes) (exp minBits : Int) (value : Nat)
    (message extra : Option Bytes) (gen : Pt) (proof : Bytes) (min0 max0 : Nat)
    (hgen : gen.valid = true) (hval : value < 2 ^ 64)
    (hcommit : Generator.commit blind value gen = some commit)
    (hnoinf : ∀ p ∈ signRingKeys (signParams minValue value exp minBits)
      (signRand (signParams minValue value exp minBits) message ((message.map List.length).getD 0) nonce
        (Generator.commitLoad commit) gen) blind gen, p ≠ .inf)
    (hsign : sign plen minValue commit blind nonce exp minBits value message extra gen = some proof) :
    verify min0 max0 commit proof extra gen =
      ⟨true, (signParams minValue value exp minBits).minValue,
        (signParams minValue value exp minBits).minValue +
          (2 ^ (signParams minValue value exp minBits).mantissa - 1) * (signParams minValue value exp minBits).scale,
        none, none, none⟩ ∧
    (signParams minValue value exp minBits).minValue ≤ value ∧
    value ≤ (signParams minValue value exp minBits).minValue +
      (2 ^ (signParams minValue value exp minBits).mantissa - 1) * (signParams minValue value exp minBits).scale :=
  rangeproof_complete_impl plen minValue (Generator.commitLoad commit) blind nonce exp minBits value message
    ((message.map List.length).getD 0) extra gen proof min0 max0 hgen hval (commitLoad_of_commit hgen hval hcommit)
    hnoinf hsign


/-! ### Non-vacuity -/

/-- example instance: generator `2•G`, value 1 (one ring of size 2), blinding factor 7, nonce 9, no message, no extra
    commitment, a 200-byte buffer -/
def xGen : Pt := Pt.mulG 2
def xBlind : Bytes := Bytes.be32 7
def xNonce : Bytes := Bytes.be32 9
def xCommit : Bytes := (Generator.commit xBlind 1 xGen).getD []

set_option maxRecDepth 100000 in
theorem x_commit : Generator.commit xBlind 1 xGen = some xCommit := by decide +kernel
set_option maxRecDepth 100000 in
theorem x_gen : xGen.valid = true := by decide +kernel
set_option maxRecDepth 100000 in
theorem x_sign : (sign 200 0 xCommit xBlind xNonce 0 0 1 none none xGen).isSome = true := by decide +kernel
set_option maxRecDepth 100000 in
theorem x_noinf : ∀ p ∈ signRingKeys (signParams 0 1 0 0)
    (signRand (signParams 0 1 0 0) none ((Option.map List.length (none : Option Bytes)).getD 0) xNonce
      (Generator.commitLoad xCommit) xGen) xBlind xGen, p ≠ .inf := by decide +kernel

/-- Non-vacuity of `rangeproof_complete`: for the example instance `secp256k1_rangeproof_sign` (evaluated by the kernel,
    RFC 6979 randomness included) succeeds and every hypothesis holds, so the proof it wrote verifies. -/
example : ∃ proof, sign 200 0 xCommit xBlind xNonce 0 0 1 none none xGen = some proof ∧
    (verify 0 0 xCommit proof none xGen).ret = true := by
  obtain ⟨proof, hp⟩ := Option.isSome_iff_exists.mp x_sign
  refine ⟨proof, hp, ?_⟩
  have := (rangeproof_complete 200 0 xCommit xBlind xNonce 0 0 1 none none xGen proof 0 0 x_gen (by decide) x_commit
    x_noinf hp).1
  rw [this]

end Rangeproof
end SecpZkp
