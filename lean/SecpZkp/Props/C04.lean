import SecpZkp.Proofs.Keys
import SecpZkp.Proofs.GroupLawProved
import SecpZkp.Proofs.Heapsort
/-
  Property C04: secret-key and public-key operations commute (key derivation algebra).

  Conventions.  A secret key is a 32-byte string; a valid one is `Bytes.be32 d` with `0 < d < N`, and its
  public key is `pub d = Pt.mulG d = d•G`.  Every theorem below is unconditional: the group law is the
  theorem `groupLaw` (`Proofs/GroupLawProved.lean`), installed at the start of each proof.  The functions are
  those of `Model/Keys.lean`; `Ret` values are `⟨return value, output object, number of illegal-argument
  callbacks⟩`.  The zero public-key object is `Pt.inf`, the zero secret key is `Bytes.zeros 32`, the zero
  keypair is `Keys.Keypair.zero`.

  Helper definitions used in the statements (from `Proofs/Keys.lean`):
  * `evenSk d   = if (d•G) has odd y then N - d else d`  — the secret key of the even-y version of `d•G`;
  * `parityOf d = if (d•G) has odd y then 1 else 0`.

  The clause about sorting is in `Props/C04_sort.lean`.
-/
namespace SecpZkp
namespace C04
open SecpZkp.Algebra SecpZkp.KeysLemmas

/-! ### 1. Public-key creation -/

/-- **`secp256k1_ec_pubkey_create`** succeeds exactly for secret keys with `0 < value < N`; it then returns
`value•G`, which is a valid point different from infinity; otherwise it returns 0 and the zero object.
(Stated for byte strings of any length; the C function reads exactly 32 bytes.) -/
theorem pubkeyCreate_iff (sk : Bytes) :
    ((Keys.pubkeyCreate sk).1 = 1 ↔ 0 < Bytes.toNat sk ∧ Bytes.toNat sk < N) ∧
    ((Keys.pubkeyCreate sk).1 = 1 →
      (Keys.pubkeyCreate sk).2 = Pt.mulG (Bytes.toNat sk) ∧
      (Keys.pubkeyCreate sk).2.valid = true ∧ (Keys.pubkeyCreate sk).2 ≠ Pt.inf) ∧
    ((Keys.pubkeyCreate sk).1 ≠ 1 → Keys.pubkeyCreate sk = (0, Pt.inf)) := by
  have : HasGroupLaw := ⟨groupLaw⟩
  rw [pubkeyCreate_eq]
  by_cases h : 0 < Bytes.toNat sk ∧ Bytes.toNat sk < N
  · rw [if_pos h]
    exact ⟨⟨fun _ => h, fun _ => rfl⟩, fun _ => ⟨rfl, pub_valid h.2, pub_ne_inf h.1 h.2⟩,
      fun hne => absurd rfl hne⟩
  · rw [if_neg h]
    exact ⟨⟨fun h1 => absurd h1 (by simp), fun h1 => absurd h1 h⟩, fun h1 => absurd h1 (by simp),
      fun _ => rfl⟩

/-- `secp256k1_ec_seckey_verify` accepts exactly the keys for which public-key creation succeeds. -/
theorem seckeyVerify_iff (sk : Bytes) :
    Keys.seckeyVerify sk = 1 ↔ (Keys.pubkeyCreate sk).1 = 1 := by
  rw [(pubkeyCreate_iff sk).1, seckeyVerify_eq]
  by_cases h : 0 < Bytes.toNat sk ∧ Bytes.toNat sk < N <;> simp [h]

/-- In terms of the scalar: the public key of `be32 d` is `d•G`. -/
theorem pubkeyCreate_be32 (d : Nat) (hd0 : 0 < d) (hdN : d < N) :
    Keys.pubkeyCreate (Bytes.be32 d) = (1, Pt.mulG d) := KeysLemmas.pubkeyCreate_be32 hd0 hdN

/-- Different valid 32-byte secret keys have different public keys. -/
theorem pubkeyCreate_injective (sk₁ sk₂ : Bytes) (h₁ : sk₁.length = 32) (h₂ : sk₂.length = 32)
    (hv₁ : (Keys.pubkeyCreate sk₁).1 = 1) (hv₂ : (Keys.pubkeyCreate sk₂).1 = 1)
    (h : (Keys.pubkeyCreate sk₁).2 = (Keys.pubkeyCreate sk₂).2) : sk₁ = sk₂ := by
  have : HasGroupLaw := ⟨groupLaw⟩
  have a₁ := (pubkeyCreate_iff sk₁).1.1 hv₁
  have a₂ := (pubkeyCreate_iff sk₂).1.1 hv₂
  rw [((pubkeyCreate_iff sk₁).2.1 hv₁).1, ((pubkeyCreate_iff sk₂).2.1 hv₂).1] at h
  have := pub_inj a₁.2 a₂.2 h
  rw [← Bytes.be32_toNat sk₁ h₁, ← Bytes.be32_toNat sk₂ h₂, this]

example : Keys.pubkeyCreate (Bytes.be32 1) = (1, Pt.G) := by decide +kernel
example : Keys.pubkeyCreate (Bytes.be32 0) = (0, Pt.inf) ∧ Keys.pubkeyCreate (Bytes.be32 N) = (0, Pt.inf) ∧
    Keys.pubkeyCreate (Bytes.be32 (2 ^ 256 - 1)) = (0, Pt.inf) := by decide +kernel

/-! ### 3. Additive tweak -/

/-- **`seckey_tweak_add` and `pubkey_tweak_add` commute.**  For a valid secret key `d` (`0 < d < N`) and every
tweak string `t`: both functions fail exactly when `t ≥ N` or `d + t ≡ 0 (mod N)`.  When they succeed the
new secret key is `be32 ((d + t) mod N)` — a valid key — and the new public key is exactly the public key of
the new secret key.  When they fail, both output objects are zeroed. -/
theorem tweak_add_comm (d : Nat) (t : Bytes) (hd0 : 0 < d) (hdN : d < N) :
    let s := Keys.seckeyTweakAdd (Bytes.be32 d) t
    let p := Keys.pubkeyTweakAdd (Pt.mulG d) t
    let fails := N ≤ Bytes.toNat t ∨ (d + Bytes.toNat t) % N = 0
    (s.1 = 1 ↔ ¬ fails) ∧ (p.ret = 1 ↔ ¬ fails) ∧
    (¬ fails →
      s.2 = Bytes.be32 ((d + Bytes.toNat t) % N) ∧ p.out = Pt.mulG ((d + Bytes.toNat t) % N) ∧
      0 < Bytes.toNat s.2 ∧ Bytes.toNat s.2 < N ∧ p.out = Pt.mulG (Bytes.toNat s.2) ∧
      Keys.pubkeyCreate s.2 = (1, p.out) ∧ p.illegal = 0) ∧
    (fails → s = (0, Bytes.zeros 32) ∧ p.ret = 0 ∧ p.out = Pt.inf ∧ p.illegal = 0) := by
  have : HasGroupLaw := ⟨groupLaw⟩
  intro s p fails
  have hs : s = _ := seckeyTweakAdd_be32 hd0 hdN t
  have hp : p = _ := pubkeyTweakAdd_pub hd0 hdN t
  by_cases hc : Bytes.toNat t < N ∧ (d + Bytes.toNat t) % N ≠ 0
  · have hnf : ¬ fails := fun hf => hf.elim (fun h => absurd hc.1 (Nat.not_lt.2 h)) (fun h => hc.2 h)
    rw [if_pos hc] at hs hp
    clear_value s p fails
    subst hs hp
    have hX : (d + Bytes.toNat t) % N < N := Nat.mod_lt _ N_pos
    have h0 : 0 < (d + Bytes.toNat t) % N := Nat.pos_of_ne_zero hc.2
    have e := toNat_be32_of_lt_N hX
    refine ⟨⟨fun _ => hnf, fun _ => rfl⟩, ⟨fun _ => hnf, fun _ => rfl⟩, fun _ => ⟨rfl, rfl, ?_, ?_, ?_, ?_, rfl⟩,
      fun hf => absurd hf hnf⟩
    · show 0 < Bytes.toNat (Bytes.be32 _); rw [e]; exact h0
    · show Bytes.toNat (Bytes.be32 _) < N; rw [e]; exact hX
    · show _ = Pt.mulG (Bytes.toNat (Bytes.be32 _)); rw [e]
    · exact KeysLemmas.pubkeyCreate_be32 h0 hX
  · have hf : fails := by
      by_cases h1 : Bytes.toNat t < N
      · exact Or.inr (Classical.not_not.1 (fun h2 => hc ⟨h1, h2⟩))
      · exact Or.inl (Nat.not_lt.1 h1)
    rw [if_neg hc] at hs hp
    clear_value s p fails
    subst hs hp
    exact ⟨⟨fun h => absurd h (by simp), fun h => absurd hf h⟩,
      ⟨fun h => absurd h (by simp), fun h => absurd hf h⟩, fun h => absurd hf h,
      fun _ => ⟨rfl, rfl, rfl, rfl⟩⟩

/-- Operations on an invalid secret key fail and return the zero key (any tweak). -/
theorem seckey_ops_invalid (sk t : Bytes) (h : ¬ (0 < Bytes.toNat sk ∧ Bytes.toNat sk < N)) :
    Keys.seckeyTweakAdd sk t = (0, Bytes.zeros 32) ∧ Keys.seckeyTweakMul sk t = (0, Bytes.zeros 32) ∧
    Keys.seckeyNegate sk = (0, Bytes.zeros 32) ∧ Keys.pubkeyCreate sk = (0, Pt.inf) ∧
    Keys.keypairCreate sk = (0, Keys.Keypair.zero) := by
  rw [seckeyTweakAdd_eq, seckeyTweakMul_eq, seckeyNegate_eq, pubkeyCreate_eq, keypairCreate_eq]
  simp [h]

/-- Operations on the zero public-key object fail, return the zero object and raise exactly one
illegal-argument callback (except `tweak_mul` with an overflowing tweak, which returns before loading the key). -/
theorem pubkey_ops_invalid (t : Bytes) :
    Keys.pubkeyTweakAdd .inf t = ⟨0, .inf, 1⟩ ∧ Keys.pubkeyNegate .inf = ⟨0, .inf, 1⟩ ∧
    (Bytes.toNat t < N → Keys.pubkeyTweakMul .inf t = ⟨0, .inf, 1⟩) ∧
    (N ≤ Bytes.toNat t → Keys.pubkeyTweakMul .inf t = ⟨0, .inf, 0⟩) := by
  rw [pubkeyTweakAdd_eq, pubkeyNegate_eq, pubkeyTweakMul_eq]
  refine ⟨by simp, by simp, fun h => ?_, fun h => ?_⟩
  · rw [if_neg (Nat.not_le.2 h)]; simp
  · rw [if_pos h]

/-- Non-vacuity, with boundary values (`sameXY` is equality of points, see `sameXY_iff`): `5 + 7 = 12`;
the tweak `N - 5 = -key` makes both fail with zeroed outputs; the tweak `N` (overflow) makes both fail;
`d = N - 1`, `t = 2` wraps around to `1`. -/
example : Keys.seckeyTweakAdd (Bytes.be32 5) (Bytes.be32 7) = (1, Bytes.be32 12) ∧
    (Keys.pubkeyTweakAdd (Pt.mulG 5) (Bytes.be32 7)).ret = 1 ∧
    sameXY (Keys.pubkeyTweakAdd (Pt.mulG 5) (Bytes.be32 7)).out (Pt.mulG 12) := by decide +kernel
example : Keys.seckeyTweakAdd (Bytes.be32 5) (Bytes.be32 (N - 5)) = (0, Bytes.zeros 32) ∧
    (Keys.pubkeyTweakAdd (Pt.mulG 5) (Bytes.be32 (N - 5))).ret = 0 ∧
    (Keys.pubkeyTweakAdd (Pt.mulG 5) (Bytes.be32 (N - 5))).out = Pt.inf := by decide +kernel
example : Keys.seckeyTweakAdd (Bytes.be32 5) (Bytes.be32 N) = (0, Bytes.zeros 32) ∧
    (Keys.pubkeyTweakAdd (Pt.mulG 5) (Bytes.be32 N)).ret = 0 := by decide +kernel
example : Keys.seckeyTweakAdd (Bytes.be32 (N - 1)) (Bytes.be32 2) = (1, Bytes.be32 1) ∧
    sameXY (Keys.pubkeyTweakAdd (Pt.mulG (N - 1)) (Bytes.be32 2)).out Pt.G := by decide +kernel

/-- For an ARBITRARY valid public key `Q` (not necessarily of the form `d•G`; no assumption on its order):
`pubkey_tweak_add` fails exactly when `Q` is the zero object, `t ≥ N`, or `Q = -(t•G)`; on success the result
is `Q + t•G`, a valid point different from infinity. -/
theorem pubkeyTweakAdd_general (Q : Pt) (t : Bytes) (hQ : Q.valid = true) :
    let p := Keys.pubkeyTweakAdd Q t
    (p.ret = 1 ↔ Q ≠ Pt.inf ∧ Bytes.toNat t < N ∧ Q ≠ Pt.neg (Pt.mulG (Bytes.toNat t))) ∧
    (p.ret = 1 → p.out = Pt.add Q (Pt.mulG (Bytes.toNat t)) ∧ p.out.valid = true ∧ p.out ≠ Pt.inf) ∧
    (p.ret ≠ 1 → p.ret = 0 ∧ p.out = Pt.inf) := by
  have : HasGroupLaw := ⟨groupLaw⟩
  have : Fact (Nat.Prime P) := ⟨SecpZkp.prime_P⟩
  intro p
  have hp : p = _ := pubkeyTweakAdd_eq Q t
  clear_value p
  subst hp
  by_cases hQi : Q = .inf
  · subst hQi; simp
  · rw [if_neg hQi]
    by_cases ht : Bytes.toNat t < N
    · have hv : (Pt.mulG (Bytes.toNat t)).valid = true := pub_valid ht
      have hiff : Pt.add Q (Pt.mulG (Bytes.toNat t)) = .inf ↔ Q = Pt.neg (Pt.mulG (Bytes.toNat t)) := by
        rw [gl.add_comm _ _ hQ hv]; exact add_eq_inf_iff hv hQ
      by_cases h2 : Pt.add Q (Pt.mulG (Bytes.toNat t)) = .inf
      · rw [if_neg (fun h => h.2 h2)]
        simp [hiff.1 h2]
      · rw [if_pos ⟨ht, h2⟩]
        exact ⟨⟨fun _ => ⟨hQi, ht, fun h => h2 (hiff.2 h)⟩, fun _ => rfl⟩,
          fun _ => ⟨rfl, gl.valid_add _ _ hQ hv, h2⟩, fun h => absurd rfl h⟩
    · rw [if_neg (fun h => ht h.1)]
      simp [ht]

/-! ### 4. Multiplicative tweak -/

/-- **`seckey_tweak_mul` and `pubkey_tweak_mul` commute.**  For a valid secret key `d` and every tweak string
`t`: both functions fail exactly when `t ≥ N` or `t = 0`.  When they succeed the new secret key is
`be32 (d·t mod N)` — a valid key — and the new public key is the public key of the new secret key (in
particular it is never the point at infinity).  When they fail, both output objects are zeroed. -/
theorem tweak_mul_comm (d : Nat) (t : Bytes) (hd0 : 0 < d) (hdN : d < N) :
    let s := Keys.seckeyTweakMul (Bytes.be32 d) t
    let p := Keys.pubkeyTweakMul (Pt.mulG d) t
    let fails := N ≤ Bytes.toNat t ∨ Bytes.toNat t = 0
    (s.1 = 1 ↔ ¬ fails) ∧ (p.ret = 1 ↔ ¬ fails) ∧
    (¬ fails →
      s.2 = Bytes.be32 (d * Bytes.toNat t % N) ∧ p.out = Pt.mulG (d * Bytes.toNat t % N) ∧
      0 < Bytes.toNat s.2 ∧ Bytes.toNat s.2 < N ∧ p.out = Pt.mulG (Bytes.toNat s.2) ∧
      Keys.pubkeyCreate s.2 = (1, p.out) ∧ p.illegal = 0) ∧
    (fails → s = (0, Bytes.zeros 32) ∧ p.ret = 0 ∧ p.out = Pt.inf ∧ p.illegal = 0) := by
  have : HasGroupLaw := ⟨groupLaw⟩
  intro s p fails
  have hs : s = _ := seckeyTweakMul_be32 hd0 hdN t
  have hp : p = _ := pubkeyTweakMul_pub hd0 hdN t
  by_cases hc : Bytes.toNat t < N ∧ Bytes.toNat t ≠ 0
  · have hnf : ¬ fails := fun hf => hf.elim (fun h => absurd hc.1 (Nat.not_lt.2 h)) (fun h => hc.2 h)
    rw [if_pos hc] at hs hp
    clear_value s p fails
    subst hs hp
    have hX : d * Bytes.toNat t % N < N := Nat.mod_lt _ N_pos
    have h0 : 0 < d * Bytes.toNat t % N := mul_mod_N_pos hd0 hdN (Nat.pos_of_ne_zero hc.2) hc.1
    have e := toNat_be32_of_lt_N hX
    refine ⟨⟨fun _ => hnf, fun _ => rfl⟩, ⟨fun _ => hnf, fun _ => rfl⟩, fun _ => ⟨rfl, rfl, ?_, ?_, ?_, ?_, rfl⟩,
      fun hf => absurd hf hnf⟩
    · show 0 < Bytes.toNat (Bytes.be32 _); rw [e]; exact h0
    · show Bytes.toNat (Bytes.be32 _) < N; rw [e]; exact hX
    · show _ = Pt.mulG (Bytes.toNat (Bytes.be32 _)); rw [e]
    · exact KeysLemmas.pubkeyCreate_be32 h0 hX
  · have hf : fails := by
      by_cases h1 : Bytes.toNat t < N
      · exact Or.inr (Classical.not_not.1 (fun h2 => hc ⟨h1, h2⟩))
      · exact Or.inl (Nat.not_lt.1 h1)
    rw [if_neg hc] at hs hp
    clear_value s p fails
    subst hs hp
    exact ⟨⟨fun h => absurd h (by simp), fun h => absurd hf h⟩,
      ⟨fun h => absurd h (by simp), fun h => absurd hf h⟩, fun h => absurd hf h,
      fun _ => ⟨rfl, rfl, rfl, rfl⟩⟩

example : Keys.seckeyTweakMul (Bytes.be32 5) (Bytes.be32 7) = (1, Bytes.be32 35) ∧
    (Keys.pubkeyTweakMul (Pt.mulG 5) (Bytes.be32 7)).ret = 1 ∧
    sameXY (Keys.pubkeyTweakMul (Pt.mulG 5) (Bytes.be32 7)).out (Pt.mulG 35) := by decide +kernel
example : Keys.seckeyTweakMul (Bytes.be32 5) (Bytes.be32 0) = (0, Bytes.zeros 32) ∧
    (Keys.pubkeyTweakMul (Pt.mulG 5) (Bytes.be32 0)).ret = 0 ∧
    Keys.seckeyTweakMul (Bytes.be32 5) (Bytes.be32 N) = (0, Bytes.zeros 32) ∧
    (Keys.pubkeyTweakMul (Pt.mulG 5) (Bytes.be32 N)).ret = 0 := by decide +kernel
example : Keys.seckeyTweakMul (Bytes.be32 (N - 1)) (Bytes.be32 (N - 1)) = (1, Bytes.be32 1) := by
  decide +kernel

/-- For an arbitrary public-key object `Q` the return value of `pubkey_tweak_mul` depends only on the tweak
(and on `Q` not being the zero object); the output on success is `t•Q`. -/
theorem pubkeyTweakMul_general (Q : Pt) (t : Bytes) :
    let p := Keys.pubkeyTweakMul Q t
    (p.ret = 1 ↔ Q ≠ Pt.inf ∧ Bytes.toNat t < N ∧ Bytes.toNat t ≠ 0) ∧
    (p.ret = 1 → p.out = Pt.mul (Bytes.toNat t) Q ∧ p.illegal = 0) ∧
    (p.ret ≠ 1 → p.ret = 0 ∧ p.out = Pt.inf) := by
  intro p
  have hp : p = _ := pubkeyTweakMul_eq Q t
  clear_value p
  subst hp
  by_cases h1 : N ≤ Bytes.toNat t
  · rw [if_pos h1]; simp [Nat.not_lt.2 h1]
  · rw [if_neg h1]
    by_cases h2 : Q = .inf
    · rw [if_pos h2]; simp [h2]
    · rw [if_neg h2]
      by_cases h3 : Bytes.toNat t = 0
      · rw [if_pos h3]; simp [h3]
      · rw [if_neg h3]; simp [h2, h3, Nat.not_le.1 h1]

/-- PARTIAL (needs the order of `Q`): for an arbitrary valid public key `Q ≠ ∞` with `N•Q = ∞`, a successful
`pubkey_tweak_mul` never yields the point at infinity (which `secp256k1_pubkey_save` could not store), and the
result is a valid point.
Full statement (not proved: it needs "every valid point has order dividing N", i.e. cofactor 1):
`∀ Q t, Q.valid → (pubkeyTweakMul Q t).ret = 1 → (pubkeyTweakMul Q t).out ≠ ∞`.
For keys of the form `d•G` the hypothesis holds and the statement is part of `tweak_mul_comm`. -/
theorem pubkeyTweakMul_ne_inf_partial (Q : Pt) (t : Bytes) (hQ : Q.valid = true)
    (hN : Pt.mul N Q = Pt.inf) (h : (Keys.pubkeyTweakMul Q t).ret = 1) :
    (Keys.pubkeyTweakMul Q t).out ≠ Pt.inf ∧ (Keys.pubkeyTweakMul Q t).out.valid = true := by
  have : HasGroupLaw := ⟨groupLaw⟩
  obtain ⟨hQi, ht, ht0⟩ := (pubkeyTweakMul_general Q t).1.1 h
  rw [((pubkeyTweakMul_general Q t).2.1 h).1]
  have hk := lt_mulBound_of_lt_N ht
  refine ⟨?_, Algebra.valid_mul hk hQ⟩
  have hQ0 : N • (⟨Q, hQ⟩ : VPt) = 0 := Subtype.ext (by rw [← mul_eq_nsmul N_lt_mulBound]; exact hN)
  have hne : (⟨Q, hQ⟩ : VPt) ≠ 0 := fun h0 => hQi (congrArg Subtype.val h0)
  intro hinf
  have h1 : smulHom ⟨Q, hQ⟩ hQ0 (Bytes.toNat t : ZMod N) = 0 := by
    rw [smulHom_natCast]; exact Subtype.ext (by rw [← mul_eq_nsmul hk]; exact hinf)
  have h2 := (smulHom_injective _ hQ0 hne) (h1.trans (map_zero _).symm)
  exact ht0 ((cast_eq_zero ht).1 h2)

/-- The hypothesis of the partial theorem is satisfiable (any `d•G`). -/
example : (Pt.mulG 5).valid = true ∧ Pt.mul N (Pt.mulG 5) = Pt.inf ∧
    (Keys.pubkeyTweakMul (Pt.mulG 5) (Bytes.be32 7)).ret = 1 := by decide +kernel

/-! ### 2. Negation -/

/-- **`seckey_negate` and `pubkey_negate` commute**, for every string `sk`: negating the secret key and then
deriving the public key gives the same object and the same return value as deriving first and negating the
public key.  All of them succeed exactly for valid secret keys; then the new secret key is `be32 (N - d)` and
the new public key is `-(d•G) = (N - d)•G`.  For an invalid secret key: the negated secret key is zeroed,
there is no public key (zero object) and `pubkey_negate` of the zero object raises the illegal callback. -/
theorem negate_comm (sk : Bytes) :
    let ok := 0 < Bytes.toNat sk ∧ Bytes.toNat sk < N
    let s := Keys.seckeyNegate sk
    let p := Keys.pubkeyNegate (Keys.pubkeyCreate sk).2
    (s.1 = 1 ↔ ok) ∧ (p.ret = 1 ↔ ok) ∧
    (Keys.pubkeyCreate s.2).2 = p.out ∧ (Keys.pubkeyCreate s.2).1 = p.ret ∧
    (ok → s.2 = Bytes.be32 (N - Bytes.toNat sk) ∧ p.out = Pt.mulG (N - Bytes.toNat sk) ∧
      p.out = Pt.neg (Pt.mulG (Bytes.toNat sk)) ∧ p.out ≠ Pt.inf ∧ p.illegal = 0) ∧
    (¬ ok → s = (0, Bytes.zeros 32) ∧ p.ret = 0 ∧ p.out = Pt.inf ∧ p.illegal = 1) := by
  have : HasGroupLaw := ⟨groupLaw⟩
  intro ok s p
  have hs : s = _ := seckeyNegate_eq sk
  have hp : p = Keys.pubkeyNegate (Keys.pubkeyCreate sk).2 := rfl
  rw [pubkeyCreate_eq] at hp
  by_cases h : 0 < Bytes.toNat sk ∧ Bytes.toNat sk < N
  · have hok : ok := h
    rw [if_pos h] at hs hp
    have h' : 0 < N - Bytes.toNat sk ∧ N - Bytes.toNat sk < N := by omega
    rw [show ((1, Pt.mulG (Bytes.toNat sk)) : Nat × Pt).2 = Pt.mulG (Bytes.toNat sk) from rfl,
      pubkeyNegate_pub h.1 h.2] at hp
    clear_value s p ok
    subst hs hp
    have hc := KeysLemmas.pubkeyCreate_be32 h'.1 h'.2
    refine ⟨⟨fun _ => hok, fun _ => rfl⟩, ⟨fun _ => hok, fun _ => rfl⟩, ?_, ?_,
      fun _ => ⟨rfl, rfl, (pub_neg' h.1 h.2).symm, pub_ne_inf h'.1 h'.2, rfl⟩, fun hn => absurd hok hn⟩
    · show (Keys.pubkeyCreate (Bytes.be32 _)).2 = _; rw [hc]
    · show (Keys.pubkeyCreate (Bytes.be32 _)).1 = _; rw [hc]
  · have hok : ¬ ok := h
    rw [if_neg h] at hs hp
    have hz : Keys.pubkeyCreate (Bytes.zeros 32) = (0, Pt.inf) := by
      rw [pubkeyCreate_eq, toNat_zeros32]; simp
    clear_value s p ok
    subst hs hp
    refine ⟨⟨fun h1 => absurd h1 (by simp), fun h1 => absurd h1 hok⟩,
      ⟨fun h1 => absurd h1 (by simp [Keys.pubkeyNegate]), fun h1 => absurd h1 hok⟩, ?_, ?_,
      fun h1 => absurd h1 hok, fun _ => ⟨rfl, rfl, rfl, rfl⟩⟩
    · show (Keys.pubkeyCreate (Bytes.zeros 32)).2 = _; rw [hz]; rfl
    · show (Keys.pubkeyCreate (Bytes.zeros 32)).1 = _; rw [hz]; rfl

/-- In terms of the scalar. -/
theorem negate_comm_be32 (d : Nat) (hd0 : 0 < d) (hdN : d < N) :
    Keys.seckeyNegate (Bytes.be32 d) = (1, Bytes.be32 (N - d)) ∧
    Keys.pubkeyNegate (Pt.mulG d) = ⟨1, Pt.mulG (N - d), 0⟩ ∧ 0 < N - d ∧ N - d < N := by
  have : HasGroupLaw := ⟨groupLaw⟩
  exact ⟨seckeyNegate_be32 hd0 hdN, pubkeyNegate_pub hd0 hdN, by omega, by omega⟩

example : Keys.seckeyNegate (Bytes.be32 5) = (1, Bytes.be32 (N - 5)) ∧
    (Keys.pubkeyNegate (Pt.mulG 5)).ret = 1 ∧
    sameXY (Keys.pubkeyNegate (Pt.mulG 5)).out (Pt.mulG (N - 5)) := by decide +kernel
example : Keys.seckeyNegate (Bytes.be32 0) = (0, Bytes.zeros 32) ∧
    Keys.seckeyNegate (Bytes.be32 N) = (0, Bytes.zeros 32) := by decide +kernel

/-! ### 6. x-only keys and keypair (Taproot) tweaking -/

/-- **`secp256k1_xonly_pubkey_from_pubkey`**: for a valid public key different from the zero object the x-only
key is a valid point with the SAME x-coordinate and EVEN y (the key itself or its negation), the reported parity
is the parity of the original y, and the 32-byte x-only serialization is the x-coordinate; for the zero object:
return 0, zero output, one illegal-argument callback. -/
theorem xonly_from_pubkey_spec (pk : Pt) (hv : pk.valid = true) :
    let r := Keys.xonlyFromPubkey pk
    (pk = Pt.inf → r.ret = 0 ∧ r.out = (Pt.inf, 0) ∧ r.illegal = 1) ∧
    (pk ≠ Pt.inf → r.ret = 1 ∧ r.illegal = 0 ∧
      r.out.1.valid = true ∧ r.out.1 ≠ Pt.inf ∧ r.out.1.xOf = pk.xOf ∧ Fe.isOdd r.out.1.yOf = false ∧
      r.out.2 = (if Fe.isOdd pk.yOf then 1 else 0) ∧
      r.out.1 = (if Fe.isOdd pk.yOf then Pt.neg pk else pk) ∧
      Keys.xonlySerialize r.out.1 = ⟨1, Bytes.be32 pk.xOf, 0⟩) := by
  have : HasGroupLaw := ⟨groupLaw⟩
  intro r
  cases pk with
  | inf => exact ⟨fun _ => ⟨rfl, rfl, rfl⟩, fun h => absurd rfl h⟩
  | aff x y =>
    obtain ⟨h1, h2, h3, h4, h5, h6⟩ := evenY_valid hv
    refine ⟨fun h => Pt.noConfusion h, fun _ => ⟨rfl, rfl, h1, h2, h3, h4, h5, h6, ?_⟩⟩
    show Keys.xonlySerialize (Keys.evenY (.aff x y)).1 = _
    rw [h6]
    by_cases ho : Fe.isOdd y = true
    · rw [if_pos ho]; rfl
    · rw [if_neg ho]; rfl

/-- x-only conversion of the key `d•G`: the x-only key is `(evenSk d)•G` with `evenSk d ∈ {d, N - d}`. -/
theorem xonly_from_pubkey_pub (d : Nat) (hd0 : 0 < d) (hdN : d < N) :
    Keys.xonlyFromPubkey (Pt.mulG d) = ⟨1, (Pt.mulG (evenSk d), parityOf d), 0⟩ ∧
    0 < evenSk d ∧ evenSk d < N ∧ (evenSk d = d ∨ evenSk d = N - d) := by
  have : HasGroupLaw := ⟨groupLaw⟩
  rw [xonlyFromPubkey_eq, if_neg (pub_ne_inf hd0 hdN), evenY_pub hd0 hdN]
  refine ⟨rfl, (evenSk_pos_lt hd0 hdN).1, (evenSk_pos_lt hd0 hdN).2, ?_⟩
  unfold evenSk; split
  · exact Or.inr rfl
  · exact Or.inl rfl

/-- Non-vacuity: `5•G` has even y (kept), `6•G` has odd y (negated: the x-only key is `(N-6)•G`). -/
example : parityOf 5 = 0 ∧ evenSk 5 = 5 ∧ parityOf 6 = 1 ∧ evenSk 6 = N - 6 := by decide +kernel
example : (Pt.mulG 6).valid = true ∧ (Keys.xonlyFromPubkey (Pt.mulG 6)).ret = 1 ∧
    (Keys.xonlyFromPubkey (Pt.mulG 6)).out.2 = 1 ∧
    (Keys.xonlyFromPubkey (Pt.mulG 6)).out.1.xOf = (Pt.mulG 6).xOf ∧
    Fe.isOdd (Keys.xonlyFromPubkey (Pt.mulG 6)).out.1.yOf = false := by decide +kernel

/-- **`keypair_xonly_tweak_add` and `xonly_pubkey_tweak_add` commute.**  For a valid keypair
`kp = ⟨be32 d, d•G⟩` (this is what `keypair_create` returns) and every tweak string `t`, with
`e = evenSk d` (the secret key, negated iff `d•G` has odd y): the keypair tweak and the x-only tweak of the
x-only key of `d•G` fail exactly when `t ≥ N` or `e + t ≡ 0 (mod N)`.  On success the new keypair is
consistent (its public key is the public key of its secret key `(e + t) mod N`, it is what `keypair_create`
returns for the new secret key) and its public key equals the result of the x-only tweak.
On failure the keypair is zeroed and the x-only result is the zero object. -/
theorem keypair_xonly_tweak_add_comm (d : Nat) (t : Bytes) (hd0 : 0 < d) (hdN : d < N) :
    let kp : Keys.Keypair := ⟨Bytes.be32 d, Pt.mulG d⟩
    let r := Keys.keypairXonlyTweakAdd kp t
    let x := Keys.xonlyTweakAdd (Keys.xonlyFromPubkey (Pt.mulG d)).out.1 t
    let e := evenSk d
    let fails := N ≤ Bytes.toNat t ∨ (e + Bytes.toNat t) % N = 0
    Keys.keypairCreate (Bytes.be32 d) = (1, kp) ∧
    (r.ret = 1 ↔ ¬ fails) ∧ (x.ret = 1 ↔ ¬ fails) ∧
    (¬ fails →
      r.out.sk = Bytes.be32 ((e + Bytes.toNat t) % N) ∧ r.out.pk = Pt.mulG ((e + Bytes.toNat t) % N) ∧
      r.out.pk = x.out ∧ 0 < Bytes.toNat r.out.sk ∧ Bytes.toNat r.out.sk < N ∧
      r.out.pk = Pt.mulG (Bytes.toNat r.out.sk) ∧ Keys.keypairCreate r.out.sk = (1, r.out) ∧
      r.illegal = 0 ∧ x.illegal = 0) ∧
    (fails → r.ret = 0 ∧ r.out = Keys.Keypair.zero ∧ x.ret = 0 ∧ x.out = Pt.inf) := by
  have : HasGroupLaw := ⟨groupLaw⟩
  intro kp r x e fails
  have he := evenSk_pos_lt hd0 hdN
  have hr : r = _ := keypairXonlyTweakAdd_valid hd0 hdN t
  have hx : x = Keys.pubkeyTweakAdd (Pt.mulG (evenSk d)) t := by
    show Keys.pubkeyTweakAdd (Keys.xonlyFromPubkey (Pt.mulG d)).out.1 t = _
    rw [(xonly_from_pubkey_pub d hd0 hdN).1]
  rw [pubkeyTweakAdd_pub he.1 he.2] at hx
  refine ⟨keypairCreate_be32 hd0 hdN, ?_⟩
  by_cases hc : Bytes.toNat t < N ∧ (evenSk d + Bytes.toNat t) % N ≠ 0
  · have hnf : ¬ fails := fun hf => hf.elim (fun h => absurd hc.1 (Nat.not_lt.2 h)) (fun h => hc.2 h)
    rw [if_pos hc] at hr hx
    clear_value r x fails
    subst hr hx
    have hX : (evenSk d + Bytes.toNat t) % N < N := Nat.mod_lt _ N_pos
    have h0 : 0 < (evenSk d + Bytes.toNat t) % N := Nat.pos_of_ne_zero hc.2
    have e' := toNat_be32_of_lt_N hX
    refine ⟨⟨fun _ => hnf, fun _ => rfl⟩, ⟨fun _ => hnf, fun _ => rfl⟩,
      fun _ => ⟨rfl, rfl, rfl, ?_, ?_, ?_, ?_, rfl, rfl⟩, fun hf => absurd hf hnf⟩
    · show 0 < Bytes.toNat (Bytes.be32 _); rw [e']; exact h0
    · show Bytes.toNat (Bytes.be32 _) < N; rw [e']; exact hX
    · show _ = Pt.mulG (Bytes.toNat (Bytes.be32 _)); rw [e']
    · exact keypairCreate_be32 h0 hX
  · have hf : fails := by
      by_cases h1 : Bytes.toNat t < N
      · exact Or.inr (Classical.not_not.1 (fun h2 => hc ⟨h1, h2⟩))
      · exact Or.inl (Nat.not_lt.1 h1)
    rw [if_neg hc] at hr hx
    clear_value r x fails
    subst hr hx
    exact ⟨⟨fun h => absurd h (by simp), fun h => absurd hf h⟩,
      ⟨fun h => absurd h (by simp), fun h => absurd hf h⟩, fun h => absurd hf h,
      fun _ => ⟨rfl, rfl, rfl, rfl⟩⟩

/-- A keypair object whose public part is the zero object, or whose secret part is not a valid key, is
rejected with one illegal-argument callback and a zeroed output. -/
theorem keypair_xonly_tweak_add_invalid (kp : Keys.Keypair) (t : Bytes)
    (h : kp.pk = Pt.inf ∨ ¬ (0 < Bytes.toNat kp.sk ∧ Bytes.toNat kp.sk < N)) :
    (Keys.keypairXonlyTweakAdd kp t).ret = 0 ∧ (Keys.keypairXonlyTweakAdd kp t).out = Keys.Keypair.zero ∧
    (Keys.keypairXonlyTweakAdd kp t).illegal = 1 := by
  have hl : Keys.keypairLoad kp true = (false, 1, Pt.G, 1) := by
    unfold Keys.keypairLoad
    cases hpk : kp.pk with
    | inf => rfl
    | aff x y =>
      rcases h with h | h
      · rw [hpk] at h; exact Pt.noConfusion h
      · simp only [setB32Seckey_eq]
        simp [h]
  unfold Keys.keypairXonlyTweakAdd
  rw [hl]
  simp only []
  split <;> simp

/-- Non-vacuity (even-y key `5•G`: secret key kept; odd-y key `6•G`: secret key negated first, so tweaking
by `t = 6` is the failure case `-6 + 6 = 0`). -/
example :
    (Keys.keypairXonlyTweakAdd ⟨Bytes.be32 5, Pt.mulG 5⟩ (Bytes.be32 7)).ret = 1 ∧
    (Keys.keypairXonlyTweakAdd ⟨Bytes.be32 5, Pt.mulG 5⟩ (Bytes.be32 7)).out.sk = Bytes.be32 12 ∧
    sameXY (Keys.keypairXonlyTweakAdd ⟨Bytes.be32 5, Pt.mulG 5⟩ (Bytes.be32 7)).out.pk (Pt.mulG 12) := by
  decide +kernel
example :
    (Keys.keypairXonlyTweakAdd ⟨Bytes.be32 6, Pt.mulG 6⟩ (Bytes.be32 7)).ret = 1 ∧
    (Keys.keypairXonlyTweakAdd ⟨Bytes.be32 6, Pt.mulG 6⟩ (Bytes.be32 7)).out.sk = Bytes.be32 1 ∧
    sameXY (Keys.keypairXonlyTweakAdd ⟨Bytes.be32 6, Pt.mulG 6⟩ (Bytes.be32 7)).out.pk Pt.G ∧
    (Keys.keypairXonlyTweakAdd ⟨Bytes.be32 6, Pt.mulG 6⟩ (Bytes.be32 6)).ret = 0 ∧
    (Keys.xonlyTweakAdd (Keys.xonlyFromPubkey (Pt.mulG 6)).out.1 (Bytes.be32 6)).ret = 0 := by
  decide +kernel

/-! ### 7. The Taproot tweak check -/

/-- **`secp256k1_xonly_pubkey_tweak_add_check`** returns 1 exactly when `xonly_pubkey_tweak_add` of the same
internal key and tweak succeeds with a point whose x-coordinate serializes to `tweaked32` and whose y-parity is
`parity`; otherwise it returns 0.  It raises the illegal-argument callback exactly when the tweak function does.
(For every internal-key object, every tweak string, every `tweaked32` of any length and every `parity`.) -/
theorem tweak_add_check_iff (tweaked32 : Bytes) (parity : Nat) (xpk : Pt) (t : Bytes) :
    ((Keys.xonlyTweakAddCheck tweaked32 parity xpk t).ret = 1 ↔
      (Keys.xonlyTweakAdd xpk t).ret = 1 ∧
      Bytes.be32 (Keys.xonlyTweakAdd xpk t).out.xOf = tweaked32 ∧
      (if Fe.isOdd (Keys.xonlyTweakAdd xpk t).out.yOf then 1 else 0) = parity) ∧
    ((Keys.xonlyTweakAddCheck tweaked32 parity xpk t).ret ≠ 1 →
      (Keys.xonlyTweakAddCheck tweaked32 parity xpk t).ret = 0) ∧
    (Keys.xonlyTweakAddCheck tweaked32 parity xpk t).illegal = (Keys.xonlyTweakAdd xpk t).illegal := by
  unfold Keys.xonlyTweakAdd
  rw [xonlyTweakAddCheck_eq, pubkeyTweakAdd_eq]
  by_cases h1 : xpk = .inf
  · rw [if_pos h1, if_pos h1]; simp
  · rw [if_neg h1, if_neg h1]
    by_cases h2 : Bytes.toNat t < N ∧ Pt.add xpk (Pt.mulG (Bytes.toNat t)) ≠ .inf
    · rw [if_pos h2, if_pos h2]
      by_cases h3 : Bytes.be32 (Pt.add xpk (Pt.mulG (Bytes.toNat t))).xOf = tweaked32 ∧
          (if Fe.isOdd (Pt.add xpk (Pt.mulG (Bytes.toNat t))).yOf then 1 else 0) = parity
      · simp [h3]
      · simp [h3]
    · rw [if_neg h2, if_neg h2]; simp

/-- The check accepts exactly the pair (x-only serialization, parity) that
`xonly_pubkey_from_pubkey` + `xonly_pubkey_serialize` produce from the tweaked key. -/
theorem tweak_add_check_accepts_iff (tweaked32 : Bytes) (parity : Nat) (xpk : Pt) (t : Bytes)
    (h : (Keys.xonlyTweakAdd xpk t).ret = 1) :
    (Keys.xonlyTweakAddCheck tweaked32 parity xpk t).ret = 1 ↔
      tweaked32 = (Keys.xonlySerialize (Keys.xonlyFromPubkey (Keys.xonlyTweakAdd xpk t).out).out.1).out ∧
      parity = (Keys.xonlyFromPubkey (Keys.xonlyTweakAdd xpk t).out).out.2 := by
  rw [(tweak_add_check_iff tweaked32 parity xpk t).1]
  have hq : (Keys.xonlyTweakAdd xpk t).out ≠ .inf := by
    show (Keys.pubkeyTweakAdd xpk t).out ≠ .inf
    have h' : (Keys.pubkeyTweakAdd xpk t).ret = 1 := h
    rw [pubkeyTweakAdd_eq] at h' ⊢
    by_cases h1 : xpk = .inf
    · rw [if_pos h1] at h'; exact absurd h' (by simp)
    · rw [if_neg h1] at h' ⊢
      by_cases h2 : Bytes.toNat t < N ∧ Pt.add xpk (Pt.mulG (Bytes.toNat t)) ≠ .inf
      · rw [if_pos h2]; exact h2.2
      · rw [if_neg h2] at h'; exact absurd h' (by simp)
  simp only [h, true_and]
  generalize (Keys.xonlyTweakAdd xpk t).out = q at hq ⊢
  cases q with
  | inf => exact absurd rfl hq
  | aff x y =>
    have e1 : Keys.xonlyFromPubkey (.aff x y) = ⟨1, Keys.evenY (.aff x y), 0⟩ := rfl
    rw [e1, evenY_aff]
    by_cases ho : Fe.isOdd y = true
    · simp only [ho, ↓reduceIte, Pt.xOf, Pt.yOf, Pt.neg, Keys.xonlySerialize]
      exact ⟨fun a => ⟨a.1.symm, a.2.symm⟩, fun a => ⟨a.1.symm, a.2.symm⟩⟩
    · simp only [ho, Pt.xOf, Pt.yOf, Keys.xonlySerialize]
      exact ⟨fun a => ⟨a.1.symm, a.2.symm⟩, fun a => ⟨a.1.symm, a.2.symm⟩⟩

/-- **Taproot round trip on the secret side.**  Whenever `keypair_xonly_tweak_add` succeeds on a valid keypair,
the x-only public key and parity extracted from the new keypair (`keypair_xonly_pub` + serialization) pass
`xonly_pubkey_tweak_add_check` against the original internal key and the same tweak. -/
theorem taproot_tweak_check_roundtrip (d : Nat) (t : Bytes) (hd0 : 0 < d) (hdN : d < N)
    (hok : (Keys.keypairXonlyTweakAdd ⟨Bytes.be32 d, Pt.mulG d⟩ t).ret = 1) :
    let kp' := (Keys.keypairXonlyTweakAdd ⟨Bytes.be32 d, Pt.mulG d⟩ t).out
    let xo := Keys.keypairXonlyPub kp'
    let internal := (Keys.xonlyFromPubkey (Pt.mulG d)).out.1
    xo.ret = 1 ∧ xo.illegal = 0 ∧
    (Keys.xonlyTweakAddCheck (Keys.xonlySerialize xo.out.1).out xo.out.2 internal t).ret = 1 := by
  have : HasGroupLaw := ⟨groupLaw⟩
  intro kp' xo internal
  obtain ⟨_, hr, hx, hsucc, _⟩ := keypair_xonly_tweak_add_comm d t hd0 hdN
  have hnf := hr.1 hok
  obtain ⟨_, hpk, hpx, _, _, _, _, _, _⟩ := hsucc hnf
  have hxr := hx.2 hnf
  have hpk' : kp'.pk = Pt.mulG ((evenSk d + Bytes.toNat t) % N) := hpk
  have hne : kp'.pk ≠ .inf := by
    rw [hpk']
    exact pub_ne_inf (Nat.pos_of_ne_zero (fun h0 => hnf (Or.inr h0))) (Nat.mod_lt _ N_pos)
  have hxo : xo = ⟨1, Keys.evenY kp'.pk, 0⟩ := by
    show Keys.keypairXonlyPub kp' = _
    unfold Keys.keypairXonlyPub Keys.keypairLoad
    cases hq : kp'.pk with
    | inf => exact absurd hq hne
    | aff x y => rfl
  have hq : (Keys.xonlyTweakAdd internal t).out = kp'.pk := hpx.symm
  refine ⟨by rw [hxo], by rw [hxo], ?_⟩
  rw [tweak_add_check_accepts_iff _ _ _ _ hxr, hq, xonlyFromPubkey_eq, if_neg hne, hxo]
  exact ⟨rfl, rfl⟩

/-- Non-vacuity: internal key = x-only key of `6•G` (odd y, so the internal secret is `N - 6`), tweak 7:
the tweaked key is `1•G = G`, with even y; the check accepts `(Gx, 0)` and rejects the wrong parity and a
wrong x. -/
example :
    (Keys.xonlyTweakAddCheck (Bytes.be32 Pt.Gx) 0 (Keys.xonlyFromPubkey (Pt.mulG 6)).out.1 (Bytes.be32 7)).ret = 1 ∧
    (Keys.xonlyTweakAddCheck (Bytes.be32 Pt.Gx) 1 (Keys.xonlyFromPubkey (Pt.mulG 6)).out.1 (Bytes.be32 7)).ret = 0 ∧
    (Keys.xonlyTweakAddCheck (Bytes.be32 (Pt.Gx + 1)) 0 (Keys.xonlyFromPubkey (Pt.mulG 6)).out.1
      (Bytes.be32 7)).ret = 0 := by decide +kernel

/-! ### 8. Chains of mixed operations -/

/-- The effect of one chain operation on the secret scalar `d` (`none` = the operation fails):
add `t`, multiply by `t`, negate, or Taproot-style x-only add (negate first iff `d•G` has odd y). -/
def chainStepSpec (d : Nat) : Keys.ChainOp → Option Nat
  | .add t => if Bytes.toNat t < N ∧ (d + Bytes.toNat t) % N ≠ 0 then some ((d + Bytes.toNat t) % N) else none
  | .mul t => if Bytes.toNat t < N ∧ Bytes.toNat t ≠ 0 then some (d * Bytes.toNat t % N) else none
  | .neg => some (N - d)
  | .xadd t => if Bytes.toNat t < N ∧ (evenSk d + Bytes.toNat t) % N ≠ 0
      then some ((evenSk d + Bytes.toNat t) % N) else none

/-- the effect of a whole chain on the secret scalar -/
def chainSpec (d : Nat) (ops : List Keys.ChainOp) : Option Nat := ops.foldlM chainStepSpec d

/-- One step: the secret-side function and the public-side function both implement `chainStepSpec`
(same success/failure, and the outputs are `be32 d'` resp. `d'•G` for the same valid `d'`). -/
theorem chain_step (d : Nat) (op : Keys.ChainOp) (hd0 : 0 < d) (hdN : d < N) :
    Keys.chainSec (Bytes.be32 d) op = (chainStepSpec d op).map Bytes.be32 ∧
    Keys.chainPub (Pt.mulG d) op = (chainStepSpec d op).map Pt.mulG ∧
    ∀ d' ∈ chainStepSpec d op, 0 < d' ∧ d' < N := by
  have : HasGroupLaw := ⟨groupLaw⟩
  cases op with
  | add t =>
    simp only [Keys.chainSec, Keys.chainPub, chainStepSpec]
    rw [seckeyTweakAdd_be32 hd0 hdN, pubkeyTweakAdd_pub hd0 hdN]
    by_cases hc : Bytes.toNat t < N ∧ (d + Bytes.toNat t) % N ≠ 0
    · simp only [if_pos hc]
      exact ⟨rfl, rfl, fun d' h => by
        obtain rfl := Option.some.inj h
        exact ⟨Nat.pos_of_ne_zero hc.2, Nat.mod_lt _ N_pos⟩⟩
    · simp only [if_neg hc]
      exact ⟨rfl, rfl, fun d' h => by cases h⟩
  | mul t =>
    simp only [Keys.chainSec, Keys.chainPub, chainStepSpec]
    rw [seckeyTweakMul_be32 hd0 hdN, pubkeyTweakMul_pub hd0 hdN]
    by_cases hc : Bytes.toNat t < N ∧ Bytes.toNat t ≠ 0
    · simp only [if_pos hc]
      exact ⟨rfl, rfl, fun d' h => by
        obtain rfl := Option.some.inj h
        exact ⟨mul_mod_N_pos hd0 hdN (Nat.pos_of_ne_zero hc.2) hc.1, Nat.mod_lt _ N_pos⟩⟩
    · simp only [if_neg hc]
      exact ⟨rfl, rfl, fun d' h => by cases h⟩
  | neg =>
    simp only [Keys.chainSec, Keys.chainPub, chainStepSpec]
    rw [seckeyNegate_be32 hd0 hdN, pubkeyNegate_pub hd0 hdN]
    exact ⟨rfl, rfl, fun d' h => by
      obtain rfl := Option.some.inj h
      omega⟩
  | xadd t =>
    have he := evenSk_pos_lt hd0 hdN
    simp only [Keys.chainSec, Keys.chainPub, chainStepSpec, Keys.xonlyTweakAdd,
      keypairCreate_be32 hd0 hdN, (xonly_from_pubkey_pub d hd0 hdN).1,
      keypairXonlyTweakAdd_valid hd0 hdN, pubkeyTweakAdd_pub he.1 he.2, one_ne_zero, ↓reduceIte]
    by_cases hc : Bytes.toNat t < N ∧ (evenSk d + Bytes.toNat t) % N ≠ 0
    · simp only [if_pos hc]
      exact ⟨rfl, rfl, fun d' h => by
        obtain rfl := Option.some.inj h
        exact ⟨Nat.pos_of_ne_zero hc.2, Nat.mod_lt _ N_pos⟩⟩
    · simp only [if_neg hc]
      exact ⟨rfl, rfl, fun d' h => by cases h⟩

/-- Whole chains: both sides implement `chainSpec`. -/
theorem chain_all (d : Nat) (ops : List Keys.ChainOp) (hd0 : 0 < d) (hdN : d < N) :
    Keys.chainSecAll (Bytes.be32 d) ops = (chainSpec d ops).map Bytes.be32 ∧
    Keys.chainPubAll (Pt.mulG d) ops = (chainSpec d ops).map Pt.mulG ∧
    ∀ d' ∈ chainSpec d ops, 0 < d' ∧ d' < N := by
  induction ops generalizing d with
  | nil =>
    exact ⟨rfl, rfl, fun d' h => by
      obtain rfl := Option.some.inj h
      exact ⟨hd0, hdN⟩⟩
  | cons op ops ih =>
    obtain ⟨h1, h2, h3⟩ := chain_step d op hd0 hdN
    simp only [Keys.chainSecAll, Keys.chainPubAll, chainSpec, List.foldlM_cons]
    rw [h1, h2]
    cases hs : chainStepSpec d op with
    | none => exact ⟨rfl, rfl, fun d' h => by cases h⟩
    | some d1 =>
      obtain ⟨a, b⟩ := h3 d1 hs
      exact ih d1 a b

/-- **`chain_comm`: arbitrary finite chains of mixed operations commute with public-key derivation.**
For every valid secret key `d` and every finite list of operations (additive tweak, multiplicative tweak,
negation, keypair/x-only tweak, with arbitrary tweak strings): applying the chain to the secret key and
deriving the public key at the end gives exactly the result of applying the public-side chain to `d•G`;
in particular if the secret chain succeeds with `sk'`, the public chain succeeds with `toNat sk' • G`,
`sk'` is a valid key and `pubkey_create sk'` returns that point.  The two sides fail together, and at the same
step: for every prefix of the chain one side has failed iff the other has. -/
theorem chain_comm (d : Nat) (ops : List Keys.ChainOp) (hd0 : 0 < d) (hdN : d < N) :
    (Keys.chainSecAll (Bytes.be32 d) ops).map (fun sk => Pt.mulG (Bytes.toNat sk)) =
      Keys.chainPubAll (Pt.mulG d) ops ∧
    (∀ sk', Keys.chainSecAll (Bytes.be32 d) ops = some sk' →
      Keys.chainPubAll (Pt.mulG d) ops = some (Pt.mulG (Bytes.toNat sk')) ∧
      0 < Bytes.toNat sk' ∧ Bytes.toNat sk' < N ∧
      Keys.pubkeyCreate sk' = (1, Pt.mulG (Bytes.toNat sk'))) ∧
    (∀ k, (Keys.chainSecAll (Bytes.be32 d) (ops.take k)).isSome =
      (Keys.chainPubAll (Pt.mulG d) (ops.take k)).isSome) := by
  have key : ∀ ops : List Keys.ChainOp,
      (Keys.chainSecAll (Bytes.be32 d) ops).map (fun sk => Pt.mulG (Bytes.toNat sk)) =
        Keys.chainPubAll (Pt.mulG d) ops ∧
      ∀ sk', Keys.chainSecAll (Bytes.be32 d) ops = some sk' →
        ∃ d', sk' = Bytes.be32 d' ∧ 0 < d' ∧ d' < N := by
    intro ops
    obtain ⟨h1, h2, h3⟩ := chain_all d ops hd0 hdN
    rw [h1, h2]
    cases hs : chainSpec d ops with
    | none => exact ⟨rfl, fun sk' h => by cases h⟩
    | some d' =>
      obtain ⟨a, b⟩ := h3 d' hs
      refine ⟨?_, fun sk' h => ⟨d', (Option.some.inj h).symm, a, b⟩⟩
      show some (Pt.mulG (Bytes.toNat (Bytes.be32 d'))) = some (Pt.mulG d')
      rw [toNat_be32_of_lt_N b]
  refine ⟨(key ops).1, fun sk' h => ?_, fun k => ?_⟩
  · obtain ⟨d', rfl, a, b⟩ := (key ops).2 sk' h
    have e : some (Pt.mulG (Bytes.toNat (Bytes.be32 d'))) = Keys.chainPubAll (Pt.mulG d) ops := by
      have := (key ops).1
      rwa [h] at this
    rw [toNat_be32_of_lt_N b] at e ⊢
    exact ⟨e.symm, a, b, KeysLemmas.pubkeyCreate_be32 a b⟩
  · rw [← (key (ops.take k)).1, Option.isSome_map]

/-- Non-vacuity: a chain with all four kinds of operations on `d = 5` (add 1 → 6, whose point has odd y;
x-only add 7 → (N-6)+7 = 1; multiply by 3 → 3; negate → N-3) succeeds on both sides with matching results,
and a chain that fails at its second step (add 1, then add N-6: the sum is 0) fails on both sides. -/
example :
    Keys.chainSecAll (Bytes.be32 5) [.add (Bytes.be32 1), .xadd (Bytes.be32 7), .mul (Bytes.be32 3), .neg]
      = some (Bytes.be32 (N - 3)) ∧
    (Keys.chainPubAll (Pt.mulG 5) [.add (Bytes.be32 1), .xadd (Bytes.be32 7), .mul (Bytes.be32 3), .neg]).isSome
      = true ∧
    chainSpec 5 [.add (Bytes.be32 1), .xadd (Bytes.be32 7), .mul (Bytes.be32 3), .neg] = some (N - 3) := by
  decide +kernel
example :
    Keys.chainSecAll (Bytes.be32 5) [.add (Bytes.be32 1), .add (Bytes.be32 (N - 6)), .neg] = none ∧
    (Keys.chainPubAll (Pt.mulG 5) [.add (Bytes.be32 1), .add (Bytes.be32 (N - 6)), .neg]).isSome = false ∧
    (Keys.chainPubAll (Pt.mulG 5) [.add (Bytes.be32 1)]).isSome = true := by
  decide +kernel

/-! ### 5. Combination -/

/-- **`secp256k1_ec_pubkey_combine`** returns the sum of the list (`Pt.sum`, the left fold of the group
addition).  It fails exactly when the list is empty (illegal-argument callback) or the sum is the point at
infinity; on failure the output is the zero object. -/
theorem combine_spec (pks : List Pt) :
    let r := Keys.pubkeyCombine pks
    (r.ret = 1 ↔ pks ≠ [] ∧ Pt.sum pks ≠ Pt.inf) ∧
    (r.ret = 1 → r.out = Pt.sum pks ∧ r.illegal = 0) ∧
    (r.ret ≠ 1 → r.ret = 0 ∧ r.out = Pt.inf) ∧
    r.illegal = (if pks = [] then 1 else 0) := by
  intro r
  have hr : r = _ := pubkeyCombine_eq pks
  clear_value r
  subst hr
  by_cases h1 : pks = []
  · rw [if_pos h1]; simp [h1]
  · rw [if_neg h1]
    by_cases h2 : Pt.sum pks = .inf
    · rw [if_pos h2]; simp [h1, h2]
    · rw [if_neg h2]; simp [h1, h2]

/-- For valid input keys the result is a valid point, and it does not depend on the order of the keys. -/
theorem combine_valid_perm (pks pks' : List Pt) (hv : ∀ p ∈ pks, p.valid = true) (hp : pks.Perm pks') :
    (Keys.pubkeyCombine pks).out.valid = true ∧
    (Keys.pubkeyCombine pks).ret = (Keys.pubkeyCombine pks').ret ∧
    (Keys.pubkeyCombine pks).out = (Keys.pubkeyCombine pks').out := by
  have : HasGroupLaw := ⟨groupLaw⟩
  have hs : Pt.sum pks = Pt.sum pks' := sum_perm hp hv
  have hne : pks = [] ↔ pks' = [] := ⟨fun h => by subst h; exact hp.nil_eq.symm,
    fun h => by subst h; exact hp.eq_nil⟩
  have hval := sum_valid pks hv
  rw [pubkeyCombine_eq, pubkeyCombine_eq, ← hs]
  by_cases h1 : pks = []
  · rw [if_pos h1, if_pos (hne.1 h1)]; exact ⟨rfl, rfl, rfl⟩
  · rw [if_neg h1, if_neg (fun h => h1 (hne.2 h))]
    by_cases h2 : Pt.sum pks = .inf
    · rw [if_pos h2]; exact ⟨rfl, rfl, rfl⟩
    · rw [if_neg h2]; exact ⟨hval, rfl, rfl⟩

/-- **Combination commutes with addition of secret keys.**  For a non-empty list of keys `d_i•G` (`d_i < N`):
`pubkey_combine` returns `(Σ d_i mod N)•G`, i.e. the public key of the secret key `Σ d_i mod N`; it fails
exactly when `Σ d_i ≡ 0 (mod N)` (then the output is the zero object). -/
theorem combine_pub (ds : List Nat) (hne : ds ≠ []) (h : ∀ d ∈ ds, d < N) :
    let r := Keys.pubkeyCombine (ds.map Pt.mulG)
    (r.ret = 1 ↔ ds.sum % N ≠ 0) ∧
    (ds.sum % N ≠ 0 → r.out = Pt.mulG (ds.sum % N) ∧ r.illegal = 0 ∧
      Keys.pubkeyCreate (Bytes.be32 (ds.sum % N)) = (1, r.out)) ∧
    (ds.sum % N = 0 → r.ret = 0 ∧ r.out = Pt.inf ∧ r.illegal = 0) := by
  have : HasGroupLaw := ⟨groupLaw⟩
  intro r
  have hr : r = _ := pubkeyCombine_eq (ds.map Pt.mulG)
  have hX : ds.sum % N < N := Nat.mod_lt _ N_pos
  rw [sum_pub ds h, if_neg (by simpa using hne)] at hr
  clear_value r
  subst hr
  by_cases h0 : ds.sum % N = 0
  · rw [if_pos ((pub_eq_inf_iff hX).2 h0)]
    exact ⟨⟨fun a => absurd a (by simp), fun a => absurd h0 a⟩, fun a => absurd h0 a, fun _ => ⟨rfl, rfl, rfl⟩⟩
  · rw [if_neg (fun a => h0 ((pub_eq_inf_iff hX).1 a))]
    exact ⟨⟨fun _ => h0, fun _ => rfl⟩,
      fun _ => ⟨rfl, rfl, KeysLemmas.pubkeyCreate_be32 (Nat.pos_of_ne_zero h0) hX⟩, fun a => absurd a h0⟩

/-- Non-vacuity: `2G + 3G + 7G = 12G`; a cancelling pair in the middle of a list gives infinity → failure;
the empty list is illegal. -/
example : (Keys.pubkeyCombine [Pt.mulG 2, Pt.mulG 3, Pt.mulG 7]).ret = 1 ∧
    sameXY (Keys.pubkeyCombine [Pt.mulG 2, Pt.mulG 3, Pt.mulG 7]).out (Pt.mulG 12) := by decide +kernel
example : (Keys.pubkeyCombine [Pt.mulG 2, Pt.mulG 3, Pt.mulG (N - 5)]).ret = 0 ∧
    (Keys.pubkeyCombine [Pt.mulG 2, Pt.mulG 3, Pt.mulG (N - 5)]).out = Pt.inf ∧
    (Keys.pubkeyCombine []).ret = 0 ∧ (Keys.pubkeyCombine []).illegal = 1 := by decide +kernel

/-! ### 9. Comparison -/

/-- The compressed encoding determines a valid key. -/
theorem serialize33_injective (a b : Pt) (ha : a.valid = true) (hb : b.valid = true)
    (h : Codec.serialize33 a = Codec.serialize33 b) : a = b := by
  have : Fact (Nat.Prime P) := ⟨SecpZkp.prime_P⟩
  cases a with
  | inf =>
    cases b with
    | inf => rfl
    | aff x y =>
      exfalso
      simp only [Codec.serialize33, Bytes.zeros, List.replicate_succ, List.cons.injEq] at h
      have := h.1
      split at this <;> simp at this
  | aff x y =>
    cases b with
    | inf =>
      exfalso
      simp only [Codec.serialize33, Bytes.zeros, List.replicate_succ, List.cons.injEq] at h
      have := h.1
      split at this <;> simp at this
    | aff x' y' =>
      simp only [Codec.serialize33, List.cons.injEq] at h
      obtain ⟨htag, hx⟩ := h
      have hxl := (valid_aff_lt ha).1
      have hxl' := (valid_aff_lt hb).1
      have hxx : x = x' := by
        have := congrArg Bytes.toNat hx
        rwa [Bytes.toNat_be32 (lt_trans hxl P_lt_pow), Bytes.toNat_be32 (lt_trans hxl' P_lt_pow)] at this
      subst hxx
      have hpar : Fe.isOdd y' = Fe.isOdd y := by
        cases h1 : Fe.isOdd y <;> cases h2 : Fe.isOdd y' <;> simp [h1, h2] at htag ⊢
      rw [eq_of_x_eq_of_parity ha hb hpar]

/-- **`secp256k1_ec_pubkey_cmp`** is the sign of the lexicographic (`memcmp`) comparison of the 33-byte
compressed encodings, where the zero object is encoded as 33 zero bytes: the model's return code is
`2` (C: negative) iff `ser a < ser b`, `1` (C: positive) iff `ser b < ser a`, `0` iff the encodings are equal —
which for valid keys means `a = b`.  One illegal-argument callback is raised per zero-object argument. -/
theorem cmp_spec (a b : Pt) :
    let r := Keys.pubkeyCmp a b
    (r.ret = 2 ↔ Codec.serialize33 a < Codec.serialize33 b) ∧
    (r.ret = 1 ↔ Codec.serialize33 b < Codec.serialize33 a) ∧
    (r.ret = 0 ↔ Codec.serialize33 a = Codec.serialize33 b) ∧
    (a.valid = true → b.valid = true → (r.ret = 0 ↔ a = b)) ∧
    r.illegal = (if a = Pt.inf then 1 else 0) + (if b = Pt.inf then 1 else 0) ∧
    Codec.serialize33 Pt.inf = Bytes.zeros 33 ∧
    (Codec.serialize33 a).length = 33 := by
  intro r
  have hlt := Bytes.cmp_neg_iff_lt (Codec.serialize33 a) (Codec.serialize33 b)
  have hgt := Bytes.cmp_neg_iff_lt (Codec.serialize33 b) (Codec.serialize33 a)
  have hanti := Bytes.cmp_antisymm (Codec.serialize33 a) (Codec.serialize33 b)
  have heq := Bytes.cmp_eq_zero_iff (Codec.serialize33 a) (Codec.serialize33 b)
  have hret : r.ret = if Bytes.cmp (Codec.serialize33 a) (Codec.serialize33 b) < 0 then 2
      else if Bytes.cmp (Codec.serialize33 a) (Codec.serialize33 b) > 0 then 1 else 0 := rfl
  have sign : ∀ c : Int,
      ((if c < 0 then 2 else if c > 0 then 1 else 0 : Nat) = 2 ↔ c < 0) ∧
      ((if c < 0 then 2 else if c > 0 then 1 else 0 : Nat) = 1 ↔ 0 < c) ∧
      ((if c < 0 then 2 else if c > 0 then 1 else 0 : Nat) = 0 ↔ c = 0) := by
    intro c
    by_cases h1 : c < 0
    · refine ⟨?_, ?_, ?_⟩ <;> simp [h1] <;> omega
    · by_cases h2 : c > 0
      · refine ⟨?_, ?_, ?_⟩ <;> (simp [h1, h2]; try omega)
      · refine ⟨?_, ?_, ?_⟩ <;> (simp [h1, h2]; try omega)
  have h0 : r.ret = 0 ↔ Codec.serialize33 a = Codec.serialize33 b := by
    rw [hret, (sign _).2.2, heq]
  refine ⟨?_, ?_, h0, ?_, ?_, rfl, ?_⟩
  · rw [hret, (sign _).1, hlt]
  · rw [hret, (sign _).2.1, hanti, hgt]
  · intro ha hb
    rw [h0]
    exact ⟨serialize33_injective a b ha hb, fun h => by rw [h]⟩
  · show (if a.isInf then 1 else 0) + (if b.isInf then 1 else 0) = _
    cases a <;> cases b <;> rfl
  · cases a with
    | inf => simp [Codec.serialize33, Bytes.zeros]
    | aff x y => simp [Codec.serialize33]

/-- Non-vacuity: `G` (encoding `02‖Gx`) sorts before `-G` (encoding `03‖Gx`), the zero object sorts before
everything and costs one callback, equal keys compare equal. -/
example : (Keys.pubkeyCmp Pt.G (Pt.neg Pt.G)).ret = 2 ∧ (Keys.pubkeyCmp (Pt.neg Pt.G) Pt.G).ret = 1 ∧
    (Keys.pubkeyCmp Pt.G Pt.G).ret = 0 ∧ (Keys.pubkeyCmp Pt.inf Pt.G).ret = 2 ∧
    (Keys.pubkeyCmp Pt.inf Pt.G).illegal = 1 ∧ (Keys.pubkeyCmp Pt.inf Pt.inf).illegal = 2 := by
  decide +kernel

end C04
end SecpZkp
