/-
  C13 (tie T, mode S): facts about the CODE of `secp256k1_musig_partial_sign`, regenerated from clang's AST on every run
  (`Gen/Seq.lean`, tools/c2lean_s.py) — the hand-written model (`Props/C13.lean`: `partial_sign_wipes`, `binding`) wipes the
  secret nonce on every path; these theorems show that the C function has the statement order that makes this true of the code:

  * the nonce object is loaded exactly once, and the statement IMMEDIATELY following the load is
    `secp256k1_memzero_explicit(secnonce, sizeof(secp256k1_musig_secnonce))` — the whole object, not a part of it;
  * nothing before the load can use the nonce (the only earlier statements are the `secnonce != NULL` check and a no-op), and no
    statement that can leave the function (ARG_CHECK, `if (...) return`, `return`) lies between the load and the wipe;
  * hence every exit other than the NULL check happens after the wipe (`every_exit_after_wipe`);
  * the binding check compares BOTH coordinates of the stored point with the keypair's point (two `fe_equal` calls reading members
    `x` and `y` inside one ARG_CHECK), and it comes after the wipe.

  A change that moves the wipe below an argument check, wipes only part of the object, or drops the `y` comparison alters the
  regenerated list and breaks these theorems even when no test observes it.
-/
import SecpZkp.Gen.Seq

namespace SecpZkp
namespace Props
namespace C13seq
open Gen.Seq

def isLoad : Ev → Bool
  | .assign "secp256k1_musig_secnonce_load" => true
  | _ => false

def isWipe : Ev → Bool
  | .call "secp256k1_memzero_explicit" "secnonce" "secp256k1_musig_secnonce" => true
  | _ => false

/-- statements through which control can leave the function -/
def canExit : Ev → Bool
  | .argcheck _ _ => true
  | .ifret _ => true
  | .ret => true
  | _ => false

/-- mentions the load anywhere (as a statement or inside a condition) -/
def mentionsLoad : Ev → Bool
  | .assign f => f == "secp256k1_musig_secnonce_load"
  | .call f _ _ => f == "secp256k1_musig_secnonce_load"
  | .argcheck fs _ => fs.contains "secp256k1_musig_secnonce_load"
  | .ifret fs => fs.contains "secp256k1_musig_secnonce_load"
  | .ifstmt fs => fs.contains "secp256k1_musig_secnonce_load"
  | _ => false

def loadIdx (l : List Ev) : Nat := l.findIdx isLoad
def wipeIdx (l : List Ev) : Nat := l.findIdx isWipe

/-- the nonce is loaded by exactly one statement of the function -/
theorem load_once : (musig_partial_sign.filter mentionsLoad).length = 1 := by decide

/-- the wipe is the statement immediately after the load -/
theorem wipe_follows_load :
    loadIdx musig_partial_sign < musig_partial_sign.length ∧
    wipeIdx musig_partial_sign = loadIdx musig_partial_sign + 1 := by decide

/-- before the load there is only the `secnonce != NULL` check (an ARG_CHECK without any call) and no-ops: nothing can have used
    the nonce, and the only earlier exit returns without having read it -/
theorem prefix_harmless :
    (musig_partial_sign.take (loadIdx musig_partial_sign)).all
      (fun e => e == .other || e == .argcheck [] []) = true := by decide

/-- every statement that can leave the function, other than the NULL check in front of the load, comes after the wipe -/
theorem every_exit_after_wipe :
    ∀ i, (h : i < musig_partial_sign.length) → canExit musig_partial_sign[i] = true →
      i < loadIdx musig_partial_sign ∨ wipeIdx musig_partial_sign < i := by decide

/-- the failed-load exit (`if (!ret) return 0`) is the statement right after the wipe -/
theorem failed_load_exit_after_wipe :
    musig_partial_sign[wipeIdx musig_partial_sign + 1]? = some (.ifret []) := by decide

def isBinding : Ev → Bool
  | .argcheck fs ms => fs == ["secp256k1_fe_equal", "secp256k1_fe_equal"] && ms == ["x", "y"]
  | _ => false

/-- the keypair / nonce binding compares both coordinates, once, after the wipe and before the signature is saved -/
theorem binding_both_coordinates :
    (musig_partial_sign.filter isBinding).length = 1 ∧
    wipeIdx musig_partial_sign < musig_partial_sign.findIdx isBinding ∧
    musig_partial_sign.findIdx isBinding <
      musig_partial_sign.findIdx (fun e => e == .call "secp256k1_musig_partial_sig_save" "partial_sig" "") := by decide

/-- the signature is written by exactly one statement, and every fallible load precedes it -/
theorem save_once_after_all_loads :
    (musig_partial_sign.filter (fun e => e == .call "secp256k1_musig_partial_sig_save" "partial_sig" "")).length = 1 ∧
    ∀ i, (h : i < musig_partial_sign.length) → canExit musig_partial_sign[i] = true →
      i < musig_partial_sign.findIdx (fun e => e == .call "secp256k1_musig_partial_sig_save" "partial_sig" "") ∨
      musig_partial_sign[i] = .ret := by decide

/-- non-vacuity: the regenerated list is the function (24 top-level statements, ending in `return 1`) -/
example : musig_partial_sign.length = 24 ∧ musig_partial_sign.getLast? = some .ret := by decide

end C13seq
end Props
end SecpZkp
