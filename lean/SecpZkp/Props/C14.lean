import SecpZkp.Proofs.Adaptor
/-
  Property C14: "ECDSA adaptor signatures are consistent end-to-end and verified exactly".

  Model: `Model/Adaptor.lean` (mirrors `src/modules/ecdsa_adaptor/main_impl.h`, `dleq_impl.h`).
  Closed form: the group law is the proved one (`groupLaw`, `Proofs/GroupLawProved.lean`); no theorem below
  carries a hypothesis about the curve.  Encryption keys are stated as `Y = y•G` (`Pt.mulG y`, `0 < y < n`),
  never as "an arbitrary valid point" (the cofactor-1 fact is not assumed).

  1. `dleq_complete`            the DLEQ prover's output passes the DLEQ verifier
  2. `adaptor_complete`         encrypt → verify, decrypt → low-S ECDSA signature that verifies,
                                recover (from it and from its negated-s twin) → the decryption key
  3. `sigDeserialize_full_iff`, `dleqVerify_iff'`, `adaptor_verify_iff_spec`, `adaptor_verify_iff_closed`,
     `adaptor_verify_rejects_codec`   adaptor verification unfolded into a readable equivalence
  4. `recover_refuses_*`        recovery refuses foreign signatures / foreign keys; remarks
     `recover_writes_before_failing`, `encrypt_invalid_enckey_untouched`
-/
namespace SecpZkp
namespace C14
open SecpZkp.Algebra SecpZkp.C01 SecpZkp.AdaptorLemmas Adaptor

local instance instGL : HasGroupLaw := ⟨groupLaw⟩

/-! ## Test instances used by the non-vacuity examples -/

/-- A nonce callback with constant non-zero outputs: 9 for the DLEQ nonce, 5 for the adaptor nonce
    (keeps SHA-256/RFC 6979 out of the kernel evaluations below). -/
def exNonce : NonceFnA := fun _ _ _ algo _ =>
  if algo = dleqAlgo then some (Bytes.be32 9) else some (Bytes.be32 5)

/-- The adaptor signature of message `be32 12345` under signing key 7 for the encryption key `3•G` with the
    nonce callback `exNonce` (162 bytes; that `encrypt` really outputs it is the example after
    `adaptor_complete`). -/
def exSig : Bytes := [
  0x02, 0xd7, 0x92, 0x4d, 0x4f, 0x7d, 0x43, 0xea, 0x96, 0x5a, 0x46, 0x5a, 0xe3, 0x09, 0x5f, 0xf4, 0x11, 0x31,
  0xe5, 0x94, 0x6f, 0x3c, 0x85, 0xf7, 0x9e, 0x44, 0xad, 0xbc, 0xf8, 0xe2, 0x7e, 0x08, 0x0e, 0x02, 0x2f, 0x8b,
  0xde, 0x4d, 0x1a, 0x07, 0x20, 0x93, 0x55, 0xb4, 0xa7, 0x25, 0x0a, 0x5c, 0x51, 0x28, 0xe8, 0x8b, 0x84, 0xbd,
  0xdc, 0x61, 0x9a, 0xb7, 0xcb, 0xa8, 0xd5, 0x69, 0xb2, 0x40, 0xef, 0xe4, 0xfa, 0x99, 0x9f, 0x6f, 0x48, 0xf8,
  0xae, 0xd2, 0x7e, 0x62, 0x7f, 0x3d, 0xd9, 0xec, 0xbc, 0x18, 0x53, 0xb8, 0x0a, 0x07, 0x31, 0xad, 0x07, 0x6b,
  0x39, 0xc9, 0x28, 0xd9, 0xe0, 0x3f, 0x3b, 0x12, 0x17, 0xe1, 0x59, 0x30, 0x8b, 0xa5, 0x35, 0xd0, 0xbd, 0xa6,
  0x95, 0x8d, 0xac, 0xcb, 0x03, 0xbc, 0xa8, 0x1c, 0xbe, 0x3b, 0x09, 0xd8, 0xf2, 0xca, 0xf9, 0x1c, 0xe4, 0xde,
  0xea, 0x6c, 0xee, 0xc4, 0x77, 0x66, 0xbd, 0xf2, 0xba, 0x3a, 0x0d, 0x13, 0xb4, 0x40, 0xeb, 0xc4, 0x5f, 0xf7,
  0x12, 0xaf, 0x48, 0x8f, 0xb7, 0x27, 0x31, 0x3c, 0xbd, 0xf6, 0xdd, 0x90, 0x78, 0x5a, 0x94, 0x20, 0xa9, 0xdd]

/-! ## 1. DLEQ completeness -/

/-- **C14.1 (DLEQ completeness).**  Let `Y = y•G` be any generator-multiple (`0 < y < n`), `x < n` a secret
    (in particular every valid key `0 < x < n`), `P1 = x•G`, `P2 = x•Y`.  For every nonce function and extra
    data: if `dleq_prove` succeeds (i.e. the nonce function returned a value that is non-zero mod `n`) with
    output `(s, e)`, then `dleq_verify` accepts `(s, e)`, and for the nonce `k` used (`0 < k < n`)
    `s•G − e•P1 = k•G` and `s•Y − e•P2 = k•Y`. -/
theorem dleq_complete (x y : Nat) (hx : x < N) (hy0 : 0 < y) (hy : y < N)
    (nf : Option NonceFnA) (nd : Option Bytes) (s e : Nat)
    (h : dleqProve x (Pt.mulG x) (Pt.mulG y) (Pt.mul x (Pt.mulG y)) nf nd = some (s, e)) :
    dleqVerify s e (Pt.mulG x) (Pt.mulG y) (Pt.mul x (Pt.mulG y)) = true ∧
    ∃ k, 0 < k ∧ k < N ∧
      Pt.add (Pt.mulG s) (Pt.neg (Pt.mul e (Pt.mulG x))) = Pt.mulG k ∧
      Pt.add (Pt.mul s (Pt.mulG y)) (Pt.neg (Pt.mul e (Pt.mul x (Pt.mulG y)))) = Pt.mul k (Pt.mulG y) := by
  obtain ⟨k, hk0, hkN, -, he, hs⟩ := dleqProve_some h
  have heN : e < N := he ▸ dleqChallenge_lt _ _ _ _ _
  refine ⟨?_, k, hk0, hkN, ?_, ?_⟩
  · rw [hs, he]; exact dleqVerify_complete hx hy0 hy hk0 hkN
  · rw [hs, mulG_gmul (Sc.add_lt _ _), mulG_gmul hx, mul_gmul' heN, neg_gmul, add_gmul, mulG_gmul hkN]
    apply gmul_congr; simp only [cast_add, cast_mul]; ring
  · rw [hs, mulG_gmul hy, mul_gmul' (Sc.add_lt _ _), mul_gmul' hx, mul_gmul' heN, neg_gmul, add_gmul,
      mul_gmul' hkN]
    apply gmul_congr; simp only [cast_add, cast_mul]; ring

/-- Non-vacuity: the prover succeeds on a concrete instance (secret 7, `Y = 3•G`, constant nonce 9) … -/
example : dleqProve 7 (Pt.mulG 7) (Pt.mulG 3) (Pt.mul 7 (Pt.mulG 3)) (some exNonce) none =
    some (108650029743920681411317167993469824629853645338758614973964711129829976890270,
          98230067990071665504167441862415623413434495247733305269570075262488683480278) := by
  decide +kernel

/-- … and the conclusion checked directly on it by evaluation. -/
example : dleqVerify 108650029743920681411317167993469824629853645338758614973964711129829976890270
    98230067990071665504167441862415623413434495247733305269570075262488683480278
    (Pt.mulG 7) (Pt.mulG 3) (Pt.mul 7 (Pt.mulG 3)) = true := by
  decide +kernel

/-! ## 2. The adaptor pipeline -/

/-- **C14.2 (end-to-end consistency).**  For every valid signing key `0 < x < n`, decryption key
    `0 < y < n` (encryption key `Y = y•G`), every message (any byte string; it is reduced mod `n`), every
    nonce function (default or custom) and extra data: if `ecdsa_adaptor_encrypt` returns 1 then
    * it wrote a 162-byte adaptor signature `a` (and raised no callback);
    * `ecdsa_adaptor_verify a (x•G) msg Y` returns 1;
    * `ecdsa_adaptor_decrypt y a` returns 1 and a signature `(r, s)` with `0 < s < n`, low S, which
      `ecdsa_verify` accepts for `msg` under `x•G`;
    * `ecdsa_adaptor_recover` applied to `(r, s)` **and** to the negated-s twin `(r, n − s)` returns 1 and
      exactly the 32-byte encoding of `y`.
    (`encrypt` returning 1 already implies that all nonce outputs were non-zero mod `n`.) -/
theorem adaptor_complete (x y : Nat) (hx0 : 0 < x) (hx : x < N) (hy0 : 0 < y) (hy : y < N) (msg32 : Bytes)
    (nf : Option NonceFnA) (nd : Option Bytes)
    (henc : (encrypt (Bytes.be32 x) (Pt.mulG y) msg32 nf nd).ret = 1) :
    ∃ a r s, encrypt (Bytes.be32 x) (Pt.mulG y) msg32 nf nd = ⟨1, some a, 0⟩ ∧ a.length = 162 ∧
      verify a (Pt.mulG x) msg32 (Pt.mulG y) = ⟨1, (), 0⟩ ∧
      decrypt (Bytes.be32 y) a = (1, (r, s)) ∧ 0 < s ∧ s < N ∧ ¬ Sc.isHigh s = true ∧
      (Ecdsa.verify (r, s) msg32 (Pt.mulG x)).ret = 1 ∧
      recover (r, s) a (Pt.mulG y) = ⟨1, some (Bytes.be32 y), 0⟩ ∧
      recover (r, N - s) a (Pt.mulG y) = ⟨1, some (Bytes.be32 y), 0⟩ := by
  obtain ⟨yx, yy, hY⟩ := mulG_eq_aff hy0 hy
  rw [hY] at henc ⊢
  obtain ⟨k, ds, de, nonce32, hk0, hkN, -, -, hp, -, hr, hs, heq⟩ := encrypt_one henc
  rw [setB32Seckey_be32 hx0 hx] at hs heq
  simp only [] at hs heq
  -- the points in affine form
  have hkz := cast_ne_zero hk0 hkN
  have hyz := cast_ne_zero hy0 hy
  have hRg : Pt.mul k (Pt.aff yx yy) = gmul ((k : ZMod N) * y) := by rw [← hY, mulG_gmul hy, mul_gmul' hkN]
  obtain ⟨rx, ry, hR⟩ : ∃ rx ry, Pt.mul k (Pt.aff yx yy) = Pt.aff rx ry := by
    rw [hRg]; exact gmul_eq_aff (mul_ne_zero hkz hyz)
  obtain ⟨px, py, hRp⟩ := mulG_eq_aff hk0 hkN
  obtain ⟨qx, qy, hX⟩ := mulG_eq_aff hx0 hx
  have hRv : (Pt.aff rx ry).valid = true := by rw [← hR, hRg]; exact valid_gmul _
  have hrx : rx < 2 ^ 256 := lt_pow_of_lt_P (valid_aff_lt hRv).1
  rw [hR, hRp] at hp heq
  rw [hR] at hr hs
  simp only [xOf_aff] at hr hs heq
  generalize hsp : spOf k x (Bytes.toNat msg32 % N) (rx % N) = sp at hs heq
  have hspN : sp < N := hsp ▸ spOf_lt _ _ _ _
  have hsp0 : 0 < sp := Nat.pos_of_ne_zero hs
  -- decryption and its verification
  have hdec := decrypt_honest (ry := ry) (px := px) (py := py) (e := de) (s := ds) hy0 hy hrx hr hsp0 hspN
  have hver := decrypted_verifies (msg32 := msg32) hx0 hx hy0 hy hk0 hkN hY hR hr (by rw [hsp]; exact hs)
  simp only [] at hver
  rw [hsp] at hver
  obtain ⟨hsne, hsN, hlow, hverify⟩ := hver
  have hdes := deser_part (ry := ry) (px := px) (py := py) (e := de) (s := ds) hrx hr hsp0 hspN
  -- the candidate key recovered from `s` is `±y`
  generalize hs0 : Sc.mul (Sc.inv y) sp = s0 at hdec hsne hsN hlow hverify
  generalize hsdef : (if Sc.isHigh s0 = true then Sc.neg s0 else s0) = s at hdec hsne hsN hlow hverify
  have hspz : (sp : ZMod N) ≠ 0 := fun h => hs ((cast_eq_zero hspN).1 h)
  have hscast : (s : ZMod N) = if Sc.isHigh s0 then -((y : ZMod N)⁻¹ * sp) else (y : ZMod N)⁻¹ * sp := by
    rw [← hsdef, ← hs0]; split <;> simp only [cast_neg, cast_mul, cast_inv]
  have hcand := recover_field' (y : ZMod N) (sp : ZMod N) (s : ZMod N) hyz hspz _ hscast
  have hs0' : 0 < s := Nat.pos_of_ne_zero hsne
  have hc1 : ((Sc.mul (Sc.inv s) sp : Nat) : ZMod N) = y ∨ ((Sc.mul (Sc.inv s) sp : Nat) : ZMod N) = -(y : ZMod N) := by
    rw [cast_mul, cast_inv, hcand]; cases Sc.isHigh s0 <;> simp
  have hc2 : ((Sc.mul (Sc.inv (N - s)) sp : Nat) : ZMod N) = y ∨
      ((Sc.mul (Sc.inv (N - s)) sp : Nat) : ZMod N) = -(y : ZMod N) := by
    rw [← scNeg_eq_sub hs0' hsN, cast_mul, cast_inv, cast_neg, inv_neg, neg_mul, hcand]
    cases Sc.isHigh s0 <;> simp
  have hrec1 := recover_core (r := rx % N) (s := s) hdes hy hY hc1
  have hrec2 := recover_core (r := rx % N) (s := N - s) hdes hy hY hc2
  have hb1 : (((rx % N) == (rx % N)) && (s != 0)) = true := by simp [hsne]
  have hb2 : (((rx % N) == (rx % N)) && (N - s != 0)) = true := by
    have : N - s ≠ 0 := by omega
    simp [this]
  simp only [hb1, if_true] at hrec1
  simp only [hb2, if_true] at hrec2
  refine ⟨_, rx % N, s, heq, sigSerialize_length _ _ _ _ _ _ _, ?_, hdec, hs0', hsN, hlow, hverify, hrec1, hrec2⟩
  rw [hX]
  subst hsp
  exact verify_honest hx hy0 hy hkN hY hR hRp hX hp hr hs

/-- Non-vacuity: `encrypt` returns 1 on a concrete instance (key 7, `y = 3`, message `be32 12345`) and
    writes `exSig`. -/
example : (encrypt (Bytes.be32 7) (Pt.mulG 3) (Bytes.be32 12345) (some exNonce) none).ret = 1 := by
  decide +kernel
example : (encrypt (Bytes.be32 7) (Pt.mulG 3) (Bytes.be32 12345) (some exNonce) none).out = some exSig := by
  decide +kernel

/-- The decrypted signature of `exSig` under `y = 3` (this instance takes the branch in which `decrypt`
    negates `s`). -/
def exR : Nat := 97505755694356382817881959832717013755620551362654128955029190924747025549326
def exS : Nat := 39411512783332231328940474417769859339457956502083003034896830538898039838672

/-- The conclusions of `adaptor_complete` checked directly on that instance by evaluation: the adaptor
    verifies, … -/
example : (verify exSig (Pt.mulG 7) (Bytes.be32 12345) (Pt.mulG 3)).ret = 1 := by decide +kernel

/-- … decrypts to `(exR, exS)`, which `ecdsa_verify` accepts, … -/
example : decrypt (Bytes.be32 3) exSig = (1, (exR, exS)) ∧
    (Ecdsa.verify (exR, exS) (Bytes.be32 12345) (Pt.mulG 7)).ret = 1 := by decide +kernel

/-- … and the key is recovered from it and from its twin. -/
example : (recover (exR, exS) exSig (Pt.mulG 3)).out = some (Bytes.be32 3) ∧
    (recover (exR, exS) exSig (Pt.mulG 3)).ret = 1 := by decide +kernel

example : (recover (exR, N - exS) exSig (Pt.mulG 3)).out = some (Bytes.be32 3) ∧
    (recover (exR, N - exS) exSig (Pt.mulG 3)).ret = 1 := by decide +kernel

/-! ## 3. Adaptor verification, unfolded -/

/-- **C14.3a (the 162-byte codec, all parts).**  `sig_deserialize` accepts `a` and yields the parts
    `(R, r, R', s', e, s)` iff bytes 0..33 parse as a compressed point `R`, `r` = (bytes 1..33, the
    abscissa) mod `n` is non-zero, bytes 33..66 parse as a compressed point `R'`, `s'` = bytes 66..98 lies
    in `[1, n)`, `e` = bytes 98..130 reduced mod `n` (no range check, as in the C code), and the DLEQ
    response `s` = bytes 130..162 is `< n`. -/
theorem sigDeserialize_full_iff (a : Bytes) (p : Parts) :
    sigDeserialize true a = some p ↔
      Codec.pubkeyParse (a.take 33) = some p.r ∧
      p.sigr = Bytes.toNat ((a.drop 1).take 32) % N ∧ p.sigr ≠ 0 ∧
      Codec.pubkeyParse ((a.drop 33).take 33) = some p.rp ∧
      p.sp = Bytes.toNat ((a.drop 66).take 32) ∧ 0 < p.sp ∧ p.sp < N ∧
      p.e = Bytes.toNat ((a.drop 98).take 32) % N ∧
      p.s = Bytes.toNat ((a.drop 130).take 32) ∧ p.s < N := by
  obtain ⟨pr, psigr, prp, psp, pe, ps⟩ := p
  unfold sigDeserialize
  simp only [if_true]
  cases h1 : Codec.pubkeyParse (a.take 33) with
  | none => simp
  | some r =>
    simp only []
    by_cases h2 : Bytes.toNat ((a.drop 1).take 32) % N = 0
    · simp only [h2, if_true, reduceCtorEq, false_iff]
      rintro ⟨-, e1, e2, -⟩
      exact e2 e1
    · simp only [h2, if_false]
      cases h3 : Codec.pubkeyParse ((a.drop 33).take 33) with
      | none => simp
      | some rp =>
        simp only []
        by_cases h4 : (Sc.setB32Seckey ((a.drop 66).take 32)).2 = true
        · have h4' := (setB32Seckey_true_iff _).1 h4
          have h4'' := setB32Seckey_fst_of_true h4
          simp only [h4, Bool.not_true, Bool.false_eq_true, if_false, Sc.setB32]
          by_cases h5 : Bytes.toNat ((a.drop 130).take 32) < N
          · have : ¬ (Bytes.toNat ((a.drop 130).take 32) ≥ N) := by omega
            simp only [this, decide_false, Bool.false_eq_true, if_false, Option.some.injEq, Parts.mk.injEq,
              Nat.mod_eq_of_lt h5, h4'']
            constructor
            · rintro ⟨rfl, rfl, rfl, rfl, rfl, rfl⟩
              exact ⟨rfl, rfl, h2, rfl, rfl, h4'.1, h4'.2, rfl, rfl, h5⟩
            · rintro ⟨e1, e2, -, e3, e4, -, -, e5, e6, -⟩
              exact ⟨e1, e2.symm, e3, e4.symm, e5.symm, e6.symm⟩
          · have : Bytes.toNat ((a.drop 130).take 32) ≥ N := by omega
            simp only [this, decide_true, if_true, reduceCtorEq, false_iff]
            rintro ⟨-, -, -, -, -, -, -, -, e1, e2⟩
            omega
        · have h4f : (Sc.setB32Seckey ((a.drop 66).take 32)).2 = false := by simpa using h4
          simp only [h4f, Bool.not_false, if_true, reduceCtorEq, false_iff]
          rintro ⟨-, -, -, -, e1, e2, e3, -⟩
          exact h4 ((setB32Seckey_true_iff _).2 ⟨e1 ▸ e2, e1 ▸ e3⟩)

/-- **C14.3b (the DLEQ equation).**  For `e < n` (every deserialized `e` is): `dleq_verify s e P1 Y P2`
    accepts iff both recomputed commitments `R1 = s•G − e•P1`, `R2 = s•Y − e•P2` are finite and the
    challenge hash of `(P1, Y, P2, R1, R2)` reduced mod `n` equals `e`.  No group law needed. -/
theorem dleqVerify_iff' (s e : Nat) (p1 g2 p2 : Pt) (he : e < N) :
    dleqVerify s e p1 g2 p2 = true ↔
      Pt.add (Pt.mul (Sc.neg e) p1) (Pt.mulG s) ≠ Pt.inf ∧
      Pt.add (Pt.mul s g2) (Pt.mul (Sc.neg e) p2) ≠ Pt.inf ∧
      dleqChallenge g2 (Pt.add (Pt.mul (Sc.neg e) p1) (Pt.mulG s))
        (Pt.add (Pt.mul s g2) (Pt.mul (Sc.neg e) p2)) p1 p2 = e :=
  dleqVerify_iff s e p1 g2 p2 he

/-- **C14.3c (adaptor verification is exact).**  For every byte string `a`, public-key objects `X`, `Y` and
    message: `ecdsa_adaptor_verify` returns 1 iff `a` deserializes (all range and on-curve checks of
    `sigDeserialize_full_iff`) to parts `(R, r, R', s', e, s)`, neither key object is the zero object, the
    DLEQ proof `(s, e)` for `(R', Y, R)` verifies (`dleqVerify_iff'`), and the point
    `D = (r/s')•X + (m/s')•G` (`C01.verifyPoint`) is finite with `−D + R' = ∞`.  Otherwise 0.
    Pure unfolding of the model, no group law. -/
theorem adaptor_verify_iff_spec (a : Bytes) (X Y : Pt) (msg32 : Bytes) :
    (verify a X msg32 Y).ret = 1 ↔
      ∃ p, sigDeserialize true a = some p ∧ Y ≠ Pt.inf ∧ X ≠ Pt.inf ∧
        dleqVerify p.s p.e p.rp Y p.r = true ∧
        verifyPoint p.sigr p.sp (Bytes.toNat msg32 % N) X ≠ Pt.inf ∧
        Pt.add (Pt.neg (verifyPoint p.sigr p.sp (Bytes.toNat msg32 % N) X)) p.rp = Pt.inf := by
  unfold verify verifyPoint
  cases hdes : sigDeserialize true a with
  | none => simp
  | some p =>
    simp only [Option.some.injEq, exists_eq_left']
    cases Y with
    | inf => simp
    | aff yx yy =>
      simp only []
      by_cases hd : dleqVerify p.s p.e p.rp (Pt.aff yx yy) p.r = true
      · simp only [hd, Bool.not_true, Bool.false_eq_true, if_false, ne_eq, reduceCtorEq, not_false_eq_true,
          true_and]
        cases X with
        | inf => simp
        | aff qx qy =>
          simp only [reduceCtorEq, not_false_eq_true, true_and]
          generalize Pt.add (Pt.mul (Sc.mul (Sc.inv p.sp) p.sigr) (Pt.aff qx qy))
            (Pt.mulG (Sc.mul (Sc.inv p.sp) (Bytes.toNat msg32 % N))) = D
          cases D with
          | inf => simp [Pt.isInf]
          | aff dx dy =>
            simp only [Pt.isInf, Bool.false_eq_true, if_false, reduceCtorEq, not_false_eq_true, true_and]
            generalize Pt.add (Pt.neg (Pt.aff dx dy)) p.rp = E
            cases E <;> simp
      · have hd' : dleqVerify p.s p.e p.rp (Pt.aff yx yy) p.r = false := by simpa using hd
        simp [hd']

/-- What the compressed-point parser returns is a finite valid point. -/
theorem pubkeyParse_valid {b : Bytes} {q : Pt} (h : Codec.pubkeyParse b = some q) :
    q.valid = true ∧ q ≠ Pt.inf := by
  rw [C03.pubkeyParse_iff] at h
  rcases h with ⟨tag, xb, -, -, -, -, hl⟩ | ⟨tag, xb, yb, -, -, -, -, -, -, -, -, hc, rfl⟩
  · have := liftX_some hl; exact ⟨this.1, this.2.1⟩
  · exact ⟨hc, fun h => Pt.noConfusion h⟩

/-- **C14.3d (the adaptor equation, closed form).**  For a valid public key `X`: `ecdsa_adaptor_verify`
    returns 1 iff `a` deserializes to `(R, r, R', s', e, s)`, `X` and `Y` are not the zero object, the DLEQ
    proof verifies, and **`R' = s'⁻¹·(m•G + r•X)`** — the adaptor equation of the specification. -/
theorem adaptor_verify_iff_closed (a : Bytes) (X Y : Pt) (msg32 : Bytes) (hX : X.valid = true) :
    (verify a X msg32 Y).ret = 1 ↔
      ∃ p, sigDeserialize true a = some p ∧ Y ≠ Pt.inf ∧ X ≠ Pt.inf ∧
        dleqVerify p.s p.e p.rp Y p.r = true ∧
        p.rp = Pt.add (Pt.mul (Sc.mul (Sc.inv p.sp) p.sigr) X)
          (Pt.mulG (Sc.mul (Sc.inv p.sp) (Bytes.toNat msg32 % N))) := by
  rw [adaptor_verify_iff_spec]
  apply exists_congr
  intro p
  constructor
  · rintro ⟨hdes, hY, hXi, hd, -, hE⟩
    refine ⟨hdes, hY, hXi, hd, ?_⟩
    obtain ⟨hrpv, -⟩ := pubkeyParse_valid ((sigDeserialize_full_iff a p).1 hdes).2.2.2.1
    have hDv : (verifyPoint p.sigr p.sp (Bytes.toNat msg32 % N) X).valid = true :=
      gl.valid_add _ _ (SecpZkp.Algebra.valid_mul (lt_mulBound_of_lt_N (Sc.mul_lt _ _)) hX)
        (mulG_valid (lt_mulBound_of_lt_N (Sc.mul_lt _ _)))
    have := (add_eq_inf_iff (gl.valid_neg _ hDv) hrpv).1 hE
    rw [neg_neg_valid hDv] at this
    exact this
  · rintro ⟨hdes, hY, hXi, hd, hE⟩
    obtain ⟨hrpv, hrpi⟩ := pubkeyParse_valid ((sigDeserialize_full_iff a p).1 hdes).2.2.2.1
    have hD : verifyPoint p.sigr p.sp (Bytes.toNat msg32 % N) X = p.rp := hE.symm
    refine ⟨hdes, hY, hXi, hd, by rw [hD]; exact hrpi, ?_⟩
    rw [hD, gl.add_comm _ _ (gl.valid_neg _ hrpv) hrpv]
    exact gl.add_neg _ hrpv

/-- **C14.3e (what the codec rejects).**  `ecdsa_adaptor_verify` returns 0 whenever either point encoding
    does not parse (wrong prefix, `x ≥ p`, off-curve), `R.x mod n = 0`, `s'` is 0 or `≥ n`, or the DLEQ
    response is `≥ n` — for every key and message. -/
theorem adaptor_verify_rejects_codec (a : Bytes) (X Y : Pt) (msg32 : Bytes)
    (h : Codec.pubkeyParse (a.take 33) = none ∨ Codec.pubkeyParse ((a.drop 33).take 33) = none ∨
      Bytes.toNat ((a.drop 1).take 32) % N = 0 ∨ Bytes.toNat ((a.drop 66).take 32) = 0 ∨
      N ≤ Bytes.toNat ((a.drop 66).take 32) ∨ N ≤ Bytes.toNat ((a.drop 130).take 32)) :
    (verify a X msg32 Y).ret = 0 := by
  cases hdes : sigDeserialize true a with
  | none => unfold verify; rw [hdes]
  | some p =>
    exfalso
    obtain ⟨e1, e2, e3, e4, e5, e6, e7, -, e9, e10⟩ := (sigDeserialize_full_iff a p).1 hdes
    rcases h with h | h | h | h | h | h
    · rw [h] at e1; cases e1
    · rw [h] at e4; cases e4
    · exact e3 (e2 ▸ h)
    · omega
    · omega
    · omega

/-- Non-vacuity of the equivalences: the honest adaptor `exSig` deserializes (and is accepted, see the
    example after `adaptor_complete`) … -/
example : (sigDeserialize true exSig).isSome = true := by decide +kernel

/-- … and is rejected for another message, another signer key, another encryption key, after flipping
    one bit of `s'` (byte 97), and after replacing `R` by `−R` (first byte `02 ↔ 03`). -/
example : (verify exSig (Pt.mulG 7) (Bytes.be32 12346) (Pt.mulG 3)).ret = 0 := by decide +kernel
example : (verify exSig (Pt.mulG 8) (Bytes.be32 12345) (Pt.mulG 3)).ret = 0 := by decide +kernel
example : (verify exSig (Pt.mulG 7) (Bytes.be32 12345) (Pt.mulG 4)).ret = 0 := by decide +kernel
example : (verify (exSig.set 97 (exSig.getD 97 0 ^^^ 1)) (Pt.mulG 7) (Bytes.be32 12345) (Pt.mulG 3)).ret = 0 := by
  decide +kernel
example : (verify (exSig.set 0 (exSig.getD 0 0 ^^^ 1)) (Pt.mulG 7) (Bytes.be32 12345) (Pt.mulG 3)).ret = 0 := by
  decide +kernel

/-- `adaptor_verify_iff_closed`: its hypothesis (a valid public key) holds for the instance. -/
example : (Pt.mulG 7).valid = true := by decide +kernel

/-- `pubkeyParse_valid`: an accepted encoding. -/
example : Codec.pubkeyParse (Codec.serialize33 Pt.G) = some Pt.G :=
  pubkeyParse_serialize33 (x := Pt.Gx) (y := Pt.Gy) (by decide +kernel)

/-- `adaptor_verify_rejects_codec`: its hypothesis holds e.g. for the adaptor with `s'` replaced by `n`. -/
example : N ≤ Bytes.toNat (((exSig.take 66 ++ Bytes.be32 N ++ exSig.drop 98).drop 66).take 32) := by
  decide +kernel

/-! ## 4. Recovery refuses -/

/-- **C14.4a.**  `ecdsa_adaptor_recover` returns 0 and writes nothing when the adaptor signature does not
    deserialize (`r = 0` or `s'` out of range). -/
theorem recover_refuses_bad_adaptor (sig : Nat × Nat) (a : Bytes) (Y : Pt)
    (h : sigDeserialize false a = none) : recover sig a Y = ⟨0, none, 0⟩ := by
  unfold recover; rw [h]

/-- **C14.4b.**  `ecdsa_adaptor_recover` returns 0 whenever the signature's `r` differs from the adaptor's
    `R.x mod n` — for every `s`, every encryption-key object. -/
theorem recover_refuses_wrong_r (r s : Nat) (a : Bytes) (Y : Pt) (p : Parts)
    (hdes : sigDeserialize false a = some p) (hr : p.sigr ≠ r) : (recover (r, s) a Y).ret = 0 :=
  recover_wrong_r hdes Y hr

/-- **C14.4c.**  For a valid finite encryption key `Y` (any valid point, not only generator multiples):
    if the public point `c•G` of the recovered candidate `c = s⁻¹·s'` is neither `Y` nor `−Y`, then
    `ecdsa_adaptor_recover` returns 0 and writes nothing. -/
theorem recover_refuses_wrong_key (r s : Nat) (a : Bytes) (yx yy : Nat) (p : Parts)
    (hdes : sigDeserialize false a = some p) (hYv : (Pt.aff yx yy).valid = true)
    (h1 : Pt.mulG (Sc.mul (Sc.inv s) p.sp) ≠ Pt.aff yx yy)
    (h2 : Pt.mulG (Sc.mul (Sc.inv s) p.sp) ≠ Pt.neg (Pt.aff yx yy)) :
    recover (r, s) a (Pt.aff yx yy) = ⟨0, none, 0⟩ :=
  recover_wrong_key hdes hYv h1 h2

/-- **Remark (mirrors the C code, observed on the real library).**  When the candidate matches `±Y` but
    `r` does not match (or `s = 0`), `ecdsa_adaptor_recover` returns 0 **after** having written the
    candidate key `be32 y` into the output buffer. -/
theorem recover_writes_before_failing (r s y : Nat) (hy0 : 0 < y) (hy : y < N) (a : Bytes) (p : Parts)
    (hdes : sigDeserialize false a = some p)
    (hc : ((Sc.mul (Sc.inv s) p.sp : Nat) : ZMod N) = y ∨ ((Sc.mul (Sc.inv s) p.sp : Nat) : ZMod N) = -(y : ZMod N))
    (hbad : p.sigr ≠ r ∨ s = 0) :
    recover (r, s) a (Pt.mulG y) = ⟨0, some (Bytes.be32 y), 0⟩ := by
  obtain ⟨yx, yy, hY⟩ := mulG_eq_aff hy0 hy
  rw [hY, recover_core hdes hy hY hc]
  have : ((p.sigr == r) && (s != 0)) = false := by
    rcases hbad with h | h
    · have : (p.sigr == r) = false := by simpa using h
      simp [this]
    · simp [h]
  simp [this]

/-- **Remark.**  `ecdsa_adaptor_encrypt` with the zero (invalid) encryption-key object raises the
    illegal-argument callback, returns 0 and leaves the 162-byte output buffer untouched (it is *not*
    zeroed on this path). -/
theorem encrypt_invalid_enckey_untouched (seckey32 msg32 : Bytes) (nf : Option NonceFnA) (nd : Option Bytes) :
    encrypt seckey32 Pt.inf msg32 nf nd = ⟨0, none, 1⟩ := rfl

/-- Non-vacuity of 4a: a string that does not deserialize. -/
example : sigDeserialize false (Bytes.zeros 162) = none := by decide +kernel

/-- Non-vacuity of 4b and of the remark: with the honest adaptor `exSig` and its decrypted signature
    `(exR, exS)`, a foreign `r` gives 0 — yet `be32 3` has been written. -/
example : (recover (exR + 1, exS) exSig (Pt.mulG 3)).ret = 0 ∧
    (recover (exR + 1, exS) exSig (Pt.mulG 3)).out = some (Bytes.be32 3) := by decide +kernel

/-- Non-vacuity of 4c: a foreign encryption key `4•G` gives 0 and nothing is written; the hypotheses of
    `recover_refuses_wrong_key` hold for it. -/
example : (recover (exR, exS) exSig (Pt.mulG 4)).ret = 0 ∧ (recover (exR, exS) exSig (Pt.mulG 4)).out = none := by
  decide +kernel

/-- the recovered candidate is `n − 3` (i.e. `−y`, since `decrypt` negated `s`), whose point is neither
    `4•G` nor `−4•G` -/
example : Sc.mul (Sc.inv exS) ((sigDeserialize false exSig).getD {}).sp = N - 3 := by decide +kernel
example : Pt.mulG (N - 3) ≠ Pt.mulG 4 ∧ Pt.mulG (N - 3) ≠ Pt.neg (Pt.mulG 4) ∧ (Pt.mulG 4).valid = true := by
  decide +kernel

end C14
end SecpZkp
