import SecpZkp.Gen.Guards
/-! # C12 — the argument checks the model assumes are present at the C call sites (translator mode G)

`Gen.callFacts` is regenerated from clang's AST of /repo on every run (tools/c2lean_g.py): one fact per call of a
fallible primitive (range-checked field/scalar decoding, curve membership, infinity / zero tests, nested parsers)
inside the functions this property is anchored in, saying whether the call's result steers control flow
(`resultChecked`) and whether the overflow flag it writes is read before being overwritten (`flag = some true`;
`none` = the call passes NULL, i.e. reduces silently).  The executable model rejects out-of-range encodings at
exactly these places; the theorems below pin the C side to the same shape.  A fact list that no longer matches
is a broken tie (the check then searches for a failing input with the differential generators). -/
namespace SecpZkp.Props.C12_guards
open SecpZkp.Gen

/-- `secp256k1_musig_partial_sig_parse`: its fallible-primitive call sites are exactly these, each with its result / overflow flag
    consumed as listed. -/
theorem musig_partial_sig_parse_sites : Facts.musig_partial_sig_parse = [
    ⟨.scalar_set_b32, 1, false, some true⟩
  ] := by decide

/-- `secp256k1_musig_pubnonce_parse`: its fallible-primitive call sites are exactly these, each with its result / overflow flag
    consumed as listed. -/
theorem musig_pubnonce_parse_sites : Facts.musig_pubnonce_parse = [
    ⟨.eckey_pubkey_parse, 1, true, none⟩
  ] := by decide

/-- `secp256k1_musig_partial_sign`: its fallible-primitive call sites are exactly these, each with its result / overflow flag
    consumed as listed. -/
theorem musig_partial_sign_sites : Facts.musig_partial_sign = [
    ⟨.musig_secnonce_load, 1, true, none⟩,
    ⟨.keypair_load, 1, true, none⟩,
    ⟨.keyagg_cache_load, 1, true, none⟩,
    ⟨.musig_session_load, 1, true, none⟩
  ] := by decide

/-- `secp256k1_musig_partial_sig_verify`: its fallible-primitive call sites are exactly these, each with its result / overflow flag
    consumed as listed. -/
theorem musig_partial_sig_verify_sites : Facts.musig_partial_sig_verify = [
    ⟨.musig_session_load, 1, true, none⟩,
    ⟨.musig_pubnonce_load, 1, true, none⟩,
    ⟨.pubkey_load, 1, true, none⟩,
    ⟨.keyagg_cache_load, 1, true, none⟩,
    ⟨.musig_partial_sig_load, 1, true, none⟩,
    ⟨.gej_is_infinity, 1, true, none⟩
  ] := by decide

/-- `secp256k1_musig_pubkey_tweak_add_internal`: its fallible-primitive call sites are exactly these, each with its result / overflow flag
    consumed as listed. -/
theorem musig_pubkey_tweak_add_internal_sites : Facts.musig_pubkey_tweak_add_internal = [
    ⟨.keyagg_cache_load, 1, true, none⟩,
    ⟨.scalar_set_b32, 1, false, some true⟩
  ] := by decide

/-- `secp256k1_keyagg_cache_load`: its fallible-primitive call sites are exactly these, each with its result / overflow flag
    consumed as listed. -/
theorem keyagg_cache_load_sites : Facts.keyagg_cache_load = [
    ⟨.memcmp_var, 1, true, none⟩,
    ⟨.scalar_set_b32, 1, false, none⟩
  ] := by decide

/-- `secp256k1_musig_adapt`: its fallible-primitive call sites are exactly these, each with its result / overflow flag
    consumed as listed. -/
theorem musig_adapt_sites : Facts.musig_adapt = [
    ⟨.scalar_set_b32, 1, false, some true⟩,
    ⟨.scalar_set_b32, 2, false, some true⟩
  ] := by decide

/-- `secp256k1_musig_extract_adaptor`: its fallible-primitive call sites are exactly these, each with its result / overflow flag
    consumed as listed. -/
theorem musig_extract_adaptor_sites : Facts.musig_extract_adaptor = [
    ⟨.scalar_set_b32, 1, false, some true⟩,
    ⟨.scalar_set_b32, 2, false, some true⟩
  ] := by decide

/-- `secp256k1_musig_keyaggcoef_internal`: its fallible-primitive call sites are exactly these, each with its result / overflow flag
    consumed as listed. -/
theorem musig_keyaggcoef_internal_sites : Facts.musig_keyaggcoef_internal = [
    ⟨.ge_is_infinity, 1, true, none⟩,
    ⟨.scalar_set_b32, 1, false, none⟩
  ] := by decide

/-- `secp256k1_musig_nonce_gen_internal`: its fallible-primitive call sites are exactly these, each with its result / overflow flag
    consumed as listed. -/
theorem musig_nonce_gen_internal_sites : Facts.musig_nonce_gen_internal = [
    ⟨.ecmult_gen_context_is_built, 1, true, none⟩,
    ⟨.scalar_set_b32_seckey, 1, true, none⟩,
    ⟨.keyagg_cache_load, 1, true, none⟩,
    ⟨.pubkey_load, 1, true, none⟩
  ] := by decide

/-- `secp256k1_musig_nonce_process_internal`: its fallible-primitive call sites are exactly these, each with its result / overflow flag
    consumed as listed. -/
theorem musig_nonce_process_internal_sites : Facts.musig_nonce_process_internal = [
    ⟨.scalar_set_b32, 1, false, none⟩,
    ⟨.ge_is_infinity, 1, true, none⟩
  ] := by decide

/-- `secp256k1_musig_partial_sig_load`: its fallible-primitive call sites are exactly these, each with its result / overflow flag
    consumed as listed. -/
theorem musig_partial_sig_load_sites : Facts.musig_partial_sig_load = [
    ⟨.memcmp_var, 1, true, none⟩,
    ⟨.scalar_set_b32, 1, false, some false⟩
  ] := by decide

/-- `secp256k1_musig_secnonce_load`: its fallible-primitive call sites are exactly these, each with its result / overflow flag
    consumed as listed. -/
theorem musig_secnonce_load_sites : Facts.musig_secnonce_load = [
    ⟨.memcmp_var, 1, true, none⟩,
    ⟨.is_zero_array, 1, true, none⟩,
    ⟨.scalar_set_b32, 1, false, none⟩,
    ⟨.scalar_set_b32, 2, false, none⟩
  ] := by decide

/-- `secp256k1_musig_session_load`: its fallible-primitive call sites are exactly these, each with its result / overflow flag
    consumed as listed. -/
theorem musig_session_load_sites : Facts.musig_session_load = [
    ⟨.memcmp_var, 1, true, none⟩,
    ⟨.scalar_set_b32, 1, false, none⟩,
    ⟨.scalar_set_b32, 2, false, none⟩,
    ⟨.scalar_set_b32, 3, false, none⟩
  ] := by decide

/-- `secp256k1_nonce_function_musig`: its fallible-primitive call sites are exactly these, each with its result / overflow flag
    consumed as listed. -/
theorem nonce_function_musig_sites : Facts.nonce_function_musig = [
    ⟨.scalar_set_b32, 1, false, none⟩
  ] := by decide

/-- `secp256k1_musig_partial_sig_load` ignores the overflow flag outside VERIFY builds ON PURPOSE: the object can only come from secp256k1_musig_partial_sig_parse, which rejects s >= n (pinned above), or from partial_sign / save, which store a reduced scalar. -/
theorem musig_partial_sig_load_flag_verify_only : (Facts.musig_partial_sig_load.filter (fun f => f.flag = some false)).length = 1 := by decide

def all : List CallFact := Facts.musig_partial_sig_parse ++ Facts.musig_pubnonce_parse ++ Facts.musig_partial_sign ++ Facts.musig_partial_sig_verify ++ Facts.musig_pubkey_tweak_add_internal ++ Facts.keyagg_cache_load ++ Facts.musig_adapt ++ Facts.musig_extract_adaptor ++ Facts.musig_keyaggcoef_internal ++ Facts.musig_nonce_gen_internal ++ Facts.musig_nonce_process_internal ++ Facts.musig_secnonce_load ++ Facts.musig_session_load ++ Facts.nonce_function_musig

/-- No overflow flag written by a scalar decoding in these functions is ignored (overwritten or never read). -/
theorem no_flag_dropped : ∀ f ∈ all, f.flag ≠ some false := by decide

/-- non-vacuity: the regenerated fact lists are not empty -/
example : all.length = 37 := by decide

end SecpZkp.Props.C12_guards
