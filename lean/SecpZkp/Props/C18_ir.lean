import SecpZkp.Proofs.EllswiftIR
/-
  C18 (IR level): the hand-written model of the ElligatorSwift field-level functions (`Model/Ellswift.lean`:
  `geXOnCurveVar`, `geXFracOnCurveVar`, `xswiftecFracVar`, `xswiftecVar`, …) is a faithful transcription of the C code.

  `Gen/F_ellswift.lean` is REGENERATED from the C sources (src/modules/ellswift/main_impl.h, src/group_impl.h) by the
  translator (mode F): programs over field VALUES with the magnitude contract of src/field.h (`FeIR.execL`; `none` = a
  field primitive is called outside its documented magnitude).  Until now the model was tied to the C code by
  differential testing only; here: for EVERY state (all field values, all other variables arbitrary),

      running the generated body succeeds, and its outputs are EXACTLY the values the model function returns.

  Reading guide.
  * `st.returned = false`: the function is entered normally.
  * Inputs are field variables of the state (`st.fe.get "u"` = value and magnitude); the values are arbitrary naturals
    (NOT assumed reduced mod `P`): the model functions reduce their inputs themselves, and the theorems hold for
    unreduced inputs as they stand.  Magnitude hypotheses are `≤ 8` (what `fe_mul`/`fe_sqr` accept), which covers the
    callers of the library (they pass magnitude ≤ 1, and ≤ 6 for the inlined on-curve tests).
  * Outputs: `(st'.fe.get "xn").val` is the value held by the C variable after the call; equalities are equalities of
    natural numbers (both sides are reduced mod `P`), not just congruences.
  * `ge_set_gej` / `ge_set_gej_var` (src/group_impl.h, same generated file) use `RepJ` / `RepA` of `Proofs/GroupIR.lean`
    (see `Props/C05_group.lean`).
-/
namespace SecpZkp.C18ir
open SecpZkp SecpZkp.FeIR SecpZkp.MiniC

-- the field operations are never unfolded below (a failed unification of two different field terms would otherwise
-- end in `_ % P` on a non-literal, i.e. unary recursion on `P`)
attribute [local irreducible] Fe.add Fe.mul Fe.sqr Fe.neg Fe.inv Fe.isSquare Fe.half Fe.sqrtCand FeIR.canon

local macro "casts" "[" ts:Lean.Parser.Tactic.simpLemma,* "]" : tactic =>
  `(tactic| simp only [Fe.cast_add, Fe.cast_mul, Fe.cast_sqr, Fe.cast_neg, Fe.cast_inv, cast_half_canon, cast_canon,
      Nat.cast_ofNat, Nat.cast_one, $ts,*])

/-- a state with the field variables `vars` (name, value, magnitude) and nothing else -/
def stOf (vars : List (String × ℕ × ℕ)) : State := ⟨vars.map fun v => (v.1, ⟨v.2.1, v.2.2⟩), [], false⟩

/-! ## 1. `secp256k1_ge_x_on_curve_var` -/

/-- `secp256k1_ge_x_on_curve_var(x)`: execution succeeds and the return value is 1 iff the model's `geXOnCurveVar`
    (on the value held by `x`, reduced or not) is true, else 0. -/
theorem ge_x_on_curve_var_eq (st : State) (hret : st.returned = false) (hx : (st.fe.get "x").mag ≤ 8) :
    ∃ st', FeIR.execL st Gen.ellswift.ge_x_on_curve_var.body = some st' ∧
      st'.ints.get "ret" 0 = if Ellswift.geXOnCurveVar (st.fe.get "x").val = true then 1 else 0 := by
  obtain ⟨fe, ints, ret⟩ := st
  simp only at hret hx; subst hret
  generalize hxv : fe.get "x" = xv at hx; obtain ⟨X, mx⟩ := xv
  simp only at hx
  apply Post.elim
  fe_run [Gen.ellswift.ge_x_on_curve_var, hxv]
  rfl

set_option maxRecDepth 100000 in
/-- non-vacuity: `x = Gx` (on the curve: 1), `x = 5` (not on the curve: 0), and an unreduced value `P + Gx` -/
example :
    ((FeIR.execL (stOf [("x", Pt.Gx, 1)]) Gen.ellswift.ge_x_on_curve_var.body).map (·.ints.get "ret" 0) = some 1 ∧
      Ellswift.geXOnCurveVar Pt.Gx = true) ∧
    ((FeIR.execL (stOf [("x", 5, 8)]) Gen.ellswift.ge_x_on_curve_var.body).map (·.ints.get "ret" 0) = some 0 ∧
      Ellswift.geXOnCurveVar 5 = false) ∧
    ((FeIR.execL (stOf [("x", P + Pt.Gx, 1)]) Gen.ellswift.ge_x_on_curve_var.body).map (·.ints.get "ret" 0) = some 1 ∧
      Ellswift.geXOnCurveVar (P + Pt.Gx) = true) := by decide +kernel

/-! ## 2. `secp256k1_ge_x_frac_on_curve_var` -/

/-- `secp256k1_ge_x_frac_on_curve_var(xn, xd)`: the return value is `geXFracOnCurveVar xn xd` as 0/1. -/
theorem ge_x_frac_on_curve_var_eq (st : State) (hret : st.returned = false)
    (hxn : (st.fe.get "xn").mag ≤ 8) (hxd : (st.fe.get "xd").mag ≤ 8) :
    ∃ st', FeIR.execL st Gen.ellswift.ge_x_frac_on_curve_var.body = some st' ∧
      st'.ints.get "ret" 0 =
        if Ellswift.geXFracOnCurveVar (st.fe.get "xn").val (st.fe.get "xd").val = true then 1 else 0 := by
  obtain ⟨fe, ints, ret⟩ := st
  simp only at hret hxn hxd; subst hret
  generalize hnv : fe.get "xn" = nv at hxn; obtain ⟨Xn, mn⟩ := nv
  generalize hdv : fe.get "xd" = dv at hxd; obtain ⟨Xd, md⟩ := dv
  simp only at hxn hxd
  apply Post.elim
  fe_run [Gen.ellswift.ge_x_frac_on_curve_var, hnv, hdv]
  rfl

set_option maxRecDepth 100000 in
/-- non-vacuity: `3·Gx / 3` is on the curve, `5 / 1` is not -/
example :
    ((FeIR.execL (stOf [("xn", Fe.mul 3 Pt.Gx, 3), ("xd", 3, 6)]) Gen.ellswift.ge_x_frac_on_curve_var.body).map
        (·.ints.get "ret" 0) = some 1 ∧ Ellswift.geXFracOnCurveVar (Fe.mul 3 Pt.Gx) 3 = true) ∧
    ((FeIR.execL (stOf [("xn", 5, 1), ("xd", 1, 1)]) Gen.ellswift.ge_x_frac_on_curve_var.body).map
        (·.ints.get "ret" 0) = some 0 ∧ Ellswift.geXFracOnCurveVar 5 1 = false) := by decide +kernel

/-! ## 3. `secp256k1_ellswift_xswiftec_frac_var` -/

set_option maxHeartbeats 2000000 in
/-- `secp256k1_ellswift_xswiftec_frac_var(xn, xd, u, t)`: execution succeeds in every case (`u = 0`, `t = 0`,
    `g + s = 0`, each of the three candidates `x3`, `x2`, `x1`), and `xn`, `xd` hold exactly the two components of the
    model's `xswiftecFracVar u t`; their magnitudes are at most 3 and 6 (so `xd` may be passed to `fe_inv`, and both to
    `fe_mul`). -/
theorem xswiftec_frac_var_eq (st : State) (hret : st.returned = false)
    (hu : (st.fe.get "u").mag ≤ 8) (ht : (st.fe.get "t").mag ≤ 8) :
    ∃ st', FeIR.execL st Gen.ellswift.xswiftec_frac_var.body = some st' ∧
      (st'.fe.get "xn").val = (Ellswift.xswiftecFracVar (st.fe.get "u").val (st.fe.get "t").val).1 ∧
      (st'.fe.get "xd").val = (Ellswift.xswiftecFracVar (st.fe.get "u").val (st.fe.get "t").val).2 ∧
      (st'.fe.get "xn").mag ≤ 3 ∧ (st'.fe.get "xd").mag ≤ 6 := by
  obtain ⟨fe, ints, ret⟩ := st
  simp only at hret hu ht; subst hret
  generalize huv : fe.get "u" = uv at hu; obtain ⟨U, mu⟩ := uv
  generalize htv : fe.get "t" = tv at ht; obtain ⟨T, mt⟩ := tv
  simp only at hu ht
  have hm := xswiftecFracVar_raw U T
  simp only [Ellswift.fracCore, Ellswift.geXFracOnCurveVar] at hm
  generalize Ellswift.xswiftecFracVar U T = m at hm
  apply Post.elim
  fe_run [Gen.ellswift.xswiftec_frac_var, huv, htv]
  repeat' fe_split1 hm
  all_goals (subst hm; with_reducible exact ⟨rfl, rfl, by decide, by decide⟩)

/-- a square root of `-(5³ + 7)`: with `u = 5` this `t` hits the exceptional case `g + s = 0` -/
def tExc : ℕ := 23991821008281484097053715379747718372991279943638939452345024967188278261434

/-- the outputs of a run of `xswiftec_frac_var` on `(u, t)` (magnitude 1) agree with the model -/
def fracAgrees (u t : ℕ) : Bool :=
  (FeIR.execL (stOf [("u", u, 1), ("t", t, 1)]) Gen.ellswift.xswiftec_frac_var.body).map
    (fun st' => ((st'.fe.get "xn").val, (st'.fe.get "xd").val)) = some (Ellswift.xswiftecFracVar u t)

set_option maxRecDepth 100000 in
/-- non-vacuity, one input per path: `(2, 1)` returns `x3`, `(0, 0)` (both remapped) returns `x2`, `(0, 2)` returns `x1`,
    `(5, tExc)` takes the `g + s = 0` branch, `(P + 2, P + 1)` is unreduced -/
example : fracAgrees 2 1 = true ∧ fracAgrees 0 0 = true ∧ fracAgrees 0 2 = true ∧ fracAgrees 5 tExc = true ∧
    fracAgrees (P + 2) (P + 1) = true ∧
    Fe.add (Fe.add (Fe.mul (Fe.sqr 5) 5) 7) (Fe.sqr tExc) = 0 := by decide +kernel

/-! ## 4. `secp256k1_ellswift_xswiftec_var` -/

set_option maxHeartbeats 2000000 in
/-- `secp256k1_ellswift_xswiftec_var(x, u, t)` (the inlined `xswiftec_frac_var`, then `fe_inv_var` and `fe_mul`):
    execution succeeds and `x` holds exactly the model's `xswiftecVar u t` (magnitude 1). -/
theorem xswiftec_var_eq (st : State) (hret : st.returned = false)
    (hu : (st.fe.get "u").mag ≤ 8) (ht : (st.fe.get "t").mag ≤ 8) :
    ∃ st', FeIR.execL st Gen.ellswift.xswiftec_var.body = some st' ∧
      (st'.fe.get "x").val = Ellswift.xswiftecVar (st.fe.get "u").val (st.fe.get "t").val ∧
      (st'.fe.get "x").mag ≤ 1 := by
  obtain ⟨fe, ints, ret⟩ := st
  simp only at hret hu ht; subst hret
  generalize huv : fe.get "u" = uv at hu; obtain ⟨U, mu⟩ := uv
  generalize htv : fe.get "t" = tv at ht; obtain ⟨T, mt⟩ := tv
  simp only at hu ht
  have hv : Ellswift.xswiftecVar U T =
      Fe.mul (Ellswift.xswiftecFracVar U T).1 (Fe.inv (Ellswift.xswiftecFracVar U T).2) := rfl
  rw [hv]
  have hm := xswiftecFracVar_raw U T
  simp only [Ellswift.fracCore, Ellswift.geXFracOnCurveVar] at hm
  generalize Ellswift.xswiftecFracVar U T = m at hm
  apply Post.elim
  fe_run [Gen.ellswift.xswiftec_var, huv, htv]
  repeat' fe_split1 hm
  all_goals (subst hm; with_reducible exact ⟨rfl, by decide⟩)

/-- the output of a run of `xswiftec_var` on `(u, t)` agrees with the model -/
def xswiftecAgrees (u t : ℕ) : Bool :=
  (FeIR.execL (stOf [("u", u, 1), ("t", t, 1)]) Gen.ellswift.xswiftec_var.body).map
    (fun st' => (st'.fe.get "x").val) = some (Ellswift.xswiftecVar u t)

set_option maxRecDepth 100000 in
/-- non-vacuity: the same five inputs -/
example : xswiftecAgrees 2 1 = true ∧ xswiftecAgrees 0 0 = true ∧ xswiftecAgrees 0 2 = true ∧
    xswiftecAgrees 5 tExc = true ∧ xswiftecAgrees (P + 2) (P + 1) = true := by decide +kernel

/-! ## 5. `secp256k1_ge_set_gej`, `secp256k1_ge_set_gej_var` (src/group_impl.h) -/

local macro "mg" : tactic => `(tactic| (dsimp only; omega))

/-- `secp256k1_ge_set_gej(r, a)`: `a` holds a point `p` (Jacobian, within the contract x ≤ 4, y ≤ 4, z ≤ 1; `p` finite with
    `z ≢ 0`, or the infinity flag set).  Execution succeeds, `r` holds the same point in affine coordinates
    (`x/z²`, `y/z³`; magnitudes 1, 1), and `a` (which the C function rescales in place) still holds `p`, now with `z = 1`.
    When the flag is set the field operations are still executed (on whatever `a` contains) and the flag is copied. -/
theorem ge_set_gej_eq (st : State) (p : Pt) (hret : st.returned = false) (ha : RepJ st "a" p 4 4 1) :
    ∃ st', FeIR.execL st Gen.ellswift.ge_set_gej.body = some st' ∧ RepA st' "r" p 1 1 ∧ RepJ st' "a" p 1 1 1 := by
  obtain ⟨fe, ints, ret⟩ := st
  simp only at hret; subst hret
  simp only [RepJ, String.reduceAppend] at ha
  generalize hx : fe.get "a.x" = ax at ha; obtain ⟨X, mx⟩ := ax
  generalize hy : fe.get "a.y" = ay at ha; obtain ⟨Y, my⟩ := ay
  generalize hz : fe.get "a.z" = az at ha; obtain ⟨Z, mz⟩ := az
  obtain ⟨h1, h2, h3, h4⟩ := ha.elim
  simp only at h1 h2 h3 h4
  apply Post.elim
  fe_run [Gen.ellswift.ge_set_gej, hx, hy, hz]
  fe_get [feGetChain, intsGetChain]
  rcases h4 with ⟨hi, rfl⟩ | ⟨hi, hzc, a, b, hab, hX, hY⟩
  · exact ⟨RepA'.inf (by mg) (by mg) hi rfl, RepJ'.inf (by mg) (by mg) (by mg) hi rfl⟩
  · have ex : ((Fe.mul X (Fe.sqr (Fe.inv Z)) : ℕ) : ZMod P) = a := by casts [hX]; field_simp
    have ey : ((Fe.mul Y (Fe.mul (Fe.inv Z) (Fe.sqr (Fe.inv Z))) : ℕ) : ZMod P) = b := by casts [hY]; field_simp
    refine ⟨RepA'.fin (by mg) (by mg) hi (hab.congr ex.symm ey.symm),
      RepJ'.fin (by mg) (by mg) (by mg) hi hab ?_ ?_ ?_⟩
    · dsimp only; rw [Nat.cast_one]; exact one_ne_zero
    · dsimp only; rw [Nat.cast_one, ex]; ring
    · dsimp only; rw [Nat.cast_one, ey]; ring

/-- `secp256k1_ge_set_gej_var(r, a)`: the same, with an early return for infinity (`r = (0, 0)`, flag 1; `a` untouched). -/
theorem ge_set_gej_var_eq (st : State) (p : Pt) (hret : st.returned = false) (ha : RepJ st "a" p 4 4 1) :
    ∃ st', FeIR.execL st Gen.ellswift.ge_set_gej_var.body = some st' ∧ RepA st' "r" p 1 1 ∧
      RepJ st' "a" p 4 4 1 := by
  obtain ⟨fe, ints, ret⟩ := st
  simp only at hret; subst hret
  simp only [RepJ, String.reduceAppend] at ha
  generalize hx : fe.get "a.x" = ax at ha; obtain ⟨X, mx⟩ := ax
  generalize hy : fe.get "a.y" = ay at ha; obtain ⟨Y, my⟩ := ay
  generalize hz : fe.get "a.z" = az at ha; obtain ⟨Z, mz⟩ := az
  obtain ⟨h1, h2, h3, h4⟩ := ha.elim
  simp only at h1 h2 h3 h4
  apply Post.elim
  fe_run [Gen.ellswift.ge_set_gej_var, hx, hy, hz]
  refine ite_intro (fun hne => ?_) (fun heq => ?_)
  · fe_get [feGetChain, intsGetChain, hx, hy, hz]
    rcases h4 with ⟨hi, rfl⟩ | ⟨hi, _⟩
    · exact ⟨RepA'.inf (by mg) (by mg) rfl rfl, RepJ'.inf (by mg) (by mg) (by mg) hi rfl⟩
    · exact absurd hi hne
  · fe_get [feGetChain, intsGetChain]
    rcases h4 with ⟨hi, rfl⟩ | ⟨hi, hzc, a, b, hab, hX, hY⟩
    · exact absurd (not_not.1 heq) (by omega)
    · have ex : ((Fe.mul X (Fe.sqr (Fe.inv Z)) : ℕ) : ZMod P) = a := by casts [hX]; field_simp
      have ey : ((Fe.mul Y (Fe.mul (Fe.inv Z) (Fe.sqr (Fe.inv Z))) : ℕ) : ZMod P) = b := by casts [hY]; field_simp
      refine ⟨RepA'.fin (by mg) (by mg) rfl (hab.congr ex.symm ey.symm),
        RepJ'.fin (by mg) (by mg) (by mg) hi hab ?_ ?_ ?_⟩
      · dsimp only; rw [Nat.cast_one]; exact one_ne_zero
      · dsimp only; rw [Nat.cast_one, ex]; ring
      · dsimp only; rw [Nat.cast_one, ey]; ring

/-- the generator as the Jacobian variable `a = (Gx·2², Gy·2³, 2)` with maximal magnitudes, flag `inf` -/
def stJac (inf : ℕ) : State :=
  ⟨[("a.x", ⟨Fe.mul Pt.Gx (Fe.sqr 2), 4⟩), ("a.y", ⟨Fe.mul Pt.Gy (Fe.mul (Fe.sqr 2) 2), 4⟩), ("a.z", ⟨2, 1⟩)],
    [(("a.infinity", 0), inf)], false⟩

set_option maxRecDepth 100000 in
/-- non-vacuity: `G` with `z = 2` is converted to `G` by both functions; infinity by `ge_set_gej_var` -/
example : (RepJ (stJac 0) "a" Pt.G 4 4 1 ∧ RepJ (stJac 1) "a" Pt.inf 4 4 1) ∧
    ((FeIR.execL (stJac 0) Gen.ellswift.ge_set_gej.body).map fun st' => decide (RepA st' "r" Pt.G 1 1)) = some true ∧
    ((FeIR.execL (stJac 0) Gen.ellswift.ge_set_gej_var.body).map fun st' => decide (RepA st' "r" Pt.G 1 1)) = some true ∧
    ((FeIR.execL (stJac 1) Gen.ellswift.ge_set_gej_var.body).map fun st' => decide (RepA st' "r" Pt.inf 1 1)) = some true := by
  decide +kernel

/-- the form asked for: a finite Jacobian input with `z ≢ 0`: `r` holds the affine point `(x/z², y/z³)` -/
theorem ge_set_gej_toPt (st : State) (hret : st.returned = false)
    (hmx : (st.fe.get "a.x").mag ≤ 4) (hmy : (st.fe.get "a.y").mag ≤ 4) (hmz : (st.fe.get "a.z").mag ≤ 1)
    (hinf : st.ints.get "a.infinity" 0 = 0) (hz : (st.fe.get "a.z").val % P ≠ 0) :
    ∃ st', FeIR.execL st Gen.ellswift.ge_set_gej.body = some st' ∧
      RepA st' "r" (Pt.Jac.toPt ⟨(st.fe.get "a.x").val, (st.fe.get "a.y").val, (st.fe.get "a.z").val⟩) 1 1 := by
  have ha : RepJ st "a" (Pt.Jac.toPt ⟨(st.fe.get "a.x").val, (st.fe.get "a.y").val, (st.fe.get "a.z").val⟩) 4 4 1 := by
    simp only [RepJ, String.reduceAppend]
    exact ⟨hmx, hmy, hmz, Or.inr ⟨hinf, hz, rfl⟩⟩
  obtain ⟨st', h1, h2, _⟩ := ge_set_gej_eq st _ hret ha
  exact ⟨st', h1, h2⟩
end SecpZkp.C18ir
