import SecpZkp.Proofs.FieldLinear
/-
  C05 (field part, "linear" kernels): `normalize`, `normalize_weak`, `add`, `mul_int`, `half`, `negate` of BOTH
  limb layouts of the C library (5×52: `src/field_5x52_impl.h`, 10×26: `src/field_10x26_impl.h`) meet their
  documented contracts (`src/field.h`) for ALL limb values within the documented magnitude bounds.

  Object of the theorems: the MiniC IR that the translator regenerates from the C sources
  (`Gen.field5x52.*`, `Gen.field10x26.*`; for the 5×52 `negate`: `Gen.ct.fe_negate`), run with C's WRAP-AROUND
  semantics: `runC f env = (execL env f.body).env`.  Nothing re-types the algorithms: the proofs evaluate
  the generated terms.  A field element is the array `"r.n"` (resp. `"a.n"`) of a memory; scalars (`"a"`, `"m"`)
  live in cell 0 of their name.  `val5At` / `val10At` read an array as `Σ x_i 2^(52 i)` / `Σ x_i 2^(26 i)`.

  Magnitude contract (`secp256k1_fe_impl_verify`): `Mag5 env a m`: limbs 0..3 `≤ 2 m (2^52-1)`, limb 4
  `≤ 2 m (2^48-1)`; `Mag10 env a m`: limbs 0..8 `≤ 2 m (2^26-1)`, limb 9 `≤ 2 m (2^22-1)`.

  Routes
  * `add`, `mul_int`, `negate`, `half`, 5×52 `normalize`: these contain wrap-around on purpose (unsigned
    subtraction, `-(t0 & 1)`, the `int → uint64_t` sign extension `(x ^ 2^31) - 2^31`), which the interval analysis
    `Bounds.checkL` rejects by design; they are evaluated symbolically in the wrap-around semantics itself
    (`runW` = `execL` on straight-line programs, `Proofs/FieldLinear.lean`) and every truncation is discharged
    from the magnitude bounds.
  * `normalize_weak` (both layouts) and the 10×26 `normalize`: `Bounds.checkL` accepts them (kernel evaluation),
    so `execL` = `execLI`, and the value statement is proved on the ideal semantics.

  FINDING (10×26 only).  `secp256k1_fe_impl_normalize` / `_normalize_weak` for the 10×26 layout are NOT correct on
  the whole documented input domain (magnitude ≤ 32): `t0 += x * 0x3D1UL; t1 += (x << 6); t1 += (t0 >> 26)` are
  32-bit additions and overflow when `n[0]` (resp. `n[1]`) is within `977 x` (resp. `64 x + 63`) of `2^32`, which
  magnitude 32 allows (`n[0], n[1] ≤ 64 (2^26-1) = 2^32 - 64`, `x = n[9] >> 22 ≤ 63`).  Concrete input:
  `n = [0xFFFFFFC0, 0, …, 0, 0x400000]` (value `2^256 + 2^32 - 64 ≡ 2^33 + 913`), output `[0x391, 0x40, 0, …]`
  (value `2^32 + 913`): `fe_normalize_10x26_mag32_counterexample` below (also reproduced with the compiled C
  function).  The theorems for these two functions are therefore `…_partial`: they hold under `NormPre10`
  (magnitude ≤ 32 and `n[0] ≤ 2^32 - 61552`, `n[1] ≤ 2^32 - 4096`), which covers every magnitude ≤ 31
  (`fe_normalize_10x26_mag31`, `fe_normalize_weak_10x26_mag31`); these two bounds are sharp for the interval
  argument.  All other items hold at full strength.

  Not modelled: aliasing of `r` and `a` (the IR keeps `"r.n"` and `"a.n"` apart).
-/

namespace SecpZkp
namespace C05lin
open MiniC MiniC.Bounds FieldKernel FieldLinear

/-! ## concrete memories for the non-vacuity examples -/

/-- a 5×52 element in array `a` with every limb at the top of magnitude `m` -/
def top5 (a : String) (m : Nat) : Env :=
  [((a, 0), 2 * m * (2 ^ 52 - 1)), ((a, 1), 2 * m * (2 ^ 52 - 1)), ((a, 2), 2 * m * (2 ^ 52 - 1)),
   ((a, 3), 2 * m * (2 ^ 52 - 1)), ((a, 4), 2 * m * (2 ^ 48 - 1))]

/-- a 10×26 element in array `a` with every limb at the top of magnitude `m` -/
def top10 (a : String) (m : Nat) : Env :=
  [((a, 0), 2 * m * (2 ^ 26 - 1)), ((a, 1), 2 * m * (2 ^ 26 - 1)), ((a, 2), 2 * m * (2 ^ 26 - 1)),
   ((a, 3), 2 * m * (2 ^ 26 - 1)), ((a, 4), 2 * m * (2 ^ 26 - 1)), ((a, 5), 2 * m * (2 ^ 26 - 1)),
   ((a, 6), 2 * m * (2 ^ 26 - 1)), ((a, 7), 2 * m * (2 ^ 26 - 1)), ((a, 8), 2 * m * (2 ^ 26 - 1)),
   ((a, 9), 2 * m * (2 ^ 22 - 1))]

/-- the limbs of `p` itself, 5×52 (an unreduced representation of 0) -/
def pEnv5 : Env :=
  [(("r.n", 0), 0xFFFFEFFFFFC2F), (("r.n", 1), 0xFFFFFFFFFFFFF), (("r.n", 2), 0xFFFFFFFFFFFFF),
   (("r.n", 3), 0xFFFFFFFFFFFFF), (("r.n", 4), 0xFFFFFFFFFFFF)]

/-- the limbs of `p` itself, 10×26 -/
def pEnv10 : Env :=
  [(("r.n", 0), 0x3FFFC2F), (("r.n", 1), 0x3FFFFBF), (("r.n", 2), 0x3FFFFFF), (("r.n", 3), 0x3FFFFFF),
   (("r.n", 4), 0x3FFFFFF), (("r.n", 5), 0x3FFFFFF), (("r.n", 6), 0x3FFFFFF), (("r.n", 7), 0x3FFFFFF),
   (("r.n", 8), 0x3FFFFFF), (("r.n", 9), 0x3FFFFF)]

/-- closed evaluation of a straight-line kernel on a literal memory (kernel-reducible copy of `execL`) -/
theorem runC_check {f : Fn} {env : Env} {post : Env → Bool} (h : checkRun env f.body post = true) :
    post (runC f env) = true := checkRun_sound h

/-! ## 3. `fe_add` -/

/-- **`secp256k1_fe_add` (5×52) is limb-wise exact.**  If `r` has magnitude `mr`, `a` has magnitude `ma` and
    `mr + ma ≤ 32`, then no 64-bit addition wraps: every output limb is `r[i] + a[i]`, so the represented
    integer is `r + a`, and the result has magnitude `mr + ma`. -/
theorem fe_add_5x52 (env : Env) (mr ma : Nat) (hm : mr + ma ≤ 32)
    (hr : Mag5 env "r.n" mr) (ha : Mag5 env "a.n" ma) :
    (∀ i, i < 5 → (runC Gen.field5x52.fe_add env).get "r.n" i = env.get "r.n" i + env.get "a.n" i) ∧
    val5At (runC Gen.field5x52.fe_add env) "r.n" = val5At env "r.n" + val5At env "a.n" ∧
    Mag5 (runC Gen.field5x52.fe_add env) "r.n" (mr + ma) := by
  rw [runC_eq_runW _ _ (by decide)]
  obtain ⟨k0, k1, k2, k3, k4⟩ := fe_add_5x52_key env mr ma hm hr ha
  generalize runW env Gen.field5x52.fe_add.body = out at *
  refine ⟨?_, ?_, ?_⟩
  · intro i hi
    have : i = 0 ∨ i = 1 ∨ i = 2 ∨ i = 3 ∨ i = 4 := by omega
    rcases this with rfl | rfl | rfl | rfl | rfl <;> assumption
  · simp only [val5At, val5, k0, k1, k2, k3, k4]; ring
  · simp only [Mag5, k0, k1, k2, k3, k4, Nat.reducePow] at hr ha ⊢; omega

/-- non-vacuity: `r` at the top of magnitude 3, `a` at the top of magnitude 29 -/
example : Mag5 (top5 "r.n" 3 ++ top5 "a.n" 29) "r.n" 3 ∧ Mag5 (top5 "r.n" 3 ++ top5 "a.n" 29) "a.n" 29 ∧
    Mag5 (runC Gen.field5x52.fe_add (top5 "r.n" 3 ++ top5 "a.n" 29)) "r.n" 32 :=
  ⟨by decide +kernel, by decide +kernel,
   (fe_add_5x52 _ 3 29 (by decide) (by decide +kernel) (by decide +kernel)).2.2⟩

/-- **`secp256k1_fe_add` (10×26) is limb-wise exact** (no 32-bit addition wraps for `mr + ma ≤ 32`). -/
theorem fe_add_10x26 (env : Env) (mr ma : Nat) (hm : mr + ma ≤ 32)
    (hr : Mag10 env "r.n" mr) (ha : Mag10 env "a.n" ma) :
    (∀ i, i < 10 → (runC Gen.field10x26.fe_add env).get "r.n" i = env.get "r.n" i + env.get "a.n" i) ∧
    val10At (runC Gen.field10x26.fe_add env) "r.n" = val10At env "r.n" + val10At env "a.n" ∧
    Mag10 (runC Gen.field10x26.fe_add env) "r.n" (mr + ma) := by
  rw [runC_eq_runW _ _ (by decide)]
  obtain ⟨k0, k1, k2, k3, k4, k5, k6, k7, k8, k9⟩ := fe_add_10x26_key env mr ma hm hr ha
  generalize runW env Gen.field10x26.fe_add.body = out at *
  refine ⟨?_, ?_, ?_⟩
  · intro i hi
    have : i = 0 ∨ i = 1 ∨ i = 2 ∨ i = 3 ∨ i = 4 ∨ i = 5 ∨ i = 6 ∨ i = 7 ∨ i = 8 ∨ i = 9 := by omega
    rcases this with rfl | rfl | rfl | rfl | rfl | rfl | rfl | rfl | rfl | rfl <;> assumption
  · simp only [val10At, val10, k0, k1, k2, k3, k4, k5, k6, k7, k8, k9]; ring
  · simp only [Mag10, k0, k1, k2, k3, k4, k5, k6, k7, k8, k9, Nat.reducePow] at hr ha ⊢; omega

example : Mag10 (top10 "r.n" 3 ++ top10 "a.n" 29) "r.n" 3 ∧ Mag10 (top10 "r.n" 3 ++ top10 "a.n" 29) "a.n" 29 ∧
    Mag10 (runC Gen.field10x26.fe_add (top10 "r.n" 3 ++ top10 "a.n" 29)) "r.n" 32 :=
  ⟨by decide +kernel, by decide +kernel,
   (fe_add_10x26 _ 3 29 (by decide) (by decide +kernel) (by decide +kernel)).2.2⟩

/-! ## 4. `fe_mul_int` -/

/-- **`secp256k1_fe_mul_int` (5×52) is limb-wise exact.**  For a scalar `a ≤ 32` and `r` of magnitude `m` with
    `m a ≤ 32`, no 64-bit multiplication wraps (and the `int → uint64_t` conversion of `a` is the identity):
    every output limb is `r[i] * a`, the represented integer is `r * a`, the magnitude is `m a`. -/
theorem fe_mul_int_5x52 (env : Env) (m : Nat) (ha : env.get "a" 0 ≤ 32) (hm : m * env.get "a" 0 ≤ 32)
    (hr : Mag5 env "r.n" m) :
    (∀ i, i < 5 → (runC Gen.field5x52.fe_mul_int env).get "r.n" i = env.get "r.n" i * env.get "a" 0) ∧
    val5At (runC Gen.field5x52.fe_mul_int env) "r.n" = val5At env "r.n" * env.get "a" 0 ∧
    Mag5 (runC Gen.field5x52.fe_mul_int env) "r.n" (m * env.get "a" 0) := by
  rw [runC_eq_runW _ _ (by decide)]
  obtain ⟨k0, k1, k2, k3, k4⟩ := fe_mul_int_5x52_key env m ha hm hr
  generalize runW env Gen.field5x52.fe_mul_int.body = out at *
  obtain ⟨h0, h1, h2, h3, h4⟩ := hr
  refine ⟨?_, ?_, ?_⟩
  · intro i hi
    have : i = 0 ∨ i = 1 ∨ i = 2 ∨ i = 3 ∨ i = 4 := by omega
    rcases this with rfl | rfl | rfl | rfl | rfl <;> assumption
  · simp only [val5At, val5, k0, k1, k2, k3, k4]; ring
  · simp only [Mag5, k0, k1, k2, k3, k4]
    exact ⟨mul_bound h0, mul_bound h1, mul_bound h2, mul_bound h3, mul_bound h4⟩

/-- non-vacuity: `r` at the top of magnitude 4, `a = 8` -/
example : Mag5 ((("a", 0), 8) :: top5 "r.n" 4) "r.n" 4 ∧
    Mag5 (runC Gen.field5x52.fe_mul_int ((("a", 0), 8) :: top5 "r.n" 4)) "r.n" 32 :=
  ⟨by decide +kernel, (fe_mul_int_5x52 _ 4 (by decide +kernel) (by decide +kernel) (by decide +kernel)).2.2⟩

/-- **`secp256k1_fe_mul_int` (10×26) is limb-wise exact** (no 32-bit multiplication wraps for `m a ≤ 32`). -/
theorem fe_mul_int_10x26 (env : Env) (m : Nat) (ha : env.get "a" 0 ≤ 32) (hm : m * env.get "a" 0 ≤ 32)
    (hr : Mag10 env "r.n" m) :
    (∀ i, i < 10 → (runC Gen.field10x26.fe_mul_int env).get "r.n" i = env.get "r.n" i * env.get "a" 0) ∧
    val10At (runC Gen.field10x26.fe_mul_int env) "r.n" = val10At env "r.n" * env.get "a" 0 ∧
    Mag10 (runC Gen.field10x26.fe_mul_int env) "r.n" (m * env.get "a" 0) := by
  rw [runC_eq_runW _ _ (by decide)]
  obtain ⟨k0, k1, k2, k3, k4, k5, k6, k7, k8, k9⟩ := fe_mul_int_10x26_key env m ha hm hr
  generalize runW env Gen.field10x26.fe_mul_int.body = out at *
  obtain ⟨h0, h1, h2, h3, h4, h5, h6, h7, h8, h9⟩ := hr
  refine ⟨?_, ?_, ?_⟩
  · intro i hi
    have : i = 0 ∨ i = 1 ∨ i = 2 ∨ i = 3 ∨ i = 4 ∨ i = 5 ∨ i = 6 ∨ i = 7 ∨ i = 8 ∨ i = 9 := by omega
    rcases this with rfl | rfl | rfl | rfl | rfl | rfl | rfl | rfl | rfl | rfl <;> assumption
  · simp only [val10At, val10, k0, k1, k2, k3, k4, k5, k6, k7, k8, k9]; ring
  · simp only [Mag10, k0, k1, k2, k3, k4, k5, k6, k7, k8, k9]
    exact ⟨mul_bound h0, mul_bound h1, mul_bound h2, mul_bound h3, mul_bound h4, mul_bound h5, mul_bound h6,
      mul_bound h7, mul_bound h8, mul_bound h9⟩

example : Mag10 ((("a", 0), 8) :: top10 "r.n" 4) "r.n" 4 ∧
    Mag10 (runC Gen.field10x26.fe_mul_int ((("a", 0), 8) :: top10 "r.n" 4)) "r.n" 32 :=
  ⟨by decide +kernel, (fe_mul_int_10x26 _ 4 (by decide +kernel) (by decide +kernel) (by decide +kernel)).2.2⟩

/-! ## 6. `fe_negate` -/

/-- **`secp256k1_fe_negate` (5×52) negates modulo `p`.**  For `a` of magnitude `m ≤ 31` (the scalar argument `m`
    of the C function), the unsigned subtractions `2 (m+1) p_i - a[i]` do not borrow; as integers
    `r + a = 2 (m+1) p`, hence `r + a ≡ 0 (mod p)`, and `r` has magnitude `m + 1`. -/
theorem fe_negate_5x52 (env : Env) (hm : env.get "m" 0 ≤ 31) (ha : Mag5 env "a.n" (env.get "m" 0)) :
    (val5At (runC Gen.ct.fe_negate env) "r.n" + val5At env "a.n") % P = 0 ∧
    val5At (runC Gen.ct.fe_negate env) "r.n" + val5At env "a.n" = 2 * (env.get "m" 0 + 1) * P ∧
    Mag5 (runC Gen.ct.fe_negate env) "r.n" (env.get "m" 0 + 1) := by
  rw [runC_eq_runW _ _ (by decide)]
  obtain ⟨k1, k2⟩ := fe_negate_5x52_key env hm ha
  exact ⟨by rw [k1]; exact Nat.mul_mod_left _ _, k1, k2⟩

/-- non-vacuity: `a` at the top of magnitude 31, `m = 31` -/
example : Mag5 ((("m", 0), 31) :: top5 "a.n" 31) "a.n" 31 ∧
    Mag5 (runC Gen.ct.fe_negate ((("m", 0), 31) :: top5 "a.n" 31)) "r.n" 32 :=
  ⟨by decide +kernel, (fe_negate_5x52 _ (by decide +kernel) (by decide +kernel)).2.2⟩

/-- **`secp256k1_fe_negate` (10×26) negates modulo `p`**: `r + a = 2 (m+1) p`, magnitude `m + 1` (`m ≤ 31`). -/
theorem fe_negate_10x26 (env : Env) (hm : env.get "m" 0 ≤ 31) (ha : Mag10 env "a.n" (env.get "m" 0)) :
    (val10At (runC Gen.field10x26.fe_negate env) "r.n" + val10At env "a.n") % P = 0 ∧
    val10At (runC Gen.field10x26.fe_negate env) "r.n" + val10At env "a.n" = 2 * (env.get "m" 0 + 1) * P ∧
    Mag10 (runC Gen.field10x26.fe_negate env) "r.n" (env.get "m" 0 + 1) := by
  rw [runC_eq_runW _ _ (by decide)]
  obtain ⟨k1, k2⟩ := fe_negate_10x26_key env hm ha
  exact ⟨by rw [k1]; exact Nat.mul_mod_left _ _, k1, k2⟩

example : Mag10 ((("m", 0), 31) :: top10 "a.n" 31) "a.n" 31 ∧
    Mag10 (runC Gen.field10x26.fe_negate ((("m", 0), 31) :: top10 "a.n" 31)) "r.n" 32 :=
  ⟨by decide +kernel, (fe_negate_10x26 _ (by decide +kernel) (by decide +kernel)).2.2⟩

/-! ## 2. `fe_normalize_weak` -/

/-- **`secp256k1_fe_normalize_weak` (5×52)** on any element of magnitude ≤ 32: the value modulo `p` is preserved
    and the result has magnitude 1; more precisely limbs 0..3 are `< 2^52` and limb 4 is `≤ 2^48 + 63`. -/
theorem fe_normalize_weak_5x52 (env : Env) (h : Mag5 env "r.n" 32) :
    val5At (runC Gen.field5x52.fe_normalize_weak env) "r.n" % P = val5At env "r.n" % P ∧
    Mag5 (runC Gen.field5x52.fe_normalize_weak env) "r.n" 1 ∧
    (runC Gen.field5x52.fe_normalize_weak env).get "r.n" 0 < 2 ^ 52 ∧
    (runC Gen.field5x52.fe_normalize_weak env).get "r.n" 1 < 2 ^ 52 ∧
    (runC Gen.field5x52.fe_normalize_weak env).get "r.n" 2 < 2 ^ 52 ∧
    (runC Gen.field5x52.fe_normalize_weak env).get "r.n" 3 < 2 ^ 52 ∧
    (runC Gen.field5x52.fe_normalize_weak env).get "r.n" 4 ≤ 2 ^ 48 + 63 := by
  unfold runC
  obtain ⟨heq, hb⟩ := checkOut_sound (respects_mag5 h) fe_normalize_weak_5x52_no_wrap
  have b0 := hb (("r.n", 0), 2 ^ 52 - 1) (by simp [weakOut5])
  have b1 := hb (("r.n", 1), 2 ^ 52 - 1) (by simp [weakOut5])
  have b2 := hb (("r.n", 2), 2 ^ 52 - 1) (by simp [weakOut5])
  have b3 := hb (("r.n", 3), 2 ^ 52 - 1) (by simp [weakOut5])
  have b4 := hb (("r.n", 4), 2 ^ 48 + 63) (by simp [weakOut5])
  simp only at b0 b1 b2 b3 b4
  refine ⟨?_, ?_, by omega, by omega, by omega, by omega, b4⟩
  · rw [heq]; exact fe_normalize_weak_5x52_ideal env
  · simp only [Mag5]; omega

/-- non-vacuity: all limbs at the top of magnitude 32 -/
example : Mag5 (top5 "r.n" 32) "r.n" 32 ∧ Mag5 (runC Gen.field5x52.fe_normalize_weak (top5 "r.n" 32)) "r.n" 1 :=
  ⟨by decide +kernel, (fe_normalize_weak_5x52 _ (by decide +kernel)).2.1⟩

/-- **`secp256k1_fe_normalize_weak` (10×26), PARTIAL**: under `NormPre10` (magnitude ≤ 32 and
    `n[0] ≤ 2^32 - 61552`, `n[1] ≤ 2^32 - 4096`; implied by magnitude ≤ 31) the value modulo `p` is preserved and
    the result has magnitude 1 (limbs 0..8 `< 2^26`, limb 9 `≤ 2^22 + 62`).
    The full statement (hypothesis `Mag10 env "r.n" 32` only) is FALSE: see
    `fe_normalize_10x26_mag32_counterexample`. -/
theorem fe_normalize_weak_10x26_partial (env : Env) (h : NormPre10 env "r.n") :
    val10At (runC Gen.field10x26.fe_normalize_weak env) "r.n" % P = val10At env "r.n" % P ∧
    Mag10 (runC Gen.field10x26.fe_normalize_weak env) "r.n" 1 ∧
    (∀ i, i < 9 → (runC Gen.field10x26.fe_normalize_weak env).get "r.n" i < 2 ^ 26) ∧
    (runC Gen.field10x26.fe_normalize_weak env).get "r.n" 9 ≤ 2 ^ 22 + 62 := by
  unfold runC
  obtain ⟨heq, hb⟩ := checkOut_sound (respects_norm10 h) fe_normalize_weak_10x26_no_wrap
  have b0 := hb (("r.n", 0), 2 ^ 26 - 1) (by simp [weakOut10])
  have b1 := hb (("r.n", 1), 2 ^ 26 - 1) (by simp [weakOut10])
  have b2 := hb (("r.n", 2), 2 ^ 26 - 1) (by simp [weakOut10])
  have b3 := hb (("r.n", 3), 2 ^ 26 - 1) (by simp [weakOut10])
  have b4 := hb (("r.n", 4), 2 ^ 26 - 1) (by simp [weakOut10])
  have b5 := hb (("r.n", 5), 2 ^ 26 - 1) (by simp [weakOut10])
  have b6 := hb (("r.n", 6), 2 ^ 26 - 1) (by simp [weakOut10])
  have b7 := hb (("r.n", 7), 2 ^ 26 - 1) (by simp [weakOut10])
  have b8 := hb (("r.n", 8), 2 ^ 26 - 1) (by simp [weakOut10])
  have b9 := hb (("r.n", 9), 2 ^ 22 + 62) (by simp [weakOut10])
  simp only at b0 b1 b2 b3 b4 b5 b6 b7 b8 b9
  refine ⟨?_, ?_, ?_, b9⟩
  · rw [heq]; exact fe_normalize_weak_10x26_ideal env h
  · simp only [Mag10]; omega
  · intro i hi
    have : i = 0 ∨ i = 1 ∨ i = 2 ∨ i = 3 ∨ i = 4 ∨ i = 5 ∨ i = 6 ∨ i = 7 ∨ i = 8 := by omega
    rcases this with rfl | rfl | rfl | rfl | rfl | rfl | rfl | rfl | rfl <;> omega

/-- `secp256k1_fe_normalize_weak` (10×26) meets its contract on every input of magnitude ≤ 31 -/
theorem fe_normalize_weak_10x26_mag31 (env : Env) (h : Mag10 env "r.n" 31) :
    val10At (runC Gen.field10x26.fe_normalize_weak env) "r.n" % P = val10At env "r.n" % P ∧
    Mag10 (runC Gen.field10x26.fe_normalize_weak env) "r.n" 1 :=
  let t := fe_normalize_weak_10x26_partial env (NormPre10_of_mag31 h)
  ⟨t.1, t.2.1⟩

/-- non-vacuity: all limbs at the top of magnitude 31 -/
example : Mag10 (top10 "r.n" 31) "r.n" 31 ∧ Mag10 (runC Gen.field10x26.fe_normalize_weak (top10 "r.n" 31)) "r.n" 1 :=
  ⟨by decide +kernel, (fe_normalize_weak_10x26_mag31 _ (by decide +kernel)).2⟩

/-! ## 5. `fe_half` -/

/-- **`secp256k1_fe_half` (5×52) halves modulo `p`.**  For `r` of magnitude `m ≤ 31`: as integers
    `2 r' = r + (r[0] mod 2) p` (the branch-free mask adds `p` exactly when `r` is odd, then the limbs are shifted
    right by one bit across limb boundaries), hence `2 r' ≡ r (mod p)`; the result has the documented magnitude
    `⌊m/2⌋ + 1`. -/
theorem fe_half_5x52 (env : Env) (m : Nat) (hm : m ≤ 31) (h : Mag5 env "r.n" m) :
    (2 * val5At (runC Gen.field5x52.fe_half env) "r.n") % P = val5At env "r.n" % P ∧
    2 * val5At (runC Gen.field5x52.fe_half env) "r.n" = val5At env "r.n" + env.get "r.n" 0 % 2 * P ∧
    Mag5 (runC Gen.field5x52.fe_half env) "r.n" (m / 2 + 1) := by
  rw [runC_eq_runW _ _ (by decide)]
  obtain ⟨k1, k2⟩ := fe_half_5x52_key env m hm h
  exact ⟨by rw [k1]; exact Nat.add_mul_mod_self_right _ _ _, k1, k2⟩

/-- non-vacuity: an ODD element at the top of magnitude 31 (the mask branch), result of magnitude 16 -/
example : Mag5 ((("r.n", 0), 2 * 31 * (2 ^ 52 - 1) - 1) :: top5 "r.n" 31) "r.n" 31 ∧
    Mag5 (runC Gen.field5x52.fe_half ((("r.n", 0), 2 * 31 * (2 ^ 52 - 1) - 1) :: top5 "r.n" 31)) "r.n" 16 :=
  ⟨by decide +kernel, (fe_half_5x52 _ 31 (by decide) (by decide +kernel)).2.2⟩

/-- **`secp256k1_fe_half` (10×26) halves modulo `p`**: `2 r' = r + (r[0] mod 2) p`, magnitude `⌊m/2⌋ + 1` (`m ≤ 31`). -/
theorem fe_half_10x26 (env : Env) (m : Nat) (hm : m ≤ 31) (h : Mag10 env "r.n" m) :
    (2 * val10At (runC Gen.field10x26.fe_half env) "r.n") % P = val10At env "r.n" % P ∧
    2 * val10At (runC Gen.field10x26.fe_half env) "r.n" = val10At env "r.n" + env.get "r.n" 0 % 2 * P ∧
    Mag10 (runC Gen.field10x26.fe_half env) "r.n" (m / 2 + 1) := by
  rw [runC_eq_runW _ _ (by decide)]
  obtain ⟨k1, k2⟩ := fe_half_10x26_key env m hm h
  exact ⟨by rw [k1]; exact Nat.add_mul_mod_self_right _ _ _, k1, k2⟩

example : Mag10 ((("r.n", 0), 2 * 31 * (2 ^ 26 - 1) - 1) :: top10 "r.n" 31) "r.n" 31 ∧
    Mag10 (runC Gen.field10x26.fe_half ((("r.n", 0), 2 * 31 * (2 ^ 26 - 1) - 1) :: top10 "r.n" 31)) "r.n" 16 :=
  ⟨by decide +kernel, (fe_half_10x26 _ 31 (by decide) (by decide +kernel)).2.2⟩

/-! ## 1. `fe_normalize` -/

/-- **`secp256k1_fe_normalize` (5×52) computes the canonical representative.**  For EVERY element of magnitude
    ≤ 32, running the translated C function with wrap-around semantics leaves fully reduced limbs
    (`r[0..3] < 2^52`, `r[4] < 2^48`) whose value is `< p` and equals the input value modulo `p`. -/
theorem fe_normalize_5x52 (env : Env) (h : Mag5 env "r.n" 32) :
    Red5 (runC Gen.field5x52.fe_normalize env) "r.n" ∧
    val5At (runC Gen.field5x52.fe_normalize env) "r.n" < P ∧
    val5At (runC Gen.field5x52.fe_normalize env) "r.n" = val5At env "r.n" % P := by
  rw [runC_eq_runW _ _ (by decide)]
  obtain ⟨k1, k2, k3⟩ := fe_normalize_5x52_key env h
  exact ⟨k1, k2, by rw [← k3, Nat.mod_eq_of_lt k2]⟩

/-- non-vacuity: all limbs at the top of magnitude 32 -/
example : Mag5 (top5 "r.n" 32) "r.n" 32 ∧ val5At (runC Gen.field5x52.fe_normalize (top5 "r.n" 32)) "r.n" < P :=
  ⟨by decide +kernel, (fe_normalize_5x52 _ (by decide +kernel)).2.1⟩

/-- the data-dependent branch of the final reduction is exercised: the limbs of `p` normalize to 0
    (closed evaluation of the wrap-around interpreter in the kernel) -/
example : Mag5 pEnv5 "r.n" 32 ∧ val5At pEnv5 "r.n" = P ∧ val5At (runC Gen.field5x52.fe_normalize pEnv5) "r.n" = 0 :=
  ⟨by decide +kernel, by decide +kernel,
   of_decide_eq_true (runC_check (post := fun out => decide (val5At out "r.n" = 0)) (by decide +kernel))⟩

/-- **`secp256k1_fe_normalize` (10×26), PARTIAL**: under `NormPre10` (magnitude ≤ 32 and `n[0] ≤ 2^32 - 61552`,
    `n[1] ≤ 2^32 - 4096`; implied by magnitude ≤ 31) the output limbs are fully reduced (`r[0..8] < 2^26`,
    `r[9] < 2^22`), the value is `< p` and equals the input value modulo `p`.
    The full statement (hypothesis `Mag10 env "r.n" 32` only) is FALSE: see
    `fe_normalize_10x26_mag32_counterexample`. -/
theorem fe_normalize_10x26_partial (env : Env) (h : NormPre10 env "r.n") :
    Red10 (runC Gen.field10x26.fe_normalize env) "r.n" ∧
    val10At (runC Gen.field10x26.fe_normalize env) "r.n" < P ∧
    val10At (runC Gen.field10x26.fe_normalize env) "r.n" = val10At env "r.n" % P := by
  unfold runC
  obtain ⟨heq, hb⟩ := checkOut_sound (respects_norm10 h) fe_normalize_10x26_no_wrap
  have b0 := hb (("r.n", 0), 2 ^ 26 - 1) (by simp [redOut10])
  have b1 := hb (("r.n", 1), 2 ^ 26 - 1) (by simp [redOut10])
  have b2 := hb (("r.n", 2), 2 ^ 26 - 1) (by simp [redOut10])
  have b3 := hb (("r.n", 3), 2 ^ 26 - 1) (by simp [redOut10])
  have b4 := hb (("r.n", 4), 2 ^ 26 - 1) (by simp [redOut10])
  have b5 := hb (("r.n", 5), 2 ^ 26 - 1) (by simp [redOut10])
  have b6 := hb (("r.n", 6), 2 ^ 26 - 1) (by simp [redOut10])
  have b7 := hb (("r.n", 7), 2 ^ 26 - 1) (by simp [redOut10])
  have b8 := hb (("r.n", 8), 2 ^ 26 - 1) (by simp [redOut10])
  have b9 := hb (("r.n", 9), 2 ^ 22 - 1) (by simp [redOut10])
  simp only at b0 b1 b2 b3 b4 b5 b6 b7 b8 b9
  obtain ⟨k2, k3⟩ := fe_normalize_10x26_ideal env h
  refine ⟨?_, ?_, ?_⟩
  · simp only [Red10]; omega
  · rw [heq]; exact k2
  · rw [heq, ← k3, Nat.mod_eq_of_lt k2]

/-- `secp256k1_fe_normalize` (10×26) meets its contract on every input of magnitude ≤ 31 -/
theorem fe_normalize_10x26_mag31 (env : Env) (h : Mag10 env "r.n" 31) :
    Red10 (runC Gen.field10x26.fe_normalize env) "r.n" ∧
    val10At (runC Gen.field10x26.fe_normalize env) "r.n" < P ∧
    val10At (runC Gen.field10x26.fe_normalize env) "r.n" = val10At env "r.n" % P :=
  fe_normalize_10x26_partial env (NormPre10_of_mag31 h)

/-- non-vacuity: all limbs at the top of magnitude 31 -/
example : Mag10 (top10 "r.n" 31) "r.n" 31 ∧ val10At (runC Gen.field10x26.fe_normalize (top10 "r.n" 31)) "r.n" < P :=
  ⟨by decide +kernel, (fe_normalize_10x26_mag31 _ (by decide +kernel)).2.1⟩

/-- the data-dependent branch: the limbs of `p` (10×26) normalize to 0 -/
example : NormPre10 pEnv10 "r.n" ∧ val10At pEnv10 "r.n" = P ∧
    val10At (runC Gen.field10x26.fe_normalize pEnv10) "r.n" = 0 :=
  ⟨by decide +kernel, by decide +kernel,
   of_decide_eq_true (runC_check (post := fun out => decide (val10At out "r.n" = 0)) (by decide +kernel))⟩

/-- a magnitude-32 element accepted by `secp256k1_fe_impl_verify` (10×26):
    `n = [0xFFFFFFC0, 0, 0, 0, 0, 0, 0, 0, 0, 0x400000]`, value `2^256 + 2^32 - 64` -/
def cex10 : Env :=
  [(("r.n", 0), 0xFFFFFFC0), (("r.n", 1), 0), (("r.n", 2), 0), (("r.n", 3), 0), (("r.n", 4), 0), (("r.n", 5), 0),
   (("r.n", 6), 0), (("r.n", 7), 0), (("r.n", 8), 0), (("r.n", 9), 0x400000)]

/-- **Counterexample to the full-strength 10×26 `normalize` / `normalize_weak` statements.**  `cex10` has
    magnitude 32 (every limb within `secp256k1_fe_impl_verify`'s bound), but both functions return limbs whose
    value is NOT congruent to the input modulo `p`: the 32-bit addition `t0 += x * 0x3D1` wraps
    (`0xFFFFFFC0 + 977 = 2^32 + 913`), losing `2^32`.  (Closed evaluation of the wrap-around interpreter.) -/
theorem fe_normalize_10x26_mag32_counterexample :
    Mag10 cex10 "r.n" 32 ∧
    val10At (runC Gen.field10x26.fe_normalize cex10) "r.n" % P ≠ val10At cex10 "r.n" % P ∧
    val10At (runC Gen.field10x26.fe_normalize_weak cex10) "r.n" % P ≠ val10At cex10 "r.n" % P ∧
    val10At cex10 "r.n" % P = 2 ^ 33 + 913 ∧
    val10At (runC Gen.field10x26.fe_normalize cex10) "r.n" = 2 ^ 32 + 913 :=
  ⟨by decide +kernel,
   of_decide_eq_true (runC_check
     (post := fun out => decide (val10At out "r.n" % P ≠ val10At cex10 "r.n" % P)) (by decide +kernel)),
   of_decide_eq_true (runC_check
     (post := fun out => decide (val10At out "r.n" % P ≠ val10At cex10 "r.n" % P)) (by decide +kernel)),
   by decide +kernel,
   of_decide_eq_true (runC_check (post := fun out => decide (val10At out "r.n" = 2 ^ 32 + 913)) (by decide +kernel))⟩

/-! ## the copies of the 5×52 kernels in `Gen/K_ct.lean`

`Gen.ct.fe_normalize` and `Gen.ct.fe_half` (the translation unit used for the constant-time analysis) have
literally the same bodies as `Gen.field5x52.fe_normalize` / `fe_half`, so the theorems above apply to them. -/

theorem ct_fe_normalize_body : Gen.ct.fe_normalize.body = Gen.field5x52.fe_normalize.body := rfl

theorem ct_fe_half_body : Gen.ct.fe_half.body = Gen.field5x52.fe_half.body := rfl

/-- `fe_normalize_5x52` for the copy in `Gen/K_ct.lean` -/
theorem ct_fe_normalize_5x52 (env : Env) (h : Mag5 env "r.n" 32) :
    Red5 (runC Gen.ct.fe_normalize env) "r.n" ∧
    val5At (runC Gen.ct.fe_normalize env) "r.n" < P ∧
    val5At (runC Gen.ct.fe_normalize env) "r.n" = val5At env "r.n" % P := by
  have : runC Gen.ct.fe_normalize env = runC Gen.field5x52.fe_normalize env := by
    unfold runC; rw [ct_fe_normalize_body]
  rw [this]; exact fe_normalize_5x52 env h

end C05lin
end SecpZkp
