import SecpZkp.Gen.Guards
/-! # C16 — the argument checks the model assumes are present at the C call sites (translator mode G)

`Gen.callFacts` is regenerated from clang's AST of /repo on every run (tools/c2lean_g.py): one fact per call of a
fallible primitive (range-checked field/scalar decoding, curve membership, infinity / zero tests, nested parsers)
inside the functions this property is anchored in, saying whether the call's result steers control flow
(`resultChecked`) and whether the overflow flag it writes is read before being overwritten (`flag = some true`;
`none` = the call passes NULL, i.e. reduces silently).  The executable model rejects out-of-range encodings at
exactly these places; the theorems below pin the C side to the same shape.  A fact list that no longer matches
is a broken tie (the check then searches for a failing input with the differential generators). -/
namespace SecpZkp.Props.C16_guards
open SecpZkp.Gen

/-- `secp256k1_whitelist_verify`: its fallible-primitive call sites are exactly these, each with its result / overflow flag
    consumed as listed. -/
theorem whitelist_verify_sites : Facts.whitelist_verify = [
    ⟨.scalar_set_b32, 1, false, some true⟩,
    ⟨.scalar_is_zero, 1, true, none⟩,
    ⟨.borromean_verify, 1, true, none⟩
  ] := by decide

/-- `secp256k1_whitelist_compute_tweaked_privkey`: its fallible-primitive call sites are exactly these, each with its result / overflow flag
    consumed as listed. -/
theorem whitelist_compute_tweaked_privkey_sites : Facts.whitelist_compute_tweaked_privkey = [
    ⟨.scalar_set_b32, 1, false, some true⟩,
    ⟨.scalar_is_zero, 1, true, none⟩,
    ⟨.scalar_set_b32, 2, false, some true⟩,
    ⟨.scalar_is_zero, 2, true, none⟩,
    ⟨.scalar_is_zero, 3, true, none⟩
  ] := by decide

/-- `secp256k1_borromean_verify`: its fallible-primitive call sites are exactly these, each with its result / overflow flag
    consumed as listed. -/
theorem borromean_verify_sites : Facts.borromean_verify = [
    ⟨.scalar_set_b32, 1, false, some true⟩,
    ⟨.scalar_is_zero, 1, true, none⟩,
    ⟨.scalar_is_zero, 2, true, none⟩,
    ⟨.gej_is_infinity, 1, true, none⟩,
    ⟨.gej_is_infinity, 2, true, none⟩,
    ⟨.scalar_set_b32, 2, false, some true⟩,
    ⟨.memcmp_var, 1, true, none⟩
  ] := by decide

/-- `secp256k1_whitelist_hash_pubkey`: its fallible-primitive call sites are exactly these, each with its result / overflow flag
    consumed as listed. -/
theorem whitelist_hash_pubkey_sites : Facts.whitelist_hash_pubkey = [
    ⟨.ge_is_infinity, 1, true, none⟩,
    ⟨.scalar_set_b32, 1, false, some true⟩,
    ⟨.scalar_is_zero, 1, true, none⟩
  ] := by decide

/-- `secp256k1_whitelist_sign`: its fallible-primitive call sites are exactly these, each with its result / overflow flag
    consumed as listed. -/
theorem whitelist_sign_sites : Facts.whitelist_sign = [
    ⟨.ecmult_gen_context_is_built, 1, true, none⟩,
    ⟨.scalar_set_b32, 1, false, some true⟩,
    ⟨.scalar_is_zero, 1, true, none⟩,
    ⟨.scalar_set_b32, 2, false, some true⟩,
    ⟨.scalar_is_zero, 2, true, none⟩
  ] := by decide

def all : List CallFact := Facts.whitelist_verify ++ Facts.whitelist_compute_tweaked_privkey ++ Facts.borromean_verify ++ Facts.whitelist_hash_pubkey ++ Facts.whitelist_sign

/-- No overflow flag written by a scalar decoding in these functions is ignored (overwritten or never read). -/
theorem no_flag_dropped : ∀ f ∈ all, f.flag ≠ some false := by decide

/-- non-vacuity: the regenerated fact lists are not empty -/
example : all.length = 23 := by decide

end SecpZkp.Props.C16_guards
