import SecpZkp.Gen.Guards
/-! # C20 — the argument checks the model assumes are present at the C call sites (translator mode G)

`Gen.callFacts` is regenerated from clang's AST of /repo on every run (tools/c2lean_g.py): one fact per call of a
fallible primitive (range-checked field/scalar decoding, curve membership, infinity / zero tests, nested parsers)
inside the functions this property is anchored in, saying whether the call's result steers control flow
(`resultChecked`) and whether the overflow flag it writes is read before being overwritten (`flag = some true`;
`none` = the call passes NULL, i.e. reduces silently).  The executable model rejects out-of-range encodings at
exactly these places; the theorems below pin the C side to the same shape.  A fact list that no longer matches
is a broken tie (the check then searches for a failing input with the differential generators). -/
namespace SecpZkp.Props.C20_guards
open SecpZkp.Gen

/-- `secp256k1_ecmult_gen_blind`: its fallible-primitive call sites are exactly these, each with its result / overflow flag
    consumed as listed. -/
theorem ecmult_gen_blind_sites : Facts.ecmult_gen_blind = [
    ⟨.scalar_set_b32, 1, false, none⟩,
    ⟨.scalar_is_zero, 1, false, none⟩
  ] := by decide

def all : List CallFact := Facts.ecmult_gen_blind

/-- No overflow flag written by a scalar decoding in these functions is ignored (overwritten or never read). -/
theorem no_flag_dropped : ∀ f ∈ all, f.flag ≠ some false := by decide

/-- non-vacuity: the regenerated fact lists are not empty -/
example : all.length = 2 := by decide

end SecpZkp.Props.C20_guards
