import SecpZkp.Proofs.BorromeanApps
/-
  C16 (part "complete"): a whitelist signature made with the correct secrets verifies against the same key list
  and whitelisted key.  Closed form (uses `groupLaw`); SHA-256, RFC 6979 and the point codec are treated as opaque.
-/
namespace SecpZkp
namespace Whitelist
open SecpZkp.Algebra

set_option linter.auxLemma false in
/-- `Whitelist.sign` with the nonce derivation as a parameter.  (Proof engineering only: `nonceLoop 128 msg (be32 sec) n 0`
    is a closed-length SHA-256 computation on symbolic bytes, which the kernel would try to evaluate as soon as it has
    to reduce a `match` on it; all case analysis is therefore done with an abstract `nl`.  The body is `sign`'s own
    body, written with `sign`'s auto-generated matchers so that `sign_eq_aux` holds by syntactic identity.) -/
def signAux (nl : Bytes → Bytes → Nat → Nat → Option (Nat × List Nat))
    (online offline : List Pt) (sub : Pt) (onlineSeckey summedSeckey : Bytes) (index : Nat) : Ret (Option Sig) :=
  let nKeys := online.length
  if nKeys > maxKeys then ⟨0, none, 1⟩ else
  if ¬ index < nKeys then ⟨0, none, 1⟩ else
    sign.match_5 (fun _ => Ret (Option Sig)) (computeKeysAndMessage online offline sub) fun msg32 pubs =>
      computeTweakedPrivkey.match_1 (fun _ => Ret (Option Sig)) (computeTweakedPrivkey onlineSeckey summedSeckey)
        (fun _ => ⟨0, none, 0⟩) fun sec =>
        sign.match_3 (fun _ => Ret (Option Sig)) (nl msg32 (Bytes.be32 sec) nKeys 0)
          (fun _ => ⟨0, none, 0⟩) fun non s =>
          sign.match_1 (fun _ => Ret (Option Sig)) (signWith msg32 pubs sec non s index)
            (fun _ => ⟨0, none, 0⟩) fun sig => ⟨1, some sig, 0⟩

theorem sign_eq_aux (online offline : List Pt) (sub : Pt) (onlineSeckey summedSeckey : Bytes) (index : Nat) :
    sign online offline sub onlineSeckey summedSeckey index =
      signAux (nonceLoop 128) online offline sub onlineSeckey summedSeckey index := rfl

theorem signAux_success {nl : Bytes → Bytes → Nat → Nat → Option (Nat × List Nat)}
    {online offline : List Pt} {sub : Pt} {onlineSeckey summedSeckey : Bytes} {index : Nat} {sig : Sig}
    (hret : (signAux nl online offline sub onlineSeckey summedSeckey index).ret = 1)
    (hout : (signAux nl online offline sub onlineSeckey summedSeckey index).out = some sig) :
    online.length ≤ maxKeys ∧ index < online.length ∧
    ∃ sec non s e0 sOut,
      computeTweakedPrivkey onlineSeckey summedSeckey = some sec ∧
      nl (computeKeysAndMessage online offline sub).1 (Bytes.be32 sec) online.length 0 = some (non, s) ∧
      Borromean.sign s (computeKeysAndMessage online offline sub).2 [non] [sec]
        [(computeKeysAndMessage online offline sub).2.length] [index] (computeKeysAndMessage online offline sub).1
        = some (e0, sOut) ∧
      sig = ⟨(computeKeysAndMessage online offline sub).2.length, sigData e0 sOut⟩ := by
  generalize hr : signAux nl online offline sub onlineSeckey summedSeckey index = r at hret hout
  unfold signAux at hr
  simp only [] at hr
  split at hr
  · subst hr; simp at hret
  next h1 =>
  split at hr
  · subst hr; simp at hret
  next h2 =>
  split at hr
  · subst hr; simp at hret
  next sec hsec =>
  split at hr
  · subst hr; simp at hret
  next non s hnl =>
  split at hr
  · subst hr; simp at hret
  next sg hsw =>
  subst hr
  simp only [Option.some.injEq] at hout
  subst hout
  refine ⟨by omega, by omega, sec, non, s, ?_⟩
  rw [signWith] at hsw
  split at hsw
  · simp at hsw
  next e0 sOut hbs =>
  simp only [Option.some.injEq] at hsw
  exact ⟨e0, sOut, hsec, hnl, hbs, hsw.symm⟩

/-- What a successful `Whitelist.sign` did. -/
theorem sign_success {online offline : List Pt} {sub : Pt} {onlineSeckey summedSeckey : Bytes} {index : Nat} {sig : Sig}
    (hret : (sign online offline sub onlineSeckey summedSeckey index).ret = 1)
    (hout : (sign online offline sub onlineSeckey summedSeckey index).out = some sig) :
    online.length ≤ maxKeys ∧ index < online.length ∧
    ∃ sec non s e0 sOut,
      computeTweakedPrivkey onlineSeckey summedSeckey = some sec ∧
      nonceLoop 128 (computeKeysAndMessage online offline sub).1 (Bytes.be32 sec) online.length 0 = some (non, s) ∧
      Borromean.sign s (computeKeysAndMessage online offline sub).2 [non] [sec]
        [(computeKeysAndMessage online offline sub).2.length] [index] (computeKeysAndMessage online offline sub).1
        = some (e0, sOut) ∧
      sig = ⟨(computeKeysAndMessage online offline sub).2.length, sigData e0 sOut⟩ := by
  rw [sign_eq_aux] at hret hout
  exact signAux_success hret hout

theorem signAux_out_of_ret {nl : Bytes → Bytes → Nat → Nat → Option (Nat × List Nat)}
    {online offline : List Pt} {sub : Pt} {onlineSeckey summedSeckey : Bytes} {index : Nat}
    (hret : (signAux nl online offline sub onlineSeckey summedSeckey index).ret = 1) :
    ∃ sig, (signAux nl online offline sub onlineSeckey summedSeckey index).out = some sig := by
  generalize hr : signAux nl online offline sub onlineSeckey summedSeckey index = r at hret
  unfold signAux at hr
  simp only [] at hr
  split at hr
  · subst hr; simp at hret
  split at hr
  · subst hr; simp at hret
  split at hr
  · subst hr; simp at hret
  split at hr
  · subst hr; simp at hret
  split at hr
  · subst hr; simp at hret
  next sg _ =>
  subst hr
  exact ⟨sg, rfl⟩

/-- On success (`ret = 1`) a signature object has been written. -/
theorem sign_out_of_ret {online offline : List Pt} {sub : Pt} {onlineSeckey summedSeckey : Bytes} {index : Nat}
    (hret : (sign online offline sub onlineSeckey summedSeckey index).ret = 1) :
    ∃ sig, (sign online offline sub onlineSeckey summedSeckey index).out = some sig := by
  rw [sign_eq_aux] at hret ⊢
  exact signAux_out_of_ret hret

/-- **C16, completeness.**  Let `online`, `offline` be key lists of the same length, `sub` the whitelisted key, and let
    the signer at position `index` hold the matching secrets: `online[index] = online_sec•G` and
    `offline[index] + sub = summed_sec•G` (these are the relations `secp256k1_whitelist_sign` relies on; it never
    checks them).  Assume `hothers`: no OTHER ring key `online_j + H(offline_j + sub)•(offline_j + sub)` is the point at
    infinity.  If `secp256k1_whitelist_sign` returns 1 with signature `sig`, then `secp256k1_whitelist_verify` returns 1 on `sig`
    for the same key lists and whitelisted key.  (`1 ≤ n_keys ≤ 255` and `index < n_keys` are implied by the
    successful return.)

    `hothers` is necessary: the verifier rejects every signature as soon as one ring key is infinite
    (`whitelist_inf_key_never_verifies`), whereas the signer does not look at the other members' ring keys.  The signer's
    OWN ring key is `sec•G` with `sec` the tweaked secret; since the fix of finding F2 `sign` refuses `sec ≡ 0`
    (`whitelist_sign_refuses_zero_tweaked_secret`), so a successful return already implies that this key is finite — before
    the fix this was a second hypothesis (`computeTweakedPrivkey … ≠ some 0`). -/
theorem whitelist_complete (online offline : List Pt) (sub : Pt) (onlineSeckey summedSeckey : Bytes) (index : Nat)
    (sig : Sig)
    (hlen : offline.length = online.length)
    (hon : online[index]? = some (Pt.mulG (Sc.setB32 onlineSeckey).1))
    (hoff : offline[index]?.map (fun o => Pt.add o sub) = some (Pt.mulG (Sc.setB32 summedSeckey).1))
    (hothers : ∀ j, j ≠ index → (computeKeysAndMessage online offline sub).2[j]? ≠ some .inf)
    (hret : (sign online offline sub onlineSeckey summedSeckey index).ret = 1)
    (hout : (sign online offline sub onlineSeckey summedSeckey index).out = some sig) :
    verify sig online offline sub = 1 := by
  have : HasGroupLaw := ⟨groupLaw⟩
  obtain ⟨hmax, hidx, sec, non, s, e0, sOut, hsk, hnl, hbs, hsig⟩ := sign_success hret hout
  -- the ring keys
  have hplen : (computeKeysAndMessage online offline sub).2.length = online.length := by
    simp [computeKeys_snd, hlen]
  obtain ⟨off, hoff1, hoff2⟩ : ∃ off, offline[index]? = some off ∧ Pt.add off sub = Pt.mulG (Sc.setB32 summedSeckey).1 := by
    cases h : offline[index]? with
    | none => simp [h] at hoff
    | some off => exact ⟨off, rfl, by simpa [h] using hoff⟩
  obtain ⟨hkey, hsecN, hsecne⟩ := ringKey_eq_mulG (on := Pt.mulG (Sc.setB32 onlineSeckey).1) (off := off) (sub := sub) hsk rfl hoff2
  have hpidx : (computeKeysAndMessage online offline sub).2[index]? = some (Pt.mulG sec) := by
    rw [computeKeys_snd, List.getElem?_map,
      (List.getElem?_zip_eq_some (z := (off, Pt.mulG (Sc.setB32 onlineSeckey).1))).mpr ⟨hoff1, hon⟩]
    simp [hkey]
  have hsec0 : 0 < sec := Nat.pos_of_ne_zero hsecne
  have hP : ∀ p ∈ (computeKeysAndMessage online offline sub).2, p ≠ .inf := by
    intro p hp hinf
    obtain ⟨j, hj, rfl⟩ := List.mem_iff_getElem.mp hp
    by_cases hji : j = index
    · subst hji
      rw [List.getElem?_eq_getElem hj] at hpidx
      rw [Option.some.inj hpidx] at hinf
      exact mulG_ne_inf hsec0 hsecN hinf
    · apply hothers j hji
      rw [List.getElem?_eq_getElem hj, hinf]
  -- nonce and forged scalars
  obtain ⟨_, hnonN, hslen, hs⟩ := nonceLoop_spec _ _ _ _ _ _ _ hnl
  have hcons : Borromean.Consistent (computeKeysAndMessage online offline sub).2 s 0
      [(computeKeysAndMessage online offline sub).2.length] [index] [non] [sec] := by
    unfold Borromean.Consistent
    refine ⟨by omega, by omega, by omega, hsecN, hnonN, by simpa using hpidx, ?_, ?_⟩
    · intro j hj _ h0
      simp only [Nat.zero_add] at h0
      have := hs 0 (List.mem_of_getElem? h0)
      exact this.1 rfl
    · unfold Borromean.Consistent; trivial
  have hver := Borromean.borromean_complete _ _ _ _ _ _ _ _ _ hP hcons hbs
  -- reading the signature back
  obtain ⟨sv, hsv0, hsvN, hsOut⟩ := Borromean.sign_single hbs
  have hsO : ∀ x ∈ sOut, x ≠ 0 ∧ x < N := by
    intro x hx
    rw [hsOut] at hx
    rcases List.mem_or_eq_of_mem_set hx with h | h
    · exact hs x h
    · subst h; exact ⟨hsv0, hsvN⟩
  have hsOlen : sOut.length = online.length := by rw [hsOut]; simpa using hslen
  have he0 := Borromean.sign_e0_length hbs
  have hread := readScalars_sigData (computeKeysAndMessage online offline sub).2.length e0 sOut he0 hsO
  rw [hsOlen, ← hplen] at hread
  have hsige0 : sig.e0 = e0 := by
    rw [hsig, Sig.e0, sigData, List.take_left' he0]
  rw [verify]
  have hguard : ¬ (sig.nKeys = 0 ∨ sig.nKeys > maxKeys ∨ sig.nKeys ≠ online.length) := by
    rw [hsig]; simp only [hplen]; omega
  rw [if_neg hguard]
  have hnk : sig.nKeys = (computeKeysAndMessage online offline sub).2.length := by rw [hsig]
  rw [hnk]
  conv_lhs => rw [hsig]
  rw [hread]
  simp only []
  rw [← hsig, hsige0, hver]
  rfl


/-! ### Necessity of `hothers`, and the tweaked-secret-0 corner case -/

/-- **A ring key at infinity makes every signature fail.**  If some ring key `online_j + H(offline_j + sub)•(offline_j + sub)`
    is the point at infinity, `secp256k1_whitelist_verify` returns 0 for EVERY signature object (the Borromean verifier
    rejects an infinite key at any position), although `secp256k1_whitelist_sign` never looks at the ring keys of the
    other members. -/
theorem whitelist_inf_key_never_verifies (sig : Sig) (online offline : List Pt) (sub : Pt)
    (hlen : offline.length = online.length)
    (hinf : Pt.inf ∈ (computeKeysAndMessage online offline sub).2) :
    verify sig online offline sub = 0 := by
  have hplen : (computeKeysAndMessage online offline sub).2.length = online.length := by
    simp [computeKeys_snd, hlen]
  unfold verify
  simp only []
  split
  · rfl
  next hg =>
  split
  · rfl
  next s _ =>
  have hn : sig.nKeys = online.length := by
    by_contra h; exact hg (Or.inr (Or.inr h))
  rw [Borromean.verify_single_inf _ _ _ _ _ (by omega) hinf]
  rfl

theorem signAux_ret_zero {nl : Bytes → Bytes → Nat → Nat → Option (Nat × List Nat)}
    {online offline : List Pt} {sub : Pt} {onlineSeckey summedSeckey : Bytes} {index : Nat}
    (h : computeTweakedPrivkey onlineSeckey summedSeckey = none) :
    (signAux nl online offline sub onlineSeckey summedSeckey index).ret = 0 := by
  generalize hr : signAux nl online offline sub onlineSeckey summedSeckey index = r
  unfold signAux at hr
  simp only [] at hr
  split at hr
  · subst hr; rfl
  split at hr
  · subst hr; rfl
  split at hr
  · subst hr; rfl
  next sec hsec => rw [h] at hsec; simp at hsec

/-- **The corner case `online_sec + H·summed_sec ≡ 0 (mod n)`: `sign` refuses (finding F2, fixed).**  If the tweaked
    secret `online_sec + H(summed_sec•G)·summed_sec` vanishes mod `n`, `secp256k1_whitelist_sign` returns 0 (whatever the
    key lists and the index are).  Before the fix it returned 1 with a signature that can not verify, see
    `whitelist_zero_tweaked_ringkey_inf`. -/
theorem whitelist_sign_refuses_zero_tweaked_secret (online offline : List Pt) (sub : Pt)
    (onlineSeckey summedSeckey : Bytes) (index : Nat) (tweak : Nat)
    (ht : hashPubkey (Pt.mulG (Sc.setB32 summedSeckey).1) = some tweak)
    (h0 : Sc.add (Sc.mul (Sc.setB32 summedSeckey).1 tweak) (Sc.setB32 onlineSeckey).1 = 0) :
    (sign online offline sub onlineSeckey summedSeckey index).ret = 0 := by
  rw [sign_eq_aux]
  exact signAux_ret_zero (computeTweakedPrivkey_none_of_zero ht h0)

/-- Why a zero tweaked secret has to be refused: if the keys at `index` match secrets whose tweaked secret is `0 mod n`,
    the ring key at `index` is the point at infinity, so no signature object at all verifies against this key list and
    whitelisted key. -/
theorem whitelist_zero_tweaked_ringkey_inf (online offline : List Pt) (sub : Pt) (onlineSeckey summedSeckey : Bytes)
    (index : Nat) (sig : Sig) (tweak : Nat)
    (hlen : offline.length = online.length)
    (hon : online[index]? = some (Pt.mulG (Sc.setB32 onlineSeckey).1))
    (hoff : offline[index]?.map (fun o => Pt.add o sub) = some (Pt.mulG (Sc.setB32 summedSeckey).1))
    (ht : hashPubkey (Pt.mulG (Sc.setB32 summedSeckey).1) = some tweak)
    (h0 : Sc.add (Sc.mul (Sc.setB32 summedSeckey).1 tweak) (Sc.setB32 onlineSeckey).1 = 0) :
    verify sig online offline sub = 0 := by
  have : HasGroupLaw := ⟨groupLaw⟩
  obtain ⟨off, hoff1, hoff2⟩ : ∃ off, offline[index]? = some off ∧ Pt.add off sub = Pt.mulG (Sc.setB32 summedSeckey).1 := by
    cases h : offline[index]? with
    | none => simp [h] at hoff
    | some off => exact ⟨off, rfl, by simpa [h] using hoff⟩
  have hkey := ringKey_eq_mulG_tweaked (on := Pt.mulG (Sc.setB32 onlineSeckey).1) (off := off) (sub := sub)
    (Borromean.setB32_fst_lt onlineSeckey) (Borromean.setB32_fst_lt summedSeckey) ht rfl hoff2
  rw [h0] at hkey
  have hpidx : (computeKeysAndMessage online offline sub).2[index]? = some Pt.inf := by
    rw [computeKeys_snd, List.getElem?_map,
      (List.getElem?_zip_eq_some (z := (off, Pt.mulG (Sc.setB32 onlineSeckey).1))).mpr ⟨hoff1, hon⟩]
    simp only [Option.map_some, hkey]
    exact congrArg some (groupLaw.mul_zero _)
  exact whitelist_inf_key_never_verifies sig online offline sub hlen (List.mem_of_getElem? hpidx)

end Whitelist
end SecpZkp
