import SecpZkp.Model.Ecdsa
import SecpZkp.Proofs.Bytes
import SecpZkp.Proofs.Der
import SecpZkp.Proofs.Codec
/-
  Property C03: "Key and signature encodings are strict, canonical and round-trip".

  Every theorem quantifies over ALL byte strings of ALL lengths (no bound, no sampling).

  The L0 specification of DER used below (`DerSpec.derInt`, `derLen`, `derTLV`, `derSig`, `MinimalInt`,
  `clamp`, `InRange`) is defined in `Proofs/Der.lean`, independently of the model's parser/serializer.

  Sections:  A big-endian codec · B DER · C compact signatures · D failed parses never verify ·
             E public keys.
-/
namespace SecpZkp
namespace C03
open Bytes DerSpec CodecLemmas

/-! ## A. Big-endian integer codec -/

/-- Decoding the `len`-byte big-endian encoding of `x` gives `x` reduced modulo `256^len`. -/
theorem toNat_ofNat (len x : Nat) : Bytes.toNat (Bytes.ofNat len x) = x % 256 ^ len :=
  Bytes.toNat_ofNat len x

example : Bytes.toNat (Bytes.ofNat 2 0x12345) = 0x2345 := by decide

/-- The encoder writes exactly `len` bytes. -/
theorem ofNat_length (len x : Nat) : (Bytes.ofNat len x).length = len := Bytes.ofNat_length len x

example : (Bytes.ofNat 32 7).length = 32 := by decide

/-- Re-encoding the value of any `len`-byte string in `len` bytes reproduces the string
    (so `toNat` is injective on strings of equal length: the encoding is canonical). -/
theorem ofNat_toNat (bs : Bytes) (len : Nat) (h : bs.length = len) :
    Bytes.ofNat len (Bytes.toNat bs) = bs := Bytes.ofNat_toNat bs h

example : Bytes.ofNat 3 (Bytes.toNat [0x00, 0xAB, 0xFF]) = [0x00, 0xAB, 0xFF] := by decide

/-- The value of an `n`-byte string is below `256^n`. -/
theorem toNat_lt (bs : Bytes) : Bytes.toNat bs < 256 ^ bs.length := Bytes.toNat_lt bs

example : Bytes.toNat [0xFF, 0xFF] = 256 ^ 2 - 1 := by decide

/-! ## B. DER signatures -/

/-- The specification encoding written out: `30 L 02 Lr R 02 Ls S` with minimal definite lengths. -/
theorem derSig_unfold (rb sb : Bytes) :
    derSig rb sb =
      0x30 :: (derLen ((0x02 :: (derLen rb.length ++ rb)) ++ (0x02 :: (derLen sb.length ++ sb))).length ++
        ((0x02 :: (derLen rb.length ++ rb)) ++ (0x02 :: (derLen sb.length ++ sb)))) := rfl

example : derInt 0 = [0x00] := by decide +kernel
example : derInt 0x7F = [0x7F] := by decide +kernel
example : derInt 0x80 = [0x00, 0x80] := by decide +kernel
example : derInt 0x1234 = [0x12, 0x34] := by decide +kernel
example : derLen 70 = [70] := by decide +kernel
example : derLen 200 = [0x81, 200] := by decide +kernel
example : derLen 300 = [0x82, 0x01, 0x2C] := by decide +kernel
example : derSig (derInt 1) (derInt 0x80) = [0x30, 7, 0x02, 1, 1, 0x02, 2, 0, 0x80] := by decide +kernel

/-- The model's integer body (strip leading zeros from the 33-byte buffer) is the specification's
    minimal two's-complement encoding. -/
theorem intBody_spec (x : Nat) (h : x < 2 ^ 256) : Der.intBody x = derInt x := intBody_eq_derInt h

example : Der.intBody (2 ^ 255) = 0x00 :: 0x80 :: List.replicate 31 0 := by decide +kernel

/-- **B1. Serializer specification and size negotiation.**  For scalars `r, s < 2^256`, with
    `need = 6 + |derInt r| + |derInt s|`: if the buffer is too small (`size < need`) the call returns
    0, writes nothing and reports `need`; otherwise it returns 1, writes exactly the specification
    encoding `derSig (derInt r) (derInt s)` and reports `need`, which is the number of bytes written. -/
theorem sigSerialize_spec (r s size : Nat) (hr : r < 2 ^ 256) (hs : s < 2 ^ 256) :
    Der.sigSerialize r s size =
      (if size < 6 + (derInt r).length + (derInt s).length
       then (0, [], 6 + (derInt r).length + (derInt s).length)
       else (1, derSig (derInt r) (derInt s), 6 + (derInt r).length + (derInt s).length)) ∧
    (derSig (derInt r) (derInt s)).length = 6 + (derInt r).length + (derInt s).length :=
  ⟨sigSerialize_eq hr hs size, derSig_derInt_length hr hs⟩

/-- The return value is 0 exactly when the buffer is smaller than the needed size, and the reported
    size is the needed size in every case (never one more, never one less). -/
theorem sigSerialize_size (r s size : Nat) (hr : r < 2 ^ 256) (hs : s < 2 ^ 256) :
    ((Der.sigSerialize r s size).1 = 0 ↔ size < 6 + (derInt r).length + (derInt s).length) ∧
    (Der.sigSerialize r s size).2.2 = 6 + (derInt r).length + (derInt s).length ∧
    ((Der.sigSerialize r s size).1 = 1 →
      (Der.sigSerialize r s size).2.1.length = (Der.sigSerialize r s size).2.2) := by
  rw [sigSerialize_eq hr hs]
  split
  · rename_i h; simp [h]
  · rename_i h; simp [h, derSig_derInt_length hr hs]

example : Der.sigSerialize 1 0x80 8 = (0, [], 9) := by decide +kernel
example : Der.sigSerialize 1 0x80 9 = (1, [0x30, 7, 0x02, 1, 1, 0x02, 2, 0, 0x80], 9) := by decide +kernel
example : (Der.sigSerialize (N - 1) (N - 1) 71) = (0, [], 72) := by decide +kernel

/-- **B2. parse ∘ serialize = id** for scalars below the group order, whenever the buffer suffices. -/
theorem parse_serialize (r s size : Nat) (hr : r < N) (hs : s < N)
    (hsize : 6 + (derInt r).length + (derInt s).length ≤ size) :
    Der.sigParse (Der.sigSerialize r s size).2.1 = some (r, s) := by
  have hN := N_lt_2_256
  have hr' : r < 2 ^ 256 := by omega
  have hs' : s < 2 ^ 256 := by omega
  rw [sigSerialize_eq hr' hs', if_neg (by omega)]
  have h1 := derInt_length_le (k := 32) (x := r) (by simpa using hr')
  have h2 := derInt_length_le (k := 32) (x := s) (by simpa using hs')
  have hlen : (derTLV 0x02 (derInt r) ++ derTLV 0x02 (derInt s)).length < 256 ^ 8 := by
    simp only [List.length_append, derTLV_length]
    rw [derLen_short (n := (derInt r).length) (by omega), derLen_short (n := (derInt s).length) (by omega)]
    simp only [List.length_singleton]
    have : (100 : Nat) < 256 ^ 8 := by decide
    omega
  rw [sigParse_derSig (minimalInt_derInt r) (minimalInt_derInt s) hlen, clamp_derInt hr, clamp_derInt hs]

example : Der.sigParse (Der.sigSerialize (N - 1) 1 72).2.1 = some (N - 1, 1) :=
  parse_serialize (N - 1) 1 72 (by decide) (by decide) (by decide +kernel)

/-- **B3. Strictness / canonical form.**  `sigParse` accepts a byte string iff it is *exactly*
    `30 L 02 Lr R 02 Ls S` where every length is in minimal definite form (`derLen`; hence no indefinite
    and no non-minimal length octets), `R` and `S` are non-empty content octets without excessive
    0x00/0xFF padding (`MinimalInt`), and nothing follows; the scalars returned are `clamp R`, `clamp S`
    (the integer's value if it is non-negative and below `N`, otherwise 0).
    The side condition `… < 2^64` is the parser's `size_t` limit on the announced length. -/
theorem parse_canonical (bs : Bytes) (r s : Nat) :
    Der.sigParse bs = some (r, s) ↔
      ∃ rb sb, MinimalInt rb ∧ MinimalInt sb ∧
        (derTLV 0x02 rb ++ derTLV 0x02 sb).length < 2 ^ 64 ∧
        bs = derSig rb sb ∧ r = clamp rb ∧ s = clamp sb := by
  have e : (2 : Nat) ^ 64 = 256 ^ 8 := by decide
  rw [e]; exact sigParse_iff bs r s

example : Der.sigParse [0x30, 7, 0x02, 1, 1, 0x02, 2, 0, 0x80] = some (1, 0x80) := by decide +kernel
/-- a legitimately long-form outer length (content 136 bytes); the oversize integer reads as 0 -/
example : Der.sigParse ([0x30, 0x81, 0x88, 0x02, 0x81, 0x82] ++ (1 :: List.replicate 129 0) ++ [2, 1, 1]) =
    some (0, 1) := by decide +kernel
/-- negative integer reads as 0 -/
example : Der.sigParse [0x30, 6, 0x02, 1, 0x80, 0x02, 1, 1] = some (0, 1) := by decide +kernel
/-- value `N` reads as 0, value `N - 1` is kept -/
example : Der.sigParse ([0x30, 38, 0x02, 33, 0] ++ be32 N ++ [0x02, 1, 1]) = some (0, 1) := by
  decide +kernel
example : Der.sigParse ([0x30, 38, 0x02, 33, 0] ++ be32 (N - 1) ++ [0x02, 1, 1]) = some (N - 1, 1) := by
  decide +kernel

/-- The length reader accepts exactly the minimal definite length encodings (values that fit 64 bits);
    in the long form it additionally checks that the announced length fits in the remaining input. -/
theorem readLen_canonical (bs rest : Bytes) (n : Nat) :
    Der.readLen bs = some (n, rest) ↔
      bs = derLen n ++ rest ∧ n < 2 ^ 64 ∧ (128 ≤ n → n ≤ rest.length) := by
  have e : (2 : Nat) ^ 64 = 256 ^ 8 := by decide
  rw [e]; exact readLen_iff bs rest n

example : Der.readLen [0x05, 0xAA] = some (5, [0xAA]) := by decide +kernel
example : Der.readLen (0x81 :: 0x80 :: List.replicate 128 7) = some (128, List.replicate 128 7) := by
  decide +kernel

/-- Indefinite length (0x80) and the reserved octet 0xFF are rejected. -/
theorem readLen_indefinite (t : Bytes) : Der.readLen (0x80 :: t) = none ∧ Der.readLen (0xFF :: t) = none := by
  constructor <;> simp [Der.readLen]

/-- Non-minimal long form, first kind: a long-form length (`b ≥ 0x80`) whose first length octet is 0
    is rejected. -/
theorem readLen_nonminimal (b : UInt8) (t : Bytes) (hb128 : 128 ≤ b.toNat) :
    Der.readLen (b :: 0x00 :: t) = none := by
  have hb : ¬ b.toNat < 128 := by omega
  · show Der.readLen (b :: 0x00 :: t) = none
    cases h : Der.readLen (b :: 0x00 :: t) with
    | none => rfl
    | some p =>
      obtain ⟨n, rest⟩ := p
      obtain ⟨h1, h2, h3⟩ := readLen_some h
      by_cases hn : n < 128
      · rw [derLen_short hn] at h1
        simp only [List.cons_append, List.nil_append, List.cons.injEq] at h1
        have := congrArg UInt8.toNat h1.1
        rw [byte_ofNat_toNat_of_lt (by omega)] at this; omega
      · rw [derLen_long (by omega)] at h1
        cases hnb : natBytes n with
        | nil => rw [natBytes_eq_nil_iff] at hnb; omega
        | cons c u =>
          rw [hnb] at h1
          simp only [List.cons_append, List.cons.injEq] at h1
          exact absurd h1.2.1.symm (noLeadZero_natBytes n c u hnb)

/-- Non-minimal long form, second kind: `81 n` with `n < 128` (should have been the short form). -/
theorem readLen_long_small (n : UInt8) (t : Bytes) (h : n.toNat < 128) :
    Der.readLen (0x81 :: n :: t) = none := by
  have h1 : ((0x81 : UInt8) &&& 0x7F).toNat = 1 := by decide
  have h2 : ¬ ((0x81 : UInt8) = 0xFF) := by decide
  have h3 : ¬ ((0x81 : UInt8) &&& 0x80 = 0) := by decide
  have h4 : ¬ ((0x81 : UInt8) = 0x80) := by decide
  simp only [Der.readLen, h1, h2, h3, h4, if_false, List.take_succ_cons, List.take_zero, toNat_singleton,
    List.drop_succ_cons, List.drop_zero]
  simp [h]


example : Der.readLen [0x81, 0x7F] = none := readLen_long_small _ _ (by decide)
example : Der.readLen [0x82, 0x00, 0x80] = none := readLen_nonminimal _ _ (by decide)
example : Der.sigParse [0x30, 0x81, 6, 0x02, 1, 1, 0x02, 1, 2] = none := by decide +kernel
example : Der.sigParse [0x30, 0x80, 0x02, 1, 1, 0x02, 1, 2, 0, 0] = none := by decide +kernel

/-- The integer reader accepts exactly `02 L C` with `L` the minimal length of `C` and `C` minimal
    content octets; for arbitrary content octets `c` (shorter than 2^64) the TLV is accepted iff `c` is
    minimal: the empty integer, excessive 0x00 padding and excessive 0xFF padding are all rejected. -/
theorem parseInteger_canonical (bs rest : Bytes) (v : Nat) :
    Der.parseInteger bs = some (v, rest) ↔
      ∃ c, MinimalInt c ∧ c.length < 2 ^ 64 ∧ bs = derTLV 0x02 c ++ rest ∧ v = clamp c := by
  have e : (2 : Nat) ^ 64 = 256 ^ 8 := by decide
  rw [e]; exact parseInteger_iff bs rest v

/-- see `parseInteger_canonical` -/
theorem parseInteger_padding (c rest : Bytes) (hl : c.length < 2 ^ 64) :
    Der.parseInteger (derTLV 0x02 c ++ rest) = if MinimalInt c then some (clamp c, rest) else none := by
  have e : (2 : Nat) ^ 64 = 256 ^ 8 := by decide
  exact parseInteger_derTLV_any c rest (by omega)

example : Der.parseInteger [0x02, 2, 0x00, 0x80, 9] = some (0x80, [9]) := by decide +kernel
example : ¬ MinimalInt [0x00, 0x7F] := by decide
example : ¬ MinimalInt [0xFF, 0x80] := by decide
example : ¬ MinimalInt [] := by decide
example : Der.parseInteger [0x02, 2, 0x00, 0x7F] = none := by decide +kernel
example : Der.parseInteger [0x02, 2, 0xFF, 0x80] = none := by decide +kernel
example : Der.parseInteger [0x02, 0] = none := by decide +kernel

/-- For ARBITRARY content octets `rb`, `sb` placed in a correctly framed sequence (total length within
    `size_t`), the signature is accepted iff both are minimal: any empty integer or excessive 0x00 / 0xFF
    padding in either integer makes the whole signature rejected. -/
theorem parse_derSig_any (rb sb : Bytes) (hl : (derTLV 0x02 rb ++ derTLV 0x02 sb).length < 2 ^ 64) :
    Der.sigParse (derSig rb sb) =
      if MinimalInt rb ∧ MinimalInt sb then some (clamp rb, clamp sb) else none := by
  have e : (2 : Nat) ^ 64 = 256 ^ 8 := by decide
  rw [e] at hl
  have h1 : rb.length < 256 ^ 8 := by
    simp only [List.length_append, derTLV_length] at hl; omega
  have h2 : sb.length < 256 ^ 8 := by
    simp only [List.length_append, derTLV_length] at hl; omega
  rw [derSig_eq, sigParse_cons, readLen_derLen hl (fun _ => Nat.le_refl _)]
  simp only [ne_eq, not_true_eq_false, if_false]
  rw [parseInteger_derTLV_any rb _ h1]
  by_cases hr : MinimalInt rb
  · simp only [hr, if_true, true_and]
    have := parseInteger_derTLV_any sb [] h2
    rw [List.append_nil] at this
    rw [this]
    by_cases hs : MinimalInt sb <;> simp [hs]
  · simp [hr]

example : Der.sigParse (derSig [0x00, 0x01] [0x01]) = none := by
  rw [parse_derSig_any _ _ (by decide +kernel)]; decide
example : Der.sigParse (derSig [0x01] [0xFF, 0xFF]) = none := by
  rw [parse_derSig_any _ _ (by decide +kernel)]; decide
example : derSig [0x00, 0x01] [0x01] = [0x30, 7, 0x02, 2, 0, 1, 0x02, 1, 1] := by decide +kernel

/-- **No trailing bytes**: appending anything non-empty to an accepted signature makes it rejected. -/
theorem parse_no_trailing (bs t : Bytes) (v : Nat × Nat) (h : Der.sigParse bs = some v) (ht : t ≠ []) :
    Der.sigParse (bs ++ t) = none := sigParse_append_none h ht

/-- **No truncation**: every proper prefix of an accepted signature is rejected. -/
theorem parse_no_truncation (bs : Bytes) (k : Nat) (v : Nat × Nat) (h : Der.sigParse bs = some v)
    (hk : k < bs.length) : Der.sigParse (bs.take k) = none := sigParse_take_none h hk

example : Der.sigParse ([0x30, 6, 0x02, 1, 1, 0x02, 1, 2] ++ [0x00]) = none :=
  parse_no_trailing _ _ (1, 2) (by decide +kernel) (by decide)

/-- **Uniqueness of the encoding**: two accepted byte strings that carry in-range integers and parse to
    the same pair are equal — stated as the round trip below. -/
theorem serialize_parse_inRange (rb sb : Bytes) (hmr : MinimalInt rb) (hms : MinimalInt sb)
    (hr : InRange rb) (hs : InRange sb) :
    (Der.sigSerialize (clamp rb) (clamp sb) 72).2.1 = derSig rb sb := by
  obtain ⟨er, _⟩ := eq_derInt_of_inRange hmr hr
  obtain ⟨es, _⟩ := eq_derInt_of_inRange hms hs
  have hN := N_lt_2_256
  have hr' : clamp rb < 2 ^ 256 := by have := clamp_lt rb; omega
  have hs' : clamp sb < 2 ^ 256 := by have := clamp_lt sb; omega
  have h1 := derInt_length_le (k := 32) (x := clamp rb) (by simpa using hr')
  have h2 := derInt_length_le (k := 32) (x := clamp sb) (by simpa using hs')
  rw [sigSerialize_eq hr' hs', if_neg (by omega), ← er, ← es]

/-- **B3(ii). serialize ∘ parse = id.**  If a byte string is accepted and both scalars are non-zero
    (equivalently: neither integer was negative/oversize and clamped to zero, nor literally zero) then
    serializing the result into a 72-byte buffer reproduces the input byte for byte. -/
theorem serialize_parse (bs : Bytes) (r s : Nat) (h : Der.sigParse bs = some (r, s))
    (hr : r ≠ 0) (hs : s ≠ 0) : (Der.sigSerialize r s 72).2.1 = bs := by
  obtain ⟨rb, sb, hmr, hms, -, rfl, rfl, rfl⟩ := sigParse_some h
  exact serialize_parse_inRange rb sb hmr hms (inRange_of_clamp_ne_zero hr) (inRange_of_clamp_ne_zero hs)

/-- The same including the value zero (`02 01 00` is in range): for all minimal content octets
    denoting integers in `[0, N)`, the encoding is accepted with exactly those values, and serializing
    the parsed scalars reproduces it. -/
theorem serialize_parse_zero (rb sb : Bytes) (hmr : MinimalInt rb) (hms : MinimalInt sb)
    (hr : InRange rb) (hs : InRange sb) :
    Der.sigParse (derSig rb sb) = some (toNat rb, toNat sb) ∧
    (Der.sigSerialize (toNat rb) (toNat sb) 72).2.1 = derSig rb sb := by
  obtain ⟨er, cr⟩ := eq_derInt_of_inRange hmr hr
  obtain ⟨es, cs⟩ := eq_derInt_of_inRange hms hs
  have hN := N_lt_2_256
  have hr' : clamp rb < 2 ^ 256 := by have := clamp_lt rb; omega
  have hs' : clamp sb < 2 ^ 256 := by have := clamp_lt sb; omega
  have h1 := derInt_length_le (k := 32) (x := clamp rb) (by simpa using hr')
  have h2 := derInt_length_le (k := 32) (x := clamp sb) (by simpa using hs')
  rw [← er] at h1; rw [← es] at h2
  have hlen : (derTLV 0x02 rb ++ derTLV 0x02 sb).length < 256 ^ 8 := by
    simp only [List.length_append, derTLV_length]
    rw [derLen_short (n := rb.length) (by omega), derLen_short (n := sb.length) (by omega)]
    simp only [List.length_singleton]
    have : (100 : Nat) < 256 ^ 8 := by decide
    omega
  refine ⟨?_, ?_⟩
  · rw [sigParse_derSig hmr hms hlen, cr, cs]
  · rw [← cr, ← cs]; exact serialize_parse_inRange rb sb hmr hms hr hs

example : (Der.sigSerialize 1 0x80 72).2.1 = [0x30, 7, 0x02, 1, 1, 0x02, 2, 0, 0x80] :=
  serialize_parse _ 1 0x80 (by decide +kernel) (by decide) (by decide)
example : InRange [0x00] ∧ MinimalInt [0x00] := by decide

/-- **B4. Totality / bounds.**  `readLen` consumes at least one byte and returns a suffix of its input;
    in the long form the announced length fits the remaining input.  (In the short form `readLen` does
    NOT compare the length with the remaining input — exactly as the C code; the callers do.) -/
theorem readLen_bounds (bs rest : Bytes) (n : Nat) (h : Der.readLen bs = some (n, rest)) :
    rest.length < bs.length ∧ (128 ≤ n → n ≤ rest.length) ∧ n < 2 ^ 64 ∧ ∃ pre, bs = pre ++ rest :=
  DerSpec.readLen_bounds h

/-- The statement `readLen bs = some (n, rest) → n ≤ rest.length` is FALSE in the short form. -/
example : Der.readLen [0x05] = some (5, []) := by decide +kernel

/-- `parseInteger` consumes at least 3 bytes, returns a suffix of its input and a scalar below `N`. -/
theorem parseInteger_bounds (bs rest : Bytes) (v : Nat) (h : Der.parseInteger bs = some (v, rest)) :
    rest.length + 3 ≤ bs.length ∧ v < N ∧ ∃ pre, bs = pre ++ rest :=
  DerSpec.parseInteger_bounds h

/-- An accepted signature has at least 8 bytes and both scalars are below `N`. -/
theorem sigParse_bounds (bs : Bytes) (r s : Nat) (h : Der.sigParse bs = some (r, s)) :
    r < N ∧ s < N ∧ 8 ≤ bs.length := DerSpec.sigParse_bounds h

example : Der.parseInteger [0x02, 1, 5, 0xAA, 0xBB] = some (5, [0xAA, 0xBB]) := by decide +kernel

/-! ## C. Compact (64-byte) signatures -/

/-- The compact parser accepts iff both 32-byte halves are below the group order. -/
theorem parseCompact_iff (b : Bytes) :
    (Ecdsa.parseCompact b).1 = 1 ↔ toNat (b.take 32) < N ∧ toNat (b.drop 32) < N := by
  rw [parseCompact_eq]; split <;> simp [*]

/-- On acceptance the object holds exactly the two values. -/
theorem parseCompact_value (b : Bytes) (h : (Ecdsa.parseCompact b).1 = 1) :
    (Ecdsa.parseCompact b).2 = (toNat (b.take 32), toNat (b.drop 32)) := by
  have := (parseCompact_iff b).1 h
  rw [parseCompact_eq, if_pos this]

/-- On rejection the return value is 0 and the object is zeroed. -/
theorem parseCompact_fail (b : Bytes) (h : (Ecdsa.parseCompact b).1 ≠ 1) :
    Ecdsa.parseCompact b = (0, (0, 0)) := by
  rw [parseCompact_eq] at h ⊢; split
  · rename_i h'; rw [if_pos h'] at h; exact absurd rfl h
  · rfl

/-- serialize ∘ parse = id on accepted 64-byte strings. -/
theorem serializeCompact_parseCompact (b : Bytes) (hl : b.length = 64)
    (h : (Ecdsa.parseCompact b).1 = 1) : Ecdsa.serializeCompact (Ecdsa.parseCompact b).2 = b := by
  rw [parseCompact_value b h]
  simp only [Ecdsa.serializeCompact]
  rw [be32_toNat _ (by simp; omega), be32_toNat _ (by simp; omega), List.take_append_drop]

/-- parse ∘ serialize = id on signature objects (pairs of scalars below `N`). -/
theorem parseCompact_serializeCompact (r s : Nat) (hr : r < N) (hs : s < N) :
    Ecdsa.parseCompact (Ecdsa.serializeCompact (r, s)) = (1, (r, s)) := by
  have hN := N_lt_2_256
  have h1 : (Ecdsa.serializeCompact (r, s)).take 32 = be32 r := List.take_left' (be32_length r)
  have h2 : (Ecdsa.serializeCompact (r, s)).drop 32 = be32 s := List.drop_left' (be32_length r)
  rw [parseCompact_eq, h1, h2, toNat_be32 (by omega), toNat_be32 (by omega), if_pos ⟨hr, hs⟩]

example : Ecdsa.parseCompact (be32 (N - 1) ++ be32 1) = (1, (N - 1, 1)) := by decide +kernel
example : Ecdsa.parseCompact (be32 N ++ be32 1) = (0, (0, 0)) := by decide +kernel
example : Ecdsa.parseCompact (be32 1 ++ be32 (2 ^ 256 - 1)) = (0, (0, 0)) := by decide +kernel
example : Ecdsa.serializeCompact (Ecdsa.parseCompact (be32 5 ++ be32 (N - 1))).2 = be32 5 ++ be32 (N - 1) :=
  serializeCompact_parseCompact _ (by decide) (by decide +kernel)

/-! ## D. The object left by a failed or out-of-range parse never verifies -/

/-- A signature object with `r = 0` or `s = 0` never verifies, for any message and any key.  (This is
    what a DER parse leaves when an integer is negative or out of range: that scalar is 0.) -/
theorem verify_zero (sig : Nat × Nat) (h : sig.1 = 0 ∨ sig.2 = 0) (msg : Bytes) (pk : Pt) :
    (Ecdsa.verify sig msg pk).ret = 0 := by
  unfold Ecdsa.verify
  simp only
  split
  · rfl
  · split
    · rfl
    · simp [Ecdsa.sigVerify, h]

/-- The zeroed object `(0, 0)` left by any failed parse never verifies. -/
theorem parse_fail_never_verifies (msg : Bytes) (pk : Pt) : (Ecdsa.verify (0, 0) msg pk).ret = 0 :=
  verify_zero (0, 0) (Or.inl rfl) msg pk

/-- A failed DER parse returns 0 and leaves the zeroed object. -/
theorem parseDer_fail (b : Bytes) (h : (Ecdsa.parseDer b).1 ≠ 1) : Ecdsa.parseDer b = (0, (0, 0)) := by
  unfold Ecdsa.parseDer at h ⊢
  split
  · rename_i heq; rw [heq] at h; exact absurd rfl h
  · rfl

/-- The API wrapper succeeds exactly when the strict parser does, with the same scalars. -/
theorem parseDer_iff (b : Bytes) (r s : Nat) :
    Ecdsa.parseDer b = (1, (r, s)) ↔ Der.sigParse b = some (r, s) := by
  unfold Ecdsa.parseDer
  split
  · rename_i rs heq; simp [heq]
  · rename_i heq; simp [heq]

/-- Whatever a compact parse that did not succeed leaves behind never verifies. -/
theorem parseCompact_fail_never_verifies (b msg : Bytes) (pk : Pt) (h : (Ecdsa.parseCompact b).1 ≠ 1) :
    (Ecdsa.verify (Ecdsa.parseCompact b).2 msg pk).ret = 0 := by
  rw [parseCompact_fail b h]; exact parse_fail_never_verifies msg pk

/-- Whatever a DER parse that did not succeed leaves behind never verifies. -/
theorem parseDer_fail_never_verifies (b msg : Bytes) (pk : Pt) (h : (Ecdsa.parseDer b).1 ≠ 1) :
    (Ecdsa.verify (Ecdsa.parseDer b).2 msg pk).ret = 0 := by
  rw [parseDer_fail b h]; exact parse_fail_never_verifies msg pk

/-- Integer content octets that are negative or not below `N` are read as the scalar 0. -/
theorem clamp_eq_zero_of_not_inRange (c : Bytes) (h : ¬ InRange c) : clamp c = 0 :=
  Classical.byContradiction fun hc => h (inRange_of_clamp_ne_zero hc)

/-- A well-formed DER signature whose `r` or `s` is negative or out of range parses successfully
    (return value 1) to an object with that scalar zero — and this object never verifies. -/
theorem parseDer_out_of_range_never_verifies (rb sb msg : Bytes) (pk : Pt)
    (hmr : MinimalInt rb) (hms : MinimalInt sb)
    (hl : (derTLV 0x02 rb ++ derTLV 0x02 sb).length < 2 ^ 64)
    (hr : ¬ InRange rb ∨ ¬ InRange sb) :
    Ecdsa.parseDer (derSig rb sb) = (1, (clamp rb, clamp sb)) ∧
    (Ecdsa.verify (Ecdsa.parseDer (derSig rb sb)).2 msg pk).ret = 0 := by
  have e : (2 : Nat) ^ 64 = 256 ^ 8 := by decide
  have hp : Ecdsa.parseDer (derSig rb sb) = (1, (clamp rb, clamp sb)) :=
    (parseDer_iff _ _ _).2 (sigParse_derSig hmr hms (by omega))
  refine ⟨hp, ?_⟩
  rw [hp]
  apply verify_zero
  rcases hr with h | h
  · exact Or.inl (clamp_eq_zero_of_not_inRange _ h)
  · exact Or.inr (clamp_eq_zero_of_not_inRange _ h)

example : (Ecdsa.verify (0, 0) (be32 1) Pt.G).ret = 0 := parse_fail_never_verifies _ _
example : Ecdsa.parseDer [0x30, 6, 0x02, 1, 1, 0x02, 1, 2, 0x00] = (0, (0, 0)) := by decide +kernel
example : Ecdsa.parseDer [0x30, 6, 0x02, 1, 0x80, 0x02, 1, 1] = (1, (0, 1)) := by decide +kernel
example : ¬ InRange [0x80] := by decide

/-! ## E. Public keys -/

/-- The empty string is rejected. -/
theorem pubkeyParse_nil : Codec.pubkeyParse [] = none := rfl

/-- **E1. The public-key parser accepts exactly the admitted strings.**  `pubkeyParse pub = some p` iff
    either `pub` is 33 bytes `tag ‖ X` with `tag ∈ {2,3}`, `X < P` and the abscissa lifts to a curve point
    `p` with the parity of `y` requested by the tag; or `pub` is 65 bytes `tag ‖ X ‖ Y` with
    `tag ∈ {4,6,7}`, `X, Y < P`, for the hybrid tags the parity of `Y` matches the tag (6 even, 7 odd),
    `(X, Y)` satisfies the curve equation, and `p = (X, Y)`.  Everything else is rejected (see also
    `pubkeyParse_bad_length`, `pubkeyParse_bad_prefix`). -/
theorem pubkeyParse_iff (pub : Bytes) (p : Pt) :
    Codec.pubkeyParse pub = some p ↔
      (∃ tag xb, pub = tag :: xb ∧ xb.length = 32 ∧ (tag = 0x02 ∨ tag = 0x03) ∧ toNat xb < P ∧
          Pt.liftX (toNat xb) (decide (tag = 0x03)) = some p) ∨
      (∃ tag xb yb, pub = tag :: (xb ++ yb) ∧ xb.length = 32 ∧ yb.length = 32 ∧
          (tag = 0x04 ∨ tag = 0x06 ∨ tag = 0x07) ∧ toNat xb < P ∧ toNat yb < P ∧
          (tag = 0x06 → toNat yb % 2 = 0) ∧ (tag = 0x07 → toNat yb % 2 = 1) ∧
          Pt.onCurveXY (toNat xb) (toNat yb) = true ∧ p = Pt.aff (toNat xb) (toNat yb)) := by
  constructor
  · intro h
    cases pub with
    | nil => cases h
    | cons tag rest =>
      rw [pubkeyParse_cons] at h
      split at h
      · rename_i h33
        split at h
        · rename_i hx
          exact Or.inl ⟨tag, rest, rfl, h33.1, h33.2, hx, h⟩
        · cases h
      · split at h
        · rename_i h65
          split at h
          · rename_i hc
            obtain ⟨hx, hy, hp, hon⟩ := hc
            cases h
            refine Or.inr ⟨tag, rest.take 32, rest.drop 32, by rw [List.take_append_drop], ?_, ?_, h65.2,
              hx, hy, hp.1, hp.2, hon, rfl⟩
            · simp; omega
            · simp; omega
          · cases h
        · cases h
  · rintro (⟨tag, xb, rfl, hl, ht, hx, hlift⟩ | ⟨tag, xb, yb, rfl, hlx, hly, ht, hx, hy, h6, h7, hon, rfl⟩)
    · rw [pubkeyParse_cons, if_pos ⟨hl, ht⟩, if_pos hx, hlift]
    · have hne : ¬ ((xb ++ yb).length = 32 ∧ (tag = 0x02 ∨ tag = 0x03)) := by
        simp; omega
      have h64 : (xb ++ yb).length = 64 := by simp; omega
      rw [pubkeyParse_cons, if_neg hne, if_pos ⟨h64, ht⟩, List.take_left' hlx, List.drop_left' hlx,
        if_pos ⟨hx, hy, ⟨h6, h7⟩, hon⟩]

example : Codec.pubkeyParse (0x02 :: be32 Pt.Gx) = some Pt.G := by decide +kernel
example : Codec.pubkeyParse (0x03 :: be32 Pt.Gx) = some (Pt.aff Pt.Gx (P - Pt.Gy)) := by decide +kernel
example : Codec.pubkeyParse (0x04 :: (be32 Pt.Gx ++ be32 Pt.Gy)) = some Pt.G := by decide +kernel
example : Codec.pubkeyParse (0x06 :: (be32 Pt.Gx ++ be32 Pt.Gy)) = some Pt.G := by decide +kernel
/-- hybrid prefix with the wrong parity -/
example : Codec.pubkeyParse (0x07 :: (be32 Pt.Gx ++ be32 Pt.Gy)) = none := by decide +kernel
/-- coordinate not below the field prime (`Gx + P < 2^256` would alias `Gx`) -/
example : Codec.pubkeyParse (0x04 :: (be32 (Pt.Gx + P) ++ be32 Pt.Gy)) = none := by decide +kernel
example : Codec.pubkeyParse (0x02 :: be32 P) = none := by decide +kernel
/-- not on the curve -/
example : Codec.pubkeyParse (0x04 :: (be32 Pt.Gx ++ be32 (Pt.Gy + 1))) = none := by decide +kernel
/-- abscissa with no point (x = 5: 5^3 + 7 = 132 is not a square mod P) -/
example : Codec.pubkeyParse (0x02 :: be32 5) = none := by decide +kernel

/-- Every length other than 33 and 65 is rejected (including the empty string). -/
theorem pubkeyParse_bad_length (pub : Bytes) (h33 : pub.length ≠ 33) (h65 : pub.length ≠ 65) :
    Codec.pubkeyParse pub = none := by
  cases pub with
  | nil => rfl
  | cons tag rest =>
    simp only [List.length_cons] at h33 h65
    rw [pubkeyParse_cons, if_neg (fun h => h33 (by omega)), if_neg (fun h => h65 (by omega))]

example : Codec.pubkeyParse (0x02 :: be32 Pt.Gx ++ [0x00]) = none :=
  pubkeyParse_bad_length _ (by decide) (by decide)

/-- Every prefix byte other than 2, 3 (with 33 bytes) and 4, 6, 7 (with 65 bytes) is rejected; so is a
    compressed prefix on a 65-byte string or an uncompressed/hybrid prefix on a 33-byte string. -/
theorem pubkeyParse_bad_prefix (tag : UInt8) (rest : Bytes)
    (h : ¬ (rest.length = 32 ∧ (tag = 0x02 ∨ tag = 0x03)) ∧
         ¬ (rest.length = 64 ∧ (tag = 0x04 ∨ tag = 0x06 ∨ tag = 0x07))) :
    Codec.pubkeyParse (tag :: rest) = none := by
  rw [pubkeyParse_cons, if_neg h.1, if_neg h.2]

example : Codec.pubkeyParse (0x05 :: (be32 Pt.Gx ++ be32 Pt.Gy)) = none :=
  pubkeyParse_bad_prefix _ _ (by decide +kernel)
example : Codec.pubkeyParse (0x04 :: be32 Pt.Gx) = none :=
  pubkeyParse_bad_prefix _ _ (by decide +kernel)

/-- The API wrapper `secp256k1_ec_pubkey_parse` returns 1 with the parsed point, or 0 with the zeroed
    object, and never raises the illegal-argument callback. -/
theorem ecPubkeyParse_spec (input : Bytes) :
    (∀ p, Codec.pubkeyParse input = some p → Codec.ecPubkeyParse input = ⟨1, p, 0⟩) ∧
    (Codec.pubkeyParse input = none → Codec.ecPubkeyParse input = ⟨0, .inf, 0⟩) := by
  unfold Codec.ecPubkeyParse
  constructor
  · intro p h; rw [h]
  · intro h; rw [h]

example : (Codec.ecPubkeyParse (0x02 :: be32 Pt.Gx)).ret = 1 := by decide +kernel

/-- The uncompressed serialization is `04 ‖ X ‖ Y` (32-byte big-endian coordinates). -/
theorem serialize65_aff (x y : Nat) : Codec.serialize65 (Pt.aff x y) = 0x04 :: (be32 x ++ be32 y) := rfl

/-- parse ∘ serialize = id (uncompressed form) for every point satisfying the curve equation. -/
theorem pubkeyParse_serialize65 {x y : Nat} (h : Pt.onCurveXY x y = true) :
    Codec.pubkeyParse (Codec.serialize65 (Pt.aff x y)) = some (Pt.aff x y) := by
  obtain ⟨hx, hy⟩ := onCurveXY_lt h
  have hP := P_lt_2_256
  rw [pubkeyParse_iff]
  have ex : toNat (be32 x) = x := toNat_be32 (by omega)
  have ey : toNat (be32 y) = y := toNat_be32 (by omega)
  refine Or.inr ⟨0x04, be32 x, be32 y, rfl, by simp, by simp, Or.inl rfl, ?_, ?_,
    fun h => absurd h (by decide), fun h => absurd h (by decide), ?_, ?_⟩
  · rw [ex]; exact hx
  · rw [ey]; exact hy
  · rw [ex, ey]; exact h
  · rw [ex, ey]

example : Codec.pubkeyParse (Codec.serialize65 Pt.G) = some Pt.G :=
  pubkeyParse_serialize65 (x := Pt.Gx) (y := Pt.Gy) (by decide +kernel)

/-- Serializing (uncompressed) a key parsed from any 65-byte form reproduces the coordinates, with the
    prefix normalised to 0x04: hybrid keys map to their uncompressed form. -/
theorem serialize65_pubkeyParse {tag : UInt8} {xy : Bytes} {p : Pt} (hl : xy.length = 64)
    (h : Codec.pubkeyParse (tag :: xy) = some p) : Codec.serialize65 p = 0x04 :: xy := by
  rw [pubkeyParse_iff] at h
  rcases h with ⟨tag', xb, he, hlx, -⟩ | ⟨tag', xb, yb, he, hlx, hly, -, -, -, -, -, -, rfl⟩
  · cases he; omega
  · cases he
    rw [serialize65_aff, be32_toNat _ hlx, be32_toNat _ hly]

example : Codec.serialize65 Pt.G = 0x04 :: (be32 Pt.Gx ++ be32 Pt.Gy) :=
  serialize65_pubkeyParse (tag := 0x06) (by decide) (by decide +kernel)

/-- Buffer-length contract of `secp256k1_ec_pubkey_serialize`: if `*outputlen` is smaller than the
    needed size (33 compressed, 65 uncompressed) the call returns 0, raises the illegal-argument
    callback once, writes nothing and leaves `*outputlen` unchanged. -/
theorem ecPubkeySerialize_short (pk : Pt) (outlen : Nat) (compressed : Bool)
    (h : outlen < (if compressed then 33 else 65)) :
    Codec.ecPubkeySerialize pk outlen compressed = ⟨0, ([], outlen), 1⟩ := by
  unfold Codec.ecPubkeySerialize
  simp only
  rw [if_pos h]

example : Codec.ecPubkeySerialize Pt.G 64 false = ⟨0, ([], 64), 1⟩ :=
  ecPubkeySerialize_short _ _ _ (by decide)

/-- With a sufficient buffer and a valid (non-zeroed) key object the call returns 1, writes the
    serialization at the start of the buffer (the rest of the buffer is zero) and sets `*outputlen`
    to the number of bytes written. -/
theorem ecPubkeySerialize_ok (x y : Nat) (outlen : Nat) (compressed : Bool)
    (h : (if compressed then 33 else 65) ≤ outlen) :
    Codec.ecPubkeySerialize (Pt.aff x y) outlen compressed =
      ⟨1, ((if compressed then Codec.serialize33 (Pt.aff x y) else Codec.serialize65 (Pt.aff x y)) ++
            Bytes.zeros (outlen - (if compressed then 33 else 65)),
           if compressed then 33 else 65), 0⟩ := by
  unfold Codec.ecPubkeySerialize
  simp only
  rw [if_neg (by omega)]

example : (Codec.ecPubkeySerialize Pt.G 33 true).out = (0x02 :: be32 Pt.Gx, 33) := by decide +kernel


/-- Round trip parse → serialize for the compressed form. The hypothesis `p.yOf ≠ 0` holds for every
    point of the curve (there is no point with `y = 0` since `-7` is not a cube mod `P`); that fact
    needs field theory proved elsewhere, hence `_partial`.
    Full statement: the same without the hypothesis `hy`. -/
theorem serialize33_pubkeyParse_partial {tag : UInt8} {xb : Bytes} {p : Pt} (hl : xb.length = 32)
    (h : Codec.pubkeyParse (tag :: xb) = some p) (hy : p.yOf ≠ 0) :
    Codec.serialize33 p = tag :: xb := by
  rw [pubkeyParse_iff] at h
  rcases h with ⟨tag', xb', he, hlx, ht, hx, hlift⟩ | ⟨tag', xb', yb, he, hlx, hly, -⟩
  · cases he
    obtain ⟨y, hyP, rfl⟩ := liftX_some hlift
    have hP2 := P_odd
    replace hy : (if Fe.isOdd y = decide (tag = 3) then y else Fe.neg y) ≠ 0 := hy
    rw [Nat.mod_eq_of_lt hx]
    show (if Fe.isOdd (if Fe.isOdd y = decide (tag = 3) then y else Fe.neg y) = true then (0x03 : UInt8) else 0x02) ::
      be32 (toNat xb) = _
    rw [be32_toNat _ hlx]
    have key : Fe.isOdd (if Fe.isOdd y = decide (tag = 3) then y else Fe.neg y) = decide (tag = 3) := by
      by_cases hpar : Fe.isOdd y = decide (tag = 3)
      · rw [if_pos hpar]; exact hpar
      · rw [if_neg hpar] at hy ⊢
        have hy0 : y ≠ 0 := by
          intro h0; subst h0; simp [Fe.neg] at hy
        have hneg : Fe.neg y = P - y := by
          unfold Fe.neg; rw [Nat.mod_eq_of_lt hyP, Nat.mod_eq_of_lt (by omega)]
        rw [hneg]
        unfold Fe.isOdd at hpar ⊢
        by_cases h3 : tag = 3
        · simp only [h3, decide_true, decide_eq_true_eq] at hpar ⊢; omega
        · simp only [h3, decide_false, decide_eq_false_iff_not] at hpar ⊢; omega
    rw [key]
    rcases ht with rfl | rfl
    · rfl
    · rfl
  · cases he; simp at hl; omega

example : Codec.serialize33 Pt.G = 0x02 :: be32 Pt.Gx :=
  serialize33_pubkeyParse_partial (tag := 0x02) (by decide) (by decide +kernel) (by decide +kernel)

/-- Round trip serialize → parse for the compressed form, given that lifting the abscissa with the
    parity of `y` returns the point itself (square-root correctness, proved elsewhere).
    Full statement: the same without the hypothesis `hlift`. -/
theorem pubkeyParse_serialize33_partial {x y : Nat} (h : Pt.onCurveXY x y = true)
    (hlift : Pt.liftX x (Fe.isOdd y) = some (Pt.aff x y)) :
    Codec.pubkeyParse (Codec.serialize33 (Pt.aff x y)) = some (Pt.aff x y) := by
  obtain ⟨hx, _⟩ := onCurveXY_lt h
  have hP := P_lt_2_256
  have ex : toNat (be32 x) = x := toNat_be32 (by omega)
  rw [pubkeyParse_iff]
  refine Or.inl ⟨_, be32 x, rfl, by simp, ?_, by rw [ex]; exact hx, ?_⟩
  · by_cases ho : Fe.isOdd y = true <;> simp [ho]
  · have : decide ((if Fe.isOdd y = true then (0x03 : UInt8) else 0x02) = 0x03) = Fe.isOdd y := by
      by_cases ho : Fe.isOdd y = true
      · simp [ho]
      · simp [ho]
    rw [ex, this, hlift]

example : Codec.pubkeyParse (Codec.serialize33 Pt.G) = some Pt.G :=
  pubkeyParse_serialize33_partial (x := Pt.Gx) (y := Pt.Gy) (by decide +kernel) (by decide +kernel)

/-- The x-only parser accepts a 32-byte string iff its value is below `P` and lifts to a curve point;
    the object is that point with even `y`-parity request (`liftX x false`). -/
theorem xonlyParse_iff (b : Bytes) (p : Pt) :
    Codec.xonlyParse b = ⟨1, p, 0⟩ ↔ toNat b < P ∧ Pt.liftX (toNat b) false = some p := by
  unfold Codec.xonlyParse
  rw [feLimit_eq]
  by_cases hx : toNat b < P
  · simp only [hx, if_true, true_and]
    cases hl : Pt.liftX (toNat b) false with
    | none => simp
    | some q => simp
  · simp [hx]

example : Codec.xonlyParse (be32 Pt.Gx) = ⟨1, Pt.G, 0⟩ :=
  (xonlyParse_iff _ _).2 ⟨by decide +kernel, by decide +kernel⟩

/-- On rejection the x-only parser returns 0 and leaves the zeroed object. -/
theorem xonlyParse_fail (b : Bytes) (h : (Codec.xonlyParse b).ret ≠ 1) :
    Codec.xonlyParse b = ⟨0, .inf, 0⟩ := by
  unfold Codec.xonlyParse at h ⊢
  split
  · rfl
  · split
    · rfl
    · rename_i h1 _ _ h2; rw [h1] at h; simp only [h2] at h; exact absurd rfl h

example : Codec.xonlyParse (be32 P) = ⟨0, .inf, 0⟩ := xonlyParse_fail _ (by decide +kernel)

end C03
end SecpZkp
