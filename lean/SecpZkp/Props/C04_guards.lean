import SecpZkp.Gen.Guards
/-! # C04 — the argument checks the model assumes are present at the C call sites (translator mode G)

`Gen.callFacts` is regenerated from clang's AST of /repo on every run (tools/c2lean_g.py): one fact per call of a
fallible primitive (range-checked field/scalar decoding, curve membership, infinity / zero tests, nested parsers)
inside the functions this property is anchored in, saying whether the call's result steers control flow
(`resultChecked`) and whether the overflow flag it writes is read before being overwritten (`flag = some true`;
`none` = the call passes NULL, i.e. reduces silently).  The executable model rejects out-of-range encodings at
exactly these places; the theorems below pin the C side to the same shape.  A fact list that no longer matches
is a broken tie (the check then searches for a failing input with the differential generators). -/
namespace SecpZkp.Props.C04_guards
open SecpZkp.Gen

/-- `secp256k1_ec_seckey_tweak_add`: its fallible-primitive call sites are exactly these, each with its result / overflow flag
    consumed as listed. -/
theorem ec_seckey_tweak_add_sites : Facts.ec_seckey_tweak_add = [
    ⟨.scalar_set_b32_seckey, 1, true, none⟩,
    ⟨.ec_seckey_tweak_add_helper, 1, true, none⟩
  ] := by decide

/-- `secp256k1_ec_seckey_tweak_mul`: its fallible-primitive call sites are exactly these, each with its result / overflow flag
    consumed as listed. -/
theorem ec_seckey_tweak_mul_sites : Facts.ec_seckey_tweak_mul = [
    ⟨.scalar_set_b32, 1, false, some true⟩,
    ⟨.scalar_set_b32_seckey, 1, true, none⟩
  ] := by decide

/-- `secp256k1_ec_seckey_tweak_add_helper`: its fallible-primitive call sites are exactly these, each with its result / overflow flag
    consumed as listed. -/
theorem ec_seckey_tweak_add_helper_sites : Facts.ec_seckey_tweak_add_helper = [
    ⟨.scalar_set_b32, 1, false, some true⟩
  ] := by decide

/-- `secp256k1_ec_pubkey_tweak_add_helper`: its fallible-primitive call sites are exactly these, each with its result / overflow flag
    consumed as listed. -/
theorem ec_pubkey_tweak_add_helper_sites : Facts.ec_pubkey_tweak_add_helper = [
    ⟨.scalar_set_b32, 1, false, some true⟩
  ] := by decide

/-- `secp256k1_ec_pubkey_tweak_mul`: its fallible-primitive call sites are exactly these, each with its result / overflow flag
    consumed as listed. -/
theorem ec_pubkey_tweak_mul_sites : Facts.ec_pubkey_tweak_mul = [
    ⟨.scalar_set_b32, 1, false, some true⟩,
    ⟨.pubkey_load, 1, true, none⟩
  ] := by decide

/-- `secp256k1_ec_pubkey_create_helper`: its fallible-primitive call sites are exactly these, each with its result / overflow flag
    consumed as listed. -/
theorem ec_pubkey_create_helper_sites : Facts.ec_pubkey_create_helper = [
    ⟨.scalar_set_b32_seckey, 1, true, none⟩
  ] := by decide

/-- `secp256k1_ec_seckey_negate`: its fallible-primitive call sites are exactly these, each with its result / overflow flag
    consumed as listed. -/
theorem ec_seckey_negate_sites : Facts.ec_seckey_negate = [
    ⟨.scalar_set_b32_seckey, 1, true, none⟩
  ] := by decide

/-- `secp256k1_ec_seckey_verify`: its fallible-primitive call sites are exactly these, each with its result / overflow flag
    consumed as listed. -/
theorem ec_seckey_verify_sites : Facts.ec_seckey_verify = [
    ⟨.scalar_set_b32_seckey, 1, true, none⟩
  ] := by decide

/-- `secp256k1_keypair_seckey_load`: its fallible-primitive call sites are exactly these, each with its result / overflow flag
    consumed as listed. -/
theorem keypair_seckey_load_sites : Facts.keypair_seckey_load = [
    ⟨.scalar_set_b32_seckey, 1, true, none⟩
  ] := by decide

/-- `secp256k1_scalar_set_b32_seckey`: its fallible-primitive call sites are exactly these, each with its result / overflow flag
    consumed as listed. -/
theorem scalar_set_b32_seckey_sites : Facts.scalar_set_b32_seckey = [
    ⟨.scalar_set_b32, 1, false, some true⟩,
    ⟨.scalar_is_zero, 1, true, none⟩
  ] := by decide

def all : List CallFact := Facts.ec_seckey_tweak_add ++ Facts.ec_seckey_tweak_mul ++ Facts.ec_seckey_tweak_add_helper ++ Facts.ec_pubkey_tweak_add_helper ++ Facts.ec_pubkey_tweak_mul ++ Facts.ec_pubkey_create_helper ++ Facts.ec_seckey_negate ++ Facts.ec_seckey_verify ++ Facts.keypair_seckey_load ++ Facts.scalar_set_b32_seckey

/-- No overflow flag written by a scalar decoding in these functions is ignored (overwritten or never read). -/
theorem no_flag_dropped : ∀ f ∈ all, f.flag ≠ some false := by decide

/-- non-vacuity: the regenerated fact lists are not empty -/
example : all.length = 14 := by decide

end SecpZkp.Props.C04_guards
